#!/usr/bin/env python3
"""print the prompt for an independent seeding sub-agent: tools/seed_prompt.py Cxx [n_changes]"""
import json, sys
pid = sys.argv[1]; n = int(sys.argv[2]) if len(sys.argv) > 2 else 2
p = next(json.loads(l) for l in open('/verif/properties.jsonl') if json.loads(l)['id'] == pid)
wt = f"/tmp/seed-{pid}"
print(f"""You are testing how robust a Rust project's guarantees are. You have your own scratch git worktree of the project (EmmyLuaLs/emmylua-analyzer-rust, a Lua language server / analyzer / formatter) at {wt} — work ONLY there (never touch /repo or /verif; do not read anything under /verif). Build with `cd {wt} && cargo build --offline -p <crate>` and test with `cargo test --offline -p <crate> -- --test-threads=4` (no network; the worktree has its own target dir; the first build of emmylua_code_analysis takes several minutes; the machine is shared and loaded, be patient; tests marked #[timeout] can flake under load — re-run those alone before concluding).

The property under test:

"{p['title']}. {p['statement']}" (Quantified over: {p['quantifier']['text']} Anchored in: {', '.join(p['anchors']['files'])}.)

Task: produce {n} different, realistic source changes (the kind of edit a developer could plausibly make: an optimisation, a refactor, a "simplification", a boundary-case slip, a reordering) each of which BREAKS this property while the project still compiles and its existing test suite still passes (run at least the test suites of every crate you touch and of `emmylua_code_analysis` / `emmylua_ls` if they depend on it; once per candidate, at the end). Prefer changes that need something specific to manifest — an unusual input, a multi-step sequence of operations, a particular interleaving or crash point, or two cooperating sites that each look fine alone — not ones that ordinary use would expose at once. The changes must be genuinely different from each other (different site or different mechanism).

For each change deliver, in {wt}/out/<n>/ (n = 1..{n}):
- `patch.diff` — `git diff` of the change against the worktree's HEAD (apply-able with `git apply`), containing ONLY the source change;
- a demonstration that FAILS with the change and PASSES without it, preferably `demo.rs`: a Rust integration test file using only public API of one crate, runnable by copying it to `crates/<crate>/tests/seed_demo.rs` and `cargo test --offline -p <crate> --test seed_demo`; if the property can only be observed on a binary (process exit status, stdio protocol, files on disk) deliver instead `demo.sh <worktree>` (exit 0 = property holds, non-zero = violated; it may build binaries with cargo in that worktree);
- `meta.json`: {{"what": "...", "needs_to_manifest": "...", "demo_crate": "<crate>", "demo_file": "demo.rs"|"demo.sh", "suites": ["<crates whose tests you ran with the change>"]}};
- `README.md` — what the change looks like, the slip, what it needs to manifest, exact commands.
After producing each diff, `git checkout -- .` (keep out/ — it is untracked) so the next change starts from the clean HEAD. Confirm for each: compiles, listed test suites pass with the change, demo fails with and passes without. Final message: a short table of the changes (what, where, what input/sequence exposes it).""")
