#!/bin/sh
# Run checks against a seeded change WITHOUT touching /repo or /verif (other work keeps running):
# a scratch worktree of /repo (+ patch) and a copy of /verif are bind-mounted over /repo and /verif
# inside a private mount namespace; build output goes to /tmp/seed-run/target*.
# usage: tools/seedtest.sh <patch.diff|none> <Cxx> [Cxx …]      (env: TIER=quick|thorough, SLOT=name)
set -e
PATCH="$1"; shift
SLOT="${SLOT:-p$$}"          # default: a private slot per invocation (named slots keep their build cache)
BASE=/tmp/seed-run/$SLOT
mkdir -p $BASE
exec 8>$BASE/.slotlock
flock 8                       # one run per slot at a time
WT=$BASE/repo
V=$BASE/verif
mkdir -p $BASE/target $BASE/target-bins
# git worktree bookkeeping is not safe to run from two slots at once: serialise it
(
  flock 9
  git -C /repo worktree remove --force $WT 2>/dev/null || true
  rm -rf $WT
  git -C /repo worktree prune
  git -C /repo worktree add -q --detach $WT HEAD
) 9>/tmp/seed-run/.gitlock
if [ "$PATCH" != "none" ]; then git -C $WT apply "$PATCH"; fi
rsync -a --delete --exclude 'harness/target' --exclude 'harness/target-bins' --exclude '.git' --exclude 'replays' --exclude '.work' --exclude '.locks' /verif/ $V/ || [ $? -eq 24 ]   # 24 = files vanished while copying (other checks running)
mkdir -p $V/harness/target $V/harness/target-bins
# warm the private target dirs once from the shared ones (saves a cold build)
[ -d $BASE/target/debug ] || cp -a /verif/harness/target/. $BASE/target/ 2>/dev/null || true
TIER="${TIER:-quick}"
PROPS="$*"
unshare -m sh -c "
  mount --bind $WT /repo && mount --bind $V /verif &&
  mount --bind $BASE/target /verif/harness/target && mount --bind $BASE/target-bins /verif/harness/target-bins &&
  cd /verif && for p in $PROPS; do ./check \$p --tier $TIER || true; done
  for p in $PROPS; do ls replays/\$p 2>/dev/null | head -3; done
"
(
  flock 9
  git -C /repo worktree remove --force $WT
  git -C /repo worktree prune
) 9>/tmp/seed-run/.gitlock
