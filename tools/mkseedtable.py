#!/usr/bin/env python3
"""Rewrite the seed table of DESIGN.md §13.3 (between the SEEDTABLE markers) from seeded/*/meta.json."""
import json, glob, os, re
ROOT = os.path.dirname(os.path.dirname(os.path.abspath(__file__)))
rows = ["| seed | change (what it needs to manifest) | confirmed | result per check |", "|---|---|---|---|"]
def key(p):
    m = re.match(r".*/C(\d+)-(\d+)$", p); return (int(m.group(1)), int(m.group(2)))
for d in sorted(glob.glob(os.path.join(ROOT, "seeded", "C*-*")), key=key):
    m = json.load(open(os.path.join(d, "meta.json")))
    c = m.get("confirmed", {})
    suites = c.get("suites_with_patch", {})
    conf = "-"
    if c:
        ok = c.get("demo_on_clean") == "pass" and c.get("demo_with_patch") == "fail"
        bad = [k for k, v in suites.items() if v != "pass"]
        conf = ("demo passes clean / fails patched" if ok else "demo: " + str(c.get("demo_on_clean")) + "/" + str(c.get("demo_with_patch"))) + \
               ("; suites pass" if suites and not bad else ("; suites with failures: " + ", ".join(bad) if bad else ""))
    res = "; ".join(f"**{k}**: {v}" for k, v in m.get("checks_result", {}).items()) or "(not run yet)"
    what = (m.get("what", "") or "").replace("|", "\\|").replace("\n", " ")
    needs = (m.get("needs_to_manifest", "") or "").replace("|", "\\|").replace("\n", " ")
    rows.append(f"| {m.get('id', os.path.basename(d))} | {what[:400]} (needs: {needs[:300]}) | {conf} | {res} |")
p = os.path.join(ROOT, "DESIGN.md")
s = open(p).read()
a, b = "<!-- SEEDTABLE BEGIN -->", "<!-- SEEDTABLE END -->"
s = s[:s.index(a) + len(a)] + "\n" + "\n".join(rows) + "\n" + s[s.index(b):]
open(p, "w").write(s)
print(len(rows) - 2, "seeds")
