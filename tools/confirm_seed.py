#!/usr/bin/env python3
"""tools/confirm_seed.py <seed_dir> [--no-suites]
Confirm a seeded change in a scratch worktree (never in /repo): patch applies and compiles, the demo
(an integration test file for `demo_crate`) passes on clean HEAD and fails with the patch, and the listed
existing test suites still pass with the patch. Writes the outcome into <seed_dir>/meta.json."""
import sys, os, json, subprocess, shutil, time
seed = os.path.abspath(sys.argv[1])
meta_p = os.path.join(seed, "meta.json")
meta = json.load(open(meta_p))
BASE = "/tmp/seed-confirm" + os.environ.get("CONFIRM_SLOT", "")
WT = os.path.join(BASE, "wt")
env = dict(os.environ, CARGO_TARGET_DIR=os.path.join(BASE, "target"), CARGO_NET_OFFLINE="true")
def sh(cmd, cwd=None, timeout=7200):
    p = subprocess.run(cmd, cwd=cwd, shell=True, stdout=subprocess.PIPE, stderr=subprocess.STDOUT, text=True, env=env, timeout=timeout)
    return p.returncode, p.stdout
os.makedirs(BASE, exist_ok=True)
sh(f"git -C /repo worktree remove --force {WT}"); shutil.rmtree(WT, ignore_errors=True); sh("git -C /repo worktree prune")
rc, out = sh(f"git -C /repo worktree add -q --detach {WT} HEAD"); assert rc == 0, out
crate = meta["demo_crate"]
demo_file = meta.get("demo_file", "demo.rs")
res = {"repo_head": sh("git -C /repo rev-parse --short HEAD")[1].strip(), "at": time.strftime("%Y-%m-%d %H:%M")}
if demo_file.endswith(".sh"):
    demo = os.path.join(seed, demo_file)
    env["CARGO_TARGET_DIR"] = os.path.join(WT, "target")   # shell demos look for binaries under <worktree>/target
    rc, out = sh(f"sh {demo} {WT}", cwd=WT)
    res["demo_on_clean"] = "pass" if rc == 0 else "FAIL"
    rc, out = sh(f"git apply {os.path.join(seed, 'patch.diff')}", cwd=WT)
    res["patch_applies"] = rc == 0
    rc, out = sh(f"sh {demo} {WT}", cwd=WT)
    res["demo_with_patch"] = "fail" if rc != 0 else "PASS(unexpected)"
    res["demo_with_patch_tail"] = out[-600:]
else:
    tests_dir = os.path.join(WT, "crates", crate, "tests")
    had_tests = os.path.isdir(tests_dir)
    os.makedirs(tests_dir, exist_ok=True)
    demo_dst = os.path.join(tests_dir, "seed_demo.rs")
    shutil.copy(os.path.join(seed, demo_file), demo_dst)
    rc, out = sh(f"cargo test --offline -p {crate} --test seed_demo", cwd=WT)
    res["demo_on_clean"] = "pass" if rc == 0 else "FAIL"
    rc, out = sh(f"git apply {os.path.join(seed, 'patch.diff')}", cwd=WT)
    res["patch_applies"] = rc == 0
    rc, out = sh(f"cargo test --offline -p {crate} --test seed_demo", cwd=WT)
    res["demo_with_patch"] = "fail" if rc != 0 else "PASS(unexpected)"
    res["demo_with_patch_tail"] = out[-600:]
    os.remove(demo_dst)
    if not had_tests:
        shutil.rmtree(tests_dir, ignore_errors=True)
if "--no-suites" not in sys.argv:
    suites = {}
    for s in meta.get("suites", []):
        ok = False
        for attempt in range(2):  # timing-sensitive tests flake under load: one retry, fewer threads
            rc, out = sh(f"cargo test --offline -p {s} -- --test-threads={8 if attempt == 0 else 2}", cwd=WT)
            if rc == 0:
                ok = True; break
        failed = [l for l in out.splitlines() if l.startswith("test ") and "FAILED" in l]
        suites[s] = "pass" if ok else {"failed": failed[:10]}
    res["suites_with_patch"] = suites
meta["confirmed"] = res
json.dump(meta, open(meta_p, "w"), indent=1, ensure_ascii=False)
sh(f"git -C /repo worktree remove --force {WT}"); sh("git -C /repo worktree prune")
print(json.dumps(res, indent=1))
