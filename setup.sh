#!/bin/sh
# Build the framework from files on disk only (offline). Each claimed property's theorem module and
# harness package is built on its own so that one failure does not stop the rest (its check reports it).
cd "$(dirname "$0")"
export CARGO_NET_OFFLINE=true
CLAIMED=$(cat checklib/claimed.txt)
(cd lean && python3 ../checklib/mkdriver.py --probe; lake build vdriver
 for p in $CLAIMED; do lake build EmmyVerif.Props.$p >/dev/null 2>&1 || echo "setup: Props.$p does not build"; done)
[ -f harness/Cargo.lock ] || cp /repo/Cargo.lock harness/Cargo.lock
PKGS=$(python3 - <<'PY'
import sys; sys.path.insert(0, "checklib")
from registry import PROPS
claimed = open("checklib/claimed.txt").read().split()
print(" ".join(sorted({"-p " + PROPS[p]["harness"] for p in claimed if p in PROPS and PROPS[p].get("harness")})))
PY
)
(cd harness && cargo build -q $PKGS) || echo "setup: harness build failed"
# pre-steps (repo binaries) of the claimed properties
python3 - <<'PY'
import sys, os
sys.path.insert(0, "checklib"); sys.path.insert(0, "checklib/pre")
from registry import PROPS
from importlib import import_module
claimed = open("checklib/claimed.txt").read().split()
done = set()
for p in claimed:
    for g in PROPS.get(p, {}).get("pre", []):
        if g in done: continue
        done.add(g)
        try:
            import_module(g).run(os.getcwd(), "/repo", "quick", 1, [])
        except Exception as e:
            print("setup: pre-step", g, "failed:", e)
PY
echo setup-ok
