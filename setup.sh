#!/bin/sh
# Build the framework from files on disk only (offline).
set -e
cd "$(dirname "$0")"
export CARGO_NET_OFFLINE=true
(cd lean && lake build EmmyVerif vdriver)
[ -f harness/Cargo.lock ] || cp /repo/Cargo.lock harness/Cargo.lock
(cd harness && cargo build -q)
echo setup-ok
