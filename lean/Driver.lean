import EmmyVerif.Drv.Text
/-! `vdriver`: one request per line `<family>.<op> <args…>`, one response line. -/

def dispatch (line : String) : String :=
  match line.trimAscii.toString.splitOn " " with
  | [] => "bad-op"
  | cmd :: args =>
    match cmd.splitOn "." with
    | [fam, op] =>
      let r := match fam with
        | "text" => Drv.Text.handle op args
        | _ => none
      r.getD "bad-op"
    | _ => "bad-op"

partial def loop (h : IO.FS.Stream) (out : IO.FS.Stream) : IO Unit := do
  let line ← h.getLine
  if line.isEmpty then return ()
  out.putStrLn (dispatch line)
  loop h out

def main : IO Unit := do
  let out ← IO.getStdout
  loop (← IO.getStdin) out
  out.flush
