import EmmyVerif.Props.C22
import EmmyVerif.Props.C23
