import EmmyVerif.Lemmas.TyConv3
/-!
# The reader's fold keeps the member set

`readFold e hasNil vs` (what the doc type reader produces from the rendered members of a union) has
exactly the members `vs` (plus `nil` when the union had a `nil` member): the `|`-fold only reorders.
-/
namespace TyM
open Ty

theorem mem_nonNil : (ms : TyL) → ∀ m, m ∈ nonNil ms ↔ m ∈ ms.toList ∧ m ≠ tNil
  | .nil, m => by simp [nonNil, TyL.toList]
  | .cons t ts, m => by
    by_cases ht : t = tNil
    · simp only [nonNil, ht, if_true, TyL.toList, List.mem_cons, mem_nonNil ts m]
      constructor
      · rintro ⟨h1, h2⟩; exact ⟨.inr h1, h2⟩
      · rintro ⟨h1 | h1, h2⟩
        · exact absurd h1 h2
        · exact ⟨h1, h2⟩
    · simp only [nonNil, ht, if_false, TyL.toList, List.mem_cons, mem_nonNil ts m]
      constructor
      · rintro (h | ⟨h1, h2⟩)
        · exact ⟨.inl h, h ▸ ht⟩
        · exact ⟨.inr h1, h2⟩
      · rintro ⟨h1 | h1, h2⟩
        · exact .inl h1
        · exact .inr ⟨h1, h2⟩

theorem cv2All_mem : (l : List Ty) → cv2All l = true → ∀ t ∈ l, cv2 t = true ∧ t.isUnion = false
  | [], _, t, ht => by simp at ht
  | x :: xs, h, t, ht => by
    simp only [cv2All, Bool.and_eq_true, Bool.not_eq_true'] at h
    rcases List.mem_cons.mp ht with rfl | ht
    · exact ⟨h.1.1, h.1.2⟩
    · exact cv2All_mem xs h.2 t ht

theorem binUnion_nonunion (l r : Ty) (hl : l.isUnion = false) (hr : r.isUnion = false) :
    binUnion l r = fromVec [l, r] := by
  cases l <;> first | (simp [Ty.isUnion] at hl; done) | (cases r <;> first | (simp [Ty.isUnion] at hr; done) | rfl)

theorem binUnion_mk (l : List Ty) (r : Ty) (hr : r.isUnion = false) :
    binUnion (Ty.mk l) r = fromVec (l ++ [r]) := by
  cases r <;> first | (simp [Ty.isUnion] at hr; done) | simp [binUnion]

theorem foldl_binUnion_mk : (vs l seen : List Ty) → l.Perm seen → 2 ≤ seen.length → (seen ++ vs).Nodup →
    (∀ x ∈ seen ++ vs, x.isUnion = false) →
    ∃ y, vs.foldl binUnion (Ty.mk l) = Ty.mk y ∧ y.Perm (seen ++ vs)
  | [], l, seen, hp, _, _, _ => ⟨l, rfl, by simpa using hp⟩
  | t :: vs, l, seen, hp, h2, hnd, hu => by
    have htu : t.isUnion = false := hu t (by simp)
    have hlt : (l ++ [t]).Perm (seen ++ [t]) := List.Perm.append_right [t] hp
    have hnd1 : (seen ++ [t]).Nodup := by
      have : (seen ++ [t] ++ vs).Nodup := by simpa using hnd
      exact (List.nodup_append.mp this).1
    have hu1 : ∀ x ∈ seen ++ [t], x.isUnion = false := by
      intro x hx
      apply hu x
      rcases List.mem_append.mp hx with hx | hx
      · exact List.mem_append_left _ hx
      · simp at hx; subst hx; simp
    have hcan : fromVec (l ++ [t]) = Ty.mk (mkUnionVec (l ++ [t])) :=
      fromVec_canon (l ++ [t]) (hlt.nodup_iff.mpr hnd1) (fun x hx => hu1 x (hlt.mem_iff.mp hx))
        (by rw [hlt.length_eq]; simp; omega)
    simp only [List.foldl_cons, binUnion_mk l t htu, hcan]
    have hperm : (mkUnionVec (l ++ [t])).Perm (seen ++ [t]) :=
      (mkUnionVec_perm _ (hlt.nodup_iff.mpr hnd1)).trans hlt
    obtain ⟨y, hy, hyp⟩ := foldl_binUnion_mk vs (mkUnionVec (l ++ [t])) (seen ++ [t]) hperm
      (by simp; omega) (by simpa using hnd) (by simpa using hu)
    exact ⟨y, hy, by simpa using hyp⟩

theorem members_nonunion (v : Ty) (hu : v.isUnion = false) (hn : v ≠ tNever) : Ty.members v = [v] := by
  cases v with
  | union _ => simp [Ty.isUnion] at hu
  | prim k => cases k <;> first | rfl | exact absurd rfl hn
  | _ => rfl

theorem members_mk (y : List Ty) : Ty.members (Ty.mk y) = y := by
  simp [Ty.members]

/-- the `|`-fold over two or more distinct non-union members is a union of exactly these members -/
theorem foldl_binUnion_members (v0 v1 : Ty) (vs : List Ty) (hnd : (v0 :: v1 :: vs).Nodup)
    (hu : ∀ x ∈ v0 :: v1 :: vs, x.isUnion = false) :
    ∃ y, (v1 :: vs).foldl binUnion v0 = Ty.mk y ∧ y.Perm (v0 :: v1 :: vs) := by
  have h0 := hu v0 (by simp)
  have h1 := hu v1 (by simp)
  have hne : v0 ≠ v1 := by
    intro h; subst h; simp at hnd
  have hnd2 : [v0, v1].Nodup := by simp [hne]
  simp only [List.foldl_cons, binUnion_nonunion v0 v1 h0 h1, fromVec_pair v0 v1 h0 h1 hne]
  obtain ⟨y, hy, hyp⟩ := foldl_binUnion_mk vs (mkUnionVec [v0, v1]) [v0, v1]
    (mkUnionVec_perm _ hnd2) (by simp) (by simpa using hnd) (by simpa using hu)
  exact ⟨y, hy, by simpa using hyp⟩

/-- **the reader's fold keeps the member set**: the result has the members `vs`, plus `nil` when the
rendered union had a `nil` member — order aside. -/
theorem readFold_members (e : Env) (hna : NoAlias e) (hasNil : Bool) (vs : List Ty)
    (hc : cv2All vs = true) (hnd : vs.Nodup) (hnil : tNil ∉ vs) (hne : vs = [] → hasNil = true)
    (hany : vs ≠ [tAny]) (hnever : vs ≠ [tNever]) :
    ∀ m, m ∈ Ty.members (readFold e hasNil vs) ↔ m ∈ vs ∨ (hasNil = true ∧ m = tNil) := by
  intro m
  have hmem := cv2All_mem vs hc
  match vs, hc, hnd, hnil, hne, hany, hnever, hmem with
  | [], _, _, _, hne, _, _, _ =>
    simp [readFold, Ty.members, hne rfl]
  | [v], _, _, hnil, _, hany, hnever, hmem =>
    have hv := hmem v (by simp)
    have hvn : v ≠ tNil := by intro h; subst h; simp at hnil
    have hva : v ≠ tAny := by intro h; subst h; simp at hany
    have hvv : v ≠ tNever := by intro h; subst h; simp at hnever
    have hvu : v ≠ tUnknown := cv2_ne_unknown v hv.1
    cases hasNil with
    | false => simp [readFold, members_nonunion v hv.2 hvv]
    | true =>
      have hnl : nullableTy v = false := by
        cases v with
        | union _ => simp [Ty.isUnion] at hv
        | prim k => cases k <;> first | rfl | exact absurd rfl hvn
        | _ => rfl
      simp only [readFold, if_true, mkNullable, if_neg hvu, hnl, Bool.false_eq_true, if_false]
      by_cases hp : v.isPrim = true
      · have hpl : Plain v := by
          obtain ⟨k, rfl⟩ := (isPrim_iff v).mp hp
          exact ⟨rfl, hva, hvv⟩
        rw [union_plain_nil e v hpl hvn, members_mk,
          (mkUnionVec_perm [v, tNil] (by simp [hvn])).mem_iff]
        simp
      · have hp' : v.isPrim = false := by simpa using hp
        rw [union_noalias_nil e hna v hv.1 hv.2 hp', members_mk]
        simp
  | v0 :: v1 :: vs, _, hnd, hnil, _, _, _, hmem =>
    obtain ⟨y, hy, hyp⟩ := foldl_binUnion_members v0 v1 vs hnd (fun x hx => (hmem x hx).2)
    cases hasNil with
    | false =>
      simp only [readFold, Bool.false_eq_true, if_false, hy, members_mk, hyp.mem_iff, false_and, or_false]
    | true =>
      have hyn : tNil ∉ y := fun h => hnil (hyp.mem_iff.mp h)
      have hnl : nullableTy (Ty.mk y) = false := by
        simp only [nullableTy, TyL.toList_ofList, List.any_eq_false, decide_eq_true_eq]
        intro x hx hxn; subst hxn; exact hyn hx
      have hunk : Ty.mk y ≠ tUnknown := by simp
      obtain ⟨y', hy', hm'⟩ := union_union_nil e y (hyp.nodup_iff.mpr hnd)
        (fun x hx => (hmem x (hyp.mem_iff.mp hx)).2) (by rw [hyp.length_eq]; simp)
      simp only [readFold, if_true, hy, mkNullable, if_neg hunk, hnl, Bool.false_eq_true, if_false, hy',
        members_mk, hm' m, hyp.mem_iff, true_and]

end TyM
