import EmmyVerif.Model.Ty
/-!
# Batch union ≡ pairwise fold (`union_type_all` fast path)

`UEquiv a b`: both are unions or neither is, and their member lists are permutations of each other —
the equality `LuaUnionType: PartialEq` decides (bit sets / nullable / set comparison of `Multi`).
-/
namespace TyM
open Ty

/-- members of a type seen as a union: `never` is the empty union, a non-union is a singleton -/
def Ty.members : Ty → List Ty
  | .union ms => ms.toList
  | .prim .never => []
  | t => [t]

/-- equality up to the order of the members of the top-level union -/
def UEquiv (a b : Ty) : Prop := a.isUnion = b.isUnion ∧ (Ty.members a).Perm (Ty.members b)

theorem UEquiv.refl (a : Ty) : UEquiv a a := ⟨rfl, List.Perm.refl _⟩

/-- what `can_use_structural_union` lets through, minus `any`/`never` (dropped before) -/
def Plain (t : Ty) : Prop := needsSemantic t = false ∧ t ≠ tAny ∧ t ≠ tNever

/-! ## `dedupInto` -/

theorem mem_dedupInto (acc l : List Ty) (x : Ty) : x ∈ dedupInto acc l ↔ x ∈ acc ∨ x ∈ l := by
  induction l generalizing acc with
  | nil => simp [dedupInto]
  | cons t ts ih =>
    simp only [dedupInto]
    split
    · rw [ih]; constructor
      · rintro (h | h); exact .inl h; exact .inr (List.mem_cons_of_mem _ h)
      · rintro (h | h); exact .inl h
        rcases List.mem_cons.mp h with rfl | h
        · exact .inl ‹_›
        · exact .inr h
    · rw [ih]; simp only [List.mem_append, List.mem_cons, List.not_mem_nil, or_false, or_assoc]

theorem nodup_dedupInto (acc l : List Ty) (h : acc.Nodup) : (dedupInto acc l).Nodup := by
  induction l generalizing acc with
  | nil => simpa [dedupInto]
  | cons t ts ih =>
    simp only [dedupInto]
    split
    · exact ih _ h
    · apply ih
      rw [List.nodup_append]
      refine ⟨h, by simp, ?_⟩
      intro a ha b hb
      simp at hb; subst hb
      intro hab; subst hab; contradiction

theorem dedupInto_of_nodup (acc l : List Ty) (h : (acc ++ l).Nodup) : dedupInto acc l = acc ++ l := by
  induction l generalizing acc with
  | nil => simp [dedupInto]
  | cons t ts ih =>
    simp only [dedupInto]
    have hn : t ∉ acc := by
      intro ht
      rw [List.nodup_append] at h
      exact h.2.2 t ht t (List.mem_cons_self) rfl
    rw [if_neg hn, ih]
    · simp
    · simpa using h

theorem dedup_of_nodup (l : List Ty) (h : l.Nodup) : dedup l = l := by
  simpa [dedup] using dedupInto_of_nodup [] l (by simpa using h)

/-! ## `flatten1` -/

theorem flatten1_of_no_union (l : List Ty) (h : ∀ t ∈ l, t.isUnion = false) : flatten1 l = l := by
  induction l with
  | nil => rfl
  | cons t ts ih =>
    have ht := h t (List.mem_cons_self)
    have := ih (fun x hx => h x (List.mem_cons_of_mem _ hx))
    cases t <;> simp_all [flatten1, Ty.isUnion]

/-! ## `mkUnionVec` -/

theorem Prim.all_nodup : Prim.all.Nodup := by decide

theorem Prim.mem_all (k : Prim) : k ∈ Prim.all := by cases k <;> decide

theorem prim_injective : Function.Injective Ty.prim := by
  intro a b h; cases h; rfl

theorem isPrim_iff (t : Ty) : t.isPrim = true ↔ ∃ k, t = .prim k := by
  cases t <;> simp [Ty.isPrim]

theorem nodup_map_prim (l : List Prim) (h : l.Nodup) : (l.map Ty.prim).Nodup := by
  induction l with
  | nil => simp
  | cons k ks ih =>
    rw [List.nodup_cons] at h
    simp only [List.map_cons, List.nodup_cons, List.mem_map, not_exists, not_and]
    refine ⟨?_, ih h.2⟩
    intro x hx hxe
    cases hxe
    exact h.1 hx

theorem mkUnionVec_of_all (l : List Ty) (h : l.all Ty.isPrim = true) :
    mkUnionVec l = (Prim.all.filter fun k => l.contains (.prim k)).map Ty.prim := by
  unfold mkUnionVec; rw [if_pos h]

theorem mkUnionVec_perm (l : List Ty) (h : l.Nodup) : (mkUnionVec l).Perm l := by
  unfold mkUnionVec
  split
  · rename_i hall
    apply (List.perm_ext_iff_of_nodup ?_ h).mpr
    · intro x
      simp only [List.mem_map, List.mem_filter, List.contains_iff_mem]
      constructor
      · rintro ⟨k, ⟨_, hk⟩, rfl⟩; exact hk
      · intro hx
        obtain ⟨k, rfl⟩ := (isPrim_iff x).mp (List.all_eq_true.mp hall x hx)
        exact ⟨k, ⟨Prim.mem_all k, hx⟩, rfl⟩
    · exact nodup_map_prim _ (List.Nodup.sublist List.filter_sublist Prim.all_nodup)
  · split
    · rename_i h2
      obtain ⟨hlen, hnil⟩ := h2
      match l, hlen with
      | [a, b], _ =>
        simp only [List.contains_iff_mem, List.mem_cons, List.not_mem_nil, or_false] at hnil
        have hab : a ≠ b := by
          intro hab; subst hab; simp at h
        by_cases ha : a = tNil
        · subst ha
          have hb : b ≠ tNil := fun hb => hab hb.symm
          simp [List.find?, hb]
          exact List.Perm.swap _ _ _
        · have hb : b = tNil := by
            rcases hnil with h | h
            · exact absurd h.symm ha
            · exact h.symm
          subst hb
          simp [List.find?, ha]
    · exact List.Perm.refl _

theorem mkUnionVec_pair_l (t : Ty) (hp : t.isPrim = false) (hn : t ≠ tNil) :
    mkUnionVec [t, tNil] = [t, tNil] := by
  have h1 : ¬ ([t, tNil].all Ty.isPrim = true) := by simp [hp]
  have h2 : [t, tNil].length = 2 ∧ [t, tNil].contains tNil = true := by simp
  unfold mkUnionVec
  rw [if_neg h1, if_pos h2]
  simp [List.find?, hn]

theorem mkUnionVec_pair_r (t : Ty) (hp : t.isPrim = false) (hn : t ≠ tNil) :
    mkUnionVec [tNil, t] = [t, tNil] := by
  have h1 : ¬ ([tNil, t].all Ty.isPrim = true) := by simp [hp]
  have h2 : [tNil, t].length = 2 ∧ [tNil, t].contains tNil = true := by simp
  unfold mkUnionVec
  rw [if_neg h1, if_pos h2]
  simp [List.find?, hn]

theorem isPrim_false_of_not_all_l (t u : Ty) (hu : u.isPrim = true) (h : ¬ ([t, u].all Ty.isPrim = true)) :
    t.isPrim = false := by
  cases ht : t.isPrim
  · rfl
  · exfalso; apply h; simp [ht, hu]

theorem isPrim_false_of_not_all_r (t u : Ty) (hu : u.isPrim = true) (h : ¬ ([u, t].all Ty.isPrim = true)) :
    t.isPrim = false := by
  cases ht : t.isPrim
  · rfl
  · exfalso; apply h; simp [ht, hu]

theorem mkUnionVec_idem (l : List Ty) (h : l.Nodup) : mkUnionVec (mkUnionVec l) = mkUnionVec l := by
  have hp := mkUnionVec_perm l h
  by_cases hall : l.all Ty.isPrim = true
  · have hall' : (mkUnionVec l).all Ty.isPrim = true := by
      rw [List.all_eq_true] at hall ⊢
      intro x hx; exact hall x (hp.mem_iff.mp hx)
    rw [mkUnionVec_of_all _ hall', mkUnionVec_of_all _ hall]
    congr 1
    apply List.filter_congr
    intro k _
    rw [Bool.eq_iff_iff]
    simp only [List.contains_iff_mem]
    rw [← mkUnionVec_of_all _ hall]
    exact hp.mem_iff
  · by_cases h2 : l.length = 2 ∧ l.contains tNil = true
    · obtain ⟨hlen, hnil⟩ := h2
      match l, hlen with
      | [a, b], _ =>
        simp only [List.contains_iff_mem, List.mem_cons, List.not_mem_nil, or_false] at hnil
        have hab : a ≠ b := by
          intro hab; subst hab; simp at h
        by_cases ha : a = tNil
        · subst ha
          have hb : b ≠ tNil := fun hb => hab hb.symm
          have hbp := isPrim_false_of_not_all_r b tNil rfl hall
          rw [mkUnionVec_pair_r b hbp hb, mkUnionVec_pair_l b hbp hb]
        · have hb : b = tNil := by
            rcases hnil with h | h
            · exact absurd h.symm ha
            · exact h.symm
          subst hb
          have hap := isPrim_false_of_not_all_l a tNil rfl hall
          rw [mkUnionVec_pair_l a hap ha, mkUnionVec_pair_l a hap ha]
    · have : mkUnionVec l = l := by
        unfold mkUnionVec; rw [if_neg hall, if_neg h2]
      rw [this, this]

/-! ## `fromVec` on canonical input -/

theorem fromVec_canon (x : List Ty) (hn : x.Nodup) (hu : ∀ t ∈ x, t.isUnion = false) (hl : 2 ≤ x.length) :
    fromVec x = Ty.mk (mkUnionVec x) := by
  match x, hl with
  | a :: b :: rest, _ =>
    unfold fromVec
    simp only
    rw [flatten1_of_no_union _ hu, dedup_of_nodup _ hn]
    rfl

theorem canonicalize_mk (x : List Ty) (hn : x.Nodup) (hu : ∀ t ∈ x, t.isUnion = false) (hl : 2 ≤ x.length) :
    canonicalize (Ty.mk (mkUnionVec x)) = Ty.mk (mkUnionVec x) := by
  have hp := mkUnionVec_perm x hn
  simp only [canonicalize, TyL.toList_ofList]
  rw [fromVec_canon (mkUnionVec x) (hp.nodup_iff.mpr hn) (fun t ht => hu t (hp.mem_iff.mp ht))
    (by rw [hp.length_eq]; exact hl), mkUnionVec_idem x hn]

theorem canonicalize_of_not_union (t : Ty) (h : t.isUnion = false) : canonicalize t = t := by
  cases t <;> simp_all [canonicalize, Ty.isUnion]

theorem getRealType_of_not_ref (e : Env) (t : Ty) (h : t.isRef = false) : getRealType e t = some t := by
  cases t <;> simp_all [getRealType, getRealTypeD, Ty.isRef]

/-! ## `can_use_structural_union` -/

def flagsOf (f : Flags) (l : List Ty) : Flags := l.foldl Flags.add f

theorem canUseLoop_true (f : Flags) (l : List Ty) (hf : f.violated = false)
    (h : canUseLoop f l = true) :
    (∀ t ∈ l, needsSemantic t = false) ∧ (flagsOf f l).violated = false := by
  induction l generalizing f with
  | nil => exact ⟨by simp, by simpa [flagsOf] using hf⟩
  | cons t ts ih =>
    simp only [canUseLoop] at h
    by_cases hs : needsSemantic t = true
    · simp [hs] at h
    · have hs' : needsSemantic t = false := by simpa using hs
      rw [if_neg hs] at h
      by_cases hv : (f.add t).violated = true
      · simp [hv] at h
      · have hv' : (f.add t).violated = false := by simpa using hv
        simp only [hv'] at h
        obtain ⟨h1, h2⟩ := ih (f.add t) hv' (by simpa using h)
        refine ⟨?_, by simpa [flagsOf] using h2⟩
        intro x hx
        rcases List.mem_cons.mp hx with rfl | hx
        · exact hs'
        · exact h1 x hx

/-- a Boolean flag that `Flags.add` can only raise, according to a predicate on the member -/
theorem flag_fold (π : Flags → Bool) (p : Ty → Bool) (hstep : ∀ f t, π (f.add t) = (π f || p t))
    (f : Flags) (l : List Ty) : π (flagsOf f l) = (π f || l.any p) := by
  induction l generalizing f with
  | nil => simp [flagsOf]
  | cons t ts ih =>
    have := ih (f.add t)
    simp only [flagsOf, List.foldl_cons] at this ⊢
    rw [this, hstep, List.any_cons, Bool.or_assoc]

def isNumVariant : Ty → Bool
  | .prim .integer | .lit (.intC _) | .lit (.floatC _) | .lit (.docInt _) => true
  | _ => false

def isBoolConst : Ty → Bool
  | .lit (.boolC _) | .lit (.docBool _) => true
  | _ => false

theorem step_hasNumber (f : Flags) (t : Ty) :
    (f.add t).hasNumber = (f.hasNumber || decide (t = .prim .number)) := by
  cases t with
  | prim k => cases k <;> simp [Flags.add]
  | lit c => cases c <;> simp [Flags.add]
  | _ => simp [Flags.add]

theorem step_hasNumberVariant (f : Flags) (t : Ty) :
    (f.add t).hasNumberVariant = (f.hasNumberVariant || isNumVariant t) := by
  cases t with
  | prim k => cases k <;> simp [Flags.add, isNumVariant]
  | lit c => cases c <;> simp [Flags.add, isNumVariant]
  | _ => simp [Flags.add, isNumVariant]

theorem step_hasInteger (f : Flags) (t : Ty) :
    (f.add t).hasInteger = (f.hasInteger || decide (t = .prim .integer)) := by
  cases t with
  | prim k => cases k <;> simp [Flags.add]
  | lit c => cases c <;> simp [Flags.add]
  | _ => simp [Flags.add]

theorem step_hasIntegerConst (f : Flags) (t : Ty) :
    (f.add t).hasIntegerConst = (f.hasIntegerConst || t.isIntConst) := by
  cases t with
  | prim k => cases k <;> simp [Flags.add, Ty.isIntConst]
  | lit c => cases c <;> simp [Flags.add, Ty.isIntConst]
  | _ => simp [Flags.add, Ty.isIntConst]

theorem step_hasString (f : Flags) (t : Ty) :
    (f.add t).hasString = (f.hasString || decide (t = .prim .string)) := by
  cases t with
  | prim k => cases k <;> simp [Flags.add]
  | lit c => cases c <;> simp [Flags.add]
  | _ => simp [Flags.add]

theorem step_hasStringConst (f : Flags) (t : Ty) :
    (f.add t).hasStringConst = (f.hasStringConst || t.isStrConst) := by
  cases t with
  | prim k => cases k <;> simp [Flags.add, Ty.isStrConst]
  | lit c => cases c <;> simp [Flags.add, Ty.isStrConst]
  | _ => simp [Flags.add, Ty.isStrConst]

theorem step_hasBoolean (f : Flags) (t : Ty) :
    (f.add t).hasBoolean = (f.hasBoolean || decide (t = .prim .boolean)) := by
  cases t with
  | prim k => cases k <;> simp [Flags.add]
  | lit c => cases c <;> simp [Flags.add]
  | _ => simp [Flags.add]

theorem step_boolCount (f : Flags) (t : Ty) :
    (f.add t).boolConstCount = f.boolConstCount + (if isBoolConst t then 1 else 0) := by
  cases t with
  | prim k => cases k <;> simp [Flags.add, isBoolConst]
  | lit c => cases c <;> simp [Flags.add, isBoolConst]
  | _ => simp [Flags.add, isBoolConst]

theorem boolCount_fold (f : Flags) (l : List Ty) :
    (flagsOf f l).boolConstCount = f.boolConstCount + (l.filter isBoolConst).length := by
  induction l generalizing f with
  | nil => simp [flagsOf]
  | cons t ts ih =>
    have := ih (f.add t)
    simp only [flagsOf, List.foldl_cons] at this ⊢
    rw [this, step_boolCount, List.filter_cons]
    split <;> simp <;> omega

theorem two_le_length_of_mem_ne {α : Type} (l : List α) (a b : α) (ha : a ∈ l) (hb : b ∈ l) (hab : a ≠ b) :
    2 ≤ l.length := by
  match l with
  | [] => simp at ha
  | [x] => simp at ha hb; subst ha; subst hb; exact absurd rfl hab
  | _ :: _ :: _ => simp

/-- no pairwise rule of `union_type_impl` applies to the (distinct) pair -/
structure Compat (a b : Ty) : Prop where
  g5 : ¬ (a = .prim .integer ∧ b.isIntConst = true)
  g6 : ¬ (a.isIntConst = true ∧ b = .prim .integer)
  g7 : ¬ (a = .prim .number ∧ b.isNumber = true)
  g8 : ¬ (a.isNumber = true ∧ b = .prim .number)
  g9 : ¬ (a = .prim .string ∧ b.isStrConst = true)
  g10 : ¬ (a.isStrConst = true ∧ b = .prim .string)
  g11 : ¬ (a = .prim .boolean ∧ b.isBoolean = true)
  g12 : ¬ (a.isBoolean = true ∧ b = .prim .boolean)
  gb : ¬ (isBoolConst a = true ∧ isBoolConst b = true)

theorem isNumber_iff (t : Ty) : t.isNumber = true ↔ t = .prim .number ∨ isNumVariant t = true := by
  cases t with
  | prim k => cases k <;> simp [Ty.isNumber, isNumVariant]
  | lit c => cases c <;> simp [Ty.isNumber, isNumVariant]
  | _ => simp [Ty.isNumber, isNumVariant]

theorem isBoolean_iff (t : Ty) : t.isBoolean = true ↔ t = .prim .boolean ∨ isBoolConst t = true := by
  cases t with
  | prim k => cases k <;> simp [Ty.isBoolean, isBoolConst]
  | lit c => cases c <;> simp [Ty.isBoolean, isBoolConst]
  | _ => simp [Ty.isBoolean, isBoolConst]

theorem isIntConst_variant (t : Ty) (h : t.isIntConst = true) : isNumVariant t = true := by
  cases t with
  | lit c => cases c <;> simp_all [Ty.isIntConst, isNumVariant]
  | _ => simp_all [Ty.isIntConst]

theorem compat_of_canUse (l : List Ty) (h : canUseStructural l = true) (a b : Ty) (ha : a ∈ l)
    (hb : b ∈ l) (hab : a ≠ b) : Compat a b := by
  obtain ⟨_, hv⟩ := canUseLoop_true {} l (by decide) h
  have e1 := flag_fold (·.hasNumber) _ step_hasNumber {} l
  have e2 := flag_fold (·.hasNumberVariant) _ step_hasNumberVariant {} l
  have e3 := flag_fold (·.hasInteger) _ step_hasInteger {} l
  have e4 := flag_fold (·.hasIntegerConst) _ step_hasIntegerConst {} l
  have e5 := flag_fold (·.hasString) _ step_hasString {} l
  have e6 := flag_fold (·.hasStringConst) _ step_hasStringConst {} l
  have e7 := flag_fold (·.hasBoolean) _ step_hasBoolean {} l
  have e8 := boolCount_fold {} l
  simp only [Bool.false_or] at e1 e2 e3 e4 e5 e6 e7
  simp only [Nat.zero_add] at e8
  simp only [Flags.violated, e1, e2, e3, e4, e5, e6, e7, e8, Bool.or_eq_false_iff, Bool.and_eq_false_iff,
    List.any_eq_false, decide_eq_false_iff_not, decide_eq_true_eq] at hv
  obtain ⟨⟨⟨⟨v1, v2⟩, v3⟩, v4⟩, v5⟩ := hv
  -- helper: membership witnesses
  have cnt : ∀ x, x ∈ l → isBoolConst x = true → 0 < (l.filter isBoolConst).length := by
    intro x hx hp
    exact List.length_pos_of_mem (List.mem_filter.mpr ⟨hx, hp⟩)
  refine ⟨?_, ?_, ?_, ?_, ?_, ?_, ?_, ?_, ?_⟩
  · rintro ⟨rfl, h2⟩
    rcases v2 with v | v
    · exact v _ ha rfl
    · exact v _ hb h2
  · rintro ⟨h1, rfl⟩
    rcases v2 with v | v
    · exact v _ hb rfl
    · exact v _ ha h1
  · rintro ⟨rfl, h2⟩
    rcases (isNumber_iff b).mp h2 with h2 | h2
    · exact hab h2.symm
    · rcases v1 with v | v
      · exact v _ ha rfl
      · exact v _ hb h2
  · rintro ⟨h1, rfl⟩
    rcases (isNumber_iff a).mp h1 with h1 | h1
    · exact hab h1
    · rcases v1 with v | v
      · exact v _ hb rfl
      · exact v _ ha h1
  · rintro ⟨rfl, h2⟩
    rcases v3 with v | v
    · exact v _ ha rfl
    · exact v _ hb h2
  · rintro ⟨h1, rfl⟩
    rcases v3 with v | v
    · exact v _ hb rfl
    · exact v _ ha h1
  · rintro ⟨rfl, h2⟩
    rcases (isBoolean_iff b).mp h2 with h2 | h2
    · exact hab h2.symm
    · rcases v4 with v | v
      · exact v _ ha rfl
      · have := cnt b hb h2; omega
  · rintro ⟨h1, rfl⟩
    rcases (isBoolean_iff a).mp h1 with h1 | h1
    · exact hab h1
    · rcases v4 with v | v
      · exact v _ hb rfl
      · have := cnt a ha h1; omega
  · rintro ⟨h1, h2⟩
    have := two_le_length_of_mem_ne (l.filter isBoolConst) a b
      (List.mem_filter.mpr ⟨ha, h1⟩) (List.mem_filter.mpr ⟨hb, h2⟩) hab
    omega

/-! ## one step of the fold -/

theorem plain_not_union (t : Ty) (h : Plain t) : t.isUnion = false := by
  obtain ⟨h, _, _⟩ := h
  cases t <;> simp_all [needsSemantic, Ty.isUnion]

theorem plain_not_ref (t : Ty) (h : Plain t) : t.isRef = false := by
  obtain ⟨h, _, _⟩ := h
  cases t <;> simp_all [needsSemantic, Ty.isRef]

theorem plain_not_func (t : Ty) (h : Plain t) : t.isFuncConst = false := by
  obtain ⟨h, _, _⟩ := h
  cases t <;> simp_all [needsSemantic, Ty.isFuncConst]

theorem boolConst_isSome (t : Ty) : (t.boolConst?).isSome = isBoolConst t := by
  cases t with
  | lit c => cases c <;> simp [Ty.boolConst?, isBoolConst]
  | _ => simp [Ty.boolConst?, isBoolConst]

theorem unionSpecial_none (a s b : Ty) (ha : Plain a) (hb : Plain b) (hc : Compat a b) :
    unionSpecial a s b = none := by
  have hfa := plain_not_func a ha
  have hfb := plain_not_func b hb
  obtain ⟨_, ha1, ha2⟩ := ha
  obtain ⟨_, hb1, hb2⟩ := hb
  unfold unionSpecial
  rw [if_neg ha1, if_neg hb1, if_neg ha2, if_neg hb2, if_neg hc.g5, if_neg hc.g6, if_neg hc.g7,
    if_neg hc.g8, if_neg hc.g9, if_neg hc.g10, if_neg hc.g11, if_neg hc.g12]
  have hgb := hc.gb
  rw [← boolConst_isSome, ← boolConst_isSome] at hgb
  split
  · rename_i l r h1 h2
    exact absurd ⟨by simp [h1], by simp [h2]⟩ hgb
  · rw [if_neg (by simp [hfb]), if_neg (by simp [hfa])]

theorem unionSpecial_union_src (l : TyL) (s b : Ty) (hb1 : b ≠ tAny) (hb2 : b ≠ tNever) :
    unionSpecial (.union l) s b = none := by
  unfold unionSpecial
  simp [hb1, hb2, Ty.isIntConst, Ty.isNumber, Ty.isStrConst, Ty.isBoolean, Ty.boolConst?, Ty.isFuncConst]

theorem unionGeneric_plain (a s b : Ty) (ha : Plain a) (hb : Plain b) :
    unionGeneric a s b = if a = b then s else fromVec [s, b] := by
  obtain ⟨ha, _, _⟩ := ha
  obtain ⟨hb, _, _⟩ := hb
  cases a <;> cases b <;> simp_all [unionGeneric, needsSemantic]

theorem unionGeneric_union_src (l : TyL) (s b : Ty) (hb : Plain b) :
    unionGeneric (.union l) s b =
      if l.toList.contains b then s else Ty.mk (mkUnionVec (l.toList ++ [b])) := by
  obtain ⟨hb, _, _⟩ := hb
  cases b <;> simp_all [unionGeneric, needsSemantic]

theorem unionImpl_self (a : Ty) (ha : Plain a) : unionImpl a a a = a := by
  obtain ⟨h, h1, h2⟩ := ha
  cases a with
  | prim k => cases k <;> simp_all [unionImpl, unionSpecial, unionGeneric, Ty.isIntConst, Ty.isNumber,
      Ty.isStrConst, Ty.isBoolean, Ty.boolConst?, Ty.isFuncConst]
  | lit c => cases c <;> simp_all [unionImpl, unionSpecial, unionGeneric, Ty.isIntConst, Ty.isNumber,
      Ty.isStrConst, Ty.isBoolean, Ty.boolConst?, Ty.isFuncConst]
  | _ => simp_all [unionImpl, unionSpecial, unionGeneric, Ty.isIntConst, Ty.isNumber,
      Ty.isStrConst, Ty.isBoolean, Ty.boolConst?, Ty.isFuncConst, needsSemantic]

/-- `acc` represents the distinct plain members seen so far -/
def Rep (acc : Ty) (l : List Ty) : Prop :=
  (l = [] ∧ acc = tNever) ∨ (∃ s, l = [s] ∧ acc = s) ∨
    (2 ≤ l.length ∧ ∃ l', acc = Ty.mk l' ∧ l'.Perm l ∧ mkUnionVec l' = l')

theorem fromVec_pair (s t : Ty) (hs : s.isUnion = false) (ht : t.isUnion = false) (hst : s ≠ t) :
    fromVec [s, t] = Ty.mk (mkUnionVec [s, t]) :=
  fromVec_canon [s, t] (by simp [hst]) (by simp [hs, ht]) (by simp)

theorem union_step (e : Env) (acc : Ty) (l : List Ty) (t : Ty) (hr : Rep acc l) (hn : l.Nodup)
    (hp : ∀ x ∈ l, Plain x) (ht : Plain t) (hc : ∀ x ∈ l, x ≠ t → Compat x t) :
    Rep (union e acc t) (if t ∈ l then l else l ++ [t]) := by
  have htu := plain_not_union t ht
  rcases hr with ⟨rfl, rfl⟩ | ⟨s, rfl, rfl⟩ | ⟨hlen, l', rfl, hperm, hcan⟩
  · -- nothing seen yet
    have : union e tNever t = t := by
      simp only [union, getRealType_of_not_ref e tNever rfl, Option.getD_some]
      have : unionImpl tNever tNever t = t := by
        simp [unionImpl, unionSpecial, ht.2.1]
      rw [this, canonicalize_of_not_union t htu]
    rw [this]
    simp only [List.not_mem_nil, if_false, List.nil_append]
    exact .inr (.inl ⟨t, rfl, rfl⟩)
  · -- one member so far
    have hs := hp acc (List.mem_singleton.mpr rfl)
    have hsu := plain_not_union acc hs
    simp only [union, getRealType_of_not_ref e acc (plain_not_ref acc hs), Option.getD_some]
    by_cases hts : t = acc
    · subst hts
      rw [unionImpl_self t ht, canonicalize_of_not_union t htu]
      simp only [List.mem_singleton, if_true]
      exact .inr (.inl ⟨t, rfl, rfl⟩)
    · have hne : acc ≠ t := fun h => hts h.symm
      have hcomp := hc acc (List.mem_singleton.mpr rfl) hne
      simp only [unionImpl, unionSpecial_none acc acc t hs ht hcomp, unionGeneric_plain acc acc t hs ht,
        if_neg hne, fromVec_pair acc t hsu htu hne]
      rw [canonicalize_mk [acc, t] (by simp [hne]) (by simp [hsu, htu]) (by simp)]
      simp only [List.mem_singleton, hts, if_false, List.singleton_append]
      refine .inr (.inr ⟨by simp, mkUnionVec [acc, t], rfl, mkUnionVec_perm _ (by simp [hne]), ?_⟩)
      exact mkUnionVec_idem _ (by simp [hne])
  · -- already a union
    have hn' : l'.Nodup := hperm.nodup_iff.mpr hn
    have hu' : ∀ x ∈ l', x.isUnion = false := fun x hx => plain_not_union x (hp x (hperm.mem_iff.mp hx))
    have hlen' : 2 ≤ l'.length := by rw [hperm.length_eq]; exact hlen
    simp only [union, getRealType_of_not_ref e (Ty.mk l') rfl, Option.getD_some, unionImpl,
      unionSpecial_union_src _ _ t ht.2.1 ht.2.2, unionGeneric_union_src _ _ t ht, TyL.toList_ofList,
      List.contains_iff_mem]
    by_cases hmem : t ∈ l
    · have hmem' : t ∈ l' := hperm.mem_iff.mpr hmem
      rw [if_pos hmem', if_pos hmem]
      have : canonicalize (Ty.mk l') = Ty.mk l' := by
        have := canonicalize_mk l' hn' hu' hlen'
        rwa [hcan] at this
      rw [this]
      exact .inr (.inr ⟨hlen, l', rfl, hperm, hcan⟩)
    · have hmem' : t ∉ l' := fun h => hmem (hperm.mem_iff.mp h)
      rw [if_neg hmem', if_neg hmem]
      have hnd : (l' ++ [t]).Nodup := by
        rw [List.nodup_append]
        refine ⟨hn', by simp, ?_⟩
        intro a ha b hb
        simp at hb; subst hb
        intro hab; subst hab; exact hmem' ha
      have hund : ∀ x ∈ l' ++ [t], x.isUnion = false := by
        intro x hx
        rcases List.mem_append.mp hx with hx | hx
        · exact hu' x hx
        · simp at hx; subst hx; exact htu
      rw [canonicalize_mk (l' ++ [t]) hnd hund (by simp; omega)]
      refine .inr (.inr ⟨by simp; omega, mkUnionVec (l' ++ [t]), rfl, ?_, mkUnionVec_idem _ hnd⟩)
      exact (mkUnionVec_perm _ hnd).trans (List.Perm.append_right _ hperm)

/-! ## the fold -/

theorem fold_rep (e : Env) (all : List Ty) (hcan : canUseStructural all = true)
    (hplain : ∀ x ∈ all, Plain x) (rs : List Ty) (hrs : ∀ x ∈ rs, x ∈ all) (acc : Ty) (l : List Ty)
    (hr : Rep acc l) (hn : l.Nodup) (hl : ∀ x ∈ l, x ∈ all) :
    Rep (foldUnion e acc rs) (dedupInto l rs) := by
  induction rs generalizing acc l with
  | nil => simpa [foldUnion, dedupInto] using hr
  | cons t ts ih =>
    have htall := hrs t (List.mem_cons_self)
    have hstep := union_step e acc l t hr hn (fun x hx => hplain x (hl x hx)) (hplain t htall)
      (fun x hx hne => compat_of_canUse all hcan x t (hl x hx) htall hne)
    simp only [foldUnion, List.foldl_cons, dedupInto]
    by_cases hmem : t ∈ l
    · rw [if_pos hmem] at hstep ⊢
      exact ih (fun x hx => hrs x (List.mem_cons_of_mem _ hx)) _ _ hstep hn hl
    · rw [if_neg hmem] at hstep ⊢
      refine ih (fun x hx => hrs x (List.mem_cons_of_mem _ hx)) _ _ hstep ?_ ?_
      · rw [List.nodup_append]
        refine ⟨hn, by simp, ?_⟩
        intro a ha b hb
        simp at hb; subst hb
        intro hab; subst hab; exact hmem ha
      · intro x hx
        rcases List.mem_append.mp hx with hx | hx
        · exact hl x hx
        · simp at hx; subst hx; exact htall

theorem fromVec_eq (rs : List Ty) (hu : ∀ t ∈ rs, t.isUnion = false) (h2 : 2 ≤ rs.length) :
    fromVec rs = shapeOf (dedup rs) := by
  match rs, h2 with
  | a :: b :: rest, _ =>
    unfold fromVec
    simp only
    rw [flatten1_of_no_union _ hu]

/-- **fast path.** When `can_use_structural_union` accepts the batch, `LuaType::from_vec` and the
pairwise fold produce the same union up to member order. -/
theorem unionAll_fast (e : Env) (rs : List Ty) (h : canUseStructural rs = true)
    (hne : ∀ t ∈ rs, t ≠ tAny ∧ t ≠ tNever) (hnonempty : rs ≠ []) :
    UEquiv (fromVec rs) (foldUnion e tNever rs) := by
  obtain ⟨hsem, _⟩ := canUseLoop_true {} rs (by decide) h
  have hplain : ∀ x ∈ rs, Plain x := fun x hx => ⟨hsem x hx, (hne x hx).1, (hne x hx).2⟩
  have hrep := fold_rep e rs h hplain rs (fun _ hx => hx) tNever [] (.inl ⟨rfl, rfl⟩) (by simp) (by simp)
  have hu : ∀ t ∈ rs, t.isUnion = false := fun t ht => plain_not_union t (hplain t ht)
  change Rep _ (dedup rs) at hrep
  have hdn : (dedup rs).Nodup := nodup_dedupInto [] rs (by simp)
  match rs, hnonempty with
  | [t], _ =>
    have hd : dedup [t] = [t] := by simp [dedup, dedupInto]
    rw [hd] at hrep
    rcases hrep with ⟨h0, _⟩ | ⟨s, hs, hacc⟩ | ⟨hlen, _⟩
    · simp at h0
    · simp at hs; subst hs
      rw [hacc]; simp only [fromVec]; exact UEquiv.refl _
    · simp at hlen
  | a :: b :: rest, _ =>
    rw [fromVec_eq _ hu (by simp)]
    rcases hrep with ⟨h0, _⟩ | ⟨s, hs, hacc⟩ | ⟨hlen, l', hacc, hperm, _⟩
    · have : a ∈ dedup (a :: b :: rest) := (mem_dedupInto [] _ a).mpr (.inr (List.mem_cons_self))
      rw [h0] at this; simp at this
    · rw [hs, hacc]; exact UEquiv.refl _
    · rw [hacc]
      match hd : dedup (a :: b :: rest), hlen with
      | x :: y :: r, _ =>
        simp only [shapeOf]
        refine ⟨rfl, ?_⟩
        simp only [Ty.members, TyL.toList_ofList]
        rw [hd] at hperm hdn
        exact (mkUnionVec_perm _ hdn).trans hperm.symm

/-! ## the whole function -/

theorem canonicalize_any : canonicalize tAny = tAny := rfl

theorem unionSpecial_any_right (m s : Ty) : unionSpecial m s tAny = some tAny := by
  unfold unionSpecial
  by_cases hm : m = tAny
  · rw [if_pos hm]
  · rw [if_neg hm, if_pos rfl]

theorem union_any_right (e : Env) (acc : Ty) : union e acc tAny = tAny := by
  simp only [union, unionImpl, unionSpecial_any_right]
  rfl

theorem union_any_left (e : Env) (t : Ty) : union e tAny t = tAny := by
  simp [union, getRealType_of_not_ref e tAny rfl, unionImpl, unionSpecial, canonicalize]

theorem fold_any_acc (e : Env) (ts : List Ty) : foldUnion e tAny ts = tAny := by
  induction ts with
  | nil => rfl
  | cons t ts ih => simpa [foldUnion, union_any_left] using ih

theorem fold_any_mem (e : Env) (ts : List Ty) (acc : Ty) (h : tAny ∈ ts) : foldUnion e acc ts = tAny := by
  induction ts generalizing acc with
  | nil => simp at h
  | cons t ts ih =>
    simp only [foldUnion, List.foldl_cons]
    by_cases ht : t = tAny
    · subst ht; rw [union_any_right]; exact fold_any_acc e ts
    · rcases List.mem_cons.mp h with h | h
      · exact absurd h.symm ht
      · exact ih _ h

theorem collect_no_never (ts : List Ty) (hnv : ∀ t ∈ ts, t ≠ tNever) :
    collect ts = if tAny ∈ ts then none else some ts := by
  induction ts with
  | nil => simp [collect]
  | cons t ts ih =>
    have := ih (fun x hx => hnv x (List.mem_cons_of_mem _ hx))
    have ht := hnv t (List.mem_cons_self)
    simp only [collect, if_neg ht]
    by_cases hta : t = tAny
    · simp [hta]
    · rw [if_neg hta, this]
      by_cases hm : tAny ∈ ts
      · simp [hm]
      · have : tAny ∉ t :: ts := by
          intro h; rcases List.mem_cons.mp h with h | h
          · exact hta h.symm
          · exact hm h
        simp [hm, this]

end TyM
