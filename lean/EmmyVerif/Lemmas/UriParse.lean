import EmmyVerif.Lemmas.Uri
/-! Lemmas about the parser part of the `Uri` model: clean paths are fixed points. -/
namespace Uri

/-- a list of URL path segments the parser leaves untouched -/
def Clean (segs : List (List Nat)) : Prop :=
  ∀ s ∈ segs, s ≠ [] ∧ (∀ b ∈ s, plain b = true) ∧ isDot s = false ∧ isDotDot s = false

theorem dotStep_clean (segs : List (List Nat))
    (h : ∀ s ∈ segs, isDot s = false ∧ isDotDot s = false) : dotStep segs = some segs := by
  induction segs with
  | nil => rfl
  | cons s rest ih =>
    have hs := h s (by simp)
    simp [dotStep, hs.1, hs.2, ih (fun x hx => h x (by simp [hx]))]

theorem map_normSeg_clean (segs : List (List Nat)) (h : Clean segs) : segs.map normSeg = segs := by
  induction segs with
  | nil => rfl
  | cons s rest ih =>
    simp only [List.map_cons]
    rw [normSeg_plain_id s (h s (by simp)).2.1, ih (fun x hx => h x (by simp [hx]))]

theorem dropWhile_isEmpty_clean (segs : List (List Nat)) (h : Clean segs) :
    segs.dropWhile List.isEmpty = segs := by
  cases segs with
  | nil => rfl
  | cons s rest =>
    have := (h s (by simp)).1
    cases s with
    | nil => exact absurd rfl this
    | cons b s' => simp [List.dropWhile]

theorem normPath_clean (segs : List (List Nat)) (h : Clean segs) :
    normPath (47 :: joinSlash segs) = some (47 :: joinSlash segs) := by
  cases hsegs : segs with
  | nil => simp [normPath, joinSlash, splitSlashBs, normSeg, dotStep, isDot, isDotDot]
  | cons s rest =>
    rw [← hsegs]
    have hne : segs ≠ [] := by simp [hsegs]
    have hsplit : splitSlashBs (joinSlash segs) = segs :=
      splitSlashBs_joinSlash segs hne (fun s hs b hb => by
        have := plain_gt b ((h s hs).2.1 b hb); omega)
    simp only [normPath, true_or, if_true]
    rw [hsplit, map_normSeg_clean segs h,
      dotStep_clean segs (fun s hs => ⟨(h s hs).2.2.1, (h s hs).2.2.2⟩)]
    simp [dropWhile_isEmpty_clean segs h]

/-! ### the outer layers of `parseUri` -/

theorem dropWhile_none {α} (p : α → Bool) (l : List α) (h : ∀ x ∈ l, p x = false) :
    l.dropWhile p = l := by
  cases l with
  | nil => rfl
  | cons a l => simp [List.dropWhile, h a (by simp)]

theorem takeWhile_all {α} (p : α → Bool) (l : List α) (h : ∀ x ∈ l, p x = true) :
    l.takeWhile p = l := by
  induction l with
  | nil => rfl
  | cons a l ih => simp [List.takeWhile, h a (by simp), ih (fun x hx => h x (by simp [hx]))]

theorem trimEnd_id (s : List Nat) (h : ∀ b ∈ s, 32 < b) : trimEnd s = s := by
  unfold trimEnd
  rw [dropWhile_none]
  · simp
  · intro x hx; have := h x (by simpa using hx); simp; omega

theorem trimStart_id (s : List Nat) (h : ∀ b ∈ s, 32 < b) : trimStart s = s := by
  unfold trimStart
  apply dropWhile_none
  intro x hx; have := h x hx; simp; omega

theorem stripPrefix_append (p r : List Nat) : stripPrefix p (p ++ r) = some r := by
  induction p with
  | nil => simp [stripPrefix]
  | cons a p ih => simp [stripPrefix, ih]

/-- bytes of a URI string that the outer layers (trimming, tab/newline removal, end of path at
`?`/`#`) leave alone -/
def uriSafe (b : Nat) : Prop := 32 < b ∧ b ≠ 63 ∧ b ≠ 35

theorem parseUri_prefix (r : List Nat) (h : ∀ b ∈ r, uriSafe b) :
    parseUri (filePrefix ++ r) =
      match normPath r with
      | none => .unsupported
      | some p => .ok ⟨p⟩ := by
  have hall : ∀ b ∈ filePrefix ++ r, 32 < b := by
    intro b hb
    rcases List.mem_append.mp hb with hb | hb
    · simp [filePrefix] at hb; omega
    · exact (h b hb).1
  unfold parseUri
  simp only []
  rw [trimStart_id _ hall, trimEnd_id _ hall]
  have hf : (filePrefix ++ r).filter (fun b => !(b == 9 || b == 10 || b == 13)) = filePrefix ++ r := by
    apply List.filter_eq_self.mpr
    intro b hb; have := hall b hb; simp; omega
  rw [hf, stripPrefix_append]
  have ht : r.takeWhile (fun b => !(b == 63 || b == 35)) = r := by
    apply takeWhile_all
    intro b hb; have := h b hb; simp [uriSafe] at this ⊢; omega
  simp only [ht]
  cases normPath r <;> rfl

theorem plain_uriSafe (b : Nat) (h : plain b = true) : uriSafe b := by
  have := plain_gt b h; exact ⟨by omega, by omega, by omega⟩

theorem joinSlash_forall (P : Nat → Prop) (segs : List (List Nat)) (h47 : P 47)
    (h : ∀ s ∈ segs, ∀ b ∈ s, P b) : ∀ b ∈ joinSlash segs, P b := by
  induction segs with
  | nil => simp [joinSlash]
  | cons s rest ih =>
    cases rest with
    | nil => simpa [joinSlash] using h s (by simp)
    | cons t rest' =>
      intro b hb
      simp only [joinSlash, List.mem_append, List.mem_cons] at hb
      rcases hb with hb | rfl | hb
      · exact h s (by simp) b hb
      · exact h47
      · exact ih (fun x hx => h x (by simp [hx])) b (by simpa [joinSlash] using hb)

/-- a clean path parses to itself -/
theorem parseUri_clean (segs : List (List Nat)) (h : Clean segs) :
    parseUri (filePrefix ++ 47 :: joinSlash segs) = .ok ⟨47 :: joinSlash segs⟩ := by
  rw [parseUri_prefix, normPath_clean segs h]
  intro b hb
  rcases List.mem_cons.mp hb with rfl | hb
  · exact ⟨by omega, by omega, by omega⟩
  · exact joinSlash_forall uriSafe segs ⟨by omega, by omega, by omega⟩
      (fun s hs b hb => plain_uriSafe b ((h s hs).2.1 b hb)) b hb

/-! ### decoding a joined path -/

/-- pointwise relation between two lists (core Lean has no `List.Forall₂`) -/
inductive All2 {α β : Type} (R : α → β → Prop) : List α → List β → Prop
  | nil : All2 R [] []
  | cons {a b as bs} : R a b → All2 R as bs → All2 R (a :: as) (b :: bs)

theorem pctDecode_join (cs us : List (List Nat))
    (h : All2 (fun c u => ∀ rest, pctDecode (u ++ rest) = c ++ pctDecode rest) cs us) :
    pctDecode (joinSlash us) = joinSlash cs := by
  induction h with
  | nil => simp [joinSlash, pctDecode_nil]
  | @cons c u cs' us' hcu hrest ih =>
    cases hrest with
    | nil => simpa [joinSlash, pctDecode_nil] using hcu []
    | @cons c2 u2 cs2 us2 h2 hr2 =>
      simp only [joinSlash]
      rw [hcu, pctDecode_raw 47 _ (by decide), ih]

end Uri
