import EmmyVerif.Model.Pos
import EmmyVerif.Props.C22
/-! Lemmas for the `Pos` family (all follow from `Text.C22_offset_in_bounds`). -/
namespace Pos

theorem toRowanRange_some (t : List Char) (sl sc el ec s e : Nat)
    (h : toRowanRange t sl sc el ec = some (s, e)) :
    Text.getOffset t sl sc = some s ∧ Text.getOffset t el ec = some e ∧ s ≤ e := by
  unfold toRowanRange at h
  split at h
  · rename_i s' e' h1 h2
    split at h
    · cases h; exact ⟨h1, h2, by assumption⟩
    · cases h
  · cases h

end Pos
