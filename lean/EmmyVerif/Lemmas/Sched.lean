import EmmyVerif.Model.Sched
/-!
# Lemmas for the `Sched` family (C27)

`Inv`: applying the main loop's remaining work (rest of the inline handler, then every pending
message in order) to the current store gives the sequential specification, and every spawned task only
has inert steps. Preserved by every step when all document notifications are dispatched inline.
-/
namespace Sched

theorem execSteps_cons (disk : TMap) (s : Store) (st : Step) (l : List Step) :
    execSteps disk s (st :: l) = execSteps disk (execStep disk s st) l := rfl

theorem execSteps_append (disk : TMap) (s : Store) (a b : List Step) :
    execSteps disk s (a ++ b) = execSteps disk (execSteps disk s a) b := by
  simp [execSteps, List.foldl_append]

theorem execStep_inert (disk : TMap) (s : Store) (st : Step) (h : st.inert = true) :
    execStep disk s st = s := by
  cases st <;> simp [Step.inert] at h <;> rfl

theorem execSteps_inert (disk : TMap) (s : Store) (l : List Step) (h : ∀ st ∈ l, st.inert = true) :
    execSteps disk s l = s := by
  induction l generalizing s with
  | nil => rfl
  | cons st rest ih =>
    rw [execSteps_cons, execStep_inert disk s st (h st (by simp))]
    exact ih s (fun x hx => h x (by simp [hx]))

/-- a notification that is not a document notification has only inert steps -/
theorem steps_inert_of_not_doc (n : Notif) (h : n.kind ∉ docKinds) : ∀ st ∈ steps n, st.inert = true := by
  intro st hst
  cases hk : n.kind <;> simp [docKinds, hk] at h <;> simp [steps, hk] at hst <;>
    rcases hst with rfl | rfl <;> rfl

structure Inv (disk : TMap) (target : Store) (s : St) : Prop where
  main : execSteps disk s.store (s.cur ++ s.pending.flatMap steps) = target
  tasks : ∀ t ∈ s.tasks, ∀ st ∈ t, st.inert = true

theorem inv_exec {inline : Kind → Bool} {disk : TMap} {target : Store}
    (hin : ∀ k ∈ docKinds, inline k = true) {s s' : St} {lab : Label}
    (inv : Inv disk target s) (h : exec inline disk s lab = some s') : Inv disk target s' := by
  cases lab with
  | main =>
    simp only [exec] at h
    split at h
    · rename_i st rest hc
      cases h
      refine ⟨?_, inv.tasks⟩
      have := inv.main
      rw [hc] at this
      simpa [execSteps_cons] using this
    · rename_i hc
      split at h
      · cases h
      · rename_i n ms hp
        have hm := inv.main
        rw [hc, hp] at hm
        simp only [List.nil_append, List.flatMap_cons] at hm
        split at h
        · cases h
          exact ⟨by simpa using hm, inv.tasks⟩
        · rename_i hni
          cases h
          have hnd : n.kind ∉ docKinds := fun hd => hni (hin _ hd)
          have hinert := steps_inert_of_not_doc n hnd
          refine ⟨?_, ?_⟩
          · rw [execSteps_append, execSteps_inert disk _ _ hinert] at hm
            simpa [hc] using hm
          · intro t ht
            rcases List.mem_append.mp ht with h1 | h1
            · exact inv.tasks t h1
            · simp at h1; subst h1; exact hinert
  | task i =>
    simp only [exec] at h
    split at h
    · rename_i st rest ht
      cases h
      have hmem : (st :: rest) ∈ s.tasks := List.mem_of_getElem? ht
      have hst : st.inert = true := inv.tasks _ hmem st (by simp)
      refine ⟨?_, ?_⟩
      · simpa [execStep_inert disk s.store st hst] using inv.main
      · intro t htm
        rcases List.mem_or_eq_of_mem_set htm with h1 | h1
        · exact inv.tasks t h1
        · subst h1; intro x hx; exact inv.tasks _ hmem x (by simp [hx])
    · cases h

theorem inv_run {inline : Kind → Bool} {disk : TMap} {target : Store}
    (hin : ∀ k ∈ docKinds, inline k = true) {s s' : St} {sched : List Label}
    (inv : Inv disk target s) (h : run inline disk s sched = some s') : Inv disk target s' := by
  induction sched generalizing s with
  | nil => simp [run] at h; subst h; exact inv
  | cons lab rest ih =>
    simp only [run] at h
    split at h
    · rename_i s1 h1; exact ih (inv_exec hin inv h1) h
    · cases h

theorem quiescentB_iff (s : St) : quiescentB s = true ↔ quiescent s := by
  simp [quiescentB, quiescent, List.isEmpty_iff, and_assoc]

/-- number of steps the whole system can still take -/
def measure (s : St) : Nat :=
  (s.pending.map (fun n => 1 + (steps n).length)).sum + s.cur.length + (s.tasks.map List.length).sum

theorem steps_length (n : Notif) : (steps n).length = 2 := by
  cases hk : n.kind <;> simp [steps, hk]

theorem sum_set_lt {ts : List (List Step)} {i : Nat} {st : Step} {rest : List Step}
    (h : ts[i]? = some (st :: rest)) :
    ((ts.set i rest).map List.length).sum + 1 = (ts.map List.length).sum := by
  induction ts generalizing i with
  | nil => simp at h
  | cons x xs ih =>
    cases i with
    | zero => simp at h; subst h; simp; omega
    | succ k =>
      have := ih (i := k) (by simpa using h)
      simp only [List.set_cons_succ, List.map_cons, List.sum_cons]; omega

/-- every step decreases the measure by exactly one: all schedules are finite and reach quiescence -/
theorem measure_exec {inline : Kind → Bool} {disk : TMap} {s s' : St} {lab : Label}
    (h : exec inline disk s lab = some s') : measure s' + 1 = measure s := by
  cases lab with
  | main =>
    simp only [exec] at h
    split at h
    · rename_i st rest hc; cases h; simp [measure, hc]; omega
    · rename_i hc
      split at h
      · cases h
      · rename_i n ms hp
        split at h <;> cases h <;> simp [measure, hc, hp, steps_length] <;> omega
  | task i =>
    simp only [exec] at h
    split at h
    · rename_i st rest ht
      cases h
      have := sum_set_lt ht
      simp only [measure]; omega
    · cases h

end Sched
