import EmmyVerif.Model.Markup
/-!
# Lemmas about `Markup`: every range stays inside the description
-/
namespace Markup

/-- `r` lies in `[lo, hi]` -/
def Range.Within (lo hi : Nat) (r : Range) : Prop := lo ≤ r.start ∧ r.stop ≤ hi

/-- a line of `desc_to_lines`: the literal `SourceRange::EMPTY` (pushed for an end-of-line without content)
or a range inside the description -/
def LineOk (lo hi : Nat) (r : Range) : Prop := r = Range.EMPTY ∨ r.Within lo hi

/-- a token the doc parser can produce inside `[lo, hi]`: a start token has at most as many leading dashes
as bytes -/
def Tok.Ok (lo hi : Nat) (t : Tok) : Prop :=
  t.range.Within lo hi ∧ (∀ m, t.kind = .start m → m ≤ t.range.len)

structure St.Ok (lo hi : Nat) (s : St) : Prop where
  lines : ∀ l ∈ s.lines, LineOk lo hi l
  line : LineOk lo hi s.line

theorem step_ok (q : TextQ) (lo hi : Nat) (s : St) (t : Tok) (hs : s.Ok lo hi) (ht : t.Ok lo hi) :
    (step q s t).Ok lo hi := by
  obtain ⟨⟨h1, h2⟩, h3⟩ := ht
  unfold step
  cases hk : t.kind with
  | detail =>
    simp only
    split
    · exact hs
    · split
      · rename_i _ heq
        refine ⟨hs.lines, ?_⟩
        rcases hs.line with he | hw
        · -- EMPTY followed by a token starting at 0
          right
          rw [he] at heq ⊢
          simp only [Range.EMPTY, Range.stop, Nat.zero_add] at heq ⊢
          constructor
          · simp only [Range.stop] at *; omega
          · simp only [Range.Within, Range.stop] at *; omega
        · right
          simp only [Range.Within, Range.stop] at *
          constructor <;> omega
      · split
        · refine ⟨?_, Or.inr ⟨h1, h2⟩⟩
          intro l hl
          simp only [List.mem_cons] at hl
          rcases hl with rfl | hl
          · exact hs.line
          · exact hs.lines l hl
        · exact ⟨hs.lines, Or.inr ⟨h1, h2⟩⟩
  | eol =>
    simp only
    refine ⟨?_, Or.inl rfl⟩
    intro l hl
    simp only [List.mem_cons] at hl
    rcases hl with rfl | hl
    · exact hs.line
    · exact hs.lines l hl
  | start m =>
    simp only
    have hm := h3 m hk
    split
    · refine ⟨hs.lines, Or.inr ?_⟩
      simp only [Range.Within, Range.stop] at *
      constructor <;> omega
    · refine ⟨hs.lines, Or.inr ?_⟩
      simp only [Range.Within, Range.stop] at *
      constructor <;> omega

theorem foldl_ok (q : TextQ) (lo hi : Nat) (toks : List Tok) (s : St) (hs : s.Ok lo hi)
    (ht : ∀ t ∈ toks, t.Ok lo hi) : (toks.foldl (step q) s).Ok lo hi := by
  induction toks generalizing s with
  | nil => exact hs
  | cons t ts ih =>
    simp only [List.foldl_cons]
    exact ih _ (step_ok q lo hi s t hs (ht t (by simp))) (fun t' h' => ht t' (by simp [h']))

theorem collect_ok (q : TextQ) (lo hi : Nat) (toks : List Tok) (ht : ∀ t ∈ toks, t.Ok lo hi) :
    ∀ l ∈ (collect q toks).1, LineOk lo hi l := by
  have h := foldl_ok q lo hi toks St.init ⟨by simp [St.init], Or.inl rfl⟩ ht
  intro l hl
  unfold collect at hl
  simp only at hl
  split at hl
  · simp only [List.mem_reverse, List.mem_cons] at hl
    rcases hl with rfl | hl
    · exact h.line
    · exact h.lines l hl
  · simp only [List.mem_reverse] at hl
    exact h.lines l hl

theorem stripDashes_subset (q : TextQ) (ls : List Range) : ∀ l ∈ stripDashes q ls, l ∈ ls := by
  intro l hl
  unfold stripDashes at hl
  simp only [List.mem_reverse] at hl
  have h1 := (List.dropWhile_sublist q.allDashTrim (l := (ls.dropWhile q.allDashTrim).reverse)).subset hl
  simp only [List.mem_reverse] at h1
  exact (List.dropWhile_sublist q.allDashTrim (l := ls)).subset h1

theorem dedent_ok (lo hi ci : Nat) (l : Range) (h : LineOk lo hi l) : LineOk lo hi (dedent ci l) := by
  unfold dedent
  split
  · rename_i hc
    rcases h with rfl | hw
    · simp [Range.EMPTY] at hc; omega
    · right
      simp only [Range.Within, Range.stop] at *
      constructor <;> omega
  · exact h

theorem cut_subset (c : Option Nat) (ls : List Range) : ∀ l ∈ cut c ls, l ∈ ls := by
  intro l hl
  cases c with
  | none => exact hl
  | some c => exact (List.takeWhile_sublist _ (l := ls)).subset hl

/-- **lines_in_bounds.** -/
theorem descToLines_ok (q : TextQ) (lo hi : Nat) (toks : List Tok) (cursor : Option Nat)
    (ht : ∀ t ∈ toks, t.Ok lo hi) : ∀ l ∈ descToLines q toks cursor, LineOk lo hi l := by
  intro l hl
  unfold descToLines at hl
  simp only at hl
  split at hl
  · simp at hl
  · have h1 := cut_subset cursor _ l hl
    simp only [List.mem_map] at h1
    obtain ⟨l0, hl0, rfl⟩ := h1
    exact dedent_ok lo hi _ l0 (collect_ok q lo hi toks ht l0 (stripDashes_subset q _ l0 hl0))

/-! ## emit -/

def Item.Within (lo hi : Nat) (i : Item) : Prop := i.range.Within lo hi

theorem emit_ok (lo hi : Nat) (cursor : Option Nat) (items : List Item) (r : Range) (kind : Nat)
    (hi' : ∀ i ∈ items, i.Within lo hi) (hr : r.Within lo hi) :
    ∀ i ∈ emit cursor items r kind, i.Within lo hi := by
  unfold emit
  split
  · cases items with
    | nil => intro i h; simp at h; subst h; exact hr
    | cons last rest =>
      simp only
      split
      · rename_i hm
        intro i h
        simp only [List.mem_cons] at h
        rcases h with rfl | h
        · have hl := hi' last (by simp)
          simp only [Item.Within, Range.Within, Range.stop] at *
          constructor <;> omega
        · exact hi' i (by simp [h])
      · intro i h
        simp only [List.mem_cons] at h
        rcases h with rfl | rfl | h
        · exact hr
        · exact hi' _ (by simp)
        · exact hi' i (by simp [h])
  · exact hi'

theorem runEmits_ok (lo hi : Nat) (cursor : Option Nat) (es : List (Range × Nat))
    (he : ∀ e ∈ es, e.1.Within lo hi) : ∀ i ∈ runEmits cursor es, i.Within lo hi := by
  have key : ∀ (es : List (Range × Nat)) (acc : List Item), (∀ e ∈ es, e.1.Within lo hi) →
      (∀ i ∈ acc, i.Within lo hi) →
      ∀ i ∈ es.foldl (fun acc e => emit cursor acc e.1 e.2) acc, i.Within lo hi := by
    intro es
    induction es with
    | nil => intro acc _ ha; exact ha
    | cons e es ih =>
      intro acc he ha
      simp only [List.foldl_cons]
      exact ih _ (fun e' h' => he e' (by simp [h'])) (emit_ok lo hi cursor acc e.1 e.2 ha (he e (by simp)))
  intro i h
  unfold runEmits at h
  simp only [List.mem_reverse] at h
  exact key es [] he (by simp) i h

/-! ## sort -/

theorem keyLe_total (a b : Item) : (keyLe a b || keyLe b a) = true := by
  unfold keyLe
  by_cases h1 : a.range.start = b.range.start
  · by_cases h2 : a.range.len = b.range.len
    · simp only [h1, h2, ne_eq, not_true_eq_false, if_false]
      cases a.kind == 0 <;> cases b.kind == 0 <;> rfl
    · have h2' : ¬ b.range.len = a.range.len := fun h => h2 h.symm
      simp only [h1, h2, h2', ne_eq, not_true_eq_false, not_false_eq_true, if_false, if_true, Bool.or_eq_true,
        decide_eq_true_eq]
      omega
  · have h1' : ¬ b.range.start = a.range.start := fun h => h1 h.symm
    simp only [h1, h1', ne_eq, not_false_eq_true, if_true, Bool.or_eq_true, decide_eq_true_eq]
    omega

theorem keyLe_iff (a b : Item) : keyLe a b = true ↔
    a.range.start < b.range.start ∨ (a.range.start = b.range.start ∧
      (b.range.len < a.range.len ∨ (a.range.len = b.range.len ∧ ((a.kind == 0) = true ∨ (b.kind == 0) = false)))) := by
  unfold keyLe
  by_cases h1 : a.range.start = b.range.start
  · by_cases h2 : a.range.len = b.range.len
    · simp only [h1, h2, ne_eq, not_true_eq_false, if_false, Nat.lt_irrefl, false_or, true_and]
      cases a.kind == 0 <;> cases b.kind == 0 <;> simp
    · simp only [h1, h2, ne_eq, not_true_eq_false, not_false_eq_true, if_false, if_true, decide_eq_true_eq,
        Nat.lt_irrefl, false_or, true_and, false_and, or_false]
  · simp only [h1, ne_eq, not_false_eq_true, if_true, decide_eq_true_eq, false_and, or_false]

theorem keyLe_trans (a b c : Item) (h1 : keyLe a b = true) (h2 : keyLe b c = true) : keyLe a c = true := by
  rw [keyLe_iff] at *
  rcases h1 with h1 | ⟨e1, h1⟩ <;> rcases h2 with h2 | ⟨e2, h2⟩
  · left; omega
  · left; omega
  · left; omega
  · right
    refine ⟨by omega, ?_⟩
    rcases h1 with h1 | ⟨f1, h1⟩ <;> rcases h2 with h2 | ⟨f2, h2⟩
    · left; omega
    · left; omega
    · left; omega
    · right
      refine ⟨by omega, ?_⟩
      revert h1 h2
      cases a.kind == 0 <;> cases b.kind == 0 <;> cases c.kind == 0 <;> simp

end Markup
