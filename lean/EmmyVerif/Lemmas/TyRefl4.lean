import EmmyVerif.Lemmas.TyRefl3
/-!
# Union member law with one compound member

The scan over the members of an expected union aborts on a hard error, so the member law needs every
member visited before the matching one to be *decided* (`ok` / `TypeNotMatch`). Here: atoms against a
compound type and a compound type against atoms (both shallow — no recursion into element types).
-/
namespace TyM
open Ty

def isCompound : Ty → Bool
  | .array _ | .tuple _ | .tgen _ | .object _ => true
  | _ => false

theorem isAlias_false_of_atom (e : Env) (n : Name) (h : isAtom e (.ref n) = true) : e.isAlias n = false := by
  simp only [isAtom] at h
  cases hf : e.find n with
  | none => simp [hf] at h
  | some d => simp only [hf, decide_eq_true_eq] at h; simp [Env.isAlias, hf, h]

theorem find_some_of_atom (e : Env) (n : Name) (h : isAtom e (.ref n) = true) : (e.find n).isNone = false := by
  simp only [isAtom] at h
  cases hf : e.find n with
  | none => simp [hf] at h
  | some d => rfl

theorem allOk_decided {α : Type} (g : α → Res) (l : List α) (h : ∀ m ∈ l, (g m).decided = true) :
    (allOk g l).decided = true := by
  induction l with
  | nil => rfl
  | cons x xs ih =>
    simp only [allOk]
    have hx := h x (List.mem_cons_self)
    cases hgx : g x <;> simp_all [Res.andThen, Res.decided]

/-- the general form of the member law: decided before, accepted at the member -/
theorem union_member_cond (e : Env) (ip : List (Name × Ty)) (f lvl : Nat) (ms : TyL) (c : Ty)
    (hc : c ∈ ms.toList) (h1 : isLikeAny c = false) (h2 : fastEq (.union ms) c = false)
    (h3 : escapeType e c = none) (h4 : c.isUnion = false) (hl : lvl < maxLevel)
    (hdec : ∀ m ∈ ms.toList, (checkGeneral e ip f (lvl + 1) m c).decided = true)
    (hrefl : checkGeneral e ip f (lvl + 1) c c = .ok) :
    checkGeneral e ip (f + 2) lvl (.union ms) c = .ok := by
  rw [checkGeneral_union_src e ip f lvl ms c h1 h2 h3 h4, anyOk_ok]
  · rfl
  · intro m hm
    rw [withNext_lt lvl _ hl]
    exact hdec m hm
  · refine ⟨c, hc, ?_⟩
    rw [withNext_lt lvl _ hl]
    exact hrefl

/-- **compound against an atom is decided** (no recursion into the element types) -/
theorem compound_vs_atom_decided (e : Env) (ip : List (Name × Ty)) (f lvl : Nat) (s c : Ty)
    (hs : isCompound s = true) (hc : isAtom e c = true) (hl : lvl < maxLevel) :
    (checkGeneral e ip (f + 3) lvl s c).decided = true := by
  have hesc := atom_escape_none e c hc
  unfold checkGeneral
  by_cases h1 : isLikeAny c = true
  · simp [h1, Res.decided]
  · have h2 : fastEq s c = false := by cases s <;> simp_all [isCompound, fastEq]
    simp only [h1, h2, hesc, Bool.false_eq_true, if_false]
    cases s with
    | array b =>
      simp only []
      unfold checkComplex
      simp only []
      unfold checkArray
      cases c with
      | prim k => cases k <;> simp_all [Res.decided, isLikeAny, isAtom]
      | lit l => simp [Res.decided]
      | ref n => simp [withNext_lt lvl _ hl, isAlias_false_of_atom e n hc, Res.decided]
      | _ => simp [isAtom] at hc
    | tuple ts =>
      simp only []
      unfold checkComplex
      simp only []
      unfold checkTuple
      cases c with
      | prim k => cases k <;> simp_all [Res.decided, isLikeAny, isAtom]
      | lit l => simp [Res.decided]
      | ref n => simp [Res.decided]
      | _ => simp [isAtom] at hc
    | tgen ps =>
      simp only []
      unfold checkComplex
      simp only []
      unfold checkTgen
      cases c with
      | prim k => cases k <;> simp_all [Res.decided, isLikeAny, isAtom]
      | lit l => simp [Res.decided]
      | ref n =>
        simp only [withNext_lt lvl _ hl]
        by_cases hp : ps.toList.length = 2 <;> simp [hp, Res.decided]
      | _ => simp [isAtom] at hc
    | object fs =>
      simp only []
      unfold checkComplex
      simp only []
      unfold checkObject
      cases c with
      | prim k => cases k <;> simp_all [Res.decided, isLikeAny, isAtom]
      | lit l => simp [Res.decided]
      | ref n =>
        have hd : (allOk (fun (kt : Name × Ty) => if isNullable kt.2 ∨ kt.2 = tAny then Res.ok else Res.notMatch)
            fs.toList).decided = true :=
          allOk_decided _ _ (fun m _ => decided_ite _)
        simp only [withNext_lt lvl _ hl, isAlias_false_of_atom e n hc, find_some_of_atom e n hc]
        cases hr : (allOk (fun (kt : Name × Ty) => if isNullable kt.2 ∨ kt.2 = tAny then Res.ok else Res.notMatch)
            fs.toList) <;> simp_all [Res.decided]
      | _ => simp [isAtom] at hc
    | _ => simp [isCompound] at hs

theorem baseTypeForRef_nonref_decided (e : Env) (f lvl : Nat) (s c : Ty) (hc : c.isRef = false)
    (hl : lvl < maxLevel) : (baseTypeForRef e (f + 1) lvl s c).decided = true := by
  unfold baseTypeForRef
  have hne : next lvl = some (lvl + 1) := by unfold next; rw [if_neg (by omega)]
  cases c <;> simp_all [aliasRealType, Res.decided, Ty.isRef]

/-- **an atom against a compound type is decided** -/
theorem atom_vs_compound_decided (e : Env) (ip : List (Name × Ty)) (f lvl : Nat) (s c : Ty)
    (hs : isAtom e s = true) (hc : isCompound c = true) (hl : lvl < maxLevel) :
    (checkGeneral e ip (f + 3) lvl s c).decided = true := by
  have hesc : escapeType e c = none := by cases c <;> simp_all [isCompound, escapeType]
  have h1 : isLikeAny c = false := by cases c <;> simp_all [isCompound, isLikeAny]
  have h2 : fastEq s c = false := by cases s <;> cases c <;> simp_all [isCompound, fastEq]
  have hcr : c.isRef = false := by cases c <;> simp_all [isCompound, Ty.isRef]
  have hcu : c.isUnion = false := by cases c <;> simp_all [isCompound, Ty.isUnion]
  unfold checkGeneral
  simp only [h1, h2, hesc, Bool.false_eq_true, if_false]
  cases s with
  | prim k =>
    have hsimple : (checkSimple e ip (f + 2) lvl (.prim k) c).decided = true := by
      unfold checkSimple
      have := simpleDecide_decided e (.prim k) c (fun _ => baseTypeForRef e (f + 1) lvl (.prim k) c)
        (baseTypeForRef_nonref_decided e f lvl _ c hcr hl)
      cases hsd : simpleDecide e (.prim k) c (fun _ => baseTypeForRef e (f + 1) lvl (.prim k) c) with
      | some r => simpa [hsd, optDecided] using this
      | none => cases c <;> simp_all [Ty.isUnion, Res.decided]
    cases k <;> simp_all [isAtom, Res.decided]
  | lit l =>
    unfold checkSimple
    have := simpleDecide_decided e (.lit l) c (fun _ => baseTypeForRef e (f + 1) lvl (.lit l) c)
      (baseTypeForRef_nonref_decided e f lvl _ c hcr hl)
    cases hsd : simpleDecide e (.lit l) c (fun _ => baseTypeForRef e (f + 1) lvl (.lit l) c) with
    | some r => simpa [hsd, optDecided] using this
    | none => cases c <;> simp_all [Ty.isUnion, Res.decided]
  | ref n =>
    have hal := isAlias_false_of_atom e n hs
    simp only [isAtom] at hs
    cases hf : e.find n with
    | none => simp [hf] at hs
    | some d =>
      simp only [hf, decide_eq_true_eq] at hs
      unfold checkRef
      simp only [hf, hs]
      unfold checkRefClass
      cases c with
      | object fs => simp [withNext_lt lvl _ hl, hal, Res.decided]
      | tuple ts => simp [withNext_lt lvl _ hl, hal, Res.decided]
      | array b => simp only [baseTypeName]; exact decided_ite _
      | tgen ps => simp only [baseTypeName]; exact decided_ite _
      | _ => simp [isCompound] at hc
  | _ => simp [isAtom] at hs

/-- **union member, atoms plus one compound member.** In a union whose members are atoms and one
compound well-formed type `k` (an array, tuple, `table<…>` or record, nested arbitrarily), every member
is accepted where the union is expected. -/
theorem union_member_mixed (e : Env) (ip : List (Name × Ty)) (f lvl : Nat) (ms : TyL) (k c : Ty)
    (hk : isCompound k = true) (hwk : wfA e k = true)
    (hms : ∀ m ∈ ms.toList, isAtom e m = true ∨ m = k) (hc : c ∈ ms.toList)
    (hl : lvl + 1 + lv k ≤ maxLevel) (hl2 : lvl + 1 < maxLevel) :
    checkGeneral e ip (f + fd k + 5) lvl (.union ms) c = .ok := by
  have hlt : lvl < maxLevel := by omega
  rcases hms c hc with hca | hck
  · by_cases h1 : isLikeAny c = true
    · exact checkGeneral_compact_likeAny e ip (f + fd k + 4) lvl _ c h1
    · by_cases h2 : fastEq (.union ms) c = true
      · unfold checkGeneral; simp [h1, h2]
      · rw [show f + fd k + 5 = (f + fd k + 3) + 2 from rfl]
        apply union_member_cond e ip _ lvl ms c hc (by simpa using h1) (by simpa using h2)
          (atom_escape_none e c hca) (atom_not_union e c hca) hlt
        · intro m hm
          rcases hms m hm with hma | hmk
          · exact atom_pair_decided e ip (f + fd k) (lvl + 1) m c hma hca hl2
          · rw [hmk]; exact compound_vs_atom_decided e ip (f + fd k) (lvl + 1) k c hk hca hl2
        · exact atom_refl e ip (f + fd k + 1) (lvl + 1) c hca
  · subst hck
    have hrefl : checkGeneral e ip (f + fd c + 3) (lvl + 1) c c = .ok := by
      rw [show f + fd c + 3 = (f + 3) + fd c from by omega]
      exact reflA_ty e c hwk ip (f + 3) (lvl + 1) hl
    rw [show f + fd c + 5 = (f + fd c + 3) + 2 from rfl]
    apply union_member_cond e ip _ lvl ms c hc
      (by cases c <;> simp_all [isCompound, isLikeAny])
      (by cases c <;> simp_all [isCompound, fastEq])
      (by cases c <;> simp_all [isCompound, escapeType])
      (by cases c <;> simp_all [isCompound, Ty.isUnion]) hlt
    · intro m hm
      rcases hms m hm with hma | hmk
      · exact atom_vs_compound_decided e ip (f + fd c) (lvl + 1) m c hma hk hl2
      · rw [hmk, hrefl]; rfl
    · exact hrefl

/-- **reflexivity, unions of atoms plus one compound member** -/
theorem union_mixed_refl (e : Env) (ip : List (Name × Ty)) (f lvl : Nat) (ms : TyL) (k : Ty)
    (hk : isCompound k = true) (hwk : wfA e k = true)
    (hms : ∀ m ∈ ms.toList, isAtom e m = true ∨ m = k)
    (hl : lvl + 3 + lv k ≤ maxLevel) (hl2 : lvl + 3 < maxLevel) :
    checkGeneral e ip (f + fd k + 7) lvl (.union ms) (.union ms) = .ok := by
  rw [show f + fd k + 7 = (f + fd k + 5) + 2 from rfl]
  apply checkGeneral_union_union_ok
  rw [withNext_lt lvl _ (by omega)]
  apply allOk_ok
  intro cm hcm
  rw [withNext_lt (lvl + 1) _ (by omega)]
  exact union_member_mixed e ip f (lvl + 1 + 1) ms k cm hk hwk hms hcm (by omega) (by omega)

end TyM
