import EmmyVerif.Model.Diag
import EmmyVerif.Lemmas.TextSplit
/-! Lemmas for the `Diag` family: range overlap as "covers a position", `getLine` over strictly
increasing line starts, line starts of a split text, the fold over tags. -/
namespace Diag

/-- the positions a diagnostic range occupies: its bytes, or its caret position when it is empty -/
def occupies (r : Range) (p : Nat) : Prop := if r.1 = r.2 then p = r.1 else r.1 ≤ p ∧ p < r.2

instance (r : Range) (p : Nat) : Decidable (occupies r p) := by unfold occupies; exact inferInstance

/-- the overlap test is exactly "some occupied position lies in the half-open scope" -/
theorem covers_iff (sc r : Range) (hsc : sc.1 < sc.2) (hr : r.1 ≤ r.2) :
    covers sc r = true ↔ ∃ p, sc.1 ≤ p ∧ p < sc.2 ∧ occupies r p := by
  unfold covers occupies
  by_cases h : r.1 = r.2
  · simp only [h, if_true, Bool.and_eq_true, decide_eq_true_eq]
    constructor
    · intro ⟨h1, h2⟩; exact ⟨r.2, h1, h2, rfl⟩
    · intro ⟨p, h1, h2, h3⟩; subst h3; exact ⟨h1, h2⟩
  · simp only [h, if_false, Bool.and_eq_true, decide_eq_true_eq]
    constructor
    · intro ⟨h1, h2⟩
      by_cases hle : sc.1 ≤ r.1
      · exact ⟨r.1, by omega, by omega, by omega, by omega⟩
      · exact ⟨sc.1, by omega, by omega, by omega, by omega⟩
    · intro ⟨p, h1, h2, h3, h4⟩; omega

/-! ### `getLine` -/

def cnt (starts : List Nat) (o : Nat) : Nat := (starts.takeWhile (· ≤ o)).length

theorem cnt_lt (starts : List Nat) (o i : Nat) (h : i < cnt starts o) :
    ∃ s, starts[i]? = some s ∧ s ≤ o := by
  induction starts generalizing i with
  | nil => simp [cnt] at h
  | cons a rest ih =>
    unfold cnt at h
    rw [List.takeWhile_cons] at h
    by_cases ha : a ≤ o
    · simp only [decide_eq_true_eq, ha, if_true, List.length_cons] at h
      cases i with
      | zero => exact ⟨a, by simp, ha⟩
      | succ j =>
        obtain ⟨s, h1, h2⟩ := ih j (by unfold cnt; omega)
        exact ⟨s, by simpa using h1, h2⟩
    · simp [ha] at h

theorem cnt_ge (starts : List Nat) (hs : starts.Pairwise (· < ·)) (o i s : Nat)
    (h : cnt starts o ≤ i) (hi : starts[i]? = some s) : o < s := by
  induction starts generalizing i with
  | nil => simp at hi
  | cons a rest ih =>
    rw [List.pairwise_cons] at hs
    unfold cnt at h
    rw [List.takeWhile_cons] at h
    by_cases ha : a ≤ o
    · simp only [decide_eq_true_eq, ha, if_true, List.length_cons] at h
      cases i with
      | zero => omega
      | succ j => exact ih hs.2 j (by unfold cnt; omega) (by simpa using hi)
    · cases i with
      | zero => simp at hi; omega
      | succ j =>
        have hm : s ∈ rest := List.mem_of_getElem? (by simpa using hi)
        have := hs.1 s hm
        omega

theorem getLine_eq (starts : List Nat) (o k : Nat) :
    getLine starts o = some k ↔ cnt starts o = k + 1 := by
  unfold getLine cnt
  split <;> rename_i h <;> simp [h]

/-- `getLine` finds the line whose start is at or before the offset and whose successor starts after it -/
theorem getLine_some_iff (starts : List Nat) (hs : starts.Pairwise (· < ·)) (o k : Nat) :
    getLine starts o = some k ↔
      (∃ s, starts[k]? = some s ∧ s ≤ o) ∧ (∀ s', starts[k + 1]? = some s' → o < s') := by
  rw [getLine_eq]
  constructor
  · intro h
    exact ⟨cnt_lt starts o k (by omega), fun s' hs' => cnt_ge starts hs o (k + 1) s' (by omega) hs'⟩
  · intro ⟨⟨s, h1, h2⟩, h3⟩
    have hk : k < cnt starts o := by
      apply Classical.byContradiction; intro hc
      have := cnt_ge starts hs o k s (by omega) h1
      omega
    have hk2 : ¬ (k + 1 < cnt starts o) := by
      intro hc
      obtain ⟨s', h4, h5⟩ := cnt_lt starts o (k + 1) hc
      have := h3 s' h4
      omega
    omega

theorem getLine_total (starts : List Nat) (rest : List Nat) (h0 : starts = 0 :: rest) (o : Nat) :
    ∃ k, getLine starts o = some k := by
  subst h0
  unfold getLine
  simp

theorem getLine_lt_length (starts : List Nat) (o k : Nat) (h : getLine starts o = some k) :
    k < starts.length := by
  rw [getLine_eq] at h
  obtain ⟨s, h1, _⟩ := cnt_lt starts o k (by omega)
  exact (List.getElem?_eq_some_iff.mp h1).1

theorem starts_mono (starts : List Nat) (hs : starts.Pairwise (· < ·)) (i j a b : Nat) (hij : i ≤ j)
    (hi : starts[i]? = some a) (hj : starts[j]? = some b) : a ≤ b := by
  rcases Nat.lt_or_eq_of_le hij with h | h
  · obtain ⟨h1, h2⟩ := List.getElem?_eq_some_iff.mp hi
    obtain ⟨h3, h4⟩ := List.getElem?_eq_some_iff.mp hj
    have := (List.pairwise_iff_getElem.mp hs) i j h1 h3 h
    omega
  · subst h; rw [hi] at hj; cases hj; omega

/-- an offset lies before the start of line `j + 1` exactly when its line is at most `j` -/
theorem getLine_le_iff (starts : List Nat) (hs : starts.Pairwise (· < ·)) (p k j e : Nat)
    (hk : getLine starts p = some k) (he : starts[j + 1]? = some e) : p < e ↔ k ≤ j := by
  obtain ⟨⟨s, h1, h2⟩, h3⟩ := (getLine_some_iff starts hs p k).mp hk
  constructor
  · intro hp
    apply Classical.byContradiction; intro hc
    have := starts_mono starts hs (j + 1) k e s (by omega) he h1
    omega
  · intro hkj
    have hlen := (List.getElem?_eq_some_iff.mp he).1
    have hk1 : k + 1 < starts.length := by omega
    have h4 := h3 starts[k + 1] (List.getElem?_eq_getElem hk1)
    have := starts_mono starts hs (k + 1) (j + 1) _ e (by omega) (List.getElem?_eq_getElem hk1) he
    omega

/-! ### line starts of a split text -/

theorem lineStarts_ge (d : Text.Doc) (base : Nat) : ∀ x ∈ Text.lineStarts d base, base ≤ x := by
  induction d generalizing base with
  | nil => simp [Text.lineStarts]
  | cons l rest ih =>
    intro x hx
    simp only [Text.lineStarts, List.mem_cons] at hx
    rcases hx with hx | hx
    · omega
    · have := ih _ x hx; omega

theorem lineStarts_pairwise (d : Text.Doc) (hwf : Text.WF d) (base : Nat) :
    (Text.lineStarts d base).Pairwise (· < ·) := by
  induction d generalizing base with
  | nil => simp [Text.lineStarts]
  | cons l rest ih =>
    cases rest with
    | nil => simp [Text.lineStarts]
    | cons l' rest' =>
      obtain ⟨_, h2, h3⟩ := hwf
      simp only [Text.lineStarts, List.pairwise_cons]
      have hpos := Text.len8_pos_of_ne_nil h2
      refine ⟨?_, ?_⟩
      · intro x hx
        have := lineStarts_ge (l' :: rest') (base + Text.len8 l.chars) x (by simpa [Text.lineStarts] using hx)
        omega
      · have := ih h3 (base + Text.len8 l.chars)
        simpa [Text.lineStarts] using this

theorem lineStarts_le (d : Text.Doc) (base : Nat) :
    ∀ x ∈ Text.lineStarts d base, x ≤ base + Text.len8 (Text.join d) := by
  induction d generalizing base with
  | nil => simp [Text.lineStarts]
  | cons l rest ih =>
    intro x hx
    simp only [Text.lineStarts, List.mem_cons] at hx
    have hj : Text.len8 (Text.join (l :: rest)) = Text.len8 l.chars + Text.len8 (Text.join rest) := by
      simp [Text.join]
    rcases hx with hx | hx
    · omega
    · have := ih _ x hx; omega

theorem lineStarts_head (d : Text.Doc) (hd : d ≠ []) (base : Nat) :
    ∃ rest, Text.lineStarts d base = base :: rest := by
  cases d with
  | nil => exact absurd rfl hd
  | cons l rest => exact ⟨_, rfl⟩

/-- the line starts of a text: first is 0, strictly increasing, none beyond the end of the text -/
theorem textStarts_ok (t : List Char) :
    (∃ rest, Text.lineStarts (Text.splitLines t) 0 = 0 :: rest) ∧
    (Text.lineStarts (Text.splitLines t) 0).Pairwise (· < ·) ∧
    ∀ x ∈ Text.lineStarts (Text.splitLines t) 0, x ≤ Text.len8 t := by
  refine ⟨lineStarts_head _ (Text.splitAux_ne_nil t []) 0,
    lineStarts_pairwise _ (Text.wf_splitAux t []) 0, ?_⟩
  intro x hx
  have := lineStarts_le (Text.splitLines t) 0 x hx
  have hj : Text.join (Text.splitLines t) = t := by simp [Text.splitLines, Text.join_splitAux]
  rw [hj] at this; omega

/-! ### the fold over tags -/

/-- the ranged actions one tag registers -/
def tagActions (starts : List Nat) (len : Nat) (tag : Tag) : List Action :=
  match tagRange starts len tag with
  | none => []
  | some r => scopedActions r tag.codes

theorem analyzeTag_actions (starts : List Nat) (len : Nat) (st : FileDiag) (tag : Tag) :
    (analyzeTag starts len st tag).actions = st.actions ++ tagActions starts len tag := by
  unfold analyzeTag tagActions
  split
  · rename_i h1 h2 h3
    simp [tagRange, h1, h2, h3]
  · rename_i h1 h3
    simp [tagRange, h1]
  · split <;> rename_i h <;> simp [h]

theorem foldl_actions (starts : List Nat) (len : Nat) (tags : List Tag) (st : FileDiag) :
    (tags.foldl (analyzeTag starts len) st).actions = st.actions ++ tags.flatMap (tagActions starts len) := by
  induction tags generalizing st with
  | nil => simp
  | cons t rest ih => simp [List.foldl_cons, ih, analyzeTag_actions, List.append_assoc]

theorem analyze_actions (starts : List Nat) (len : Nat) (tags : List Tag) :
    (analyze starts len tags).actions = tags.flatMap (tagActions starts len) := by
  unfold analyze; rw [foldl_actions]; rfl

/-- a tag selects a code: no code list, or the code is in the list -/
def selects (tag : Tag) (c : Code) : Prop :=
  match tag.codes with
  | none => True
  | some cs => some c ∈ cs

theorem mem_knownCodes (cs : List (Option Code)) (c : Code) : c ∈ knownCodes cs ↔ some c ∈ cs := by
  unfold knownCodes
  rw [List.mem_filterMap]
  constructor
  · intro ⟨a, h1, h2⟩; simp at h2; subst h2; exact h1
  · intro h; exact ⟨some c, h, rfl⟩

theorem scopedActions_any (rng r : Range) (codes : Option (List (Option Code))) (c : Code) :
    ((scopedActions rng codes).any fun a => a.isMatch true r c) = true ↔
      covers rng r = true ∧ (match codes with | none => True | some cs => some c ∈ cs) := by
  cases codes with
  | none => simp [scopedActions, Action.isMatch]
  | some cs =>
    simp only [scopedActions, List.any_map, List.any_eq_true, Function.comp, Action.isMatch,
      Bool.and_eq_true, beq_iff_eq]
    constructor
    · intro ⟨x, hx, h1, h2⟩; subst h2; exact ⟨h1, (mem_knownCodes cs x).mp hx⟩
    · intro ⟨h1, h2⟩; exact ⟨c, (mem_knownCodes cs c).mpr h2, h1, rfl⟩

/-- suppression = some tag selects the code and its valid range covers the diagnostic range -/
theorem suppressed_iff_tag (starts : List Nat) (len : Nat) (tags : List Tag) (c : Code) (r : Range) :
    suppressed (analyze starts len tags) c r = true ↔
      ∃ tag ∈ tags, selects tag c ∧ ∃ rng, tagRange starts len tag = some rng ∧ covers rng r = true := by
  unfold suppressed
  rw [analyze_actions, List.any_flatMap, List.any_eq_true]
  constructor
  · intro ⟨tag, hm, h⟩
    refine ⟨tag, hm, ?_⟩
    unfold tagActions at h
    split at h
    · simp at h
    · rename_i rng hr
      obtain ⟨h1, h2⟩ := (scopedActions_any rng r tag.codes c).mp h
      exact ⟨h2, rng, hr, h1⟩
  · intro ⟨tag, hm, hsel, rng, hr, hc⟩
    refine ⟨tag, hm, ?_⟩
    unfold tagActions
    rw [hr]
    exact (scopedActions_any rng r tag.codes c).mpr ⟨hc, hsel⟩

end Diag
