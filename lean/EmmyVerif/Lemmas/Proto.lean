import EmmyVerif.Model.Proto
/-!
Lemmas for the `Proto` family: the accounting invariant behind `C24_one_response`.

`owed st id` = number of responses with `id` already sent + requests with `id` still queued + handler
tasks with `id` still running. Every step adds exactly the answerable requests of that step.
-/
namespace Proto

def msgId? : Msg → Option Nat
  | .request id _ _ _ => some id
  | .notification _ _ _ => none
  | .response => none

@[simp] theorem msgId_request (i : Nat) (m : String) (p : PState) (o : Outcome) :
    msgId? (.request i m p o) = some i := rfl
@[simp] theorem msgId_notification (m : String) (p : PState) (t : Nat) :
    msgId? (.notification m p t) = none := rfl
@[simp] theorem msgId_response : msgId? .response = none := rfl

theorem count_single (i id : Nat) : List.count id [i] = if i = id then 1 else 0 := by
  simp [List.count_cons]

/-- sent + running -/
def owed₂ (st : St) (id : Nat) : Nat :=
  (ids st.out).count id + (st.inflight.map (·.id)).count id

def owed (st : St) (id : Nat) : Nat :=
  owed₂ st id + (st.pending.filterMap msgId?).count id

/-- messages are only queued while initializing -/
def Inv (st : St) : Prop := st.phase ≠ .initializing → st.pending = []

@[simp] theorem cancel_ids (st : St) (t : Nat) :
    (cancel st t).inflight.map (·.id) = st.inflight.map (·.id) := by
  simp only [cancel, List.map_map]
  apply List.map_congr_left
  intro a _
  simp only [Function.comp]
  split <;> rfl

theorem owed₂_cancel (st : St) (t id : Nat) : owed₂ (cancel st t) id = owed₂ st id := by
  unfold owed₂; rw [cancel_ids]; rfl

theorem owed₂_respond (st : St) (i : Nat) (k : RKind) (id : Nat) :
    owed₂ (respond st i k) id = owed₂ st id + (if i = id then 1 else 0) := by
  simp only [owed₂, respond, ids, List.map_cons, List.count_cons, beq_iff_eq]
  omega

theorem owed₂_spawn (st : St) (i : Nat) (o : Outcome) (id : Nat) :
    owed₂ (spawn st i o) id = owed₂ st id + (if i = id then 1 else 0) := by
  unfold spawn
  split
  · simp only [owed₂, ids, List.map_cons, List.count_cons, beq_iff_eq]; omega
  · exact owed₂_respond ..

@[simp] theorem respond_pending (st : St) (i : Nat) (k : RKind) : (respond st i k).pending = st.pending := rfl
@[simp] theorem respond_phase (st : St) (i : Nat) (k : RKind) : (respond st i k).phase = st.phase := rfl
@[simp] theorem cancel_pending (st : St) (t : Nat) : (cancel st t).pending = st.pending := rfl
@[simp] theorem cancel_phase (st : St) (t : Nat) : (cancel st t).phase = st.phase := rfl
@[simp] theorem spawn_pending (st : St) (i : Nat) (o : Outcome) : (spawn st i o).pending = st.pending := by
  unfold spawn; split <;> rfl
@[simp] theorem spawn_phase (st : St) (i : Nat) (o : Outcome) : (spawn st i o).phase = st.phase := by
  unfold spawn; split <;> rfl

def one (o : Option Nat) (id : Nat) : Nat :=
  match o with
  | some i => if i = id then 1 else 0
  | none => 0

theorem handle_pending (st : St) (m : Msg) : (handle st m).pending = st.pending := by
  cases m with
  | request i meth p o =>
    simp only [handle]
    split
    · rfl
    · split
      · cases p <;> simp
      · simp
  | notification meth p t => simp only [handle]; split <;> simp
  | response => rfl

theorem owed₂_handle (st : St) (m : Msg) (id : Nat) :
    owed₂ (handle st m) id = owed₂ st id + one (msgId? m) id := by
  cases m with
  | request i meth p o =>
    simp only [handle, msgId?, one]
    split
    · exact owed₂_respond st i .result id
    · split
      · cases p
        · exact owed₂_spawn ..
        · exact owed₂_respond ..
      · exact owed₂_respond ..
  | notification meth p t =>
    simp only [handle, msgId?, one]
    split
    · exact owed₂_cancel ..
    · rfl
  | response => rfl

/-- the phase after `handle` is the old one or `shuttingDown` -/
theorem handle_phase (st : St) (m : Msg) :
    (handle st m).phase = st.phase ∨ (handle st m).phase = .shuttingDown := by
  cases m with
  | request i meth p o =>
    simp only [handle]
    split
    · right; rfl
    · split
      · cases p <;> simp
      · simp
  | notification meth p t => simp only [handle]; split <;> simp
  | response => left; rfl

theorem flush_pending (st : St) (ms : List Msg) : (flush st ms).pending = st.pending := by
  induction ms generalizing st with
  | nil => rfl
  | cons m rest ih =>
    simp only [flush]
    split
    · cases m <;> simp [ih]
    · rw [ih, handle_pending]

theorem owed₂_flush (st : St) (ms : List Msg) (id : Nat) :
    owed₂ (flush st ms) id = owed₂ st id + (ms.filterMap msgId?).count id := by
  induction ms generalizing st with
  | nil => simp [flush]
  | cons m rest ih =>
    simp only [flush]
    split
    · cases m with
      | request i meth p o =>
        simp only [ih, owed₂_respond, List.filterMap_cons, msgId?, List.count_cons, beq_iff_eq]
        omega
      | notification meth p t => simp [ih, List.filterMap_cons]
      | response => simp [ih, List.filterMap_cons]
    · rw [ih, owed₂_handle]
      cases m <;> simp only [msgId?, one, List.filterMap_cons, List.count_cons, beq_iff_eq] <;> omega

/-- after a flush that started in `running` the phase is `running` or `shuttingDown` -/
theorem flush_phase (st : St) (ms : List Msg)
    (h : st.phase = .running ∨ st.phase = .shuttingDown) :
    (flush st ms).phase = .running ∨ (flush st ms).phase = .shuttingDown := by
  induction ms generalizing st with
  | nil => exact h
  | cons m rest ih =>
    simp only [flush]
    split
    · cases m <;> exact ih _ (by simpa using h)
    · apply ih
      rcases handle_phase st m with h' | h'
      · rw [h']; exact h
      · right; exact h'

theorem inv_step (st : St) (e : Event) (h : Inv st) : Inv (step st e) := by
  unfold Inv at *
  cases e with
  | initDone =>
    simp only [step]
    split
    · intro _; rw [flush_pending]
    · exact h
  | msg m =>
    simp only [step]
    cases hp : st.phase with
    | dead => simp only; intro h'; exact h (by rw [hp]; simp)
    | preInit =>
      have hpend := h (by rw [hp]; simp)
      cases m with
      | request i meth p o =>
        simp only
        split
        · cases p <;> simp [hpend]
        · simp [hpend]
      | notification meth p t => simp only; split <;> simp [hpend, hp]
      | response => simp [hpend]
    | awaitInitialized =>
      have hpend := h (by rw [hp]; simp)
      cases m with
      | notification meth p t => simp only; split <;> simp [hpend]
      | request i meth p o => simp [hpend]
      | response => simp [hpend]
    | initializing =>
      cases m with
      | response => simp only; intro h'; exact absurd hp h'
      | notification meth p t =>
        simp only
        split
        · intro _; simp only; rw [flush_pending]
        · split
          · intro h'
            rcases handle_phase st (.notification meth p t) with h2 | h2
            · rw [h2] at h'; exact absurd hp h'
            · -- a notification never starts the shutdown
              simp only [handle] at h2 h'
              split at h2 <;> simp [hp] at h2
          · intro h'; exact absurd rfl h'
      | request i meth p o => simp only; intro h'; exact absurd rfl h'
    | running =>
      have hpend := h (by rw [hp]; simp)
      cases m with
      | notification meth p t =>
        simp only
        split
        · intro _; exact hpend
        · intro _; rw [handle_pending]; exact hpend
      | request i meth p o => simp only; intro _; rw [handle_pending]; exact hpend
      | response => simp only; intro _; rw [handle_pending]; exact hpend
    | shuttingDown =>
      simp only
      have hpend := h (by rw [hp]; simp)
      intro _
      cases m with
      | request i meth p o => simpa [handleShuttingDown] using hpend
      | notification meth p t => simp only [handleShuttingDown]; split <;> simpa using hpend
      | response => simpa [handleShuttingDown] using hpend

theorem owed_step (st : St) (e : Event) (id : Nat) (h : Inv st) :
    owed (step st e) id = owed st id + (owes st e).count id := by
  cases e with
  | initDone =>
    simp only [step, owes, requestId?, List.count_nil, Nat.add_zero]
    split
    · simp only [owed, flush_pending, owed₂_flush, List.filterMap_nil, List.count_nil, Nat.add_zero]
      simp [owed₂]
    · rfl
  | msg m =>
    simp only [step, owes]
    cases hp : st.phase with
    | dead => cases m <;> simp [requestId?, answers]
    | preInit =>
      cases m with
      | request i meth p o =>
        simp only [requestId?, answers, if_true, List.count_cons, List.count_nil, beq_iff_eq]
        split
        · cases p
          · simp only [owed]; rw [show ({ respond st i .result with phase := Phase.awaitInitialized } : St).pending = st.pending from rfl]
            have := owed₂_respond st i .result id
            simp only [owed₂, respond] at this ⊢
            omega
          · simp only [owed, respond_pending, owed₂_respond]; omega
        · simp only [owed, respond_pending, owed₂_respond]; omega
      | notification meth p t => simp only [requestId?]; split <;> simp [owed, owed₂]
      | response => simp [requestId?, owed, owed₂]
    | awaitInitialized =>
      cases m with
      | notification meth p t => simp only [requestId?]; split <;> simp [owed, owed₂]
      | request i meth p o => simp [requestId?, answers, owed, owed₂]
      | response => simp [requestId?, owed, owed₂]
    | initializing =>
      cases m with
      | response => simp [requestId?]
      | notification meth p t =>
        simp only [requestId?, List.count_nil, Nat.add_zero]
        split
        · have hf := owed₂_flush { st with phase := .running, pending := [] } st.pending id
          have hp' := flush_pending { st with phase := .running, pending := [] } st.pending
          simp only [owed, owed₂] at hf ⊢
          simp only [hp', List.filterMap_nil, List.count_nil, Nat.add_zero]
          omega
        · split
          · simp only [owed, handle_pending, owed₂_handle, msgId?, one]; omega
          · simp [owed, owed₂, List.filterMap_cons]
      | request i meth p o =>
        simp only [requestId?, answers, if_true, List.count_cons, List.count_nil, beq_iff_eq]
        simp only [owed, owed₂, List.filterMap_append, List.count_append, List.filterMap_cons,
          List.filterMap_nil, msgId?, List.count_cons, List.count_nil, beq_iff_eq]
        omega
    | running =>
      cases m with
      | notification meth p t =>
        simp only [requestId?, List.count_nil, Nat.add_zero]
        split
        · rfl
        · simp only [owed, handle_pending, owed₂_handle, msgId?, one]; omega
      | request i meth p o =>
        simp only [owed, handle_pending, owed₂_handle]
        simp [requestId?, one, answers, count_single]; omega
      | response => simp [requestId?, handle]
    | shuttingDown =>
      cases m with
      | request i meth p o =>
        simp only [requestId?, answers, if_true, List.count_cons, List.count_nil, beq_iff_eq,
          handleShuttingDown, owed, respond_pending, owed₂_respond]
        omega
      | notification meth p t =>
        simp only [requestId?, handleShuttingDown]; split <;> simp [owed, owed₂]
      | response => simp [requestId?, handleShuttingDown]

theorem inv_steps (st : St) (evs : List Event) (h : Inv st) : Inv (steps st evs) := by
  induction evs generalizing st with
  | nil => exact h
  | cons e es ih => exact ih _ (inv_step st e h)

theorem owed_steps (st : St) (evs : List Event) (id : Nat) (h : Inv st) :
    owed (steps st evs) id = owed st id + (answerable st evs).count id := by
  induction evs generalizing st with
  | nil => simp [steps, answerable]
  | cons e es ih =>
    simp only [steps, answerable]
    rw [ih _ (inv_step st e h), owed_step st e id h, List.count_append]
    omega

/-- at quiescence everything owed has been sent -/
theorem finish_count (st : St) (id : Nat) (h : Inv st) :
    (ids (finish st)).count id = owed st id := by
  have h1 := owed_step st .initDone id h
  have h2 := inv_step st .initDone h
  simp only [owes, requestId?, List.count_nil, Nat.add_zero] at h1
  rw [← h1]
  have hp : (step st .initDone).pending = [] := by
    simp only [step]
    split
    · rw [flush_pending]
    · rename_i hne; exact h hne
  simp only [finish, ids, owed, owed₂, hp, List.filterMap_nil, List.count_nil, Nat.add_zero,
    List.map_append, List.map_map, List.count_append]
  have : (Prod.fst ∘ fun (t : Task) => (t.id, taskResult t)) = (·.id) := rfl
  rw [this]; omega

theorem inv_init : Inv init := fun _ => rfl

end Proto
