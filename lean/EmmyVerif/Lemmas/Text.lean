import EmmyVerif.Model.Text
/-! Lemmas about the `Text` model (line-structured positions). -/
namespace Text

theorem u16_pos (c : Char) : 0 < u16 c := by unfold u16; split <;> omega
theorem u8_pos (c : Char) : 0 < u8 c := by unfold u8; exact Char.utf8Size_pos c

@[simp] theorem len8_append (a b : List Char) : len8 (a ++ b) = len8 a + len8 b := by
  induction a with
  | nil => simp [len8]
  | cons c cs ih => simp [len8, ih]; omega
@[simp] theorem len16_append (a b : List Char) : len16 (a ++ b) = len16 a + len16 b := by
  induction a with
  | nil => simp [len16]
  | cons c cs ih => simp [len16, ih]; omega

theorem walk_le (cs : List Char) (col : Nat) : walk cs col ≤ len8 cs := by
  induction cs generalizing col with
  | nil => simp [walk, len8]
  | cons c cs ih =>
    simp only [walk, len8]
    split
    · have := ih (col - u16 c); omega
    · omega

theorem walk_zero (cs : List Char) : walk cs 0 = 0 := by
  cases cs with
  | nil => rfl
  | cons c cs => have := u16_pos c; simp [walk]; omega

theorem walk_prefix (p s : List Char) : walk (p ++ s) (len16 p) = len8 p := by
  induction p with
  | nil => simp [len16, len8, walk_zero]
  | cons c cs ih =>
    simp only [List.cons_append, walk, len16, len8]
    have h : u16 c ≤ u16 c + len16 cs := by omega
    simp only [h, ↓reduceIte]
    have : u16 c + len16 cs - u16 c = len16 cs := by omega
    rw [this, ih]

/-- past the end of the reachable part the walk stops exactly at its end -/
theorem walk_full (cs : List Char) (col : Nat) (h : len16 cs ≤ col) : walk cs col = len8 cs := by
  induction cs generalizing col with
  | nil => simp [walk, len8]
  | cons c cs ih =>
    simp only [len16] at h
    simp only [walk, len8]
    have h1 : u16 c ≤ col := by omega
    simp only [h1, ↓reduceIte]
    rw [ih]; omega

theorem colOf_prefix (p s : List Char) : colOf (p ++ s) (len8 p) = some (len16 p) := by
  induction p with
  | nil => simp [len8, len16, colOf]
  | cons c cs ih =>
    have hpos : 0 < u8 c := u8_pos c
    simp only [List.cons_append, len8, len16]
    obtain ⟨k, hk⟩ : ∃ k, u8 c + len8 cs = k + 1 := ⟨u8 c + len8 cs - 1, by omega⟩
    rw [hk]
    simp only [colOf]
    have h1 : u8 c ≤ k + 1 := by omega
    have h2 : k + 1 - u8 c = len8 cs := by omega
    simp [h1, h2, ih]

/-- well-formed documents: every line but the last is terminated and non-empty -/
def WF : Doc → Prop
  | [] => False
  | [l] => l.terminated = false
  | l :: l' :: rest => l.terminated = true ∧ l.chars ≠ [] ∧ WF (l' :: rest)

/-- `o` is a char boundary of the document -/
def Boundary : Doc → Nat → Prop
  | [], _ => False
  | [l], o => ∃ p s, l.chars = p ++ s ∧ o = len8 p
  | l :: l' :: rest, o =>
    (o < len8 l.chars ∧ ∃ p s, l.chars = p ++ s ∧ o = len8 p) ∨
    (len8 l.chars ≤ o ∧ Boundary (l' :: rest) (o - len8 l.chars))

theorem prefix_of_dropLast {p s : List Char} (hs : s ≠ []) : ∃ s', (p ++ s).dropLast = p ++ s' := by
  refine ⟨s.dropLast, ?_⟩
  rw [List.dropLast_append_of_ne_nil hs]

theorem roundtrip_doc (d : Doc) (hwf : WF d) (o : Nat) (hb : Boundary d o) (n base : Nat) :
    ∃ ln col, lineCol d o n = some (ln, col) ∧ n ≤ ln ∧
      offsetOf d (ln - n) col base = some (base + o) := by
  induction d generalizing o n base with
  | nil => exact absurd hwf (by simp [WF])
  | cons l rest ih =>
    cases rest with
    | nil =>
      obtain ⟨p, s, hl, ho⟩ := hb
      refine ⟨n, len16 p, ?_, Nat.le_refl _, ?_⟩
      · simp [lineCol, hl, ho, colOf_prefix]
      · have ht : l.terminated = false := hwf
        simp [offsetOf, Line.reach, ht, hl, ho, walk_prefix]
    | cons l' rest' =>
      obtain ⟨ht, hne, hwf'⟩ := hwf
      rcases hb with ⟨hlt, p, s, hl, ho⟩ | ⟨hge, hb'⟩
      · refine ⟨n, len16 p, ?_, Nat.le_refl _, ?_⟩
        · simp only [lineCol]
          rw [if_pos hlt, hl, ho, colOf_prefix]
          rfl
        · have hs : s ≠ [] := by
            intro h; subst h; simp at hl; rw [hl] at hlt; omega
          obtain ⟨s', hs'⟩ := prefix_of_dropLast (p := p) hs
          simp [offsetOf, Line.reach, ht, hl, hs', ho, walk_prefix]
      · obtain ⟨ln, col, h1, h2, h3⟩ := ih hwf' (o - len8 l.chars) hb' (n + 1) (base + len8 l.chars)
        refine ⟨ln, col, ?_, by omega, ?_⟩
        · have : ¬ o < len8 l.chars := by omega
          simp [lineCol, this, h1]
        · obtain ⟨k, hk⟩ : ∃ k, ln - n = k + 1 := ⟨ln - n - 1, by omega⟩
          have hk' : ln - (n + 1) = k := by omega
          rw [hk]; simp only [offsetOf]
          rw [hk'] at h3; rw [h3]
          congr 1; omega

theorem clamp_doc (d : Doc) (ln col base : Nat) (off : Nat) (h : offsetOf d ln col base = some off) :
    ∃ l pre, d[ln]? = some l ∧ base + pre ≤ off ∧ off ≤ base + pre + len8 l.reach ∧
      pre = len8 ((d.take ln).flatMap (·.chars)) ∧
      (len16 l.reach ≤ col → off = base + pre + len8 l.reach) := by
  induction d generalizing ln base with
  | nil => simp [offsetOf] at h
  | cons l rest ih =>
    cases ln with
    | zero =>
      simp [offsetOf] at h
      refine ⟨l, 0, by simp, by omega, ?_, by simp [len8], ?_⟩
      · have := walk_le l.reach col; omega
      · intro hc; have := walk_full l.reach col hc; omega
    | succ k =>
      simp only [offsetOf] at h
      obtain ⟨l', pre, h1, h2, h3, h4, h5⟩ := ih k (base + len8 l.chars) h
      refine ⟨l', len8 l.chars + pre, by simpa using h1, by omega, by omega, ?_, ?_⟩
      · simp [List.take_succ_cons, List.flatMap_cons, h4]
      · intro hc; have := h5 hc; omega

theorem missing_line_none_doc (d : Doc) (ln col base : Nat) (h : d.length ≤ ln) :
    offsetOf d ln col base = none := by
  induction d generalizing ln base with
  | nil => simp [offsetOf]
  | cons l rest ih =>
    cases ln with
    | zero => simp at h
    | succ k => simp only [offsetOf]; exact ih k _ (by simpa using h)

theorem existing_line_some_doc (d : Doc) (ln col base : Nat) (h : ln < d.length) :
    ∃ off, offsetOf d ln col base = some off := by
  induction d generalizing ln base with
  | nil => simp at h
  | cons l rest ih =>
    cases ln with
    | zero => exact ⟨_, rfl⟩
    | succ k => simp only [offsetOf]; exact ih k _ (by simpa using h)

end Text
