import EmmyVerif.Lemmas.Json
/-! The invariant of the flattened map: keys are distinct and no key is nested below another. -/
namespace Json

/-- no two entries share a key and no key is nested below another -/
def Inv (m : Flat) : Prop := m.Pairwise fun a b => a.1 ≠ b.1 ∧ conflicts a.1 b.1 = false

theorem mem_upsert (k : Key) (v : J) (m : Flat) (e : Key × J) (h : e ∈ upsert k v m) :
    e = (k, v) ∨ e ∈ m := by
  induction m with
  | nil => simp [upsert] at h; exact Or.inl h
  | cons x rest ih =>
    obtain ⟨k0, v0⟩ := x
    simp only [upsert] at h
    split at h
    · rcases List.mem_cons.mp h with h | h
      · exact Or.inl h
      · exact Or.inr (List.mem_cons_of_mem _ h)
    · rcases List.mem_cons.mp h with h | h
      · exact Or.inr (by simp [h])
      · rcases ih h with h | h
        · exact Or.inl h
        · exact Or.inr (List.mem_cons_of_mem _ h)

theorem upsert_inv (k : Key) (v : J) (m : Flat) (hm : Inv m)
    (hk : ∀ e ∈ m, conflicts e.1 k = false) : Inv (upsert k v m) := by
  induction m with
  | nil => simp [upsert, Inv]
  | cons x rest ih =>
    obtain ⟨k0, v0⟩ := x
    have hp := List.pairwise_cons.mp hm
    simp only [upsert]
    split
    · rename_i heq
      have heq : k0 = k := by simpa using heq
      subst heq
      exact List.pairwise_cons.mpr ⟨fun b hb => hp.1 b hb, hp.2⟩
    · rename_i hne
      have hne : k0 ≠ k := by simpa using hne
      refine List.pairwise_cons.mpr ⟨?_, ih hp.2 (fun e he => hk e (List.mem_cons_of_mem _ he))⟩
      intro b hb
      rcases mem_upsert k v rest b hb with rfl | hb
      · exact ⟨hne, hk (k0, v0) (by simp)⟩
      · exact hp.1 b hb

theorem set_inv (m : Flat) (k : Key) (v : J) (hm : Inv m) : Inv (set m k v) := by
  rw [set_eq]
  apply upsert_inv
  · exact List.Pairwise.filter _ hm
  · intro e he
    have := (List.mem_filter.mp he).2
    simpa using this

theorem applyLeaves_inv (m ls : Flat) (hm : Inv m) : Inv (applyLeaves m ls) := by
  induction ls generalizing m with
  | nil => exact hm
  | cons e rest ih => exact ih _ (set_inv m e.1 e.2 hm)

theorem loadFlat_inv_aux (files : List J) (m : Flat) (hm : Inv m) : Inv (files.foldl mergeFile m) := by
  induction files generalizing m with
  | nil => exact hm
  | cons j rest ih => exact ih _ (applyLeaves_inv m _ hm)

theorem pairwise_mem {α} {R : α → α → Prop} (hsym : ∀ a b, R a b → R b a) (l : List α)
    (h : l.Pairwise R) (a b : α) (ha : a ∈ l) (hb : b ∈ l) : a = b ∨ R a b := by
  induction l with
  | nil => simp at ha
  | cons x rest ih =>
    have hp := List.pairwise_cons.mp h
    rcases List.mem_cons.mp ha with hax | ha'
    · rcases List.mem_cons.mp hb with hbx | hb'
      · exact Or.inl (hax.trans hbx.symm)
      · exact Or.inr (hax ▸ hp.1 b hb')
    · rcases List.mem_cons.mp hb with hbx | hb'
      · exact Or.inr (hsym _ _ (hbx ▸ hp.1 a ha'))
      · exact ih hp.2 ha' hb'

/-! ### leaves are never objects -/

mutual
theorem flat_not_obj (pre : Key) (j : J) : ∀ e ∈ flat pre j, e.2.isObj = false := by
  cases j with
  | obj fs => simp only [flat]; exact flatFields_not_obj pre fs
  | null => simp [flat, J.isObj]
  | bool b => simp [flat, J.isObj]
  | num n => simp [flat, J.isObj]
  | str s => simp [flat, J.isObj]
  | arr xs => simp [flat, J.isObj]
theorem flatFields_not_obj (pre : Key) (fs : List (Key × J)) :
    ∀ e ∈ flatFields pre fs, e.2.isObj = false := by
  cases fs with
  | nil => simp [flatFields]
  | cons f rest =>
    obtain ⟨k, v⟩ := f
    simp only [flatFields]
    intro e he
    rcases List.mem_append.mp he with he | he
    · exact flat_not_obj (joinKey pre k) v e he
    · exact flatFields_not_obj pre rest e he
end

/-! ### the one remaining slice of `pre_process_path` -/

theorem sliceFrom_dotSlash (s : List Char) (h : startsWith ['.', '/'] s = true) :
    ∃ rest, sliceFrom 2 s = some rest ∧ s = '.' :: '/' :: rest := by
  match s, h with
  | c1 :: c2 :: rest, h =>
    simp only [startsWith, isPrefixOf, Bool.and_eq_true, beq_iff_eq, and_true] at h
    obtain ⟨h1, h2⟩ := h
    subst h1; subst h2
    exact ⟨rest, by simp [sliceFrom, Char.utf8Size], rfl⟩
  | [], h => simp [startsWith, isPrefixOf] at h
  | [c], h => simp [startsWith, isPrefixOf] at h

end Json
