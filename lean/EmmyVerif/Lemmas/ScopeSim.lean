import EmmyVerif.Lemmas.ScopeGood
/-!
# Scope lemmas 4 — the decl analyzer's walk simulates the reference resolver
-/
namespace Scope

/-- implementation state and reference state are in step -/
def Rel (s : ISt) (r : RefSt) : Prop := s.pos = r.pos ∧ s.out = r.out

def TopNormal (fs : List Frame) : Prop := ∃ f rest, fs = f :: rest ∧ f.kind = .normal

/-- new inert children (positions before `b`) -/
def InertKids (cs : List Node) (b : Nat) : Prop :=
  ∀ c ∈ cs, isInertNode c ∧ c.pos < b ∧ ∀ g ∈ nodeKids c, g.pos < b

theorem InertKids.mono {cs : List Node} {b b' : Nat} (h : InertKids cs b) (hb : b ≤ b') :
    InertKids cs b' := fun c hc => by
  obtain ⟨h1, h2, h3⟩ := h c hc
  exact ⟨h1, by omega, fun g hg => by have := h3 g hg; omega⟩

theorem InertKids.append {a b : List Node} {p : Nat} (ha : InertKids a p) (hb : InertKids b p) :
    InertKids (a ++ b) p := fun c hc => by
  rcases List.mem_append.mp hc with h | h
  · exact ha c h
  · exact hb c h

theorem ClosureKids.inert {cs : List Node} {b : Nat} (h : ClosureKids cs b) : InertKids cs b :=
  fun c hc => ⟨isInert_of_closure (h c hc).1, (h c hc).2⟩

theorem InertKids.nil (b : Nat) : InertKids [] b := fun _ h => by cases h

/-- inert children change nothing a scope offers, unless it is a `repeat` scope (whose first
child block is special) -/
theorem ownC_addInert (f : Frame) (cs : List Node) (h : ∀ c ∈ cs, isInertNode c) (hk : f.kind ≠ .repeat_)
    (ck : Option Kind) (e : Bool) :
    ownC { f with children := cs ++ f.children } ck e = ownC f ck e := by
  have hflat : flat (cs ++ f.children) = flat f.children := by
    rw [flat_append, flat_inert cs h]; rfl
  unfold ownC
  cases hfk : f.kind <;> simp_all

theorem vis_addInert (fs : List Frame) (cs : List Node) (h : ∀ c ∈ cs, isInertNode c)
    (hk : ∀ f ∈ fs.head?, f.kind ≠ .repeat_) (ck : Option Kind) (e : Bool) :
    vis (addKids cs fs) ck e = vis fs ck e := by
  cases fs with
  | nil => rfl
  | cons f rest => simp only [addKids, vis, ownC_addInert f cs h (hk f (by simp))]

theorem Good.addInert {fs : List Frame} {p p' : Nat} {env : Env} (h : Good fs p env) (hp : p ≤ p')
    {cs : List Node} (hcs : InertKids cs p') (hk : ∀ f ∈ fs.head?, f.kind ≠ .repeat_) :
    Good (addKids cs fs) p' env := by
  have hin : ∀ c ∈ cs, isInertNode c := fun c hc => (hcs c hc).1
  refine ⟨(h.sorted.mono hp).addKids cs (fun c hc => (hcs c hc).2), ?_, ?_, ?_⟩
  · intro f hf
    obtain ⟨f', hf', hst, _⟩ := head_addKids cs fs f hf
    have := h.top f' hf'; omega
  · rw [vis_addInert fs cs hin hk]; exact h.entry
  · rw [vis_addInert fs cs hin hk]; exact h.closure

theorem TopNormal.addKids {fs : List Frame} (h : TopNormal fs) (cs : List Node) : TopNormal (addKids cs fs) := by
  obtain ⟨f, rest, rfl, hk⟩ := h
  exact ⟨_, rest, rfl, hk⟩

theorem TopNormal.ne_repeat {fs : List Frame} (h : TopNormal fs) : ∀ f ∈ fs.head?, f.kind ≠ .repeat_ := by
  obtain ⟨f, rest, rfl, hk⟩ := h
  intro g hg
  simp only [List.head?_cons, Option.mem_def, Option.some.injEq] at hg
  subst hg; rw [hk]; decide

theorem TopNormal.cons (f : Frame) (rest : List Frame) (h : f.kind = .normal) : TopNormal (f :: rest) :=
  ⟨f, rest, rfl, h⟩

/-- on a stack whose innermost scope is a block, it does not matter where a visit comes from -/
theorem vis_topNormal {fs : List Frame} (h : TopNormal fs) (ck : Option Kind) (e : Bool) :
    vis fs ck e = vis fs none true := by
  obtain ⟨f, rest, rfl, hk⟩ := h
  simp [vis, ownC, hk]

/-! ### Results of the walk over an expression / a statement / a block -/

structure StepE (s s' : ISt) (r' : RefSt) : Prop where
  rel : Rel s' r'
  mono : s.pos ≤ s'.pos
  frames : ∃ cs, s'.frames = addKids cs s.frames ∧ ClosureKids cs s'.pos

structure StepS (s s' : ISt) (r' : RefSt) (env' : Env) : Prop where
  rel : Rel s' r'
  mono : s.pos ≤ s'.pos
  frames : ∃ cs, s'.frames = addKids cs s.frames
  good : Good s'.frames s'.pos env'

/-- result of a block that starts at `s.pos`: nothing for an empty block, else one block scope
whose final state (just before it is closed) agrees with the environment at the end of the block -/
structure StepB (b : List Stat) (s s' : ISt) (r r' : RefSt) (envB envOut : Env) : Prop where
  rel : Rel s' r'
  mono : s.pos ≤ s'.pos
  res : (b = [] ∧ s'.frames = s.frames ∧ envOut = envB) ∨
        (∃ ch, s'.frames = addKids [.scope .normal (s.pos - 1) ch] s.frames ∧
          Good ({ kind := .normal, start := s.pos - 1, children := ch } :: s.frames) s'.pos envOut)

theorem StepE.refl (s : ISt) (r : RefSt) (h : Rel s r) : StepE s s r :=
  ⟨h, Nat.le_refl _, [], by simp, fun _ h => by cases h⟩

theorem StepE.trans {s s1 s2 : ISt} {r1 r2 : RefSt} (a : StepE s s1 r1) (b : StepE s1 s2 r2) :
    StepE s s2 r2 := by
  obtain ⟨cs1, h1, k1⟩ := a.frames
  obtain ⟨cs2, h2, k2⟩ := b.frames
  refine ⟨b.rel, Nat.le_trans a.mono b.mono, cs2 ++ cs1, ?_, k2.append (k1.mono b.mono)⟩
  rw [h2, h1, addKids_addKids]

/-- skipping tokens -/
theorem StepE.skip {s s1 : ISt} {r1 : RefSt} (a : StepE s s1 r1) (t : Nat) : StepE s (s1.skip t) (r1.skip t) := by
  obtain ⟨cs1, h1, k1⟩ := a.frames
  refine ⟨⟨by simp [RefSt.skip, a.rel.1], by simp [RefSt.skip, a.rel.2]⟩, by simp; have := a.mono; omega, cs1, by simpa using h1,
    k1.mono (by simp)⟩

theorem Rel.skip {s : ISt} {r : RefSt} (h : Rel s r) (t : Nat) : Rel (s.skip t) (r.skip t) :=
  ⟨by simp [RefSt.skip, h.1], by simp [RefSt.skip, h.2]⟩

theorem Rel.use {s : ISt} {r : RefSt} {env : Env} (h : Rel s r) (hg : Good s.frames s.pos env) (n : Name) :
    Rel (s.use n) (r.use env n) := by
  refine ⟨by simp [RefSt.use, h.1], ?_⟩
  have := hg.lookup s.pos (Nat.le_refl _) n
  simp only [ISt.use, RefSt.use, this, ← h.1, ← h.2]

/-- the state with which the walk of an expression list continues -/
theorem StepE.good {s s' : ISt} {r' : RefSt} {env : Env} (a : StepE s s' r') (hg : Good s.frames s.pos env) :
    Good s'.frames s'.pos env := by
  obtain ⟨cs, h1, k1⟩ := a.frames
  rw [h1]; exact hg.addClosures a.mono k1

theorem StepE.inert {s s' : ISt} {r' : RefSt} (a : StepE s s' r') :
    ∃ cs, s'.frames = addKids cs s.frames ∧ InertKids cs s'.pos := by
  obtain ⟨cs, h1, k1⟩ := a.frames
  exact ⟨cs, h1, k1.inert⟩

/-- what a finished block leaves in its parent -/
theorem StepB.inert {b : List Stat} {s s' : ISt} {r r' : RefSt} {envB envOut : Env}
    (a : StepB b s s' r r' envB envOut) (hpos : 0 < s.pos) :
    ∃ cs, s'.frames = addKids cs s.frames ∧ InertKids cs s'.pos := by
  rcases a.res with ⟨_, h, _⟩ | ⟨ch, h, hg⟩
  · exact ⟨[], by simpa using h, InertKids.nil _⟩
  · refine ⟨_, h, ?_⟩
    intro c hc
    simp only [List.mem_singleton] at hc
    subst hc
    refine ⟨trivial, ?_, ?_⟩
    · simp only [Node.pos]; have := a.mono; omega
    · intro g hg'
      exact (hg.sorted.1 g (by simpa [nodeKids] using hg')).1

theorem StepE.use {s : ISt} {r : RefSt} {env : Env} (h : Rel s r) (hg : Good s.frames s.pos env) (n : Name) :
    StepE s (s.use n) (r.use env n) :=
  ⟨h.use hg n, by simp, [], by simp, fun _ h => by cases h⟩

theorem Rel.pop {s : ISt} {r : RefSt} (h : Rel s r) : Rel s.pop r := ⟨by simpa using h.1, by simpa using h.2⟩

theorem decl_nodes_pos {ds : List Decl} {b : Nat} (h : ∀ d ∈ ds, d.pos < b) :
    ∀ c ∈ ds.map Node.decl, c.pos < b ∧ ∀ g ∈ nodeKids c, g.pos < b := by
  intro c hc
  rw [List.mem_map] at hc
  obtain ⟨d, hd, rfl⟩ := hc
  exact ⟨h d hd, fun g hg => by cases hg⟩

theorem addLocals_push (s : ISt) (k : Kind) (st pp : Nat) (ps : List Name) :
    ((s.push k st).addLocals pp ps).pos = s.pos ∧ ((s.push k st).addLocals pp ps).out = s.out ∧
    ((s.push k st).addLocals pp ps).frames =
      { kind := k, start := st, children := (declsAt pp ps).reverse.map .decl } :: s.frames := by
  obtain ⟨l1, l2, l3⟩ := addLocals_spec ps (s.push k st) pp
  exact ⟨l1, l2, by rw [l3]; simp [addKids]⟩

theorem params_pos (pp : Nat) (ps : List Name) :
    ∀ c ∈ (declsAt pp ps).reverse.map Node.decl, c.pos < pp + 2 * ps.length :=
  fun c hc => (decl_nodes_pos (ds := (declsAt pp ps).reverse) (b := pp + 2 * ps.length)
    (fun d hd => (declsAt_pos _ ps d (by simpa using hd)).2) c hc).1

/-- the block of a function body sees the parameters (last one first), then what a closure written
here sees -/
theorem good_closure_body {fs : List Frame} {cst pp pB : Nat} {envC : Env} (ps : List Name)
    (hs : Sorted fs cst) (hh : ∀ g ∈ fs.head?, g.start < cst)
    (hA : Agree (vis fs (some .closure) false) envC) (hcst : cst < pp) (hpB : pp + 2 * ps.length + 2 ≤ pB) :
    Good ({ kind := .normal, start := pB - 1, children := [] } ::
          { kind := .closure, start := cst, children := (declsAt pp ps).reverse.map .decl } :: fs) pB
      (bindNames envC pp ps) := by
  have hvis : ∀ ck e, vis ({ kind := .normal, start := pB - 1, children := [] } ::
          { kind := .closure, start := cst, children := (declsAt pp ps).reverse.map .decl } :: fs) ck e
        = (declsAt pp ps).reverse ++ vis fs (some .closure) false := by
    intro ck e
    simp only [vis, ownC, flat_nil, List.nil_append, flat_decls]
  refine ⟨⟨by simp, ⟨?_, hs, hh⟩, ?_⟩, ?_, ?_, ?_⟩
  · apply decl_nodes_pos
    intro d hd
    have := declsAt_pos pp ps d (by simpa using hd)
    show d.pos < pB - 1
    omega
  · intro g hg
    simp only [List.head?_cons, Option.mem_def, Option.some.injEq] at hg
    subst hg
    show cst < pB - 1
    omega
  · intro f hf
    simp only [List.head?_cons, Option.mem_def, Option.some.injEq] at hf
    subst hf
    show pB - 1 < pB
    omega
  · rw [hvis]; exact Agree.bindNames ps pp _ _ hA
  · rw [hvis]; exact Agree.bindNames ps pp _ _ hA

/-- after the body of a function: `end`, close the closure scope -/
theorem closure_tail {body : List Stat} {s2 s3 : ISt} {r2 r3 : RefSt} {envB envOut : Env} {fs : List Frame}
    {cst : Nat} {pk : List Node}
    (hB : StepB body s2 s3 r2 r3 envB envOut) (hfr : s2.frames = { kind := .closure, start := cst, children := pk } :: fs)
    (hcst : cst < s2.pos) (hpk : ∀ c ∈ pk, c.pos < s2.pos) :
    ∃ node, ((s3.skip 1).pop).frames = addKids [node] fs ∧ ClosureKids [node] ((s3.skip 1).pop).pos ∧
      Rel ((s3.skip 1).pop) (r3.skip 1) ∧ s2.pos ≤ ((s3.skip 1).pop).pos := by
  obtain ⟨cs, h1, k1⟩ := hB.inert (by omega)
  have hm := hB.mono
  rw [hfr] at h1
  refine ⟨.scope .closure cst (cs ++ pk), ?_, ?_, (hB.rel.skip 1).pop, by simp; omega⟩
  · rw [pop_frames (s3.skip 1) { kind := .closure, start := cst, children := cs ++ pk } fs (by simpa [addKids] using h1)]
  · intro c hc
    simp only [List.mem_singleton] at hc
    subst hc
    refine ⟨trivial, by simp [Node.pos]; omega, ?_⟩
    intro g hg
    simp only [nodeKids, List.mem_append] at hg
    simp only [pop_pos, skip_pos]
    rcases hg with hg | hg
    · have := (k1 g hg).2.1; omega
    · have := hpk g hg; omega

/-! ### Helper lemmas for statements -/

/-- a block frame starting just before position `p` -/
def blk (p : Nat) : Frame := { kind := .normal, start := p - 1, children := [] }

theorem head_cons_mem {f g : Frame} {rest : List Frame} (h : g ∈ (f :: rest).head?) : g = f := by
  simp only [List.head?_cons, Option.mem_def, Option.some.injEq] at h; exact h.symm

/-- pushing a frame: the generic construction of `Good` -/
theorem Good.push {fs : List Frame} {f : Frame} {p : Nat} {env : Env} (hs : Sorted fs f.start)
    (hh : ∀ g ∈ fs.head?, g.start < f.start) (hc : ∀ c ∈ f.children, c.pos < p ∧ ∀ g ∈ nodeKids c, g.pos < p)
    (hst : f.start < p) (he : Agree (vis (f :: fs) none true) env)
    (hcl : Agree (vis (f :: fs) (some .closure) false) env) : Good (f :: fs) p env :=
  ⟨⟨hc, hs, hh⟩, fun g hg => by rw [head_cons_mem hg]; exact hst, he, hcl⟩

/-- a block directly inside a block (`do`, `while`, `if` bodies) -/
theorem good_block_on_normal {fs : List Frame} {p0 p : Nat} {env : Env} (hg : Good fs p0 env)
    (ht : TopNormal fs) (hp : p0 + 2 ≤ p) : Good (blk p :: fs) p env := by
  have hv : ∀ ck e, vis (blk p :: fs) ck e = vis fs none true := by
    intro ck e
    simp only [vis, blk, ownC, flat_nil, List.nil_append]
    exact vis_topNormal ht _ _
  apply Good.push
  · exact hg.sorted.mono (by simp only [blk]; omega)
  · intro g hgm; have := hg.top g hgm; simp only [blk]; omega
  · intro c hc; cases hc
  · simp only [blk]; omega
  · rw [hv]; exact hg.entry
  · rw [hv]; exact hg.entry

theorem StepE.toS {s s' : ISt} {r' : RefSt} {env : Env} (a : StepE s s' r') (hg : Good s.frames s.pos env) :
    StepS s s' r' env := by
  obtain ⟨cs, h1, _⟩ := a.frames
  exact ⟨a.rel, a.mono, ⟨cs, h1⟩, a.good hg⟩

/-- after a block whose parent is a block: the parent got an inert child -/
theorem StepB.after_normal {b : List Stat} {s0 s s' : ISt} {r r' : RefSt} {env envB envOut : Env}
    (a : StepB b s s' r r' envB envOut) (hg : Good s.frames s0.pos env) (hp : s0.pos ≤ s.pos) (hpos : 0 < s.pos)
    (ht : TopNormal s.frames) :
    Good s'.frames s'.pos env ∧ TopNormal s'.frames ∧ ∃ cs, s'.frames = addKids cs s.frames := by
  obtain ⟨cs, h1, k1⟩ := a.inert hpos
  refine ⟨?_, by rw [h1]; exact ht.addKids cs, cs, h1⟩
  rw [h1]
  exact hg.addInert (Nat.le_trans hp a.mono) k1 ht.ne_repeat

/-- a statement scope is closed and attached to the enclosing block -/
theorem Good.addStatNode {fs : List Frame} {p p' : Nat} {env env' : Env} (hg : Good fs p env) (ht : TopNormal fs)
    (hp : p ≤ p') (N : Node) (hN : N.pos < p' ∧ ∀ g ∈ nodeKids N, g.pos < p')
    (hA : Agree (contrib N ++ vis fs none true) env') : Good (addKids [N] fs) p' env' := by
  have hv : ∀ ck e, vis (addKids [N] fs) ck e = contrib N ++ vis fs none true := by
    intro ck e
    obtain ⟨f, rest, rfl, hk⟩ := ht
    simp [addKids, vis, ownC, hk, List.append_assoc]
  refine ⟨(hg.sorted.mono hp).addKids [N] (fun c hc => by simp only [List.mem_singleton] at hc; subst hc; exact hN), ?_, ?_, ?_⟩
  · intro f hf
    obtain ⟨f', hf', hst, _⟩ := head_addKids [N] fs f hf
    have := hg.top f' hf'; omega
  · rw [hv]; exact hA
  · rw [hv]; exact hA

/-! ### Statements, one lemma each (the recursive facts are hypotheses) -/

abbrev ExprOK (e : Expr) : Prop := ∀ (s : ISt) (r : RefSt) (env : Env), Rel s r → Good s.frames s.pos env →
  StepE s (implExpr s e) (refExpr env r e)
abbrev ExprsOK (es : List Expr) : Prop := ∀ (s : ISt) (r : RefSt) (env : Env), Rel s r → Good s.frames s.pos env →
  StepE s (implExprs s es) (refExprs env r es)
abbrev BlockOK (b : List Stat) : Prop := ∀ (s : ISt) (r : RefSt) (envB : Env), Rel s r →
  Good (blk s.pos :: s.frames) s.pos envB → StepB b s (implBlock s b) r (refBlock envB r b).1 envB (refBlock envB r b).2
abbrev StatGoal (st : Stat) (s : ISt) (r : RefSt) (env : Env) : Prop :=
  StepS s (implStat s st) (refStat env r st).1 (refStat env r st).2

theorem stat_do {body : List Stat} (hB : BlockOK body) {s : ISt} {r : RefSt} {env : Env} (hr : Rel s r)
    (hg : Good s.frames s.pos env) (ht : TopNormal s.frames) : StatGoal (.do_ body) s r env := by
  simp only [StatGoal, implStat, refStat]
  have b := hB (s.skip 1) (r.skip 1) env (hr.skip 1)
    (by simpa using good_block_on_normal hg ht (p := s.pos + 2) (by omega))
  obtain ⟨g2, _, cs, h2⟩ := b.after_normal (s0 := s) (env := env) (by simpa using hg) (by simp) (by simp) (by simpa using ht)
  have hm := b.mono
  simp only [skip_pos] at hm
  exact ⟨b.rel.skip 1, by simp only [skip_pos]; omega, ⟨cs, by simpa using h2⟩, by simpa using g2.mono (by simp)⟩

theorem stat_callS {f : Name} {args : List Expr} (hE : ExprsOK args) {s : ISt} {r : RefSt} {env : Env} (hr : Rel s r)
    (hg : Good s.frames s.pos env) : StatGoal (.callS f args) s r env := by
  simp only [StatGoal, implStat, refStat]
  have a := (StepE.use hr hg f).skip 1
  have b := hE _ _ env a.rel (a.good hg)
  exact ((a.trans b).skip 1).toS hg

theorem stat_while {c : Expr} {body : List Stat} (hE : ExprOK c) (hB : BlockOK body) {s : ISt} {r : RefSt}
    {env : Env} (hr : Rel s r) (hg : Good s.frames s.pos env) (ht : TopNormal s.frames) :
    StatGoal (.while_ c body) s r env := by
  simp only [StatGoal, implStat, refStat]
  have a0 : StepE s (s.skip 1) (r.skip 1) := (StepE.refl s r hr).skip 1
  have a1 := a0.trans (hE _ _ env a0.rel (a0.good hg))
  have a := a1.skip 1
  obtain ⟨cs1, h1, _⟩ := a.frames
  have ga := a.good hg
  have ta : TopNormal ((implExpr (s.skip 1) c).skip 1).frames := by rw [h1]; exact ht.addKids cs1
  have b := hB _ _ env a.rel (by
    have := good_block_on_normal (a1.good hg) (by simpa using ta) (p := (implExpr (s.skip 1) c).pos + 2) (by omega)
    simpa using this)
  obtain ⟨g2, _, cs, h2⟩ := b.after_normal (s0 := (implExpr (s.skip 1) c).skip 1) (env := env) ga
    (Nat.le_refl _) (by simp) ta
  have hm := b.mono
  have hm1 := a.mono
  refine ⟨b.rel.skip 1, by simp only [skip_pos] at *; omega, ⟨cs ++ cs1, ?_⟩, by simpa using g2.mono (by simp)⟩
  simp only [skip_frames]; rw [h2, h1, addKids_addKids]

theorem stat_if {c : Expr} {t e : List Stat} (hE : ExprOK c) (hT : BlockOK t) (hEl : BlockOK e) {s : ISt} {r : RefSt}
    {env : Env} (hr : Rel s r) (hg : Good s.frames s.pos env) (ht : TopNormal s.frames) :
    StatGoal (.if_ c t e) s r env := by
  simp only [StatGoal, implStat, refStat]
  have a0 : StepE s (s.skip 1) (r.skip 1) := (StepE.refl s r hr).skip 1
  have a1 := a0.trans (hE _ _ env a0.rel (a0.good hg))
  have a := a1.skip 1
  obtain ⟨cs1, h1, _⟩ := a.frames
  have ga := a.good hg
  have ta : TopNormal ((implExpr (s.skip 1) c).skip 1).frames := by rw [h1]; exact ht.addKids cs1
  have b := hT _ _ env a.rel (by
    have := good_block_on_normal (a1.good hg) (by simpa using ta) (p := (implExpr (s.skip 1) c).pos + 2) (by omega)
    simpa using this)
  obtain ⟨g2, t2, cs2, h2⟩ := b.after_normal (s0 := (implExpr (s.skip 1) c).skip 1) (env := env) ga
    (Nat.le_refl _) (by simp) ta
  have b2 := hEl ((implBlock ((implExpr (s.skip 1) c).skip 1) t).skip 1) _ env (b.rel.skip 1) (by
    have := good_block_on_normal g2 t2 (p := (implBlock ((implExpr (s.skip 1) c).skip 1) t).pos + 2) (by omega)
    simpa using this)
  obtain ⟨g3, _, cs3, h3⟩ := b2.after_normal (s0 := (implBlock ((implExpr (s.skip 1) c).skip 1) t).skip 1) (env := env)
    (by simpa using g2.mono (by simp)) (Nat.le_refl _) (by simp) (by simpa using t2)
  have hm := b.mono
  have hm1 := a.mono
  have hm2 := b2.mono
  refine ⟨b2.rel.skip 1, by simp only [skip_pos] at *; omega, ⟨cs3 ++ (cs2 ++ cs1), ?_⟩, by simpa using g3.mono (by simp)⟩
  simp only [skip_frames] at h3 ⊢; rw [h3, h2, h1, addKids_addKids, addKids_addKids, List.append_assoc]

/-- a closed statement scope of kind `localOrAssign` shows exactly its own declarations -/
theorem contrib_loa (st : Nat) (cs : List Node) (ds : List Decl) (hcs : ∀ c ∈ cs, isInertNode c) :
    contrib (.scope .localOrAssign st (cs ++ ds.map .decl)) = ds := by
  simp only [contrib, childScopeDecls, List.filterMap_append, filterMap_declOf_inert cs hcs,
    filterMap_declOf_decls, List.nil_append]

/-- the frame of a `local`/assignment statement is transparent for lookups -/
theorem vis_loa (st : Nat) (ch : List Node) {fs : List Frame} (ht : TopNormal fs) (ck : Option Kind) (e : Bool) :
    vis ({ kind := .localOrAssign, start := st, children := ch } :: fs) ck e = vis fs none true := by
  simp only [vis, ownC, List.nil_append]
  exact vis_topNormal ht _ _

theorem stat_locl {names : List Name} {vals : List Expr} (hE : ExprsOK vals) {s : ISt} {r : RefSt} {env : Env}
    (hr : Rel s r) (hg : Good s.frames s.pos env) (ht : TopNormal s.frames) :
    StatGoal (.locl names vals) s r env := by
  simp only [StatGoal, implStat, refStat]
  obtain ⟨l1, l2, l3⟩ := addLocals_push s .localOrAssign s.pos (s.pos + 2) names
  rw [← hr.1]
  have hdk := params_pos (s.pos + 2) names
  -- the right-hand sides are evaluated in the old environment
  have g1 : Good (((s.push .localOrAssign s.pos).addLocals (s.pos + 2) names).skip (1 + names.length + eqTokens vals)).frames
      (((s.push .localOrAssign s.pos).addLocals (s.pos + 2) names).skip (1 + names.length + eqTokens vals)).pos env := by
    simp only [skip_frames, skip_pos, l1, l3]
    apply Good.push hg.sorted hg.top
    · intro c hc
      have := hdk c hc
      refine ⟨by omega, fun g hgk => ?_⟩
      rw [List.mem_map] at hc; obtain ⟨d, _, rfl⟩ := hc; cases hgk
    · show s.pos < _; omega
    · rw [vis_loa _ _ ht]; exact hg.entry
    · rw [vis_loa _ _ ht]; exact hg.entry
  have a := hE _ (r.skip (1 + names.length + eqTokens vals)) env (Rel.skip ⟨l1.trans hr.1, l2.trans hr.2⟩ _) g1
  obtain ⟨cs, h1, k1⟩ := a.frames
  simp only [skip_frames, l3] at h1
  have hpop := pop_frames _ { kind := .localOrAssign, start := s.pos, children := cs ++ (declsAt (s.pos + 2) names).reverse.map .decl }
    s.frames (by rw [h1]; simp [addKids])
  have hm := a.mono
  simp only [skip_pos, l1] at hm
  refine ⟨a.rel.pop, by simp only [pop_pos]; omega, ⟨_, hpop⟩, ?_⟩
  rw [hpop]
  apply hg.addStatNode ht (by simp only [pop_pos]; omega)
  · refine ⟨by simp only [Node.pos, pop_pos]; omega, ?_⟩
    intro g hgk
    simp only [nodeKids, List.mem_append] at hgk
    simp only [pop_pos]
    rcases hgk with hgk | hgk
    · exact (k1 g hgk).2.1
    · have := hdk g hgk; omega
  · rw [contrib_loa _ _ _ (fun c hc => isInert_of_closure (k1 c hc).1)]
    exact Agree.bindNames names _ _ _ hg.entry

/-- header expressions of a `for` statement do not see the loop variables -/
theorem good_for_header {fs : List Frame} {st p : Nat} {env : Env} (hg : Good fs st env) (ht : TopNormal fs)
    (ds : List Decl) (hds : ∀ d ∈ ds, d.pos < p) (hst : st < p) :
    Good ({ kind := .forRange, start := st, children := ds.map .decl } :: fs) p env := by
  have hv : ∀ ck, ck ≠ some Kind.normal → ∀ e, vis ({ kind := .forRange, start := st, children := ds.map .decl } :: fs) ck e
      = vis fs none true := by
    intro ck hck e
    simp only [vis, ownC, hck, if_false, List.nil_append]
    exact vis_topNormal ht _ _
  apply Good.push hg.sorted hg.top (decl_nodes_pos hds) hst
  · rw [hv _ (by simp)]; exact hg.entry
  · rw [hv _ (by simp)]; exact hg.entry

/-- body and end of a `for` statement, after its header expressions -/
theorem for_tail {body : List Stat} (hB : BlockOK body) {s s1 s2 : ISt} {r2 : RefSt} {env envB : Env} {ds : List Decl}
    (hg : Good s.frames s.pos env) (ht : TopNormal s.frames)
    (hfr1 : s1.frames = { kind := .forRange, start := s.pos, children := ds.map .decl } :: s.frames)
    (hp1 : s.pos < s1.pos) (hds : ∀ d ∈ ds, d.pos < s1.pos) (a : StepE s1 s2 r2)
    (hA : Agree (ds ++ vis s.frames none true) envB) :
    StepS s (((implBlock (s2.skip 1) body).skip 1).pop) ((refBlock envB (r2.skip 1) body).1.skip 1) env := by
  obtain ⟨cs, h1, k1⟩ := a.frames
  rw [hfr1] at h1
  have hm := a.mono
  have hfr2 : (s2.skip 1).frames = { kind := .forRange, start := s.pos, children := cs ++ ds.map .decl } :: s.frames := by
    simpa [addKids] using h1
  have hkids : ∀ c ∈ cs ++ ds.map Node.decl, c.pos < s2.pos ∧ ∀ g ∈ nodeKids c, g.pos < s2.pos := by
    intro c hc
    rcases List.mem_append.mp hc with hc | hc
    · exact (k1 c hc).2
    · have := decl_nodes_pos hds c hc
      exact ⟨by omega, fun g hgk => by have := this.2 g hgk; omega⟩
  have b := hB (s2.skip 1) (r2.skip 1) envB (a.rel.skip 1) (by
    rw [hfr2]
    have hv : ∀ ck e, vis (blk (s2.skip 1).pos :: { kind := .forRange, start := s.pos, children := cs ++ ds.map .decl } :: s.frames) ck e
        = ds ++ vis s.frames none true := by
      intro ck e
      simp only [vis, blk, ownC, flat_nil, List.nil_append, if_true, flat_append,
        flat_inert cs (fun c hc => isInert_of_closure (k1 c hc).1), flat_decls]
      rw [vis_topNormal ht]
    apply Good.push
    · refine ⟨?_, hg.sorted, hg.top⟩
      intro c hc
      obtain ⟨h1', h2'⟩ := hkids c hc
      simp only [blk, skip_pos]
      exact ⟨by omega, fun g hgk => by have := h2' g hgk; omega⟩
    · intro g hgm; rw [head_cons_mem hgm]; simp only [blk, skip_pos]; omega
    · intro c hc; cases hc
    · simp only [blk, skip_pos]; omega
    · rw [hv]; exact hA
    · rw [hv]; exact hA)
  obtain ⟨cs2, h2, k2⟩ := b.inert (by simp)
  rw [hfr2] at h2
  have hmb := b.mono
  simp only [skip_pos] at hmb
  have hpop := pop_frames ((implBlock (s2.skip 1) body).skip 1)
    { kind := .forRange, start := s.pos, children := cs2 ++ (cs ++ ds.map .decl) } s.frames
    (by simp only [skip_frames]; rw [h2]; simp [addKids])
  refine ⟨(b.rel.skip 1).pop, by simp only [pop_pos, skip_pos]; omega, ⟨_, hpop⟩, ?_⟩
  rw [hpop]
  apply hg.addInert (by simp only [pop_pos, skip_pos]; omega) _ ht.ne_repeat
  intro c hc
  simp only [List.mem_singleton] at hc
  subst hc
  refine ⟨trivial, by simp only [Node.pos, pop_pos, skip_pos]; omega, ?_⟩
  intro g hgk
  simp only [nodeKids, List.mem_append] at hgk
  simp only [pop_pos, skip_pos]
  rcases hgk with hgk | hgk
  · have := (k2 g hgk).2.1; omega
  · have := (hkids g (List.mem_append.mpr hgk)).1; omega

theorem stat_forNum {v : Name} {e1 e2 : Expr} {body : List Stat} (hE1 : ExprOK e1) (hE2 : ExprOK e2)
    (hB : BlockOK body) {s : ISt} {r : RefSt} {env : Env} (hr : Rel s r) (hg : Good s.frames s.pos env)
    (ht : TopNormal s.frames) : StatGoal (.forNum v e1 e2 body) s r env := by
  simp only [StatGoal, implStat, refStat]
  rw [← hr.1]
  have hfr : (((s.push .forRange s.pos).addDecl { name := v, pos := s.pos + 2, isLocal := true }).skip 3).frames
      = { kind := .forRange, start := s.pos, children := [{ name := v, pos := s.pos + 2, isLocal := true }].map .decl } :: s.frames := by
    simp [addKids]
  have g1 : Good (((s.push .forRange s.pos).addDecl { name := v, pos := s.pos + 2, isLocal := true }).skip 3).frames
      (((s.push .forRange s.pos).addDecl { name := v, pos := s.pos + 2, isLocal := true }).skip 3).pos env := by
    rw [hfr]
    exact good_for_header hg ht _ (by intro d hd; simp at hd; subst hd; simp) (by simp)
  have a1 := hE1 _ (r.skip 3) env (Rel.skip (s := (s.push .forRange s.pos).addDecl _) ⟨hr.1, hr.2⟩ 3) g1
  have a2 := a1.trans (hE2 _ _ env a1.rel (a1.good g1))
  exact for_tail hB hg ht hfr (by simp) (by intro d hd; simp at hd; subst hd; simp) a2
    (by simpa using hg.entry.cons_local v (s.pos + 2))

theorem stat_forIn {vs : List Name} {e : Expr} {body : List Stat} (hE : ExprOK e)
    (hB : BlockOK body) {s : ISt} {r : RefSt} {env : Env} (hr : Rel s r) (hg : Good s.frames s.pos env)
    (ht : TopNormal s.frames) : StatGoal (.forIn vs e body) s r env := by
  simp only [StatGoal, implStat, refStat]
  rw [← hr.1]
  obtain ⟨l1, l2, l3⟩ := addLocals_push s .forRange s.pos (s.pos + 2) vs
  have hfr : (((s.push .forRange s.pos).addLocals (s.pos + 2) vs).skip (2 + vs.length)).frames
      = { kind := .forRange, start := s.pos, children := ((declsAt (s.pos + 2) vs).reverse).map .decl } :: s.frames := by
    simp only [skip_frames, l3]
  have hds : ∀ d ∈ (declsAt (s.pos + 2) vs).reverse,
      d.pos < (((s.push .forRange s.pos).addLocals (s.pos + 2) vs).skip (2 + vs.length)).pos := by
    intro d hd
    have := (declsAt_pos _ vs d (by simpa using hd)).2
    simp only [skip_pos, l1]; omega
  have g1 : Good (((s.push .forRange s.pos).addLocals (s.pos + 2) vs).skip (2 + vs.length)).frames
      (((s.push .forRange s.pos).addLocals (s.pos + 2) vs).skip (2 + vs.length)).pos env := by
    rw [hfr]
    exact good_for_header hg ht _ hds (by simp only [skip_pos, l1]; omega)
  have a1 := hE _ (r.skip (2 + vs.length)) env (Rel.skip ⟨l1.trans hr.1, l2.trans hr.2⟩ _) g1
  exact for_tail hB hg ht hfr (by simp only [skip_pos, l1]; omega) hds a1
    (Agree.bindNames vs _ _ _ hg.entry)

theorem stat_repeat {body : List Stat} {c : Expr} (hB : BlockOK body) (hE : ExprOK c) {s : ISt} {r : RefSt}
    {env : Env} (hr : Rel s r) (hg : Good s.frames s.pos env) (ht : TopNormal s.frames) :
    StatGoal (.repeat_ body c) s r env := by
  simp only [StatGoal, implStat, refStat]
  have hold : ∀ ck, vis s.frames ck false = vis s.frames none true := fun ck => vis_topNormal ht _ _
  have b := hB ((s.push .repeat_ s.pos).skip 1) (r.skip 1) env (Rel.skip (s := s.push .repeat_ s.pos) ⟨hr.1, hr.2⟩ 1) (by
    have hv : ∀ ck e, vis (blk ((s.push .repeat_ s.pos).skip 1).pos :: ((s.push .repeat_ s.pos).skip 1).frames) ck e
        = vis s.frames none true := by
      intro ck e
      simp [vis, blk, ownC, repeatBody, hold]
    apply Good.push
    · exact ⟨by simp, hg.sorted, hg.top⟩
    · intro g hgm; rw [head_cons_mem hgm]; simp [blk]
    · intro c hc; cases hc
    · simp [blk]
    · rw [hv]; exact hg.entry
    · rw [hv]; exact hg.entry)
  have hmb := b.mono
  simp only [skip_pos, push_pos] at hmb
  -- the scope stack with which the condition is analysed
  have hcond : ∃ k, (implBlock ((s.push .repeat_ s.pos).skip 1) body).frames
        = { kind := .repeat_, start := s.pos, children := k } :: s.frames ∧
      Good ({ kind := .repeat_, start := s.pos, children := k } :: s.frames)
        ((implBlock ((s.push .repeat_ s.pos).skip 1) body).pos + 2) (refBlock env (r.skip 1) body).2 := by
    rcases b.res with ⟨_, hfr, henv⟩ | ⟨ch, hfr, hgb⟩
    · refine ⟨[], by simpa using hfr, ?_⟩
      rw [henv]
      have hv : ∀ ck e, (ck = none ∧ e = true) ∨ (ck = some Kind.closure ∧ e = false) →
          vis ({ kind := .repeat_, start := s.pos, children := [] } :: s.frames) ck e = vis s.frames none true := by
        intro ck e h
        rcases h with ⟨rfl, rfl⟩ | ⟨rfl, rfl⟩ <;> simp [vis, ownC, repeatBody, hold]
      apply Good.push hg.sorted hg.top
      · intro c hc; cases hc
      · show s.pos < _; omega
      · rw [hv _ _ (Or.inl ⟨rfl, rfl⟩)]; exact hg.entry
      · rw [hv _ _ (Or.inr ⟨rfl, rfl⟩)]; exact hg.entry
    · refine ⟨[.scope .normal (((s.push .repeat_ s.pos).skip 1).pos - 1) ch], by simpa [addKids] using hfr, ?_⟩
      have hent := hgb.entry
      have hv : ∀ ck e, vis ({ kind := .repeat_, start := s.pos, children := [.scope .normal (((s.push .repeat_ s.pos).skip 1).pos - 1) ch] } :: s.frames) ck e
          = vis ({ kind := .normal, start := ((s.push .repeat_ s.pos).skip 1).pos - 1, children := ch } ::
              ((s.push .repeat_ s.pos).skip 1).frames) none true := by
        intro ck e
        simp [vis, ownC, repeatBody, contrib, childScopeDecls, hold]
      apply Good.push hg.sorted hg.top
      · intro c hc
        simp only [List.mem_singleton] at hc
        subst hc
        refine ⟨by simp only [Node.pos, skip_pos, push_pos]; omega, ?_⟩
        intro g hgk
        have := (hgb.sorted.1 g (by simpa [nodeKids] using hgk)).1
        omega
      · show s.pos < _; omega
      · rw [hv]; exact hent
      · rw [hv]; exact hent
  obtain ⟨k, hfr, hgc⟩ := hcond
  have a := hE ((implBlock ((s.push .repeat_ s.pos).skip 1) body).skip 1) _ _ (b.rel.skip 1) (by
    simp only [skip_frames, skip_pos, hfr]; simpa using hgc)
  obtain ⟨cs, h1, k1⟩ := a.frames
  simp only [skip_frames, hfr] at h1
  have hma := a.mono
  simp only [skip_pos] at hma
  have hpop := pop_frames (implExpr ((implBlock ((s.push .repeat_ s.pos).skip 1) body).skip 1) c)
    { kind := .repeat_, start := s.pos, children := cs ++ k } s.frames (by rw [h1]; simp [addKids])
  refine ⟨a.rel.pop, by simp only [pop_pos]; omega, ⟨_, hpop⟩, ?_⟩
  rw [hpop]
  apply hg.addInert (by simp only [pop_pos]; omega) _ ht.ne_repeat
  intro c' hc
  simp only [List.mem_singleton] at hc
  subst hc
  refine ⟨trivial, by simp only [Node.pos, pop_pos]; omega, ?_⟩
  intro g hgk
  simp only [nodeKids, List.mem_append] at hgk
  simp only [pop_pos]
  rcases hgk with hgk | hgk
  · exact (k1 g hgk).2.1
  · have := (hgc.sorted.1 g hgk).1; omega

theorem declOf_closure {c : Node} (h : isClosureNode c) : declOf c = none := by
  cases c with
  | decl d => cases h
  | scope k st ch => rfl

/-- close the closure scope and then the statement scope of a (local) function statement -/
theorem func_stat_tail {body : List Stat} {s s2 s3 : ISt} {r2 r3 : RefSt} {env env' envB envOut : Env}
    {gk : List Decl} {cst : Nat}
    {pk : List Node} (hg : Good s.frames s.pos env) (ht : TopNormal s.frames)
    (hB : StepB body s2 s3 r2 r3 envB envOut)
    (hfr : s2.frames = { kind := .closure, start := cst, children := pk } ::
      { kind := .funcStat, start := s.pos, children := gk.map .decl } :: s.frames)
    (hcst : cst < s2.pos) (hpk : ∀ c ∈ pk, c.pos < s2.pos) (hgk : ∀ d ∈ gk, d.pos < s2.pos) (hs : s.pos < s2.pos)
    (hA : Agree (gk.reverse ++ vis s.frames none true) env') :
    StepS s (((s3.skip 1).pop).pop) (r3.skip 1) env' := by
  obtain ⟨node, h1, h2, h3, h4⟩ := closure_tail hB hfr hcst hpk
  have hpop := pop_frames ((s3.skip 1).pop) { kind := .funcStat, start := s.pos, children := node :: gk.map .decl } s.frames
    (by rw [h1]; simp [addKids])
  obtain ⟨hcl, hnp, hnk⟩ := h2 node (by simp)
  refine ⟨h3.pop, by simp only [pop_pos] at *; omega, ⟨_, hpop⟩, ?_⟩
  rw [hpop]
  apply hg.addStatNode ht (by simp only [pop_pos] at *; omega)
  · refine ⟨by simp only [Node.pos, pop_pos] at *; omega, ?_⟩
    intro g hgm
    simp only [nodeKids, List.mem_cons] at hgm
    rcases hgm with rfl | hgm
    · simpa using hnp
    · have := (decl_nodes_pos hgk g hgm).1
      simp only [pop_pos] at *; omega
  · have : contrib (.scope .funcStat s.pos (node :: gk.map .decl)) = gk.reverse := by
      simp only [contrib, childScopeDecls, List.reverse_cons, List.filterMap_append, List.filterMap_cons,
        declOf_closure hcl, List.filterMap_nil, List.append_nil, ← List.map_reverse, filterMap_declOf_decls]
    rw [this]; exact hA

theorem stat_localFunc {n : Name} {ps : List Name} {body : List Stat} (hB : BlockOK body) {s : ISt} {r : RefSt}
    {env : Env} (hr : Rel s r) (hg : Good s.frames s.pos env) (ht : TopNormal s.frames) :
    StatGoal (.localFunc n ps body) s r env := by
  simp only [StatGoal, implStat, refStat]
  rw [← hr.1]
  obtain ⟨l1, l2, l3⟩ := addLocals_push (((s.push .funcStat s.pos).addDecl { name := n, pos := s.pos + 4, isLocal := true }).skip 3)
    .closure (s.pos + 6) (s.pos + 8) ps
  simp only [skip_pos, addDecl_pos, push_pos, skip_out, addDecl_out, push_out, skip_frames, addDecl_frames,
    push_frames, addKids, List.append_nil] at l1 l2 l3
  have hold : ∀ ck, vis s.frames ck false = vis s.frames none true := fun ck => vis_topNormal ht _ _
  have b := hB ((((((s.push .funcStat s.pos).addDecl { name := n, pos := s.pos + 4, isLocal := true }).skip 3).push .closure
      (s.pos + 6)).addLocals (s.pos + 8) ps).skip (2 + ps.length))
    (r.skip (5 + ps.length)) (bindNames ((n, s.pos + 4) :: env) (s.pos + 8) ps)
    ⟨by simp only [skip_pos, l1, RefSt.skip]; rw [← hr.1]; omega, by simp only [skip_out, l2, RefSt.skip, hr.2]⟩
    (by
      simp only [skip_frames, skip_pos, l1, l3]
      have := good_closure_body
        (fs := { kind := .funcStat, start := s.pos, children := [.decl { name := n, pos := s.pos + 4, isLocal := true }] } :: s.frames)
        (cst := s.pos + 6) (pp := s.pos + 8) (pB := s.pos + 2 * 3 + 2 * (2 + ps.length)) (envC := (n, s.pos + 4) :: env) ps
        ⟨by intro c hc; simp only [List.mem_singleton] at hc; subst hc; exact ⟨by simp [Node.pos], fun g hgk => by cases hgk⟩,
          hg.sorted, hg.top⟩
        (by intro g hgm; rw [head_cons_mem hgm]; show s.pos < s.pos + 6; omega)
        (by
          have : vis ({ kind := .funcStat, start := s.pos, children := [.decl { name := n, pos := s.pos + 4, isLocal := true }] } :: s.frames)
              (some .closure) false = { name := n, pos := s.pos + 4, isLocal := true } :: vis s.frames none true := by
            simp [vis, ownC, contrib, hold]
          rw [this]; exact hg.entry.cons_local n (s.pos + 4))
        (by omega) (by omega)
      exact this)
  exact func_stat_tail (gk := [{ name := n, pos := s.pos + 4, isLocal := true }]) (env' := (n, s.pos + 4) :: env) hg ht b
    (by simp only [skip_frames, l3]; rfl) (by simp only [skip_pos, l1]; omega)
    (by intro c hc; have := params_pos (s.pos + 8) ps c hc; simp only [skip_pos, l1]; omega)
    (by intro d hd; simp only [List.mem_singleton] at hd; subst hd; simp only [skip_pos, l1]; omega)
    (by simp only [skip_pos, l1]; omega)
    (by simpa using hg.entry.cons_local n (s.pos + 4))

theorem Agree.cons_global' {ds : List Decl} {env : Env} (h : Agree ds env) (n : Name) (p : Nat)
    (hn : lookupEnv env n = none) : Agree ({ name := n, pos := p, isLocal := false } :: ds) env := by
  intro m
  simp only [findN, List.find?_cons]
  by_cases hm : n = m
  · subst hm; simp [localOf, hn]
  · simp only [hm, decide_false]; exact h m

/-- a lookup from a `local`/assignment statement scope continues in the enclosing scopes with the
statement's start as cut-off, whatever the statement scope already contains -/
theorem lookup_under_loa {fs : List Frame} {st : Nat} (hs : Sorted fs st) (hh : ∀ g ∈ fs.head?, g.start < st)
    (ch : List Node) (q : Nat) (n : Name) :
    findDecl ({ kind := .localOrAssign, start := st, children := ch } :: fs) n q = findN (vis fs (some .localOrAssign) false) n := by
  have := visit_up fs st [] .localOrAssign st ch (UpOK_of_sorted fs _ _ _ _ hs hh (by simp))
    ⟨fun h => absurd rfl h, fun h => by cases h⟩ n
  simpa [findDecl, findN, visit, ownDecls, kidsOf] using this

/-- after the name of a function statement: parameters, body, `end` -/
theorem funcStat_rest {ps : List Name} {body : List Stat} (hB : BlockOK body) {s s1 : ISt} {r1 : RefSt} {env : Env}
    {gk : List Decl} (hg : Good s.frames s.pos env) (ht : TopNormal s.frames)
    (hfr : s1.frames = { kind := .funcStat, start := s.pos, children := gk.map .decl } :: s.frames)
    (hp : s1.pos = s.pos + 4) (hr1 : Rel s1 r1) (hgk : ∀ d ∈ gk, d.pos < s.pos + 4)
    (hA : Agree (gk.reverse ++ vis s.frames none true) env) (hA' : Agree (gk ++ vis s.frames none true) env) :
    StepS s (((implBlock (((s1.push .closure (s.pos + 4)).addLocals (s.pos + 6) ps).skip (2 + ps.length)) body).skip 1).pop).pop
      ((refBlock (bindNames env (s.pos + 6) ps) (r1.skip (2 + ps.length)) body).1.skip 1) env := by
  obtain ⟨l1, l2, l3⟩ := addLocals_push s1 .closure (s.pos + 4) (s.pos + 6) ps
  rw [hfr] at l3
  have hold : ∀ ck, vis s.frames ck false = vis s.frames none true := fun ck => vis_topNormal ht _ _
  have b := hB (((s1.push .closure (s.pos + 4)).addLocals (s.pos + 6) ps).skip (2 + ps.length))
    (r1.skip (2 + ps.length)) (bindNames env (s.pos + 6) ps)
    (Rel.skip ⟨l1.trans hr1.1, l2.trans hr1.2⟩ _)
    (by
      simp only [skip_frames, skip_pos, l1, l3, hp]
      exact good_closure_body
        (fs := { kind := .funcStat, start := s.pos, children := gk.map .decl } :: s.frames)
        (cst := s.pos + 4) (pp := s.pos + 6) (pB := s.pos + 4 + 2 * (2 + ps.length)) (envC := env) ps
        ⟨decl_nodes_pos hgk, hg.sorted, hg.top⟩
        (by intro g hgm; rw [head_cons_mem hgm]; show s.pos < s.pos + 4; omega)
        (by
          have : vis ({ kind := .funcStat, start := s.pos, children := gk.map .decl } :: s.frames)
              (some .closure) false = gk ++ vis s.frames none true := by
            simp [vis, ownC, flat_decls, hold]
          rw [this]; exact hA')
        (by omega) (by omega))
  exact func_stat_tail (gk := gk) (env' := env) (cst := s.pos + 4)
    (pk := (declsAt (s.pos + 6) ps).reverse.map .decl) hg ht b
    (by simp only [skip_frames, l3]) (by simp only [skip_pos, l1, hp]; omega)
    (by intro c hc; have := params_pos (s.pos + 6) ps c hc; simp only [skip_pos, l1, hp]; omega)
    (by intro d hd; have := hgk d hd; simp only [skip_pos, l1, hp]; omega)
    (by simp only [skip_pos, l1, hp]; omega) hA

theorem stat_funcStat {n : Name} {ps : List Name} {body : List Stat} (hB : BlockOK body) {s : ISt} {r : RefSt}
    {env : Env} (hr : Rel s r) (hg : Good s.frames s.pos env) (ht : TopNormal s.frames) :
    StatGoal (.funcStat n ps body) s r env := by
  simp only [StatGoal, implStat, refStat]
  rw [← hr.1]
  have hold : ∀ ck, vis s.frames ck false = vis s.frames none true := fun ck => vis_topNormal ht _ _
  -- the lookup on entering the statement
  have hlook : findDecl (s.push .funcStat s.pos).frames n (s.pos + 2) = findN (vis s.frames none true) n := by
    have := visit_eq_vis ({ kind := .funcStat, start := s.pos, children := [] } :: s.frames) (s.pos + 2)
      ⟨by simp, hg.sorted, hg.top⟩ (by intro f hf; rw [head_cons_mem hf]; right; show s.pos < s.pos + 2; omega) n
    simpa [findDecl, findN, vis, ownC, hold] using this
  have hent := hg.entry n
  simp only [ISt.declareGlobals]
  cases hf : findDecl (s.push .funcStat s.pos).frames n (s.pos + 2) with
  | none =>
    simp only [ISt.useVars, if_true]
    rw [hlook] at hf
    have hnone : lookupEnv env n = none := by rw [← hent, hf]; rfl
    exact funcStat_rest (gk := [{ name := n, pos := s.pos + 2, isLocal := false }]) hB hg ht
      (by simp [addKids]) (by simp) ⟨by simp [RefSt.use, RefSt.skip, hr.1], by
        simp [ISt.useSelf, RefSt.use, RefSt.skip, hnone, hr.1, hr.2]⟩
      (by intro d hd; simp only [List.mem_singleton] at hd; subst hd; simp)
      (by simpa using hg.entry.cons_global' n (s.pos + 2) hnone)
      (by simpa using hg.entry.cons_global' n (s.pos + 2) hnone)
  | some d =>
    simp only [ISt.useVars, Bool.false_eq_true, if_false]
    have hloc : lookupEnv env n = localOf (findDecl (s.push .funcStat s.pos).frames n (s.pos + 2)) := by
      rw [hlook, hent]
    exact funcStat_rest (gk := []) hB hg ht
      (by simp) (by simp) ⟨by simp [RefSt.use, RefSt.skip, hr.1], by
        simp [ISt.use, RefSt.use, RefSt.skip, hloc, hr.1, hr.2]⟩
      (by intro d hd; cases hd) (by simpa using hg.entry) (by simpa using hg.entry)

/-- the global declarations an assignment creates: one for every variable that resolves to nothing -/
def globalsAt (old : List Decl) (p : Nat) : List Name → List Decl
  | [] => []
  | v :: vs => (if findN old v = none then [{ name := v, pos := p, isLocal := false }] else []) ++ globalsAt old (p + 2) vs

theorem globalsAt_spec (old : List Decl) (vs : List Name) : ∀ (p : Nat), ∀ d ∈ globalsAt old p vs,
    d.isLocal = false ∧ findN old d.name = none ∧ d.pos < p + 2 * vs.length := by
  induction vs with
  | nil => intro p d hd; cases hd
  | cons v vs ih =>
    intro p d hd
    simp only [globalsAt, List.mem_append] at hd
    rcases hd with hd | hd
    · by_cases hv : findN old v = none
      · simp only [hv, if_true, List.mem_singleton] at hd; subst hd
        exact ⟨rfl, hv, by simp⟩
      · simp [hv] at hd
    · obtain ⟨h1, h2, h3⟩ := ih (p + 2) d hd
      exact ⟨h1, h2, by simp only [List.length_cons]; omega⟩

theorem Agree.globals {ds : List Decl} {env : Env} (h : Agree ds env) (gs : List Decl)
    (hgs : ∀ g ∈ gs, g.isLocal = false ∧ lookupEnv env g.name = none) : Agree (gs ++ ds) env := by
  induction gs with
  | nil => simpa using h
  | cons g gs ih =>
    have h1 := hgs g (by simp)
    have := (ih (fun g' hg' => hgs g' (by simp [hg']))).cons_global' g.name g.pos h1.2
    have hg : g = { name := g.name, pos := g.pos, isLocal := false } := by
      cases g; simp_all
    rw [List.cons_append, hg]; exact this

theorem declareGlobals_loa {fs : List Frame} {st : Nat} (hs : Sorted fs st) (hh : ∀ g ∈ fs.head?, g.start < st)
    (ht : TopNormal fs) (vars : List Name) : ∀ (s0 : ISt) (ch : List Node) (p : Nat),
    s0.frames = { kind := .localOrAssign, start := st, children := ch } :: fs →
    (s0.declareGlobals p vars).1.pos = s0.pos ∧ (s0.declareGlobals p vars).1.out = s0.out ∧
    (s0.declareGlobals p vars).1.frames = { kind := .localOrAssign, start := st, children := (globalsAt (vis fs none true) p vars).reverse.map .decl ++ ch } :: fs ∧
    (s0.declareGlobals p vars).2 = vars.map (fun v => decide (findN (vis fs none true) v = none)) := by
  induction vars with
  | nil => intro s0 ch p h; simp [ISt.declareGlobals, globalsAt, h]
  | cons v vs ih =>
    intro s0 ch p h
    have hl : findDecl s0.frames v p = findN (vis fs none true) v := by
      rw [h, lookup_under_loa hs hh, vis_topNormal ht]
    simp only [ISt.declareGlobals]
    cases hf : findDecl s0.frames v p with
    | some d =>
      rw [hl] at hf
      obtain ⟨i1, i2, i3, i4⟩ := ih (s0.logLookup p) ch (p + 2) (by simpa using h)
      simp only [List.map_cons]
      refine ⟨i1, i2, ?_, ?_⟩
      · rw [i3]; simp [globalsAt, hf]
      · rw [i4]; simp [hf]
    | none =>
      rw [hl] at hf
      obtain ⟨i1, i2, i3, i4⟩ := ih ((s0.logLookup p).addDecl { name := v, pos := p, isLocal := false })
        (.decl { name := v, pos := p, isLocal := false } :: ch) (p + 2) (by simp [h, addKids])
      simp only [List.map_cons]
      refine ⟨by simpa using i1, by simpa using i2, ?_, ?_⟩
      · rw [i3]; simp [globalsAt, hf]
      · rw [i4]; simp [hf]

theorem useVars_loa {fs : List Frame} {st : Nat} {env : Env} (hs : Sorted fs st) (hh : ∀ g ∈ fs.head?, g.start < st)
    (ht : TopNormal fs) (hA : Agree (vis fs none true) env) (ch : List Node) (vars : List Name) : ∀ (s1 : ISt) (r1 : RefSt),
    s1.frames = { kind := .localOrAssign, start := st, children := ch } :: fs → Rel s1 r1 →
    Rel (s1.useVars vars (vars.map (fun v => decide (findN (vis fs none true) v = none)))) (r1.uses env vars) ∧
    (s1.useVars vars (vars.map (fun v => decide (findN (vis fs none true) v = none)))).frames = s1.frames ∧
    (s1.useVars vars (vars.map (fun v => decide (findN (vis fs none true) v = none)))).pos = s1.pos + 2 * vars.length := by
  induction vars with
  | nil => intro s1 r1 h hr; simp [ISt.useVars, RefSt.uses, hr]
  | cons v vs ih =>
    intro s1 r1 h hr
    simp only [List.map_cons, ISt.useVars, RefSt.uses]
    have hl : findDecl s1.frames v s1.pos = findN (vis fs none true) v := by
      rw [h, lookup_under_loa hs hh, vis_topNormal ht]
    have hent := hA v
    by_cases hv : findN (vis fs none true) v = none
    · simp only [hv, decide_true, if_true]
      have hnone : lookupEnv env v = none := by rw [← hent, hv]; rfl
      obtain ⟨i1, i2, i3⟩ := ih s1.useSelf (r1.use env v) (by simpa using h)
        ⟨by simp [RefSt.use, hr.1], by simp only [ISt.useSelf, RefSt.use, hnone, ← hr.1, ← hr.2]⟩
      exact ⟨i1, by simpa using i2, by simp only [useSelf_pos, List.length_cons] at i3 ⊢; omega⟩
    · simp only [hv, decide_false, Bool.false_eq_true, if_false]
      obtain ⟨i1, i2, i3⟩ := ih (s1.use v) (r1.use env v) (by simpa using h)
        ⟨by simp [RefSt.use, hr.1], by
          have : localOf (findDecl s1.frames v s1.pos) = lookupEnv env v := by rw [hl, hent]
          simp only [ISt.use, RefSt.use, this, ← hr.1, ← hr.2]⟩
      exact ⟨i1, by simpa using i2, by simp only [use_pos, List.length_cons] at i3 ⊢; omega⟩

theorem stat_assign {vars : List Name} {vals : List Expr} (hE : ExprsOK vals) {s : ISt} {r : RefSt} {env : Env}
    (hr : Rel s r) (hg : Good s.frames s.pos env) (ht : TopNormal s.frames) :
    StatGoal (.assign vars vals) s r env := by
  simp only [StatGoal, implStat, refStat]
  obtain ⟨d1, d2, d3, d4⟩ := declareGlobals_loa hg.sorted hg.top ht vars (s.push .localOrAssign s.pos) [] s.pos rfl
  rw [d4]
  simp only [List.append_nil, push_pos, push_out] at d1 d2 d3
  obtain ⟨u1, u2, u3⟩ := useVars_loa hg.sorted hg.top ht hg.entry _ vars
    ((s.push .localOrAssign s.pos).declareGlobals s.pos vars).1 r d3 ⟨d1.trans hr.1, d2.trans hr.2⟩
  rw [d3] at u2
  rw [d1] at u3
  have hgl := globalsAt_spec (vis s.frames none true) vars s.pos
  have g1 : Good ((((s.push .localOrAssign s.pos).declareGlobals s.pos vars).1.useVars vars
        (vars.map (fun v => decide (findN (vis s.frames none true) v = none)))).skip 1).frames
      ((((s.push .localOrAssign s.pos).declareGlobals s.pos vars).1.useVars vars
        (vars.map (fun v => decide (findN (vis s.frames none true) v = none)))).skip 1).pos env := by
    simp only [skip_frames, skip_pos, u2, u3]
    apply Good.push hg.sorted hg.top
    · apply decl_nodes_pos
      intro d hd
      have := (hgl d (by simpa using hd)).2.2
      omega
    · show s.pos < _; omega
    · rw [vis_loa _ _ ht]; exact hg.entry
    · rw [vis_loa _ _ ht]; exact hg.entry
  have a := hE _ _ env (u1.skip 1) g1
  obtain ⟨cs, h1, k1⟩ := a.frames
  simp only [skip_frames, u2] at h1
  have hpop := pop_frames _ { kind := .localOrAssign, start := s.pos, children := cs ++ (globalsAt (vis s.frames none true) s.pos vars).reverse.map .decl }
    s.frames (by rw [h1]; simp [addKids])
  have hm := a.mono
  simp only [skip_pos, u3] at hm
  refine ⟨a.rel.pop, by simp only [pop_pos]; omega, ⟨_, hpop⟩, ?_⟩
  rw [hpop]
  apply hg.addStatNode ht (by simp only [pop_pos]; omega)
  · refine ⟨by simp only [Node.pos, pop_pos]; omega, ?_⟩
    intro g hgk
    simp only [nodeKids, List.mem_append] at hgk
    simp only [pop_pos]
    rcases hgk with hgk | hgk
    · exact (k1 g hgk).2.1
    · rw [List.mem_map] at hgk
      obtain ⟨d, hd, rfl⟩ := hgk
      have := (hgl d (by simpa using hd)).2.2
      show d.pos < _
      omega
  · rw [contrib_loa _ _ _ (fun c hc => isInert_of_closure (k1 c hc).1)]
    apply hg.entry.globals
    intro g hgm
    obtain ⟨h1', h2', _⟩ := hgl g (by simpa using hgm)
    refine ⟨h1', ?_⟩
    rw [← hg.entry g.name, h2']; rfl

/-- `good_closure_body` with declarations made before the parameters (the implicit `self`) -/
theorem good_closure_body_ex {fs : List Frame} {cst pp pB : Nat} {envC : Env} (ps : List Name) (ex : List Decl)
    (hs : Sorted fs cst) (hh : ∀ g ∈ fs.head?, g.start < cst) (hex : ∀ d ∈ ex, d.pos < pp)
    (hA : Agree (ex ++ vis fs (some .closure) false) envC) (hcst : cst < pp) (hpB : pp + 2 * ps.length + 2 ≤ pB) :
    Good ({ kind := .normal, start := pB - 1, children := [] } ::
          { kind := .closure, start := cst, children := (declsAt pp ps).reverse.map .decl ++ ex.map .decl } :: fs) pB
      (bindNames envC pp ps) := by
  have hvis : ∀ ck e, vis ({ kind := .normal, start := pB - 1, children := [] } ::
          { kind := .closure, start := cst, children := (declsAt pp ps).reverse.map .decl ++ ex.map .decl } :: fs) ck e
        = (declsAt pp ps).reverse ++ (ex ++ vis fs (some .closure) false) := by
    intro ck e
    simp only [vis, ownC, flat_nil, List.nil_append, flat_append, flat_decls, List.append_assoc]
  refine ⟨⟨by simp, ⟨?_, hs, hh⟩, ?_⟩, ?_, ?_, ?_⟩
  · intro c hc
    rcases List.mem_append.mp hc with hc | hc
    · have := params_pos pp ps c hc
      refine ⟨by show c.pos < pB - 1; omega, fun g hg => ?_⟩
      rw [List.mem_map] at hc; obtain ⟨d, _, rfl⟩ := hc; cases hg
    · rw [List.mem_map] at hc
      obtain ⟨d, hd, rfl⟩ := hc
      have := hex d hd
      exact ⟨by show d.pos < pB - 1; omega, fun g hg => by cases hg⟩
  · intro g hg
    rw [head_cons_mem hg]
    show cst < pB - 1
    omega
  · intro f hf
    rw [head_cons_mem hf]
    show pB - 1 < pB
    omega
  · rw [hvis]; exact Agree.bindNames ps pp _ _ hA
  · rw [hvis]; exact Agree.bindNames ps pp _ _ hA

theorem stat_loclAttr {n : Name} {val : Expr} (hE : ExprOK val) {s : ISt} {r : RefSt} {env : Env}
    (hr : Rel s r) (hg : Good s.frames s.pos env) (ht : TopNormal s.frames) :
    StatGoal (.loclAttr n val) s r env := by
  simp only [StatGoal, implStat, refStat]
  rw [← hr.1]
  have hfr : (((s.push .localOrAssign s.pos).addDecl { name := n, pos := s.pos + 2, isLocal := true }).skip 6).frames
      = { kind := .localOrAssign, start := s.pos, children := [.decl { name := n, pos := s.pos + 2, isLocal := true }] } :: s.frames := by
    simp [addKids]
  have g1 : Good (((s.push .localOrAssign s.pos).addDecl { name := n, pos := s.pos + 2, isLocal := true }).skip 6).frames
      (((s.push .localOrAssign s.pos).addDecl { name := n, pos := s.pos + 2, isLocal := true }).skip 6).pos env := by
    rw [hfr]
    apply Good.push hg.sorted hg.top
    · intro c hc
      simp only [List.mem_singleton] at hc; subst hc
      exact ⟨by simp [Node.pos], fun g hgk => by cases hgk⟩
    · show s.pos < _; simp
    · rw [vis_loa _ _ ht]; exact hg.entry
    · rw [vis_loa _ _ ht]; exact hg.entry
  have a := hE _ (r.skip 6) env (Rel.skip (s := (s.push .localOrAssign s.pos).addDecl _) ⟨hr.1, hr.2⟩ 6) g1
  obtain ⟨cs, h1, k1⟩ := a.frames
  rw [hfr] at h1
  have hpop := pop_frames _ { kind := .localOrAssign, start := s.pos, children := cs ++ [{ name := n, pos := s.pos + 2, isLocal := true }].map .decl } s.frames (by rw [h1]; simp [addKids])
  have hm := a.mono
  simp only [skip_pos, addDecl_pos, push_pos] at hm
  refine ⟨a.rel.pop, by simp only [pop_pos]; omega, ⟨_, hpop⟩, ?_⟩
  rw [hpop]
  apply hg.addStatNode ht (by simp only [pop_pos]; omega)
  · refine ⟨by simp only [Node.pos, pop_pos]; omega, ?_⟩
    intro g hgk
    simp only [nodeKids, List.mem_append] at hgk
    simp only [pop_pos]
    rcases hgk with hgk | hgk
    · exact (k1 g hgk).2.1
    · simp only [List.map_cons, List.map_nil, List.mem_singleton] at hgk; subst hgk
      show s.pos + 2 < _; omega
  · rw [contrib_loa _ _ _ (fun c hc => isInert_of_closure (k1 c hc).1)]
    simpa using hg.entry.cons_local n (s.pos + 2)

theorem addImplicitSelf_spec (s : ISt) (colon : Bool) (p : Nat) :
    (s.addImplicitSelf colon p).pos = s.pos ∧ (s.addImplicitSelf colon p).out = s.out ∧
    (s.addImplicitSelf colon p).frames = addKids ((selfDecls colon p).map .decl) s.frames := by
  cases colon <;> simp [ISt.addImplicitSelf, selfDecls]

theorem selfDecls_pos (colon : Bool) (p : Nat) : ∀ d ∈ selfDecls colon p, d.pos = p := by
  intro d hd; cases colon <;> simp [selfDecls] at hd; subst hd; rfl

theorem Agree.selfEnv {ds : List Decl} {env : Env} (h : Agree ds env) (colon : Bool) (p : Nat) :
    Agree (selfDecls colon p ++ ds) (selfEnv colon p env) := by
  cases colon
  · simpa [selfDecls, Scope.selfEnv] using h
  · simpa [selfDecls, Scope.selfEnv] using h.cons_local selfName p

theorem stat_method {obj : Name} {k : Nat} {colon : Bool} {ps : List Name} {body : List Stat} (hB : BlockOK body)
    {s : ISt} {r : RefSt} {env : Env} (hr : Rel s r) (hg : Good s.frames s.pos env) (ht : TopNormal s.frames) :
    StatGoal (.method obj k colon ps body) s r env := by
  simp only [StatGoal, implStat, refStat]
  rw [← hr.1]
  have hold : ∀ ck, vis s.frames ck false = vis s.frames none true := fun ck => vis_topNormal ht _ _
  -- the prefix name is resolved from the statement's own (empty) scope
  have g0 : Good ((s.push .funcStat s.pos).skip 1).frames ((s.push .funcStat s.pos).skip 1).pos env := by
    have hv : ∀ ck e, vis ({ kind := .funcStat, start := s.pos, children := [] } :: s.frames) ck e = vis s.frames none true := by
      intro ck e; simp [vis, ownC, hold]
    apply Good.push hg.sorted hg.top
    · intro c hc; cases hc
    · show s.pos < _; simp
    · rw [hv]; exact hg.entry
    · rw [hv]; exact hg.entry
  have r1 : Rel (((s.push .funcStat s.pos).skip 1).use obj) ((r.skip 1).use env obj) :=
    Rel.use (Rel.skip (s := s.push .funcStat s.pos) ⟨hr.1, hr.2⟩ 1) g0 obj
  -- the closure scope: `self` (for a method), then the parameters
  obtain ⟨a1, a2, a3⟩ := addImplicitSelf_spec
    (((((s.push .funcStat s.pos).skip 1).use obj).skip (2 * k)).push .closure (s.pos + 4 + 4 * k)) colon (s.pos + 4 * k)
  obtain ⟨l1, l2, l3⟩ := addLocals_spec ps
    ((((((s.push .funcStat s.pos).skip 1).use obj).skip (2 * k)).push .closure (s.pos + 4 + 4 * k)).addImplicitSelf colon (s.pos + 4 * k))
    (s.pos + 6 + 4 * k)
  rw [a1] at l1; rw [a2] at l2; rw [a3, addKids_addKids] at l3
  simp only [push_pos, skip_pos, use_pos, push_out, skip_out, push_frames, skip_frames, use_frames, addKids,
    List.append_nil] at l1 l2 l3
  have hexpos : ∀ d ∈ selfDecls colon (s.pos + 4 * k), d.pos < s.pos + 6 + 4 * k := by
    intro d hd; rw [selfDecls_pos _ _ d hd]; omega
  have b := hB
    (((((((s.push .funcStat s.pos).skip 1).use obj).skip (2 * k)).push .closure (s.pos + 4 + 4 * k)).addImplicitSelf colon (s.pos + 4 * k)).addLocals (s.pos + 6 + 4 * k) ps |>.skip (2 + ps.length))
    (((r.skip 1).use env obj).skip (2 * k + 2 + ps.length))
    (bindNames (selfEnv colon (s.pos + 4 * k) env) (s.pos + 6 + 4 * k) ps)
    ⟨by simp only [skip_pos, l1, RefSt.skip, RefSt.use]; rw [← hr.1]; omega,
     by simp only [skip_out, l2, RefSt.skip]; exact r1.2⟩
    (by
      simp only [skip_frames, skip_pos, l1, l3]
      exact good_closure_body_ex
        (fs := { kind := .funcStat, start := s.pos, children := [] } :: s.frames)
        (cst := s.pos + 4 + 4 * k) (pp := s.pos + 6 + 4 * k) (pB := s.pos + 2 * 1 + 2 + 2 * (2 * k) + 2 * (2 + ps.length))
        (envC := selfEnv colon (s.pos + 4 * k) env) ps (selfDecls colon (s.pos + 4 * k))
        ⟨(by intro c hc; cases hc), hg.sorted, hg.top⟩
        (by intro g hgm; rw [head_cons_mem hgm]; show s.pos < s.pos + 4 + 4 * k; omega)
        hexpos
        (by
          have : vis ({ kind := .funcStat, start := s.pos, children := [] } :: s.frames)
              (some .closure) false = vis s.frames none true := by simp [vis, ownC, hold]
          rw [this]; exact hg.entry.selfEnv colon _)
        (by omega) (by omega))
  exact func_stat_tail (gk := []) (env' := env) (cst := s.pos + 4 + 4 * k)
    (pk := (declsAt (s.pos + 6 + 4 * k) ps).reverse.map .decl ++ (selfDecls colon (s.pos + 4 * k)).map .decl) hg ht b
    (by simp only [skip_frames, l3, List.map_nil]) (by simp only [skip_pos, l1]; omega)
    (by
      intro c hc
      simp only [skip_pos, l1]
      rcases List.mem_append.mp hc with hc | hc
      · have := params_pos (s.pos + 6 + 4 * k) ps c hc; omega
      · rw [List.mem_map] at hc; obtain ⟨d, hd, rfl⟩ := hc; have := hexpos d hd; show d.pos < _; omega)
    (by intro d hd; cases hd) (by simp only [skip_pos, l1]; omega) (by simpa using hg.entry)

mutual
theorem simExpr : ∀ (e : Expr) (s : ISt) (r : RefSt) (env : Env), Rel s r → Good s.frames s.pos env →
    StepE s (implExpr s e) (refExpr env r e)
  | .name n, s, r, env, hr, hg => by
    simp only [implExpr, refExpr]; exact StepE.use hr hg n
  | .lit, s, r, env, hr, hg => by
    simp only [implExpr, refExpr]; exact (StepE.refl s r hr).skip 1
  | .call f args, s, r, env, hr, hg => by
    simp only [implExpr, refExpr]
    have a := (StepE.use hr hg f).skip 1
    have b := simExprs args _ _ env a.rel (a.good hg)
    exact (a.trans b).skip 1
  | .func ps body, s, r, env, hr, hg => by
    simp only [implExpr, refExpr]
    obtain ⟨l1, l2, l3⟩ := addLocals_push s .closure s.pos (s.pos + 4) ps
    rw [← hr.1]
    have hB := simBlock body (((s.push .closure s.pos).addLocals (s.pos + 4) ps).skip (3 + ps.length))
      (r.skip (3 + ps.length)) (bindNames env (s.pos + 4) ps)
      (Rel.skip ⟨l1.trans hr.1, l2.trans hr.2⟩ _)
      (by
        simp only [skip_frames, skip_pos, l1, l3]
        exact good_closure_body (fs := s.frames) (cst := s.pos) (pp := s.pos + 4)
          (pB := s.pos + 2 * (3 + ps.length)) (envC := env) ps hg.sorted hg.top hg.closure (by omega) (by omega))
    obtain ⟨node, h1, h2, h3, h4⟩ := closure_tail (fs := s.frames) (cst := s.pos)
      (pk := (declsAt (s.pos + 4) ps).reverse.map .decl) hB
      (by simp only [skip_frames, l3]) (by simp only [skip_pos, l1]; omega)
      (by
        intro c hc
        have := params_pos (s.pos + 4) ps c hc
        simp only [skip_pos, l1]; omega)
    refine ⟨h3, ?_, [node], h1, h2⟩
    simp only [skip_pos, l1] at h4; omega
theorem simExprs : ∀ (es : List Expr) (s : ISt) (r : RefSt) (env : Env), Rel s r → Good s.frames s.pos env →
    StepE s (implExprs s es) (refExprs env r es)
  | [], s, r, env, hr, hg => by simp only [implExprs, refExprs]; exact StepE.refl s r hr
  | e :: es, s, r, env, hr, hg => by
    simp only [implExprs, refExprs]
    have a := simExpr e s r env hr hg
    exact a.trans (simExprs es _ _ env a.rel (a.good hg))
theorem simStat : ∀ (st : Stat) (s : ISt) (r : RefSt) (env : Env), Rel s r → Good s.frames s.pos env →
    TopNormal s.frames → StepS s (implStat s st) (refStat env r st).1 (refStat env r st).2
  | .locl _ vals, _, _, _, hr, hg, ht => stat_locl (simExprs vals) hr hg ht
  | .assign _ vals, _, _, _, hr, hg, ht => stat_assign (simExprs vals) hr hg ht
  | .localFunc _ _ body, _, _, _, hr, hg, ht => stat_localFunc (simBlock body) hr hg ht
  | .funcStat _ _ body, _, _, _, hr, hg, ht => stat_funcStat (simBlock body) hr hg ht
  | .forNum _ e1 e2 body, _, _, _, hr, hg, ht => stat_forNum (simExpr e1) (simExpr e2) (simBlock body) hr hg ht
  | .forIn _ e body, _, _, _, hr, hg, ht => stat_forIn (simExpr e) (simBlock body) hr hg ht
  | .while_ c body, _, _, _, hr, hg, ht => stat_while (simExpr c) (simBlock body) hr hg ht
  | .repeat_ body c, _, _, _, hr, hg, ht => stat_repeat (simBlock body) (simExpr c) hr hg ht
  | .do_ body, _, _, _, hr, hg, ht => stat_do (simBlock body) hr hg ht
  | .if_ c t e, _, _, _, hr, hg, ht => stat_if (simExpr c) (simBlock t) (simBlock e) hr hg ht
  | .callS _ args, _, _, _, hr, hg, _ => stat_callS (simExprs args) hr hg
  | .loclAttr _ val, _, _, _, hr, hg, ht => stat_loclAttr (simExpr val) hr hg ht
  | .method _ _ _ _ body, _, _, _, hr, hg, ht => stat_method (simBlock body) hr hg ht
theorem simStats : ∀ (sts : List Stat) (s : ISt) (r : RefSt) (env : Env), Rel s r → Good s.frames s.pos env →
    TopNormal s.frames → StepS s (implStats s sts) (refBlock env r sts).1 (refBlock env r sts).2
  | [], s, r, env, hr, hg, ht => by
    simp only [implStats, refBlock]; exact ⟨hr, Nat.le_refl _, ⟨[], by simp⟩, hg⟩
  | st :: rest, s, r, env, hr, hg, ht => by
    simp only [implStats, refBlock]
    have a := simStat st s r env hr hg ht
    obtain ⟨cs1, h1⟩ := a.frames
    have b := simStats rest _ _ _ a.rel a.good (by rw [h1]; exact ht.addKids cs1)
    obtain ⟨cs2, h2⟩ := b.frames
    exact ⟨b.rel, Nat.le_trans a.mono b.mono, ⟨cs2 ++ cs1, by rw [h2, h1, addKids_addKids]⟩, b.good⟩
theorem simBlock : ∀ (b : List Stat) (s : ISt) (r : RefSt) (envB : Env), Rel s r →
    Good ({ kind := .normal, start := s.pos - 1, children := [] } :: s.frames) s.pos envB →
    StepB b s (implBlock s b) r (refBlock envB r b).1 envB (refBlock envB r b).2
  | [], s, r, envB, hr, hg => by
    simp only [implBlock, refBlock]; exact ⟨hr, Nat.le_refl _, Or.inl ⟨rfl, rfl, rfl⟩⟩
  | st :: rest, s, r, envB, hr, hg => by
    simp only [implBlock, refBlock]
    have a := simStat st (s.push .normal (s.pos - 1)) r envB hr (by simpa using hg) (TopNormal.cons _ _ rfl)
    obtain ⟨cs1, h1⟩ := a.frames
    have ht : TopNormal (s.push .normal (s.pos - 1)).frames := TopNormal.cons _ _ rfl
    have b := simStats rest _ _ _ a.rel a.good (by rw [h1]; exact ht.addKids cs1)
    obtain ⟨cs2, h2⟩ := b.frames
    have hfr : (implStats (implStat (s.push .normal (s.pos - 1)) st) rest).frames
        = { kind := .normal, start := s.pos - 1, children := cs2 ++ cs1 } :: s.frames := by
      rw [h2, h1, addKids_addKids]; simp [addKids]
    refine ⟨b.rel.pop, ?_, Or.inr ⟨cs2 ++ cs1, ?_, ?_⟩⟩
    · simp only [pop_pos]; exact Nat.le_trans a.mono b.mono
    · rw [pop_frames _ _ _ hfr]
    · have := b.good; rw [hfr] at this; simpa using this
end

end Scope
