import EmmyVerif.Lemmas.IndexDb
/-! `Index.Db`, doc-property index: for histories in which every owner is documented by one file only (the complement
of the open finding), `remove` / `update` are exact on `get_property`. -/
namespace Index.Db
open Index

/-- `LuaPropertyIndex::get_property` -/
def getProp (d : Db) (o : Owner) : Option Prop' := (aget d.propOwners o).bind (aget d.props)

/-- the field writes of one mutation to owner `o` -/
def propStep (o : Owner) (p : Option Prop') (m : FMut) : Option Prop' :=
  match m.2 with
  | .prop o' fld v => if o' = o then some (aset (p.getD []) fld v) else p
  | _ => p

/-- what the mutations `ms` make of the property of `o`, starting from `init` -/
def propFold (ms : List FMut) (o : Owner) (init : Option Prop') : Option Prop' := ms.foldl (propStep o) init

/-- representation invariant of the three maps -/
structure PI (d : Db) : Prop where
  inj : ∀ o1 o2 id, aget d.propOwners o1 = some id → aget d.propOwners o2 = some id → o1 = o2
  bound : ∀ o id, aget d.propOwners o = some id → id < d.propCount
  has : ∀ o id, aget d.propOwners o = some id → (aget d.props id).isSome = true

theorem pi_new : PI Db.new := ⟨by intro _ _ _ h; simp [Db.new, aget] at h, by intro _ _ h; simp [Db.new, aget] at h, by intro _ _ h; simp [Db.new, aget] at h⟩

/-! ### one mutation -/

theorem getOrCreate_spec (d : Db) (h : PI d) (o : Owner) :
    PI (getOrCreateProp d o).1 ∧ aget (getOrCreateProp d o).1.propOwners o = some (getOrCreateProp d o).2 ∧
    (∀ o', getProp (getOrCreateProp d o).1 o' = if o' = o then some ((getProp d o).getD []) else getProp d o') ∧
    (getOrCreateProp d o).1.propInFile = d.propInFile ∧ (getOrCreateProp d o).1.perFile = d.perFile ∧
    (getOrCreateProp d o).1.keyed = d.keyed ∧ (getOrCreateProp d o).1.nested = d.nested ∧
    (getOrCreateProp d o).1.owned = d.owned ∧ (getOrCreateProp d o).1.inFile = d.inFile := by
  generalize hrr : getOrCreateProp d o = r
  unfold getOrCreateProp at hrr
  cases ho : aget d.propOwners o with
  | some id =>
    have hr : r = (d, id) := by rw [ho] at hrr; exact hrr.symm
    rw [hr]
    refine ⟨h, ho, ?_, rfl, rfl, rfl, rfl, rfl, rfl⟩
    intro o'
    by_cases e : o' = o
    · subst e
      simp only [if_true, getProp, ho, Option.bind_some]
      have := h.has o' id ho
      cases hp : aget d.props id with
      | none => rw [hp] at this; cases this
      | some p => rfl
    · simp [e]
  | none =>
    have hr : r = ({ d with propOwners := aset d.propOwners o d.propCount, props := aset d.props d.propCount [],
                            propCount := d.propCount + 1 }, d.propCount) := by rw [ho] at hrr; exact hrr.symm
    rw [hr]
    refine ⟨⟨?_, ?_, ?_⟩, ?_, ?_, rfl, rfl, rfl, rfl, rfl, rfl⟩
    · intro o1 o2 id h1 h2
      simp only at h1 h2
      rw [aget_aset] at h1 h2
      by_cases e1 : o1 = o <;> by_cases e2 : o2 = o
      · rw [e1, e2]
      · simp only [e1, if_true, e2, if_false] at h1 h2
        cases h1
        exact absurd (h.bound o2 _ h2) (Nat.lt_irrefl _)
      · simp only [e1, if_false, e2, if_true] at h1 h2
        cases h2
        exact absurd (h.bound o1 _ h1) (Nat.lt_irrefl _)
      · simp only [e1, e2, if_false] at h1 h2
        exact h.inj o1 o2 id h1 h2
    · intro o1 id h1
      simp only at h1 ⊢
      rw [aget_aset] at h1
      by_cases e1 : o1 = o
      · simp only [e1, if_true] at h1; cases h1; exact Nat.lt_succ_self _
      · simp only [e1, if_false] at h1; exact Nat.lt_succ_of_lt (h.bound o1 id h1)
    · intro o1 id h1
      simp only at h1 ⊢
      rw [aget_aset] at h1
      rw [aget_aset]
      by_cases e1 : o1 = o
      · simp only [e1, if_true] at h1; cases h1; simp
      · simp only [e1, if_false] at h1
        have hb := h.bound o1 id h1
        have : id ≠ d.propCount := Nat.ne_of_lt hb
        simp only [this, if_false]
        exact h.has o1 id h1
    · simp only; exact aget_aset_self _ _ _
    · intro o'
      simp only [getProp]
      rw [aget_aset]
      by_cases e : o' = o
      · subst e
        simp only [if_true, Option.bind_some, ho, Option.bind_none, Option.getD_none]
        rw [aget_aset_self]
      · simp only [e, if_false]
        cases h1 : aget d.propOwners o' with
        | none => rfl
        | some id =>
          simp only [Option.bind_some]
          have hb := h.bound o' id h1
          rw [aget_aset_ne _ _ _ _ (Nat.ne_of_lt hb)]

theorem apply_prop_spec (d : Db) (h : PI d) (f : File) (m : Mut) :
    PI (apply d f m) ∧ ∀ o, getProp (apply d f m) o = propStep o (getProp d o) (f, m) := by
  cases m with
  | perFile a v => exact ⟨⟨h.inj, h.bound, h.has⟩, fun o => rfl⟩
  | keyed a b v => exact ⟨⟨h.inj, h.bound, h.has⟩, fun o => rfl⟩
  | nested a b v => exact ⟨⟨h.inj, h.bound, h.has⟩, fun o => rfl⟩
  | owned a b v => exact ⟨⟨h.inj, h.bound, h.has⟩, fun o => rfl⟩
  | prop o fld v =>
    obtain ⟨hpi, hown, hget, _⟩ := getOrCreate_spec d h o
    simp only [apply]
    generalize hr : getOrCreateProp d o = r at hpi hown hget
    obtain ⟨d1, id⟩ := r
    simp only at hpi hown hget ⊢
    have hhas := hpi.has o id hown
    refine ⟨⟨?_, ?_, ?_⟩, ?_⟩
    · exact hpi.inj
    · exact hpi.bound
    · intro o1 id1 h1
      simp only at h1 ⊢
      unfold aupdate
      cases hp : aget d1.props id with
      | none => exact hpi.has o1 id1 h1
      | some p =>
        simp only
        rw [aget_aset]
        split
        · rfl
        · exact hpi.has o1 id1 h1
    · intro o'
      simp only [getProp, propStep]
      unfold aupdate
      cases hp : aget d1.props id with
      | none => rw [hp] at hhas; cases hhas
      | some p =>
        simp only
        by_cases e : o = o'
        · subst e
          simp only [if_true, hown, Option.bind_some]
          rw [aget_aset_self]
          have := hget o
          simp only [if_true, getProp, hown, Option.bind_some, hp] at this
          have hp' : p = (getProp d o).getD [] := Option.some.inj this
          rw [hp']; rfl
        · simp only [e, if_false]
          have := hget o'
          have e' : ¬ o' = o := fun x => e x.symm
          simp only [e', if_false] at this
          rw [show (aget d.propOwners o').bind (aget d.props) = getProp d o' from rfl, ← this]
          simp only [getProp]
          cases h1 : aget d1.propOwners o' with
          | none => rfl
          | some id1 =>
            simp only [Option.bind_some]
            have hne : id1 ≠ id := by
              intro x; subst x
              exact e' (hpi.inj o' o id1 h1 hown)
            rw [aget_aset_ne _ _ _ _ hne]

theorem applyAll_prop_spec (ms : List FMut) (d : Db) (h : PI d) :
    PI (applyAll d ms) ∧ ∀ o, getProp (applyAll d ms) o = propFold ms o (getProp d o) := by
  induction ms generalizing d with
  | nil => exact ⟨h, fun o => rfl⟩
  | cons m r ih =>
    obtain ⟨h1, h2⟩ := apply_prop_spec d h m.1 m.2
    have hstep : applyAll d (m :: r) = applyAll (apply d m.1 m.2) r := rfl
    rw [hstep]
    obtain ⟨h3, h4⟩ := ih _ h1
    refine ⟨h3, fun o => ?_⟩
    rw [h4, h2]
    rfl

/-! ### `remove` -/

theorem dropOwner_spec (d : Db) (h : PI d) (o' : Owner) :
    PI (dropOwner d o') ∧ (∀ o, getProp (dropOwner d o') o = if o = o' then none else getProp d o) ∧
    (dropOwner d o').propInFile = d.propInFile := by
  unfold dropOwner
  cases ho : aget d.propOwners o' with
  | none =>
    dsimp only
    refine ⟨h, ?_, rfl⟩
    intro o
    by_cases e : o = o'
    · subst e; simp [getProp, ho]
    · simp [e]
  | some id' =>
    dsimp only
    refine ⟨⟨?_, ?_, ?_⟩, ?_, rfl⟩
    · intro o1 o2 id h1 h2
      simp only at h1 h2
      rw [aget_adel] at h1 h2
      split at h1
      · cases h1
      · split at h2
        · cases h2
        · exact h.inj o1 o2 id h1 h2
    · intro o1 id h1
      simp only at h1 ⊢
      rw [aget_adel] at h1
      split at h1
      · cases h1
      · exact h.bound o1 id h1
    · intro o1 id h1
      simp only at h1 ⊢
      rw [aget_adel] at h1
      split at h1
      · cases h1
      · next hne =>
        rw [aget_adel]
        have : id ≠ id' := by
          intro x; subst x
          exact hne (h.inj o1 o' id h1 ho)
        simp only [this, if_false]
        exact h.has o1 id h1
    · intro o
      simp only [getProp]
      rw [aget_adel]
      split
      · rfl
      · next hne =>
        cases h1 : aget d.propOwners o with
        | none => rfl
        | some id =>
          simp only [Option.bind_some]
          have : id ≠ id' := by
            intro x; subst x
            exact hne (h.inj o o' id h1 ho)
          rw [aget_adel]; simp [this]

theorem fold_dropOwner_spec (owners : List Owner) (d : Db) (h : PI d) :
    PI (owners.foldl dropOwner d) ∧ (∀ o, getProp (owners.foldl dropOwner d) o = if o ∈ owners then none else getProp d o) := by
  induction owners generalizing d with
  | nil => exact ⟨h, fun o => by simp⟩
  | cons o' r ih =>
    obtain ⟨h1, h2, _⟩ := dropOwner_spec d h o'
    simp only [List.foldl_cons]
    obtain ⟨h3, h4⟩ := ih _ h1
    refine ⟨h3, fun o => ?_⟩
    rw [h4, h2]
    by_cases e1 : o ∈ r
    · simp [e1]
    · by_cases e2 : o = o'
      · subst e2; simp
      · simp [e1, e2]

theorem remove_prop_spec (d : Db) (h : PI d) (f : File) :
    PI (remove d f) ∧ ∀ o, getProp (remove d f) o = if o ∈ agetL d.propInFile f then none else getProp d o := by
  have key : PI (removeProps d f) ∧ ∀ o, getProp (removeProps d f) o = if o ∈ agetL d.propInFile f then none else getProp d o := by
    unfold removeProps
    cases hi : aget d.propInFile f with
    | none => exact ⟨h, fun o => by simp [agetL, hi]⟩
    | some owners =>
      simp only
      have hpi : PI { d with propInFile := adel d.propInFile f } := ⟨h.inj, h.bound, h.has⟩
      obtain ⟨h1, h2⟩ := fold_dropOwner_spec owners _ hpi
      refine ⟨h1, fun o => ?_⟩
      rw [h2]
      simp [agetL, hi, getProp]
  obtain ⟨k1, k2⟩ := key
  exact ⟨⟨k1.inj, k1.bound, k1.has⟩, k2⟩

/-! ### which owners a file recorded -/

def writes (m : FMut) (o : Owner) : Bool :=
  match m.2 with
  | .prop o' _ _ => o' == o
  | _ => false

theorem mem_insertSet' (xs : List Nat) (x y : Nat) : y ∈ insertSet xs x ↔ y = x ∨ y ∈ xs := by
  unfold insertSet
  split
  · next h =>
    constructor
    · exact Or.inr
    · rintro (h1 | h1)
      · subst h1; exact h
      · exact h1
  · simp [or_comm]

theorem getOrCreateProp_propInFile (d : Db) (o : Owner) : (getOrCreateProp d o).1.propInFile = d.propInFile := by
  unfold getOrCreateProp; split <;> rfl

theorem apply_propInFile (d : Db) (g : File) (m : Mut) (f : File) (o : Owner) :
    o ∈ agetL (apply d g m).propInFile f ↔ (o ∈ agetL d.propInFile f ∨ (g = f ∧ writes (g, m) o = true)) := by
  cases m with
  | perFile a v => simp [apply, writes]
  | keyed a b v => simp [apply, writes]
  | nested a b v => simp [apply, writes]
  | owned a b v => simp [apply, writes]
  | prop o' fld v =>
    simp only [apply, writes]
    rw [agetL_aset, getOrCreateProp_propInFile]
    by_cases e : f = g
    · subst e
      simp only [if_true, true_and]
      rw [mem_insertSet']
      constructor
      · rintro (h1 | h1)
        · exact Or.inr (by simp [h1])
        · exact Or.inl h1
      · rintro (h1 | h1)
        · exact Or.inr h1
        · exact Or.inl (by have := h1; simp only [beq_iff_eq] at this; exact this.symm)
    · have e' : ¬ g = f := fun x => e x.symm
      simp [e, e']

theorem applyAll_propInFile (ms : List FMut) (d : Db) (f : File) (o : Owner) :
    o ∈ agetL (applyAll d ms).propInFile f ↔ (o ∈ agetL d.propInFile f ∨ ∃ m ∈ ms, m.1 = f ∧ writes m o = true) := by
  induction ms generalizing d with
  | nil => simp [applyAll]
  | cons m r ih =>
    have hstep : applyAll d (m :: r) = applyAll (apply d m.1 m.2) r := rfl
    rw [hstep, ih, apply_propInFile]
    constructor
    · rintro ((h1 | ⟨h1, h2⟩) | ⟨m', h1, h2⟩)
      · exact Or.inl h1
      · exact Or.inr ⟨m, List.mem_cons_self, h1, h2⟩
      · exact Or.inr ⟨m', List.mem_cons_of_mem _ h1, h2⟩
    · rintro (h1 | ⟨m', h1, h2⟩)
      · exact Or.inl (Or.inl h1)
      · rcases List.mem_cons.mp h1 with e | e
        · subst e; exact Or.inl (Or.inr h2)
        · exact Or.inr ⟨m', e, h2⟩

/-! ### folds that ignore irrelevant mutations -/

theorem propStep_irrelevant (o : Owner) (p : Option Prop') (m : FMut) (h : writes m o = false) : propStep o p m = p := by
  obtain ⟨g, mu⟩ := m
  cases mu with
  | prop o' fld v =>
    simp only [writes, beq_eq_false_iff_ne] at h
    simp [propStep, h]
  | _ => rfl

theorem propFold_no_writes (ms : List FMut) (o : Owner) (init : Option Prop') (h : ∀ m ∈ ms, writes m o = false) :
    propFold ms o init = init := by
  induction ms generalizing init with
  | nil => rfl
  | cons m r ih =>
    simp only [propFold, List.foldl_cons]
    rw [propStep_irrelevant o init m (h m List.mem_cons_self)]
    exact ih init (fun m' hm' => h m' (List.mem_cons_of_mem _ hm'))

theorem propFold_filter (ms : List FMut) (o : Owner) (init : Option Prop') (p : FMut → Bool)
    (h : ∀ m ∈ ms, p m = false → writes m o = false) :
    propFold (ms.filter p) o init = propFold ms o init := by
  induction ms generalizing init with
  | nil => rfl
  | cons m r ih =>
    rw [List.filter_cons]
    by_cases hp : p m = true
    · rw [if_pos hp]
      simp only [propFold, List.foldl_cons]
      exact ih _ (fun m' hm' => h m' (List.mem_cons_of_mem _ hm'))
    · rw [if_neg hp]
      simp only [propFold, List.foldl_cons]
      have : writes m o = false := h m List.mem_cons_self (by simpa using hp)
      rw [propStep_irrelevant o init m this]
      exact ih _ (fun m' hm' => h m' (List.mem_cons_of_mem _ hm'))

/-- every owner is documented by one file only -/
def privateOwners (ms : List FMut) : Bool :=
  ms.all fun m1 => ms.all fun m2 =>
    match m1.2, m2.2 with
    | .prop o1 _ _, .prop o2 _ _ => o1 != o2 || m1.1 == m2.1
    | _, _ => true

theorem privateOwners_spec (ms : List FMut) (h : privateOwners ms = true) (m1 m2 : FMut) (h1 : m1 ∈ ms) (h2 : m2 ∈ ms)
    (o : Owner) (w1 : writes m1 o = true) (w2 : writes m2 o = true) : m1.1 = m2.1 := by
  unfold privateOwners at h
  have := List.all_eq_true.mp (List.all_eq_true.mp h m1 h1) m2 h2
  obtain ⟨g1, mu1⟩ := m1
  obtain ⟨g2, mu2⟩ := m2
  cases mu1 <;> cases mu2 <;> simp_all [writes]

/-- **doc properties: `remove_exact`** for histories in which every owner is documented by one file only. -/
theorem prop_remove_exact (ms : List FMut) (f : File) (hp : privateOwners ms = true) (o : Owner) :
    getProp (remove (build ms) f) o = getProp (build (ms.filter fun m => m.1 ≠ f)) o := by
  have e : ∀ l : List FMut, build l = applyAll Db.new l := fun _ => rfl
  obtain ⟨hpi, hget⟩ := applyAll_prop_spec ms Db.new pi_new
  obtain ⟨_, hget'⟩ := applyAll_prop_spec (ms.filter fun m => m.1 ≠ f) Db.new pi_new
  rw [e, e, (remove_prop_spec _ hpi f).2, hget, hget']
  have hnone : getProp Db.new o = none := rfl
  rw [hnone]
  by_cases hw : o ∈ agetL (applyAll Db.new ms).propInFile f
  · simp only [hw, if_true]
    rw [applyAll_propInFile] at hw
    rcases hw with hw | ⟨m0, hm0, hf0, hw0⟩
    · simp [Db.new, agetL, aget] at hw
    · symm
      apply propFold_no_writes
      intro m hm
      have hm' := List.mem_filter.mp hm
      cases hwm : writes m o with
      | false => rfl
      | true =>
        have := privateOwners_spec ms hp m m0 hm'.1 hm0 o hwm hw0
        rw [hf0] at this
        simpa [this] using hm'.2
  · simp only [hw, if_false]
    symm
    apply propFold_filter
    intro m hm hpf
    cases hwm : writes m o with
    | false => rfl
    | true =>
      exfalso
      apply hw
      rw [applyAll_propInFile]
      exact Or.inr ⟨m, hm, by simpa using hpf, hwm⟩

theorem propFold_append (a b : List FMut) (o : Owner) (init : Option Prop') :
    propFold (a ++ b) o init = propFold b o (propFold a o init) := by
  simp [propFold, List.foldl_append]

/-- **doc properties: `update_exact`** under the same hypothesis. -/
theorem prop_update_exact (ms : List FMut) (f : File) (cs : List Mut) (hp : privateOwners ms = true) (o : Owner) :
    getProp (update (build ms) f cs) o =
      getProp (build ((ms.filter fun m => m.1 ≠ f) ++ cs.map fun m => (f, m))) o := by
  have e : ∀ l : List FMut, build l = applyAll Db.new l := fun _ => rfl
  obtain ⟨hpi, _⟩ := applyAll_prop_spec ms Db.new pi_new
  have hpr := (remove_prop_spec (applyAll Db.new ms) hpi f).1
  unfold update
  rw [(applyAll_prop_spec _ _ (by rw [e]; exact hpr)).2, prop_remove_exact ms f hp o]
  rw [e ((ms.filter fun m => m.1 ≠ f) ++ _), (applyAll_prop_spec _ Db.new pi_new).2, propFold_append]
  rw [e, (applyAll_prop_spec _ Db.new pi_new).2]

end Index.Db
