import EmmyVerif.Model.TyCheck
/-!
# `is_sub_type_of` finds every ancestor (completeness of the stack walk)
-/
namespace TyM

/-- direct super types as the walk sees them (`get_super_types_iter`) -/
def Env.sup (e : Env) (a : Name) : List Name := (e.supersIter a).getD []

/-- `b` is an ancestor of `a` through one or more super-type edges (cyclic edges already filtered) -/
inductive Reach (e : Env) : Name → Name → Prop
  | step {a b : Name} : b ∈ e.sup a → Reach e a b
  | trans {a b c : Name} : b ∈ e.sup a → Reach e b c → Reach e a c

theorem mem_nodupOf (l : List Name) (x : Name) : x ∈ nodupOf l ↔ x ∈ l := by
  induction l with
  | nil => simp [nodupOf]
  | cons y ys ih =>
    simp only [nodupOf]
    split
    · rename_i h
      rw [ih]; constructor
      · intro hx; exact List.mem_cons_of_mem _ hx
      · intro hx
        rcases List.mem_cons.mp hx with rfl | hx
        · exact (mem_nodupOf_aux ys x).mp h
        · exact hx
    · simp only [List.mem_cons, ih]
where
  mem_nodupOf_aux (l : List Name) (x : Name) : x ∈ nodupOf l ↔ x ∈ l := by
    induction l with
    | nil => simp [nodupOf]
    | cons y ys ih =>
      simp only [nodupOf]
      split
      · rename_i h
        rw [ih]; constructor
        · intro hx; exact List.mem_cons_of_mem _ hx
        · intro hx
          rcases List.mem_cons.mp hx with rfl | hx
          · exact ih.mp h
          · exact hx
      · simp only [List.mem_cons, ih]

theorem mem_without (x y : Name) (l : List Name) : y ∈ without x l ↔ y ∈ l ∧ y ≠ x := by
  induction l with
  | nil => simp [without]
  | cons z zs ih =>
    simp only [without]
    split
    · rename_i h; subst h
      rw [ih]; constructor
      · rintro ⟨h1, h2⟩; exact ⟨List.mem_cons_of_mem _ h1, h2⟩
      · rintro ⟨h1, h2⟩
        rcases List.mem_cons.mp h1 with h | h
        · exact absurd h h2
        · exact ⟨h, h2⟩
    · rename_i h
      simp only [List.mem_cons, ih]
      constructor
      · rintro (rfl | ⟨h1, h2⟩)
        · exact ⟨.inl rfl, h⟩
        · exact ⟨.inr h1, h2⟩
      · rintro ⟨h1 | h1, h2⟩
        · exact .inl h1
        · exact .inr ⟨h1, h2⟩

theorem length_without_le (x : Name) (l : List Name) : (without x l).length ≤ l.length := by
  induction l with
  | nil => simp [without]
  | cons z zs ih => simp only [without]; split <;> simp <;> omega

theorem length_without_lt (x : Name) (l : List Name) (h : x ∈ l) : (without x l).length + 1 ≤ l.length := by
  induction l with
  | nil => simp at h
  | cons z zs ih =>
    simp only [without]
    split
    · have := length_without_le x zs; simp; omega
    · rename_i hz
      have hx : x ∈ zs := by
        rcases List.mem_cons.mp h with h | h
        · exact absurd h.symm hz
        · exact h
      have := ih hx; simp; omega

theorem mem_withoutAll (rem fresh : List Name) (y : Name) :
    y ∈ withoutAll rem fresh ↔ y ∈ rem ∧ y ∉ fresh := by
  induction fresh with
  | nil => simp [withoutAll]
  | cons x xs ih =>
    simp only [withoutAll, mem_without, ih, List.mem_cons, not_or]
    constructor
    · rintro ⟨⟨h1, h2⟩, h3⟩; exact ⟨h1, h3, h2⟩
    · rintro ⟨h1, h3, h2⟩; exact ⟨⟨h1, h2⟩, h3⟩

theorem nodup_nodupOf (l : List Name) : (nodupOf l).Nodup := by
  induction l with
  | nil => simp [nodupOf]
  | cons y ys ih =>
    simp only [nodupOf]
    split
    · exact ih
    · rename_i h; exact List.nodup_cons.mpr ⟨h, ih⟩

/-- pushing the fresh names does not increase `|rem| + |stack|` -/
theorem fresh_measure (fresh rem : List Name) (hn : fresh.Nodup) (hs : ∀ x ∈ fresh, x ∈ rem) :
    (withoutAll rem fresh).length + fresh.length ≤ rem.length := by
  induction fresh with
  | nil => simp [withoutAll]
  | cons x xs ih =>
    rw [List.nodup_cons] at hn
    have ih' := ih hn.2 (fun y hy => hs y (List.mem_cons_of_mem _ hy))
    have hx : x ∈ withoutAll rem xs := (mem_withoutAll rem xs x).mpr ⟨hs x (List.mem_cons_self), hn.1⟩
    have := length_without_lt x _ hx
    simp only [withoutAll, List.length_cons]
    omega

/-- every direct super type is one of the names the walk may push -/
theorem sup_mem_superNames (e : Env) (x s : Name) (h : s ∈ e.sup x) : s ∈ e.superNames := by
  unfold Env.sup Env.supersIter Env.supersOf at h
  cases hf : e.find x with
  | none => simp [hf] at h
  | some d =>
    simp only [hf] at h
    by_cases hd : d.supers.isEmpty = true
    · simp [hd] at h
    · simp only [hd, Bool.false_eq_true, if_false, Option.map_some, Option.getD_some, List.mem_filter] at h
      have hmem : d ∈ e.decls := List.mem_of_find?_eq_some hf
      exact (mem_nodupOf _ s).mpr (List.mem_flatMap.mpr ⟨d, hmem, h.1⟩)

/-- `x` has been inserted into the visited set (`sub` initially; otherwise it left `rem`) -/
def Seen (e : Env) (sub : Name) (rem : List Name) (x : Name) : Prop :=
  x = sub ∨ (x ∈ e.superNames ∧ x ∉ rem)

theorem subTypeLoop_false (e : Env) (sub t : Name) :
    ∀ (fuel : Nat) (stack rem : List Name),
      (∀ x ∈ stack, Seen e sub rem x) →
      (∀ x, Seen e sub rem x → x ∉ stack → ∀ s ∈ e.sup x, Seen e sub rem s ∧ s ≠ t) →
      rem.length + stack.length + 1 ≤ fuel →
      subTypeLoop e t fuel stack rem = false →
      ∃ rem', (∀ x, Seen e sub rem x → Seen e sub rem' x) ∧
        (∀ x, Seen e sub rem' x → ∀ s ∈ e.sup x, Seen e sub rem' s ∧ s ≠ t) := by
  intro fuel
  induction fuel with
  | zero => intro stack rem _ _ hm; omega
  | succ f ih =>
    intro stack rem ha hb hm hres
    match stack with
    | [] => exact ⟨rem, fun _ h => h, fun x hx => hb x hx (by simp)⟩
    | cur :: stack =>
      simp only [subTypeLoop] at hres
      cases hsi : e.supersIter cur with
      | none =>
        simp only [hsi] at hres
        have hsup : e.sup cur = [] := by simp [Env.sup, hsi]
        refine ih stack rem (fun x hx => ha x (List.mem_cons_of_mem _ hx)) ?_ (by simp at hm; omega) hres
        intro x hx hns s hs
        by_cases hxc : x = cur
        · subst hxc; rw [hsup] at hs; simp at hs
        · exact hb x hx (by simp [hxc, hns]) s hs
      | some ss =>
        simp only [hsi] at hres
        have hsup : e.sup cur = ss := by simp [Env.sup, hsi]
        by_cases hct : ss.contains t = true
        · simp [hct] at hres
          exact absurd (by simpa using hct) hres.1
        · simp only [hct, Bool.false_eq_true, if_false] at hres
          have htss : t ∉ ss := by simpa using hct
          -- names
          generalize hfr : nodupOf (ss.filter (· ∈ rem)) = fresh at hres
          have hfmem : ∀ x, x ∈ fresh ↔ x ∈ ss ∧ x ∈ rem := by
            intro x; rw [← hfr, mem_nodupOf]; simp
          have hmono : ∀ x, Seen e sub rem x → Seen e sub (withoutAll rem fresh) x := by
            intro x hx
            rcases hx with h | ⟨h1, h2⟩
            · exact .inl h
            · exact .inr ⟨h1, fun hm' => h2 ((mem_withoutAll _ _ _).mp hm').1⟩
          have hfseen : ∀ x ∈ fresh, Seen e sub (withoutAll rem fresh) x := by
            intro x hx
            have := (hfmem x).mp hx
            exact .inr ⟨sup_mem_superNames e cur x (hsup ▸ this.1),
              fun hm' => ((mem_withoutAll _ _ _).mp hm').2 hx⟩
          have hnd : fresh.Nodup := hfr ▸ nodup_nodupOf _
          have hmeas := fresh_measure fresh rem hnd (fun x hx => ((hfmem x).mp hx).2)
          have hA : ∀ x ∈ fresh.reverse ++ stack, Seen e sub (withoutAll rem fresh) x := by
            intro x hx
            rcases List.mem_append.mp hx with hx | hx
            · exact hfseen x (List.mem_reverse.mp hx)
            · exact hmono x (ha x (List.mem_cons_of_mem _ hx))
          have hB : ∀ x, Seen e sub (withoutAll rem fresh) x → x ∉ fresh.reverse ++ stack →
              ∀ s ∈ e.sup x, Seen e sub (withoutAll rem fresh) s ∧ s ≠ t := by
            intro x hx hns s hs
            have hnf : x ∉ fresh := fun h => hns (List.mem_append.mpr (.inl (List.mem_reverse.mpr h)))
            have hnst : x ∉ stack := fun h => hns (List.mem_append.mpr (.inr h))
            -- `x` was already seen before this step
            have hold : Seen e sub rem x := by
              rcases hx with h | ⟨h1, h2⟩
              · exact .inl h
              · refine .inr ⟨h1, fun hr => h2 ((mem_withoutAll _ _ _).mpr ⟨hr, hnf⟩)⟩
            by_cases hxc : x = cur
            · subst hxc
              rw [hsup] at hs
              refine ⟨?_, fun hst => htss (hst ▸ hs)⟩
              by_cases hsr : s ∈ rem
              · exact hfseen s ((hfmem s).mpr ⟨hs, hsr⟩)
              · exact .inr ⟨sup_mem_superNames e x s (hsup ▸ hs),
                  fun hm' => hsr ((mem_withoutAll _ _ _).mp hm').1⟩
            · obtain ⟨q1, q2⟩ := hb x hold (by simp [hxc, hnst]) s hs
              exact ⟨hmono s q1, q2⟩
          have hC : (withoutAll rem fresh).length + (fresh.reverse ++ stack).length + 1 ≤ f := by
            simp only [List.length_append, List.length_reverse, List.length_cons] at hm ⊢
            omega
          obtain ⟨rem', h1, h2⟩ := ih (fresh.reverse ++ stack) (withoutAll rem fresh) hA hB hC hres
          exact ⟨rem', fun x hx => h1 x (hmono x hx), h2⟩

/-- a set closed under super types that contains no declaration with `t` as a direct super type
cannot reach `t` -/
theorem closed_no_reach (e : Env) (t : Name) (S : Name → Prop)
    (hcl : ∀ x, S x → ∀ s ∈ e.sup x, S s ∧ s ≠ t) (a b : Name) (ha : S a) (h : Reach e a b) :
    S b ∧ b ≠ t := by
  induction h with
  | step hb => exact hcl _ ha _ hb
  | trans hb _ ih => exact ih (hcl _ ha _ hb).1

/-- **completeness of `is_sub_type_of`.** Every declaration reachable through super-type edges is
found, for every graph (cycles included; `Reach` is over the edges `get_super_types_iter` yields). -/
theorem isSubTypeOf_of_reach (e : Env) (sub t : Name) (h : Reach e sub t) : isSubTypeOf e sub t = true := by
  unfold isSubTypeOf
  by_cases hst : sub = t
  · simp [hst]
  · simp only [hst, if_false]
    cases hres : subTypeLoop e t ((without sub e.superNames).length + 2) [sub] (without sub e.superNames) with
    | true => rfl
    | false =>
      exfalso
      obtain ⟨rem', h1, h2⟩ := subTypeLoop_false e sub t _ [sub] (without sub e.superNames)
        (by intro x hx; simp at hx; exact .inl hx)
        (by
          intro x hx hns
          exfalso
          rcases hx with h | ⟨hU, hr⟩
          · exact hns (by simp [h])
          · have hne : x ≠ sub := fun h => hns (by simp [h])
            exact hr ((mem_without sub x _).mpr ⟨hU, hne⟩))
        (by simp) hres
      exact (closed_no_reach e t (Seen e sub rem') h2 sub t (h1 sub (.inl rfl)) h).2 rfl

/-! ## declared edges: on an acyclic graph no super-type edge is filtered -/

/-- the super types as declared (`---@class a: b, c`) -/
def Env.rawSup (e : Env) (a : Name) : List Name := (e.supersOf a).getD []

inductive RawReach (e : Env) : Name → Name → Prop
  | step {a b : Name} : b ∈ e.rawSup a → RawReach e a b
  | trans {a b c : Name} : b ∈ e.rawSup a → RawReach e b c → RawReach e a c

def Acyclic (e : Env) : Prop := ∀ a, ¬ RawReach e a a

theorem superReaches_sound (e : Env) : ∀ f : Nat,
    (∀ cur t vis, (superReaches e f cur t vis).1 = true → cur = t ∨ RawReach e cur t) ∧
    (∀ ss t vis, (anyReaches e f ss t vis).1 = true → ∃ s ∈ ss, s = t ∨ RawReach e s t) := by
  intro f
  induction f with
  | zero => exact ⟨by intro cur t vis h; simp [superReaches] at h, by intro ss t vis h; simp [anyReaches] at h⟩
  | succ f ih =>
    obtain ⟨ih1, ih2⟩ := ih
    constructor
    · intro cur t vis h
      unfold superReaches at h
      by_cases hct : cur = t
      · exact .inl hct
      · simp only [hct, if_false] at h
        by_cases hv : cur ∈ vis
        · simp [hv] at h
        · simp only [hv, if_false] at h
          cases hs : e.supersOf cur with
          | none => simp [hs] at h
          | some ss =>
            simp only [hs] at h
            obtain ⟨s, hs1, hs2⟩ := ih2 ss t _ h
            have hraw : s ∈ e.rawSup cur := by simp [Env.rawSup, hs, hs1]
            rcases hs2 with rfl | hs2
            · exact .inr (.step hraw)
            · exact .inr (.trans hraw hs2)
    · intro ss t vis h
      match ss with
      | [] => simp [anyReaches] at h
      | s :: ss =>
        simp only [anyReaches] at h
        cases hr : superReaches e f s t vis with
        | mk b v =>
          cases b with
          | true => exact ⟨s, List.mem_cons_self, ih1 s t vis (by rw [hr])⟩
          | false =>
            simp only [hr] at h
            obtain ⟨s', h1, h2⟩ := ih2 ss t v h
            exact ⟨s', List.mem_cons_of_mem _ h1, h2⟩

theorem sup_eq_rawSup (e : Env) (hac : Acyclic e) (a : Name) : e.sup a = e.rawSup a := by
  unfold Env.sup Env.rawSup Env.supersIter
  cases hs : e.supersOf a with
  | none => rfl
  | some ss =>
    simp only [Option.map_some, Option.getD_some]
    apply List.filter_eq_self.mpr
    intro s hs'
    have hraw : s ∈ e.rawSup a := by simp [Env.rawSup, hs, hs']
    cases hr : (superReaches e e.walkFuel s a []).1 with
    | false => rfl
    | true =>
      exfalso
      rcases (superReaches_sound e e.walkFuel).1 s a [] hr with rfl | h
      · exact hac s (.step hraw)
      · exact hac a (.trans hraw h)

theorem reach_of_rawReach (e : Env) (hac : Acyclic e) (a b : Name) (h : RawReach e a b) : Reach e a b := by
  induction h with
  | step hb => exact .step (by rw [sup_eq_rawSup e hac]; exact hb)
  | trans hb _ ih => exact .trans (by rw [sup_eq_rawSup e hac]; exact hb) ih

end TyM
