import EmmyVerif.Model.IndexSym
import EmmyVerif.Lemmas.IndexDb
/-! `Index.Sym` (type / operator / metatable / member indexes): `clear` bridge, metatable and member-map removal. -/
namespace Index.Sym
open Index

theorem clear_eq_new (s : S) : clear s = S.new := by
  have h01 : survivesClear (some ("types_index", "file_namespace")) = false := by decide
  have h02 : survivesClear (some ("types_index", "file_using_namespace")) = false := by decide
  have h03 : survivesClear (some ("types_index", "file_types")) = false := by decide
  have h04 : survivesClear (some ("types_index", "full_name_type_map")) = false := by decide
  have h05 : survivesClear (some ("types_index", "generic_params")) = false := by decide
  have h06 : survivesClear (some ("types_index", "supers")) = false := by decide
  have h07 : survivesClear (some ("types_index", "types")) = false := by decide
  have h08 : survivesClear (some ("types_index", "in_filed_type_owner")) = false := by decide
  have h09 : survivesClear (some ("types_index", "global_name_type_map")) = false := by decide
  have h10 : survivesClear (some ("operator_index", "operators")) = false := by decide
  have h11 : survivesClear (some ("operator_index", "type_operators_map")) = false := by decide
  have h12 : survivesClear (some ("operator_index", "in_filed_operator_map")) = false := by decide
  have h13 : survivesClear (some ("metatable_index", "metatables")) = false := by decide
  have h14 : survivesClear (some ("members_index", "members")) = false := by decide
  have h15 : survivesClear (some ("members_index", "in_filed")) = false := by decide
  have h16 : survivesClear (some ("members_index", "owner_members")) = false := by decide
  have h17 : survivesClear (some ("members_index", "member_current_owner")) = false := by decide
  simp [clear, S.new, h01, h02, h03, h04, h05, h06, h07, h08, h09, h10, h11, h12, h13, h14, h15, h16, h17]

/-! ### metatables -/

theorem metatables_remove (s : S) (f : File) (k : File × Nat) :
    aget (remove s f).metatables k = if k.1 = f then none else aget s.metatables k := by
  have h : (remove s f).metatables =
      (removeOperators (removeMembers (removeTypes s f) f) f).metatables.filter fun e => e.1.1 ≠ f := rfl
  rw [h]
  have hop : ∀ (t : S) (ids : List (File × Nat)), (ids.foldl removeOperatorId t).metatables = t.metatables := by
    intro t ids
    induction ids generalizing t with
    | nil => rfl
    | cons i r ih =>
      simp only [List.foldl_cons]; rw [ih]
      unfold removeOperatorId
      split
      · rfl
      · dsimp only
        split
        · rfl
        · split <;> rfl
  have h1 : ∀ t : S, (removeOperators t f).metatables = t.metatables := by
    intro t; unfold removeOperators; split
    · rfl
    · rw [hop]
  have hfo : ∀ (t : S) (os : List MOwner), (os.foldl (removeFromOwner f) t).metatables = t.metatables := by
    intro t os
    induction os generalizing t with
    | nil => rfl
    | cons o r ih =>
      simp only [List.foldl_cons]; rw [ih]
      unfold removeFromOwner; split <;> rfl
  have hfm : ∀ (t : S) (items : List InFiledItem), (items.foldl dropMemberItem t).metatables = t.metatables := by
    intro t items
    induction items generalizing t with
    | nil => rfl
    | cons i r ih =>
      simp only [List.foldl_cons]; rw [ih]
      cases i <;> rfl
  have h2 : ∀ t : S, (removeMembers t f).metatables = t.metatables := by
    intro t; unfold removeMembers; split
    · rfl
    · rw [hfo, hfm]
  have hti : ∀ (t : S) (ids : List TId), (ids.foldl (removeTypeId f) t).metatables = t.metatables := by
    intro t ids
    induction ids generalizing t with
    | nil => rfl
    | cons i r ih => simp only [List.foldl_cons]; rw [ih]; rfl
  have h3 : ∀ t : S, (removeTypes t f).metatables = t.metatables := by
    intro t; unfold removeTypes
    simp only
    split <;> split <;> simp [hti]
  rw [h1, h2, h3]
  have := aget_filter_key s.metatables (fun k : File × Nat => decide (k.1 ≠ f)) k
  simp only [decide_not, Bool.not_eq_eq_eq_not, Bool.not_true, decide_eq_false_iff_not] at this
  rw [show (s.metatables.filter fun e => decide (e.1.1 ≠ f)) = s.metatables.filter fun e => !decide (e.1.1 = f) from by simp]
  rw [this]
  by_cases hk : k.1 = f <;> simp [hk]

/-! ### witnesses on the member index (decide) -/

/-- file 0 defines member (0,1) under the table `e0_0`; file 1 re-owns it to class `T1`
(`set_member_owner` + `add_member_to_owner`, what `merge_def_type_with_table` does) -/
def reownHistory : List Mut :=
  [.madd (.elem 0 0) { id := (0, 1), key := 2, feat := 1 },
   .mset (.type 1) 0 (0, 1), .mto (.type 1) (0, 1)]

end Index.Sym
