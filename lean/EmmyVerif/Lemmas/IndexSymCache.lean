import EmmyVerif.Lemmas.IndexSymUpdate
/-! `Index.Sym`, type cache (`LuaTypeIndex::types` / `in_filed_type_owner`): after `remove f` no cached type of an owner in
`f` is left and every other owner's cached type is unchanged — what the other files' `bind_type` calls build
(the first binding of an owner wins). -/
namespace Index.Sym
open Index

def bindVal (m : Mut) (k : File × Nat) : Option Nat :=
  match m with
  | .tbind f pos v => if (f, pos) = k then some v else none
  | _ => none

/-- the first value bound to owner `k` -/
def cacheFirst (ms : List Mut) (k : File × Nat) (init : Option Nat) : Option Nat :=
  ms.foldl (fun acc m => acc.or (bindVal m k)) init

def bindMutFile : Mut → Option File
  | .tbind f _ _ => some f
  | _ => none

theorem addMemberToOwner_cache (s : S) (o : MOwner) (id : MId) :
    (addMemberToOwner s o id).typeCache = s.typeCache ∧ (addMemberToOwner s o id).inFiledTypeOwner = s.inFiledTypeOwner := by
  unfold addMemberToOwner
  split
  · exact ⟨rfl, rfl⟩
  · dsimp only
    repeat' split
    all_goals exact ⟨rfl, rfl⟩

theorem addMember_cache (s : S) (o : MOwner) (m : Member) :
    (addMember s o m).typeCache = s.typeCache ∧ (addMember s o m).inFiledTypeOwner = s.inFiledTypeOwner := by
  unfold addMember
  dsimp only
  split
  · exact ⟨rfl, rfl⟩
  · exact addMemberToOwner_cache _ o m.id

theorem apply_cache (s : S) (m : Mut) (k : File × Nat) :
    aget (apply s m).typeCache k = (aget s.typeCache k).or (bindVal m k) := by
  cases m with
  | tbind f pos v =>
    simp only [apply, bindType, bindVal]
    by_cases hk : (f, pos) = k
    · subst hk
      cases hc : aget s.typeCache (f, pos) with
      | some x => simp [hc]
      | none => simp [hc, aget_aset_self]
    · simp only [hk, if_false, Option.or_none]
      split
      · rfl
      · simp only
        exact aget_aset_ne _ _ _ _ (fun e => hk e.symm)
  | tdecl f t pos => simp [apply, addTypeDecl, bindVal]
  | tsuper f t v => simp [apply, addSuper, bindVal]
  | tgeneric t v => simp [apply, addGeneric, bindVal]
  | tns f v => simp [apply, bindVal]
  | tusing f v => simp [apply, bindVal]
  | oper f p o op => simp [apply, addOperator, bindVal]
  | mtable f k' v => simp [apply, bindVal]
  | madd o mem => simp only [apply, bindVal]; rw [(addMember_cache s o mem).1]; simp
  | mset o f i => simp [apply, setMemberOwner, addInFile, bindVal]
  | mto o i => simp only [apply, bindVal]; rw [(addMemberToOwner_cache s o i).1]; simp

theorem cache_fold (ms : List Mut) (s : S) (k : File × Nat) :
    aget (ms.foldl apply s).typeCache k = cacheFirst ms k (aget s.typeCache k) := by
  induction ms generalizing s with
  | nil => rfl
  | cons m r ih =>
    simp only [List.foldl_cons, cacheFirst]
    rw [ih, apply_cache]
    rfl

structure CacheListed (s : S) : Prop where
  listed : ∀ k : File × Nat, (aget s.typeCache k).isSome = true → k ∈ agetL s.inFiledTypeOwner k.1
  own : ∀ (g : File) (k : File × Nat), k ∈ agetL s.inFiledTypeOwner g → k.1 = g

theorem apply_cacheListed (s : S) (m : Mut) (h : CacheListed s) : CacheListed (apply s m) := by
  cases m with
  | tbind f pos v =>
    simp only [apply, bindType]
    split
    · exact h
    · next hn =>
      refine ⟨?_, ?_⟩
      · intro k hk
        simp only at hk ⊢
        rw [aget_aset] at hk
        rw [agetL_aset]
        by_cases e : k = (f, pos)
        · subst e; simp only [if_true]; exact (mem_insertD _ _ _).mpr (Or.inl rfl)
        · simp only [e, if_false] at hk
          have := h.listed k hk
          split
          · next e2 => rw [e2] at this; exact (mem_insertD _ _ _).mpr (Or.inr this)
          · exact this
      · intro g k hk
        simp only at hk
        rw [agetL_aset] at hk
        split at hk
        · next e =>
          rcases (mem_insertD _ _ _).mp hk with h1 | h1
          · rw [h1, e]
          · subst e; exact h.own _ k h1
        · exact h.own g k hk
  | madd o mem =>
    refine ⟨?_, ?_⟩
    · intro k hk
      simp only [apply] at hk ⊢
      rw [(addMember_cache s o mem).1] at hk
      rw [(addMember_cache s o mem).2]
      exact h.listed k hk
    · intro g k hk
      simp only [apply] at hk
      rw [(addMember_cache s o mem).2] at hk
      exact h.own g k hk
  | mto o i =>
    refine ⟨?_, ?_⟩
    · intro k hk
      simp only [apply] at hk ⊢
      rw [(addMemberToOwner_cache s o i).1] at hk
      rw [(addMemberToOwner_cache s o i).2]
      exact h.listed k hk
    · intro g k hk
      simp only [apply] at hk
      rw [(addMemberToOwner_cache s o i).2] at hk
      exact h.own g k hk
  | tdecl f t pos => exact ⟨h.listed, h.own⟩
  | tsuper f t v => exact ⟨h.listed, h.own⟩
  | tgeneric t v => exact ⟨h.listed, h.own⟩
  | tns f v => exact ⟨h.listed, h.own⟩
  | tusing f v => exact ⟨h.listed, h.own⟩
  | oper f p o op => exact ⟨h.listed, h.own⟩
  | mtable f k v => exact ⟨h.listed, h.own⟩
  | mset o f i => exact ⟨h.listed, h.own⟩

theorem build_cacheListed (ms : List Mut) : CacheListed (build ms) := by
  unfold build
  suffices ∀ s, CacheListed s → CacheListed (ms.foldl apply s) from
    this S.new ⟨by intro k hk; simp [S.new, aget] at hk, by intro g k hk; simp [S.new, agetL, aget] at hk⟩
  induction ms with
  | nil => intro s h; exact h
  | cons m r ih => intro s h; exact ih _ (apply_cacheListed s m h)

theorem aget_fold_adel_mem {κ α : Type} [DecidableEq κ] (ks : List κ) (m : List (κ × α)) (k : κ) (h : k ∈ ks) :
    aget (ks.foldl (fun m o => adel m o) m) k = none := by
  induction ks generalizing m with
  | nil => cases h
  | cons a r ih =>
    simp only [List.foldl_cons]
    by_cases h1 : k ∈ r
    · exact ih _ h1
    · have : k = a := by
        rcases List.mem_cons.mp h with e | e
        · exact e
        · exact absurd e h1
      subst this
      have keep : ∀ (l : List κ) (m' : List (κ × α)), aget m' k = none → aget (l.foldl (fun m o => adel m o) m') k = none := by
        intro l
        induction l with
        | nil => intro m' hm; exact hm
        | cons b t iht =>
          intro m' hm
          simp only [List.foldl_cons]
          apply iht
          rw [aget_adel]; split
          · rfl
          · exact hm
      apply keep
      rw [aget_adel]; simp

theorem aget_fold_adel_not_mem {κ α : Type} [DecidableEq κ] (ks : List κ) (m : List (κ × α)) (k : κ) (h : k ∉ ks) :
    aget (ks.foldl (fun m o => adel m o) m) k = aget m k := by
  induction ks generalizing m with
  | nil => rfl
  | cons a r ih =>
    simp only [List.foldl_cons]
    rw [ih _ (fun e => h (List.mem_cons_of_mem _ e)), aget_adel]
    have : k ≠ a := fun e => h (by rw [e]; exact List.mem_cons_self)
    simp [this]

theorem aget_remove_cache (s : S) (f : File) (k : File × Nat) :
    aget (remove s f).typeCache k = if k ∈ agetL s.inFiledTypeOwner f then none else aget s.typeCache k := by
  have hop : ∀ (t : S) (ids : List (File × Nat)), (ids.foldl removeOperatorId t).typeCache = t.typeCache := by
    intro t ids
    induction ids generalizing t with
    | nil => rfl
    | cons i r ih =>
      simp only [List.foldl_cons]; rw [ih]
      unfold removeOperatorId
      split
      · rfl
      · dsimp only
        split
        · rfl
        · split <;> rfl
  have h1 : ∀ t : S, (removeOperators t f).typeCache = t.typeCache := by
    intro t; unfold removeOperators; split
    · rfl
    · rw [hop]
  have hfo : ∀ (t : S) (os : List MOwner), (os.foldl (removeFromOwner f) t).typeCache = t.typeCache := by
    intro t os
    induction os generalizing t with
    | nil => rfl
    | cons o r ih =>
      simp only [List.foldl_cons]; rw [ih]
      unfold removeFromOwner; split <;> rfl
  have hfm : ∀ (t : S) (items : List InFiledItem), (items.foldl dropMemberItem t).typeCache = t.typeCache := by
    intro t items
    induction items generalizing t with
    | nil => rfl
    | cons i r ih =>
      simp only [List.foldl_cons]; rw [ih]
      cases i <;> rfl
  have h2 : ∀ t : S, (removeMembers t f).typeCache = t.typeCache := by
    intro t; unfold removeMembers; split
    · rfl
    · rw [hfo, hfm]
  have hti : ∀ (t : S) (ids : List TId), (ids.foldl (removeTypeId f) t).typeCache = t.typeCache ∧ (ids.foldl (removeTypeId f) t).inFiledTypeOwner = t.inFiledTypeOwner := by
    intro t ids
    induction ids generalizing t with
    | nil => exact ⟨rfl, rfl⟩
    | cons i r ih => simp only [List.foldl_cons]; rw [(ih _).1, (ih _).2]; exact ⟨rfl, rfl⟩
  have hr : (remove s f).typeCache = (removeOperators (removeMembers (removeTypes s f) f) f).typeCache := rfl
  rw [hr, h1, h2]
  unfold removeTypes
  dsimp only
  cases hft : aget s.fileTypes f with
  | none =>
    simp only
    cases hi : aget s.inFiledTypeOwner f with
    | none => simp [agetL, hi]
    | some owners =>
      simp only [agetL, hi, Option.getD_some]
      split
      · next hin => exact aget_fold_adel_mem owners _ k hin
      · next hin => exact aget_fold_adel_not_mem owners _ k hin
  | some ids =>
    simp only
    rw [(hti _ ids).2]
    simp only
    cases hi : aget s.inFiledTypeOwner f with
    | none => simp only [agetL, hi, Option.getD_none, List.not_mem_nil, if_false]; rw [(hti _ ids).1]
    | some owners =>
      simp only [agetL, hi, Option.getD_some]
      split
      · next hin => exact aget_fold_adel_mem owners _ k hin
      · next hin => rw [aget_fold_adel_not_mem owners _ k hin, (hti _ ids).1]

theorem bindVal_file {m : Mut} {k : File × Nat} {x : Nat} (h : bindVal m k = some x) : bindMutFile m = some k.1 := by
  cases m with
  | tbind f pos v =>
    simp only [bindVal] at h
    split at h
    · next e => subst e; rfl
    · cases h
  | _ => cases h

theorem cacheFirst_filter (ms : List Mut) (f : File) (k : File × Nat) (init : Option Nat) :
    cacheFirst (ms.filter fun m => bindMutFile m ≠ some f) k init = if k.1 = f then init else cacheFirst ms k init := by
  unfold cacheFirst
  induction ms generalizing init with
  | nil => simp
  | cons m r ih =>
    rw [List.filter_cons]
    by_cases hg : bindMutFile m = some f
    · rw [if_neg (by simpa using hg), ih]
      split
      · rfl
      · next hk =>
        simp only [List.foldl_cons]
        cases hv : bindVal m k with
        | none => simp
        | some v =>
          have := bindVal_file hv
          rw [hg] at this
          exact absurd (Option.some.inj this).symm hk
    · rw [if_pos (by simpa using hg)]
      simp only [List.foldl_cons]
      rw [ih]
      split
      · next hk =>
        cases hv : bindVal m k with
        | none => simp
        | some v =>
          have := bindVal_file hv
          rw [hk] at this
          exact absurd this hg
      · rfl

/-- **type cache: `remove_exact`.** -/
theorem cache_remove_exact (ms : List Mut) (f : File) (k : File × Nat) :
    aget (remove (build ms) f).typeCache k = aget (build (ms.filter fun m => bindMutFile m ≠ some f)).typeCache k := by
  rw [aget_remove_cache]
  have e : ∀ l : List Mut, aget (build l).typeCache k = cacheFirst l k none := by
    intro l; unfold build; rw [cache_fold]; rfl
  rw [e, e, cacheFirst_filter]
  have hl := build_cacheListed ms
  by_cases hk : k.1 = f
  · simp only [hk, if_true]
    split
    · rfl
    · next hne =>
      cases hs : cacheFirst ms k none with
      | none => rfl
      | some v =>
        exfalso
        apply hne
        have := hl.listed k (by rw [e, hs]; rfl)
        rw [hk] at this
        exact this
  · simp only [hk, if_false]
    split
    · next hin => exact absurd (hl.own f k hin) hk
    · rfl

end Index.Sym
