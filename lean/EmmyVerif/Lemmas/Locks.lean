import EmmyVerif.Model.Locks
/-!
# Lemmas for the `Locks` family (C28)

`Inv` ties the dynamic state to the static discipline; `progress` (lifted from the design spike A.2):
if no task can move by itself, the highest-ranked lock with a non-empty queue can grant;
`inv_exec`: every step preserves `Inv`; `measure_exec`: every step decreases `measure`.
-/
namespace Locks

/-- Invariant tying the dynamic state to the discipline. -/
structure Inv (need : Nat → List Nat) (s : St) : Prop where
  /-- each task's remaining program is disciplined w.r.t. what it holds -/
  disc : ∀ (i : Nat) (t : Task), s.tasks[i]? = some t → Disciplined need t.held t.rest
  /-- the remaining actions respect the `need` table (acquisitions listed, waits only for later tasks whose
  needs are inherited) -/
  wf : ∀ (i : Nat) (t : Task), s.tasks[i]? = some t → ∀ a ∈ t.rest, actWF need i a = true
  /-- a waiting task is at an acquire and sits in that lock's queue -/
  waitQ : ∀ (i : Nat) (t : Task), s.tasks[i]? = some t → t.waiting = true →
            ∃ l m rest, t.rest = .acq l m :: rest ∧ (i, m) ∈ (s.locks l).queue
  /-- queue entries are waiting tasks at that acquire -/
  qWait : ∀ (l i : Nat) (m : Mode), (i, m) ∈ (s.locks l).queue →
            ∃ (t : Task) (rest : Prog), s.tasks[i]? = some t ∧ t.waiting = true ∧ t.rest = .acq l m :: rest
  /-- a task is queued at most once -/
  qNodup : ∀ l, (s.locks l).queue.Nodup
  /-- holders really hold the lock -/
  holds : ∀ (l i : Nat) (m : Mode), (i, m) ∈ (s.locks l).holders → ∃ t : Task, s.tasks[i]? = some t ∧ l ∈ t.held
  /-- a writer holder is alone; readers never coexist with a writer -/
  excl : ∀ l, compatible (s.locks l).holders .r = true ∨ ∃ i, (s.locks l).holders = [(i, .w)]
  /-- only finitely many locks are in use: all queues/holders live below `bound` -/
  bound : ∃ b, ∀ l, b ≤ l → (s.locks l).queue = [] ∧ (s.locks l).holders = []

theorem disciplined_held_nonempty_not_done {need : Nat → List Nat} {held : List Nat} {p : Prog}
    (h : Disciplined need held p) (hne : held ≠ []) : p ≠ [] := by
  intro hp; subst hp; simp [Disciplined] at h; exact hne h

theorem taskDone_false {ts : List Task} {k : Nat} (h : taskDone ts k = false) :
    ∃ t, ts[k]? = some t ∧ t.rest ≠ [] := by
  unfold taskDone at h
  cases hk : ts[k]? with
  | none => rw [hk] at h; cases h
  | some t => rw [hk] at h; exact ⟨t, rfl, by intro e; simp [e] at h⟩

theorem all_false_exists {α} {f : α → Bool} {l : List α} (h : l.all f = false) : ∃ k ∈ l, f k = false := by
  induction l with
  | nil => simp at h
  | cons x xs ih =>
    simp only [List.all_cons, Bool.and_eq_false_iff] at h
    rcases h with h | h
    · exact ⟨x, by simp, h⟩
    · obtain ⟨k, hk, hf⟩ := ih h; exact ⟨k, by simp [hk], hf⟩

/-- if no task can move by itself, every unfinished task (transitively, through the tasks it waits for) leads
to a non-empty lock queue among the locks it may need -/
theorem unfinished_needs_queue {need : Nat → List Nat} (s : St) (inv : Inv need s)
    (hself : ∀ t ∈ s.tasks, selfEnabled s.tasks t = false) :
    ∀ (n j : Nat) (t : Task), s.tasks.length - j ≤ n → s.tasks[j]? = some t → t.rest ≠ [] →
      ∃ l ∈ need j, (s.locks l).queue ≠ [] := by
  intro n
  induction n with
  | zero =>
    intro j t hn hj _
    have : j < s.tasks.length := by
      apply Classical.byContradiction; intro hge
      have : s.tasks[j]? = none := List.getElem?_eq_none (by omega)
      rw [this] at hj; cases hj
    omega
  | succ n ih =>
    intro j t hn hj hne
    have hs := hself t (List.mem_of_getElem? hj)
    cases hr : t.rest with
    | nil => exact absurd hr hne
    | cons a rest =>
      cases a with
      | rel l => simp [selfEnabled, hr] at hs
      | acq l m =>
        have hw : t.waiting = true := by simpa [selfEnabled, hr] using hs
        obtain ⟨l', m', rest', hr', hq⟩ := inv.waitQ j t hj hw
        rw [hr] at hr'; cases hr'
        have hwf := inv.wf j t hj (.acq l m) (by rw [hr]; simp)
        simp only [actWF, List.contains_iff_mem] at hwf
        exact ⟨l, hwf, by intro h; rw [h] at hq; simp at hq⟩
      | wait ts =>
        simp only [selfEnabled, hr] at hs
        obtain ⟨k, hk, hd⟩ := all_false_exists hs
        obtain ⟨tk, htk, hkne⟩ := taskDone_false hd
        have hwf := inv.wf j t hj (.wait ts) (by rw [hr]; simp)
        simp only [actWF, List.all_eq_true, Bool.and_eq_true, decide_eq_true_eq, List.contains_iff_mem] at hwf
        obtain ⟨hjk, hsub⟩ := hwf k hk
        have hklt : k < s.tasks.length := by
          apply Classical.byContradiction; intro hge
          have : s.tasks[k]? = none := List.getElem?_eq_none (by omega)
          rw [this] at htk; cases htk
        obtain ⟨l, hl, hq⟩ := ih k tk (by omega) htk hkne
        exact ⟨l, hsub l hl, hq⟩

/-- Key lemma: if no task can move by itself, the highest-ranked lock with a non-empty queue can
grant. -/
theorem progress {need : Nat → List Nat} (s : St) (inv : Inv need s) (hnf : ¬ finished s)
    (hself : ∀ t ∈ s.tasks, selfEnabled s.tasks t = false) :
    ∃ l, grantEnabled s l = true := by
  -- some task is unfinished, hence some queue is non-empty
  have hex : ∃ l, (s.locks l).queue ≠ [] := by
    have hnf' : ∃ t, ¬ (t ∈ s.tasks → t.rest = []) := Classical.not_forall.mp hnf
    obtain ⟨t, htr⟩ := hnf'
    have ht : t ∈ s.tasks := Classical.byContradiction fun h => htr (fun h' => absurd h' h)
    have hrest : t.rest ≠ [] := fun h => htr (fun _ => h)
    obtain ⟨i, hi⟩ := List.getElem?_of_mem ht
    obtain ⟨l, _, hq⟩ := unfinished_needs_queue s inv hself s.tasks.length i t (by omega) hi hrest
    exact ⟨l, hq⟩
  -- take the maximal such lock (exists because of `bound`)
  obtain ⟨b, hb⟩ := inv.bound
  have hmax : ∃ L, (s.locks L).queue ≠ [] ∧ ∀ l, L < l → (s.locks l).queue = [] := by
    obtain ⟨l0, hl0⟩ := hex
    have : ∀ n, (∀ l, b - n ≤ l → (s.locks l).queue = []) ∨
        ∃ L, (s.locks L).queue ≠ [] ∧ ∀ l, L < l → (s.locks l).queue = [] := by
      intro n
      induction n with
      | zero => left; intro l hl; exact (hb l (by omega)).1
      | succ n ih =>
        rcases ih with h | h
        · by_cases hq : (s.locks (b - (n+1))).queue = []
          · left; intro l hl
            by_cases he : l = b - (n+1)
            · subst he; exact hq
            · exact h l (by omega)
          · right; exact ⟨b - (n+1), hq, fun l hl => h l (by omega)⟩
        · right; exact h
    rcases this b with h | h
    · exact absurd (h l0 (by omega)) hl0
    · exact h
  obtain ⟨L, hLq, hLmax⟩ := hmax
  refine ⟨L, ?_⟩
  cases hq : (s.locks L).queue with
  | nil => exact absurd hq hLq
  | cons hd tl =>
    obtain ⟨i, m⟩ := hd
    simp only [grantEnabled, hq]
    -- suppose not compatible: then there is a holder j of L, who must be blocked on something above L
    apply Classical.byContradiction
    intro hnc
    have hholder : ∃ j mj, (j, mj) ∈ (s.locks L).holders := by
      cases hh : (s.locks L).holders with
      | nil => cases m <;> simp [compatible, hh] at hnc
      | cons x xs => exact ⟨x.1, x.2, by simp⟩
    obtain ⟨j, mj, hj⟩ := hholder
    obtain ⟨tj, htj, hheld⟩ := inv.holds L j mj hj
    have htjmem : tj ∈ s.tasks := List.mem_of_getElem? htj
    have hdisc := inv.disc j tj htj
    have hne : tj.rest ≠ [] := disciplined_held_nonempty_not_done hdisc (by intro h; rw [h] at hheld; simp at hheld)
    have hs := hself tj htjmem
    cases hr : tj.rest with
    | nil => exact hne hr
    | cons a rest =>
      cases a with
      | rel l => simp [selfEnabled, hr] at hs
      | acq l' m' =>
        have hw : tj.waiting = true := by simpa [selfEnabled, hr] using hs
        obtain ⟨l2, m2, rest2, hr2, hq2⟩ := inv.waitQ j tj htj hw
        rw [hr] at hr2
        injection hr2 with ha _
        injection ha with hl hm
        subst hl
        rw [hr] at hdisc
        have hlt : L < l' := by
          simp only [Disciplined] at hdisc
          exact hdisc.1 L hheld
        have := hLmax l' hlt
        rw [this] at hq2; simp at hq2
      | wait ts =>
        -- the holder waits for an unfinished task, which (transitively) waits in a queue above L
        simp only [selfEnabled, hr] at hs
        obtain ⟨k, hk, hd⟩ := all_false_exists hs
        obtain ⟨tk, htk, hkne⟩ := taskDone_false hd
        obtain ⟨l, hl, hql⟩ := unfinished_needs_queue s inv hself s.tasks.length k tk (by omega) htk hkne
        rw [hr] at hdisc
        have hlt : L < l := hdisc.1 k hk l hl L hheld
        exact hql (hLmax l hlt)

/-! ## Unpacking `exec` -/

theorem exec_req {s s' : St} {i : Nat} (h : exec s (.req i) = some s') :
    ∃ t l m rest, s.tasks[i]? = some t ∧ t.rest = .acq l m :: rest ∧ t.waiting = false ∧
      s' = { tasks := s.tasks.set i { t with waiting := true },
             locks := setLock s.locks l
               { holders := (s.locks l).holders, queue := (s.locks l).queue ++ [(i, m)] } } := by
  simp only [exec] at h
  split at h
  · rename_i t ht
    split at h
    · rename_i l m rest hr
      split at h
      · simp at h
      · rename_i hw
        exact ⟨t, l, m, rest, ht, hr, by simpa using hw, by simpa using h.symm⟩
    · simp at h
  · simp at h

theorem exec_grant {s s' : St} {l : Nat} (h : exec s (.grant l) = some s') :
    ∃ i m tl t l0 m0 rest, (s.locks l).queue = (i, m) :: tl ∧ compatible (s.locks l).holders m = true ∧
      s.tasks[i]? = some t ∧ t.rest = .acq l0 m0 :: rest ∧
      s' = { tasks := s.tasks.set i { rest := rest, held := l :: t.held, waiting := false },
             locks := setLock s.locks l
               { holders := (i, m) :: (s.locks l).holders, queue := tl } } := by
  simp only [exec] at h
  split at h
  · rename_i i m tl hq
    split at h
    · rename_i hc
      split at h
      · rename_i t ht
        split at h
        · rename_i l0 m0 rest hr
          exact ⟨i, m, tl, t, l0, m0, rest, hq, hc, ht, hr, by simpa using h.symm⟩
        · simp at h
      · simp at h
    · simp at h
  · simp at h

theorem exec_rel {s s' : St} {i : Nat} (h : exec s (.rel i) = some s') :
    ∃ t l rest, s.tasks[i]? = some t ∧ t.rest = .rel l :: rest ∧
      s' = { tasks := s.tasks.set i { rest := rest, held := t.held.erase l, waiting := false },
             locks := setLock s.locks l
               { holders := (s.locks l).holders.filter (fun h => h.1 != i),
                 queue := (s.locks l).queue } } := by
  simp only [exec] at h
  split at h
  · rename_i t ht
    split at h
    · rename_i l rest hr
      exact ⟨t, l, rest, ht, hr, by simpa using h.symm⟩
    · simp at h
  · simp at h

/-! ## Small facts about `set` and `setLock` -/

theorem get_set_self {ts : List Task} {i : Nat} {t t' : Task} (h : ts[i]? = some t) :
    (ts.set i t')[i]? = some t' := by
  have hi : i < ts.length := by
    apply Classical.byContradiction; intro hn
    have : ts[i]? = none := List.getElem?_eq_none (by omega)
    rw [this] at h; cases h
  simp [hi]

theorem get_set_ne {ts : List Task} {i j : Nat} {t' : Task} (h : i ≠ j) :
    (ts.set i t')[j]? = ts[j]? := by
  simp [h]

theorem setLock_self (f : Nat → LockSt) (l : Nat) (v : LockSt) : setLock f l v l = v := by
  simp [setLock]

theorem setLock_ne (f : Nat → LockSt) {l k : Nat} (v : LockSt) (h : k ≠ l) : setLock f l v k = f k := by
  simp [setLock, h]


theorem get_set_cases {ts : List Task} {i j : Nat} {t t' x : Task} (h : ts[i]? = some t)
    (hx : (ts.set i t')[j]? = some x) : (j = i ∧ x = t') ∨ (j ≠ i ∧ ts[j]? = some x) := by
  by_cases hji : j = i
  · subst hji
    rw [get_set_self h] at hx
    exact Or.inl ⟨rfl, (Option.some.inj hx).symm⟩
  · rw [get_set_ne (fun e => hji e.symm)] at hx
    exact Or.inr ⟨hji, hx⟩

/-! ## Every step preserves the invariant -/

theorem inv_req {need : Nat → List Nat} {s s' : St} {i : Nat} (inv : Inv need s) (h : exec s (.req i) = some s') :
    Inv need s' := by
  obtain ⟨t, l, m, rest, ht, hr, hw, rfl⟩ := exec_req h
  have hnotq : ∀ l2 m2, (i, m2) ∉ (s.locks l2).queue := by
    intro l2 m2 hq
    obtain ⟨t2, _, ht2, hw2, _⟩ := inv.qWait l2 i m2 hq
    rw [ht] at ht2; cases ht2; rw [hw] at hw2; cases hw2
  refine ⟨?_, ?_, ?_, ?_, ?_, ?_, ?_, ?_⟩
  · intro j x hx
    rcases get_set_cases ht hx with ⟨rfl, rfl⟩ | ⟨_, hx'⟩
    · exact inv.disc _ t ht
    · exact inv.disc j x hx'
  · intro j x hx
    rcases get_set_cases ht hx with ⟨rfl, rfl⟩ | ⟨_, hx'⟩
    · exact inv.wf _ t ht
    · exact inv.wf j x hx'
  · intro j x hx hwx
    rcases get_set_cases ht hx with ⟨rfl, rfl⟩ | ⟨_, hx'⟩
    · exact ⟨l, m, rest, hr, by simp [setLock]⟩
    · obtain ⟨l2, m2, rest2, hr2, hq2⟩ := inv.waitQ j x hx' hwx
      refine ⟨l2, m2, rest2, hr2, ?_⟩
      by_cases hl : l2 = l
      · subst hl; simp [setLock, hq2]
      · simp [setLock, hl, hq2]
  · intro l2 j mj hq
    by_cases hl : l2 = l
    · subst hl
      simp only [setLock_self, List.mem_append, List.mem_singleton] at hq
      rcases hq with hq | hq
      · obtain ⟨t2, rest2, ht2, hw2, hr2⟩ := inv.qWait l2 j mj hq
        have hji : j ≠ i := by
          intro e; subst e; exact hnotq l2 mj hq
        exact ⟨t2, rest2, by rw [get_set_ne (fun e => hji e.symm)]; exact ht2, hw2, hr2⟩
      · cases hq
        exact ⟨_, rest, get_set_self ht, rfl, hr⟩
    · simp only [setLock_ne _ _ hl] at hq
      obtain ⟨t2, rest2, ht2, hw2, hr2⟩ := inv.qWait l2 j mj hq
      have hji : j ≠ i := by
        intro e; subst e; exact hnotq l2 mj hq
      exact ⟨t2, rest2, by rw [get_set_ne (fun e => hji e.symm)]; exact ht2, hw2, hr2⟩
  · intro l2
    by_cases hl : l2 = l
    · subst hl
      simp only [setLock_self]
      rw [List.nodup_append]
      refine ⟨inv.qNodup l2, by simp, ?_⟩
      intro a ha b hb
      simp at hb; subst hb
      intro e; subst e; exact hnotq l2 m ha
    · simp only [setLock_ne _ _ hl]; exact inv.qNodup l2
  · intro l2 j mj hh
    have hh' : (j, mj) ∈ (s.locks l2).holders := by
      by_cases hl : l2 = l
      · subst hl; simpa [setLock] using hh
      · simpa [setLock, hl] using hh
    obtain ⟨tj, htj, hheld⟩ := inv.holds l2 j mj hh'
    by_cases hji : j = i
    · subst hji
      rw [ht] at htj; cases htj
      exact ⟨_, get_set_self ht, hheld⟩
    · exact ⟨tj, by rw [get_set_ne (fun e => hji e.symm)]; exact htj, hheld⟩
  · intro l2
    by_cases hl : l2 = l
    · subst hl; simpa [setLock] using inv.excl l2
    · simpa [setLock, hl] using inv.excl l2
  · obtain ⟨b, hb⟩ := inv.bound
    refine ⟨max b (l + 1), ?_⟩
    intro l2 hl2
    have hne : l2 ≠ l := by omega
    simp only [setLock_ne _ _ hne]
    exact hb l2 (by omega)


theorem inv_grant {need : Nat → List Nat} {s s' : St} {l : Nat} (inv : Inv need s) (h : exec s (.grant l) = some s') :
    Inv need s' := by
  obtain ⟨i, m, tl, t, l0, m0, rest, hq, hc, ht, hr, rfl⟩ := exec_grant h
  -- the head of the queue is task `i` waiting at `acq l m`
  obtain ⟨t0, rest0, ht0, _, hr0⟩ := inv.qWait l i m (by rw [hq]; simp)
  rw [ht] at ht0; cases ht0
  rw [hr] at hr0; cases hr0
  have hnd := inv.qNodup l
  rw [hq] at hnd
  have hnd' := List.nodup_cons.mp hnd
  have hnot_tl : ∀ m2, (i, m2) ∉ tl := by
    intro m2 hm
    obtain ⟨t2, rest2, ht2, _, hr2⟩ := inv.qWait l i m2 (by rw [hq]; exact List.mem_cons_of_mem _ hm)
    rw [ht] at ht2; cases ht2
    rw [hr] at hr2; cases hr2
    exact hnd'.1 hm
  have hnot_other : ∀ l2 m2, l2 ≠ l → (i, m2) ∉ (s.locks l2).queue := by
    intro l2 m2 hl hm
    obtain ⟨t2, rest2, ht2, _, hr2⟩ := inv.qWait l2 i m2 hm
    rw [ht] at ht2; cases ht2
    rw [hr] at hr2; cases hr2
    exact hl rfl
  have hdisc := inv.disc i t ht
  rw [hr] at hdisc
  refine ⟨?_, ?_, ?_, ?_, ?_, ?_, ?_, ?_⟩
  · intro j x hx
    rcases get_set_cases ht hx with ⟨rfl, rfl⟩ | ⟨_, hx'⟩
    · exact hdisc.2
    · exact inv.disc j x hx'
  · intro j x hx
    rcases get_set_cases ht hx with ⟨rfl, rfl⟩ | ⟨_, hx'⟩
    · intro a ha; exact inv.wf _ t ht a (by rw [hr]; exact List.mem_cons_of_mem _ ha)
    · exact inv.wf j x hx'
  · intro j x hx hwx
    rcases get_set_cases ht hx with ⟨rfl, rfl⟩ | ⟨hji, hx'⟩
    · cases hwx
    · obtain ⟨l2, m2, rest2, hr2, hq2⟩ := inv.waitQ j x hx' hwx
      refine ⟨l2, m2, rest2, hr2, ?_⟩
      by_cases hl : l2 = l
      · subst hl
        rw [hq] at hq2
        simp only [setLock_self]
        rcases List.mem_cons.mp hq2 with e | e
        · cases e; exact absurd rfl hji
        · exact e
      · simp only [setLock_ne _ _ hl]; exact hq2
  · intro l2 j mj hqj
    by_cases hl : l2 = l
    · subst hl
      simp only [setLock_self] at hqj
      obtain ⟨t2, rest2, ht2, hw2, hr2⟩ := inv.qWait l2 j mj (by rw [hq]; exact List.mem_cons_of_mem _ hqj)
      have hji : j ≠ i := by
        intro e; subst e; exact hnot_tl mj hqj
      exact ⟨t2, rest2, by rw [get_set_ne (fun e => hji e.symm)]; exact ht2, hw2, hr2⟩
    · simp only [setLock_ne _ _ hl] at hqj
      obtain ⟨t2, rest2, ht2, hw2, hr2⟩ := inv.qWait l2 j mj hqj
      have hji : j ≠ i := by
        intro e; subst e; exact hnot_other l2 mj hl hqj
      exact ⟨t2, rest2, by rw [get_set_ne (fun e => hji e.symm)]; exact ht2, hw2, hr2⟩
  · intro l2
    by_cases hl : l2 = l
    · subst hl; simp only [setLock_self]; exact hnd'.2
    · simp only [setLock_ne _ _ hl]; exact inv.qNodup l2
  · intro l2 j mj hh
    by_cases hl : l2 = l
    · subst hl
      simp only [setLock_self] at hh
      rcases List.mem_cons.mp hh with e | e
      · cases e
        exact ⟨_, get_set_self ht, by simp⟩
      · obtain ⟨tj, htj, hheld⟩ := inv.holds l2 j mj e
        by_cases hji : j = i
        · subst hji
          exact ⟨_, get_set_self ht, by simp⟩
        · exact ⟨tj, by rw [get_set_ne (fun e => hji e.symm)]; exact htj, hheld⟩
    · simp only [setLock_ne _ _ hl] at hh
      obtain ⟨tj, htj, hheld⟩ := inv.holds l2 j mj hh
      by_cases hji : j = i
      · subst hji
        rw [ht] at htj; cases htj
        exact ⟨_, get_set_self ht, List.mem_cons_of_mem _ hheld⟩
      · exact ⟨tj, by rw [get_set_ne (fun e => hji e.symm)]; exact htj, hheld⟩
  · intro l2
    by_cases hl : l2 = l
    · subst hl
      simp only [setLock_self]
      cases m with
      | w =>
        right
        have : (s.locks l2).holders = [] := by simpa [compatible] using hc
        exact ⟨i, by rw [this]⟩
      | r =>
        left
        simp only [compatible] at hc ⊢
        simp [hc]
    · simp only [setLock_ne _ _ hl]; exact inv.excl l2
  · obtain ⟨b, hb⟩ := inv.bound
    refine ⟨max b (l + 1), ?_⟩
    intro l2 hl2
    have hne : l2 ≠ l := by omega
    simp only [setLock_ne _ _ hne]
    exact hb l2 (by omega)

theorem inv_rel {need : Nat → List Nat} {s s' : St} {i : Nat} (inv : Inv need s) (h : exec s (.rel i) = some s') :
    Inv need s' := by
  obtain ⟨t, l, rest, ht, hr, rfl⟩ := exec_rel h
  have hw : t.waiting = false := by
    cases hwt : t.waiting with
    | false => rfl
    | true =>
      obtain ⟨l2, m2, rest2, hr2, _⟩ := inv.waitQ i t ht hwt
      rw [hr] at hr2; cases hr2
  have hnotq : ∀ l2 m2, (i, m2) ∉ (s.locks l2).queue := by
    intro l2 m2 hq
    obtain ⟨t2, _, ht2, hw2, _⟩ := inv.qWait l2 i m2 hq
    rw [ht] at ht2; cases ht2; rw [hw] at hw2; cases hw2
  have hdisc := inv.disc i t ht
  rw [hr] at hdisc
  have hqueue : ∀ l2, (setLock s.locks l
      { holders := (s.locks l).holders.filter (fun h => h.1 != i), queue := (s.locks l).queue } l2).queue
        = (s.locks l2).queue := by
    intro l2
    by_cases hl : l2 = l
    · subst hl; simp [setLock]
    · simp [setLock, hl]
  refine ⟨?_, ?_, ?_, ?_, ?_, ?_, ?_, ?_⟩
  · intro j x hx
    rcases get_set_cases ht hx with ⟨rfl, rfl⟩ | ⟨_, hx'⟩
    · exact hdisc.2
    · exact inv.disc j x hx'
  · intro j x hx
    rcases get_set_cases ht hx with ⟨rfl, rfl⟩ | ⟨_, hx'⟩
    · intro a ha; exact inv.wf _ t ht a (by rw [hr]; exact List.mem_cons_of_mem _ ha)
    · exact inv.wf j x hx'
  · intro j x hx hwx
    rcases get_set_cases ht hx with ⟨rfl, rfl⟩ | ⟨hji, hx'⟩
    · cases hwx
    · obtain ⟨l2, m2, rest2, hr2, hq2⟩ := inv.waitQ j x hx' hwx
      exact ⟨l2, m2, rest2, hr2, by simp only [hqueue]; exact hq2⟩
  · intro l2 j mj hqj
    simp only [hqueue] at hqj
    obtain ⟨t2, rest2, ht2, hw2, hr2⟩ := inv.qWait l2 j mj hqj
    have hji : j ≠ i := by
      intro e; subst e; exact hnotq l2 mj hqj
    exact ⟨t2, rest2, by rw [get_set_ne (fun e => hji e.symm)]; exact ht2, hw2, hr2⟩
  · intro l2
    simp only [hqueue]; exact inv.qNodup l2
  · intro l2 j mj hh
    by_cases hl : l2 = l
    · subst hl
      simp only [setLock_self, List.mem_filter] at hh
      obtain ⟨hmem, hne⟩ := hh
      have hji : j ≠ i := by simpa using hne
      obtain ⟨tj, htj, hheld⟩ := inv.holds l2 j mj hmem
      exact ⟨tj, by rw [get_set_ne (fun e => hji e.symm)]; exact htj, hheld⟩
    · simp only [setLock_ne _ _ hl] at hh
      obtain ⟨tj, htj, hheld⟩ := inv.holds l2 j mj hh
      by_cases hji : j = i
      · subst hji
        rw [ht] at htj; cases htj
        exact ⟨_, get_set_self ht, (List.mem_erase_of_ne hl).mpr hheld⟩
      · exact ⟨tj, by rw [get_set_ne (fun e => hji e.symm)]; exact htj, hheld⟩
  · intro l2
    by_cases hl : l2 = l
    · subst hl
      simp only [setLock_self]
      rcases inv.excl l2 with hc | ⟨k, hk⟩
      · left
        simp only [compatible, List.all_eq_true] at hc ⊢
        intro x hx
        exact hc x (List.mem_filter.mp hx).1
      · rw [hk]
        by_cases hki : k = i
        · left; subst hki; simp [compatible]
        · right; exact ⟨k, by simp [hki]⟩
    · simp only [setLock_ne _ _ hl]; exact inv.excl l2
  · obtain ⟨b, hb⟩ := inv.bound
    refine ⟨max b (l + 1), ?_⟩
    intro l2 hl2
    have hne : l2 ≠ l := by omega
    simp only [setLock_ne _ _ hne]
    exact hb l2 (by omega)

theorem exec_wait {s s' : St} {i : Nat} (h : exec s (.wait i) = some s') :
    ∃ t ts rest, s.tasks[i]? = some t ∧ t.rest = .wait ts :: rest ∧ ts.all (taskDone s.tasks) = true ∧
      s' = { tasks := s.tasks.set i { rest := rest, held := t.held, waiting := t.waiting }, locks := s.locks } := by
  simp only [exec] at h
  split at h
  · rename_i t ht
    split at h
    · rename_i ts rest hr
      split at h
      · rename_i hall
        exact ⟨t, ts, rest, ht, hr, hall, by simpa using h.symm⟩
      · simp at h
    · simp at h
  · simp at h

theorem inv_wait {need : Nat → List Nat} {s s' : St} {i : Nat} (inv : Inv need s) (h : exec s (.wait i) = some s') :
    Inv need s' := by
  obtain ⟨t, ts, rest, ht, hr, _, rfl⟩ := exec_wait h
  have hw : t.waiting = false := by
    cases hwt : t.waiting with
    | false => rfl
    | true =>
      obtain ⟨l2, m2, rest2, hr2, _⟩ := inv.waitQ i t ht hwt
      rw [hr] at hr2; cases hr2
  have hnotq : ∀ l2 m2, (i, m2) ∉ (s.locks l2).queue := by
    intro l2 m2 hq
    obtain ⟨t2, _, ht2, hw2, _⟩ := inv.qWait l2 i m2 hq
    rw [ht] at ht2; cases ht2; rw [hw] at hw2; cases hw2
  have hdisc := inv.disc i t ht
  rw [hr] at hdisc
  refine ⟨?_, ?_, ?_, ?_, inv.qNodup, ?_, inv.excl, inv.bound⟩
  · intro j x hx
    rcases get_set_cases ht hx with ⟨rfl, rfl⟩ | ⟨_, hx'⟩
    · exact hdisc.2
    · exact inv.disc j x hx'
  · intro j x hx
    rcases get_set_cases ht hx with ⟨rfl, rfl⟩ | ⟨_, hx'⟩
    · intro a ha; exact inv.wf _ t ht a (by rw [hr]; exact List.mem_cons_of_mem _ ha)
    · exact inv.wf j x hx'
  · intro j x hx hwx
    rcases get_set_cases ht hx with ⟨rfl, rfl⟩ | ⟨_, hx'⟩
    · rw [hw] at hwx; cases hwx
    · exact inv.waitQ j x hx' hwx
  · intro l2 j mj hqj
    obtain ⟨t2, rest2, ht2, hw2, hr2⟩ := inv.qWait l2 j mj hqj
    have hji : j ≠ i := by
      intro e; subst e; exact hnotq l2 mj hqj
    exact ⟨t2, rest2, by rw [get_set_ne (fun e => hji e.symm)]; exact ht2, hw2, hr2⟩
  · intro l2 j mj hh
    obtain ⟨tj, htj, hheld⟩ := inv.holds l2 j mj hh
    by_cases hji : j = i
    · subst hji
      rw [ht] at htj; cases htj
      exact ⟨_, get_set_self ht, hheld⟩
    · exact ⟨tj, by rw [get_set_ne (fun e => hji e.symm)]; exact htj, hheld⟩

theorem inv_exec {need : Nat → List Nat} {s s' : St} (inv : Inv need s) {lab : Label} (h : exec s lab = some s') :
    Inv need s' := by
  cases lab with
  | req i => exact inv_req inv h
  | grant l => exact inv_grant inv h
  | rel i => exact inv_rel inv h
  | wait i => exact inv_wait inv h

theorem inv_init {need : Nat → List Nat} (ps : List Prog) (hwf : WF need ps)
    (hd : ∀ p ∈ ps, Disciplined need [] p) : Inv need (init ps) := by
  refine ⟨?_, ?_, ?_, ?_, ?_, ?_, ?_, ?_⟩
  · intro i t ht
    simp only [init, List.getElem?_map] at ht
    cases hp : ps[i]? with
    | none => simp [hp] at ht
    | some p =>
      simp [hp] at ht; subst ht
      exact hd p (List.mem_of_getElem? hp)
  · intro i t ht
    simp only [init, List.getElem?_map] at ht
    cases hp : ps[i]? with
    | none => simp [hp] at ht
    | some p =>
      simp [hp] at ht; subst ht
      exact hwf i p hp
  · intro i t ht hw
    simp only [init, List.getElem?_map] at ht
    cases hp : ps[i]? with
    | none => simp [hp] at ht
    | some p => simp [hp] at ht; subst ht; cases hw
  · intro l i m hq; simp [init, emptyLock] at hq
  · intro l; simp [init, emptyLock]
  · intro l i m hh; simp [init, emptyLock] at hh
  · intro l; left; simp [init, emptyLock, compatible]
  · exact ⟨0, fun l _ => by simp [init, emptyLock]⟩

theorem inv_reachable {need : Nat → List Nat} {s0 s : St} (inv : Inv need s0) (h : Reachable s0 s) : Inv need s := by
  induction h with
  | refl => exact inv
  | step _ hs ih => obtain ⟨lab, hl⟩ := hs; exact inv_exec ih hl


/-! ## Progress as a step, termination measure -/

theorem can_step {need : Nat → List Nat} (s : St) (inv : Inv need s) (hnf : ¬ finished s) : ∃ s', Step s s' := by
  by_cases hself : ∀ t ∈ s.tasks, selfEnabled s.tasks t = false
  · obtain ⟨l, hl⟩ := progress s inv hnf hself
    simp only [grantEnabled] at hl
    cases hq : (s.locks l).queue with
    | nil => rw [hq] at hl; cases hl
    | cons hd tl =>
      obtain ⟨i, m⟩ := hd
      rw [hq] at hl
      obtain ⟨t, rest, ht, _, hr⟩ := inv.qWait l i m (by rw [hq]; simp)
      have hc : compatible (s.locks l).holders m = true := by simpa using hl
      have hs : (exec s (.grant l)).isSome = true := by simp [exec, hq, hc, ht, hr]
      obtain ⟨s', hs'⟩ := Option.isSome_iff_exists.mp hs
      exact ⟨s', .grant l, hs'⟩
  · have : ∃ t, ¬ (t ∈ s.tasks → selfEnabled s.tasks t = false) := Classical.not_forall.mp hself
    obtain ⟨t, ht⟩ := this
    have htm : t ∈ s.tasks := Classical.byContradiction fun h => ht (fun h' => absurd h' h)
    have hen : selfEnabled s.tasks t = true := by
      cases he : selfEnabled s.tasks t with
      | true => rfl
      | false => exact absurd (fun _ => he) ht
    obtain ⟨i, hi⟩ := List.getElem?_of_mem htm
    cases hr : t.rest with
    | nil => simp [selfEnabled, hr] at hen
    | cons a rest =>
      cases a with
      | rel l =>
        have hs : (exec s (.rel i)).isSome = true := by simp [exec, hi, hr]
        obtain ⟨s', hs'⟩ := Option.isSome_iff_exists.mp hs
        exact ⟨s', .rel i, hs'⟩
      | acq l m =>
        have hw : t.waiting = false := by simpa [selfEnabled, hr] using hen
        have hs : (exec s (.req i)).isSome = true := by simp [exec, hi, hr, hw]
        obtain ⟨s', hs'⟩ := Option.isSome_iff_exists.mp hs
        exact ⟨s', .req i, hs'⟩
      | wait ts =>
        have hall : ts.all (taskDone s.tasks) = true := by simpa [selfEnabled, hr] using hen
        have hs : (exec s (.wait i)).isSome = true := by simp only [exec, hi, hr, hall]; simp
        obtain ⟨s', hs'⟩ := Option.isSome_iff_exists.mp hs
        exact ⟨s', .wait i, hs'⟩

theorem sum_set_lt (f : Task → Nat) {ts : List Task} {i : Nat} {t t' : Task}
    (h : ts[i]? = some t) (hlt : f t' < f t) :
    ((ts.set i t').map f).sum < (ts.map f).sum := by
  induction ts generalizing i with
  | nil => simp at h
  | cons x xs ih =>
    cases i with
    | zero => simp at h; subst h; simp; omega
    | succ k =>
      have := ih (i := k) (by simpa using h)
      simp only [List.set_cons_succ, List.map_cons, List.sum_cons]; omega

/-- every step strictly decreases the measure (no invariant needed) -/
theorem measure_exec {s s' : St} {lab : Label} (h : exec s lab = some s') : measure s' < measure s := by
  cases lab with
  | req i =>
    obtain ⟨t, l, m, rest, ht, hr, hw, rfl⟩ := exec_req h
    exact sum_set_lt taskMeasure ht (by simp [taskMeasure, hw])
  | grant l =>
    obtain ⟨i, m, tl, t, l0, m0, rest, hq, hc, ht, hr, rfl⟩ := exec_grant h
    exact sum_set_lt taskMeasure ht (by simp [taskMeasure, hr]; omega)
  | rel i =>
    obtain ⟨t, l, rest, ht, hr, rfl⟩ := exec_rel h
    exact sum_set_lt taskMeasure ht (by simp [taskMeasure, hr]; omega)
  | wait i =>
    obtain ⟨t, ts, rest, ht, hr, _, rfl⟩ := exec_wait h
    exact sum_set_lt taskMeasure ht (by simp [taskMeasure, hr])

/-- a run of `n` steps -/
inductive RunN : St → Nat → St → Prop
  | zero (s) : RunN s 0 s
  | succ {s s' s'' n} : Step s s' → RunN s' n s'' → RunN s (n + 1) s''

theorem runN_bounded {s s' : St} {n : Nat} (h : RunN s n s') : n + measure s' ≤ measure s := by
  induction h with
  | zero => omega
  | succ hs _ ih => obtain ⟨lab, hl⟩ := hs; have := measure_exec hl; omega

theorem reachable_trans_step {a b x : St} (hs : Step a b) (hx : Reachable b x) : Reachable a x := by
  induction hx with
  | refl => exact .step .refl hs
  | step _ h2 ih2 => exact .step ih2 h2

theorem runN_reachable {s s' : St} {n : Nat} (h : RunN s n s') : Reachable s s' := by
  induction h with
  | zero => exact .refl
  | succ hs _ ih => exact reachable_trans_step hs ih

/-! ## Site table ⇒ discipline -/

theorem conformsB_iff (sites : List Site) (held : List Nat) (p : Prog) :
    conformsB sites held p = true ↔ Conforms sites held p := by
  induction p generalizing held with
  | nil => simp [conformsB, Conforms]
  | cons a rest ih =>
    cases a with
    | acq l m =>
      simp only [conformsB, Conforms, Bool.and_eq_true, List.any_eq_true, ih, beq_iff_eq,
        List.all_eq_true, List.contains_iff_mem]
      constructor
      · rintro ⟨⟨s, hs, ⟨h1, h2⟩, h3⟩, h4⟩
        exact ⟨⟨s, hs, h1, h2, h3⟩, h4⟩
      · rintro ⟨⟨s, hs, h1, h2, h3⟩, h4⟩
        exact ⟨⟨s, hs, ⟨h1, h2⟩, h3⟩, h4⟩
    | rel l => simp [conformsB, Conforms, ih]
    | wait ts => simp [conformsB, Conforms, ih]

instance (sites : List Site) (held : List Nat) (p : Prog) : Decidable (Conforms sites held p) :=
  decidable_of_iff _ (conformsB_iff sites held p)

/-- if every site of the table respects the global order, every program that follows the table is
disciplined -/
theorem conforms_disciplined (need : Nat → List Nat) (sites : List Site) (hok : ∀ s ∈ sites, s.ok = true)
    (held : List Nat) (p : Prog) (h : Conforms sites held p) : Disciplined need held p := by
  induction p generalizing held with
  | nil => exact h
  | cons a rest ih =>
    cases a with
    | acq l m =>
      obtain ⟨⟨s, hs, hl, _, hsub⟩, hrest⟩ := h
      refine ⟨?_, ih _ hrest⟩
      intro x hx
      have := hok s hs
      simp only [Site.ok, List.all_eq_true, decide_eq_true_eq] at this
      rw [← hl]; exact this x (hsub x hx)
    | rel l => exact ⟨h.1, ih _ h.2⟩
    | wait ts =>
      obtain ⟨hh, hrest⟩ := h
      subst hh
      exact ⟨fun _ _ _ _ _ hx => by simp at hx, ih _ hrest⟩


/-! ## Locks outside the programs stay untouched; soundness of the `stuck` test -/

/-- all remaining actions mention locks `< nl`, and locks `≥ nl` are untouched -/
def Below (nl : Nat) (s : St) : Prop :=
  (∀ (i : Nat) (t : Task), s.tasks[i]? = some t → ∀ a ∈ t.rest, a.below nl) ∧
  (∀ l, nl ≤ l → (s.locks l).queue = [] ∧ (s.locks l).holders = [])

theorem below_init (nl : Nat) (ps : List Prog) (h : ∀ p ∈ ps, ∀ a ∈ p, a.below nl) :
    Below nl (init ps) := by
  refine ⟨?_, fun l _ => by simp [init, emptyLock]⟩
  intro i t ht
  simp only [init, List.getElem?_map] at ht
  cases hp : ps[i]? with
  | none => simp [hp] at ht
  | some p => simp [hp] at ht; subst ht; exact h p (List.mem_of_getElem? hp)

theorem below_exec {nl : Nat} {s s' : St} {lab : Label} (hb : Below nl s) (h : exec s lab = some s') :
    Below nl s' := by
  obtain ⟨hp, hk⟩ := hb
  cases lab with
  | req i =>
    obtain ⟨t, l, m, rest, ht, hr, hw, rfl⟩ := exec_req h
    have hl : l < nl := by have := hp i t ht (.acq l m) (by rw [hr]; simp); exact this
    refine ⟨?_, ?_⟩
    · intro j x hx
      rcases get_set_cases ht hx with ⟨rfl, rfl⟩ | ⟨_, hx'⟩
      · exact hp _ t ht
      · exact hp j x hx'
    · intro l2 hl2
      have : l2 ≠ l := by omega
      simp only [setLock_ne _ _ this]; exact hk l2 hl2
  | grant l =>
    obtain ⟨i, m, tl, t, l0, m0, rest, hq, hc, ht, hr, rfl⟩ := exec_grant h
    have hl : l < nl := by
      apply Classical.byContradiction; intro hn
      have := (hk l (by omega)).1
      rw [hq] at this; cases this
    refine ⟨?_, ?_⟩
    · intro j x hx
      rcases get_set_cases ht hx with ⟨rfl, rfl⟩ | ⟨_, hx'⟩
      · intro a ha; exact hp _ t ht a (by rw [hr]; exact List.mem_cons_of_mem _ ha)
      · exact hp j x hx'
    · intro l2 hl2
      have : l2 ≠ l := by omega
      simp only [setLock_ne _ _ this]; exact hk l2 hl2
  | rel i =>
    obtain ⟨t, l, rest, ht, hr, rfl⟩ := exec_rel h
    have hl : l < nl := by have := hp i t ht (.rel l) (by rw [hr]; simp); exact this
    refine ⟨?_, ?_⟩
    · intro j x hx
      rcases get_set_cases ht hx with ⟨rfl, rfl⟩ | ⟨_, hx'⟩
      · intro a ha; exact hp _ t ht a (by rw [hr]; exact List.mem_cons_of_mem _ ha)
      · exact hp j x hx'
    · intro l2 hl2
      have : l2 ≠ l := by omega
      simp only [setLock_ne _ _ this]; exact hk l2 hl2
  | wait i =>
    obtain ⟨t, ts, rest, ht, hr, _, rfl⟩ := exec_wait h
    refine ⟨?_, hk⟩
    intro j x hx
    rcases get_set_cases ht hx with ⟨rfl, rfl⟩ | ⟨_, hx'⟩
    · intro a ha; exact hp _ t ht a (by rw [hr]; exact List.mem_cons_of_mem _ ha)
    · exact hp j x hx'

theorem below_run {nl : Nat} {s s' : St} {sched : List Label} (hb : Below nl s)
    (h : run s sched = some s') : Below nl s' := by
  induction sched generalizing s with
  | nil => simp [run] at h; subst h; exact hb
  | cons lab rest ih =>
    simp only [run] at h
    split at h
    · rename_i s1 h1; exact ih (below_exec hb h1) h
    · cases h

theorem run_reachable {s s' : St} {sched : List Label} (h : run s sched = some s') : Reachable s s' := by
  induction sched generalizing s with
  | nil => simp [run] at h; subst h; exact .refl
  | cons lab rest ih =>
    simp only [run] at h
    split at h
    · rename_i s1 h1; exact reachable_trans_step ⟨lab, h1⟩ (ih h)
    · cases h

/-- a state that passes the executable `stuck` test (over locks `< nl`) is a real deadlock: not
finished and no label at all is enabled -/
theorem stuck_sound {nl : Nat} {s : St} (hb : Below nl s) (h : stuck s nl = true) :
    ¬ finished s ∧ ∀ lab, exec s lab = none := by
  simp only [stuck, Bool.and_eq_true, Bool.not_eq_true', List.all_eq_true, Option.isNone_iff_eq_none] at h
  obtain ⟨hf, hall⟩ := h
  refine ⟨?_, ?_⟩
  · intro hfin; rw [(finishedB_iff s).mpr hfin] at hf; cases hf
  · intro lab
    cases lab with
    | req i =>
      by_cases hi : i < s.tasks.length
      · exact hall _ (by simp [allLabels, hi])
      · have : s.tasks[i]? = none := List.getElem?_eq_none (by omega)
        simp [exec, this]
    | grant l =>
      by_cases hl : l < nl
      · exact hall _ (by simp [allLabels, hl])
      · have := (hb.2 l (by omega)).1
        simp [exec, this]
    | rel i =>
      by_cases hi : i < s.tasks.length
      · exact hall _ (by simp [allLabels, hi])
      · have : s.tasks[i]? = none := List.getElem?_eq_none (by omega)
        simp [exec, this]
    | wait i =>
      by_cases hi : i < s.tasks.length
      · exact hall _ (by simp [allLabels, hi])
      · have : s.tasks[i]? = none := List.getElem?_eq_none (by omega)
        simp [exec, this]


/-! ## The coarsest `need` table -/

/-- every wait is for tasks spawned later -/
def WaitsForward (ps : List Prog) : Prop :=
  ∀ (j : Nat) (p : Prog), ps[j]? = some p → ∀ ts, Act.wait ts ∈ p → ∀ k ∈ ts, j < k

theorem wf_allNeed (ps : List Prog) (hf : WaitsForward ps) : WF (allNeed ps) ps := by
  intro j p hp a ha
  cases a with
  | acq l m =>
    simp only [actWF, allNeed, List.contains_iff_mem, List.mem_flatMap]
    exact ⟨p, List.mem_of_getElem? hp, by simp only [acqLocks, List.mem_filterMap]; exact ⟨_, ha, rfl⟩⟩
  | rel l => rfl
  | wait ts =>
    simp only [actWF, List.all_eq_true, Bool.and_eq_true, decide_eq_true_eq, List.contains_iff_mem]
    intro k hk
    exact ⟨hf j p hp ts ha k hk, fun l hl => hl⟩

theorem wfB_iff (need : Nat → List Nat) (ps : List Prog) : wfB need ps = true ↔ WF need ps := by
  simp only [wfB, WF, List.all_eq_true, List.mem_range]
  constructor
  · intro h j p hp a ha
    have hj : j < ps.length := by
      apply Classical.byContradiction; intro hn
      have : ps[j]? = none := List.getElem?_eq_none (by omega)
      rw [this] at hp; cases hp
    have := h j hj
    rw [hp] at this
    exact List.all_eq_true.mp this a ha
  · intro h j _
    cases hp : ps[j]? with
    | none => rfl
    | some p => exact List.all_eq_true.mpr (fun a ha => h j p hp a ha)

instance (need : Nat → List Nat) (ps : List Prog) : Decidable (WF need ps) :=
  decidable_of_iff _ (wfB_iff need ps)

/-- an allowed await that is not time-bounded satisfies the `wait` clause of `Disciplined` -/
theorem await_allowed_sound (a : AwaitSite) (h : a.allowed = true) (hb : a.bounded = false) :
    ∀ l ∈ a.needs, ∀ x ∈ a.held, x < l := by
  simp only [AwaitSite.allowed, hb, Bool.or_false, Bool.or_eq_true, List.isEmpty_iff, List.all_eq_true,
    decide_eq_true_eq] at h
  rcases h with h | h
  · intro l _ x hx; rw [h] at hx; simp at hx
  · exact h

end Locks
