import EmmyVerif.Lemmas.FlowNarrow
/-! Soundness of `TypeAt` (`aexec`) with respect to `Sem` (`exec`) for the loop-free fragment. -/
namespace Flow

/-! ### invariants -/

/-- every query at a node is sound for the current environment (all three modes), for every variable outside
the excluded set `W` -/
def SoundSt (W : Nat → Bool) (ρ : Env) (s : St) : Prop :=
  ∀ x, W x = false → ∀ m, (s.get x m).has (ρ.get x) = true

def SoundPt (W : Nat → Bool) (ρ : Env) : Pt → Prop
  | .node s => SoundSt W ρ s
  | .label ins => ∃ s ∈ ins, SoundSt W ρ s

/-- the strings held by the preamble locals `t_x = type(v_x)` used in guards still describe `v_x` -/
def StoredOK (S : List (Nat × TName)) (ρ : Env) : Prop := ∀ p ∈ S, (ρ.get p.1).typeName = p.2

def Leaf.storedIn (S : List (Nat × TName)) : Leaf → Bool
  | .stored x tn0 _ _ => S.contains (x, tn0)
  | _ => true

def Cond.storedIn (S : List (Nat × TName)) : Cond → Bool
  | .leaf l => l.storedIn S
  | .not c => c.storedIn S
  | .and a b => a.storedIn S && b.storedIn S
  | .or a b => a.storedIn S && b.storedIn S

variable {W : Nat → Bool} {S : List (Nat × TName)}

theorem Res.has_intoType {r : Res} {v : Val} (h : r.has v = true) : r.intoType.has v = true := by
  cases r <;> simp_all [Res.has, Res.intoType]

theorem foldl_union_has {ins : List St} {x : Nat} {m : Mode} {v : Val} :
    ∀ {acc : Ty}, (acc.has v = true ∨ ∃ s ∈ ins, (s.get x m).has v = true) →
      (ins.foldl (fun acc s => unionTy acc (s.get x m).intoType) acc).has v = true := by
  induction ins with
  | nil => intro acc h; rcases h with h | ⟨s, hs, _⟩; exact h; simp at hs
  | cons s rest ih =>
    intro acc h
    simp only [List.foldl_cons]
    apply ih
    rcases h with h | ⟨s', hs', hv⟩
    · exact .inl (unionTy_has (.inl h))
    · simp only [List.mem_cons] at hs'
      rcases hs' with rfl | hs'
      · exact .inl (unionTy_has (.inr (Res.has_intoType hv)))
      · exact .inr ⟨s', hs', hv⟩

theorem res_has {ρ : Env} {p : Pt} (h : SoundPt W ρ p) (x : Nat) (hx : W x = false) (m : Mode) : (p.res x m).has (ρ.get x) = true := by
  cases p with
  | node s => exact h x hx m
  | label ins =>
    obtain ⟨s, hs, hsound⟩ := h
    match ins, hs with
    | [s0], hs =>
      simp only [List.mem_cons, List.not_mem_nil, or_false] at hs
      subst hs
      exact hsound x hx m
    | s0 :: s1 :: rest, hs =>
      simp only [Pt.res, Res.has]
      exact foldl_union_has (.inr ⟨s, hs, hsound x hx m.forMerge⟩)

theorem sound_ins {ρ : Env} {p : Pt} (h : SoundPt W ρ p) : ∃ s ∈ p.ins, SoundSt W ρ s := by
  cases p with
  | node s => exact ⟨s, by simp [Pt.ins], h⟩
  | label ins => exact h

theorem finishLabel_sound {ρ : Env} {ants : List Pt} {d : Pt} (h : ∃ p ∈ ants, SoundPt W ρ p) :
    SoundPt W ρ (finishLabel ants d) := by
  obtain ⟨p, hp, hs⟩ := h
  match ants, hp with
  | [p0], hp =>
    simp only [List.mem_cons, List.not_mem_nil, or_false] at hp
    subst hp; exact hs
  | p0 :: p1 :: rest, hp =>
    obtain ⟨s, hsin, hss⟩ := sound_ins hs
    exact ⟨s, List.mem_flatMap.mpr ⟨p, hp, hsin⟩, hss⟩

/-! ### nodes -/

theorem get_mk (nv : Nat) (f : Nat → Res3) (x : Nat) (m : Mode) :
    St.get ((List.range nv).map f) x m = if x < nv then (f x).get m else .ty [.nil] := by
  unfold St.get
  by_cases h : x < nv
  · simp [List.getD, h]
  · simp [List.getD, h]
    cases m <;> rfl

theorem env_get_ge {ρ : Env} {x : Nat} (h : ρ.length ≤ x) : ρ.get x = .nil := by
  simp [Env.get, List.getD, List.getElem?_eq_none h]

theorem soundSt_mk {ρ : Env} {nv : Nat} {f : Nat → Res3} (hlen : ρ.length = nv)
    (h : ∀ x, W x = false → x < nv → ∀ m, ((f x).get m).has (ρ.get x) = true) :
    SoundSt W ρ ((List.range nv).map f) := by
  intro x hw m
  rw [get_mk]
  split
  · rename_i hx; exact h x hw hx m
  · rename_i hx
    rw [env_get_ge (by omega)]
    simp [Res.has, Ty.has, Atom.has]

theorem res3_get_mk (a b c : Res) (m : Mode) :
    (Res3.mk a b c).get m = match m with | .normal => a | .merge => b | .ignore => c := by
  cases m <;> rfl

theorem passNode_sound {ρ : Env} {nv : Nat} {ant : Pt} (hlen : ρ.length = nv) (h : SoundPt W ρ ant) :
    SoundSt W ρ (passNode nv ant) := by
  apply soundSt_mk hlen
  intro x hx _ m
  cases m <;> exact res_has h x hx _

theorem action_sound {ρ : Env} {l : Leaf} {flow : Bool} {x : Nat} {nr : Narrow} {t : Ty}
    (hst : StoredOK S ρ) (hin : l.storedIn S = true)
    (ha : l.action flow x = some nr) (he : l.eval ρ = flow) (h : t.has (ρ.get x) = true) :
    (nr.apply t).has (ρ.get x) = true := by
  cases l with
  | truthy y =>
    simp only [Leaf.action] at ha
    split at ha
    · rename_i hxy
      have : x = y := by simpa using hxy
      subst this
      simp only [Option.some.injEq] at ha
      subst ha
      simp only [Leaf.eval] at he
      cases flow
      · exact narrowFalseOrNil_sound he h
      · exact removeFalseOrNil_sound he h
    · simp at ha
  | typeIs y g neg =>
    simp only [Leaf.action] at ha
    split at ha
    · rename_i hxy
      have : x = y := by simpa using hxy
      subst this
      simp only [Option.some.injEq] at ha
      subst ha
      simp only [Leaf.eval] at he
      cases hfn : (flow != neg)
      · simp only [Narrow.apply]
        apply guardFalse_sound _ h
        intro heq
        cases flow <;> cases neg <;> simp_all
      · simp only [Narrow.apply]
        apply guardTrue_sound _ h
        cases flow <;> cases neg <;> simp_all
    · simp at ha
  | stored y tn0 g neg =>
    simp only [Leaf.action] at ha
    split at ha
    · rename_i hxy
      have : x = y := by simpa using hxy
      subst this
      simp only [Option.some.injEq] at ha
      subst ha
      simp only [Leaf.eval] at he
      have htn : (ρ.get x).typeName = tn0 := by
        simp only [Leaf.storedIn, List.contains_eq_mem, decide_eq_true_eq] at hin
        exact hst (x, tn0) hin
      cases hfn : (flow != neg)
      · simp only [Narrow.apply]
        apply guardFalse_sound _ h
        intro heq
        rw [htn] at heq
        cases flow <;> cases neg <;> simp_all
      · simp only [Narrow.apply]
        apply guardTrue_sound _ h
        rw [htn]
        cases flow <;> cases neg <;> simp_all
    · simp at ha
  | isNil y neg =>
    simp only [Leaf.action] at ha
    split at ha
    · rename_i hxy
      have : x = y := by simpa using hxy
      subst this
      simp only [Option.some.injEq] at ha
      subst ha
      simp only [Leaf.eval] at he
      simp only [Narrow.apply]
      apply eqLit_sound (l := .nil) (by intro i; simp) _ h
      simp only [Lit.val]
      cases flow <;> cases neg <;> cases hv : (ρ.get x == Val.nil) <;> simp_all
    · simp at ha
  | eqLit y l neg =>
    simp only [Leaf.action] at ha
    split at ha
    · rename_i hxy
      have : x = y := by simpa using hxy
      subst this
      simp only [Option.some.injEq] at ha
      subst ha
      simp only [Leaf.eval] at he
      simp only [Narrow.apply]
      apply eqLit_sound (l := l.lit) (by intro i; cases l <;> simp [CLit.lit]) _ h
      cases flow <;> cases neg <;> cases hv : (ρ.get x == l.lit.val) <;> simp_all
    · simp at ha

theorem narrowRes_has {nr : Narrow} {m : Mode} {r : Res} {v : Val}
    (hap : ∀ t, t.has v = true → (nr.apply t).has v = true) (h : r.has v = true) :
    (narrowRes nr m r).has v = true := by
  cases r with
  | unreach => simp [Res.has] at h
  | ty t =>
    have h' := hap t h
    cases m with
    | normal => simpa [narrowRes, Res.has] using h'
    | ignore => simpa [narrowRes, Res.has] using h
    | merge =>
      simp only [narrowRes]
      split
      · rename_i hc
        simp only [Bool.and_eq_true, isNever, beq_iff_eq] at hc
        rw [hc.2] at h'
        simp [has_single, never_has] at h'
      · simpa [Res.has] using h'

theorem condNode_sound {ρ : Env} {nv : Nat} {l : Leaf} {flow : Bool} {ant : Pt} (hlen : ρ.length = nv)
    (hst : StoredOK S ρ) (hin : l.storedIn S = true)
    (he : l.eval ρ = flow) (h : SoundPt W ρ ant) : SoundSt W ρ (condNode nv l flow ant) := by
  apply soundSt_mk hlen
  intro x hx _ m
  cases ha : l.action flow x with
  | none => simp only []; cases m <;> exact res_has h x hx _
  | some nr =>
    simp only []
    have hap : ∀ t, t.has (ρ.get x) = true → (nr.apply t).has (ρ.get x) = true :=
      fun t ht => action_sound hst hin ha he ht
    cases m
    · exact narrowRes_has hap (res_has h x hx _)
    · exact narrowRes_has hap (res_has h x hx _)
    · exact res_has h x hx _

theorem env_get_set {ρ : Env} {y x : Nat} {v : Val} :
    Env.get (ρ.set y v) x = if x = y ∧ y < ρ.length then v else ρ.get x := by
  simp only [Env.get, List.getD, List.getElem?_set]
  by_cases hxy : y = x
  · subst hxy
    by_cases hl : y < ρ.length <;> simp [hl]
  · have : ¬ x = y := fun h => hxy h.symm
    simp [hxy, this]

theorem assignRes_has {d : Atom} {l : Lit} {ant : Pt} {x : Nat} {m : Mode} {ρ : Env}
    (h : SoundPt W ρ ant) (hx : W x = false) : (assignRes d l.ty ant x m).has l.val = true := by
  unfold assignRes
  have h1 := res_has h x hx m.forAssign
  have h2 := res_has h x hx .ignore
  cases he : ant.res x m.forAssign with
  | unreach => rw [he] at h1; simp [Res.has] at h1
  | ty a =>
    simp only []
    by_cases hc : canReuse a l.ty = true
    · simp only [hc, ↓reduceIte, Res.has]
      exact assignResult_sound
    · simp only [hc, Bool.false_eq_true, ↓reduceIte]
      cases he2 : ant.res x .ignore with
      | unreach => rw [he2] at h2; simp [Res.has] at h2
      | ty a2 =>
        simp only [Res.has]
        exact assignResult_sound

theorem assignVarRes_has {d : Atom} {t : Ty} {ant : Pt} {x : Nat} {m : Mode} {ρ : Env} {v : Val}
    (h : SoundPt W ρ ant) (hx : W x = false) (hv : t.has v = true) :
    (assignVarRes d t ant x m).has v = true := by
  unfold assignVarRes
  split
  · simpa [Res.has] using hv
  · simp only []
    generalize hm' : (if m == Mode.merge then Mode.merge else if preserves t then Mode.normal else Mode.ignore) = m'
    have h1 := res_has h x hx m'
    have h2 := res_has h x hx .ignore
    cases he : ant.res x m' with
    | unreach => rw [he] at h1; simp [Res.has] at h1
    | ty a =>
      simp only []
      split
      · cases he2 : ant.res x .ignore with
        | unreach => rw [he2] at h2; simp [Res.has] at h2
        | ty a2 => simp only [Res.has]; exact assignResultTy_sound hv
      · simp only [Res.has]; exact assignResultTy_sound hv

theorem assignNode_sound {ρ : Env} {nv : Nat} {d : Nat → Atom} {y : Nat} {l : Lit} {ant : Pt}
    (hlen : ρ.length = nv) (h : SoundPt W ρ ant) :
    SoundSt W (ρ.set y l.val) (assignNode nv d y l.ty ant) := by
  apply soundSt_mk (by simpa using hlen)
  intro x hwx hx m
  rw [env_get_set]
  by_cases hxy : x = y
  · subst hxy
    simp only [beq_self_eq_true, ↓reduceIte, true_and, hlen, hx]
    cases m <;> simp only [Res3.get] <;> exact assignRes_has h hwx
  · have : (x == y) = false := by simpa using hxy
    simp only [this, Bool.false_eq_true, ↓reduceIte, hxy, false_and]
    cases m <;> simp only [Res3.get] <;> exact res_has h x hwx _

theorem storedOK_set {ρ : Env} {y : Nat} {v : Val} (hst : StoredOK S ρ) (hy : S.any (fun p => p.1 == y) = false) :
    StoredOK S (ρ.set y v) := by
  intro p hp
  rw [env_get_set]
  have : ¬ p.1 = y := by
    intro he
    have : S.any (fun p => p.1 == y) = true := List.any_eq_true.mpr ⟨p, hp, by simp [he]⟩
    rw [hy] at this; cases this
  simp only [this, false_and, ↓reduceIte]
  exact hst p hp

theorem assignVarNode_sound {ρ : Env} {nv : Nat} {d : Nat → Atom} {y z : Nat} {ant : Pt}
    (hlen : ρ.length = nv) (hz : W y = false → W z = false) (h : SoundPt W ρ ant) :
    SoundSt W (ρ.set y (ρ.get z)) (assignVarNode nv d y z ant) := by
  apply soundSt_mk (by simpa using hlen)
  intro x hwx hx m
  rw [env_get_set]
  by_cases hxy : x = y
  · subst hxy
    simp only [beq_self_eq_true, ↓reduceIte, true_and, hlen, hx]
    have hv := Res.has_intoType (res_has h z (hz hwx) .normal)
    cases m <;> simp only [Res3.get] <;> exact assignVarRes_has h hwx hv
  · have : (x == y) = false := by simpa using hxy
    simp only [this, Bool.false_eq_true, ↓reduceIte, hxy, false_and]
    cases m <;> simp only [Res3.get] <;> exact res_has h x hwx _

/-! ### conditions -/

theorem leaf_eval {ρ : Env} : ∀ {c : Cond} {l : Leaf} {inv : Bool}, c.leaf? = some (l, inv) →
    c.eval ρ = (l.eval ρ != inv) ∧ (c.storedIn S = true → l.storedIn S = true)
  | .leaf l0, l, inv, h => by
    simp only [Cond.leaf?, Option.some.injEq, Prod.mk.injEq] at h
    obtain ⟨rfl, rfl⟩ := h
    simp [Cond.eval, Cond.storedIn]
  | .not c, l, inv, h => by
    simp only [Cond.leaf?] at h
    cases hc : c.leaf? with
    | none => simp [hc] at h
    | some p =>
      obtain ⟨l', inv'⟩ := p
      simp only [hc, Option.map_some, Option.some.injEq, Prod.mk.injEq] at h
      obtain ⟨rfl, rfl⟩ := h
      have ih := leaf_eval (ρ := ρ) hc
      refine ⟨?_, fun hs => ih.2 (by simpa [Cond.storedIn] using hs)⟩
      simp only [Cond.eval, ih.1]
      cases l'.eval ρ <;> cases inv' <;> rfl
  | .and _ _, _, _, h => by simp [Cond.leaf?] at h
  | .or _ _, _, _, h => by simp [Cond.leaf?] at h

theorem leaf_edge_sound {ρ : Env} {nv : Nat} {l : Leaf} {flow : Bool} {cur : Pt} (hl : ρ.length = nv)
    (hst : StoredOK S ρ) (hin : l.storedIn S = true)
    (he : l.eval ρ = flow) (h : SoundPt W ρ cur) : ∃ p ∈ [Pt.node (condNode nv l flow cur)], SoundPt W ρ p :=
  ⟨Pt.node (condNode nv l flow cur), by simp, condNode_sound hl hst hin he h⟩

theorem edges_sound (nv : Nat) : ∀ (c : Cond) (cur : Pt) (ρ : Env), ρ.length = nv → StoredOK S ρ →
    c.storedIn S = true → SoundPt W ρ cur →
    (c.eval ρ = true → ∃ p ∈ (c.edges nv cur).1, SoundPt W ρ p) ∧
    (c.eval ρ = false → ∃ p ∈ (c.edges nv cur).2, SoundPt W ρ p)
  | .leaf l, cur, ρ, hl, hst, hin, h => by
    simp only [Cond.edges, Cond.eval]
    simp only [Cond.storedIn] at hin
    exact ⟨fun he => leaf_edge_sound hl hst hin he h, fun he => leaf_edge_sound hl hst hin he h⟩
  | .not c, cur, ρ, hl, hst, hin, h => by
    simp only [Cond.storedIn] at hin
    simp only [Cond.edges]
    split
    · rename_i l inv hc
      have hev := leaf_eval (S := S) (ρ := ρ) hc
      have hli := hev.2 hin
      simp only [Cond.eval, hev.1]
      constructor
      · intro he
        refine leaf_edge_sound (l := l) (flow := inv) hl hst hli ?_ h
        cases hle : l.eval ρ <;> cases inv <;> simp_all
      · intro he
        refine leaf_edge_sound (l := l) (flow := !inv) hl hst hli ?_ h
        cases hle : l.eval ρ <;> cases inv <;> simp_all
    · have ih := edges_sound nv c cur ρ hl hst hin h
      simp only [Cond.eval]
      constructor
      · intro he; exact ih.2 (by simpa using he)
      · intro he; exact ih.1 (by simpa using he)
  | .and a b, cur, ρ, hl, hst, hin, h => by
    simp only [Cond.storedIn, Bool.and_eq_true] at hin
    simp only [Cond.edges, Cond.eval]
    have iha := edges_sound nv a cur ρ hl hst hin.1 h
    constructor
    · intro he
      simp only [Bool.and_eq_true] at he
      have hcur' := finishLabel_sound (d := cur) (iha.1 he.1)
      obtain ⟨p, hp, hs⟩ := (edges_sound nv b _ ρ hl hst hin.2 hcur').1 he.2
      exact ⟨p, hp, hs⟩
    · intro he
      cases ha : a.eval ρ
      · obtain ⟨p, hp, hs⟩ := iha.2 ha
        exact ⟨p, List.mem_append.mpr (.inl hp), hs⟩
      · have hb : b.eval ρ = false := by simpa [ha] using he
        have hcur' := finishLabel_sound (d := cur) (iha.1 ha)
        obtain ⟨p, hp, hs⟩ := (edges_sound nv b _ ρ hl hst hin.2 hcur').2 hb
        exact ⟨p, List.mem_append.mpr (.inr hp), hs⟩
  | .or a b, cur, ρ, hl, hst, hin, h => by
    simp only [Cond.storedIn, Bool.and_eq_true] at hin
    simp only [Cond.edges, Cond.eval]
    have iha := edges_sound nv a cur ρ hl hst hin.1 h
    constructor
    · intro he
      cases ha : a.eval ρ
      · have hb : b.eval ρ = true := by simpa [ha] using he
        have hcur' := finishLabel_sound (d := cur) (iha.2 ha)
        obtain ⟨p, hp, hs⟩ := (edges_sound nv b _ ρ hl hst hin.2 hcur').1 hb
        exact ⟨p, List.mem_append.mpr (.inr hp), hs⟩
      · obtain ⟨p, hp, hs⟩ := iha.1 ha
        exact ⟨p, List.mem_append.mpr (.inl hp), hs⟩
    · intro he
      simp only [Bool.or_eq_false_iff] at he
      have hcur' := finishLabel_sound (d := cur) (iha.2 he.1)
      obtain ⟨p, hp, hs⟩ := (edges_sound nv b _ ρ hl hst hin.2 hcur').2 he.2
      exact ⟨p, hp, hs⟩

/-! ### statements -/

/-- every concrete observation of a variable outside `W` has an abstract observation at the same probe whose type
contains the value -/
def ObsOK (W : Nat → Bool) (os : List Obs) (as : List AObs) : Prop :=
  ∀ o ∈ os, W o.2.1 = false → ∃ t, (o.1, o.2.1, t) ∈ as ∧ t.has o.2.2 = true

theorem ObsOK.nil {as : List AObs} : ObsOK W [] as := by intro o ho; simp at ho

theorem ObsOK.append {o1 o2 : List Obs} {a1 a2 : List AObs} (h1 : ObsOK W o1 a1) (h2 : ObsOK W o2 a2) :
    ObsOK W (o1 ++ o2) (a1 ++ a2) := by
  intro o ho hw
  rcases List.mem_append.mp ho with ho | ho
  · obtain ⟨t, ht, hv⟩ := h1 o ho hw; exact ⟨t, List.mem_append.mpr (.inl ht), hv⟩
  · obtain ⟨t, ht, hv⟩ := h2 o ho hw; exact ⟨t, List.mem_append.mpr (.inr ht), hv⟩

theorem ObsOK.left {o : List Obs} {a1 a2 : List AObs} (h : ObsOK W o a1) : ObsOK W o (a1 ++ a2) := by
  intro x hx hw; obtain ⟨t, ht, hv⟩ := h x hx hw; exact ⟨t, List.mem_append.mpr (.inl ht), hv⟩

theorem ObsOK.right {o : List Obs} {a1 a2 : List AObs} (h : ObsOK W o a2) : ObsOK W o (a1 ++ a2) := by
  intro x hx hw; obtain ⟨t, ht, hv⟩ := h x hx hw; exact ⟨t, List.mem_append.mpr (.inr ht), hv⟩

theorem probe_obs {ρ : Env} {cur : Pt} {id x : Nat} (h : SoundPt W ρ cur) :
    ObsOK W [(id, x, ρ.get x)] [(id, x, cur.typeOf x)] := by
  intro o ho hw
  simp only [List.mem_cons, List.not_mem_nil, or_false] at ho
  subst ho
  exact ⟨cur.typeOf x, by simp, Res.has_intoType (res_has h x hw .normal)⟩

mutual
/-- syntactic side condition for stored-type guards: every `t_x == "T"` guard is listed in `S`, and no variable
listed in `S` is assigned -/
def Stmt.ok (S : List (Nat × TName)) : Stmt → Bool
  | .assign x _ => !(S.any fun p => p.1 == x)
  | .assignVar x _ => !(S.any fun p => p.1 == x)
  | .probe _ _ => true
  | .ite c thn rest => c.storedIn S && thn.ok S && rest.ok S
def Else.ok (S : List (Nat × TName)) : Else → Bool
  | .none => true
  | .els b => b.ok S
  | .elif c thn rest => c.storedIn S && thn.ok S && rest.ok S
def Block.ok (S : List (Nat × TName)) : Block → Bool
  | .nil => true
  | .cons s rest => s.ok S && rest.ok S
end

mutual
/-- `hcl`: `W` is closed under the data flow of `x = y` (trivially so for `W = ∅`) -/
theorem Stmt.aexec_sound (nv : Nat) (d : Nat → Atom) (hcl : ∀ a b : Nat, W a = false → W b = false) :
    ∀ (s : Stmt) (cur : Pt) (ρ : Env), ρ.length = nv →
    StoredOK S ρ → s.ok S = true → SoundPt W ρ cur →
    SoundPt W (s.exec ρ).1 (s.aexec nv d cur).1 ∧ (s.exec ρ).1.length = nv ∧ StoredOK S (s.exec ρ).1 ∧
      ObsOK W (s.exec ρ).2 (s.aexec nv d cur).2
  | .assign x l, cur, ρ, hl, hst, hok, h => by
    simp only [Stmt.aexec, Stmt.exec]
    simp only [Stmt.ok, Bool.not_eq_eq_eq_not, Bool.not_true] at hok
    exact ⟨assignNode_sound hl h, by simpa using hl, storedOK_set hst hok, ObsOK.nil⟩
  | .assignVar x y, cur, ρ, hl, hst, hok, h => by
    simp only [Stmt.aexec, Stmt.exec]
    simp only [Stmt.ok, Bool.not_eq_eq_eq_not, Bool.not_true] at hok
    exact ⟨assignVarNode_sound hl (hcl x y) h, by simpa using hl, storedOK_set hst hok, ObsOK.nil⟩
  | .probe id x, cur, ρ, hl, hst, hok, h => by
    simp only [Stmt.aexec, Stmt.exec]
    exact ⟨passNode_sound hl h, hl, hst, probe_obs h⟩
  | .ite c thn rest, cur, ρ, hl, hst, hok, h => by
    simp only [Stmt.ok, Bool.and_eq_true] at hok
    simp only [Stmt.aexec, Stmt.exec]
    have hes := edges_sound (W := W) nv c cur ρ hl hst hok.1.1 h
    cases hc : c.eval ρ
    · simp only [Bool.false_eq_true, ↓reduceIte]
      obtain ⟨⟨p, hp, hs⟩, hlen, hst', hobs⟩ :=
        Else.aexec_sound nv d hcl rest cur _ ρ hl hst hok.2 (hes.2 hc)
      exact ⟨finishLabel_sound ⟨p, by simp [hp], hs⟩, hlen, hst', hobs.right⟩
    · simp only [↓reduceIte]
      obtain ⟨hs, hlen, hst', hobs⟩ :=
        Block.aexec_sound nv d hcl thn _ ρ hl hst hok.1.2 (finishLabel_sound (d := cur) (hes.1 hc))
      exact ⟨finishLabel_sound ⟨_, by simp, hs⟩, hlen, hst', hobs.left⟩
theorem Else.aexec_sound (nv : Nat) (d : Nat → Atom) (hcl : ∀ a b : Nat, W a = false → W b = false) :
    ∀ (e : Else) (cur : Pt) (ins : List Pt) (ρ : Env),
    ρ.length = nv → StoredOK S ρ → e.ok S = true → (∃ p ∈ ins, SoundPt W ρ p) →
    (∃ p ∈ (e.aexec nv d cur ins).1, SoundPt W (e.exec ρ).1 p) ∧ (e.exec ρ).1.length = nv ∧
      StoredOK S (e.exec ρ).1 ∧ ObsOK W (e.exec ρ).2 (e.aexec nv d cur ins).2
  | .none, cur, ins, ρ, hl, hst, hok, h => by
    simp only [Else.aexec, Else.exec]
    exact ⟨⟨finishLabel ins cur, by simp, finishLabel_sound h⟩, hl, hst, ObsOK.nil⟩
  | .els b, cur, ins, ρ, hl, hst, hok, h => by
    simp only [Else.aexec, Else.exec]
    obtain ⟨hs, hlen, hst', hobs⟩ := Block.aexec_sound nv d hcl b _ ρ hl hst (by simpa [Else.ok] using hok)
      (finishLabel_sound (d := cur) h)
    exact ⟨⟨_, by simp, hs⟩, hlen, hst', hobs⟩
  | .elif c thn rest, cur, ins, ρ, hl, hst, hok, h => by
    simp only [Else.ok, Bool.and_eq_true] at hok
    simp only [Else.aexec, Else.exec]
    have hps := finishLabel_sound (d := cur) h
    have hes := edges_sound (W := W) nv c _ ρ hl hst hok.1.1 hps
    cases hc : c.eval ρ
    · simp only [Bool.false_eq_true, ↓reduceIte]
      obtain ⟨⟨p, hp, hs⟩, hlen, hst', hobs⟩ :=
        Else.aexec_sound nv d hcl rest cur _ ρ hl hst hok.2 (hes.2 hc)
      exact ⟨⟨p, by simp [hp], hs⟩, hlen, hst', hobs.right⟩
    · simp only [↓reduceIte]
      obtain ⟨hs, hlen, hst', hobs⟩ :=
        Block.aexec_sound nv d hcl thn _ ρ hl hst hok.1.2 (finishLabel_sound (d := cur) (hes.1 hc))
      exact ⟨⟨_, by simp, hs⟩, hlen, hst', hobs.left⟩
theorem Block.aexec_sound (nv : Nat) (d : Nat → Atom) (hcl : ∀ a b : Nat, W a = false → W b = false) :
    ∀ (b : Block) (cur : Pt) (ρ : Env), ρ.length = nv →
    StoredOK S ρ → b.ok S = true → SoundPt W ρ cur →
    SoundPt W (b.exec ρ).1 (b.aexec nv d cur).1 ∧ (b.exec ρ).1.length = nv ∧ StoredOK S (b.exec ρ).1 ∧
      ObsOK W (b.exec ρ).2 (b.aexec nv d cur).2
  | .nil, cur, ρ, hl, hst, hok, h => by
    simp only [Block.aexec, Block.exec]
    exact ⟨h, hl, hst, ObsOK.nil⟩
  | .cons s rest, cur, ρ, hl, hst, hok, h => by
    simp only [Block.ok, Bool.and_eq_true] at hok
    simp only [Block.aexec, Block.exec]
    obtain ⟨hs1, hl1, hst1, ho1⟩ := Stmt.aexec_sound nv d hcl s cur ρ hl hst hok.1 h
    obtain ⟨hs2, hl2, hst2, ho2⟩ := Block.aexec_sound nv d hcl rest _ _ hl1 hst1 hok.2 hs1
    exact ⟨hs2, hl2, hst2, ho1.append ho2⟩
end

/-! ### programs -/

theorem widen_has {a : Atom} {v : Val} (h : a.has v = true) : (widen a).has v = true := by
  cases a <;> cases v <;> simp_all [widen, Atom.has]

theorem declTy_has (p : Prog) (x : Nat) : (p.declTy x).has (p.initEnv.get x) = true := by
  unfold Prog.declTy Prog.initEnv Env.get
  simp only [List.getD, List.getElem?_map]
  cases hx : p.decls[x]? with
  | none => simp [Atom.has]
  | some dcl =>
    cases dcl with
    | none => simp [Atom.has]
    | some l =>
      simp only [Option.map_some, Option.getD_some]
      split
      · exact widen_has (lit_ty_has l)
      · exact lit_ty_has l

theorem declTy_ne_unknown (p : Prog) (x : Nat) : p.declTy x ≠ .unknown := by
  unfold Prog.declTy
  split
  · simp
  · rename_i l _
    split <;> cases l <;> simp [Lit.ty, widen]

theorem initPt_sound (p : Prog) : SoundPt W p.initEnv p.initPt := by
  unfold Prog.initPt
  apply soundSt_mk (by simp [Prog.initEnv])
  intro x _ _ m
  cases m <;> simpa [Res3.get, Res.has, has_single] using declTy_has p x

end Flow
