import EmmyVerif.Model.Json
/-! Lemmas about the `Json` model (C31, C32): the flattened map as a lookup function. -/
namespace Json

/-! ### prefixes and conflicts -/

theorem isPrefixOf_length (p s : Key) (h : isPrefixOf p s = true) : p.length ≤ s.length := by
  induction p generalizing s with
  | nil => simp
  | cons a p ih =>
    cases s with
    | nil => simp [isPrefixOf] at h
    | cons b s =>
      simp only [isPrefixOf, Bool.and_eq_true] at h
      have := ih s h.2
      simp; omega

theorem not_nested_self (k : Key) : isNestedBelow k k = false := by
  cases h : isNestedBelow k k with
  | false => rfl
  | true =>
    have := isPrefixOf_length _ _ h
    simp at this
    omega

theorem conflicts_self (k : Key) : conflicts k k = false := by
  simp [conflicts, not_nested_self]

theorem conflicts_comm (a b : Key) : conflicts a b = conflicts b a := by
  simp [conflicts, Bool.or_comm]

/-! ### lookup through `upsert`, `filter`, `set` -/

theorem lookup_upsert (k k' : Key) (v : J) (m : Flat) :
    lookup k' (upsert k v m) = if k' = k then some v else lookup k' m := by
  induction m with
  | nil =>
    by_cases h : k' = k
    · subst h; simp [upsert, lookup]
    · have : ¬ k = k' := fun e => h e.symm
      simp [upsert, lookup, h, this]
  | cons e rest ih =>
    obtain ⟨k0, v0⟩ := e
    simp only [upsert]
    by_cases h0 : k0 = k
    · subst h0
      by_cases h : k' = k0
      · subst h; simp [lookup]
      · have : ¬ k0 = k' := fun e => h e.symm
        simp [lookup, h, this]
    · have hb : (k0 == k) = false := by simp [h0]
      simp only [hb]
      by_cases h : k' = k
      · subst h
        have : ¬ k0 = k' := h0
        simp [lookup, this, ih]
      · by_cases h1 : k0 = k'
        · subst h1; simp [lookup, h]
        · simp [lookup, h1, ih, h]

theorem lookup_filter (k' : Key) (p : Key → Bool) (m : Flat) :
    lookup k' (m.filter fun e => p e.1) = if p k' then lookup k' m else none := by
  induction m with
  | nil => simp [lookup]
  | cons e rest ih =>
    obtain ⟨k0, v0⟩ := e
    by_cases hp : p k0 = true
    · simp only [List.filter_cons, hp, if_true, lookup]
      by_cases h : k0 = k'
      · subst h; simp [hp]
      · simp [h, ih]
    · have hp' : p k0 = false := by simpa using hp
      simp only [List.filter_cons, hp', lookup]
      by_cases h : k0 = k'
      · subst h; simp [hp', ih]
      · simp [h, ih]

/-- the value `set` stores under its own key -/
def setValue (old : Option J) (v : J) : J :=
  match old, v with
  | some (.arr base), .arr ov => .arr (dedupAppend base ov)
  | _, _ => v

theorem set_eq (m : Flat) (k : Key) (v : J) :
    set m k v = upsert k (setValue (lookup k (m.filter fun e => !conflicts e.1 k)) v)
      (m.filter fun e => !conflicts e.1 k) := by
  unfold set setValue
  simp only []
  split <;> simp_all

/-- **`set` as a function on lookups**: the key itself gets the new value (arrays appended),
conflicting keys disappear, every other key is unchanged -/
theorem lookup_set (m : Flat) (k k' : Key) (v : J) :
    lookup k' (set m k v) =
      if k' = k then some (setValue (lookup k m) v)
      else if conflicts k' k then none else lookup k' m := by
  rw [set_eq, lookup_upsert]
  have hf := fun x => lookup_filter x (fun a => !conflicts a k) m
  by_cases h : k' = k
  · subst h
    simp only [if_true]
    rw [hf k']
    simp [conflicts_self]
  · simp only [h, if_false]
    rw [hf k']
    cases hc : conflicts k' k <;> simp

/-! ### lookup-equivalence -/

def Equiv (m m' : Flat) : Prop := ∀ k, lookup k m = lookup k m'

theorem Equiv.refl (m : Flat) : Equiv m m := fun _ => rfl
theorem Equiv.trans {a b c : Flat} (h1 : Equiv a b) (h2 : Equiv b c) : Equiv a c :=
  fun k => (h1 k).trans (h2 k)

theorem set_congr {m m' : Flat} (h : Equiv m m') (k : Key) (v : J) : Equiv (set m k v) (set m' k v) := by
  intro k'
  rw [lookup_set, lookup_set, h k, h k']

theorem applyLeaves_congr {m m' : Flat} (h : Equiv m m') (ls : Flat) :
    Equiv (applyLeaves m ls) (applyLeaves m' ls) := by
  induction ls generalizing m m' with
  | nil => exact h
  | cons e rest ih => exact ih (set_congr h e.1 e.2)

/-- two settings that neither coincide nor conflict can be applied in either order -/
theorem set_comm (m : Flat) (k1 k2 : Key) (v1 v2 : J) (hne : k1 ≠ k2) (hc : conflicts k1 k2 = false) :
    Equiv (set (set m k1 v1) k2 v2) (set (set m k2 v2) k1 v1) := by
  intro k
  have hc' : conflicts k2 k1 = false := by rw [conflicts_comm]; exact hc
  have hne' : k2 ≠ k1 := fun e => hne e.symm
  simp only [lookup_set]
  by_cases h1 : k = k1
  · subst h1
    simp [hne, hc]
  · by_cases h2 : k = k2
    · subst h2
      simp [hne', hc']
    · simp only [h1, h2, if_false]
      cases conflicts k k1 <;> cases conflicts k k2 <;> simp

end Json
