import EmmyVerif.Lemmas.Text
/-! `splitLines` produces a well-formed document whose join is the text; prefixes are boundaries. -/
namespace Text

theorem join_splitAux (t cur : List Char) : join (splitAux t cur) = cur ++ t := by
  fun_induction splitAux t cur <;> simp_all [join]

theorem splitAux_ne_nil (t cur : List Char) : splitAux t cur ≠ [] := by
  fun_induction splitAux t cur <;> simp_all

theorem wf_cons (l : Line) (d : Doc) (hd : d ≠ []) :
    WF (l :: d) ↔ (l.terminated = true ∧ l.chars ≠ [] ∧ WF d) := by
  cases d with
  | nil => exact absurd rfl hd
  | cons l' rest => simp [WF]

theorem wf_splitAux (t cur : List Char) : WF (splitAux t cur) := by
  fun_induction splitAux t cur
  case case1 => simp [WF]
  case case2 => simp [WF]
  case case3 => simp [WF]
  case case7 ih => exact ih
  all_goals (rw [wf_cons _ _ (splitAux_ne_nil _ _)]; simp_all)

theorem len8_pos_of_ne_nil {c : List Char} (h : c ≠ []) : 0 < len8 c := by
  cases c with
  | nil => exact absurd rfl h
  | cons x xs => have := u8_pos x; simp [len8]; omega

theorem boundary_of_prefix (d : Doc) (hwf : WF d) (q s : List Char) (h : join d = q ++ s) :
    Boundary d (len8 q) := by
  induction d generalizing q with
  | nil => exact absurd hwf (by simp [WF])
  | cons l rest ih =>
    cases rest with
    | nil => exact ⟨q, s, by simpa [join] using h, rfl⟩
    | cons l' rest' =>
      obtain ⟨_, _, hwf'⟩ := hwf
      simp only [join] at h
      rcases List.append_eq_append_iff.mp h with ⟨a, hq, hJ⟩ | ⟨c, hl, hs⟩
      · right
        refine ⟨by rw [hq]; simp, ?_⟩
        have : len8 q - len8 l.chars = len8 a := by rw [hq]; simp
        rw [this]
        exact ih hwf' a (by simpa [join] using hJ)
      · by_cases hc : c = []
        · subst hc
          right
          simp at hl hs
          refine ⟨by rw [hl]; exact Nat.le_refl _, ?_⟩
          have : len8 q - len8 l.chars = len8 ([] : List Char) := by rw [hl]; simp [len8]
          rw [this]
          exact ih hwf' [] (by simp [join, hs])
        · left
          have := len8_pos_of_ne_nil hc
          exact ⟨by rw [hl]; simp; omega, q, c, hl, rfl⟩

theorem len8_join_take (d : Doc) (ln : Nat) (l : Line) (h : d[ln]? = some l) :
    len8 ((d.take ln).flatMap (·.chars)) + len8 l.chars ≤ len8 (join d) := by
  induction d generalizing ln with
  | nil => simp at h
  | cons x rest ih =>
    cases ln with
    | zero => simp at h; subst h; simp [join, len8]
    | succ k =>
      have := ih k (by simpa using h)
      simp [join, List.take_succ_cons, List.flatMap_cons]; omega

theorem len8_dropLast_le (cs : List Char) : len8 cs.dropLast ≤ len8 cs := by
  induction cs with
  | nil => simp [len8]
  | cons c cs ih =>
    cases cs with
    | nil => simp [len8]
    | cons c' cs' => simp only [List.dropLast_cons_cons, len8] at *; omega

theorem len8_reach_le (l : Line) : len8 l.reach ≤ len8 l.chars := by
  unfold Line.reach; split
  · exact len8_dropLast_le _
  · exact Nat.le_refl _

end Text
