import EmmyVerif.Lemmas.UriParse
/-! Definitions and lemmas for the C34 theorems: normalised component lists, alternative
encodings (`AltEnc`), and the facts that a percent-normalised alternative spelling is a clean path
that decodes to the component. -/
namespace Uri

/-- component list of a normalised absolute path: components are non-empty, contain no `/`,
are neither `.` nor `..` (bytes are bytes) -/
def Normal (cs : List (List Nat)) : Prop :=
  ∀ c ∈ cs, c ≠ [] ∧ (∀ b ∈ c, b < 256 ∧ b ≠ 47) ∧ c ≠ [46] ∧ c ≠ [46, 46]

theorem isDot_decode (s : List Nat) (h : isDot s = true) : pctDecode s = [46] := by
  simp only [isDot, Bool.or_eq_true, beq_iff_eq] at h
  rcases h with (rfl | rfl) | rfl <;> decide

theorem isDotDot_decode (s : List Nat) (h : isDotDot s = true) : pctDecode s = [46, 46] := by
  simp only [isDotDot, Bool.or_eq_true, beq_iff_eq] at h
  rcases h with (((((((rfl | rfl) | rfl) | rfl) | rfl) | rfl) | rfl) | rfl) | rfl <;> decide

/-- a segment that decodes to something other than `.`/`..` is not a dot segment -/
theorem not_dot_of_decode (c s : List Nat) (hd : pctDecode s = c) (h1 : c ≠ [46]) (h2 : c ≠ [46, 46]) :
    isDot s = false ∧ isDotDot s = false := by
  constructor
  · cases h : isDot s with
    | false => rfl
    | true => exact absurd ((isDot_decode s h).symm.trans hd).symm h1
  · cases h : isDotDot s with
    | false => rfl
    | true => exact absurd ((isDotDot_decode s h).symm.trans hd).symm h2

theorem clean_encoded (cs : List (List Nat)) (h : Normal cs) : Clean (cs.map encSeg) := by
  intro s hs
  obtain ⟨c, hc, rfl⟩ := List.mem_map.mp hs
  obtain ⟨hne, hb, h1, h2⟩ := h c hc
  have hdec : pctDecode (encSeg c) = c := by
    have := pctDecode_encSeg c (fun b hb' => (hb b hb').1) []
    simpa [pctDecode_nil] using this
  have := not_dot_of_decode c (encSeg c) hdec h1 h2
  exact ⟨encSeg_ne_nil c hne, encSeg_plain c (fun b hb' => (hb b hb').1), this.1, this.2⟩

theorem components_joinPath (cs : List (List Nat)) (h : Normal cs) :
    components (joinPath cs) = some cs := by
  rw [joinPath_eq]
  simp only [components, if_true]
  cases hcs : cs with
  | nil => simp [joinSlash, splitSlash]
  | cons c rest =>
    rw [← hcs]
    rw [splitSlash_joinSlash cs (by simp [hcs]) (fun s hs b hb => ((h s hs).2.1 b hb).2)]
    congr 1
    apply List.filter_eq_self.mpr
    intro s hs
    obtain ⟨hne, _, h1, _⟩ := h s hs
    cases s with
    | nil => exact absurd rfl hne
    | cons b s' =>
      simp at h1 ⊢
      by_cases hb : b = 46
      · exact Or.inr (h1 hb)
      · exact Or.inl hb

theorem all2_enc (cs : List (List Nat)) (h : ∀ c ∈ cs, ∀ b ∈ c, b < 256) :
    All2 (fun c u => ∀ rest, pctDecode (u ++ rest) = c ++ pctDecode rest) cs (cs.map encSeg) := by
  induction cs with
  | nil => exact .nil
  | cons c cs ih =>
    exact .cons (fun rest => pctDecode_encSeg c (h c (by simp)) rest)
      (ih (fun x hx => h x (by simp [hx])))

/-- a byte that may stand for itself in a URI path segment without changing the path -/
def rawOk (b : Nat) : Bool :=
  decide (32 < b) && decide (b < 256) && b != 35 && b != 37 && b != 47 && b != 63 && b != 92

/-- `AltEnc c u`: the URI segment `u` spells the path component `c` byte by byte, each byte either
raw (when `rawOk`) or as `%XX` with hex digits of either case -/
inductive AltEnc : List Nat → List Nat → Prop
  | nil : AltEnc [] []
  | raw {b c u} : rawOk b = true → AltEnc c u → AltEnc (b :: c) (b :: u)
  | pct {b h l x y c u} : hexVal h = some x → hexVal l = some y → b = x * 16 + y →
      AltEnc c u → AltEnc (b :: c) (37 :: h :: l :: u)

theorem hexVal_range (h x : Nat) (hh : hexVal h = some x) : plain h = true ∧ x < 16 := by
  unfold hexVal at hh
  split at hh
  · have : 48 ≤ h ∧ h ≤ 57 := by assumption
    cases hh
    refine ⟨?_, by omega⟩
    have : h = 48 ∨ h = 49 ∨ h = 50 ∨ h = 51 ∨ h = 52 ∨ h = 53 ∨ h = 54 ∨ h = 55 ∨ h = 56 ∨ h = 57 := by omega
    rcases this with rfl | rfl | rfl | rfl | rfl | rfl | rfl | rfl | rfl | rfl <;> decide
  · split at hh
    · have : 65 ≤ h ∧ h ≤ 70 := by assumption
      cases hh
      refine ⟨?_, by omega⟩
      have : h = 65 ∨ h = 66 ∨ h = 67 ∨ h = 68 ∨ h = 69 ∨ h = 70 := by omega
      rcases this with rfl | rfl | rfl | rfl | rfl | rfl <;> decide
    · split at hh
      · have : 97 ≤ h ∧ h ≤ 102 := by assumption
        cases hh
        refine ⟨?_, by omega⟩
        have : h = 97 ∨ h = 98 ∨ h = 99 ∨ h = 100 ∨ h = 101 ∨ h = 102 := by omega
        rcases this with rfl | rfl | rfl | rfl | rfl | rfl <;> decide
      · cases hh

theorem rawOk_facts (b : Nat) (h : rawOk b = true) :
    32 < b ∧ b < 256 ∧ b ≠ 35 ∧ b ≠ 37 ∧ b ≠ 47 ∧ b ≠ 63 ∧ b ≠ 92 := by
  simp [rawOk] at h; omega

/-- bytes of an alternative spelling survive the outer layers and are not separators -/
theorem altEnc_bytes {c u : List Nat} (h : AltEnc c u) :
    ∀ b ∈ u, uriSafe b ∧ b ≠ 47 ∧ b ≠ 92 := by
  induction h with
  | nil => simp
  | raw hr _ ih =>
    intro x hx
    rcases List.mem_cons.mp hx with rfl | hx
    · have := rawOk_facts _ hr; exact ⟨⟨by omega, by omega, by omega⟩, by omega, by omega⟩
    · exact ih x hx
  | pct hh hl _ _ ih =>
    intro x hx
    simp only [List.mem_cons] at hx
    rcases hx with rfl | rfl | rfl | hx
    · exact ⟨⟨by omega, by omega, by omega⟩, by omega, by omega⟩
    · have := plain_gt _ (hexVal_range _ _ hh).1; exact ⟨⟨by omega, by omega, by omega⟩, by omega, by omega⟩
    · have := plain_gt _ (hexVal_range _ _ hl).1; exact ⟨⟨by omega, by omega, by omega⟩, by omega, by omega⟩
    · exact ih x hx

theorem normByte_of_plain (b : Nat) (h : plain b = true) : normByte b = [b] := by
  have : inPathSet b = false := by simp [plain] at h; simp [h]
  simp [normByte, this]

/-- the parser's percent-normalisation of an alternative spelling decodes to the component -/
theorem altEnc_decode {c u : List Nat} (h : AltEnc c u) (rest : List Nat) :
    pctDecode (normSeg u ++ rest) = c ++ pctDecode rest := by
  induction h with
  | nil => simp [normSeg]
  | @raw b c u hr _ ih =>
    have hb := rawOk_facts b hr
    have hcons : normSeg (b :: u) = normByte b ++ normSeg u := by simp [normSeg]
    rw [hcons, List.append_assoc]
    by_cases hp : inPathSet b = true
    · have : normByte b = pct b := by simp [normByte, hp]
      rw [this, pctDecode_pct b hb.2.1, ih]; rfl
    · have : normByte b = [b] := by simp [normByte, hp]
      rw [this]
      simp only [List.cons_append, List.nil_append]
      rw [pctDecode_raw b _ hb.2.2.2.1, ih]
  | @pct b h l x y c u hh hl hbxy _ ih =>
    have h1 := normByte_of_plain h (hexVal_range h x hh).1
    have h2 := normByte_of_plain l (hexVal_range l y hl).1
    have h3 : normByte 37 = [37] := by decide
    have hcons : normSeg (37 :: h :: l :: u) = 37 :: h :: l :: normSeg u := by
      simp [normSeg, h1, h2, h3]
    rw [hcons]
    simp only [List.cons_append]
    rw [pctDecode_triple h l x y _ hh hl, ih, hbxy]

theorem normSeg_plain (u : List Nat) (h : ∀ b ∈ u, b < 256 ∧ b ≠ 47 ∧ b ≠ 92) :
    ∀ x ∈ normSeg u, plain x = true := by
  intro x hx
  simp only [normSeg, List.mem_flatMap] at hx
  obtain ⟨b, hb, hx⟩ := hx
  unfold normByte at hx
  split at hx
  · exact pct_plain b (h b hb).1 x hx
  · simp at hx; subst hx
    have := h x hb
    simp_all [plain]

theorem altEnc_lt {c u : List Nat} (h : AltEnc c u) : ∀ b ∈ u, b < 256 := by
  induction h with
  | nil => simp
  | raw hr _ ih =>
    intro x hx
    rcases List.mem_cons.mp hx with rfl | hx
    · exact (rawOk_facts _ hr).2.1
    · exact ih x hx
  | pct hh hl _ _ ih =>
    intro x hx
    simp only [List.mem_cons] at hx
    rcases hx with rfl | rfl | rfl | hx
    · omega
    · have := plain_gt _ (hexVal_range _ _ hh).1; omega
    · have := plain_gt _ (hexVal_range _ _ hl).1; omega
    · exact ih x hx

theorem altEnc_ne_nil {c u : List Nat} (h : AltEnc c u) (hc : c ≠ []) : normSeg u ≠ [] := by
  cases h with
  | nil => exact absurd rfl hc
  | raw _ _ => simp only [normSeg, List.flatMap_cons, normByte]; split <;> simp [pct]
  | pct _ _ _ _ => simp only [normSeg, List.flatMap_cons, normByte]; split <;> simp [pct]

theorem all2_map_norm {cs us : List (List Nat)} (h : All2 AltEnc cs us) :
    All2 (fun c u => ∀ rest, pctDecode (u ++ rest) = c ++ pctDecode rest) cs (us.map normSeg) := by
  induction h with
  | nil => exact .nil
  | cons hcu _ ih => exact .cons (fun rest => altEnc_decode hcu rest) ih

theorem clean_alt {cs us : List (List Nat)} (hn : Normal cs) (h : All2 AltEnc cs us) :
    Clean (us.map normSeg) := by
  induction h with
  | nil => intro s hs; simp at hs
  | @cons c u cs' us' hcu _ ih =>
    intro s hs
    simp only [List.map_cons, List.mem_cons] at hs
    rcases hs with rfl | hs
    · obtain ⟨hne, _, h1, h2⟩ := hn c (by simp)
      have hdec : pctDecode (normSeg u) = c := by
        simpa [pctDecode_nil] using altEnc_decode hcu []
      have hplain := normSeg_plain u (fun b hb =>
        ⟨altEnc_lt hcu b hb, (altEnc_bytes hcu b hb).2.1, (altEnc_bytes hcu b hb).2.2⟩)
      have := not_dot_of_decode c (normSeg u) hdec h1 h2
      exact ⟨altEnc_ne_nil hcu hne, hplain, this.1, this.2⟩
    · exact ih (fun x hx => hn x (by simp [hx])) s hs

theorem dots_alt {cs us : List (List Nat)} (hn : Normal cs) (h : All2 AltEnc cs us) :
    ∀ s ∈ us.map normSeg, isDot s = false ∧ isDotDot s = false :=
  fun s hs => ⟨(clean_alt hn h s hs).2.2.1, (clean_alt hn h s hs).2.2.2⟩

theorem all2_mem {cs us : List (List Nat)} (h : All2 AltEnc cs us) :
    ∀ s ∈ us, ∃ c, AltEnc c s := by
  induction h with
  | nil => intro s hs; simp at hs
  | cons hcu _ ih =>
    intro s hs
    rcases List.mem_cons.mp hs with rfl | hs
    · exact ⟨_, hcu⟩
    · exact ih s hs

theorem all2_ne_nil {cs us : List (List Nat)} (h : All2 AltEnc cs us) (hne : cs ≠ []) : us ≠ [] := by
  cases h with
  | nil => exact absurd rfl hne
  | cons _ _ => simp

theorem lookup_cons_self (k : Key) (i : Nat) (l : List (Key × Nat)) : lookup k ((k, i) :: l) = some i := by
  simp [lookup]

/-- asking a `Vfs` twice for the same path gives the same id, whatever its state -/
theorem fileId_again (v : Vfs) (p : List Nat) :
    ((v.fileId (some p)).2.fileId (some p)).1 = (v.fileId (some p)).1 := by
  cases h : lookup (keyOf p) v.ids with
  | some i => simp [Vfs.fileId, h]
  | none => simp [Vfs.fileId, h, lookup_cons_self]

/-- the canonical URI is one of the alternative spellings -/
theorem altEnc_encSeg (c : List Nat) (h : ∀ b ∈ c, b < 256) : AltEnc c (encSeg c) := by
  induction c with
  | nil => exact .nil
  | cons b c ih =>
    have hb := h b (by simp)
    have ih' := ih (fun x hx => h x (by simp [hx]))
    have hcons : encSeg (b :: c) = encByte b ++ encSeg c := by simp [encSeg]
    rw [hcons]
    by_cases hs : inSegSet b = true
    · have : encByte b = pct b := by simp [encByte, hs]
      rw [this]
      exact .pct (hexVal_hexUp (b / 16) (by omega)) (hexVal_hexUp (b % 16) (by omega)) (by omega) ih'
    · have : encByte b = [b] := by simp [encByte, hs]
      rw [this]
      refine .raw ?_ ih'
      simp [inSegSet, inPathSet] at hs
      simp [rawOk]; omega

/-! ### histories -/

/-- two histories: the same operations, addressed through URI strings that decode alike -/
inductive SameHistory : List (Op × List Nat) → List (Op × List Nat) → Prop
  | nil : SameHistory [] []
  | cons {op s1 s2 h1 h2} : strToPath s1 = strToPath s2 → SameHistory h1 h2 →
      SameHistory ((op, s1) :: h1) ((op, s2) :: h2)

theorem decodeHistory_same {h1 h2 : List (Op × List Nat)} (h : SameHistory h1 h2) :
    decodeHistory h1 = decodeHistory h2 := by
  induction h with
  | nil => rfl
  | cons hs _ ih => simp only [decodeHistory, hs, ih]

/-- two histories whose URIs are alternative percent-encodings of the same normalised paths -/
inductive AltHistory : List (Op × List Nat) → List (Op × List Nat) → Prop
  | nil : AltHistory [] []
  | cons {op cs us1 us2 h1 h2} : Normal cs → All2 AltEnc cs us1 → All2 AltEnc cs us2 → AltHistory h1 h2 →
      AltHistory ((op, filePrefix ++ joinPath us1) :: h1) ((op, filePrefix ++ joinPath us2) :: h2)

theorem lookup_filter_ne (k : Key) (i : Nat) (l : List (Key × Nat)) (h : lookup k l = some i) :
    lookup k (l.filter fun e => e.2 != i) = none ∨
      ∃ j, j ≠ i ∧ lookup k (l.filter fun e => e.2 != i) = some j := by
  induction l with
  | nil => simp [lookup] at h
  | cons e rest ih =>
    obtain ⟨k0, i0⟩ := e
    by_cases hi : i0 = i
    · subst hi
      simp only [List.filter_cons, bne_self_eq_false, Bool.false_eq_true, if_false]
      by_cases hk : k = k0
      · -- the entry found is dropped; anything found later has another id or nothing is found
        cases hl : lookup k (rest.filter fun e => e.2 != i0) with
        | none => exact Or.inl rfl
        | some j =>
          refine Or.inr ⟨j, ?_, rfl⟩
          intro hj; subst hj
          -- an entry with id j cannot survive the filter
          have : ∀ (l : List (Key × Nat)), lookup k (l.filter fun e => e.2 != j) ≠ some j := by
            intro l
            induction l with
            | nil => simp [lookup]
            | cons e' r' ih' =>
              obtain ⟨k1, i1⟩ := e'
              by_cases h1 : i1 = j
              · subst h1; simpa using ih'
              · have : (i1 != j) = true := by simpa using h1
                simp only [List.filter_cons, this, if_true, lookup]
                split
                · intro hc; cases hc; exact h1 rfl
                · exact ih'
          exact this rest hl
      · simp only [lookup, hk, if_false] at h
        exact ih h
    · have hb : (i0 != i) = true := by simpa using hi
      simp only [List.filter_cons, hb, if_true, lookup]
      by_cases hk : k = k0
      · simp only [lookup, hk, if_true] at h
        cases h; exact absurd rfl hi
      · simp only [lookup, hk, if_false] at h ⊢
        exact ih h

end Uri
