import EmmyVerif.Model.EventsMarker
/-! Lemmas: `mark_level` counts exactly the started-but-unfinished nodes. -/
namespace Marker

theorem starts_append (a b : List Ev) : starts (a ++ b) = starts a + starts b := by
  induction a with
  | nil => simp [starts]
  | cons e es ih => cases e with
    | start n p => cases n <;> simp [starts, ih] <;> omega
    | fin => simp [starts, ih]
    | tok => simp [starts, ih]
    | trivia => simp [starts, ih]

theorem ends_append (a b : List Ev) : ends (a ++ b) = ends a + ends b := by
  induction a with
  | nil => simp [ends]
  | cons e es ih => cases e <;> simp [ends, ih] <;> omega

/-- turning a live `NodeStart` into `None` removes one start, no end -/
theorem setNone_counts (evs : List Ev) (pos p : Nat) (h : evs[pos]? = some (.start false p)) :
    starts evs = starts (setNone evs pos) + 1 ∧ ends (setNone evs pos) = ends evs ∧
      (setNone evs pos).length = evs.length := by
  unfold setNone
  rw [h]
  simp only [List.length_set, and_true]
  induction evs generalizing pos with
  | nil => simp at h
  | cons e es ih =>
    cases pos with
    | zero =>
      simp at h; subst h
      simp [starts, ends]
    | succ k =>
      have h' : es[k]? = some (.start false p) := by simpa using h
      obtain ⟨i1, i2⟩ := ih k h'
      simp only [List.set_cons_succ]
      cases e with
      | start n q => cases n <;> simp [starts, ends, i1, i2] <;> omega
      | fin => simp [starts, ends, i1, i2]
      | tok => simp [starts, ends, i1, i2]
      | trivia => simp [starts, ends, i1, i2]

theorem setNone_get_ne (evs : List Ev) (pos q : Nat) (hne : q ≠ pos) :
    (setNone evs pos)[q]? = evs[q]? := by
  unfold setNone
  split
  · rw [List.getElem?_set_ne (Ne.symm hne)]
  · rfl

/-- changing a parent link changes no count and no kind -/
theorem setParent_counts (evs : List Ev) (pos par : Nat) :
    starts (setParent evs pos par) = starts evs ∧ ends (setParent evs pos par) = ends evs ∧
      (setParent evs pos par).length = evs.length := by
  unfold setParent
  split
  · rename_i n q hq
    simp only [List.length_set, and_true]
    induction evs generalizing pos with
    | nil => simp at hq
    | cons e es ih =>
      cases pos with
      | zero => simp at hq; subst hq; cases n <;> simp [starts, ends]
      | succ k =>
        obtain ⟨i1, i2⟩ := ih k (by simpa using hq)
        simp only [List.set_cons_succ]
        cases e with
        | start m r => cases m <;> simp [starts, ends, i1, i2]
        | fin => simp [starts, ends, i1, i2]
        | tok => simp [starts, ends, i1, i2]
        | trivia => simp [starts, ends, i1, i2]
  · exact ⟨rfl, rfl, rfl⟩

theorem setParent_isStart (evs : List Ev) (pos par q : Nat) (p : Nat) (h : evs[q]? = some (.start false p)) :
    ∃ p', (setParent evs pos par)[q]? = some (.start false p') := by
  unfold setParent
  split
  · rename_i n r hr
    by_cases hq : pos = q
    · subst hq
      rw [h] at hr; cases hr
      have hlt : pos < evs.length := by
        rcases Nat.lt_or_ge pos evs.length with hl | hg
        · exact hl
        · rw [List.getElem?_eq_none_iff.mpr hg] at h; cases h
      exact ⟨par, by simp [List.getElem?_set_self hlt]⟩
    · exact ⟨p, by rw [List.getElem?_set_ne hq]; exact h⟩
  · exact ⟨p, h⟩

/-- the invariant of the marker discipline (no raw `push_node_end` in between) -/
structure Inv (s : S) : Prop where
  live_ok : ∀ q ∈ s.live, ∃ p, s.events[q]? = some (.start false p)
  nodup : s.live.Nodup
  level : s.markLevel = s.live.length
  count : s.live.length + ends s.events = starts s.events

theorem inv_init : Inv S.init := ⟨by intro q hq; simp [S.init] at hq, by simp [S.init], rfl, by simp [S.init, starts, ends]⟩

theorem getElem?_append_left' (a b : List Ev) (q : Nat) (x : Ev) (h : a[q]? = some x) : (a ++ b)[q]? = some x := by
  have hlt : q < a.length := by
    rcases Nat.lt_or_ge q a.length with hl | hg
    · exact hl
    · rw [List.getElem?_eq_none_iff.mpr hg] at h; cases h
  rw [List.getElem?_append_left hlt]; exact h

theorem live_lt (s : S) (h : Inv s) (q : Nat) (hq : q ∈ s.live) : q < s.events.length := by
  obtain ⟨p, hp⟩ := h.live_ok q hq
  rcases Nat.lt_or_ge q s.events.length with hl | hg
  · exact hl
  · rw [List.getElem?_eq_none_iff.mpr hg] at hp; cases hp

/-- consuming a live marker by turning it into `None` -/
theorem inv_setNone (s : S) (h : Inv s) (pos : Nat) (hpos : pos ∈ s.live) :
    Inv { events := setNone s.events pos, markLevel := s.markLevel - 1, live := s.live.erase pos } := by
  obtain ⟨p, hp⟩ := h.live_ok pos hpos
  obtain ⟨c1, c2, _⟩ := setNone_counts s.events pos p hp
  have hlen : (s.live.erase pos).length = s.live.length - 1 := List.length_erase_of_mem hpos
  have hpos1 : 1 ≤ s.live.length := List.length_pos_of_mem hpos
  refine ⟨?_, h.nodup.erase pos, by simp only [hlen, h.level], ?_⟩
  · intro q hq
    have hne : q ≠ pos := fun e => by
      subst e; exact (List.Nodup.not_mem_erase h.nodup) hq
    obtain ⟨p', hp'⟩ := h.live_ok q (List.mem_of_mem_erase hq)
    exact ⟨p', by simp only; rw [setNone_get_ne _ _ _ hne]; exact hp'⟩
  · simp only [hlen, c2]
    have := h.count
    omega

theorem step_inv (s s' : S) (op : Op) (hop : op ≠ Op.nodeEnd) (h : Inv s) (hs : step s op = some s') : Inv s' := by
  cases op with
  | nodeEnd => exact absurd rfl hop
  | mark =>
    simp only [step, Option.some.injEq] at hs; subst hs
    refine ⟨?_, ?_, by simp [h.level], ?_⟩
    · intro q hq
      simp only [List.mem_cons] at hq
      rcases hq with rfl | hq
      · exact ⟨0, by simp⟩
      · obtain ⟨p, hp⟩ := h.live_ok q hq
        exact ⟨p, getElem?_append_left' _ _ _ _ hp⟩
    · refine List.nodup_cons.mpr ⟨fun hm => ?_, h.nodup⟩
      have := live_lt s h _ hm; omega
    · simp only [List.length_cons, starts_append, ends_append, starts, ends]
      have := h.count; omega
  | bump =>
    simp only [step, Option.some.injEq] at hs; subst hs
    refine ⟨?_, h.nodup, h.level, ?_⟩
    · intro q hq
      obtain ⟨p, hp⟩ := h.live_ok q hq
      exact ⟨p, getElem?_append_left' _ _ _ _ hp⟩
    · simp only [starts_append, ends_append, starts, ends]
      have := h.count; omega
  | undo pos =>
    simp only [step] at hs
    split at hs
    · rename_i hc
      cases hs
      exact inv_setNone s h pos (by simpa using hc)
    · cases hs
  | complete pos =>
    simp only [step] at hs
    split at hs
    · rename_i hc
      have hpos : pos ∈ s.live := by simpa using hc
      split at hs
      · cases hs; exact inv_setNone s h pos hpos
      · cases hs
        have hlen : (s.live.erase pos).length = s.live.length - 1 := List.length_erase_of_mem hpos
        have hpos1 : 1 ≤ s.live.length := List.length_pos_of_mem hpos
        refine ⟨?_, h.nodup.erase pos, by simp only [hlen, h.level], ?_⟩
        · intro q hq
          obtain ⟨p, hp⟩ := h.live_ok q (List.mem_of_mem_erase hq)
          exact ⟨p, getElem?_append_left' _ _ _ _ hp⟩
        · simp only [hlen, starts_append, ends_append, starts, ends]
          have := h.count; omega
    · cases hs
  | precede child =>
    simp only [step, Option.some.injEq] at hs; subst hs
    obtain ⟨c1, c2, c3⟩ := setParent_counts (s.events ++ [Ev.start false 0]) child s.events.length
    refine ⟨?_, ?_, by simp [h.level], ?_⟩
    · intro q hq
      simp only [List.mem_cons] at hq
      have key : ∀ (q p : Nat), (s.events ++ [Ev.start false 0])[q]? = some (Ev.start false p) →
          ∃ p', (setParent (s.events ++ [Ev.start false 0]) child s.events.length ++ [Ev.trivia])[q]? = some (Ev.start false p') := by
        intro q p hqp
        obtain ⟨p', hp'⟩ := setParent_isStart _ child s.events.length q p hqp
        exact ⟨p', getElem?_append_left' _ _ _ _ hp'⟩
      rcases hq with rfl | hq
      · exact key _ 0 (by simp)
      · obtain ⟨p, hp⟩ := h.live_ok q hq
        exact key q p (getElem?_append_left' _ _ _ _ hp)
    · refine List.nodup_cons.mpr ⟨fun hm => ?_, h.nodup⟩
      have := live_lt s h _ hm; omega
    · simp only [List.length_cons, starts_append, ends_append, c1, c2, starts, ends]
      have := h.count; omega

theorem run_inv (ops : List Op) (s s' : S) (hops : ∀ op ∈ ops, op ≠ Op.nodeEnd) (h : Inv s)
    (hr : run step s ops = some s') : Inv s' := by
  induction ops generalizing s with
  | nil => simp [run] at hr; subst hr; exact h
  | cons op ops ih =>
    simp only [run] at hr
    split at hr
    · cases hr
    · rename_i s1 hs1
      exact ih s1 (fun o ho => hops o (by simp [ho])) (step_inv s s1 op (hops op (by simp)) h hs1) hr

theorem closeN_spec (n : Nat) (s : S) (hn : n ≤ s.markLevel) :
    (closeN n s).markLevel = s.markLevel - n ∧ ends (closeN n s).events = ends s.events + n ∧
      starts (closeN n s).events = starts s.events := by
  induction n generalizing s with
  | zero => simp [closeN]
  | succ n ih =>
    simp only [closeN]
    obtain ⟨a, b, c⟩ := ih { s with events := s.events ++ [.fin], markLevel := s.markLevel - 1 } (by simp only; omega)
    simp only [ends_append, starts_append, ends, starts] at a b c
    exact ⟨by omega, by omega, by omega⟩

/-- markers that were live at a position below `base` stay live as long as only markers at or
above `base` are consumed -/
def consumesOnlyFrom (base : Nat) : Op → Bool
  | .complete p | .undo p => decide (base ≤ p)
  | .nodeEnd => false
  | _ => true

theorem filter_erase_not (l : List Nat) (f : Nat → Bool) (p : Nat) (h : f p = false) :
    (l.erase p).filter f = l.filter f := by
  induction l with
  | nil => simp
  | cons x xs ih =>
    by_cases hx : x = p
    · subst hx; simp [List.filter_cons, h]
    · rw [List.erase_cons_tail (by simpa using hx)]
      simp [List.filter_cons, ih]

theorem step_old_live (base : Nat) (s s' : S) (op : Op) (hc : consumesOnlyFrom base op = true)
    (hs : step s op = some s') : (s.live.filter (· < base)).length ≤ (s'.live.filter (· < base)).length := by
  cases op with
  | nodeEnd => simp [consumesOnlyFrom] at hc
  | mark =>
    simp only [step, Option.some.injEq] at hs; subst hs
    simp only [List.filter_cons]; split <;> simp
  | bump => simp only [step, Option.some.injEq] at hs; subst hs; exact Nat.le_refl _
  | precede c =>
    simp only [step, Option.some.injEq] at hs; subst hs
    simp only [List.filter_cons]; split <;> simp
  | undo pos =>
    have hb : base ≤ pos := by simpa [consumesOnlyFrom] using hc
    simp only [step] at hs
    split at hs
    · cases hs
      simp only
      rw [filter_erase_not _ _ _ (by simp; omega)]
      exact Nat.le_refl _
    · cases hs
  | complete pos =>
    have hb : base ≤ pos := by simpa [consumesOnlyFrom] using hc
    simp only [step] at hs
    split at hs
    · split at hs <;> cases hs <;> simp only <;>
        (rw [filter_erase_not _ _ _ (by simp; omega)]; exact Nat.le_refl _)
    · cases hs

theorem run_old_live (base : Nat) (ops : List Op) (s s' : S) (hc : ∀ op ∈ ops, consumesOnlyFrom base op = true)
    (hr : run step s ops = some s') :
    (s.live.filter (· < base)).length ≤ (s'.live.filter (· < base)).length := by
  induction ops generalizing s with
  | nil => simp [run] at hr; subst hr; exact Nat.le_refl _
  | cons op ops ih =>
    simp only [run] at hr
    split at hr
    · cases hr
    · rename_i s1 hs1
      exact Nat.le_trans (step_old_live base s s1 op (hc op (by simp)) hs1)
        (ih s1 (fun o ho => hc o (by simp [ho])) hr)

theorem filter_all_lt (l : List Nat) (base : Nat) (h : ∀ q ∈ l, q < base) : l.filter (· < base) = l := by
  induction l with
  | nil => rfl
  | cons x xs ih =>
    have hx := h x (by simp)
    simp [List.filter_cons, hx, ih (fun q hq => h q (by simp [hq]))]

theorem length_filter_le' (l : List Nat) (f : Nat → Bool) : (l.filter f).length ≤ l.length := by
  induction l with
  | nil => simp
  | cons x xs ih => simp only [List.filter_cons]; split <;> simp <;> omega

end Marker
