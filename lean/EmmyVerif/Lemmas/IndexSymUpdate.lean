import EmmyVerif.Lemmas.IndexSymMember
/-! `Index.Sym`: `update_exact` for the `operators` and `members` maps. -/
namespace Index.Sym
open Index

theorem build_append (a b : List Mut) : build (a ++ b) = b.foldl apply (build a) := by
  unfold build; rw [List.foldl_append]

/-- **operator index: `update_exact`.** -/
theorem operators_update_exact (ms : List Mut) (f : File) (cs : List Mut) (id : File × Nat) :
    aget (update (build ms) f cs).operators id =
      aget (build ((ms.filter fun m => operMutFile m ≠ some f) ++ cs)).operators id := by
  unfold update
  rw [build_append, operators_fold, operators_fold, operators_remove_exact]

/-- **member index: `update_exact`** for the `members` map. -/
theorem members_update_exact (ms : List Mut) (f : File) (cs : List Mut) (id : MId) :
    aget (update (build ms) f cs).members id =
      aget (build ((ms.filter fun m => memberMutFile m ≠ some f) ++ cs)).members id := by
  unfold update
  rw [build_append, members_fold, members_fold, members_remove_exact]

end Index.Sym
