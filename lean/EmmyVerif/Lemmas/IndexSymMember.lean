import EmmyVerif.Lemmas.IndexSymOper
/-! `Index.Sym`, member index: after `remove f` the `members` map has no member of `f` and every other member
unchanged — exactly what the other files' `add_member` calls build. (The owner maps are covered by the tie and by the
two witnesses in Props/C10 only: `add_member_to_owner` is order dependent.) -/
namespace Index.Sym
open Index

def memberVal (m : Mut) (id : MId) : Option Member :=
  match m with
  | .madd _ mem => if mem.id = id then some mem else none
  | _ => none

def memberLast (ms : List Mut) (id : MId) (init : Option Member) : Option Member :=
  ms.foldl (fun acc m => (memberVal m id).or acc) init

def memberMutFile : Mut → Option File
  | .madd _ mem => some mem.id.1
  | _ => none

theorem addMemberToOwner_mem (s : S) (o : MOwner) (id : MId) :
    (addMemberToOwner s o id).members = s.members ∧ (addMemberToOwner s o id).inFiled = s.inFiled := by
  unfold addMemberToOwner
  split
  · exact ⟨rfl, rfl⟩
  · dsimp only
    repeat' split
    all_goals exact ⟨rfl, rfl⟩

theorem bindType_mem (s : S) (f : File) (p v : Nat) :
    (bindType s f p v).members = s.members ∧ (bindType s f p v).inFiled = s.inFiled := by
  unfold bindType; split <;> exact ⟨rfl, rfl⟩

theorem mem_insertD {α : Type} [DecidableEq α] (xs : List α) (x y : α) : y ∈ insertD xs x ↔ y = x ∨ y ∈ xs := by
  unfold insertD
  split
  · next h =>
    constructor
    · exact Or.inr
    · rintro (h1 | h1)
      · subst h1; exact h
      · exact h1
  · simp [or_comm]

theorem addMember_members (s : S) (o : MOwner) (m : Member) : (addMember s o m).members = aset s.members m.id m := by
  unfold addMember
  dsimp only
  split
  · rfl
  · rw [(addMemberToOwner_mem _ o m.id).1]; rfl

/-- `in_filed` after `add_member`: the member item (and possibly the owner item) under the member's file -/
theorem addMember_inFiled (s : S) (o : MOwner) (m : Member) (g : File) (it : InFiledItem) :
    it ∈ agetL (addMember s o m).inFiled g ↔
      (it ∈ agetL s.inFiled g ∨ (g = m.id.1 ∧ (it = .member m.id ∨ (o ≠ .unknown ∧ it = .owner o)))) := by
  unfold addMember
  dsimp only
  split
  · next ho =>
    simp only [addInFile]
    rw [agetL_aset]
    by_cases e : g = m.id.1
    · subst e
      simp only [if_true, mem_insertD, true_and, ho, ne_eq, not_true_eq_false, false_and, or_false]
      exact Or.comm
    · simp [e]
  · next ho =>
    rw [(addMemberToOwner_mem _ o m.id).2]
    simp only [addInFile]
    rw [agetL_aset]
    by_cases e : g = m.id.1
    · subst e
      simp only [if_true, mem_insertD, true_and]
      rw [agetL_aset]
      simp only [if_true, mem_insertD]
      constructor
      · rintro (h1 | h1 | h1)
        · exact Or.inr (Or.inr ⟨ho, h1⟩)
        · exact Or.inr (Or.inl h1)
        · exact Or.inl h1
      · rintro (h1 | h1 | ⟨_, h1⟩)
        · exact Or.inr (Or.inr h1)
        · exact Or.inr (Or.inl h1)
        · exact Or.inl h1
    · simp only [e, if_false, false_and, or_false]
      rw [agetL_aset]
      simp [e]

theorem apply_members (s : S) (m : Mut) (id : MId) :
    aget (apply s m).members id = (memberVal m id).or (aget s.members id) := by
  cases m with
  | madd o mem =>
    simp only [apply, memberVal]
    rw [addMember_members, aget_aset]
    by_cases h : id = mem.id
    · subst h; simp
    · have : ¬ mem.id = id := fun e => h e.symm
      simp [h, this]
  | tdecl f t pos => simp [apply, addTypeDecl, memberVal]
  | tsuper f t v => simp [apply, addSuper, memberVal]
  | tgeneric t v => simp [apply, addGeneric, memberVal]
  | tbind f p v => simp only [apply, memberVal]; rw [(bindType_mem s f p v).1]; simp
  | tns f v => simp [apply, memberVal]
  | tusing f v => simp [apply, memberVal]
  | oper f p o op => simp [apply, addOperator, memberVal]
  | mtable f k v => simp [apply, memberVal]
  | mset o f i => simp [apply, setMemberOwner, addInFile, memberVal]
  | mto o i => simp only [apply, memberVal]; rw [(addMemberToOwner_mem s o i).1]; simp

theorem members_fold (ms : List Mut) (s : S) (id : MId) :
    aget (ms.foldl apply s).members id = memberLast ms id (aget s.members id) := by
  induction ms generalizing s with
  | nil => rfl
  | cons m r ih =>
    simp only [List.foldl_cons, memberLast]
    rw [ih, apply_members]
    rfl

/-- every stored member is listed under its file, and member items are listed under their own file only -/
structure MemListed (s : S) : Prop where
  listed : ∀ id : MId, (aget s.members id).isSome = true → InFiledItem.member id ∈ agetL s.inFiled id.1
  own : ∀ (g : File) (id : MId), InFiledItem.member id ∈ agetL s.inFiled g → id.1 = g

theorem apply_memListed (s : S) (m : Mut) (h : MemListed s) : MemListed (apply s m) := by
  cases m with
  | madd o mem =>
    refine ⟨?_, ?_⟩
    · intro id hid
      simp only [apply] at hid ⊢
      rw [addMember_members, aget_aset] at hid
      rw [addMember_inFiled]
      by_cases e : id = mem.id
      · subst e; exact Or.inr ⟨rfl, Or.inl rfl⟩
      · simp only [e, if_false] at hid
        exact Or.inl (h.listed id hid)
    · intro g id hid
      simp only [apply] at hid
      rw [addMember_inFiled] at hid
      rcases hid with h1 | ⟨h1, h2 | ⟨_, h2⟩⟩
      · exact h.own g id h1
      · cases h2; exact h1.symm
      · cases h2
  | mset o f i =>
    refine ⟨?_, ?_⟩
    · intro id hid
      simp only [apply, setMemberOwner, addInFile] at hid ⊢
      rw [agetL_aset]
      have := h.listed id hid
      split
      · next e => rw [e] at this; exact (mem_insertD _ _ _).mpr (Or.inr this)
      · exact this
    · intro g id hid
      simp only [apply, setMemberOwner, addInFile] at hid
      rw [agetL_aset] at hid
      split at hid
      · next e =>
        rcases (mem_insertD _ _ _).mp hid with h1 | h1
        · cases h1
        · subst e; exact h.own _ id h1
      · exact h.own g id hid
  | mto o i =>
    refine ⟨?_, ?_⟩
    · intro id hid
      simp only [apply] at hid ⊢
      rw [(addMemberToOwner_mem s o i).1] at hid
      rw [(addMemberToOwner_mem s o i).2]
      exact h.listed id hid
    · intro g id hid
      simp only [apply] at hid
      rw [(addMemberToOwner_mem s o i).2] at hid
      exact h.own g id hid
  | tbind f p v =>
    refine ⟨?_, ?_⟩
    · intro id hid
      simp only [apply] at hid ⊢
      rw [(bindType_mem s f p v).1] at hid
      rw [(bindType_mem s f p v).2]
      exact h.listed id hid
    · intro g id hid
      simp only [apply] at hid
      rw [(bindType_mem s f p v).2] at hid
      exact h.own g id hid
  | tdecl f t pos => exact ⟨h.listed, h.own⟩
  | tsuper f t v => exact ⟨h.listed, h.own⟩
  | tgeneric t v => exact ⟨h.listed, h.own⟩
  | tns f v => exact ⟨h.listed, h.own⟩
  | tusing f v => exact ⟨h.listed, h.own⟩
  | oper f p o op => exact ⟨h.listed, h.own⟩
  | mtable f k v => exact ⟨h.listed, h.own⟩

theorem build_memListed (ms : List Mut) : MemListed (build ms) := by
  unfold build
  suffices ∀ s, MemListed s → MemListed (ms.foldl apply s) from
    this S.new ⟨by intro id hid; simp [S.new, aget] at hid, by intro g id hid; simp [S.new, agetL, aget] at hid⟩
  induction ms with
  | nil => intro s h; exact h
  | cons m r ih => intro s h; exact ih _ (apply_memListed s m h)

theorem fold_dropMemberItem_members (items : List InFiledItem) (s : S) (id : MId) :
    aget (items.foldl dropMemberItem s).members id = if InFiledItem.member id ∈ items then none else aget s.members id := by
  induction items generalizing s with
  | nil => simp
  | cons it r ih =>
    simp only [List.foldl_cons]
    rw [ih]
    cases it with
    | owner o => simp [dropMemberItem]
    | member i =>
      simp only [dropMemberItem]
      rw [aget_adel]
      by_cases h1 : InFiledItem.member id ∈ r
      · simp [h1]
      · by_cases h2 : id = i
        · subst h2; simp
        · have : ¬ InFiledItem.member id = InFiledItem.member i := fun e => h2 (by cases e; rfl)
          simp [h1, h2, this]

theorem aget_remove_members (s : S) (f : File) (id : MId) :
    aget (remove s f).members id = if InFiledItem.member id ∈ agetL s.inFiled f then none else aget s.members id := by
  have hop : ∀ (t : S) (ids : List (File × Nat)), (ids.foldl removeOperatorId t).members = t.members := by
    intro t ids
    induction ids generalizing t with
    | nil => rfl
    | cons i r ih =>
      simp only [List.foldl_cons]; rw [ih]
      unfold removeOperatorId
      split
      · rfl
      · dsimp only
        split
        · rfl
        · split <;> rfl
  have h1 : ∀ t : S, (removeOperators t f).members = t.members := by
    intro t; unfold removeOperators; split
    · rfl
    · rw [hop]
  have hfo : ∀ (t : S) (os : List MOwner), (os.foldl (removeFromOwner f) t).members = t.members := by
    intro t os
    induction os generalizing t with
    | nil => rfl
    | cons o r ih =>
      simp only [List.foldl_cons]; rw [ih]
      unfold removeFromOwner; split <;> rfl
  have hti : ∀ (t : S) (ids : List TId), (ids.foldl (removeTypeId f) t).members = t.members ∧ (ids.foldl (removeTypeId f) t).inFiled = t.inFiled := by
    intro t ids
    induction ids generalizing t with
    | nil => exact ⟨rfl, rfl⟩
    | cons i r ih => simp only [List.foldl_cons]; rw [(ih _).1, (ih _).2]; exact ⟨rfl, rfl⟩
  have h3 : (removeTypes s f).members = s.members ∧ (removeTypes s f).inFiled = s.inFiled := by
    unfold removeTypes
    dsimp only
    split <;> split <;> simp [hti]
  have hr : (remove s f).members = (removeOperators (removeMembers (removeTypes s f) f) f).members := rfl
  rw [hr, h1]
  unfold removeMembers
  rw [h3.2]
  cases hi : aget s.inFiled f with
  | none =>
    simp only [agetL, hi, Option.getD_none, List.not_mem_nil, if_false]
    rw [h3.1]
  | some items =>
    simp only [agetL, hi, Option.getD_some]
    rw [hfo, fold_dropMemberItem_members]
    show (if InFiledItem.member id ∈ items then none else aget (removeTypes s f).members id) = _
    rw [h3.1]

theorem memberVal_file {m : Mut} {id : MId} {x : Member} (h : memberVal m id = some x) : memberMutFile m = some id.1 := by
  cases m with
  | madd o mem =>
    simp only [memberVal] at h
    split at h
    · next e => subst e; rfl
    · cases h
  | _ => cases h

theorem memberLast_filter (ms : List Mut) (f : File) (id : MId) (init : Option Member) :
    memberLast (ms.filter fun m => memberMutFile m ≠ some f) id init = if id.1 = f then init else memberLast ms id init := by
  unfold memberLast
  induction ms generalizing init with
  | nil => simp
  | cons m r ih =>
    rw [List.filter_cons]
    by_cases hg : memberMutFile m = some f
    · rw [if_neg (by simpa using hg), ih]
      split
      · rfl
      · next hk =>
        simp only [List.foldl_cons]
        cases hv : memberVal m id with
        | none => rfl
        | some v =>
          have := memberVal_file hv
          rw [hg] at this
          exact absurd (Option.some.inj this).symm hk
    · rw [if_pos (by simpa using hg)]
      simp only [List.foldl_cons]
      rw [ih]
      split
      · next hk =>
        cases hv : memberVal m id with
        | none => rfl
        | some v =>
          have := memberVal_file hv
          rw [hk] at this
          exact absurd this hg
      · rfl

/-- **member index: `remove_exact`** for the `members` map: no member of `f` is left and every other member is
unchanged — what the other files' `add_member` calls build. -/
theorem members_remove_exact (ms : List Mut) (f : File) (id : MId) :
    aget (remove (build ms) f).members id = aget (build (ms.filter fun m => memberMutFile m ≠ some f)).members id := by
  rw [aget_remove_members]
  have e : ∀ l : List Mut, aget (build l).members id = memberLast l id none := by
    intro l; unfold build; rw [members_fold]; rfl
  rw [e, e, memberLast_filter]
  have hl := build_memListed ms
  by_cases hk : id.1 = f
  · simp only [hk, if_true]
    split
    · rfl
    · next hne =>
      cases hs : memberLast ms id none with
      | none => rfl
      | some v =>
        exfalso
        apply hne
        have := hl.listed id (by rw [e, hs]; rfl)
        rw [hk] at this
        exact this
  · simp only [hk, if_false]
    split
    · next hin => exact absurd (hl.own f id hin) hk
    · rfl

end Index.Sym
