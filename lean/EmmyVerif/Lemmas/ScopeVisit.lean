import EmmyVerif.Lemmas.Scope
/-!
# Scope lemmas 2 — `visit` agrees with the position-free `vis` on ordered scope stacks
-/
namespace Scope

theorem repeatBody_mem {kids body : List Node} (h : repeatBody kids = some body) :
    ∃ st, Node.scope .normal st body ∈ kids := by
  unfold repeatBody at h
  split at h
  · rename_i st ch hl
    cases h
    exact ⟨st, List.mem_of_getLast? hl⟩
  · cases h

theorem repeatBody_cons_cons (o c : Node) (cs : List Node) :
    repeatBody (o :: c :: cs) = repeatBody (c :: cs) := by
  unfold repeatBody
  rw [List.getLast?_cons_cons]

theorem repeatBody_single (k : Kind) (st : Nat) (ch : List Node) :
    repeatBody [.scope k st ch] = if k = .normal then some ch else none := by
  cases k <;> simp [repeatBody]

/-- the search of a scope's children while `o` is its open child -/
theorem searchChildren_open (cs : List Node) (k : Kind) (st : Nat) (ch : List Node) (q : Nat)
    (hch : ∀ c ∈ cs, c.pos < st)
    (hpos : if k = .localOrAssign then st = q else st < q) :
    searchChildren (.scope k st ch :: cs) q =
      (if k = .localOrAssign then [] else childScopeDecls k ch) ++ flat cs := by
  by_cases hk : k = .localOrAssign
  · simp only [hk, if_true] at hpos ⊢
    rw [searchChildren_cut _ _ _ (by simp [Node.pos, hpos]) (fun c hc => by have := hch c hc; omega)]
    simp
  · simp only [hk, if_false] at hpos ⊢
    rw [searchChildren_all _ _ (by
      intro c hc
      rcases List.mem_cons.mp hc with rfl | hc
      · simpa [Node.pos] using hpos
      · have := hch c hc; omega)]
    simp [contrib]

/-- Upward visit from an open child: up to declarations already in `seen`, `visit` offers what
`vis` offers. -/
theorem visit_up (fs : List Frame) : ∀ (q : Nat) (seen : List Decl) (k : Kind) (st : Nat) (ch : List Node),
    UpOK fs (.scope k st ch) q → Absorb (.scope k st ch) q seen → ∀ n,
    findN (seen ++ visit fs (some (.scope k st ch)) q false) n = findN (seen ++ vis fs (some k) false) n := by
  induction fs with
  | nil => intro q seen k st ch _ _ n; simp [visit, vis]
  | cons f rest ih =>
    intro q seen k st ch hup habs n
    obtain ⟨hch, hpos, hrest⟩ := hup
    have hch : ∀ c ∈ f.children, c.pos < st ∧ ∀ g ∈ nodeKids c, g.pos < st := hch
    simp only [nodeKind, Node.pos] at hpos
    have hpos' : if k = .localOrAssign then st = q else st < q := by
      by_cases hk : k = .localOrAssign <;> simp_all
    have hchpos : ∀ c ∈ f.children, c.pos < st := fun c hc => (hch c hc).1
    have hstq : st ≤ q := by
      by_cases hk : k = .localOrAssign <;> simp [hk] at hpos' <;> omega
    -- what the open child adds to the search of `f`'s children
    let X := if k = .localOrAssign then [] else childScopeDecls k ch
    have hX : ∀ d ∈ X, d ∈ seen := by
      intro d hd
      by_cases hk : k = .localOrAssign
      · simp [X, hk] at hd
      · simp only [X, hk, if_false] at hd
        exact habs.1 (by simp [nodeKind, hk]) d (by simpa [contrib] using hd)
    have hS : searchChildren (.scope k st ch :: f.children) q = X ++ flat f.children :=
      searchChildren_open f.children k st ch q hchpos hpos'
    -- own declarations: `visit`'s and `vis`'s agree up to `seen`
    have hOwn : ∀ n, findN (seen ++ ownDecls f (some (.scope k st ch)) q false) n
        = findN (seen ++ ownC f (some k) false) n := by
      intro n
      cases hfk : f.kind with
      | localOrAssign => simp [ownDecls, ownC, hfk]
      | normal => simp only [ownDecls, ownC, hfk, kidsOf, hS]; exact findN_absorb seen X _ n hX
      | closure => simp only [ownDecls, ownC, hfk, kidsOf, hS]; exact findN_absorb seen X _ n hX
      | funcStat => simp only [ownDecls, ownC, hfk, kidsOf, hS]; exact findN_absorb seen X _ n hX
      | forRange =>
        simp only [ownDecls, ownC, hfk, kidsOf, inBodyBlock]
        by_cases hk : k = .normal
        · subst hk
          simp only [Bool.not_false, Bool.true_and, if_true, hS]
          exact findN_absorb seen X _ n hX
        · have : inBodyBlock (some (.scope k st ch)) = false := by cases k <;> simp_all [inBodyBlock]
          simp [hk]
      | repeat_ =>
        simp only [ownDecls, ownC, hfk, kidsOf]
        cases hcs : f.children with
        | nil =>
          rw [repeatBody_single]
          by_cases hk : k = .normal
          · subst hk
            simp only [if_true, repeatBody, List.getLast?_nil, Bool.false_eq_true, if_false, List.nil_append, flat_nil]
            have h2 := habs.2 rfl
            simp only [nodeKids] at h2
            have : searchChildren [.scope .normal st ch] q = [] := by
              have := searchChildren_open [] .normal st ch q (by simp) (by simpa using hpos')
              simpa [childScopeDecls] using this
            rw [this]
            simpa using findN_absorb' seen _ n h2
          · simp only [hk, if_false, repeatBody, List.getLast?_nil, Bool.false_eq_true, flat_nil]
            have : searchChildren [.scope k st ch] q = X := by
              have := searchChildren_open [] k st ch q (by simp) hpos'
              simpa [X] using this
            rw [this]
            simpa using findN_absorb' seen X n hX
        | cons c cs =>
          rw [repeatBody_cons_cons, ← hcs, hS]
          cases hb : repeatBody f.children with
          | none =>
            simp only [Bool.false_eq_true, if_false]
            exact findN_absorb seen X _ n hX
          | some body =>
            obtain ⟨bst, hmem⟩ := repeatBody_mem hb
            have hbody : searchChildren body q = flat body :=
              searchChildren_all body q (fun g hg => by
                have := (hch _ hmem).2 g (by simpa [nodeKids] using hg); omega)
            simp only [Bool.false_eq_true, if_false, List.nil_append, hbody]
            have := findN_absorb (seen ++ flat body) X (flat f.children) n
              (fun d hd => List.mem_append_left _ (hX d hd))
            simpa [List.append_assoc] using this
    -- the step to the parent
    have hAbs' : Absorb (.scope f.kind f.start (.scope k st ch :: f.children))
        (if f.kind = .localOrAssign then f.start else q)
        (seen ++ ownDecls f (some (.scope k st ch)) q false) := by
      constructor
      · intro hne d hd
        have hne' : f.kind ≠ .localOrAssign := by simpa [nodeKind] using hne
        simp only [contrib, childScopeDecls_scope_cons] at hd
        have hd' := childScopeDecls_sub_flat _ _ d hd
        apply List.mem_append_right
        cases hfk : f.kind with
        | localOrAssign => exact absurd hfk hne'
        | normal => simp only [ownDecls, hfk, kidsOf, hS]; exact List.mem_append_right _ hd'
        | closure => rw [hfk] at hd; simp [childScopeDecls] at hd
        | funcStat => simp only [ownDecls, hfk, kidsOf, hS]; exact List.mem_append_right _ hd'
        | forRange => rw [hfk] at hd; simp [childScopeDecls] at hd
        | repeat_ => rw [hfk] at hd; simp [childScopeDecls] at hd
      · intro hnorm d hd
        have hfk : f.kind = .normal := by simpa [nodeKind] using hnorm
        simp only [hfk, nodeKids] at hd
        apply List.mem_append_right
        simp only [ownDecls, hfk, kidsOf]
        simpa using hd
    have hih := ih _ _ f.kind f.start (.scope k st ch :: f.children) hrest hAbs' n
    simp only [visit, vis, kidsOf]
    calc findN (seen ++ (ownDecls f (some (.scope k st ch)) q false ++ _)) n
        = findN ((seen ++ ownDecls f (some (.scope k st ch)) q false) ++ vis rest (some f.kind) false) n := by
          rw [← List.append_assoc]; exact hih
      _ = findN ((seen ++ ownC f (some k) false) ++ vis rest (some f.kind) false) n :=
          findN_congr_head _ _ _ n (hOwn n)
      _ = _ := by rw [List.append_assoc]

theorem UpOK_of_sorted (fs : List Frame) : ∀ (k : Kind) (st : Nat) (ch : List Node) (q : Nat),
    Sorted fs st → (∀ g ∈ fs.head?, g.start < st) →
    (if k = .localOrAssign then st = q else st < q) → UpOK fs (.scope k st ch) q := by
  induction fs with
  | nil => intros; trivial
  | cons f rest ih =>
    intro k st ch q hs hh hp
    obtain ⟨h1, h2, h3⟩ := hs
    have hfst : f.start < st := hh f (by simp)
    refine ⟨h1, by simpa [nodeKind, Node.pos] using hp, ?_⟩
    apply ih _ _ _ _ h2 h3
    by_cases hf : f.kind = .localOrAssign
    · simp [hf]
    · simp only [hf, if_false]
      by_cases hk : k = .localOrAssign <;> simp [hk] at hp <;> omega

/-- **Entry lookups.** On an ordered scope stack a lookup from the innermost scope finds, for every
name, the declaration the position-free `vis` finds. -/
theorem visit_eq_vis (fs : List Frame) (q : Nat) (h : Sorted fs q)
    (htop : ∀ f ∈ fs.head?, f.kind = .localOrAssign ∨ f.start < q) (n : Name) :
    findN (visit fs none q true) n = findN (vis fs none true) n := by
  cases fs with
  | nil => rfl
  | cons f rest =>
    obtain ⟨h1, h2, h3⟩ := h
    have hall : searchChildren f.children q = flat f.children :=
      searchChildren_all _ _ (fun c hc => (h1 c hc).1)
    have htop' := htop f (by simp)
    have hup : UpOK rest (.scope f.kind f.start f.children) (if f.kind = .localOrAssign then f.start else q) := by
      apply UpOK_of_sorted _ _ _ _ _ h2 h3
      by_cases hf : f.kind = .localOrAssign
      · simp [hf]
      · simp only [hf, if_false]; rcases htop' with h | h
        · exact absurd h hf
        · exact h
    have hAbs : Absorb (.scope f.kind f.start f.children) (if f.kind = .localOrAssign then f.start else q)
        (ownDecls f none q true) := by
      constructor
      · intro hne d hd
        have hne' : f.kind ≠ .localOrAssign := by simpa [nodeKind] using hne
        simp only [contrib] at hd
        have hd' := childScopeDecls_sub_flat _ _ d hd
        cases hfk : f.kind with
        | localOrAssign => exact absurd hfk hne'
        | normal => simp only [ownDecls, hfk, kidsOf, hall]; exact hd'
        | closure => rw [hfk] at hd; simp [childScopeDecls] at hd
        | funcStat => simp only [ownDecls, hfk, kidsOf, hall]; exact hd'
        | forRange => rw [hfk] at hd; simp [childScopeDecls] at hd
        | repeat_ => rw [hfk] at hd; simp [childScopeDecls] at hd
      · intro hnorm d hd
        have hfk : f.kind = .normal := by simpa [nodeKind] using hnorm
        simp only [hfk, nodeKids] at hd
        simp only [ownDecls, hfk, kidsOf]
        simpa using hd
    have hOwn : findN (ownDecls f none q true) n = findN (ownC f none true) n := by
      cases hfk : f.kind with
      | localOrAssign => simp [ownDecls, ownC, hfk]
      | normal => simp only [ownDecls, ownC, hfk, kidsOf, hall]
      | closure => simp only [ownDecls, ownC, hfk, kidsOf, hall]
      | funcStat => simp only [ownDecls, ownC, hfk, kidsOf, hall]
      | forRange => simp [ownDecls, ownC, hfk]
      | repeat_ =>
        simp only [ownDecls, ownC, hfk, kidsOf]
        cases hb : repeatBody f.children with
        | none => simp
        | some body =>
          obtain ⟨bst, hmem⟩ := repeatBody_mem hb
          have hbody : searchChildren body q = flat body :=
            searchChildren_all body q (fun g hg => (h1 _ hmem).2 g (by simpa [nodeKids] using hg))
          simp only [if_true, hbody, hall]
          have := findN_absorb (flat body) (flat body) (flat f.children) n (fun d hd => hd)
          simpa [List.append_assoc] using this
    have hv := visit_up rest _ (ownDecls f none q true) f.kind f.start f.children hup hAbs n
    simp only [visit, vis, kidsOf]
    rw [hv]
    exact findN_congr_head _ _ _ n hOwn

end Scope
