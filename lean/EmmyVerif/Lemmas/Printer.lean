import EmmyVerif.Model.Printer
/-! Lemmas of the `Printer` family: the printer only ever adds blanks and line breaks around the
text leaves it is given, and emits every leaf exactly once and in order (for documents without
`IfBreak`/`LineSuffix`); break decisions depend on widths only. -/
namespace Printer

def isWs (b : Nat) : Bool := b == 32 || b == 9 || b == 10 || b == 13

/-- the non-whitespace bytes -/
def nb (l : List Nat) : List Nat := l.filter fun b => !isWs b

theorem nb_append (a b : List Nat) : nb (a ++ b) = nb a ++ nb b := by simp [nb]
theorem nb_reverse (a : List Nat) : nb a.reverse = (nb a).reverse := by simp [nb, List.filter_reverse]
theorem nb_of_ws (l : List Nat) (h : ∀ b ∈ l, isWs b = true) : nb l = [] := by
  simp only [nb, List.filter_eq_nil_iff]
  intro b hb; simp [h b hb]

theorem nb_dropWhile_space (l : List Nat) : nb (l.dropWhile (· == 32)) = nb l := by
  induction l with
  | nil => rfl
  | cons x l ih =>
    simp only [List.dropWhile]
    split
    · rename_i h
      have hx : x = 32 := by simpa using h
      subst hx
      rw [ih]; simp [nb, isWs]
    · rfl

theorem nb_spaces (n : Nat) : nb (spaces n) = [] :=
  nb_of_ws _ (by intro b hb; simp [spaces] at hb; simp [hb.2, isWs])

/-! ## leaves -/

mutual
/-- the text leaves of a document, concatenated in document order (both branches of an `IfBreak`) -/
def Doc.leaves : Doc → List Nat
  | .text s => s
  | .indent ds => leavesL ds
  | .group ds _ _ => leavesL ds
  | .list ds => leavesL ds
  | .ifBreak b f _ => b.leaves ++ f.leaves
  | .fill ds => leavesL ds
  | .lineSuffix ds => leavesL ds
  | .alignGroup es => leavesE es
  | _ => []
def leavesL : List Doc → List Nat
  | [] => []
  | d :: ds => d.leaves ++ leavesL ds
def leavesO : Option (List Doc) → List Nat
  | none => []
  | some ds => leavesL ds
def leavesE : List (Entry Doc) → List Nat
  | [] => []
  | ⟨al, b, a, t⟩ :: es => leavesL b ++ (if al then leavesL a else []) ++ leavesO t ++ leavesE es
end

mutual
/-- no `IfBreak` and no `LineSuffix` anywhere -/
def Doc.plain : Doc → Bool
  | .indent ds => plainL ds
  | .group ds _ _ => plainL ds
  | .list ds => plainL ds
  | .ifBreak _ _ _ => false
  | .fill ds => plainL ds
  | .lineSuffix _ => false
  | .alignGroup es => plainE es
  | _ => true
def plainL : List Doc → Bool
  | [] => true
  | d :: ds => d.plain && plainL ds
def plainO : Option (List Doc) → Bool
  | none => true
  | some ds => plainL ds
def plainE : List (Entry Doc) → Bool
  | [] => true
  | ⟨_, b, a, t⟩ :: es => plainL b && plainL a && plainO t && plainE es
end

/-- configuration whose indentation and newline strings are whitespace (always the case: the
indent string is tabs or spaces, the newline `\n` or `\r\n`) -/
structure Cfg.Blank (cfg : Cfg) : Prop where
  indent : ∀ b ∈ cfg.indentStr, isWs b = true
  newline : ∀ b ∈ cfg.newline, isWs b = true

/-! ## output primitives add only whitespace -/

theorem flushPending_nb (cfg : Cfg) (hc : cfg.Blank) (st : St) (s : List Nat) :
    nb (flushPending cfg st s).outRev = nb st.outRev ∧ (flushPending cfg st s).suffixes = st.suffixes := by
  unfold flushPending
  split
  · exact ⟨rfl, rfl⟩
  · split
    · exact ⟨rfl, rfl⟩
    · refine ⟨?_, rfl⟩
      simp only [nb_append, nb_reverse]
      rw [nb_of_ws]
      · simp
      · intro b hb
        simp only [List.mem_flatten, List.mem_replicate] at hb
        obtain ⟨l, ⟨_, rfl⟩, hb⟩ := hb
        exact hc.indent b hb

theorem pushText_nb (cfg : Cfg) (hc : cfg.Blank) (st : St) (s : List Nat) :
    nb (pushText cfg st s).outRev = (nb s).reverse ++ nb st.outRev ∧ (pushText cfg st s).suffixes = st.suffixes := by
  obtain ⟨h1, h2⟩ := flushPending_nb cfg hc st s
  simp only [pushText, nb_append, nb_reverse, h1, h2, and_self]

theorem pushNewline_nb (cfg : Cfg) (hc : cfg.Blank) (st : St) :
    nb (pushNewline cfg st).outRev = nb st.outRev ∧ (pushNewline cfg st).suffixes = st.suffixes := by
  simp only [pushNewline, nb_append, nb_reverse, nb_dropWhile_space, nb_of_ws _ hc.newline, List.reverse_nil,
    List.nil_append, and_self]

/-! ## the specification of a one-document printer -/

/-- `pd` prints exactly the leaves of plain documents (up to whitespace), keeping the suffix list empty -/
def Spec (pd : St → Doc → Mode → Option St) : Prop :=
  ∀ st d m st', d.plain = true → st.suffixes = [] → pd st d m = some st' →
    st'.suffixes = [] ∧ nb st'.outRev = (nb d.leaves).reverse ++ nb st.outRev

theorem docsWith_spec (pd : St → Doc → Mode → Option St) (hpd : Spec pd) (ds : List Doc) (st st' : St) (m : Mode)
    (hp : plainL ds = true) (hs : st.suffixes = []) (h : docsWith pd st ds m = some st') :
    st'.suffixes = [] ∧ nb st'.outRev = (nb (leavesL ds)).reverse ++ nb st.outRev := by
  induction ds generalizing st with
  | nil =>
    simp [docsWith] at h; subst h
    exact ⟨hs, by simp [leavesL, nb]⟩
  | cons d ds ih =>
    simp only [plainL, Bool.and_eq_true] at hp
    simp only [docsWith, List.foldlM_cons] at h
    cases h1 : pd st d m with
    | none => simp [h1] at h
    | some s1 =>
      simp only [h1] at h
      obtain ⟨a1, a2⟩ := hpd st d m s1 hp.1 hs h1
      obtain ⟨b1, b2⟩ := ih s1 hp.2 a1 h
      refine ⟨b1, ?_⟩
      rw [b2, a2]
      simp [leavesL, nb_append]

theorem flushWith_nil (pd : St → Doc → Mode → Option St) (st : St) (hs : st.suffixes = []) :
    flushWith pd st = some st := by
  cases st
  simp only at hs
  subst hs
  rfl

theorem fillLoop_spec (pd : St → Doc → Mode → Option St) (hpd : Spec pd) (fitsF : St → List Doc → Bool)
    (ds : List Doc) (st st' : St) (hp : plainL ds = true) (hs : st.suffixes = [])
    (h : fillLoop pd fitsF st ds = some st') :
    st'.suffixes = [] ∧ nb st'.outRev = (nb (leavesL ds)).reverse ++ nb st.outRev := by
  revert st' hp hs h
  refine fillLoop.induct (motive := fun st ds => ∀ st', plainL ds = true → st.suffixes = [] →
    fillLoop pd fitsF st ds = some st' →
    st'.suffixes = [] ∧ nb st'.outRev = (nb (leavesL ds)).reverse ++ nb st.outRev) ?_ ?_ ?_ st ds
  · intro st st' _ hs h
    simp [fillLoop] at h; subst h
    exact ⟨hs, by simp [leavesL, nb]⟩
  · intro st c st' hp hs h
    simp only [fillLoop] at h
    simp only [plainL, Bool.and_true] at hp
    obtain ⟨a1, a2⟩ := hpd _ _ _ _ hp hs h
    exact ⟨a1, by rw [a2]; simp [leavesL]⟩
  · intro st c sep rest ih st' hp hs h
    simp only [plainL, Bool.and_eq_true] at hp
    simp only [fillLoop, Option.bind_eq_bind, Option.bind_eq_some_iff] at h
    obtain ⟨s1, h1, s2, h2, h3⟩ := h
    obtain ⟨a1, a2⟩ := hpd _ _ _ _ hp.1 hs h1
    obtain ⟨b1, b2⟩ := hpd _ _ _ _ hp.2.1 a1 h2
    obtain ⟨c1, c2⟩ := ih s2 st' hp.2.2 b1 h3
    refine ⟨c1, ?_⟩
    rw [c2, b2, a2]
    simp [leavesL, nb_append]

theorem padText_nb (cfg : Cfg) (hc : cfg.Blank) (st : St) (p : Nat) :
    nb (if p > 0 then pushText cfg st (spaces p) else st).outRev = nb st.outRev ∧
    (if p > 0 then pushText cfg st (spaces p) else st).suffixes = st.suffixes := by
  split
  · obtain ⟨h1, h2⟩ := pushText_nb cfg hc st (spaces p)
    exact ⟨by rw [h1, nb_spaces]; rfl, h2⟩
  · exact ⟨rfl, rfl⟩

/-- an optional trailing part printed after some padding -/
theorem trailing_spec (cfg : Cfg) (hc : cfg.Blank) (pd : St → Doc → Mode → Option St) (hpd : Spec pd)
    (t : Option (List Doc)) (p : Nat) (m : Mode) (st st' : St) (hp : plainO t = true) (hs : st.suffixes = [])
    (h : printTrailing cfg pd t p m st = some st') :
    st'.suffixes = [] ∧ nb st'.outRev = (nb (leavesO t)).reverse ++ nb st.outRev := by
  cases t with
  | none =>
    simp [printTrailing] at h; subst h
    exact ⟨hs, by simp [leavesO, nb]⟩
  | some t =>
    simp only [printTrailing] at h
    obtain ⟨p1, p2⟩ := padText_nb cfg hc st p
    obtain ⟨a1, a2⟩ := docsWith_spec pd hpd t _ st' m hp (by rw [p2]; exact hs) h
    exact ⟨a1, by rw [a2, p1]; rfl⟩

theorem alignSep_spec (cfg : Cfg) (hc : cfg.Blank) (pd : St → Doc → Mode → Option St) (first : Bool)
    (st s1 : St) (hs : st.suffixes = []) (h : alignSep cfg pd first st = some s1) :
    s1.suffixes = [] ∧ nb s1.outRev = nb st.outRev := by
  unfold alignSep at h
  split at h
  · cases h; exact ⟨hs, rfl⟩
  · rw [flushWith_nil pd st hs] at h
    simp at h; subst h
    obtain ⟨q1, q2⟩ := pushNewline_nb cfg hc st
    exact ⟨by rw [q2]; exact hs, q1⟩

theorem alignEntry_spec (cfg : Cfg) (hc : cfg.Blank) (pd : St → Doc → Mode → Option St) (hpd : Spec pd)
    (mb mcw : Nat) (m : Mode) (al : Bool) (b a : List Doc) (t : Option (List Doc)) (s1 s2 : St)
    (hb : plainL b = true) (ha : plainL a = true) (ht : plainO t = true) (hs : s1.suffixes = [])
    (h : alignEntry cfg pd mb mcw m s1 ⟨al, b, a, t⟩ = some s2) :
    s2.suffixes = [] ∧
      nb s2.outRev = (nb (leavesL b ++ (if al then leavesL a else []) ++ leavesO t)).reverse ++ nb s1.outRev := by
  cases al with
  | true =>
    simp only [alignEntry, if_true, Option.bind_eq_some_iff] at h
    obtain ⟨sA, hA, sB, hB, hT⟩ := h
    obtain ⟨a1, a2⟩ := docsWith_spec pd hpd b s1 sA m hb hs hA
    obtain ⟨p1, p2⟩ := padText_nb cfg hc sA (mb - flatWidthL b)
    obtain ⟨t1, t2⟩ := pushText_nb cfg hc
      (if mb - flatWidthL b > 0 then pushText cfg sA (spaces (mb - flatWidthL b)) else sA) [32]
    obtain ⟨b1, b2⟩ := docsWith_spec pd hpd a _ sB m ha (by rw [t2, p2]; exact a1) hB
    obtain ⟨c1, c2⟩ := trailing_spec cfg hc pd hpd t _ m sB s2 ht b1 hT
    refine ⟨c1, ?_⟩
    rw [c2, b2, t1, p1, a2]
    simp [nb, isWs]
  | false =>
    simp only [alignEntry, Bool.false_eq_true, if_false, Option.bind_eq_some_iff] at h
    obtain ⟨sA, hA, hT⟩ := h
    obtain ⟨a1, a2⟩ := docsWith_spec pd hpd b s1 sA m hb hs hA
    obtain ⟨c1, c2⟩ := trailing_spec cfg hc pd hpd t _ m sA s2 ht a1 hT
    refine ⟨c1, ?_⟩
    rw [c2, a2]
    simp [nb_append]

theorem alignLoop_spec (cfg : Cfg) (hc : cfg.Blank) (pd : St → Doc → Mode → Option St) (hpd : Spec pd)
    (mb mcw : Nat) (m : Mode) (es : List (Entry Doc)) (first : Bool) (st st' : St)
    (hp : plainE es = true) (hs : st.suffixes = [])
    (h : alignLoop cfg pd mb mcw m first st es = some st') :
    st'.suffixes = [] ∧ nb st'.outRev = (nb (leavesE es)).reverse ++ nb st.outRev := by
  induction es generalizing first st with
  | nil =>
    simp [alignLoop] at h; subst h
    exact ⟨hs, by simp [leavesE, nb]⟩
  | cons e es ih =>
    obtain ⟨al, b, a, t⟩ := e
    simp only [plainE, Bool.and_eq_true] at hp
    obtain ⟨⟨⟨hb, ha⟩, ht⟩, hes⟩ := hp
    simp only [alignLoop, Option.bind_eq_some_iff] at h
    obtain ⟨s1, h1, s2, h2, h3⟩ := h
    obtain ⟨e11, e12⟩ := alignSep_spec cfg hc pd first st s1 hs h1
    obtain ⟨e21, e22⟩ := alignEntry_spec cfg hc pd hpd mb mcw m al b a t s1 s2 hb ha ht e11 h2
    obtain ⟨c1, c2⟩ := ih false s2 hes e21 h3
    refine ⟨c1, ?_⟩
    rw [c2, e22, e12]
    simp [leavesE, nb_append]

theorem newline_spec (cfg : Cfg) (hc : cfg.Blank) (pd : St → Doc → Mode → Option St) (st st' : St)
    (hs : st.suffixes = []) (h : (flushWith pd st).map (pushNewline cfg) = some st') :
    st'.suffixes = [] ∧ nb st'.outRev = nb st.outRev := by
  rw [flushWith_nil pd st hs] at h
  simp at h; subst h
  obtain ⟨q1, q2⟩ := pushNewline_nb cfg hc st
  exact ⟨by rw [q2]; exact hs, q1⟩

/-- **the printer prints exactly the leaves** (plain documents): by induction on the fuel -/
theorem printDoc_spec (cfg : Cfg) (hc : cfg.Blank) : ∀ fuel, Spec (printDoc cfg fuel)
  | 0 => by
    intro st d m st' _ _ h
    simp [printDoc] at h
  | fuel + 1 => by
    have ih := printDoc_spec cfg hc fuel
    intro st d m st' hp hs h
    cases d with
    | text s =>
      simp only [printDoc, Option.some.injEq] at h; subst h
      obtain ⟨q1, q2⟩ := pushText_nb cfg hc st s
      exact ⟨by rw [q2]; exact hs, by rw [q1]; rfl⟩
    | space =>
      simp only [printDoc, Option.some.injEq] at h; subst h
      obtain ⟨q1, q2⟩ := pushText_nb cfg hc st [32]
      exact ⟨by rw [q2]; exact hs, by rw [q1]; simp [Doc.leaves, nb, isWs]⟩
    | hardLine =>
      simp only [printDoc] at h
      obtain ⟨q1, q2⟩ := newline_spec cfg hc _ st st' hs h
      exact ⟨q1, by rw [q2]; simp [Doc.leaves, nb]⟩
    | softLine =>
      cases m with
      | flat =>
        simp only [printDoc, Option.some.injEq] at h; subst h
        obtain ⟨q1, q2⟩ := pushText_nb cfg hc st [32]
        exact ⟨by rw [q2]; exact hs, by rw [q1]; simp [Doc.leaves, nb, isWs]⟩
      | brk =>
        simp only [printDoc] at h
        obtain ⟨q1, q2⟩ := newline_spec cfg hc _ st st' hs h
        exact ⟨q1, by rw [q2]; simp [Doc.leaves, nb]⟩
    | softLineOrEmpty =>
      cases m with
      | flat =>
        simp only [printDoc, Option.some.injEq] at h; subst h
        exact ⟨hs, by simp [Doc.leaves, nb]⟩
      | brk =>
        simp only [printDoc] at h
        obtain ⟨q1, q2⟩ := newline_spec cfg hc _ st st' hs h
        exact ⟨q1, by rw [q2]; simp [Doc.leaves, nb]⟩
    | group ds sb id =>
      simp only [Doc.plain] at hp
      simp only [printDoc] at h
      have := docsWith_spec _ ih ds _ st' _ hp (by cases id <;> exact hs) h
      refine ⟨this.1, ?_⟩
      rw [this.2]
      cases id <;> rfl
    | indent ds =>
      simp only [Doc.plain] at hp
      simp only [printDoc, Option.map_eq_some_iff] at h
      obtain ⟨s1, h1, rfl⟩ := h
      have := docsWith_spec _ ih ds { st with level := st.level + 1 } s1 _ hp hs h1
      exact ⟨this.1, this.2⟩
    | list ds =>
      simp only [Doc.plain] at hp
      simp only [printDoc] at h
      exact docsWith_spec _ ih ds st st' _ hp hs h
    | ifBreak b f gid => simp [Doc.plain] at hp
    | fill ds =>
      simp only [Doc.plain] at hp
      simp only [printDoc] at h
      exact fillLoop_spec _ ih _ ds st st' hp hs h
    | lineSuffix ds => simp [Doc.plain] at hp
    | alignGroup es =>
      simp only [Doc.plain] at hp
      simp only [printDoc] at h
      exact alignLoop_spec cfg hc _ ih _ _ _ es true st st' hp hs h

end Printer

/-! ## break decisions depend on widths only -/
namespace Printer

mutual
/-- the document with every text replaced by a text of the same length (zeros) -/
def Doc.shape : Doc → Doc
  | .text s => .text (List.replicate s.length 0)
  | .hardLine => .hardLine
  | .softLine => .softLine
  | .softLineOrEmpty => .softLineOrEmpty
  | .space => .space
  | .indent ds => .indent (shapeL ds)
  | .group ds sb id => .group (shapeL ds) sb id
  | .list ds => .list (shapeL ds)
  | .ifBreak b f g => .ifBreak b.shape f.shape g
  | .fill ds => .fill (shapeL ds)
  | .lineSuffix ds => .lineSuffix (shapeL ds)
  | .alignGroup es => .alignGroup (shapeE es)
def shapeL : List Doc → List Doc
  | [] => []
  | d :: ds => d.shape :: shapeL ds
def shapeO : Option (List Doc) → Option (List Doc)
  | none => none
  | some ds => some (shapeL ds)
def shapeE : List (Entry Doc) → List (Entry Doc)
  | [] => []
  | ⟨al, b, a, t⟩ :: es => ⟨al, shapeL b, shapeL a, shapeO t⟩ :: shapeE es
end

theorem shapeL_eq_map (ds : List Doc) : shapeL ds = ds.map Doc.shape := by
  induction ds with
  | nil => rfl
  | cons d ds ih => simp [shapeL, ih]

theorem shapeE_length (es : List (Entry Doc)) : (shapeE es).length = es.length := by
  induction es with
  | nil => rfl
  | cons e es ih => obtain ⟨al, b, a, t⟩ := e; simp [shapeE, ih]

theorem alignFitsSeq_shape (es : List (Entry Doc)) :
    alignFitsSeq (shapeE es) = (alignFitsSeq es).map Doc.shape := by
  induction es with
  | nil => rfl
  | cons e es ih =>
    obtain ⟨al, b, a, t⟩ := e
    cases t <;> simp [shapeE, alignFitsSeq, ih, shapeO, shapeL_eq_map]

mutual
theorem flatWidth_shape : ∀ d : Doc, d.shape.flatWidth = d.flatWidth
  | .text s => by simp [Doc.shape, Doc.flatWidth]
  | .hardLine => rfl
  | .softLine => rfl
  | .softLineOrEmpty => rfl
  | .space => rfl
  | .indent ds => by simp [Doc.shape, Doc.flatWidth, flatWidthL_shape ds]
  | .group ds sb id => by simp [Doc.shape, Doc.flatWidth, flatWidthL_shape ds]
  | .list ds => by simp [Doc.shape, Doc.flatWidth, flatWidthL_shape ds]
  | .ifBreak b f g => by simp [Doc.shape, Doc.flatWidth, flatWidth_shape f]
  | .fill ds => by simp [Doc.shape, Doc.flatWidth, flatWidthL_shape ds]
  | .lineSuffix ds => by simp [Doc.shape, Doc.flatWidth]
  | .alignGroup es => by simp [Doc.shape, Doc.flatWidth, flatWidthE_shape es]
theorem flatWidthL_shape : ∀ ds : List Doc, flatWidthL (shapeL ds) = flatWidthL ds
  | [] => rfl
  | d :: ds => by simp [shapeL, flatWidthL, flatWidth_shape d, flatWidthL_shape ds]
theorem flatWidthO_shape : ∀ t : Option (List Doc), flatWidthO (shapeO t) = flatWidthO t
  | none => rfl
  | some ds => by simp [shapeO, flatWidthO, flatWidthL_shape ds]
theorem flatWidthE_shape : ∀ es : List (Entry Doc), flatWidthE (shapeE es) = flatWidthE es
  | [] => rfl
  | ⟨al, b, a, t⟩ :: es => by
    simp [shapeE, flatWidthE, flatWidthL_shape b, flatWidthL_shape a, flatWidthO_shape t, flatWidthE_shape es]
end

mutual
theorem hasHardLine_shape : ∀ d : Doc, d.shape.hasHardLine = d.hasHardLine
  | .text s => rfl
  | .hardLine => rfl
  | .softLine => rfl
  | .softLineOrEmpty => rfl
  | .space => rfl
  | .indent ds => by simp [Doc.shape, Doc.hasHardLine, hasHardLineL_shape ds]
  | .group ds sb id => by simp [Doc.shape, Doc.hasHardLine, hasHardLineL_shape ds]
  | .list ds => by simp [Doc.shape, Doc.hasHardLine, hasHardLineL_shape ds]
  | .ifBreak b f g => rfl
  | .fill ds => rfl
  | .lineSuffix ds => rfl
  | .alignGroup es => by simp [Doc.shape, Doc.hasHardLine, shapeE_length]
theorem hasHardLineL_shape : ∀ ds : List Doc, hasHardLineL (shapeL ds) = hasHardLineL ds
  | [] => rfl
  | d :: ds => by simp [shapeL, hasHardLineL, hasHardLine_shape d, hasHardLineL_shape ds]
end

/-- **`fits_impl` looks at widths only**: replacing every text on the stack by a text of the same
length does not change the answer -/
theorem fits_shape (breaks : List (Nat × Bool)) : ∀ (fuel : Nat) (stack : List (Doc × Mode)) (rem : Int),
    fits breaks fuel (stack.map fun p => (p.1.shape, p.2)) rem = fits breaks fuel stack rem
  | _, [], rem => by simp [fits]
  | 0, _ :: _, _ => by simp [fits]
  | fuel + 1, (d, m) :: rest, rem => by
    have ih := fits_shape breaks fuel
    have hmap : ∀ (ds : List Doc) (m' : Mode),
        (shapeL ds).map (·, m') ++ rest.map (fun p => (p.1.shape, p.2))
          = (ds.map (·, m') ++ rest).map fun p => (p.1.shape, p.2) := by
      intro ds m'; simp [shapeL_eq_map, List.map_map, Function.comp_def]
    simp only [List.map_cons, fits]
    split
    · rfl
    · cases d with
      | text s => simp only [Doc.shape, List.length_replicate]; exact ih _ _
      | space => exact ih _ _
      | hardLine => rfl
      | softLine =>
        simp only [Doc.shape]
        split
        · rfl
        · exact ih _ _
      | softLineOrEmpty =>
        simp only [Doc.shape]
        split
        · rfl
        · exact ih _ _
      | group ds sb id => simp only [Doc.shape]; rw [hmap]; exact ih _ _
      | indent ds => simp only [Doc.shape]; rw [hmap]; exact ih _ _
      | list ds => simp only [Doc.shape]; rw [hmap]; exact ih _ _
      | fill ds => simp only [Doc.shape]; rw [hmap]; exact ih _ _
      | lineSuffix ds => exact ih _ _
      | ifBreak b f g =>
        simp only [Doc.shape]
        cases g with
        | none =>
          by_cases hm : m = Mode.brk
          · simp only [hm, decide_true, if_true]; exact ih ((b, Mode.brk) :: rest) rem
          · simp only [hm, decide_false, Bool.false_eq_true, if_false]; exact ih ((f, m) :: rest) rem
        | some g =>
          by_cases hl : lookupBreak breaks g = true
          · rw [if_pos hl, if_pos hl]; exact ih ((b, m) :: rest) rem
          · rw [if_neg hl, if_neg hl]; exact ih ((f, m) :: rest) rem
      | alignGroup es =>
        simp only [Doc.shape, alignFitsSeq_shape]
        have e : ((alignFitsSeq es).map Doc.shape).map (·, m) ++ rest.map (fun p => (p.1.shape, p.2))
            = ((alignFitsSeq es).map (·, m) ++ rest).map fun p => (p.1.shape, p.2) := by
          simp [List.map_map, Function.comp_def]
        rw [e]
        exact ih _ _

end Printer

/-! ## flat width = width printed in flat mode -/
namespace Printer

mutual
/-- documents whose flat printing stays on the line: texts without `\n`, spaces, soft lines, indents,
lists, and `IfBreak`s without group id whose flat side is of the same kind -/
def Doc.flatSimple : Doc → Bool
  | .text s => !s.contains 10
  | .space => true
  | .softLine => true
  | .softLineOrEmpty => true
  | .indent ds => flatSimpleL ds
  | .list ds => flatSimpleL ds
  | .ifBreak _ f none => f.flatSimple
  | _ => false
def flatSimpleL : List Doc → Bool
  | [] => true
  | d :: ds => d.flatSimple && flatSimpleL ds
end

theorem lastNewlineTail_none (s : List Nat) (h : s.contains 10 = false) : lastNewlineTail s = none := by
  induction s with
  | nil => rfl
  | cons b r ih =>
    simp only [List.contains_cons, Bool.or_eq_false_iff] at h
    have hb : b ≠ 10 := by
      intro e; subst e; simp at h
    simp [lastNewlineTail, ih h.2, hb]

theorem pushText_col (cfg : Cfg) (st : St) (s : List Nat) (hp : st.pending = none) (h : s.contains 10 = false) :
    (pushText cfg st s).col = st.col + s.length ∧ (pushText cfg st s).pending = none := by
  simp [pushText, flushPending, hp, lastNewlineTail_none s h]

/-- `pd` advances the column of flat-simple documents by their flat width -/
def SpecW (pd : St → Doc → Mode → Option St) : Prop :=
  ∀ st d st', d.flatSimple = true → st.pending = none → pd st d .flat = some st' →
    st'.pending = none ∧ st'.col = st.col + d.flatWidth

theorem docsWith_specW (pd : St → Doc → Mode → Option St) (hpd : SpecW pd) (ds : List Doc) (st st' : St)
    (hp : flatSimpleL ds = true) (hs : st.pending = none) (h : docsWith pd st ds .flat = some st') :
    st'.pending = none ∧ st'.col = st.col + flatWidthL ds := by
  induction ds generalizing st with
  | nil =>
    simp [docsWith] at h; subst h
    exact ⟨hs, by simp [flatWidthL]⟩
  | cons d ds ih =>
    simp only [flatSimpleL, Bool.and_eq_true] at hp
    simp only [docsWith, List.foldlM_cons, Option.bind_eq_bind, Option.bind_eq_some_iff] at h
    obtain ⟨s1, h1, h2⟩ := h
    obtain ⟨a1, a2⟩ := hpd st d s1 hp.1 hs h1
    obtain ⟨b1, b2⟩ := ih s1 hp.2 a1 h2
    exact ⟨b1, by rw [b2, a2]; simp [flatWidthL]; omega⟩

theorem printDoc_specW (cfg : Cfg) : ∀ fuel, SpecW (printDoc cfg fuel)
  | 0 => by
    intro st d st' _ _ h
    simp [printDoc] at h
  | fuel + 1 => by
    have ih := printDoc_specW cfg fuel
    intro st d st' hp hs h
    cases d with
    | text s =>
      simp only [Doc.flatSimple, Bool.not_eq_true'] at hp
      simp only [printDoc, Option.some.injEq] at h; subst h
      obtain ⟨q1, q2⟩ := pushText_col cfg st s hs hp
      exact ⟨q2, by rw [q1]; rfl⟩
    | space =>
      simp only [printDoc, Option.some.injEq] at h; subst h
      obtain ⟨q1, q2⟩ := pushText_col cfg st [32] hs (by decide)
      exact ⟨q2, by rw [q1]; rfl⟩
    | softLine =>
      simp only [printDoc, Option.some.injEq] at h; subst h
      obtain ⟨q1, q2⟩ := pushText_col cfg st [32] hs (by decide)
      exact ⟨q2, by rw [q1]; rfl⟩
    | softLineOrEmpty =>
      simp only [printDoc, Option.some.injEq] at h; subst h
      exact ⟨hs, rfl⟩
    | hardLine => simp [Doc.flatSimple] at hp
    | group ds sb id => simp [Doc.flatSimple] at hp
    | fill ds => simp [Doc.flatSimple] at hp
    | lineSuffix ds => simp [Doc.flatSimple] at hp
    | alignGroup es => simp [Doc.flatSimple] at hp
    | indent ds =>
      simp only [Doc.flatSimple] at hp
      simp only [printDoc, Option.map_eq_some_iff] at h
      obtain ⟨s1, h1, rfl⟩ := h
      have := docsWith_specW _ ih ds { st with level := st.level + 1 } s1 hp hs h1
      exact ⟨this.1, this.2⟩
    | list ds =>
      simp only [Doc.flatSimple] at hp
      simp only [printDoc] at h
      exact docsWith_specW _ ih ds st st' hp hs h
    | ifBreak b f gid =>
      cases gid with
      | some g => simp [Doc.flatSimple] at hp
      | none =>
        simp only [Doc.flatSimple] at hp
        simp only [printDoc] at h
        have hb : (decide (Mode.flat = Mode.brk)) = false := by decide
        simp only [hb, Bool.false_eq_true, if_false] at h
        exact ih st f st' hp hs h

end Printer
