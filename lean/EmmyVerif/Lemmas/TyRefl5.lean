import EmmyVerif.Lemmas.TyRefl4
/-!
# `wfA` subsumes `wf`
-/
namespace TyM
open Ty

theorem arrOk_of_atom (e : Env) (n : Name) (h : isAtom e (.ref n) = true) : arrOk e (.ref n) = true := by
  simp only [isAtom] at h
  cases hf : e.find n with
  | none => simp [hf] at h
  | some d =>
    simp only [hf, decide_eq_true_eq] at h
    simp [arrOk, getRealType, getRealTypeD, hf, h]

mutual
theorem wfA_of_wf (e : Env) : (t : Ty) → wf e t = true → wfA e t = true
  | .prim _, h => by simpa [wf, wfA] using h
  | .lit _, _ => rfl
  | .ref _, _ => rfl
  | .func _, h => by simp [wf] at h
  | .array b, h => by
    simp only [wf] at h
    simp only [wfA, Bool.and_eq_true, Bool.or_eq_true, Bool.not_eq_true']
    refine ⟨wfA_of_wf e b h, ?_⟩
    cases b with
    | ref n => right; exact arrOk_of_atom e n (by simpa [wf] using h)
    | _ => left; rfl
  | .tuple ts, h => by simp only [wf] at h; simp only [wfA]; exact wfAL_of_wfL e ts h
  | .tgen ps, h => by simp only [wf] at h; simp only [wfA]; exact wfAL_of_wfL e ps h
  | .object fs, h => by
    simp only [wf, Bool.and_eq_true] at h
    simp only [wfA, Bool.and_eq_true]
    exact ⟨wfAF_of_wfF e fs h.1, h.2⟩
  | .union _, h => by simpa [wf, wfA] using h
theorem wfAL_of_wfL (e : Env) : (ts : TyL) → wfL e ts = true → wfAL e ts = true
  | .nil, _ => rfl
  | .cons t ts, h => by
    simp only [wfL, Bool.and_eq_true] at h
    simp only [wfAL, Bool.and_eq_true]
    exact ⟨wfA_of_wf e t h.1, wfAL_of_wfL e ts h.2⟩
theorem wfAF_of_wfF (e : Env) : (fs : FdL) → wfF e fs = true → wfAF e fs = true
  | .nil, _ => rfl
  | .cons _ t fs, h => by
    simp only [wfF, Bool.and_eq_true] at h
    simp only [wfAF, Bool.and_eq_true]
    exact ⟨wfA_of_wf e t h.1, wfAF_of_wfF e fs h.2⟩
end

end TyM
