import EmmyVerif.Lemmas.ClimbRound
import EmmyVerif.Model.ClimbParen
/-! # Every tree has a canonical form that `Fits` -/
namespace Climb
open Gen.Climb (Tok UnOp BinOp)

variable {T : Table}

theorem rstopsB_iff : ∀ (e : Expr) (L : Int), rstopsB T e L = true ↔ RStops T e L
  | .un _ x, L => by simp [rstopsB, RStops, rstopsB_iff x L]
  | .bin _ _ r, L => by simp [rstopsB, RStops, rstopsB_iff r L]
  | .lit _, _ | .name, _ | .paren _, _ | .dot _, _ | .idx _ _, _ | .call _ _, _ | .mcall _ _, _
  | .table _, _ | .closure _ _, _ => by
    simp [rstopsB, RStops]

theorem isPrefixB_eq (e : Expr) : isPrefixB e = IsPrefix e := by cases e <;> rfl

theorem wrapPrefix_ok (e : Expr) (h : Fits T 0 e) : IsPrefix (wrapPrefix e) = true ∧ Fits T 0 (wrapPrefix e) := by
  unfold wrapPrefix
  split
  · rename_i hp; rw [isPrefixB_eq] at hp; exact ⟨hp, h⟩
  · exact ⟨rfl, by simpa [Fits] using h⟩

theorem guardLeft_ok (op : BinOp) (l : Expr) (limit : Int) (h : Fits T limit l) (h0 : Fits T 0 l) :
    Fits T limit (guardLeft T op l) ∧ RStops T (guardLeft T op l) (T.left op) := by
  unfold guardLeft
  split
  · rename_i hr; exact ⟨h, (rstopsB_iff l _).1 hr⟩
  · exact ⟨by simpa [Fits] using h0, by simp [RStops]⟩

mutual
theorem minParen_fits (hpos : ∀ op, op ≠ .OpNop → 0 < T.left op ∧ 0 ≤ T.right op) (hun : 0 ≤ T.unaryPrio) :
    ∀ (e : Expr) (limit : Int), 0 ≤ limit → Valid e → Fits T limit (minParen T limit e)
  | .lit t, _, _, h => by simpa [minParen, Fits, Valid] using h
  | .name, _, _, _ => by simp [minParen, Fits]
  | .paren e, _, _, h => by
    simp only [minParen, Fits]; exact minParen_fits hpos hun e 0 (Int.le_refl 0) (by simpa [Valid] using h)
  | .un op x, _, _, h => by
    simp only [Valid] at h
    simp only [minParen, Fits]
    exact ⟨h.1, minParen_fits hpos hun x _ hun h.2⟩
  | .bin op l r, limit, hz, h => by
    simp only [Valid] at h
    obtain ⟨hop, hl, hr⟩ := h
    simp only [minParen]
    have fr := minParen_fits hpos hun r (T.right op) (hpos op hop).2 hr
    split
    · rename_i hlim
      have fl := minParen_fits hpos hun l limit hz hl
      have fl0 : Fits T 0 (minParen T limit l) := fits_mono _ limit 0 hz fl
      obtain ⟨g1, g2⟩ := guardLeft_ok op _ limit fl fl0
      simp only [Fits]
      exact ⟨hop, hlim, g1, g2, fr⟩
    · have fl := minParen_fits hpos hun l 0 (Int.le_refl 0) hl
      obtain ⟨g1, g2⟩ := guardLeft_ok op _ 0 fl fl
      simp only [Fits]
      exact ⟨hop, (hpos op hop).1, g1, g2, fr⟩
  | .dot p, _, _, h => by
    simp only [Valid] at h
    obtain ⟨a, b⟩ := wrapPrefix_ok _ (minParen_fits hpos hun p 0 (Int.le_refl 0) h)
    simp only [minParen, Fits]; exact ⟨a, b⟩
  | .idx p k, _, _, h => by
    simp only [Valid] at h
    obtain ⟨a, b⟩ := wrapPrefix_ok _ (minParen_fits hpos hun p 0 (Int.le_refl 0) h.1)
    simp only [minParen, Fits]; exact ⟨a, b, minParen_fits hpos hun k 0 (Int.le_refl 0) h.2⟩
  | .call p as, _, _, h => by
    simp only [Valid] at h
    obtain ⟨a, b⟩ := wrapPrefix_ok _ (minParen_fits hpos hun p 0 (Int.le_refl 0) h.1)
    simp only [minParen, Fits]; exact ⟨a, b, minParenArgs_fits hpos hun as h.2⟩
  | .mcall p as, _, _, h => by
    simp only [Valid] at h
    obtain ⟨a, b⟩ := wrapPrefix_ok _ (minParen_fits hpos hun p 0 (Int.le_refl 0) h.1)
    simp only [minParen, Fits]; exact ⟨a, b, minParenArgs_fits hpos hun as h.2⟩
  | .table fs, _, _, h => by
    simp only [Valid] at h
    simp only [minParen, Fits]; exact minParenFields_fits hpos hun fs h
  | .closure n va, _, _, _ => by simp [minParen, Fits]
theorem minParenFields_fits (hpos : ∀ op, op ≠ .OpNop → 0 < T.left op ∧ 0 ≤ T.right op) (hun : 0 ≤ T.unaryPrio) :
    ∀ (fs : Fields), ValidFields fs → FitsFields T (minParenFields T fs)
  | .nil, _ => by simp [minParenFields, FitsFields]
  | .cons f r, h => by
    simp only [ValidFields] at h
    simp only [minParenFields, FitsFields]
    exact ⟨minParenField_fits hpos hun f h.1, minParenFields_fits hpos hun r h.2⟩
theorem minParenField_fits (hpos : ∀ op, op ≠ .OpNop → 0 < T.left op ∧ 0 ≤ T.right op) (hun : 0 ≤ T.unaryPrio) :
    ∀ (f : Field), ValidField f → FitsField T (minParenField T f)
  | .pos e, h => by
    simp only [ValidField] at h
    simp only [minParenField, FitsField]; exact minParen_fits hpos hun e 0 (Int.le_refl 0) h
  | .named e, h => by
    simp only [ValidField] at h
    simp only [minParenField, FitsField]; exact minParen_fits hpos hun e 0 (Int.le_refl 0) h
  | .keyed k e, h => by
    simp only [ValidField] at h
    simp only [minParenField, FitsField]
    exact ⟨minParen_fits hpos hun k 0 (Int.le_refl 0) h.1, minParen_fits hpos hun e 0 (Int.le_refl 0) h.2⟩
theorem minParenArgs_fits (hpos : ∀ op, op ≠ .OpNop → 0 < T.left op ∧ 0 ≤ T.right op) (hun : 0 ≤ T.unaryPrio) :
    ∀ (as : Args), ValidArgs as → FitsArgs T (minParenArgs T as)
  | .nil, _ => by simp [minParenArgs, FitsArgs]
  | .cons e r, h => by
    simp only [ValidArgs] at h
    simp only [minParenArgs, FitsArgs]
    exact ⟨minParen_fits hpos hun e 0 (Int.le_refl 0) h.1, minParenArgs_fits hpos hun r h.2⟩
end

theorem erase_wrapPrefix (e : Expr) : erase (wrapPrefix e) = erase e := by
  unfold wrapPrefix; split <;> simp [erase]

theorem erase_guardLeft (op : BinOp) (l : Expr) : erase (guardLeft T op l) = erase l := by
  unfold guardLeft; split <;> simp [erase]

mutual
theorem erase_minParen : ∀ (e : Expr) (limit : Int), erase (minParen T limit e) = erase e
  | .lit _, _ => by simp [minParen]
  | .name, _ => by simp [minParen]
  | .paren e, _ => by simp [minParen, erase, erase_minParen e 0]
  | .un op x, _ => by simp [minParen, erase, erase_minParen x _]
  | .bin op l r, limit => by
    simp only [minParen]
    split <;> simp [erase, erase_guardLeft, erase_minParen l _, erase_minParen r _]
  | .dot p, _ => by simp [minParen, erase, erase_wrapPrefix, erase_minParen p 0]
  | .idx p k, _ => by simp [minParen, erase, erase_wrapPrefix, erase_minParen p 0, erase_minParen k 0]
  | .call p as, _ => by simp [minParen, erase, erase_wrapPrefix, erase_minParen p 0, eraseArgs_minParenArgs as]
  | .mcall p as, _ => by simp [minParen, erase, erase_wrapPrefix, erase_minParen p 0, eraseArgs_minParenArgs as]
  | .table fs, _ => by simp [minParen, erase, eraseFields_minParenFields fs]
  | .closure n va, _ => by simp [minParen]
theorem eraseFields_minParenFields : ∀ (fs : Fields), eraseFields (minParenFields T fs) = eraseFields fs
  | .nil => by simp [minParenFields]
  | .cons f r => by simp [minParenFields, eraseFields, eraseField_minParenField f, eraseFields_minParenFields r]
theorem eraseField_minParenField : ∀ (f : Field), eraseField (minParenField T f) = eraseField f
  | .pos e => by simp [minParenField, eraseField, erase_minParen e 0]
  | .named e => by simp [minParenField, eraseField, erase_minParen e 0]
  | .keyed k e => by simp [minParenField, eraseField, erase_minParen k 0, erase_minParen e 0]
theorem eraseArgs_minParenArgs : ∀ (as : Args), eraseArgs (minParenArgs T as) = eraseArgs as
  | .nil => by simp [minParenArgs]
  | .cons e r => by simp [minParenArgs, eraseArgs, erase_minParen e 0, eraseArgs_minParenArgs r]
end

end Climb
