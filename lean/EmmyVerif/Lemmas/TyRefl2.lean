import EmmyVerif.Lemmas.TyRefl
/-!
# Reflexivity for well-formed compound types

`wf e t` (decidable): no `self` / `never` / function types; every reference is a declared class;
union members are atoms, pairwise distinct, at least two (the shape `LuaType::from_vec` produces);
record keys are distinct.  `lv t` = guard levels the check of `t` against itself may use,
`fd t` = model fuel it needs.
-/
namespace TyM
open Ty

def keysOf : FdL → List Name
  | .nil => []
  | .cons k _ fs => k :: keysOf fs

mutual
def wf (e : Env) : Ty → Bool
  | .prim k => k ≠ .selfInfer && k ≠ .never
  | .lit _ => true
  | .ref n => isAtom e (.ref n)
  | .func _ => false
  | .array b => wf e b
  | .tuple ts => wfL e ts
  | .tgen ps => wfL e ps
  | .object fs => wfF e fs && decide (keysOf fs).Nodup
  | .union ms => ms.toList.all (isAtom e) && decide ms.toList.Nodup && decide (2 ≤ ms.toList.length)
def wfL (e : Env) : TyL → Bool
  | .nil => true
  | .cons t ts => wf e t && wfL e ts
def wfF (e : Env) : FdL → Bool
  | .nil => true
  | .cons _ t fs => wf e t && wfF e fs
end

mutual
/-- guard levels -/
def lv : Ty → Nat
  | .array b => lv b + 5
  | .tuple ts => lvL ts + 2
  | .tgen ps => lvL ps + 2
  | .object fs => lvF fs + 2
  | .union _ => 4
  | _ => 0
def lvL : TyL → Nat
  | .nil => 0
  | .cons t ts => max (lv t) (lvL ts)
def lvF : FdL → Nat
  | .nil => 0
  | .cons _ t fs => max (lv t) (lvF fs)
end

mutual
/-- model fuel -/
def fd : Ty → Nat
  | .array b => fd b + 10
  | .tuple ts => fdL ts + 3
  | .tgen ps => fdL ps + 3
  | .object fs => fdF fs + 3
  | .union _ => 7
  | _ => 2
def fdL : TyL → Nat
  | .nil => 0
  | .cons t ts => max (fd t) (fdL ts)
def fdF : FdL → Nat
  | .nil => 0
  | .cons _ t fs => max (fd t) (fdF fs)
end

theorem wfL_mem (e : Env) : ∀ (ts : TyL) (t : Ty), wfL e ts = true → t ∈ ts.toList →
    wf e t = true ∧ lv t ≤ lvL ts ∧ fd t ≤ fdL ts
  | .nil, t, _, h => by simp [TyL.toList] at h
  | .cons x xs, t, hw, h => by
    simp only [wfL, Bool.and_eq_true] at hw
    simp only [TyL.toList, List.mem_cons] at h
    rcases h with rfl | h
    · exact ⟨hw.1, by simp [lvL]; omega, by simp [fdL]; omega⟩
    · obtain ⟨a, b, c⟩ := wfL_mem e xs t hw.2 h
      exact ⟨a, by simp [lvL]; omega, by simp [fdL]; omega⟩

theorem wfF_mem (e : Env) : ∀ (fs : FdL) (k : Name) (t : Ty), wfF e fs = true → (k, t) ∈ fs.toList →
    wf e t = true ∧ lv t ≤ lvF fs ∧ fd t ≤ fdF fs
  | .nil, k, t, _, h => by simp [FdL.toList] at h
  | .cons k' x xs, k, t, hw, h => by
    simp only [wfF, Bool.and_eq_true] at hw
    simp only [FdL.toList, List.mem_cons, Prod.mk.injEq] at h
    rcases h with ⟨_, rfl⟩ | h
    · exact ⟨hw.1, by simp [lvF]; omega, by simp [fdF]; omega⟩
    · obtain ⟨a, b, c⟩ := wfF_mem e xs k t hw.2 h
      exact ⟨a, by simp [lvF]; omega, by simp [fdF]; omega⟩

/-! ## structure lemmas (the `ok` direction) -/

theorem checkGeneral_tgen_ok (e : Env) (ip : List (Name × Ty)) (f lvl : Nat) (ps : TyL)
    (h : ∀ p ∈ ps.toList, (withNext lvl fun l => checkGeneral e ip f l p p) = .ok) :
    checkGeneral e ip (f + 3) lvl (.tgen ps) (.tgen ps) = .ok := by
  unfold checkGeneral
  simp only [isLikeAny, fastEq, escapeType]
  unfold checkComplex
  simp only
  unfold checkTgen
  have : allOk (fun (p : Ty × Ty) => withNext lvl fun l => checkGeneral e ip f l p.1 p.2)
      (ps.toList.zip ps.toList) = .ok := by
    apply allOk_ok
    intro p hp
    have h1 := List.of_mem_zip hp
    have h2 : p.1 = p.2 := by
      have := List.mem_iff_getElem.mp hp
      obtain ⟨i, hi, hpi⟩ := this
      simp [List.getElem_zip] at hpi
      rw [← hpi]
    rw [← h2]
    exact h p.1 h1.1
  simp [this]

theorem checkGeneral_array_ok (e : Env) (ip : List (Name × Ty)) (f lvl : Nat) (b : Ty)
    (h : (withNext lvl fun l => checkGeneral e ip f l (if e.arrayIndex then union e b tNil else b) b) = .ok) :
    checkGeneral e ip (f + 3) lvl (.array b) (.array b) = .ok := by
  rw [checkGeneral_array_array, h]; rfl

theorem checkGeneral_object_ok (e : Env) (ip : List (Name × Ty)) (f lvl : Nat) (fs : FdL)
    (hk : (fs.toList.map (·.1)).Nodup) (hl : lvl < maxLevel)
    (h : ∀ kt ∈ fs.toList, (withNext lvl fun l => withNext l fun l' => checkGeneral e ip f l' kt.2 kt.2) = .ok) :
    checkGeneral e ip (f + 3) lvl (.object fs) (.object fs) = .ok := by
  unfold checkGeneral
  simp only [isLikeAny, fastEq, escapeType]
  unfold checkComplex
  simp only
  unfold checkObject
  simp only
  rw [withNext_lt lvl _ hl]
  generalize hX : allOk _ fs.toList = X
  have hok : X = .ok := by
    rw [← hX]
    apply allOk_ok
    intro kt hkt
    have hfind : fs.toList.find? (fun x => decide (x.1 = kt.1)) = some kt := by
      generalize fs.toList = l at hk hkt
      induction l with
      | nil => simp at hkt
      | cons x xs ih =>
        simp only [List.map_cons, List.nodup_cons] at hk
        rcases List.mem_cons.mp hkt with rfl | hx
        · simp
        · have hne : x.1 ≠ kt.1 := by
            intro heq
            exact hk.1 (heq ▸ List.mem_map_of_mem (f := (·.1)) hx)
          simp [List.find?, hne]
          exact ih hk.2 hx
    have hh := h kt hkt
    rw [withNext_lt lvl _ hl] at hh
    simp only [hfind]
    exact hh
  subst hok
  simp

theorem checkGeneral_tuple_ok (e : Env) (ip : List (Name × Ty)) (f lvl : Nat) (ts : TyL) (hl : lvl < maxLevel)
    (h : ∀ t ∈ ts.toList, (withNext (lvl + 1) fun l' => checkGeneral e ip f l' t t) = .ok) :
    checkGeneral e ip (f + 3) lvl (.tuple ts) (.tuple ts) = .ok := by
  unfold checkGeneral
  simp only [isLikeAny, fastEq, escapeType]
  unfold checkComplex
  simp only
  unfold checkTuple
  simp only
  rw [withNext_lt lvl _ hl]
  generalize hX : allOk _ (List.map (fun x => (x.2, x.1)) ts.toList.zipIdx) = X
  have hok : X = .ok := by
    rw [← hX]
    apply allOk_ok
    intro p hp
    obtain ⟨⟨t, i⟩, hti, rfl⟩ := List.mem_map.mp hp
    have hget : ts.toList[i]? = some t := by
      have := List.mem_zipIdx_iff_getElem?.mp hti
      simpa using this
    have hmem : t ∈ ts.toList := List.mem_of_getElem? hget
    have hh := h t hmem
    simp only [tupleGet, hget]
    cases hr : (withNext (lvl + 1) fun l' => checkGeneral e ip f l' t t) with
    | ok =>
      unfold withNext at hr ⊢
      cases hn : next (lvl + 1) with
      | none => simp [hn] at hr
      | some l' => simp only [hn] at hr ⊢; rw [hr]
    | _ => rw [hr] at hh; cases hh
  subst hok
  simp

/-- strict array index, compound element type `b`: `b | nil = [b, nil]`, and the scan finds `b` first -/
theorem array_step_compound (e : Env) (ip : List (Name × Ty)) (f lvl : Nat) (b : Ty)
    (hp : Plain b) (hnp : b.isPrim = false) (h1 : isLikeAny b = false)
    (h2 : fastEq (Ty.mk [b, tNil]) b = false) (h3 : escapeType e b = none) (hl : lvl < maxLevel)
    (ih : checkGeneral e ip f (lvl + 1) b b = .ok) :
    checkGeneral e ip (f + 2) lvl (union e b tNil) b = .ok := by
  have hne : b ≠ tNil := by intro h; subst h; simp [Ty.isPrim] at hnp
  rw [union_plain_nil e b hp hne, mkUnionVec_pair_l b hnp hne,
    checkGeneral_union_src e ip f lvl _ b h1 h2 h3 (plain_not_union b hp)]
  simp only [TyL.toList_ofList, anyOk, withNext_lt lvl _ hl, ih]
  rfl

theorem keysOf_eq (fs : FdL) : keysOf fs = fs.toList.map (·.1) := by
  match fs with
  | .nil => rfl
  | .cons k t r => simp [keysOf, FdL.toList, keysOf_eq r]

/-- element check of an array whose element type is an atom or a union of atoms:
`b | nil` is a union of atoms that contains `b` (or `nil` / `any` itself) -/
theorem array_step_union (e : Env) (ip : List (Name × Ty)) (f lvl : Nat) (y : List Ty) (c : Ty)
    (hy : ∀ m ∈ y, isAtom e m = true) (hc : c ∈ y) (hl : lvl + 1 < maxLevel) :
    checkGeneral e ip (f + 5) lvl (Ty.mk y) c = .ok :=
  union_member_atoms e ip f lvl (TyL.ofList y) c (by simpa using hy) (by simpa using hc) hl

theorem isAtom_nil (e : Env) : isAtom e tNil = true := rfl

mutual
/-- **reflexivity.** Every well-formed type is assignable to itself, at any guard level that leaves
`lv t` levels, with `fd t` units of model fuel (or more). -/
theorem refl_ty (e : Env) : (t : Ty) → wf e t = true → ∀ (ip : List (Name × Ty)) (f lvl : Nat),
    lvl + lv t ≤ maxLevel → checkGeneral e ip (f + fd t) lvl t t = .ok
  | .prim k, hw, ip, f, lvl, _ => atom_refl e ip f lvl _ (by simpa [wf, isAtom] using hw)
  | .lit c, _, ip, f, lvl, _ => atom_refl e ip f lvl _ rfl
  | .ref n, hw, ip, f, lvl, _ => atom_refl e ip f lvl _ (by simpa [wf] using hw)
  | .func _, hw, _, _, _, _ => by simp [wf] at hw
  | .union ms, hw, ip, f, lvl, hl => by
    simp only [wf, Bool.and_eq_true, List.all_eq_true, decide_eq_true_eq] at hw
    simp only [lv] at hl
    exact union_atoms_refl e ip f lvl ms hw.1.1 (by unfold maxLevel at *; omega)
  | .tgen ps, hw, ip, f, lvl, hl => by
    simp only [wf] at hw
    simp only [lv] at hl
    show checkGeneral e ip (f + (fdL ps + 3)) lvl _ _ = _
    rw [show f + (fdL ps + 3) = (f + fdL ps) + 3 from by omega]
    apply checkGeneral_tgen_ok
    intro p hp
    obtain ⟨hwp, hlp, hfp⟩ := wfL_mem e ps p hw hp
    rw [withNext_lt lvl _ (by unfold maxLevel at *; omega)]
    obtain ⟨d, hd⟩ : ∃ d, fdL ps = fd p + d := ⟨fdL ps - fd p, by omega⟩
    rw [hd, show f + (fd p + d) = (f + d) + fd p from by omega]
    exact refl_tyL e ps hw p hp ip (f + d) (lvl + 1) (by omega)
  | .tuple ts, hw, ip, f, lvl, hl => by
    simp only [wf] at hw
    simp only [lv] at hl
    show checkGeneral e ip (f + (fdL ts + 3)) lvl _ _ = _
    rw [show f + (fdL ts + 3) = (f + fdL ts) + 3 from by omega]
    apply checkGeneral_tuple_ok e ip _ lvl ts (by unfold maxLevel at *; omega)
    intro p hp
    obtain ⟨hwp, hlp, hfp⟩ := wfL_mem e ts p hw hp
    rw [withNext_lt (lvl + 1) _ (by unfold maxLevel at *; omega)]
    obtain ⟨d, hd⟩ : ∃ d, fdL ts = fd p + d := ⟨fdL ts - fd p, by omega⟩
    rw [hd, show f + (fd p + d) = (f + d) + fd p from by omega]
    exact refl_tyL e ts hw p hp ip (f + d) (lvl + 1 + 1) (by omega)
  | .object fs, hw, ip, f, lvl, hl => by
    simp only [wf, Bool.and_eq_true, decide_eq_true_eq] at hw
    simp only [lv] at hl
    show checkGeneral e ip (f + (fdF fs + 3)) lvl _ _ = _
    rw [show f + (fdF fs + 3) = (f + fdF fs) + 3 from by omega]
    apply checkGeneral_object_ok e ip _ lvl fs (by rw [← keysOf_eq]; exact hw.2)
      (by unfold maxLevel at *; omega)
    intro kt hkt
    obtain ⟨hwp, hlp, hfp⟩ := wfF_mem e fs kt.1 kt.2 hw.1 hkt
    rw [withNext_lt lvl _ (by unfold maxLevel at *; omega),
      withNext_lt (lvl + 1) _ (by unfold maxLevel at *; omega)]
    obtain ⟨d, hd⟩ : ∃ d, fdF fs = fd kt.2 + d := ⟨fdF fs - fd kt.2, by omega⟩
    rw [hd, show f + (fd kt.2 + d) = (f + d) + fd kt.2 from by omega]
    exact refl_fdL e fs hw.1 kt hkt ip (f + d) (lvl + 1 + 1) (by omega)
  | .array b, hw, ip, f, lvl, hl => by
    simp only [wf] at hw
    simp only [lv] at hl
    have hlt : lvl < maxLevel := by unfold maxLevel at *; omega
    have ihb := refl_ty e b hw
    show checkGeneral e ip (f + (fd b + 10)) lvl _ _ = _
    rw [show f + (fd b + 10) = (f + fd b + 7) + 3 from by omega]
    apply checkGeneral_array_ok
    rw [withNext_lt lvl _ hlt]
    by_cases harr : e.arrayIndex = true
    · rw [if_pos harr]
      -- strict array index: the element type becomes `b | nil`
      match b, hw, hl, ihb with
      | .prim k, hw, hl, _ =>
        have hatom : isAtom e (.prim k) = true := by simpa [wf, isAtom] using hw
        by_cases hk1 : k = .nil
        · subst hk1
          rw [union_nil_nil]
          exact atom_refl e ip (f + fd (.prim .nil) + 5) (lvl + 1) _ rfl
        · by_cases hk2 : k = .any
          · subst hk2
            rw [union_any_nil]
            exact checkGeneral_compact_likeAny e ip _ (lvl + 1) _ _ rfl
          · have hpl : Plain (.prim k) := by
              refine ⟨rfl, ?_, ?_⟩
              · intro h; cases h; exact hk2 rfl
              · intro h; cases h; simp [wf] at hw
            have hne : (Ty.prim k) ≠ tNil := by intro h; cases h; exact hk1 rfl
            rw [union_plain_nil e _ hpl hne]
            have hnd : [Ty.prim k, tNil].Nodup := by simp [hne]
            have hperm := mkUnionVec_perm [Ty.prim k, tNil] hnd
            rw [show f + fd (.prim k) + 7 = (f + 4) + 5 from by simp [fd]]
            apply array_step_union e ip (f + 4) (lvl + 1) _ (.prim k)
            · intro m hm
              have := hperm.mem_iff.mp hm
              simp at this
              rcases this with rfl | rfl
              · exact hatom
              · rfl
            · exact hperm.mem_iff.mpr (by simp)
            · unfold maxLevel at *; omega
      | .lit c, _, hl, _ =>
        have hpl : Plain (.lit c) := ⟨rfl, by simp, by simp⟩
        have hne : (Ty.lit c) ≠ tNil := by simp
        rw [union_plain_nil e _ hpl hne, mkUnionVec_pair_l _ rfl hne,
          show f + fd (.lit c) + 7 = (f + 4) + 5 from by simp [fd]]
        apply array_step_union e ip (f + 4) (lvl + 1) _ (.lit c)
        · intro m hm; simp at hm; rcases hm with rfl | rfl <;> rfl
        · simp
        · unfold maxLevel at *; omega
      | .ref n, hw, hl, _ =>
        have hatom : isAtom e (.ref n) = true := by simpa [wf] using hw
        have hcls : ∃ d, e.find n = some d ∧ d.kind = .cls := by
          simp only [isAtom] at hatom
          cases hf : e.find n with
          | none => simp [hf] at hatom
          | some d => exact ⟨d, rfl, by simpa [hf] using hatom⟩
        obtain ⟨d, hd, hk⟩ := hcls
        rw [union_ref_nil e n d hd hk, show f + fd (.ref n) + 7 = (f + 4) + 5 from by simp [fd]]
        apply array_step_union e ip (f + 4) (lvl + 1) _ (.ref n)
        · intro m hm; simp at hm; rcases hm with rfl | rfl
          · exact hatom
          · rfl
        · simp
        · unfold maxLevel at *; omega
      | .func _, hw, _, _ => simp [wf] at hw
      | .union l, hw, hl, _ =>
        have hw' := hw
        simp only [wf, Bool.and_eq_true, List.all_eq_true, decide_eq_true_eq] at hw'
        obtain ⟨⟨hat, hnd⟩, hlen⟩ := hw'
        have hnu : ∀ t ∈ l.toList, t.isUnion = false := fun t ht => atom_not_union e t (hat t ht)
        obtain ⟨y, hy, hmem⟩ := union_union_nil e l.toList hnd hnu hlen
        have hb : (Ty.union l) = Ty.mk l.toList := by simp [Ty.mk]
        rw [hb, hy, ← hb, show f + fd (.union l) + 7 = (f + 12) + 2 from by simp [fd],
          show Ty.mk y = Ty.union (TyL.ofList y) from rfl]
        apply checkGeneral_union_union_ok
        rw [withNext_lt (lvl + 1) _ (by unfold maxLevel at *; simp [lv] at hl; omega)]
        apply allOk_ok
        intro cm hcm
        rw [withNext_lt (lvl + 1 + 1) _ (by unfold maxLevel at *; simp [lv] at hl; omega)]
        rw [show f + 12 = (f + 7) + 5 from by omega]
        apply array_step_union e ip (f + 7) (lvl + 1 + 1 + 1) y cm
        · intro m hm
          rcases (hmem m).mp hm with h | h
          · exact hat m h
          · subst h; rfl
        · exact (hmem cm).mpr (.inl hcm)
        · unfold maxLevel at *; simp [lv] at hl; omega
      | .array b', hw, hl, ihb =>
        rw [show f + fd (.array b') + 7 = (f + 5 + fd (.array b')) + 2 from by omega]
        exact array_step_compound e ip _ (lvl + 1) _ ⟨rfl, by simp, by simp⟩ rfl rfl rfl rfl
          (by unfold maxLevel at *; omega)
          (ihb ip (f + 5) (lvl + 1 + 1) (by omega))
      | .tuple ts, hw, hl, ihb =>
        rw [show f + fd (.tuple ts) + 7 = (f + 5 + fd (.tuple ts)) + 2 from by omega]
        exact array_step_compound e ip _ (lvl + 1) _ ⟨rfl, by simp, by simp⟩ rfl rfl rfl rfl
          (by unfold maxLevel at *; omega)
          (ihb ip (f + 5) (lvl + 1 + 1) (by omega))
      | .tgen ps, hw, hl, ihb =>
        rw [show f + fd (.tgen ps) + 7 = (f + 5 + fd (.tgen ps)) + 2 from by omega]
        exact array_step_compound e ip _ (lvl + 1) _ ⟨rfl, by simp, by simp⟩ rfl rfl rfl rfl
          (by unfold maxLevel at *; omega)
          (ihb ip (f + 5) (lvl + 1 + 1) (by omega))
      | .object fs, hw, hl, ihb =>
        rw [show f + fd (.object fs) + 7 = (f + 5 + fd (.object fs)) + 2 from by omega]
        exact array_step_compound e ip _ (lvl + 1) _ ⟨rfl, by simp, by simp⟩ rfl rfl rfl rfl
          (by unfold maxLevel at *; omega)
          (ihb ip (f + 5) (lvl + 1 + 1) (by omega))
    · rw [if_neg harr, show f + fd b + 7 = (f + 7) + fd b from by omega]
      exact ihb ip (f + 7) (lvl + 1) (by omega)
theorem refl_tyL (e : Env) : (ts : TyL) → wfL e ts = true → ∀ p ∈ ts.toList,
    ∀ (ip : List (Name × Ty)) (f lvl : Nat), lvl + lv p ≤ maxLevel → checkGeneral e ip (f + fd p) lvl p p = .ok
  | .nil, _, p, hp => by simp [TyL.toList] at hp
  | .cons t ts, hw, p, hp => by
    simp only [wfL, Bool.and_eq_true] at hw
    simp only [TyL.toList, List.mem_cons] at hp
    rcases hp with h | hp
    · rw [h]; exact refl_ty e t hw.1
    · exact refl_tyL e ts hw.2 p hp
theorem refl_fdL (e : Env) : (fs : FdL) → wfF e fs = true → ∀ kt ∈ fs.toList,
    ∀ (ip : List (Name × Ty)) (f lvl : Nat), lvl + lv kt.2 ≤ maxLevel →
      checkGeneral e ip (f + fd kt.2) lvl kt.2 kt.2 = .ok
  | .nil, _, kt, hp => by simp [FdL.toList] at hp
  | .cons k t fs, hw, kt, hp => by
    simp only [wfF, Bool.and_eq_true] at hw
    simp only [FdL.toList, List.mem_cons] at hp
    rcases hp with h | hp
    · rw [h]; exact refl_ty e t hw.1
    · exact refl_fdL e fs hw.2 kt hp
end

end TyM
