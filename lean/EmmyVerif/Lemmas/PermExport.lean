import EmmyVerif.Model.PermExport
import EmmyVerif.Lemmas.Perm
/-! Lemmas about the export model: comparator laws, de-duplication of a name-sorted list. -/
namespace Export
open PermModel PermLemmas

theorem lexLe4_iff (a b : Nat × Nat × Nat × Nat) :
    lexLe4 a b = true ↔ (a.1 < b.1 ∨ (a.1 = b.1 ∧ (a.2.1 < b.2.1 ∨ (a.2.1 = b.2.1 ∧
      (a.2.2.1 < b.2.2.1 ∨ (a.2.2.1 = b.2.2.1 ∧ a.2.2.2 ≤ b.2.2.2)))))) := by
  unfold lexLe4; simp

theorem lexLe4_trans (a b c : Nat × Nat × Nat × Nat) (h1 : lexLe4 a b = true) (h2 : lexLe4 b c = true) :
    lexLe4 a c = true := by
  rw [lexLe4_iff] at *; omega

theorem lexLe4_total (a b : Nat × Nat × Nat × Nat) : (lexLe4 a b || lexLe4 b a) = true := by
  rw [Bool.or_eq_true, lexLe4_iff, lexLe4_iff]; omega

theorem lexLe4_antisymm (a b : Nat × Nat × Nat × Nat) (h1 : lexLe4 a b = true) (h2 : lexLe4 b a = true) : a = b := by
  rw [lexLe4_iff] at *
  obtain ⟨a1, a2, a3, a4⟩ := a
  obtain ⟨b1, b2, b3, b4⟩ := b
  simp only at h1 h2
  have e1 : a1 = b1 := by omega
  have e2 : a2 = b2 := by omega
  have e3 : a3 = b3 := by omega
  have e4 : a4 = b4 := by omega
  subst e1 e2 e3 e4; rfl

theorem typeLe_trans : ∀ a b c : TypeDecl, typeLe a b = true → typeLe b c = true → typeLe a c = true :=
  fun a b c => lexLe4_trans a.key b.key c.key

theorem typeLe_total : ∀ a b : TypeDecl, (typeLe a b || typeLe b a) = true :=
  fun a b => lexLe4_total a.key b.key

theorem moduleLe_iff (a b : ModuleInfo) :
    moduleLe a b = true ↔ (a.name < b.name ∨ (a.name = b.name ∧ a.file ≤ b.file)) := by
  unfold moduleLe; simp

theorem moduleLe_trans : ∀ a b c : ModuleInfo, moduleLe a b = true → moduleLe b c = true → moduleLe a c = true := by
  intro a b c h1 h2; rw [moduleLe_iff] at *; omega

theorem moduleLe_total : ∀ a b : ModuleInfo, (moduleLe a b || moduleLe b a) = true := by
  intro a b; rw [Bool.or_eq_true, moduleLe_iff, moduleLe_iff]; omega

theorem declLe_iff (a b : GlobalDecl) :
    declLe a b = true ↔ (a.file < b.file ∨ (a.file = b.file ∧ a.pos ≤ b.pos)) := by
  unfold declLe; simp

theorem declLe_trans : ∀ a b c : GlobalDecl, declLe a b = true → declLe b c = true → declLe a c = true := by
  intro a b c h1 h2; rw [declLe_iff] at *; omega

theorem declLe_total : ∀ a b : GlobalDecl, (declLe a b || declLe b a) = true := by
  intro a b; rw [Bool.or_eq_true, declLe_iff, declLe_iff]; omega

theorem globalNameLe_trans : ∀ a b c : GlobalDecl, globalNameLe a b = true → globalNameLe b c = true → globalNameLe a c = true := by
  intro a b c h1 h2; unfold globalNameLe at *; simp only [decide_eq_true_eq] at *; exact Nat.le_trans h1 h2

theorem globalNameLe_total : ∀ a b : GlobalDecl, (globalNameLe a b || globalNameLe b a) = true := by
  intro a b; unfold globalNameLe; simp only [Bool.or_eq_true, decide_eq_true_eq]; exact Nat.le_total _ _

/-! ### de-duplication -/

theorem mem_dedupAux {y : GlobalDecl} : ∀ {l : List GlobalDecl} {p : Nat}, y ∈ dedupAux p l → y ∈ l
  | [], _, h => by simp [dedupAux] at h
  | b :: rest, p, h => by
    unfold dedupAux at h
    split at h
    · exact List.mem_cons_of_mem _ (mem_dedupAux h)
    · rcases List.mem_cons.mp h with rfl | h'
      · exact List.mem_cons_self
      · exact List.mem_cons_of_mem _ (mem_dedupAux h')

theorem mem_dedupName {y : GlobalDecl} {l : List GlobalDecl} (h : y ∈ dedupName l) : y ∈ l := by
  cases l with
  | nil => simp [dedupName] at h
  | cons a rest =>
    rcases List.mem_cons.mp h with rfl | h'
    · exact List.mem_cons_self
    · exact List.mem_cons_of_mem _ (mem_dedupAux h')

theorem name_dedupAux : ∀ (l : List GlobalDecl) (p : Nat) (x : GlobalDecl), x ∈ l →
    x.name = p ∨ x.name ∈ (dedupAux p l).map (·.name)
  | [], _, _, h => by simp at h
  | b :: rest, p, x, h => by
    unfold dedupAux
    rcases List.mem_cons.mp h with rfl | hx
    · split
      · rename_i hb; exact Or.inl hb
      · exact Or.inr (by simp)
    · split
      · exact name_dedupAux rest p x hx
      · rcases name_dedupAux rest b.name x hx with h1 | h1
        · exact Or.inr (by simp [h1])
        · exact Or.inr (by simp only [List.map_cons, List.mem_cons]; exact Or.inr h1)

/-- no name is lost by the de-duplication -/
theorem name_dedupName (l : List GlobalDecl) (x : GlobalDecl) (h : x ∈ l) :
    x.name ∈ (dedupName l).map (·.name) := by
  cases l with
  | nil => simp at h
  | cons a rest =>
    simp only [dedupName, List.map_cons, List.mem_cons]
    rcases List.mem_cons.mp h with rfl | hx
    · exact Or.inl rfl
    · rcases name_dedupAux rest a.name x hx with h1 | h1
      · exact Or.inl h1
      · exact Or.inr h1

theorem strict_dedupAux : ∀ (l : List GlobalDecl) (p : Nat),
    l.Pairwise (fun a b => a.name ≤ b.name) → (∀ x ∈ l, p ≤ x.name) →
    ((dedupAux p l).map (·.name)).Pairwise (fun a b => a < b) ∧ ∀ y ∈ dedupAux p l, p < y.name
  | [], _, _, _ => by simp [dedupAux]
  | b :: rest, p, hs, hp => by
    have hb := List.pairwise_cons.mp hs
    have hpb : p ≤ b.name := hp b List.mem_cons_self
    unfold dedupAux
    split
    · rename_i heq
      refine strict_dedupAux rest p hb.2 ?_
      intro x hx
      have := hb.1 x hx
      omega
    · rename_i hne
      have ih := strict_dedupAux rest b.name hb.2 (fun x hx => hb.1 x hx)
      refine ⟨?_, ?_⟩
      · simp only [List.map_cons]
        refine List.pairwise_cons.mpr ⟨?_, ih.1⟩
        intro n hn
        obtain ⟨y, hy, rfl⟩ := List.mem_map.mp hn
        exact ih.2 y hy
      · intro y hy
        rcases List.mem_cons.mp hy with rfl | hy'
        · omega
        · have := ih.2 y hy'; omega

/-- de-duplicating a name-sorted list leaves strictly increasing names: every name once -/
theorem nodup_dedupName (l : List GlobalDecl) (hs : l.Pairwise (fun a b => a.name ≤ b.name)) :
    ((dedupName l).map (·.name)).Nodup := by
  cases l with
  | nil => simp [dedupName]
  | cons a rest =>
    have ha := List.pairwise_cons.mp hs
    have ih := strict_dedupAux rest a.name ha.2 (fun x hx => ha.1 x hx)
    have hp : ((dedupName (a :: rest)).map (·.name)).Pairwise (fun a b => a < b) := by
      simp only [dedupName, List.map_cons]
      refine List.pairwise_cons.mpr ⟨?_, ih.1⟩
      intro n hn
      obtain ⟨y, hy, rfl⟩ := List.mem_map.mp hn
      exact ih.2 y hy
    exact hp.imp (fun h => Nat.ne_of_lt h)

end Export
