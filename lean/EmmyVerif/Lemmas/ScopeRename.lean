import EmmyVerif.Model.ScopeRename
/-!
# Scope lemmas 5 — positions recorded by the reference resolver

Every recorded use lies after its declaration, and use positions strictly increase. Hence the
token set `declaration ∪ its uses` has no repetition.
-/
namespace Scope

/-- recorded uses (most recent first) lie before `b`, after their declarations, at strictly
decreasing positions -/
def OutOk (out : List Res) (b : Nat) : Prop :=
  (∀ r ∈ out, r.1 < b ∧ ∀ d, r.2 = some d → d < r.1) ∧ out.Pairwise (fun a c => c.1 < a.1)

def EnvLt (env : Env) (b : Nat) : Prop := ∀ e ∈ env, e.2 < b

@[simp] theorem RefSt.skip_pos (s : RefSt) (t : Nat) : (s.skip t).pos = s.pos + 2 * t := rfl
@[simp] theorem RefSt.skip_out (s : RefSt) (t : Nat) : (s.skip t).out = s.out := rfl
@[simp] theorem RefSt.use_pos (s : RefSt) (env : Env) (n : Name) : (s.use env n).pos = s.pos + 2 := rfl

theorem OutOk.mono {out : List Res} {b b' : Nat} (h : OutOk out b) (hb : b ≤ b') : OutOk out b' :=
  ⟨fun r hr => ⟨by have := (h.1 r hr).1; omega, (h.1 r hr).2⟩, h.2⟩

theorem EnvLt.mono {env : Env} {b b' : Nat} (h : EnvLt env b) (hb : b ≤ b') : EnvLt env b' :=
  fun e he => by have := h e he; omega

theorem lookupEnv_mem {env : Env} {n : Name} {d : Nat} (h : lookupEnv env n = some d) : (n, d) ∈ env := by
  induction env with
  | nil => simp [lookupEnv] at h
  | cons e rest ih =>
    obtain ⟨m, p⟩ := e
    simp only [lookupEnv] at h
    by_cases hm : m = n
    · simp only [hm, if_true, Option.some.injEq] at h; subst h; subst hm; simp
    · simp only [hm, if_false] at h; exact List.mem_cons_of_mem _ (ih h)

theorem OutOk.use {s : RefSt} {env : Env} (ho : OutOk s.out s.pos) (he : EnvLt env s.pos) (n : Name) :
    OutOk (s.use env n).out (s.use env n).pos := by
  refine ⟨?_, ?_⟩
  · intro r hr
    simp only [RefSt.use, List.mem_cons] at hr
    rcases hr with rfl | hr
    · refine ⟨by simp [RefSt.use], fun d hd => ?_⟩
      exact he _ (lookupEnv_mem hd)
    · exact ⟨by have := (ho.1 r hr).1; simp only [RefSt.use]; omega, (ho.1 r hr).2⟩
  · simp only [RefSt.use, List.pairwise_cons]
    exact ⟨fun r hr => (ho.1 r hr).1, ho.2⟩

theorem EnvLt.bindNames (ns : List Name) : ∀ (p b : Nat) (env : Env), EnvLt env b →
    p + 2 * ns.length ≤ b → EnvLt (bindNames env p ns) b := by
  induction ns with
  | nil => intro p b env h _; simpa [Scope.bindNames] using h
  | cons n ns ih =>
    intro p b env h hp
    simp only [Scope.bindNames]
    apply ih
    · intro e he
      rcases List.mem_cons.mp he with rfl | he
      · simp only [List.length_cons] at hp; show p < b; omega
      · exact h e he
    · simp only [List.length_cons] at hp; omega

theorem uses_spec {env : Env} (vars : List Name) : ∀ (s : RefSt), EnvLt env s.pos → OutOk s.out s.pos →
    OutOk (s.uses env vars).out (s.uses env vars).pos ∧ (s.uses env vars).pos = s.pos + 2 * vars.length := by
  induction vars with
  | nil => intro s _ ho; exact ⟨ho, by simp [RefSt.uses]⟩
  | cons v vs ih =>
    intro s he ho
    simp only [RefSt.uses]
    obtain ⟨h1, h2⟩ := ih (s.use env v) (he.mono (by simp [RefSt.use])) (ho.use he v)
    refine ⟨h1, ?_⟩
    rw [h2]; simp only [RefSt.use, List.length_cons]; omega

/-- result of a run: the output stays well-formed and positions do not go back -/
structure PosOk (s s' : RefSt) : Prop where
  out : OutOk s'.out s'.pos
  mono : s.pos ≤ s'.pos

theorem PosOk.skip {s s' : RefSt} (h : PosOk s s') (t : Nat) : PosOk s (s'.skip t) :=
  ⟨by simpa [RefSt.skip] using h.out.mono (b' := s'.pos + 2 * t) (by omega), by simp [RefSt.skip]; have := h.mono; omega⟩

theorem PosOk.trans {s s1 s2 : RefSt} (a : PosOk s s1) (b : PosOk s1 s2) : PosOk s s2 :=
  ⟨b.out, Nat.le_trans a.mono b.mono⟩

theorem PosOk.start {s : RefSt} (ho : OutOk s.out s.pos) (t : Nat) : PosOk s (s.skip t) :=
  PosOk.skip ⟨ho, Nat.le_refl _⟩ t

mutual
theorem posExpr : ∀ (e : Expr) (env : Env) (s : RefSt), EnvLt env s.pos → OutOk s.out s.pos →
    PosOk s (refExpr env s e)
  | .name n, env, s, he, ho => by
    simp only [refExpr]; exact ⟨ho.use he n, by simp [RefSt.use]⟩
  | .lit, env, s, he, ho => by simp only [refExpr]; exact PosOk.start ho 1
  | .call f args, env, s, he, ho => by
    simp only [refExpr]
    have a : PosOk s ((s.use env f).skip 1) := PosOk.skip ⟨ho.use he f, by simp [RefSt.use]⟩ 1
    have b := posExprs args env _ (he.mono a.mono) a.out
    exact (a.trans b).skip 1
  | .func ps body, env, s, he, ho => by
    simp only [refExpr]
    have a : PosOk s (s.skip (3 + ps.length)) := PosOk.start ho _
    have b := posBlock body (bindNames env (s.pos + 4) ps) _
      (EnvLt.bindNames ps _ _ _ (he.mono a.mono) (by simp [RefSt.skip]; omega)) a.out
    exact (a.trans b.1).skip 1
theorem posExprs : ∀ (es : List Expr) (env : Env) (s : RefSt), EnvLt env s.pos → OutOk s.out s.pos →
    PosOk s (refExprs env s es)
  | [], env, s, he, ho => by simp only [refExprs]; exact ⟨ho, Nat.le_refl _⟩
  | e :: es, env, s, he, ho => by
    simp only [refExprs]
    have a := posExpr e env s he ho
    exact a.trans (posExprs es env _ (he.mono a.mono) a.out)
theorem posStat : ∀ (st : Stat) (env : Env) (s : RefSt), EnvLt env s.pos → OutOk s.out s.pos →
    PosOk s (refStat env s st).1 ∧ EnvLt (refStat env s st).2 (refStat env s st).1.pos
  | .locl names vals, env, s, he, ho => by
    simp only [refStat]
    have a : PosOk s (s.skip (1 + names.length + eqTokens vals)) := PosOk.start ho _
    have b := posExprs vals env _ (he.mono a.mono) a.out
    refine ⟨a.trans b, EnvLt.bindNames names _ _ _ (he.mono (a.trans b).mono) ?_⟩
    have := b.mono; rw [RefSt.skip_pos] at this; omega
  | .assign vars vals, env, s, he, ho => by
    simp only [refStat]
    obtain ⟨u1, u2⟩ := uses_spec vars s he ho
    have a : PosOk s ((s.uses env vars).skip 1) := PosOk.skip ⟨u1, by omega⟩ 1
    have b := posExprs vals env _ (he.mono a.mono) a.out
    exact ⟨a.trans b, he.mono (a.trans b).mono⟩
  | .localFunc n ps body, env, s, he, ho => by
    simp only [refStat]
    have a : PosOk s (s.skip (5 + ps.length)) := PosOk.start ho _
    have he1 : EnvLt ((n, s.pos + 4) :: env) (s.skip (5 + ps.length)).pos := by
      intro e hm
      rcases List.mem_cons.mp hm with rfl | hm
      · show s.pos + 4 < _; simp [RefSt.skip]; omega
      · exact he.mono a.mono e hm
    have b := posBlock body (bindNames ((n, s.pos + 4) :: env) (s.pos + 8) ps) _
      (EnvLt.bindNames ps _ _ _ he1 (by simp [RefSt.skip]; omega)) a.out
    exact ⟨(a.trans b.1).skip 1, he1.mono (by have := b.1.mono; simp only [RefSt.skip_pos] at *; omega)⟩
  | .funcStat n ps body, env, s, he, ho => by
    simp only [refStat]
    have a0 : PosOk s (s.skip 1) := PosOk.start ho 1
    have a1 : PosOk s ((s.skip 1).use env n) :=
      ⟨a0.out.use (he.mono a0.mono) n, by simp [RefSt.use, RefSt.skip]; omega⟩
    have a := a1.skip (2 + ps.length)
    have b := posBlock body (bindNames env (s.pos + 6) ps) _
      (EnvLt.bindNames ps _ _ _ (he.mono a.mono) (by simp [RefSt.skip, RefSt.use]; omega)) a.out
    exact ⟨(a.trans b.1).skip 1, he.mono ((a.trans b.1).skip 1).mono⟩
  | .forNum v e1 e2 body, env, s, he, ho => by
    simp only [refStat]
    have a0 : PosOk s (s.skip 3) := PosOk.start ho 3
    have a1 := a0.trans (posExpr e1 env _ (he.mono a0.mono) a0.out)
    have a2 := a1.trans (posExpr e2 env _ (he.mono a1.mono) a1.out)
    have a := a2.skip 1
    have hev : EnvLt ((v, s.pos + 2) :: env) ((refExpr env (refExpr env (s.skip 3) e1) e2).skip 1).pos := by
      intro e hm
      rcases List.mem_cons.mp hm with rfl | hm
      · show s.pos + 2 < _
        have m1 := (posExpr e1 env _ (he.mono a0.mono) a0.out).mono
        have m2 := (posExpr e2 env _ (he.mono a1.mono) a1.out).mono
        simp only [RefSt.skip_pos] at *; omega
      · exact he.mono a.mono e hm
    have b := posBlock body _ _ hev a.out
    exact ⟨(a.trans b.1).skip 1, he.mono ((a.trans b.1).skip 1).mono⟩
  | .forIn vs e body, env, s, he, ho => by
    simp only [refStat]
    have a0 : PosOk s (s.skip (2 + vs.length)) := PosOk.start ho _
    have a1 := a0.trans (posExpr e env _ (he.mono a0.mono) a0.out)
    have a := a1.skip 1
    have b := posBlock body (bindNames env (s.pos + 2) vs) _
      (EnvLt.bindNames vs _ _ _ (he.mono a.mono) (by
        have := (posExpr e env _ (he.mono a0.mono) a0.out).mono
        simp only [RefSt.skip_pos] at *; omega)) a.out
    exact ⟨(a.trans b.1).skip 1, he.mono ((a.trans b.1).skip 1).mono⟩
  | .while_ c body, env, s, he, ho => by
    simp only [refStat]
    have a0 : PosOk s (s.skip 1) := PosOk.start ho 1
    have a := (a0.trans (posExpr c env _ (he.mono a0.mono) a0.out)).skip 1
    have b := posBlock body env _ (he.mono a.mono) a.out
    exact ⟨(a.trans b.1).skip 1, he.mono ((a.trans b.1).skip 1).mono⟩
  | .repeat_ body c, env, s, he, ho => by
    simp only [refStat]
    have a0 : PosOk s (s.skip 1) := PosOk.start ho 1
    have b := posBlock body env _ (he.mono a0.mono) a0.out
    have a := (a0.trans b.1).skip 1
    have cc := posExpr c _ _ (b.2.mono (by simp [RefSt.skip])) a.out
    exact ⟨a.trans cc, he.mono (a.trans cc).mono⟩
  | .do_ body, env, s, he, ho => by
    simp only [refStat]
    have a0 : PosOk s (s.skip 1) := PosOk.start ho 1
    have b := posBlock body env _ (he.mono a0.mono) a0.out
    exact ⟨(a0.trans b.1).skip 1, he.mono ((a0.trans b.1).skip 1).mono⟩
  | .if_ c t e, env, s, he, ho => by
    simp only [refStat]
    have a0 : PosOk s (s.skip 1) := PosOk.start ho 1
    have a := (a0.trans (posExpr c env _ (he.mono a0.mono) a0.out)).skip 1
    have b := posBlock t env _ (he.mono a.mono) a.out
    have a2 := (a.trans b.1).skip 1
    have b2 := posBlock e env _ (he.mono a2.mono) a2.out
    exact ⟨(a2.trans b2.1).skip 1, he.mono ((a2.trans b2.1).skip 1).mono⟩
  | .callS f args, env, s, he, ho => by
    simp only [refStat]
    have a : PosOk s ((s.use env f).skip 1) := PosOk.skip ⟨ho.use he f, by simp [RefSt.use]⟩ 1
    have b := posExprs args env _ (he.mono a.mono) a.out
    exact ⟨(a.trans b).skip 1, he.mono ((a.trans b).skip 1).mono⟩
  | .loclAttr n val, env, s, he, ho => by
    simp only [refStat]
    have a : PosOk s (s.skip 6) := PosOk.start ho 6
    have b := posExpr val env _ (he.mono a.mono) a.out
    refine ⟨a.trans b, ?_⟩
    intro e hm
    rcases List.mem_cons.mp hm with rfl | hm
    · show s.pos + 2 < _; have := b.mono; simp only [RefSt.skip_pos] at this; omega
    · exact he.mono (a.trans b).mono e hm
  | .method obj k colon ps body, env, s, he, ho => by
    simp only [refStat]
    have a0 : PosOk s (s.skip 1) := PosOk.start ho 1
    have a1 : PosOk s ((s.skip 1).use env obj) :=
      ⟨a0.out.use (he.mono a0.mono) obj, by simp [RefSt.use, RefSt.skip]; omega⟩
    have a := a1.skip (2 * k + 2 + ps.length)
    have heS : EnvLt (selfEnv colon (s.pos + 4 * k) env) (((s.skip 1).use env obj).skip (2 * k + 2 + ps.length)).pos := by
      intro e hm
      cases colon
      · exact he.mono a.mono e (by simpa [selfEnv] using hm)
      · simp only [selfEnv, if_true] at hm
        rcases List.mem_cons.mp hm with rfl | hm
        · show s.pos + 4 * k < _; simp; omega
        · exact he.mono a.mono e hm
    have b := posBlock body (bindNames (selfEnv colon (s.pos + 4 * k) env) (s.pos + 6 + 4 * k) ps) _
      (EnvLt.bindNames ps _ _ _ heS (by simp; omega)) a.out
    exact ⟨(a.trans b.1).skip 1, he.mono ((a.trans b.1).skip 1).mono⟩
theorem posBlock : ∀ (b : List Stat) (env : Env) (s : RefSt), EnvLt env s.pos → OutOk s.out s.pos →
    PosOk s (refBlock env s b).1 ∧ EnvLt (refBlock env s b).2 (refBlock env s b).1.pos
  | [], env, s, he, ho => by simp only [refBlock]; exact ⟨⟨ho, Nat.le_refl _⟩, he⟩
  | st :: rest, env, s, he, ho => by
    simp only [refBlock]
    have a := posStat st env s he ho
    have b := posBlock rest _ _ a.2 a.1.out
    exact ⟨a.1.trans b.1, b.2⟩
end

/-- the recorded uses of a whole program -/
theorem reference_outOk (p : List Stat) :
    OutOk (refBlock [] { pos := startPos, out := [] } p).1.out (refBlock [] { pos := startPos, out := [] } p).1.pos :=
  (posBlock p [] _ (fun _ h => by cases h) ⟨fun _ h => (by cases h), List.Pairwise.nil⟩).1.out

/-- a use lies after the declaration it resolves to -/
theorem reference_decl_before_use (p : List Stat) (u d : Nat) (h : (u, some d) ∈ reference p) : d < u := by
  have := (reference_outOk p).1 (u, some d) (by simpa [reference] using h)
  exact this.2 d rfl

/-- use positions strictly increase -/
theorem reference_positions_increasing (p : List Stat) : (reference p).Pairwise (fun a c => a.1 < c.1) := by
  unfold reference
  rw [List.pairwise_reverse]
  exact (reference_outOk p).2

theorem cellsOf_mem {res : List Res} {d u : Nat} (h : u ∈ cellsOf res d) : (u, some d) ∈ res := by
  simp only [cellsOf, List.mem_map, List.mem_filter, decide_eq_true_eq] at h
  obtain ⟨r, ⟨hr, hd⟩, rfl⟩ := h
  obtain ⟨a, b⟩ := r
  simp only at hd; subst hd; exact hr

theorem cellsOf_nodup (p : List Stat) (d : Nat) : (cellsOf (reference p) d).Nodup := by
  unfold cellsOf
  have h := reference_positions_increasing p
  have h2 : ((reference p).filter fun r => r.2 = some d).Pairwise (fun a c => a.1 < c.1) := h.filter _
  rw [List.Nodup, List.pairwise_map]
  exact h2.imp (fun hlt => by omega)

end Scope
