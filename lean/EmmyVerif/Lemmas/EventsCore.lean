import EmmyVerif.Model.EventsCore
/-! Lemmas: `bump` emits every token exactly once, in order (as a direct `EatToken` or inside a
comment group handed to the doc parser), and strictly advances. -/
namespace Core

theorem cover_append (a b : List Ev) : cover (a ++ b) = cover a ++ cover b := by
  induction a with
  | nil => rfl
  | cons e es ih => cases e <;> simp [cover, ih, List.append_assoc]

theorem cover_eats (a n : Nat) : cover ((List.range' a n).map Ev.eat) = List.range' a n := by
  induction n generalizing a with
  | zero => rfl
  | succ n ih => simp [List.range'_succ, cover, ih]

theorem range'_split (a m n : Nat) (h : m ≤ n) :
    List.range' a m ++ List.range' (a + m) (n - m) = List.range' a n := by
  have : n = m + (n - m) := by omega
  conv => rhs; rw [this]
  rw [List.range'_append_1]

theorem length_takeWhile_le' {α} (p : α → Bool) (l : List α) : (l.takeWhile p).length ≤ l.length := by
  induction l with
  | nil => simp
  | cons x xs ih =>
    by_cases hp : p x = true
    · simp [List.takeWhile_cons, hp]; omega
    · simp [List.takeWhile_cons, hp]

theorem trailStart_bounds (toks : List TK) (a b : Nat) (h : a ≤ b) :
    a ≤ trailStart toks a b ∧ trailStart toks a b ≤ b := by
  unfold trailStart
  have h1 := length_takeWhile_le' (fun k => k == TK.ws || k == TK.eol) ((toks.drop a).take (b - a)).reverse
  have h2 : ((toks.drop a).take (b - a)).reverse.length ≤ b - a := by
    simp [List.length_take]; omega
  omega

theorem cover_parseComments (toks : List TK) (d : Bool) (a b : Nat) (h : a ≤ b) :
    cover (parseComments toks d a b) = List.range' a (b - a) := by
  unfold parseComments
  split
  · obtain ⟨h1, h2⟩ := trailStart_bounds toks a b h
    simp only [cover, cover_eats]
    have := range'_split a (trailStart toks a b - a) (b - a) (by omega)
    rw [← this]
    congr 2 <;> omega
  · exact cover_eats _ _

/-- what is pending in `doc_tokens` -/
def pending (st : TS) (i : Nat) : List Nat :=
  match st.docStart with
  | none => []
  | some a => List.range' a (i - a)

def trivAt (toks : List TK) (j : Nat) : Bool :=
  match toks[j]? with
  | some k => k.isTrivia
  | none => false

/-- loop invariant of `parse_trivia_tokens` after the indices `[start, i)` -/
def TInv (toks : List TK) (start i : Nat) (st : TS) : Prop :=
  (∀ a, st.docStart = some a → start ≤ a ∧ a ≤ i) ∧
  cover st.out ++ pending st i = (List.range' start (i - start)).filter (trivAt toks)

theorem filter_range'_snoc (toks : List TK) (start i : Nat) (h : start ≤ i) :
    (List.range' start (i + 1 - start)).filter (trivAt toks) =
      (List.range' start (i - start)).filter (trivAt toks) ++ (if trivAt toks i then [i] else []) := by
  have : i + 1 - start = (i - start) + 1 := by omega
  rw [this, List.range'_concat, List.filter_append]
  have : start + 1 * (i - start) = i := by omega
  rw [this]
  simp [List.filter_cons]

theorem range'_snoc (a i : Nat) (h : a ≤ i) : List.range' a (i + 1 - a) = List.range' a (i - a) ++ [i] := by
  have : i + 1 - a = (i - a) + 1 := by omega
  rw [this, List.range'_concat]
  congr 2; omega

theorem triviaStep_inv (toks : List TK) (d : Bool) (start i : Nat) (st : TS) (hs : start ≤ i)
    (hi : i < toks.length) (h : TInv toks start i st) :
    TInv toks start (i+1) (triviaStep toks d st i) := by
  obtain ⟨hb, hc⟩ := h
  have hget : toks[i]? = some toks[i] := List.getElem?_eq_getElem hi
  have hsnoc := filter_range'_snoc toks start i hs
  unfold TInv
  rw [hsnoc]
  unfold triviaStep
  rw [hget]
  cases hk : toks[i] with
  | comment =>
    have ht : trivAt toks i = true := by simp [trivAt, hget, hk, TK.isTrivia]
    simp only [ht, if_true]
    cases hds : st.docStart with
    | none =>
      refine ⟨?_, ?_⟩
      · intro a ha; simp [Option.getD] at ha; omega
      · simp only [pending, hds, Option.getD] at hc ⊢
        rw [← hc]
        have : i + 1 - i = 1 := by omega
        simp [this, List.range'_succ]
    | some a =>
      obtain ⟨ha1, ha2⟩ := hb a hds
      refine ⟨?_, ?_⟩
      · intro a' ha'; simp [Option.getD] at ha'; omega
      · simp only [pending, hds, Option.getD] at hc ⊢
        rw [← hc, range'_snoc a i ha2, List.append_assoc]
  | eol =>
    have ht : trivAt toks i = true := by simp [trivAt, hget, hk, TK.isTrivia]
    simp only [ht, if_true]
    cases hds : st.docStart with
    | none =>
      simp only [pending, hds, List.append_nil] at hc
      refine ⟨?_, ?_⟩
      · intro a ha; simp at ha
      · simp [pending, cover_append, cover, hc]
    | some a =>
      obtain ⟨ha1, ha2⟩ := hb a hds
      simp only [pending, hds] at hc
      simp only []
      split
      · refine ⟨?_, ?_⟩
        · intro a' ha'; simp at ha'
        · simp only [pending, List.append_nil, cover_append,
            cover_parseComments toks d a (i+1) (by omega)]
          rw [← hc, range'_snoc a i ha2, List.append_assoc]
      · split
        · refine ⟨?_, ?_⟩
          · intro a' ha'; simp at ha'
          · simp only [pending, List.append_nil, cover_append,
              cover_parseComments toks d a (i+1) (by omega)]
            rw [← hc, range'_snoc a i ha2, List.append_assoc]
        · refine ⟨?_, ?_⟩
          · intro a' ha'; simp [hds] at ha'; omega
          · simp only [pending, hds]
            rw [← hc, range'_snoc a i ha2, List.append_assoc]
  | ws =>
    have ht : trivAt toks i = true := by simp [trivAt, hget, hk, TK.isTrivia]
    simp only [ht, if_true]
    cases hds : st.docStart with
    | none =>
      simp only [pending, hds, List.append_nil] at hc
      refine ⟨?_, ?_⟩
      · intro a ha; simp [hds] at ha
      · simp [pending, hds, cover_append, cover, hc]
    | some a =>
      obtain ⟨ha1, ha2⟩ := hb a hds
      simp only [pending, hds] at hc
      refine ⟨?_, ?_⟩
      · intro a' ha'; simp [hds] at ha'; omega
      · simp only [pending, hds]
        rw [← hc, range'_snoc a i ha2, List.append_assoc]
  | shebang =>
    have ht : trivAt toks i = true := by simp [trivAt, hget, hk, TK.isTrivia]
    simp only [ht, if_true]
    cases hds : st.docStart with
    | none =>
      simp only [pending, hds, List.append_nil] at hc
      refine ⟨?_, ?_⟩
      · intro a ha; simp [hds] at ha
      · simp [pending, hds, cover_append, cover, hc]
    | some a =>
      obtain ⟨ha1, ha2⟩ := hb a hds
      simp only [pending, hds] at hc
      refine ⟨?_, ?_⟩
      · intro a' ha'; simp [hds] at ha'; omega
      · simp only [pending, hds]
        rw [← hc, range'_snoc a i ha2, List.append_assoc]
  | eof =>
    have ht : trivAt toks i = false := by simp [trivAt, hget, hk, TK.isTrivia]
    simp only [ht, Bool.false_eq_true, if_false, List.append_nil]
    cases hds : st.docStart with
    | none =>
      simp only [pending, hds, List.append_nil] at hc
      refine ⟨?_, ?_⟩
      · intro a ha; simp [hds] at ha
      · simp [pending, hds, hc]
    | some a =>
      obtain ⟨ha1, ha2⟩ := hb a hds
      simp only [pending, hds] at hc
      refine ⟨?_, ?_⟩
      · intro a' ha'; simp at ha'
      · simp only [pending, List.append_nil, cover_append, cover_parseComments toks d a i ha2]
        exact hc
  | other =>
    have ht : trivAt toks i = false := by simp [trivAt, hget, hk, TK.isTrivia]
    simp only [ht, Bool.false_eq_true, if_false, List.append_nil]
    cases hds : st.docStart with
    | none =>
      simp only [pending, hds, List.append_nil] at hc
      refine ⟨?_, ?_⟩
      · intro a ha; simp [hds] at ha
      · simp [pending, hds, hc]
    | some a =>
      obtain ⟨ha1, ha2⟩ := hb a hds
      simp only [pending, hds] at hc
      refine ⟨?_, ?_⟩
      · intro a' ha'; simp at ha'
      · simp only [pending, List.append_nil, cover_append, cover_parseComments toks d a i ha2]
        exact hc

theorem foldl_inv (toks : List TK) (d : Bool) (start n : Nat) (st : TS) (hn : start + n ≤ toks.length)
    (k : Nat) (hk : k ≤ n) (h : TInv toks start (start + (n - k)) st) :
    TInv toks start (start + n)
      ((List.range' (start + (n - k)) k).foldl (triviaStep toks d) st) := by
  induction k generalizing st with
  | zero => simpa using h
  | succ k ih =>
    rw [List.range'_succ, List.foldl_cons]
    have h1 := triviaStep_inv toks d start (start + (n - (k+1))) st (by omega) (by omega) h
    have e : start + (n - (k+1)) + 1 = start + (n - k) := by omega
    rw [e] at h1 ⊢
    exact ih _ (by omega) h1

/-- `parse_trivia_tokens` covers exactly the trivia tokens of `[start, next)`, in order -/
theorem parseTrivia_cover (toks : List TK) (d : Bool) (start next : Nat) (h1 : start ≤ next)
    (h2 : next ≤ toks.length) :
    cover (parseTrivia toks d start next) = (List.range' start (next - start)).filter (trivAt toks) := by
  unfold parseTrivia
  have h0 : TInv toks start (start + ((next - start) - (next - start))) ⟨0, none, []⟩ := by
    refine ⟨by intro a ha; simp at ha, ?_⟩
    simp [pending, cover]
  have := foldl_inv toks d start (next - start) ⟨0, none, []⟩ (by omega) (next - start) (Nat.le_refl _) h0
  simp only [Nat.sub_self, Nat.add_zero] at this
  have e : start + (next - start) = next := by omega
  rw [e] at this
  obtain ⟨hb, hc⟩ := this
  simp only []
  split
  · rename_i hds
    simpa [pending, hds] using hc
  · rename_i a hds
    obtain ⟨ha1, ha2⟩ := hb a hds
    rw [cover_append, cover_parseComments toks d a next ha2]
    simpa [pending, hds] using hc

theorem skipTrivia_le (toks : List TK) (i : Nat) (h : i ≤ toks.length) :
    i ≤ skipTrivia toks i ∧ skipTrivia toks i ≤ toks.length := by
  unfold skipTrivia
  have := length_takeWhile_le' TK.isTrivia (toks.drop i)
  simp [List.length_drop] at this
  omega

theorem getElem?_drop_takeWhile {α} (p : α → Bool) (l : List α) (j : Nat) (h : j < (l.takeWhile p).length) :
    ∃ x, l[j]? = some x ∧ p x = true := by
  induction l generalizing j with
  | nil => simp at h
  | cons x xs ih =>
    by_cases hp : p x = true
    · simp only [List.takeWhile_cons, hp, if_true, List.length_cons] at h
      cases j with
      | zero => exact ⟨x, by simp, hp⟩
      | succ j' =>
        obtain ⟨y, hy, hpy⟩ := ih j' (by omega)
        exact ⟨y, by simpa using hy, hpy⟩
    · simp [List.takeWhile_cons, hp] at h

/-- everything strictly between `i` and `skipTrivia i` is trivia -/
theorem skipTrivia_triv (toks : List TK) (i j : Nat) (h1 : i ≤ j) (h2 : j < skipTrivia toks i) :
    trivAt toks j = true := by
  unfold skipTrivia at h2
  obtain ⟨x, hx, hp⟩ := getElem?_drop_takeWhile TK.isTrivia (toks.drop i) (j - i) (by omega)
  rw [List.getElem?_drop] at hx
  have : i + (j - i) = j := by omega
  rw [this] at hx
  simp [trivAt, hx, hp]

theorem filter_all {α} (p : α → Bool) (l : List α) (h : ∀ x ∈ l, p x = true) : l.filter p = l := by
  induction l with
  | nil => rfl
  | cons x xs ih =>
    have hx := h x (by simp)
    simp [List.filter_cons, hx, ih (fun y hy => h y (by simp [hy]))]

/-- one `bump`: covers `[idx, next)` and strictly advances -/
theorem bump_cover (toks : List TK) (d : Bool) (s s' : PS)
    (hne : ∀ k ∈ toks, k ≠ TK.eof) (hc : cover s.events = List.range s.idx)
    (hb : bump toks d s = some s') :
    cover s'.events = List.range s'.idx ∧ s.idx < s'.idx ∧ s'.idx ≤ toks.length := by
  unfold bump at hb
  split at hb
  · cases hb
  · rename_i k hk
    cases hb
    have hlt : s.idx < toks.length := by
      rcases Nat.lt_or_ge s.idx toks.length with h | h
      · exact h
      · rw [List.getElem?_eq_none_iff.mpr h] at hk; cases hk
    obtain ⟨l1, l2⟩ := skipTrivia_le toks (s.idx + 1) (by omega)
    refine ⟨?_, by simp only; omega, l2⟩
    simp only [cover_append, hc]
    rw [parseTrivia_cover toks d s.idx _ (by omega) l2]
    -- split the range at idx
    have hsplit : List.range' s.idx (skipTrivia toks (s.idx + 1) - s.idx) =
        s.idx :: List.range' (s.idx + 1) (skipTrivia toks (s.idx + 1) - (s.idx + 1)) := by
      have : skipTrivia toks (s.idx + 1) - s.idx = (skipTrivia toks (s.idx + 1) - (s.idx + 1)) + 1 := by omega
      rw [this, List.range'_succ]
    have hrest : (List.range' (s.idx + 1) (skipTrivia toks (s.idx + 1) - (s.idx + 1))).filter (trivAt toks)
        = List.range' (s.idx + 1) (skipTrivia toks (s.idx + 1) - (s.idx + 1)) := by
      apply filter_all
      intro j hj
      rw [List.mem_range'_1] at hj
      exact skipTrivia_triv toks (s.idx + 1) j (by omega) (by omega)
    have hmem : k ∈ toks := List.mem_of_getElem? hk
    have hres : List.range (skipTrivia toks (s.idx + 1)) =
        List.range s.idx ++ (s.idx :: List.range' (s.idx + 1) (skipTrivia toks (s.idx + 1) - (s.idx + 1))) := by
      rw [← hsplit, List.range_eq_range', List.range_eq_range']
      have := range'_split 0 s.idx (skipTrivia toks (s.idx + 1)) (by omega)
      simpa using this.symm
    rw [hres, hsplit, List.filter_cons, hrest]
    cases hkk : k with
    | other => simp [TK.isInvalid, cover, trivAt, hk, hkk, TK.isTrivia]
    | eof => exact absurd hkk (hne k hmem)
    | comment => simp [TK.isInvalid, cover, trivAt, hk, hkk, TK.isTrivia]
    | eol => simp [TK.isInvalid, cover, trivAt, hk, hkk, TK.isTrivia]
    | ws => simp [TK.isInvalid, cover, trivAt, hk, hkk, TK.isTrivia]
    | shebang => simp [TK.isInvalid, cover, trivAt, hk, hkk, TK.isTrivia]

theorem init_cover (toks : List TK) (d : Bool) (hne : ∀ k ∈ toks, k ≠ TK.eof) :
    cover (init toks d).events = List.range (init toks d).idx ∧ (init toks d).idx ≤ toks.length := by
  unfold init
  split
  · rename_i k hk
    split
    · cases hb : bump toks d ⟨0, []⟩ with
      | none => simp [cover]
      | some s' =>
        obtain ⟨h1, _, h3⟩ := bump_cover toks d ⟨0, []⟩ s' hne (by simp [cover]) hb
        simpa using ⟨h1, h3⟩
    · simp [cover]
  · simp [cover]

theorem bumpAll_cover (toks : List TK) (d : Bool) (hne : ∀ k ∈ toks, k ≠ TK.eof) (f : Nat) (s : PS)
    (hc : cover s.events = List.range s.idx) (hle : s.idx ≤ toks.length) (hf : toks.length ≤ s.idx + f) :
    cover (bumpAll toks d f s).events = List.range toks.length := by
  induction f generalizing s with
  | zero =>
    have : s.idx = toks.length := by omega
    simpa [bumpAll, this] using hc
  | succ f ih =>
    unfold bumpAll
    cases hb : bump toks d s with
    | none =>
      -- bump fails only at or past the end
      have : toks[s.idx]? = none := by
        unfold bump at hb
        split at hb
        · assumption
        · cases hb
      have hge : toks.length ≤ s.idx := List.getElem?_eq_none_iff.mp this
      have : s.idx = toks.length := by omega
      simpa [this] using hc
    | some s' =>
      obtain ⟨h1, h2, h3⟩ := bump_cover toks d s s' hne hc hb
      exact ih s' h1 h3 (by omega)

/-- state invariant of the token layer -/
def PInv (toks : List TK) (s : PS) : Prop :=
  cover s.events = List.range s.idx ∧ s.idx ≤ toks.length

theorem bump_none_iff (toks : List TK) (d : Bool) (s : PS) : bump toks d s = none ↔ toks.length ≤ s.idx := by
  unfold bump
  constructor
  · intro h
    split at h
    · rename_i hn; exact List.getElem?_eq_none_iff.mp hn
    · cases h
  · intro h
    rw [List.getElem?_eq_none_iff.mpr h]

theorem bumpN_inv (toks : List TK) (d : Bool) (hne : ∀ k ∈ toks, k ≠ TK.eof) (n : Nat) (s : PS)
    (h : PInv toks s) : PInv toks (bumpN toks d n s) ∧ s.idx ≤ (bumpN toks d n s).idx := by
  induction n generalizing s with
  | zero => exact ⟨h, Nat.le_refl _⟩
  | succ n ih =>
    unfold bumpN
    cases hb : bump toks d s with
    | none => exact ⟨h, Nat.le_refl _⟩
    | some s' =>
      obtain ⟨h1, h2, h3⟩ := bump_cover toks d s s' hne h.1 hb
      obtain ⟨i1, i2⟩ := ih s' ⟨h1, h3⟩
      exact ⟨i1, by simp only; omega⟩

/-- one iteration of the `parse_chunk` loop keeps the invariant and strictly advances -/
theorem chunk_step (toks : List TK) (d : Bool) (hne : ∀ k ∈ toks, k ≠ TK.eof) (g : PS → Nat) (s : PS)
    (h : PInv toks s) (hlt : s.idx < toks.length) :
    let s1 := bumpN toks d (g s) s
    let s2 := if s1.idx == s.idx then (bump toks d s1).getD s1 else s1
    PInv toks s2 ∧ s.idx < s2.idx := by
  obtain ⟨i1, i2⟩ := bumpN_inv toks d hne (g s) s h
  simp only []
  split
  · rename_i heq
    have heq' : (bumpN toks d (g s) s).idx = s.idx := by simpa using heq
    cases hb : bump toks d (bumpN toks d (g s) s) with
    | none =>
      have := (bump_none_iff toks d _).mp hb
      omega
    | some s' =>
      obtain ⟨h1, h2, h3⟩ := bump_cover toks d _ s' hne i1.1 hb
      exact ⟨⟨h1, h3⟩, by simp only [Option.getD]; omega⟩
  · rename_i hneq
    have : (bumpN toks d (g s) s).idx ≠ s.idx := by simpa using hneq
    exact ⟨i1, by omega⟩

theorem chunkLoop_spec (toks : List TK) (d : Bool) (hne : ∀ k ∈ toks, k ≠ TK.eof) (g : PS → Nat)
    (f : Nat) (s : PS) (h : PInv toks s) (hf : toks.length ≤ s.idx + f) :
    PInv toks (chunkLoop toks d g f s) ∧ (chunkLoop toks d g f s).idx = toks.length := by
  induction f generalizing s with
  | zero =>
    have : s.idx = toks.length := by have := h.2; omega
    exact ⟨h, this⟩
  | succ f ih =>
    unfold chunkLoop
    split
    · rename_i hge
      exact ⟨h, by have := h.2; omega⟩
    · rename_i hlt
      obtain ⟨h1, h2⟩ := chunk_step toks d hne g s h (by omega)
      exact ih _ h1 (by omega)

end Core
