import EmmyVerif.Model.Emit
/-! Lemmas about the `Emit` model (C40). -/
namespace Emit

/-- every character is a name character, and a `.` never follows a `.` (nor starts the text) -/
def okFrom (alnum : Char → Bool) : Option Char → List Char → Bool
  | _, [] => true
  | prev, o :: rest =>
    (alnum o || o == '_' || (o == '.' && prev.isSome && prev != some '.')) && okFrom alnum (some o) rest

theorem okFrom_sanitize (alnum : Char → Bool) (prev : Option Char) (l : List Char) :
    okFrom alnum prev (sanitizeGo alnum prev l) = true := by
  induction l generalizing prev with
  | nil => rfl
  | cons c rest ih =>
    simp only [sanitizeGo, okFrom]
    by_cases hk : (alnum c || c == '_' || (c == '.' && prev.isSome && prev != some '.')) = true
    · simp only [hk, if_true, Bool.true_and]; exact ih _
    · simp only [hk]
      simp [ih]

/-- hypotheses about `char::is_alphanumeric` used by the theorems -/
structure AlnumOk (alnum : Char → Bool) : Prop where
  dot : alnum '.' = false
  dash : alnum '-' = false
  star : alnum '*' = false

theorem readNameRest_ok (alnum : Char → Bool) (h : AlnumOk alnum) (prev : Option Char) (l : List Char)
    (hl : okFrom alnum prev l = true) : readNameRest alnum l = (l, []) := by
  induction l generalizing prev with
  | nil => rfl
  | cons o rest ih =>
    simp only [okFrom, Bool.and_eq_true] at hl
    obtain ⟨ho, hrest⟩ := hl
    have ihr := ih (some o) hrest
    by_cases h1 : (alnum o || o == '_' || o == '`') = true
    · simp only [readNameRest, h1, if_true, ihr]
    · have h1' : (alnum o || o == '_' || o == '`') = false := by simpa using h1
      simp only [Bool.or_eq_false_iff] at h1'
      obtain ⟨⟨ha, hu⟩, _⟩ := h1'
      -- so o is a '.' admitted by the third disjunct
      have hdot : o = '.' := by
        simp only [ha, hu, Bool.false_or, Bool.and_eq_true, beq_iff_eq] at ho
        exact ho.1.1
      subst hdot
      cases rest with
      | nil => simp [readNameRest, h.dot]
      | cons n rest' =>
        simp only [okFrom, Bool.and_eq_true] at hrest
        have hn := hrest.1
        have hnot : (n == '.' || n == '-' || n == '*') = false := by
          by_cases e1 : n = '.'
          · subst e1; simp [h.dot] at hn
          · by_cases e2 : n = '-'
            · subst e2; simp [h.dash] at hn
            · by_cases e3 : n = '*'
              · subst e3; simp [h.star] at hn
              · simp [e1, e2, e3]
        have hstep : readNameRest alnum ('.' :: n :: rest') =
            ('.' :: (readNameRest alnum (n :: rest')).1, (readNameRest alnum (n :: rest')).2) := by
          rw [readNameRest]; simp [h.dot, hnot]
        rw [hstep, ihr]

theorem lexStringBody_closed (d : Char) (s rest : List Char) (h : s.contains d = false) :
    lexStringBody d (s ++ d :: rest) = (s ++ [d], rest) := by
  induction s with
  | nil => simp [lexStringBody]
  | cons c s ih =>
    have hc : (c == d) = false := by
      cases hcd : c == d with
      | false => rfl
      | true =>
        have : c = d := by simpa using hcd
        subst this; simp at h
    have hs : s.contains d = false := by
      simp only [List.contains_cons, Bool.or_eq_false_iff] at h
      exact h.2
    simp [lexStringBody, hc, ih hs]

/-! ### description lines -/

theorem linesGo_no_nl (acc t : List Char) (hacc : ∀ c ∈ acc, c ≠ '\n') :
    ∀ l ∈ linesGo acc t, ∀ c ∈ l, c ≠ '\n' := by
  induction t generalizing acc with
  | nil =>
    intro l hl c hc
    simp only [linesGo] at hl
    split at hl
    · simp at hl
    · simp at hl; subst hl; exact hacc c (by simpa using hc)
  | cons x rest ih =>
    intro l hl c hc
    simp only [linesGo] at hl
    split at hl
    · rcases List.mem_cons.mp hl with rfl | hl
      · split at hc
        · rename_i acc' 
          exact hacc c (by simp at hc; simp [hc])
        · exact hacc c (by simpa using hc)
      · exact ih [] (by simp) l hl c hc
    · rename_i hx
      have hx : x ≠ '\n' := by simpa using hx
      exact ih (x :: acc) (fun c hc => by
        rcases List.mem_cons.mp hc with rfl | hc
        · exact hx
        · exact hacc c hc) l hl c hc

theorem splitCr_pieces (l : List Char) : ∀ p ∈ splitCr l, ∀ c ∈ p, c ∈ l ∧ c ≠ '\r' ∧ c ≠ '\x00' := by
  induction l with
  | nil => intro p hp c hc; simp [splitCr] at hp; subst hp; simp at hc
  | cons x rest ih =>
    intro p hp c hc
    simp only [splitCr] at hp
    split at hp
    · rcases List.mem_cons.mp hp with rfl | hp
      · simp at hc
      · have := ih p hp c hc
        exact ⟨List.mem_cons_of_mem _ this.1, this.2⟩
    · rename_i hx
      have hx : x ≠ '\r' ∧ x ≠ '\x00' := by simpa using hx
      split at hp
      · rename_i heq
        simp at hp; subst hp
        simp at hc; subst hc
        exact ⟨by simp, hx.1, hx.2⟩
      · rename_i s ss heq
        rcases List.mem_cons.mp hp with rfl | hp
        · rcases List.mem_cons.mp hc with rfl | hc
          · exact ⟨by simp, hx.1, hx.2⟩
          · have := ih s (by rw [heq]; simp) c hc
            exact ⟨List.mem_cons_of_mem _ this.1, this.2⟩
        · have := ih p (by rw [heq]; exact List.mem_cons_of_mem _ hp) c hc
          exact ⟨List.mem_cons_of_mem _ this.1, this.2⟩

theorem commentLines_no_break (t : List Char) : ∀ l ∈ commentLines t, ∀ c ∈ l, isBreak c = false := by
  intro l hl c hc
  simp only [commentLines, List.mem_flatMap] at hl
  obtain ⟨ln, hln, hl⟩ := hl
  have h1 := splitCr_pieces ln l hl c hc
  have h2 := linesGo_no_nl [] t (by simp) ln hln c h1.1
  simp [isBreak, h1.2.1, h1.2.2, h2]

/-! ### keywords, tag starts -/

theorem okFrom_append_us (alnum : Char → Bool) (prev : Option Char) (l : List Char)
    (h : okFrom alnum prev l = true) : okFrom alnum prev (l ++ ['_']) = true := by
  induction l generalizing prev with
  | nil => simp [okFrom]
  | cons c rest ih =>
    simp only [List.cons_append, okFrom, Bool.and_eq_true] at h ⊢
    exact ⟨h.1, ih _ h.2⟩

theorem dropWhile_lead_of_ws (l : List Char) :
    (l.dropWhile isDocWs).dropWhile isTagLead = l.dropWhile isTagLead := by
  induction l with
  | nil => rfl
  | cons c rest ih =>
    by_cases hc : isDocWs c = true
    · have hl : isTagLead c = true := by simp [isTagLead, hc]
      simp [List.dropWhile, hc, hl, ih]
    · simp [List.dropWhile, hc]

/-- the `@` criterion of `escapeTag` -/
def leadAt (l : List Char) : Bool := (l.dropWhile isTagLead).head? == some '@'

theorem leadAt_ws (l : List Char) : leadAt (l.dropWhile isDocWs) = leadAt l := by
  simp [leadAt, dropWhile_lead_of_ws]

theorem leadAt_cons_lead (c : Char) (l : List Char) (h : isTagLead c = true) : leadAt (c :: l) = leadAt l := by
  simp [leadAt, List.dropWhile, h]

/-- no `@` behind leading white space, dashes and slashes: the lexer never reaches a tag start -/
theorem tagAfter_false (f : Nat) (l : List Char) (h : leadAt l = false) : tagAfter f l = false := by
  induction f generalizing l with
  | zero => rfl
  | succ f ih =>
    have hm : leadAt (l.dropWhile isDocWs) = false := by rw [leadAt_ws]; exact h
    have hd : isTagLead '-' = true := by decide
    have hs : isTagLead '/' = true := by decide
    unfold tagAfter
    split
    · rename_i rest heq
      rw [heq] at hm
      have hr : leadAt rest = false := by
        rw [leadAt_cons_lead _ _ hd, leadAt_cons_lead _ _ hd, leadAt_cons_lead _ _ hd] at hm; exact hm
      have hr' : leadAt (rest.dropWhile isDocWs) = false := by rw [leadAt_ws]; exact hr
      split
      · rename_i tl heq2
        rw [heq2] at hr'
        simp [leadAt, List.dropWhile, isTagLead, isDocWs] at hr'
      · exact ih _ hr'
    · rename_i rest _ heq
      rw [heq] at hm
      rw [leadAt_cons_lead _ _ hd, leadAt_cons_lead _ _ hd] at hm
      exact ih _ hm
    · rename_i rest heq
      rw [heq] at hm
      rw [leadAt_cons_lead _ _ hs, leadAt_cons_lead _ _ hs, leadAt_cons_lead _ _ hs] at hm
      exact ih _ hm
    · rename_i rest _ heq
      rw [heq] at hm
      rw [leadAt_cons_lead _ _ hs, leadAt_cons_lead _ _ hs] at hm
      exact ih _ hm
    · rfl

/-- a written description line is never (even partly) lexed as a tag by the doc lexer -/
theorem tagStart_docLine (l : List Char) : tagStart ("--- ".toList ++ escapeTag l) = false := by
  have hpre : "--- ".toList ++ escapeTag l = '-' :: '-' :: '-' :: ' ' :: escapeTag l := rfl
  rw [hpre]
  have hsp : isDocWs ' ' = true := by decide
  have hlead : leadAt (escapeTag l) = false := by
    unfold escapeTag
    split
    · simp [leadAt, List.dropWhile, isTagLead, isDocWs]
    · rename_i hne
      simpa [leadAt] using hne
  have hm : leadAt ((escapeTag l).dropWhile isDocWs) = false := by rw [leadAt_ws]; exact hlead
  simp only [tagStart, List.dropWhile, hsp]
  split
  · rename_i tl heq
    rw [heq] at hm
    simp [leadAt, List.dropWhile, isTagLead, isDocWs] at hm
  · exact tagAfter_false _ _ hm

theorem sanitized_is_one_name (alnum alpha : Char → Bool) (pre name : List Char) :
    ∃ c r, sanitized alnum alpha pre name = c :: r ∧ (alpha c = true ∨ c = '_') ∧
      okFrom alnum (some c) r = true := by
  unfold sanitized
  have hok := okFrom_sanitize alnum none (pre ++ name)
  cases hs : sanitizeGo alnum none (pre ++ name) with
  | nil => exact ⟨'_', [], rfl, Or.inr rfl, rfl⟩
  | cons c r =>
    rw [hs] at hok
    simp only [okFrom, Bool.and_eq_true] at hok
    obtain ⟨hc, hr⟩ := hok
    have hc' : (alnum c || c == '_') = true := by simpa using hc
    by_cases ha : (alpha c || c == '_') = true
    · refine ⟨c, r, by simp [ha], ?_, hr⟩
      simp only [Bool.or_eq_true, beq_iff_eq] at ha
      exact ha
    · refine ⟨'_', c :: r, by simp [ha], Or.inr rfl, ?_⟩
      simp only [okFrom, Bool.and_eq_true]
      exact ⟨by simp only [Bool.or_eq_true] at hc' ⊢; exact Or.inl hc', hr⟩

end Emit
