import EmmyVerif.Model.IndexModule
import EmmyVerif.Lemmas.IndexMap
/-! Refinement of the `LuaModuleIndex` model to the spec state "insertion-ordered live module infos". -/
namespace Index.Module
open Index

/-- representation invariant tying a model state to the spec state -/
structure Inv (fz : Bool) (s : MState) (live : List Info) : Prop where
  nodes : ∀ p, agetL s.nodes p = (live.filter fun i => i.path = p).map (·.file)
  infos : ∀ f, aget s.infos f = live.find? fun i => i.file = f
  fuzzy : fz = true → ∀ n, agetL s.fuzzy n = (live.filter fun i => lastSeg i.path = n).map (·.file)
  nodup : (live.map (·.file)).Nodup

theorem inv_new (fz : Bool) : Inv fz MState.new [] := by
  refine ⟨?_, ?_, ?_, ?_⟩
  · intro p; simp [MState.new, agetL, aget]; split <;> simp
  · intro f; simp [MState.new]
  · intro _ n; simp [MState.new, agetL]
  · simp

/-! ### list facts -/

theorem find_of_mem_nodup {live : List Info} (hn : (live.map (·.file)).Nodup) {e : Info}
    (he : e ∈ live) : live.find? (fun i => i.file = e.file) = some e := by
  induction live with
  | nil => cases he
  | cons x r ih =>
    simp only [List.map_cons, List.nodup_cons] at hn
    by_cases hx : x.file = e.file
    · rcases List.mem_cons.mp he with h | h
      · subst h; simp
      · exact absurd (hx ▸ List.mem_map_of_mem (f := (·.file)) h) hn.1
    · rcases List.mem_cons.mp he with h | h
      · subst h; exact absurd rfl hx
      · simp [List.find?, hx, ih hn.2 h]

theorem find_some_mem {live : List Info} {f : Nat} {i : Info}
    (h : live.find? (fun i => i.file = f) = some i) : i ∈ live ∧ i.file = f := by
  have h1 := List.mem_of_find?_eq_some h
  have h2 := List.find?_some h
  exact ⟨h1, by simpa using h2⟩

theorem find_none_filter {live : List Info} {f : Nat}
    (h : live.find? (fun i => i.file = f) = none) : live.filter (fun i => i.file ≠ f) = live := by
  rw [List.filter_eq_self]
  intro a ha
  have := List.find?_eq_none.mp h a ha
  simpa using this

theorem find_filter_ne (live : List Info) {f f' : Nat} (hf : f' ≠ f) :
    (live.filter fun i => i.file ≠ f).find? (fun i => i.file = f') = live.find? fun i => i.file = f' := by
  induction live with
  | nil => rfl
  | cons x r ih =>
    rw [List.filter_cons]
    by_cases hx : x.file = f
    · have hx' : ¬ x.file = f' := fun e => hf (e ▸ hx)
      rw [if_neg (by simpa using hx), List.find?_cons, ih]; simp [hx']
    · rw [if_pos (by simpa using hx), List.find?_cons, List.find?_cons, ih]

/-- with distinct files, an entry of another path/name is not `f`'s entry -/
theorem file_ne_of_key_ne {β : Type} {live : List Info} (hn : (live.map (·.file)).Nodup) {i e : Info} (key : Info → β)
    (hi : i ∈ live) (he : e ∈ live) (hk : key e ≠ key i) : e.file ≠ i.file := by
  intro hf
  have h1 := find_of_mem_nodup hn hi
  have h2 := find_of_mem_nodup hn he
  rw [hf] at h2
  rw [h1] at h2
  cases h2
  exact hk rfl

theorem filter_key_remove {β : Type} [DecidableEq β] {live : List Info} (hn : (live.map (·.file)).Nodup)
    {i : Info} (hi : i ∈ live) (key : Info → β) (k : β) :
    ((live.filter fun e => e.file ≠ i.file).filter fun e => key e = k).map (·.file) =
      if k = key i then ((live.filter fun e => key e = k).map (·.file)).filter (fun x => x ≠ i.file)
      else (live.filter fun e => key e = k).map (·.file) := by
  split
  · next hk =>
    rw [List.filter_map, List.filter_filter, List.filter_filter]
    congr 1
    apply List.filter_congr
    intro x _
    simp [Function.comp, Bool.and_comm]
  · next hk =>
    rw [List.filter_filter]
    congr 1
    apply List.filter_congr
    intro x hx
    by_cases hkx : key x = k
    · have : x.file ≠ i.file := file_ne_of_key_ne hn key hi hx (by rw [hkx]; exact hk)
      simp [hkx, this]
    · simp [hkx]

/-! ### `pruneUp` and `ensurePrefixes` do not change any node's file list -/

theorem agetL_pruneUp (nodes : List (MPath × List Nat)) (rp : List Seg) (q : MPath) :
    agetL (pruneUp nodes rp) q = agetL nodes q := by
  induction rp generalizing nodes with
  | nil => rfl
  | cons s rp ih =>
    simp only [pruneUp]
    cases h : aget nodes (s :: rp).reverse with
    | none => rfl
    | some fs =>
      simp only
      split
      · rfl
      · next hc =>
        rw [ih]
        apply agetL_adel_empty
        have : fs.isEmpty = true := by
          cases hfe : fs.isEmpty <;> simp [hfe] at hc ⊢
        unfold agetL; rw [h]; simp [List.isEmpty_iff.mp this]

theorem agetL_ensurePrefixes (nodes : List (MPath × List Nat)) (acc : MPath) (p : List Seg) (q : MPath) :
    agetL (ensurePrefixes nodes acc p) q = agetL nodes q := by
  induction p generalizing nodes acc with
  | nil => rfl
  | cons s r ih =>
    simp only [ensurePrefixes]
    rw [ih]
    split
    · rfl
    · next h =>
      apply agetL_aset_empty
      cases hg : aget nodes (acc ++ [s]) <;> simp [hg] at h ⊢

/-! ### invariant preservation -/

theorem inv_remove {fz : Bool} {s : MState} {live : List Info} (h : Inv fz s live) (f : Nat) :
    Inv fz (remove s f) (specRemove live f) := by
  unfold remove specRemove
  cases hi : aget s.infos f with
  | none =>
    simp only
    rw [h.infos] at hi
    rw [find_none_filter hi]
    exact h
  | some i =>
    simp only
    rw [h.infos] at hi
    obtain ⟨himem, hif⟩ := find_some_mem hi
    subst hif
    refine ⟨?_, ?_, ?_, ?_⟩
    · intro p
      rw [agetL_pruneUp]
      rw [agetL_update _ _ _ (fun fs => fs.filter fun x => x ≠ i.file) (by simp)]
      rw [filter_key_remove h.nodup himem (fun e => e.path) p, h.nodes]
    · intro f'
      simp only
      rw [aget_adel, h.infos]
      by_cases hf : f' = i.file
      · subst hf
        simp only [if_true]
        symm
        rw [List.find?_eq_none]
        intro x hx
        simp at hx ⊢
        exact hx.2
      · simp only [hf, if_false]
        exact (find_filter_ne live hf).symm
    · intro hfz n
      simp only
      rw [agetL_aretainDrop]
      rw [filter_key_remove h.nodup himem (fun e => lastSeg e.path) n, h.fuzzy hfz]
    · exact List.Nodup.sublist (List.Sublist.map _ List.filter_sublist) h.nodup


theorem filter_append_key {β : Type} [DecidableEq β] (live : List Info) (e : Info) (key : Info → β) (k : β) :
    ((live ++ [e]).filter fun x => key x = k).map (·.file) =
      if k = key e then (live.filter fun x => key x = k).map (·.file) ++ [e.file]
      else (live.filter fun x => key x = k).map (·.file) := by
  rw [List.filter_append, List.map_append]
  by_cases hk : k = key e
  · subst hk; simp
  · have : ¬ key e = k := fun h => hk h.symm
    simp [hk, this]

/-- adding a module for a file that is not live -/
theorem inv_addFresh {fz : Bool} {s : MState} {live : List Info} (h : Inv fz s live) (f : Nat)
    (hf : live.find? (fun i => i.file = f) = none) (mp : List Char) (ws : Nat) :
    Inv fz
      { nodes := apush (ensurePrefixes s.nodes [] (splitOn '.' mp)) (splitOn '.' mp) f
        infos := aset s.infos f { file := f, path := splitOn '.' mp, ws := ws, hidden := false }
        fuzzy := if fz then apush s.fuzzy (lastSeg (splitOn '.' mp)) f else s.fuzzy }
      (live ++ [{ file := f, path := splitOn '.' mp, ws := ws, hidden := false }]) := by
  refine ⟨?_, ?_, ?_, ?_⟩
  · intro p
    simp only
    rw [agetL_apush, agetL_ensurePrefixes, h.nodes, filter_append_key live _ (fun e => e.path) p]
  · intro f'
    simp only
    rw [aget_aset, h.infos, List.find?_append]
    by_cases hff : f' = f
    · subst hff; simp [hf]
    · have : ¬ f = f' := fun e => hff e.symm
      simp [hff, this]
  · intro hfz n
    subst hfz
    simp only [if_true]
    rw [agetL_apush, h.fuzzy rfl, filter_append_key live _ (fun e => lastSeg e.path) n]
  · rw [List.map_append, List.nodup_append]
    refine ⟨h.nodup, by simp, ?_⟩
    intro a ha b hb
    simp at hb
    subst hb
    intro hab
    subst hab
    obtain ⟨e, he, hea⟩ := List.mem_map.mp ha
    have := List.find?_eq_none.mp hf e he
    simp at this
    exact this hea

theorem inv_addModule {fz : Bool} {s : MState} {live : List Info} (h : Inv fz s live) (f : Nat)
    (mp : List Char) (ws : Nat) :
    Inv fz (addModule fz s f mp ws) (specAddMod live f mp ws) := by
  unfold addModule specAddMod
  have h1 : Inv fz (if (aget s.infos f).isSome then remove s f else s) (specRemove live f) := by
    split
    · exact inv_remove h f
    · next hn =>
      have : aget s.infos f = none := by cases hg : aget s.infos f <;> simp [hg] at hn ⊢
      rw [h.infos] at this
      unfold specRemove
      rw [find_none_filter this]
      exact h
  have hf : (specRemove live f).find? (fun i => i.file = f) = none := by
    unfold specRemove
    rw [List.find?_eq_none]
    intro x hx
    simp at hx ⊢
    exact hx.2
  exact inv_addFresh h1 f hf mp ws

theorem upd_file (f : Nat) (b : Bool) (i : Info) :
    (if i.file = f then { i with hidden := b } else i).file = i.file := by split <;> rfl

theorem upd_path (f : Nat) (b : Bool) (i : Info) :
    (if i.file = f then { i with hidden := b } else i).path = i.path := by split <;> rfl

theorem upd_filter (f : Nat) (b : Bool) (key : MPath → Bool) (l : List Info) :
    ((l.map fun i => if i.file = f then { i with hidden := b } else i).filter fun i => key i.path).map (·.file)
      = (l.filter fun i => key i.path).map (·.file) := by
  induction l with
  | nil => rfl
  | cons x r ih =>
    simp only [List.map_cons, List.filter_cons, upd_path]
    split
    · simp only [List.map_cons, upd_file, ih]
    · exact ih

theorem upd_find (f : Nat) (b : Bool) (f' : Nat) (l : List Info) :
    (l.map fun i => if i.file = f then { i with hidden := b } else i).find? (fun i => i.file = f')
      = (l.find? fun i => i.file = f').map fun i => if i.file = f then { i with hidden := b } else i := by
  induction l with
  | nil => rfl
  | cons x r ih =>
    simp only [List.map_cons, List.find?_cons, upd_file]
    split
    · rfl
    · exact ih

theorem inv_setHidden {fz : Bool} {s : MState} {live : List Info} (h : Inv fz s live) (f : Nat) (b : Bool) :
    Inv fz (setHidden s f b) (live.map fun i => if i.file = f then { i with hidden := b } else i) := by
  have hmapfile : (live.map fun i => if i.file = f then { i with hidden := b } else i).map (·.file) = live.map (·.file) := by
    rw [List.map_map]; apply List.map_congr_left; intro a _; exact upd_file f b a
  have hfilter := fun key => upd_filter f b key live
  have hfind := fun f' => upd_find f b f' live
  unfold setHidden
  cases hi : aget s.infos f with
  | none =>
    simp only
    rw [h.infos] at hi
    have : (live.map fun i => if i.file = f then { i with hidden := b } else i) = live := by
      conv => rhs; rw [← List.map_id live]
      apply List.map_congr_left
      intro a ha
      have := List.find?_eq_none.mp hi a ha
      simp at this
      simp [this]
    rw [this]; exact h
  | some i =>
    simp only
    rw [h.infos] at hi
    obtain ⟨_, hif⟩ := find_some_mem hi
    refine ⟨?_, ?_, ?_, ?_⟩
    · intro p
      simp only
      rw [h.nodes]
      exact (hfilter (fun q => q = p)).symm
    · intro f'
      simp only
      rw [aget_aset, hfind, h.infos]
      by_cases hff : f' = f
      · subst hff; simp [hi, hif]
      · simp only [hff, if_false]
        cases hg : live.find? (fun i => i.file = f') with
        | none => rfl
        | some j =>
          obtain ⟨_, hjf⟩ := find_some_mem hg
          have : ¬ j.file = f := fun e => hff (hjf ▸ e)
          simp [this]
    · intro hfz n
      simp only
      rw [h.fuzzy hfz]
      exact (hfilter (fun q => lastSeg q = n)).symm
    · rw [hmapfile]; exact h.nodup

theorem clear_eq_new (s : MState) : clear s = MState.new := by
  have h1 : survivesClear (some ("modules_index", "module_nodes")) = false := by decide
  have h2 : survivesClear (some ("modules_index", "file_module_map")) = false := by decide
  have h3 : survivesClear (some ("modules_index", "module_name_to_file_ids")) = false := by decide
  simp [clear, h1, h2, h3, MState.new]

theorem inv_step {cfg : Config} {s : MState} {live : List Info} (h : Inv cfg.fuzzy s live) (op : Op) :
    Inv cfg.fuzzy (step cfg s op) (specStep cfg live op) := by
  cases op with
  | add f path =>
    simp only [step, specStep, addByPath]
    have h1 : Inv cfg.fuzzy (if (aget s.infos f).isSome then remove s f else s) (specRemove live f) := by
      split
      · exact inv_remove h f
      · next hn =>
        have : aget s.infos f = none := by cases hg : aget s.infos f <;> simp [hg] at hn ⊢
        rw [h.infos] at this
        unfold specRemove
        rw [find_none_filter this]
        exact h
    cases he : extractModulePath (compilePatterns cfg.patterns) cfg.workspaces path with
    | none => simpa using h1
    | some r =>
      obtain ⟨mp, ws⟩ := r
      simp only
      have h2 := inv_addModule h1 f (if cfg.rules.isEmpty then normSep mp else replacePath cfg.rules (normSep mp)) ws
      have e1 : specAddMod (specRemove live f) f (if cfg.rules.isEmpty then normSep mp else replacePath cfg.rules (normSep mp)) ws
          = specAddMod live f (if cfg.rules.isEmpty then normSep mp else replacePath cfg.rules (normSep mp)) ws := by
        unfold specAddMod specRemove
        rw [List.filter_filter]; simp
      rw [e1] at h2
      exact h2
  | addMod f mp ws => exact inv_addModule h f mp ws
  | remove f => exact inv_remove h f
  | hide f b => exact inv_setHidden h f b
  | clear => simp only [step, specStep]; rw [clear_eq_new]; exact inv_new _

theorem inv_run (cfg : Config) (ops : List Op) : Inv cfg.fuzzy (run cfg ops) (specLive cfg ops) := by
  unfold run specLive
  suffices ∀ s live, Inv cfg.fuzzy s live →
      Inv cfg.fuzzy (ops.foldl (step cfg) s) (ops.foldl (specStep cfg) live) from this _ _ (inv_new _)
  induction ops with
  | nil => intro s live h; exact h
  | cons o r ih => intro s live h; exact ih _ _ (inv_step h o)


/-! ### lookups -/

theorem pickGo_true (infos : List (Nat × Info)) (c : List Info) (first : Option Info)
    (hl : ∀ e ∈ c, aget infos e.file = some e) :
    pickGo infos true first (c.map (·.file)) = ((c.find? fun i => !i.hidden) <|> (first <|> c.head?)) := by
  induction c generalizing first with
  | nil => simp [pickGo]
  | cons e r ih =>
    simp only [List.map_cons, pickGo]
    rw [hl e (List.mem_cons_self)]
    simp only [Bool.not_true, Bool.false_or]
    cases hh : e.hidden with
    | false => simp [List.find?_cons, hh]
    | true =>
      simp only [Bool.not_true]
      rw [ih _ (fun x hx => hl x (List.mem_cons_of_mem _ hx))]
      simp only [List.find?_cons, hh, Bool.not_true, List.head?_cons]
      cases first <;> cases (r.find? fun i => !i.hidden) <;> simp

theorem pickGo_false (infos : List (Nat × Info)) (c : List Info) (first : Option Info)
    (hl : ∀ e ∈ c, aget infos e.file = some e) :
    pickGo infos false first (c.map (·.file)) = (c.head? <|> first) := by
  cases c with
  | nil => simp [pickGo]
  | cons e r =>
    simp only [List.map_cons, pickGo]
    rw [hl e (List.mem_cons_self)]
    simp

theorem exactFind_eq_spec {fz : Bool} {s : MState} {live : List Info} (h : Inv fz s live) (p : MPath) :
    exactFind s p = specExact live p := by
  have hl : ∀ e ∈ live.filter (fun i => i.path = p), aget s.infos e.file = some e := by
    intro e he
    rw [h.infos]
    exact find_of_mem_nodup h.nodup (List.mem_filter.mp he).1
  have hfs : agetL s.nodes p = (live.filter fun i => i.path = p).map (·.file) := h.nodes p
  have key : exactFind s p = pickGo s.infos (decide (1 < (agetL s.nodes p).length)) none (agetL s.nodes p) := by
    unfold exactFind agetL
    cases aget s.nodes p with
    | none => simp [pickGo]
    | some fs => simp
  rw [key, hfs]
  unfold specExact
  simp only [List.length_map]
  by_cases hlen : 1 < (live.filter fun i => i.path = p).length
  · simp only [hlen, decide_true, if_true]
    rw [pickGo_true _ _ _ hl]; simp
  · simp only [hlen, decide_false, if_false]
    rw [pickGo_false _ _ _ hl]; simp

theorem getLast?_drop {α : Type} (l : List α) (k : Nat) (h : k < l.length) :
    (l.drop k).getLast? = l.getLast? := by
  induction l generalizing k with
  | nil => simp at h
  | cons x r ih =>
    cases k with
    | zero => rfl
    | succ k =>
      simp only [List.drop_succ_cons]
      have hk : k < r.length := by simpa using h
      rw [ih k hk]
      cases r with
      | nil => simp at hk
      | cons y t => simp [List.getLast?_cons_cons]

theorem leading_some_last {full p : MPath} {n : Nat} (hp : p ≠ []) (h : leading full p = some n) :
    lastSeg full = lastSeg p := by
  unfold leading at h
  split at h
  · next e => rw [e]
  · split at h
    · next hc =>
      obtain ⟨hlt, hd⟩ := hc
      unfold lastSeg
      have hpl : 0 < p.length := List.length_pos_iff.mpr hp
      rw [← hd, getLast?_drop _ _ (by omega)]
    · cases h

theorem candidates_eq (infos : List (Nat × Info)) (p : MPath) (c : List Info)
    (hl : ∀ e ∈ c, aget infos e.file = some e) :
    candidates infos p (c.map (·.file)) = c.filterMap fun i => (leading i.path p).map fun n => (n, i) := by
  unfold candidates
  induction c with
  | nil => rfl
  | cons e r ih =>
    simp only [List.map_cons, List.filterMap_cons]
    rw [hl e (List.mem_cons_self)]
    simp only [Option.bind_some]
    rw [ih (fun x hx => hl x (List.mem_cons_of_mem _ hx))]

theorem filterMap_filter_last (live : List Info) (p : MPath) (hp : p ≠ []) :
    (live.filter fun i => lastSeg i.path = lastSeg p).filterMap (fun i => (leading i.path p).map fun n => (n, i))
      = live.filterMap fun i => (leading i.path p).map fun n => (n, i) := by
  induction live with
  | nil => rfl
  | cons x r ih =>
    simp only [List.filter_cons]
    split
    · simp only [List.filterMap_cons, ih]
    · next hne =>
      simp only [List.filterMap_cons, ih]
      cases hle : leading x.path p with
      | none => rfl
      | some n => exact absurd (leading_some_last hp hle) (by simpa using hne)

theorem fuzzyFind_eq_spec {s : MState} {live : List Info} (h : Inv true s live) (p : MPath) (hp : p ≠ []) :
    fuzzyFind s p = specFuzzy live p := by
  have hl : ∀ e ∈ live.filter (fun i => lastSeg i.path = lastSeg p), aget s.infos e.file = some e := by
    intro e he
    rw [h.infos]
    exact find_of_mem_nodup h.nodup (List.mem_filter.mp he).1
  have key : fuzzyFind s p = (minBy (candidates s.infos p (agetL s.fuzzy (lastSeg p)))).map (·.2) := by
    unfold fuzzyFind agetL
    cases aget s.fuzzy (lastSeg p) with
    | none => simp [candidates, minBy]
    | some fs => simp
  rw [key, h.fuzzy rfl, candidates_eq _ _ _ hl, filterMap_filter_last live p hp]
  rfl

theorem splitOn_ne_nil (c : Char) (s : List Char) : splitOn c s ≠ [] := by
  induction s with
  | nil => simp [splitOn]
  | cons x r ih =>
    simp only [splitOn]
    split
    · simp
    · split <;> simp

theorem findWith_congr (e1 e2 f1 f2 : MPath → Option Info) (cfg : Config) (q : List Char)
    (he : ∀ p, e1 p = e2 p) (hf : cfg.fuzzy = true → ∀ p, p ≠ [] → f1 p = f2 p) :
    findWith e1 f1 cfg q = findWith e2 f2 cfg q := by
  unfold findWith
  simp only [he]
  cases e2 (splitOn '.' (normSep q)) with
  | some i => rfl
  | none =>
    simp only
    have hm : ∀ m, mappedQuery cfg.rules (normSep q) = some m → m ≠ [] := by
      intro m hm
      unfold mappedQuery at hm
      split at hm
      · cases hm
      · split at hm
        · cases hm
        · cases hm; exact splitOn_ne_nil _ _
    cases hmq : mappedQuery cfg.rules (normSep q) with
    | none =>
      simp only [Option.bind_none]
      cases hfz : cfg.fuzzy with
      | false => rfl
      | true => simp only [if_true]; rw [hf hfz _ (splitOn_ne_nil _ _)]
    | some m =>
      simp only [Option.bind_some, he]
      cases e2 m with
      | some i => rfl
      | none =>
        simp only
        cases hfz : cfg.fuzzy with
        | false => rfl
        | true =>
          simp only [if_true]
          rw [hf hfz m (hm m hmq), hf hfz _ (splitOn_ne_nil _ _)]

theorem find_eq_spec {cfg : Config} {s : MState} {live : List Info} (h : Inv cfg.fuzzy s live) (q : List Char) :
    find cfg s q = specFind cfg live q := by
  unfold find specFind
  apply findWith_congr
  · exact fun p => exactFind_eq_spec h p
  · intro hfz p hp
    rw [hfz] at h
    exact fuzzyFind_eq_spec h p hp


/-! ### what the spec resolver can return -/

theorem foldl_min_mem (l : List (Nat × Info)) (x : Nat × Info) :
    l.foldl (fun acc y => if better y acc then y else acc) x ∈ x :: l := by
  induction l generalizing x with
  | nil => simp
  | cons y r ih =>
    simp only [List.foldl_cons]
    by_cases hb : better y x = true
    · rw [if_pos hb]
      rcases List.mem_cons.mp (ih y) with h | h
      · rw [h]; simp
      · exact List.mem_cons_of_mem _ (List.mem_cons_of_mem _ h)
    · rw [if_neg hb]
      rcases List.mem_cons.mp (ih x) with h | h
      · rw [h]; simp
      · exact List.mem_cons_of_mem _ (List.mem_cons_of_mem _ h)

theorem minBy_mem {l : List (Nat × Info)} {x : Nat × Info} (h : minBy l = some x) : x ∈ l := by
  cases l with
  | nil => cases h
  | cons a r =>
    simp only [minBy, Option.some.injEq] at h
    rw [← h]; exact foldl_min_mem r a

theorem specExact_some {live : List Info} {p : MPath} {i : Info} (h : specExact live p = some i) :
    i ∈ live ∧ i.path = p := by
  unfold specExact at h
  dsimp only at h
  have hmem : ∀ j, j ∈ live.filter (fun i => i.path = p) → j ∈ live ∧ j.path = p := by
    intro j hj
    have := List.mem_filter.mp hj
    exact ⟨this.1, by simpa using this.2⟩
  have hhead : ∀ j, (live.filter fun i => i.path = p).head? = some j → j ∈ live ∧ j.path = p :=
    fun j hj => hmem j (List.mem_of_head? hj)
  split at h
  · cases hf : (live.filter fun i => i.path = p).find? (fun i => !i.hidden) with
    | some j =>
      rw [hf] at h
      simp at h
      subst h
      exact hmem j (List.mem_of_find?_eq_some hf)
    | none =>
      rw [hf] at h
      exact hhead i (by simpa using h)
  · exact hhead i h

theorem specExact_none_iff {live : List Info} {p : MPath} :
    specExact live p = none ↔ ∀ e ∈ live, e.path ≠ p := by
  unfold specExact
  constructor
  · intro h e he hp
    have hm : e ∈ live.filter (fun i => i.path = p) := List.mem_filter.mpr ⟨he, by simpa using hp⟩
    cases hc : live.filter (fun i => i.path = p) with
    | nil => rw [hc] at hm; cases hm
    | cons a r =>
      rw [hc] at h
      dsimp only at h
      split at h
      · cases hf : (a :: r).find? (fun i => !i.hidden) <;> rw [hf] at h <;> simp at h
      · simp at h
  · intro h
    have : live.filter (fun i => i.path = p) = [] := by
      rw [List.filter_eq_nil_iff]
      intro a ha
      simpa using h a ha
    rw [this]; simp

theorem specFuzzy_some {live : List Info} {p : MPath} {i : Info} (h : specFuzzy live p = some i) :
    i ∈ live ∧ ∃ n, leading i.path p = some n := by
  unfold specFuzzy at h
  cases hm : minBy (live.filterMap fun i => (leading i.path p).map fun n => (n, i)) with
  | none => rw [hm] at h; cases h
  | some x =>
    rw [hm] at h
    simp at h
    have hx := minBy_mem hm
    rw [List.mem_filterMap] at hx
    obtain ⟨e, he, hle⟩ := hx
    cases hl : leading e.path p with
    | none => rw [hl] at hle; cases hle
    | some n =>
      rw [hl] at hle
      simp at hle
      subst hle
      simp at h
      subst h
      exact ⟨he, n, hl⟩

theorem specFuzzy_none_of {live : List Info} {p : MPath} (h : ∀ e ∈ live, leading e.path p = none) :
    specFuzzy live p = none := by
  cases hs : specFuzzy live p with
  | none => rfl
  | some i =>
    obtain ⟨hi, n, hn⟩ := specFuzzy_some hs
    rw [h i hi] at hn; cases hn

/-- the module paths a query can be resolved against: the query itself and its moduleMap rewrite -/
def targets (cfg : Config) (q : List Char) : List MPath :=
  splitOn '.' (normSep q) :: (mappedQuery cfg.rules (normSep q)).toList

theorem specFind_some {cfg : Config} {live : List Info} {q : List Char} {i : Info}
    (h : specFind cfg live q = some i) :
    i ∈ live ∧ ∃ t ∈ targets cfg q, i.path = t ∨ (cfg.fuzzy = true ∧ ∃ n, leading i.path t = some n) := by
  unfold specFind findWith at h
  simp only at h
  cases he : specExact live (splitOn '.' (normSep q)) with
  | some j =>
    rw [he] at h
    simp at h
    subst h
    obtain ⟨h1, h2⟩ := specExact_some he
    exact ⟨h1, _, by simp [targets], Or.inl h2⟩
  | none =>
    rw [he] at h
    simp only at h
    cases hm : mappedQuery cfg.rules (normSep q) with
    | none =>
      rw [hm] at h
      simp only [Option.bind_none] at h
      split at h
      · next hfz =>
        obtain ⟨h1, n, hn⟩ := specFuzzy_some h
        exact ⟨h1, _, by simp [targets], Or.inr ⟨hfz, n, hn⟩⟩
      · cases h
    | some m =>
      rw [hm] at h
      simp only [Option.bind_some] at h
      cases hem : specExact live m with
      | some j =>
        rw [hem] at h
        simp at h
        subst h
        obtain ⟨h1, h2⟩ := specExact_some hem
        exact ⟨h1, m, by simp [targets, hm], Or.inl h2⟩
      | none =>
        rw [hem] at h
        simp only at h
        split at h
        · next hfz =>
          cases hfm : specFuzzy live m with
          | some j =>
            rw [hfm] at h
            simp at h
            subst h
            obtain ⟨h1, n, hn⟩ := specFuzzy_some hfm
            exact ⟨h1, m, by simp [targets, hm], Or.inr ⟨hfz, n, hn⟩⟩
          | none =>
            rw [hfm] at h
            simp only at h
            obtain ⟨h1, n, hn⟩ := specFuzzy_some h
            exact ⟨h1, _, by simp [targets], Or.inr ⟨hfz, n, hn⟩⟩
        · cases h

theorem specFind_exact {cfg : Config} {live : List Info} {q : List Char}
    (h : ∃ e ∈ live, e.path = splitOn '.' (normSep q)) :
    specFind cfg live q = specExact live (splitOn '.' (normSep q)) ∧
      (specExact live (splitOn '.' (normSep q))).isSome := by
  cases he : specExact live (splitOn '.' (normSep q)) with
  | none =>
    obtain ⟨e, hm, hp⟩ := h
    exact absurd hp (specExact_none_iff.mp he e hm)
  | some j =>
    refine ⟨?_, rfl⟩
    unfold specFind findWith
    simp only [he]

theorem mem_specRemove {live : List Info} {f : Nat} {i : Info} (h : i ∈ specRemove live f) : i.file ≠ f := by
  unfold specRemove at h
  simpa using (List.mem_filter.mp h).2

theorem specLive_append (cfg : Config) (ops : List Op) (o : Op) :
    specLive cfg (ops ++ [o]) = specStep cfg (specLive cfg ops) o := by
  unfold specLive; rw [List.foldl_append]; rfl

end Index.Module
