import EmmyVerif.Lemmas.IndexModule
import EmmyVerif.Lemmas.IndexDb
/-! No leak in the node arena of `LuaModuleIndex`: after every history the node keys are exactly the root and
the non-empty prefixes of the live module paths (each once). -/
namespace Index.Module
open Index

/-- `q` is needed by the live set: a non-empty prefix of some live module path -/
def Needed (live : List Info) (q : MPath) : Prop := q ≠ [] ∧ ∃ e ∈ live, q <+: e.path

structure KeyInv (s : MState) (live : List Info) : Prop where
  nodup : (akeys s.nodes).Nodup
  keys : ∀ q, q ∈ akeys s.nodes ↔ (q = [] ∨ Needed live q)
  infosNodup : (akeys s.infos).Nodup

/-! ### generic key facts -/

theorem akeys_adel {κ α : Type} [DecidableEq κ] (m : List (κ × α)) (k q : κ) :
    q ∈ akeys (adel m k) ↔ q ∈ akeys m ∧ q ≠ k := by
  induction m with
  | nil => simp [adel, akeys]
  | cons e r ih =>
    obtain ⟨k2, v2⟩ := e
    simp only [adel, akeys, List.filter_cons] at ih ⊢
    by_cases h : k2 = k
    · subst h
      simp only [decide_true, Bool.not_true, Bool.false_eq_true, if_false, List.map_cons, List.mem_cons]
      rw [ih]
      constructor
      · rintro ⟨h1, h2⟩; exact ⟨Or.inr h1, h2⟩
      · rintro ⟨h1 | h1, h2⟩
        · exact absurd h1 h2
        · exact ⟨h1, h2⟩
    · simp only [h, decide_false, Bool.not_false, if_true, List.map_cons, List.mem_cons]
      rw [ih]
      constructor
      · rintro (h1 | ⟨h1, h2⟩)
        · exact ⟨Or.inl h1, fun e => h (h1 ▸ e)⟩
        · exact ⟨Or.inr h1, h2⟩
      · rintro ⟨h1 | h1, h2⟩
        · exact Or.inl h1
        · exact Or.inr ⟨h1, h2⟩

theorem nodup_akeys_adel {κ α : Type} [DecidableEq κ] (m : List (κ × α)) (k : κ) (h : (akeys m).Nodup) :
    (akeys (adel m k)).Nodup := by
  unfold adel akeys
  exact List.Nodup.sublist (List.Sublist.map _ List.filter_sublist) h

theorem akeys_aset_of_mem {κ α : Type} [DecidableEq κ] (m : List (κ × α)) (k : κ) (v : α) (h : k ∈ akeys m) (q : κ) :
    q ∈ akeys (aset m k v) ↔ q ∈ akeys m := by
  rw [mem_akeys_aset]
  constructor
  · rintro (h1 | h1)
    · subst h1; exact h
    · exact h1
  · exact Or.inr

theorem akeys_aupdate {κ α : Type} [DecidableEq κ] (m : List (κ × α)) (k : κ) (g : α → α) (q : κ) :
    q ∈ akeys (aupdate m k g) ↔ q ∈ akeys m := by
  unfold aupdate
  cases h : aget m k with
  | none => rfl
  | some v =>
    simp only
    apply akeys_aset_of_mem
    rw [mem_akeys_iff, h]; rfl

theorem nodup_akeys_aupdate {κ α : Type} [DecidableEq κ] (m : List (κ × α)) (k : κ) (g : α → α)
    (h : (akeys m).Nodup) : (akeys (aupdate m k g)).Nodup := by
  unfold aupdate
  cases aget m k with
  | none => exact h
  | some v => exact nodup_akeys_aset _ _ _ h

/-! ### prefixes -/

theorem prefix_snoc_iff (q cur : MPath) (s : Seg) : q <+: cur ++ [s] ↔ q <+: cur ∨ q = cur ++ [s] := by
  constructor
  · rintro ⟨t, ht⟩
    rcases List.eq_nil_or_concat t with h | ⟨t', x, h⟩
    · subst h; right; simpa using ht
    · subst h
      left
      have : q ++ t' ++ [x] = cur ++ [s] := by simpa [List.append_assoc] using ht
      have h2 := List.append_inj' this rfl
      exact ⟨t', h2.1⟩
  · rintro (⟨t, ht⟩ | h)
    · exact ⟨t ++ [s], by rw [← List.append_assoc, ht]⟩
    · subst h; exact List.prefix_refl _

theorem hasChild_iff (nodes : List (MPath × List Nat)) (p : MPath) :
    hasChild nodes p = true ↔ ∃ x, p ++ [x] ∈ akeys nodes := by
  unfold hasChild
  rw [List.any_eq_true]
  constructor
  · rintro ⟨e, he, hc⟩
    simp only [Bool.and_eq_true, Bool.not_eq_true', beq_iff_eq] at hc
    obtain ⟨h1, h2⟩ := hc
    have hne : e.1 ≠ [] := by intro h; rw [h] at h1; simp at h1
    refine ⟨e.1.getLast hne, ?_⟩
    rw [← h2, List.dropLast_concat_getLast hne]
    exact List.mem_map_of_mem (f := (·.1)) he
  · rintro ⟨x, hx⟩
    obtain ⟨e, he, h1⟩ := List.mem_map.mp hx
    refine ⟨e, he, ?_⟩
    simp only [Bool.and_eq_true, Bool.not_eq_true', beq_iff_eq]
    rw [h1]
    simp

/-! ### `pruneUp` -/

theorem pruneUp_keys (live' : List Info) (rp : List Seg) (N : List (MPath × List Nat))
    (ha : (akeys N).Nodup)
    (hb : ∀ q, q ∈ akeys N → q = [] ∨ Needed live' q ∨ q <+: rp.reverse)
    (hc : ∀ q, (q = [] ∨ Needed live' q) → q ∈ akeys N)
    (hd : ∀ q, agetL N q = (live'.filter fun i => i.path = q).map (·.file))
    (hf : ∀ q, q ≠ [] → q <+: rp.reverse → q ∈ akeys N) :
    (akeys (pruneUp N rp)).Nodup ∧ ∀ q, q ∈ akeys (pruneUp N rp) ↔ (q = [] ∨ Needed live' q) := by
  induction rp generalizing N with
  | nil =>
    refine ⟨ha, fun q => ⟨fun h => ?_, hc q⟩⟩
    rcases hb q h with h1 | h1 | h1
    · exact Or.inl h1
    · exact Or.inr h1
    · left; simpa using h1
  | cons s rp ih =>
    have hcur : (s :: rp).reverse = rp.reverse ++ [s] := by simp
    have hcne : (s :: rp).reverse ≠ [] := by simp
    simp only [pruneUp]
    cases hg : aget N (s :: rp).reverse with
    | none =>
      exfalso
      have := hf _ hcne (List.prefix_refl _)
      rw [mem_akeys_iff, hg] at this
      cases this
    | some fs =>
      simp only
      split
      · next hstop =>
        -- the node is still needed: everything below it on the path is needed as well
        refine ⟨ha, fun q => ⟨fun h => ?_, hc q⟩⟩
        rcases hb q h with h1 | h1 | h1
        · exact Or.inl h1
        · exact Or.inr h1
        · by_cases hq : q = []
          · exact Or.inl hq
          · right
            refine ⟨hq, ?_⟩
            simp only [Bool.or_eq_true, Bool.not_eq_true'] at hstop
            rcases hstop with hfs | hch
            · -- a live file sits at this node
              have : agetL N (s :: rp).reverse = fs := by unfold agetL; rw [hg]; rfl
              rw [hd] at this
              cases hl : live'.filter (fun i => i.path = (s :: rp).reverse) with
              | nil => rw [hl] at this; simp at this; rw [this] at hfs; simp at hfs
              | cons e t =>
                have he : e ∈ live'.filter (fun i => i.path = (s :: rp).reverse) := by rw [hl]; simp
                have := List.mem_filter.mp he
                refine ⟨e, this.1, ?_⟩
                have hp : e.path = (s :: rp).reverse := by simpa using this.2
                rw [hp]; exact h1
            · obtain ⟨x, hx⟩ := (hasChild_iff _ _).mp hch
              rcases hb _ hx with h2 | h2 | h2
              · simp at h2
              · obtain ⟨_, e, he, hpe⟩ := h2
                exact ⟨e, he, List.IsPrefix.trans h1 (List.IsPrefix.trans (List.prefix_append _ _) hpe)⟩
              · have := List.IsPrefix.length_le h2
                simp at this
      · next hgo =>
        simp only [Bool.or_eq_true, Bool.not_eq_true', not_or, Bool.not_eq_true] at hgo
        obtain ⟨hfs, hch⟩ := hgo
        have hfs' : fs = [] := by cases fs <;> simp_all
        -- the node is not needed
        have hnot : ¬ Needed live' (s :: rp).reverse := by
          rintro ⟨_, e, he, hpe⟩
          obtain ⟨t, ht⟩ := hpe
          cases t with
          | nil =>
            have hp : e.path = (s :: rp).reverse := by simpa using ht.symm
            have : agetL N (s :: rp).reverse = fs := by unfold agetL; rw [hg]; rfl
            rw [hd, hfs'] at this
            have hm : e ∈ live'.filter (fun i => i.path = (s :: rp).reverse) :=
              List.mem_filter.mpr ⟨he, by simpa using hp⟩
            simp only [List.map_eq_nil_iff] at this
            rw [this] at hm; cases hm
          | cons x t' =>
            have hneed : Needed live' ((s :: rp).reverse ++ [x]) :=
              ⟨by simp, e, he, ⟨t', by rw [← ht]; simp⟩⟩
            have hk := hc _ (Or.inr hneed)
            have : hasChild N (s :: rp).reverse = true := (hasChild_iff _ _).mpr ⟨x, hk⟩
            rw [this] at hch; cases hch
        apply ih
        · exact nodup_akeys_adel _ _ ha
        · intro q hq
          rw [akeys_adel] at hq
          rcases hb q hq.1 with h1 | h1 | h1
          · exact Or.inl h1
          · exact Or.inr (Or.inl h1)
          · right; right
            rw [hcur] at h1
            rcases (prefix_snoc_iff _ _ _).mp h1 with h2 | h2
            · exact h2
            · exact absurd (by rw [hcur]; exact h2) hq.2
        · intro q hq
          rw [akeys_adel]
          refine ⟨hc q hq, ?_⟩
          intro e
          subst e
          rcases hq with h1 | h1
          · exact hcne h1
          · exact hnot h1
        · intro q
          rw [agetL_adel]
          split
          · next hqc =>
            subst hqc
            have : agetL N (s :: rp).reverse = fs := by unfold agetL; rw [hg]; rfl
            rw [← hd, this, hfs']
          · exact hd q
        · intro q hq hp
          rw [akeys_adel]
          refine ⟨hf q hq (by rw [hcur]; exact (prefix_snoc_iff _ _ _).mpr (Or.inl hp)), ?_⟩
          intro e
          subst e
          have := List.IsPrefix.length_le hp
          simp at this
          omega

/-! ### `ensurePrefixes` -/

theorem ensurePrefixes_keys (nodes : List (MPath × List Nat)) (acc : MPath) (p : List Seg)
    (h : (akeys nodes).Nodup) :
    (akeys (ensurePrefixes nodes acc p)).Nodup ∧
    ∀ q, q ∈ akeys (ensurePrefixes nodes acc p) ↔
      (q ∈ akeys nodes ∨ ∃ n, 0 < n ∧ n ≤ p.length ∧ q = acc ++ p.take n) := by
  induction p generalizing nodes acc with
  | nil =>
    refine ⟨h, fun q => ⟨Or.inl, ?_⟩⟩
    rintro (h1 | ⟨n, h1, h2, _⟩)
    · exact h1
    · simp at h2; omega
  | cons s r ih =>
    simp only [ensurePrefixes]
    have hstep : (akeys (if (aget nodes (acc ++ [s])).isSome then nodes else aset nodes (acc ++ [s]) [])).Nodup ∧
        ∀ q, q ∈ akeys (if (aget nodes (acc ++ [s])).isSome then nodes else aset nodes (acc ++ [s]) []) ↔
          (q ∈ akeys nodes ∨ q = acc ++ [s]) := by
      split
      · next hs =>
        refine ⟨h, fun q => ⟨Or.inl, ?_⟩⟩
        rintro (h1 | h1)
        · exact h1
        · subst h1; exact (mem_akeys_iff _ _).mpr hs
      · refine ⟨nodup_akeys_aset _ _ _ h, fun q => ?_⟩
        rw [mem_akeys_aset]
        exact Or.comm
    obtain ⟨h1, h2⟩ := ih _ (acc ++ [s]) hstep.1
    refine ⟨h1, fun q => ?_⟩
    rw [h2, hstep.2]
    constructor
    · rintro ((h3 | h3) | ⟨n, h3, h4, h5⟩)
      · exact Or.inl h3
      · exact Or.inr ⟨1, by omega, by simp, by simpa using h3⟩
      · refine Or.inr ⟨n + 1, by omega, by simpa using h4, ?_⟩
        rw [h5]; simp [List.append_assoc]
    · rintro (h3 | ⟨n, h3, h4, h5⟩)
      · exact Or.inl (Or.inl h3)
      · cases n with
        | zero => omega
        | succ n =>
          by_cases hn : n = 0
          · subst hn
            left; right
            simpa using h5
          · right
            refine ⟨n, by omega, by simpa using h4, ?_⟩
            rw [h5]; simp [List.append_assoc]

theorem needed_take (p q : MPath) : (q ≠ [] ∧ q <+: p) ↔ ∃ n, 0 < n ∧ n ≤ p.length ∧ q = p.take n := by
  constructor
  · rintro ⟨h1, h2⟩
    refine ⟨q.length, List.length_pos_iff.mpr h1, List.IsPrefix.length_le h2, List.prefix_iff_eq_take.mp h2⟩
  · rintro ⟨n, h1, h2, h3⟩
    subst h3
    refine ⟨?_, List.take_prefix _ _⟩
    intro e
    have := congrArg List.length e
    rw [List.length_take, List.length_nil] at this
    omega


/-! ### the invariant is preserved -/

theorem keyinv_new : KeyInv MState.new [] := by
  refine ⟨by simp [MState.new, akeys], fun q => ?_, by simp [MState.new, akeys]⟩
  simp only [MState.new, akeys, List.map_cons, List.map_nil, List.mem_singleton]
  constructor
  · exact Or.inl
  · rintro (h | ⟨_, e, he, _⟩)
    · exact h
    · cases he

theorem needed_mono {live live' : List Info} (h : ∀ e ∈ live', e ∈ live) {q : MPath} (hq : Needed live' q) :
    Needed live q := by
  obtain ⟨h1, e, he, hp⟩ := hq
  exact ⟨h1, e, h e he, hp⟩

theorem keyinv_remove {fz : Bool} {s : MState} {live : List Info} (h : Inv fz s live) (k : KeyInv s live) (f : Nat) :
    KeyInv (remove s f) (specRemove live f) := by
  unfold remove specRemove
  cases hi : aget s.infos f with
  | none =>
    simp only
    rw [h.infos] at hi
    rw [find_none_filter hi]
    exact k
  | some i =>
    simp only
    rw [h.infos] at hi
    obtain ⟨himem, hif⟩ := find_some_mem hi
    subst hif
    have hsub : ∀ e ∈ live.filter (fun e => e.file ≠ i.file), e ∈ live := fun e he => (List.mem_filter.mp he).1
    have hp := pruneUp_keys (live.filter fun e => e.file ≠ i.file) i.path.reverse
      (aupdate s.nodes i.path fun fs => fs.filter fun x => x ≠ i.file)
      (nodup_akeys_aupdate _ _ _ k.nodup)
      (by
        intro q hq
        rw [akeys_aupdate, k.keys] at hq
        rcases hq with h1 | ⟨h1, e, he, hpe⟩
        · exact Or.inl h1
        · by_cases hef : e.file = i.file
          · right; right
            have h2 := find_of_mem_nodup h.nodup he
            rw [hef, find_of_mem_nodup h.nodup himem] at h2
            cases h2
            simpa using hpe
          · exact Or.inr (Or.inl ⟨h1, e, List.mem_filter.mpr ⟨he, by simpa using hef⟩, hpe⟩))
      (by
        intro q hq
        rw [akeys_aupdate, k.keys]
        rcases hq with h1 | h1
        · exact Or.inl h1
        · exact Or.inr (needed_mono hsub h1))
      (by
        intro q
        rw [agetL_update _ _ _ (fun fs => fs.filter fun x => x ≠ i.file) (by simp)]
        rw [filter_key_remove h.nodup himem (fun e => e.path) q, h.nodes])
      (by
        intro q hq hpre
        rw [akeys_aupdate, k.keys]
        exact Or.inr ⟨hq, i, himem, by simpa using hpre⟩)
    exact ⟨hp.1, hp.2, nodup_akeys_adel _ _ k.infosNodup⟩

theorem splitOn_length_pos (c : Char) (s : List Char) : 0 < (splitOn c s).length :=
  List.length_pos_iff.mpr (splitOn_ne_nil c s)

theorem keyinv_addFresh {s : MState} {live : List Info} (k : KeyInv s live) (fz : Bool) (f : Nat)
    (mp : List Char) (ws : Nat) :
    KeyInv
      { nodes := apush (ensurePrefixes s.nodes [] (splitOn '.' mp)) (splitOn '.' mp) f
        infos := aset s.infos f { file := f, path := splitOn '.' mp, ws := ws, hidden := false }
        fuzzy := if fz then apush s.fuzzy (lastSeg (splitOn '.' mp)) f else s.fuzzy }
      (live ++ [{ file := f, path := splitOn '.' mp, ws := ws, hidden := false }]) := by
  obtain ⟨he1, he2⟩ := ensurePrefixes_keys s.nodes [] (splitOn '.' mp) k.nodup
  have hpmem : splitOn '.' mp ∈ akeys (ensurePrefixes s.nodes [] (splitOn '.' mp)) := by
    rw [he2]
    exact Or.inr ⟨(splitOn '.' mp).length, splitOn_length_pos _ _, Nat.le_refl _, by simp⟩
  refine ⟨?_, ?_, ?_⟩
  · simp only [apush]
    exact nodup_akeys_aset _ _ _ he1
  · intro q
    simp only [apush]
    rw [akeys_aset_of_mem _ _ _ hpmem, he2, k.keys]
    simp only [List.nil_append]
    rw [← needed_take]
    constructor
    · rintro ((h1 | ⟨h1, e, he, hpe⟩) | ⟨h1, h2⟩)
      · exact Or.inl h1
      · exact Or.inr ⟨h1, e, List.mem_append_left _ he, hpe⟩
      · exact Or.inr ⟨h1, _, List.mem_append_right _ (List.mem_singleton.mpr rfl), h2⟩
    · rintro (h1 | ⟨h1, e, he, hpe⟩)
      · exact Or.inl (Or.inl h1)
      · rcases List.mem_append.mp he with h2 | h2
        · exact Or.inl (Or.inr ⟨h1, e, h2, hpe⟩)
        · rw [List.mem_singleton.mp h2] at hpe
          exact Or.inr ⟨h1, hpe⟩
  · exact nodup_akeys_aset _ _ _ k.infosNodup

theorem keyinv_addModule {fz : Bool} {s : MState} {live : List Info} (h : Inv fz s live) (k : KeyInv s live)
    (f : Nat) (mp : List Char) (ws : Nat) :
    KeyInv (addModule fz s f mp ws) (specAddMod live f mp ws) := by
  unfold addModule specAddMod
  have k1 : KeyInv (if (aget s.infos f).isSome then remove s f else s) (specRemove live f) := by
    split
    · exact keyinv_remove h k f
    · next hn =>
      have : aget s.infos f = none := by cases hg : aget s.infos f <;> simp [hg] at hn ⊢
      rw [h.infos] at this
      unfold specRemove
      rw [find_none_filter this]
      exact k
  exact keyinv_addFresh k1 fz f mp ws

theorem keyinv_setHidden {s : MState} {live : List Info} (k : KeyInv s live) (f : Nat) (b : Bool) :
    KeyInv (setHidden s f b) (live.map fun i => if i.file = f then { i with hidden := b } else i) := by
  have hneed : ∀ q, Needed (live.map fun i => if i.file = f then { i with hidden := b } else i) q ↔ Needed live q := by
    intro q
    constructor
    · rintro ⟨h1, e, he, hp⟩
      obtain ⟨e0, he0, rfl⟩ := List.mem_map.mp he
      rw [upd_path] at hp
      exact ⟨h1, e0, he0, hp⟩
    · rintro ⟨h1, e, he, hp⟩
      exact ⟨h1, _, List.mem_map_of_mem he, by rw [upd_path]; exact hp⟩
  unfold setHidden
  cases aget s.infos f with
  | none => exact ⟨k.nodup, fun q => by rw [k.keys, hneed], k.infosNodup⟩
  | some i =>
    exact ⟨k.nodup, fun q => by simp only; rw [k.keys, hneed], nodup_akeys_aset _ _ _ k.infosNodup⟩

theorem keyinv_step {cfg : Config} {s : MState} {live : List Info} (h : Inv cfg.fuzzy s live) (k : KeyInv s live)
    (op : Op) : KeyInv (step cfg s op) (specStep cfg live op) := by
  cases op with
  | add f path =>
    simp only [step, specStep, addByPath]
    have h1 : Inv cfg.fuzzy (if (aget s.infos f).isSome then remove s f else s) (specRemove live f) := by
      split
      · exact inv_remove h f
      · next hn =>
        have : aget s.infos f = none := by cases hg : aget s.infos f <;> simp [hg] at hn ⊢
        rw [h.infos] at this
        unfold specRemove
        rw [find_none_filter this]
        exact h
    have k1 : KeyInv (if (aget s.infos f).isSome then remove s f else s) (specRemove live f) := by
      split
      · exact keyinv_remove h k f
      · next hn =>
        have : aget s.infos f = none := by cases hg : aget s.infos f <;> simp [hg] at hn ⊢
        rw [h.infos] at this
        unfold specRemove
        rw [find_none_filter this]
        exact k
    cases he : extractModulePath (compilePatterns cfg.patterns) cfg.workspaces path with
    | none => simpa using k1
    | some r =>
      obtain ⟨mp, ws⟩ := r
      simp only
      have k2 := keyinv_addModule h1 k1 f (if cfg.rules.isEmpty then normSep mp else replacePath cfg.rules (normSep mp)) ws
      have e1 : specAddMod (specRemove live f) f (if cfg.rules.isEmpty then normSep mp else replacePath cfg.rules (normSep mp)) ws
          = specAddMod live f (if cfg.rules.isEmpty then normSep mp else replacePath cfg.rules (normSep mp)) ws := by
        unfold specAddMod specRemove
        rw [List.filter_filter]; simp
      rw [e1] at k2
      exact k2
  | addMod f mp ws => exact keyinv_addModule h k f mp ws
  | remove f => exact keyinv_remove h k f
  | hide f b => exact keyinv_setHidden k f b
  | clear => simp only [step, specStep]; rw [clear_eq_new]; exact keyinv_new

theorem keyinv_run (cfg : Config) (ops : List Op) : KeyInv (run cfg ops) (specLive cfg ops) := by
  unfold run specLive
  suffices ∀ s live, Inv cfg.fuzzy s live → KeyInv s live →
      KeyInv (ops.foldl (step cfg) s) (ops.foldl (specStep cfg) live) from this _ _ (inv_new _) keyinv_new
  induction ops with
  | nil => intro s live _ k; exact k
  | cons o r ih => intro s live h k; exact ih _ _ (inv_step h o) (keyinv_step h k o)

/-- the entry counts of the node arena and of `file_module_map` are functions of the live set -/
theorem sizes_of_live (cfg : Config) (ops₁ ops₂ : List Op) (h : specLive cfg ops₁ = specLive cfg ops₂) :
    (run cfg ops₁).nodes.length = (run cfg ops₂).nodes.length ∧
    (run cfg ops₁).infos.length = (run cfg ops₂).infos.length := by
  have k1 := keyinv_run cfg ops₁
  have k2 := keyinv_run cfg ops₂
  have i1 := inv_run cfg ops₁
  have i2 := inv_run cfg ops₂
  constructor
  · apply length_eq_of_aget_eq _ _ k1.nodup k2.nodup
    intro q
    have e1 := mem_akeys_iff (run cfg ops₁).nodes q
    have e2 := mem_akeys_iff (run cfg ops₂).nodes q
    rw [k1.keys] at e1
    rw [k2.keys, ← h] at e2
    cases h1 : (aget (run cfg ops₁).nodes q).isSome <;> cases h2 : (aget (run cfg ops₂).nodes q).isSome <;> simp_all
  · apply length_eq_of_aget_eq _ _ k1.infosNodup k2.infosNodup
    intro f
    rw [i1.infos, i2.infos, h]

theorem specRemove_add (cfg : Config) (live : List Info) (f : Nat) (path : List Char) :
    specRemove (specStep cfg live (Op.add f path)) f = specRemove live f := by
  simp only [specStep]
  cases extractModulePath (compilePatterns cfg.patterns) cfg.workspaces path with
  | none => simp [specRemove, List.filter_filter]
  | some r =>
    obtain ⟨mp, ws⟩ := r
    simp [specAddMod, specRemove, List.filter_append, List.filter_filter]

end Index.Module
