import EmmyVerif.Lemmas.ScopeAlpha
/-!
# Scope lemmas 7 — applying the rename edits at their token positions is α-renaming

`substBlock E new` rewrites the name tokens whose position is in `E`; `alphaBlock d new` rewrites the
declaration token at `d` and the uses the environment binds to `d`. For `E = d :: recorded uses of d`
they are the same program: the uses a run records lie in the token interval of the run, intervals of
consecutive runs are ordered, so a position identifies its token.
-/
namespace Scope

/-- a run from `s` to `s'` only adds records, all at positions inside `[s.pos, s'.pos)` -/
def Shape (s s' : RefSt) : Prop :=
  ∃ new, s'.out = new ++ s.out ∧ (∀ r ∈ new, s.pos ≤ r.1 ∧ r.1 < s'.pos) ∧ s.pos ≤ s'.pos

theorem Shape.refl (s : RefSt) : Shape s s := ⟨[], rfl, fun _ h => (by cases h), Nat.le_refl _⟩

theorem Shape.trans {a b c : RefSt} (h1 : Shape a b) (h2 : Shape b c) : Shape a c := by
  obtain ⟨n1, e1, b1, m1⟩ := h1
  obtain ⟨n2, e2, b2, m2⟩ := h2
  refine ⟨n2 ++ n1, by rw [e2, e1, List.append_assoc], ?_, Nat.le_trans m1 m2⟩
  intro r hr
  rcases List.mem_append.mp hr with h | h
  · have := b2 r h; omega
  · have := b1 r h; omega

theorem Shape.skip (s : RefSt) (t : Nat) : Shape s (s.skip t) :=
  ⟨[], rfl, fun _ h => (by cases h), by simp⟩

theorem Shape.use (s : RefSt) (env : Env) (n : Name) : Shape s (s.use env n) :=
  ⟨[(s.pos, lookupEnv env n)], rfl, fun r hr => (by
    simp only [List.mem_singleton] at hr; subst hr; simp), by simp⟩

theorem Shape.uses (env : Env) (vars : List Name) : ∀ s : RefSt, Shape s (s.uses env vars) := by
  induction vars with
  | nil => intro s; exact Shape.refl s
  | cons v vs ih => intro s; exact (Shape.use s env v).trans (ih _)

theorem Shape.then_skip {a b : RefSt} (h : Shape a b) (t : Nat) : Shape a (b.skip t) := h.trans (Shape.skip b t)

mutual
theorem shapeExpr : ∀ (e : Expr) (env : Env) (s : RefSt), Shape s (refExpr env s e)
  | .name n, env, s => by simp only [refExpr]; exact Shape.use s env n
  | .lit, env, s => by simp only [refExpr]; exact Shape.skip s 1
  | .call f args, env, s => by
    simp only [refExpr]
    exact (((Shape.use s env f).then_skip 1).trans (shapeExprs args env _)).then_skip 1
  | .func ps body, env, s => by
    simp only [refExpr]
    exact ((Shape.skip s _).trans (shapeBlock body _ _)).then_skip 1
theorem shapeExprs : ∀ (es : List Expr) (env : Env) (s : RefSt), Shape s (refExprs env s es)
  | [], env, s => by simp only [refExprs]; exact Shape.refl s
  | e :: es, env, s => by simp only [refExprs]; exact (shapeExpr e env s).trans (shapeExprs es env _)
theorem shapeStat : ∀ (st : Stat) (env : Env) (s : RefSt), Shape s (refStat env s st).1
  | .locl names vals, env, s => by
    simp only [refStat]; exact (Shape.skip s _).trans (shapeExprs vals env _)
  | .assign vars vals, env, s => by
    simp only [refStat]; exact ((Shape.uses env vars s).then_skip 1).trans (shapeExprs vals env _)
  | .localFunc n ps body, env, s => by
    simp only [refStat]; exact ((Shape.skip s _).trans (shapeBlock body _ _)).then_skip 1
  | .funcStat n ps body, env, s => by
    simp only [refStat]
    exact ((((Shape.skip s 1).trans (Shape.use _ env n)).then_skip _).trans (shapeBlock body _ _)).then_skip 1
  | .forNum v e1 e2 body, env, s => by
    simp only [refStat]
    exact (((((Shape.skip s 3).trans (shapeExpr e1 env _)).trans (shapeExpr e2 env _)).then_skip 1).trans
      (shapeBlock body _ _)).then_skip 1
  | .forIn vs e body, env, s => by
    simp only [refStat]
    exact ((((Shape.skip s _).trans (shapeExpr e env _)).then_skip 1).trans (shapeBlock body _ _)).then_skip 1
  | .while_ c body, env, s => by
    simp only [refStat]
    exact ((((Shape.skip s 1).trans (shapeExpr c env _)).then_skip 1).trans (shapeBlock body _ _)).then_skip 1
  | .repeat_ body c, env, s => by
    simp only [refStat]
    exact (((Shape.skip s 1).trans (shapeBlock body env _)).then_skip 1).trans (shapeExpr c _ _)
  | .do_ body, env, s => by
    simp only [refStat]; exact ((Shape.skip s 1).trans (shapeBlock body env _)).then_skip 1
  | .if_ c t e, env, s => by
    simp only [refStat]
    exact ((((((Shape.skip s 1).trans (shapeExpr c env _)).then_skip 1).trans (shapeBlock t env _)).then_skip 1).trans
      (shapeBlock e env _)).then_skip 1
  | .callS f args, env, s => by
    simp only [refStat]
    exact (((Shape.use s env f).then_skip 1).trans (shapeExprs args env _)).then_skip 1
  | .loclAttr n val, env, s => by
    simp only [refStat]; exact (Shape.skip s 6).trans (shapeExpr val env _)
  | .method obj k colon ps body, env, s => by
    simp only [refStat]
    exact ((((Shape.skip s 1).trans (Shape.use _ env obj)).then_skip _).trans (shapeBlock body _ _)).then_skip 1
theorem shapeBlock : ∀ (b : List Stat) (env : Env) (s : RefSt), Shape s (refBlock env s b).1
  | [], env, s => by simp only [refBlock]; exact Shape.refl s
  | st :: rest, env, s => by
    simp only [refBlock]; exact (shapeStat st env s).trans (shapeBlock rest _ _)
end

/-! ### A run inside the whole program's record list -/

section Fits
variable (G : List Res)

/-- the run `s → s'` is a segment of the walk that recorded `G`: records made later lie at or after
`s'.pos`, records made before lie before `s.pos` -/
def Fits (s s' : RefSt) : Prop :=
  (∃ l, G = l ++ s'.out ∧ ∀ r ∈ l, s'.pos ≤ r.1) ∧ (∀ r ∈ s.out, r.1 < s.pos)

variable {G}

/-- a sub-run of a run that fits, fits -/
theorem Fits.sub {s s' a b : RefSt} (h : Fits G s s') (hpre : Shape s a) (hsuf : Shape b s') : Fits G a b := by
  obtain ⟨⟨l, hl, hlb⟩, hs⟩ := h
  obtain ⟨n1, e1, b1, m1⟩ := hpre
  obtain ⟨n2, e2, b2, m2⟩ := hsuf
  refine ⟨⟨l ++ n2, by rw [hl, e2, List.append_assoc], ?_⟩, ?_⟩
  · intro r hr
    rcases List.mem_append.mp hr with h | h
    · have := hlb r h; omega
    · exact (b2 r h).1
  · intro r hr
    rw [e1] at hr
    rcases List.mem_append.mp hr with h | h
    · exact (b1 r h).2
    · have := hs r h; omega

/-- no record of the walk lies in a stretch of tokens that only skips -/
theorem Fits.gap {a b : RefSt} (h : Fits G a b) (hout : b.out = a.out) (q : Nat) (h1 : a.pos ≤ q) (h2 : q < b.pos) :
    ∀ r ∈ G, r.1 ≠ q := by
  obtain ⟨⟨l, hl, hlb⟩, hs⟩ := h
  intro r hr
  rw [hl] at hr
  rcases List.mem_append.mp hr with h | h
  · have := hlb r h; omega
  · rw [hout] at h; have := hs r h; omega

/-- the record a name use makes is a record of the walk -/
theorem Fits.use_mem {s : RefSt} {env : Env} {n : Name} (h : Fits G s (s.use env n)) :
    (s.pos, lookupEnv env n) ∈ G := by
  obtain ⟨⟨l, hl, _⟩, _⟩ := h
  rw [hl]; simp [RefSt.use]

/-! ### Declarations are not uses -/

variable (G) in
/-- no record of the walk lies at position `q` -/
def NotUse (q : Nat) : Prop := ∀ r ∈ G, r.1 ≠ q
variable (G) in
def EnvOK (env : Env) : Prop := ∀ e ∈ env, NotUse G e.2
variable (G) in
/-- every recorded resolution points to a position that is not a use -/
def RecOK (out : List Res) : Prop := ∀ r ∈ out, ∀ d, r.2 = some d → NotUse G d

theorem RecOK.use {s : RefSt} {env : Env} (hr : RecOK G s.out) (he : EnvOK G env) (n : Name) :
    RecOK G (s.use env n).out := by
  intro r hm d hd
  simp only [RefSt.use, List.mem_cons] at hm
  rcases hm with rfl | hm
  · exact he _ (lookupEnv_mem hd)
  · exact hr r hm d hd

theorem RecOK.uses {env : Env} (he : EnvOK G env) (vars : List Name) : ∀ s : RefSt, RecOK G s.out →
    RecOK G (s.uses env vars).out := by
  induction vars with
  | nil => intro s h; exact h
  | cons v vs ih => intro s h; exact ih _ (h.use he v)

theorem EnvOK.bindNames (ns : List Name) : ∀ (env : Env) (p : Nat), EnvOK G env →
    (∀ q, p ≤ q → q < p + 2 * ns.length → NotUse G q) → EnvOK G (bindNames env p ns) := by
  induction ns with
  | nil => intro env p h _; exact h
  | cons n ns ih =>
    intro env p h hq
    simp only [Scope.bindNames]
    apply ih
    · intro e he
      rcases List.mem_cons.mp he with rfl | he
      · exact hq p (Nat.le_refl _) (by simp)
      · exact h e he
    · intro q h1 h2; exact hq q (by omega) (by simp only [List.length_cons]; omega)

theorem EnvOK.cons {env : Env} (h : EnvOK G env) (n : Name) (q : Nat) (hq : NotUse G q) : EnvOK G ((n, q) :: env) := by
  intro e he
  rcases List.mem_cons.mp he with rfl | he
  · exact hq
  · exact h e he

/-- positions of a stretch of tokens that only skips are not uses -/
theorem Fits.skipGap {s s' : RefSt} (h : Fits G s s') (ta tb : Nat) (hsuf : Shape (s.skip tb) s') :
    ∀ q, s.pos + 2 * ta ≤ q → q < s.pos + 2 * tb → NotUse G q := by
  intro q h1 h2
  have hf : Fits G (s.skip ta) (s.skip tb) := h.sub (Shape.skip s ta) hsuf
  exact hf.gap rfl q (by simpa using h1) (by simpa using h2)

mutual
theorem recExpr : ∀ (e : Expr) (env : Env) (s : RefSt), Fits G s (refExpr env s e) → EnvOK G env → RecOK G s.out →
    RecOK G (refExpr env s e).out
  | .name n, env, s, h, he, hr => by simp only [refExpr]; exact hr.use he n
  | .lit, env, s, h, he, hr => by simp only [refExpr]; exact hr
  | .call f args, env, s, h, he, hr => by
    simp only [refExpr] at h ⊢
    have ha := h.sub ((Shape.use s env f).then_skip 1) (Shape.skip _ 1)
    exact recExprs args env _ ha he (hr.use he f)
  | .func ps body, env, s, h, he, hr => by
    simp only [refExpr] at h ⊢
    have hb := h.sub (Shape.skip s (3 + ps.length)) (Shape.skip _ 1)
    have hg := h.skipGap 2 (3 + ps.length) ((shapeBlock body _ _).then_skip 1)
    exact (recBlock body _ _ hb (EnvOK.bindNames ps env (s.pos + 4) he
      (fun q h1 h2 => hg q (by omega) (by omega))) hr).1
theorem recExprs : ∀ (es : List Expr) (env : Env) (s : RefSt), Fits G s (refExprs env s es) → EnvOK G env →
    RecOK G s.out → RecOK G (refExprs env s es).out
  | [], env, s, h, he, hr => by simp only [refExprs]; exact hr
  | e :: es, env, s, h, he, hr => by
    simp only [refExprs] at h ⊢
    exact recExprs es env _ (h.sub (shapeExpr e env s) (Shape.refl _)) he
      (recExpr e env s (h.sub (Shape.refl s) (shapeExprs es env _)) he hr)
theorem recStat : ∀ (st : Stat) (env : Env) (s : RefSt), Fits G s (refStat env s st).1 → EnvOK G env →
    RecOK G s.out → RecOK G (refStat env s st).1.out ∧ EnvOK G (refStat env s st).2
  | .locl names vals, env, s, h, he, hr => by
    simp only [refStat] at h ⊢
    have hg := h.skipGap 1 (1 + names.length + eqTokens vals) (shapeExprs vals env _)
    have hv := h.sub (Shape.skip s (1 + names.length + eqTokens vals)) (Shape.refl _)
    exact ⟨recExprs vals env _ hv he hr, EnvOK.bindNames names env (s.pos + 2) he
      (fun q h1 h2 => hg q (by omega) (by omega))⟩
  | .assign vars vals, env, s, h, he, hr => by
    simp only [refStat] at h ⊢
    have hv := h.sub ((Shape.uses env vars s).then_skip 1) (Shape.refl _)
    exact ⟨recExprs vals env _ hv he (RecOK.uses he vars s hr), he⟩
  | .localFunc n ps body, env, s, h, he, hr => by
    simp only [refStat] at h ⊢
    have hsuf : Shape (s.skip (5 + ps.length)) ((refBlock (bindNames ((n, s.pos + 4) :: env) (s.pos + 8) ps) (s.skip (5 + ps.length)) body).1.skip 1) :=
      (shapeBlock body _ _).then_skip 1
    have hg := h.skipGap 2 (5 + ps.length) hsuf
    have hb := h.sub (Shape.skip s (5 + ps.length)) (Shape.skip _ 1)
    have he1 : EnvOK G ((n, s.pos + 4) :: env) := he.cons n _ (hg _ (by omega) (by omega))
    exact ⟨(recBlock body _ _ hb (EnvOK.bindNames ps _ (s.pos + 8) he1
      (fun q h1 h2 => hg q (by omega) (by omega))) hr).1, he1⟩
  | .funcStat n ps body, env, s, h, he, hr => by
    simp only [refStat] at h ⊢
    have hb := h.sub (((Shape.skip s 1).trans (Shape.use _ env n)).then_skip (2 + ps.length)) (Shape.skip _ 1)
    have hgap : Fits G ((s.skip 1).use env n) (((s.skip 1).use env n).skip (2 + ps.length)) :=
      h.sub ((Shape.skip s 1).trans (Shape.use _ env n)) ((shapeBlock body _ _).then_skip 1)
    have hr1 : RecOK G ((s.skip 1).use env n).out := RecOK.use (s := s.skip 1) hr he n
    exact ⟨(recBlock body _ _ hb (EnvOK.bindNames ps env (s.pos + 6) he
      (fun q h1 h2 => hgap.gap rfl q (by simp; omega) (by simp; omega))) hr1).1, he⟩
  | .forNum v e1 e2 body, env, s, h, he, hr => by
    simp only [refStat] at h ⊢
    have hg := h.skipGap 1 3
      (((((shapeExpr e1 env _)).trans (shapeExpr e2 env _)).then_skip 1).trans (shapeBlock body _ _) |>.then_skip 1)
    have h1 := h.sub (Shape.skip s 3)
      ((((shapeExpr e2 env (refExpr env (s.skip 3) e1)).then_skip 1).trans (shapeBlock body ((v, s.pos + 2) :: env) _)).then_skip 1)
    have h2 := h.sub ((Shape.skip s 3).trans (shapeExpr e1 env _))
      (((Shape.skip (refExpr env (refExpr env (s.skip 3) e1) e2) 1).trans (shapeBlock body ((v, s.pos + 2) :: env) _)).then_skip 1)
    have hb := h.sub ((((Shape.skip s 3).trans (shapeExpr e1 env _)).trans (shapeExpr e2 env _)).then_skip 1) (Shape.skip _ 1)
    have r1 := recExpr e1 env (s.skip 3) h1 he hr
    have r2 := recExpr e2 env _ h2 he r1
    exact ⟨(recBlock body _ _ hb (he.cons v _ (hg _ (by omega) (by omega))) r2).1, he⟩
  | .forIn vs e body, env, s, h, he, hr => by
    simp only [refStat] at h ⊢
    have hg := h.skipGap 1 (2 + vs.length)
      ((((shapeExpr e env _)).then_skip 1).trans (shapeBlock body _ _) |>.then_skip 1)
    have h1 := h.sub (Shape.skip s (2 + vs.length))
      (((Shape.skip (refExpr env (s.skip (2 + vs.length)) e) 1).trans (shapeBlock body (bindNames env (s.pos + 2) vs) _)).then_skip 1)
    have hb := h.sub (((Shape.skip s (2 + vs.length)).trans (shapeExpr e env _)).then_skip 1) (Shape.skip _ 1)
    have r1 := recExpr e env (s.skip (2 + vs.length)) h1 he hr
    exact ⟨(recBlock body _ _ hb (EnvOK.bindNames vs env (s.pos + 2) he
      (fun q h1 h2 => hg q (by omega) (by omega))) r1).1, he⟩
  | .while_ c body, env, s, h, he, hr => by
    simp only [refStat] at h ⊢
    have h1 := h.sub (Shape.skip s 1)
      (((Shape.skip (refExpr env (s.skip 1) c) 1).trans (shapeBlock body env _)).then_skip 1)
    have hb := h.sub (((Shape.skip s 1).trans (shapeExpr c env _)).then_skip 1) (Shape.skip _ 1)
    exact ⟨(recBlock body env _ hb he (recExpr c env (s.skip 1) h1 he hr)).1, he⟩
  | .repeat_ body c, env, s, h, he, hr => by
    simp only [refStat] at h ⊢
    have hb := h.sub (Shape.skip s 1)
      ((Shape.skip (refBlock env (s.skip 1) body).1 1).trans (shapeExpr c (refBlock env (s.skip 1) body).2 _))
    have hc := h.sub (((Shape.skip s 1).trans (shapeBlock body env _)).then_skip 1) (Shape.refl _)
    obtain ⟨b1, b2⟩ := recBlock body env (s.skip 1) hb he hr
    exact ⟨recExpr c _ _ hc b2 b1, he⟩
  | .do_ body, env, s, h, he, hr => by
    simp only [refStat] at h ⊢
    have hb := h.sub (Shape.skip s 1) (Shape.skip _ 1)
    exact ⟨(recBlock body env (s.skip 1) hb he hr).1, he⟩
  | .if_ c t e, env, s, h, he, hr => by
    simp only [refStat] at h ⊢
    have h1 := h.sub (Shape.skip s 1)
      (((((Shape.skip (refExpr env (s.skip 1) c) 1).trans (shapeBlock t env _)).then_skip 1).trans (shapeBlock e env _)).then_skip 1)
    have ht := h.sub (((Shape.skip s 1).trans (shapeExpr c env _)).then_skip 1)
      (((Shape.skip (refBlock env ((refExpr env (s.skip 1) c).skip 1) t).1 1).trans (shapeBlock e env _)).then_skip 1)
    have hel := h.sub (((((Shape.skip s 1).trans (shapeExpr c env _)).then_skip 1).trans (shapeBlock t env _)).then_skip 1)
      (Shape.skip _ 1)
    have r1 := recExpr c env (s.skip 1) h1 he hr
    have r2 := (recBlock t env _ ht he r1).1
    exact ⟨(recBlock e env _ hel he r2).1, he⟩
  | .callS f args, env, s, h, he, hr => by
    simp only [refStat] at h ⊢
    have ha := h.sub ((Shape.use s env f).then_skip 1) (Shape.skip _ 1)
    exact ⟨recExprs args env _ ha he (hr.use he f), he⟩
  | .loclAttr n val, env, s, h, he, hr => by
    simp only [refStat] at h ⊢
    have hg := h.skipGap 1 6 (shapeExpr val env _)
    have hv := h.sub (Shape.skip s 6) (Shape.refl _)
    exact ⟨recExpr val env _ hv he hr, he.cons n _ (hg _ (by omega) (by omega))⟩
  | .method obj k colon ps body, env, s, h, he, hr => by
    simp only [refStat] at h ⊢
    have hb := h.sub (((Shape.skip s 1).trans (Shape.use _ env obj)).then_skip (2 * k + 2 + ps.length)) (Shape.skip _ 1)
    have hgap : Fits G ((s.skip 1).use env obj) (((s.skip 1).use env obj).skip (2 * k + 2 + ps.length)) :=
      h.sub ((Shape.skip s 1).trans (Shape.use _ env obj)) ((shapeBlock body _ _).then_skip 1)
    have hr1 : RecOK G ((s.skip 1).use env obj).out := RecOK.use (s := s.skip 1) hr he obj
    have heS : EnvOK G (selfEnv colon (s.pos + 4 * k) env) := by
      cases colon
      · exact he
      · by_cases hk : k = 0
        · subst hk
          have hg0 : Fits G s (s.skip 1) := h.sub (Shape.refl s)
            ((((Shape.use (s.skip 1) env obj)).then_skip _).trans (shapeBlock body _ _) |>.then_skip 1)
          exact he.cons selfName _ (hg0.gap rfl _ (by simp) (by simp))
        · exact he.cons selfName _ (hgap.gap rfl _ (by simp; omega) (by simp; omega))
    exact ⟨(recBlock body _ _ hb (EnvOK.bindNames ps _ (s.pos + 6 + 4 * k) heS
      (fun q h1 h2 => hgap.gap rfl q (by simp; omega) (by simp; omega))) hr1).1, he⟩
theorem recBlock : ∀ (b : List Stat) (env : Env) (s : RefSt), Fits G s (refBlock env s b).1 → EnvOK G env →
    RecOK G s.out → RecOK G (refBlock env s b).1.out ∧ EnvOK G (refBlock env s b).2
  | [], env, s, h, he, hr => by simp only [refBlock]; exact ⟨hr, he⟩
  | st :: rest, env, s, h, he, hr => by
    simp only [refBlock] at h ⊢
    obtain ⟨a1, a2⟩ := recStat st env s (h.sub (Shape.refl s) (shapeBlock rest _ _)) he hr
    exact recBlock rest _ _ (h.sub (shapeStat st env s) (Shape.refl _)) a2 a1
end

/-! ### Token by token -/

variable (E : List Nat) (d : Nat) (new : Name)
variable (hE : ∀ t, E.contains t = true ↔ (t = d ∨ (t, some d) ∈ G))
variable (hN : ∀ a ∈ G, ∀ b ∈ G, a.1 = b.1 → a = b)
variable (hd : ∀ r ∈ G, r.1 ≠ d)
include hE hN hd

/-- a use token is edited iff the environment binds it to `d` -/
theorem use_eq {s : RefSt} {env : Env} {n : Name} (h : Fits G s (s.use env n)) :
    substName E new s.pos n = alphaUse d new env n := by
  have hm := h.use_mem
  have : E.contains s.pos = true ↔ lookupEnv env n = some d := by
    rw [hE]
    constructor
    · rintro (h1 | h1)
      · exact absurd h1 (hd _ hm)
      · have := hN _ h1 _ hm rfl
        exact (Prod.mk.inj this).2.symm
    · intro h1; right; rw [← h1]; exact hm
  unfold substName alphaUse
  by_cases hc : lookupEnv env n = some d
  · rw [if_pos (this.mpr hc), if_pos hc]
  · rw [if_neg (fun hb => hc (this.mp hb)), if_neg hc]

/-- a declaration token (no record of the walk lies on it) is edited iff it is the token `d` -/
theorem binder_eq {q : Nat} (hq : ∀ r ∈ G, r.1 ≠ q) (n : Name) :
    substName E new q n = if q = d then new else n := by
  have : E.contains q = true ↔ q = d := by
    rw [hE]
    constructor
    · rintro (h1 | h1)
      · exact h1
      · exact absurd rfl (hq _ h1)
    · intro h1; left; exact h1
  unfold substName
  by_cases hc : q = d
  · rw [if_pos (this.mpr hc), if_pos hc]
  · rw [if_neg (fun hb => hc (this.mp hb)), if_neg hc]

theorem binders_eq (ns : List Name) : ∀ (p : Nat), (∀ q, p ≤ q → q < p + 2 * ns.length → ∀ r ∈ G, r.1 ≠ q) →
    substNames E new p ns = alphaBinders d new p ns := by
  induction ns with
  | nil => intro p _; rfl
  | cons n ns ih =>
    intro p h
    simp only [substNames, alphaBinders]
    rw [binder_eq E d new hE hN hd (h p (Nat.le_refl _) (by simp)) n]
    rw [ih (p + 2) (fun q h1 h2 => h q (by omega) (by simp only [List.length_cons]; omega))]

/-- the targets of an assignment -/
theorem uses_eq {env : Env} (vars : List Name) : ∀ (s : RefSt) (pos : Nat), pos = s.pos → Fits G s (s.uses env vars) →
    substNames E new pos vars = vars.map (alphaUse d new env) := by
  induction vars with
  | nil => intro s pos _ _; rfl
  | cons v vs ih =>
    intro s pos hp h
    subst hp
    simp only [RefSt.uses] at h
    simp only [substNames, List.map_cons]
    rw [use_eq E d new hE hN hd (h.sub (Shape.refl s) (Shape.uses env vs _))]
    rw [ih (s.use env v) (s.pos + 2) rfl (h.sub (Shape.use s env v) (Shape.refl _))]

/-- the gap lemma in the form used for declaration lists: the tokens from `a` up to `b` only skip -/
theorem binders_gap {s s' : RefSt} (h : Fits G s s') (ta tb : Nat) (hsuf : Shape (s.skip tb) s') (ns : List Name)
    (hlen : ta + ns.length ≤ tb) :
    substNames E new (s.pos + 2 * ta) ns = alphaBinders d new (s.pos + 2 * ta) ns := by
  apply binders_eq E d new hE hN hd
  intro q h1 h2
  have hf : Fits G (s.skip ta) (s.skip tb) := h.sub (Shape.skip s ta) hsuf
  exact hf.gap rfl q (by simpa using h1) (by simp; omega)

theorem binder_gap {s s' : RefSt} (h : Fits G s s') (ta tb : Nat) (hsuf : Shape (s.skip tb) s') (n : Name)
    (hlen : ta < tb) :
    substName E new (s.pos + 2 * ta) n = if s.pos + 2 * ta = d then new else n := by
  apply binder_eq E d new hE hN hd
  have hf : Fits G (s.skip ta) (s.skip tb) := h.sub (Shape.skip s ta) hsuf
  exact hf.gap rfl _ (by simp) (by simp; omega)

/-! ### The whole traversal -/

mutual
theorem substExpr_eq : ∀ (e : Expr) (env : Env) (s : RefSt) (pos : Nat), pos = s.pos → Fits G s (refExpr env s e) →
    substExpr E new pos e = alphaExpr d new env pos e
  | .name n, env, s, pos, hp, h => by
    subst hp
    simp only [refExpr] at h
    simp only [substExpr, alphaExpr, use_eq E d new hE hN hd h]
  | .lit, env, s, pos, hp, h => by simp only [substExpr, alphaExpr]
  | .call f args, env, s, pos, hp, h => by
    subst hp
    simp only [refExpr] at h
    have hf := h.sub (Shape.refl s) ((((Shape.skip (s.use env f) 1)).trans (shapeExprs args env _)).then_skip 1)
    have ha := h.sub ((Shape.use s env f).then_skip 1) (Shape.skip _ 1)
    simp only [substExpr, alphaExpr, use_eq E d new hE hN hd hf]
    rw [substExprs_eq args env _ (s.pos + 4) (by simp) ha]
  | .func ps body, env, s, pos, hp, h => by
    subst hp
    simp only [refExpr] at h
    have hb := h.sub (Shape.skip s (3 + ps.length)) (Shape.skip _ 1)
    have hg := binders_gap E d new hE hN hd h 2 (3 + ps.length) ((shapeBlock body _ _).then_skip 1) ps (by omega)
    simp only [substExpr, alphaExpr]
    rw [show s.pos + 4 = s.pos + 2 * 2 from rfl, hg]
    rw [(substBlock_eq body (bindNames env (s.pos + 2 * 2) ps) (s.skip (3 + ps.length)) (s.pos + 2 * (3 + ps.length)) rfl hb).1]
theorem substExprs_eq : ∀ (es : List Expr) (env : Env) (s : RefSt) (pos : Nat), pos = s.pos → Fits G s (refExprs env s es) →
    substExprs E new pos es = alphaExprs d new env pos es
  | [], env, s, pos, hp, h => by simp only [substExprs, alphaExprs]
  | e :: es, env, s, pos, hp, h => by
    subst hp
    simp only [refExprs] at h
    simp only [substExprs, alphaExprs]
    rw [substExpr_eq e env s s.pos rfl (h.sub (Shape.refl s) (shapeExprs es env _))]
    rw [substExprs_eq es env (refExpr env s e) _ (by rw [sizeExpr_pos]) (h.sub (shapeExpr e env s) (Shape.refl _))]
theorem substStat_eq : ∀ (st : Stat) (env : Env) (s : RefSt) (pos : Nat), pos = s.pos → Fits G s (refStat env s st).1 →
    substStat E new pos st = (alphaStat d new env pos st).1 ∧ (alphaStat d new env pos st).2 = (refStat env s st).2
  | .locl names vals, env, s, pos, hp, h => by
    subst hp
    simp only [refStat] at h
    have hg := binders_gap E d new hE hN hd h 1 (1 + names.length + eqTokens vals) (shapeExprs vals env _) names (by omega)
    have hv := h.sub (Shape.skip s (1 + names.length + eqTokens vals)) (Shape.refl _)
    simp only [substStat, alphaStat, refStat]
    rw [show s.pos + 2 = s.pos + 2 * 1 from rfl, hg, substExprs_eq vals env _ _ (by simp) hv]
    refine ⟨?_, ?_⟩ <;> first | trivial | rfl
  | .assign vars vals, env, s, pos, hp, h => by
    subst hp
    simp only [refStat] at h
    have hu := h.sub (Shape.refl s) ((Shape.skip (s.uses env vars) 1).trans (shapeExprs vals env _))
    have hv := h.sub ((Shape.uses env vars s).then_skip 1) (Shape.refl _)
    simp only [substStat, alphaStat, refStat]
    rw [uses_eq E d new hE hN hd vars s s.pos rfl hu,
      substExprs_eq vals env _ _ (by simp [uses_pos]; omega) hv]
    refine ⟨?_, ?_⟩ <;> first | trivial | rfl
  | .localFunc n ps body, env, s, pos, hp, h => by
    subst hp
    simp only [refStat] at h
    have hsuf : Shape (s.skip (5 + ps.length)) ((refBlock (bindNames ((n, s.pos + 4) :: env) (s.pos + 8) ps) (s.skip (5 + ps.length)) body).1.skip 1) :=
      (shapeBlock body _ _).then_skip 1
    have hn := binder_gap E d new hE hN hd h 2 (5 + ps.length) hsuf n (by omega)
    have hg := binders_gap E d new hE hN hd h 4 (5 + ps.length) hsuf ps (by omega)
    have hb := h.sub (Shape.skip s (5 + ps.length)) (Shape.skip _ 1)
    simp only [substStat, alphaStat, refStat]
    rw [show s.pos + 4 = s.pos + 2 * 2 from rfl, hn, show s.pos + 8 = s.pos + 2 * 4 from rfl, hg]
    rw [(substBlock_eq body _ (s.skip (5 + ps.length)) (s.pos + 2 * (5 + ps.length)) rfl hb).1]
    refine ⟨?_, ?_⟩ <;> first | trivial | rfl
  | .funcStat n ps body, env, s, pos, hp, h => by
    subst hp
    simp only [refStat] at h
    have hu : Fits G (s.skip 1) ((s.skip 1).use env n) :=
      h.sub (Shape.skip s 1) (((Shape.skip _ (2 + ps.length)).trans (shapeBlock body _ _)).then_skip 1)
    have hb := h.sub (((Shape.skip s 1).trans (Shape.use _ env n)).then_skip (2 + ps.length)) (Shape.skip _ 1)
    -- the parameter list: only skips between the name and the body
    have hgap : Fits G ((s.skip 1).use env n) (((s.skip 1).use env n).skip (2 + ps.length)) :=
      h.sub ((Shape.skip s 1).trans (Shape.use _ env n)) ((shapeBlock body _ _).then_skip 1)
    have hg : substNames E new (s.pos + 6) ps = alphaBinders d new (s.pos + 6) ps := by
      apply binders_eq E d new hE hN hd
      intro q h1 h2
      exact hgap.gap rfl q (by simp; omega) (by simp; omega)
    simp only [substStat, alphaStat, refStat]
    rw [show s.pos + 2 = (s.skip 1).pos from rfl, use_eq E d new hE hN hd hu, hg]
    rw [(substBlock_eq body _ _ (s.pos + 2 * (4 + ps.length)) (by simp; omega) hb).1]
    refine ⟨?_, ?_⟩ <;> first | trivial | rfl
  | .forNum v e1 e2 body, env, s, pos, hp, h => by
    subst hp
    simp only [refStat] at h
    have hv := binder_gap E d new hE hN hd h 1 3
      (((((shapeExpr e1 env _)).trans (shapeExpr e2 env _)).then_skip 1).trans (shapeBlock body _ _) |>.then_skip 1) v (by omega)
    have h1 := h.sub (Shape.skip s 3)
      ((((shapeExpr e2 env (refExpr env (s.skip 3) e1)).then_skip 1).trans (shapeBlock body ((v, s.pos + 2) :: env) _)).then_skip 1)
    have h2 := h.sub ((Shape.skip s 3).trans (shapeExpr e1 env _))
      (((Shape.skip (refExpr env (refExpr env (s.skip 3) e1) e2) 1).trans (shapeBlock body ((v, s.pos + 2) :: env) _)).then_skip 1)
    have hb := h.sub ((((Shape.skip s 3).trans (shapeExpr e1 env _)).trans (shapeExpr e2 env _)).then_skip 1) (Shape.skip _ 1)
    simp only [substStat, alphaStat, refStat]
    rw [show s.pos + 2 = s.pos + 2 * 1 from rfl, hv,
      substExpr_eq e1 env (s.skip 3) (s.pos + 6) (by simp) h1,
      substExpr_eq e2 env _ (s.pos + 6 + 2 * sizeExpr e1) (by rw [sizeExpr_pos]; simp) h2]
    rw [(substBlock_eq body _ _ (s.pos + 8 + 2 * sizeExpr e1 + 2 * sizeExpr e2)
      (by simp only [RefSt.skip_pos, sizeExpr_pos]; omega) hb).1]
    refine ⟨?_, ?_⟩ <;> first | trivial | rfl
  | .forIn vs e body, env, s, pos, hp, h => by
    subst hp
    simp only [refStat] at h
    have hg := binders_gap E d new hE hN hd h 1 (2 + vs.length)
      ((((shapeExpr e env _)).then_skip 1).trans (shapeBlock body _ _) |>.then_skip 1) vs (by omega)
    have h1 := h.sub (Shape.skip s (2 + vs.length))
      (((Shape.skip (refExpr env (s.skip (2 + vs.length)) e) 1).trans (shapeBlock body (bindNames env (s.pos + 2) vs) _)).then_skip 1)
    have hb := h.sub (((Shape.skip s (2 + vs.length)).trans (shapeExpr e env _)).then_skip 1) (Shape.skip _ 1)
    simp only [substStat, alphaStat, refStat]
    rw [show s.pos + 2 = s.pos + 2 * 1 from rfl, hg,
      substExpr_eq e env (s.skip (2 + vs.length)) (s.pos + 2 * (2 + vs.length)) (by simp) h1]
    rw [(substBlock_eq body _ _ (s.pos + 2 * (3 + vs.length) + 2 * sizeExpr e)
      (by simp only [RefSt.skip_pos, sizeExpr_pos]; omega) hb).1]
    refine ⟨?_, ?_⟩ <;> first | trivial | rfl
  | .while_ c body, env, s, pos, hp, h => by
    subst hp
    simp only [refStat] at h
    have h1 := h.sub (Shape.skip s 1)
      (((Shape.skip (refExpr env (s.skip 1) c) 1).trans (shapeBlock body env _)).then_skip 1)
    have hb := h.sub (((Shape.skip s 1).trans (shapeExpr c env _)).then_skip 1) (Shape.skip _ 1)
    simp only [substStat, alphaStat, refStat]
    rw [substExpr_eq c env (s.skip 1) (s.pos + 2) (by simp) h1]
    rw [(substBlock_eq body _ _ (s.pos + 4 + 2 * sizeExpr c) (by simp only [RefSt.skip_pos, sizeExpr_pos]; omega) hb).1]
    refine ⟨?_, ?_⟩ <;> first | trivial | rfl
  | .repeat_ body c, env, s, pos, hp, h => by
    subst hp
    simp only [refStat] at h
    have hb := h.sub (Shape.skip s 1)
      ((Shape.skip (refBlock env (s.skip 1) body).1 1).trans (shapeExpr c (refBlock env (s.skip 1) body).2 _))
    have hc := h.sub (((Shape.skip s 1).trans (shapeBlock body env _)).then_skip 1) (Shape.refl _)
    obtain ⟨b1, b2⟩ := substBlock_eq body env (s.skip 1) (s.pos + 2) (by simp) hb
    simp only [substStat, alphaStat, refStat]
    rw [b1, b2, substExpr_eq c _ _ (s.pos + 4 + 2 * sizeBlock body) (by simp only [RefSt.skip_pos, sizeBlock_pos]; omega) hc]
    refine ⟨?_, ?_⟩ <;> first | trivial | rfl
  | .do_ body, env, s, pos, hp, h => by
    subst hp
    simp only [refStat] at h
    have hb := h.sub (Shape.skip s 1) (Shape.skip _ 1)
    simp only [substStat, alphaStat, refStat]
    rw [(substBlock_eq body env (s.skip 1) (s.pos + 2) (by simp) hb).1]
    refine ⟨?_, ?_⟩ <;> first | trivial | rfl
  | .if_ c t e, env, s, pos, hp, h => by
    subst hp
    simp only [refStat] at h
    have h1 := h.sub (Shape.skip s 1)
      (((((Shape.skip (refExpr env (s.skip 1) c) 1).trans (shapeBlock t env _)).then_skip 1).trans (shapeBlock e env _)).then_skip 1)
    have ht := h.sub (((Shape.skip s 1).trans (shapeExpr c env _)).then_skip 1)
      (((Shape.skip (refBlock env ((refExpr env (s.skip 1) c).skip 1) t).1 1).trans (shapeBlock e env _)).then_skip 1)
    have he := h.sub (((((Shape.skip s 1).trans (shapeExpr c env _)).then_skip 1).trans (shapeBlock t env _)).then_skip 1)
      (Shape.skip _ 1)
    simp only [substStat, alphaStat, refStat]
    rw [substExpr_eq c env (s.skip 1) (s.pos + 2) (by simp) h1]
    rw [(substBlock_eq t env _ (s.pos + 4 + 2 * sizeExpr c) (by simp only [RefSt.skip_pos, sizeExpr_pos]; omega) ht).1]
    rw [(substBlock_eq e env _ (s.pos + 6 + 2 * sizeExpr c + 2 * sizeBlock t)
      (by simp only [RefSt.skip_pos, sizeExpr_pos, sizeBlock_pos]; omega) he).1]
    refine ⟨?_, ?_⟩ <;> first | trivial | rfl
  | .callS f args, env, s, pos, hp, h => by
    subst hp
    simp only [refStat] at h
    have hf := h.sub (Shape.refl s) ((((Shape.skip (s.use env f) 1)).trans (shapeExprs args env _)).then_skip 1)
    have ha := h.sub ((Shape.use s env f).then_skip 1) (Shape.skip _ 1)
    simp only [substStat, alphaStat, refStat, use_eq E d new hE hN hd hf]
    rw [substExprs_eq args env _ (s.pos + 4) (by simp) ha]
    refine ⟨?_, ?_⟩ <;> first | trivial | rfl
  | .loclAttr n val, env, s, pos, hp, h => by
    subst hp
    simp only [refStat] at h
    have hn := binder_gap E d new hE hN hd h 1 6 (shapeExpr val env _) n (by omega)
    have hv := h.sub (Shape.skip s 6) (Shape.refl _)
    simp only [substStat, alphaStat, refStat]
    rw [show s.pos + 2 = s.pos + 2 * 1 from rfl, hn, substExpr_eq val env _ (s.pos + 12) (by simp) hv]
    refine ⟨?_, ?_⟩ <;> first | trivial | rfl
  | .method obj k colon ps body, env, s, pos, hp, h => by
    subst hp
    simp only [refStat] at h
    have hu : Fits G (s.skip 1) ((s.skip 1).use env obj) :=
      h.sub (Shape.skip s 1) (((Shape.skip _ (2 * k + 2 + ps.length)).trans (shapeBlock body _ _)).then_skip 1)
    have hb := h.sub (((Shape.skip s 1).trans (Shape.use _ env obj)).then_skip (2 * k + 2 + ps.length)) (Shape.skip _ 1)
    have hgap : Fits G ((s.skip 1).use env obj) (((s.skip 1).use env obj).skip (2 * k + 2 + ps.length)) :=
      h.sub ((Shape.skip s 1).trans (Shape.use _ env obj)) ((shapeBlock body _ _).then_skip 1)
    have hg : substNames E new (s.pos + 6 + 4 * k) ps = alphaBinders d new (s.pos + 6 + 4 * k) ps := by
      apply binders_eq E d new hE hN hd
      intro q h1 h2
      exact hgap.gap rfl q (by simp; omega) (by simp; omega)
    simp only [substStat, alphaStat, refStat]
    rw [show s.pos + 2 = (s.skip 1).pos from rfl, use_eq E d new hE hN hd hu, hg]
    rw [(substBlock_eq body _ _ (s.pos + 2 * (4 + 2 * k + ps.length)) (by simp; omega) hb).1]
    refine ⟨?_, ?_⟩ <;> first | trivial | rfl
theorem substBlock_eq : ∀ (b : List Stat) (env : Env) (s : RefSt) (pos : Nat), pos = s.pos → Fits G s (refBlock env s b).1 →
    substBlock E new pos b = (alphaBlock d new env pos b).1 ∧ (alphaBlock d new env pos b).2 = (refBlock env s b).2
  | [], env, s, pos, hp, h => by simp only [substBlock, alphaBlock, refBlock]; refine ⟨?_, ?_⟩ <;> first | trivial | rfl
  | st :: rest, env, s, pos, hp, h => by
    subst hp
    simp only [refBlock] at h
    obtain ⟨a1, a2⟩ := substStat_eq st env s s.pos rfl (h.sub (Shape.refl s) (shapeBlock rest _ _))
    obtain ⟨b1, b2⟩ := substBlock_eq rest (refStat env s st).2 (refStat env s st).1 (s.pos + 2 * sizeStat st)
      (by rw [sizeStat_pos]) (h.sub (shapeStat st env s) (Shape.refl _))
    simp only [substBlock, alphaBlock, refBlock, a1, a2, b1, b2]
    refine ⟨?_, ?_⟩ <;> first | trivial | rfl
end

end Fits

/-! ### The whole program -/

theorem pairwise_identify : ∀ {out : List Res}, out.Pairwise (fun a c => c.1 < a.1) →
    ∀ x ∈ out, ∀ y ∈ out, x.1 = y.1 → x = y
  | [], _ => fun x hx => by cases hx
  | z :: rest, h => by
    rw [List.pairwise_cons] at h
    intro x hx y hy hxy
    rcases List.mem_cons.mp hx with hx1 | hx1
    · rcases List.mem_cons.mp hy with hy1 | hy1
      · rw [hx1, hy1]
      · rw [hx1] at hxy; have := h.1 y hy1; omega
    · rcases List.mem_cons.mp hy with hy1 | hy1
      · rw [hy1] at hxy; have := h.1 x hx1; omega
      · exact pairwise_identify h.2 x hx1 y hy1 hxy

/-- the record list of a program's walk -/
def recordsOf (p : List Stat) : List Res := (refBlock [] { pos := startPos, out := [] } p).1.out

theorem reference_eq_reverse (p : List Stat) : reference p = (recordsOf p).reverse := rfl

theorem fits_whole (p : List Stat) :
    Fits (recordsOf p) { pos := startPos, out := [] } (refBlock [] { pos := startPos, out := [] } p).1 :=
  ⟨⟨[], rfl, fun _ h => by cases h⟩, fun _ h => by cases h⟩

/-- a position a use resolves to is never the position of a use -/
theorem resolved_decl_not_use (p : List Stat) (u d : Nat) (h : (u, some d) ∈ reference p) :
    ∀ r ∈ reference p, r.1 ≠ d := by
  have hrec := (recBlock p [] _ (fits_whole p) (fun _ h => by cases h) (fun _ h => by cases h)).1
  intro r hr
  rw [reference_eq_reverse, List.mem_reverse] at h hr
  exact hrec (u, some d) h d rfl r hr

/-- **Applying the rename edits at their token positions is α-renaming through the environment.** -/
theorem subst_eq_alpha (p : List Stat) (d : Nat) (new : Name) (hd : ∀ r ∈ reference p, r.1 ≠ d) :
    substBlock (renameEdits (reference p) d) new startPos p = alphaProg d new p := by
  have hN := pairwise_identify (reference_outOk p).2
  have h := substBlock_eq (G := recordsOf p) (renameEdits (reference p) d) d new
    (by
      intro t
      simp only [renameEdits, List.contains_iff_mem, List.mem_cons, reference_eq_reverse]
      constructor
      · rintro (h | h)
        · exact Or.inl h
        · right; have := cellsOf_mem h; simpa using this
      · rintro (h | h)
        · exact Or.inl h
        · right
          simp only [cellsOf, List.mem_map, List.mem_filter, decide_eq_true_eq]
          exact ⟨(t, some d), ⟨by simpa using h, rfl⟩, rfl⟩)
    hN (by intro r hr; exact hd r (by rw [reference_eq_reverse]; simpa using hr))
    p [] { pos := startPos, out := [] } startPos rfl (fits_whole p)
  exact h.1

end Scope
