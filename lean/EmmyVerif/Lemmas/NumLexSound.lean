import EmmyVerif.Lemmas.NumLex
/-!
# Soundness of `lex_number`: a token lexed without error is a numeral of the manual's grammar

`Partial` is a numeral being read, in the shape of the grammar; `push` appends one char the way the grammar
allows. The loop of `lex_number` is exactly `push` (`step_push`, `mark_push`), so the token it produces is the
maximal grammar prefix, and the "malformed number" / "unexpected character" errors are raised exactly when
that prefix is incomplete or glued to a letter.
-/
namespace NumLex

structure Partial where
  hex : Option Char
  ip : List Char
  frac : Option (List Char)
  expo : Option Exponent

def Partial.isHex (p : Partial) : Bool := p.hex.isSome

def Partial.toNumeral (p : Partial) : Numeral := ⟨p.hex, p.ip, p.frac, p.expo⟩

def Partial.render (p : Partial) : List Char := p.toNumeral.render

def Partial.state (p : Partial) : St :=
  match p.expo with
  | some e => if e.sign.isNone && e.digits.isEmpty then .expoSign else .expo
  | none =>
    match p.frac with
    | some _ => if p.isHex then .hexFloat else .float
    | none => if p.isHex then .hex else .int

/-- append one char as the grammar allows -/
def Partial.push (p : Partial) (c : Char) : Option Partial :=
  match p.expo with
  | some e =>
    if e.sign.isNone && e.digits.isEmpty && isSign c then some { p with expo := some { e with sign := some c } }
    else if isDigit c then some { p with expo := some { e with digits := e.digits ++ [c] } }
    else none
  | none =>
    match p.frac with
    | some f =>
      if (if p.isHex then isHexDigit c else isDigit c) then some { p with frac := some (f ++ [c]) }
      else if isExpoLetter p.isHex c then some { p with expo := some ⟨c, none, []⟩ }
      else none
    | none =>
      if (if p.isHex then isHexDigit c else isDigit c) then some { p with ip := p.ip ++ [c] }
      else if c == '.' then some { p with frac := some [] }
      else if isExpoLetter p.isHex c then some { p with expo := some ⟨c, none, []⟩ }
      else none

def Partial.flags (p : Partial) : Flags :=
  ⟨p.isHex && !(p.ip ++ fracDigits p.frac).isEmpty,
   match p.expo with | some e => !e.digits.isEmpty | none => false⟩

theorem step_push (p : Partial) (c : Char) : step std p.state c = (p.push c).map Partial.state := by
  obtain ⟨hex, ip, frac, expo⟩ := p
  cases expo with
  | some e =>
    obtain ⟨l, s, ds⟩ := e
    cases s <;> cases ds <;> simp [Partial.state, Partial.push, step, std] <;>
      (cases hs : isSign c <;> cases hd : isDigit c <;> simp [hs, hd, Partial.state])
  | none =>
    cases frac <;> cases hex <;> simp [Partial.state, Partial.push, Partial.isHex, step, std, isExpoLetter] <;>
      (repeat' split) <;> simp_all [Partial.state, Partial.isHex]

theorem mark_push (p p' : Partial) (c : Char) (h : p.push c = some p') :
    mark std p.state c p.flags = p'.flags := by
  obtain ⟨hex, ip, frac, expo⟩ := p
  cases expo with
  | some e =>
    obtain ⟨l, s, ds⟩ := e
    cases s <;> cases ds <;> simp [Partial.push] at h <;>
      (cases hs : isSign c <;> cases hd : isDigit c <;> simp [hs, hd] at h <;> subst h <;>
        simp [Partial.state, Partial.flags, mark, std, hs, hd, Partial.isHex])
  | none =>
    cases frac <;> cases hex <;> simp [Partial.push, Partial.isHex, isExpoLetter] at h <;>
      (repeat' split at h) <;> simp_all [Partial.state, Partial.isHex, Partial.flags, mark, std, fracDigits] <;>
      (subst h; simp_all [Partial.state, Partial.isHex, Partial.flags, mark, std, fracDigits])

theorem render_push (p p' : Partial) (c : Char) (h : p.push c = some p') : p'.render = p.render ++ [c] := by
  obtain ⟨hex, ip, frac, expo⟩ := p
  cases expo with
  | some e =>
    obtain ⟨l, s, ds⟩ := e
    simp only [Partial.push] at h
    split at h
    · simp only [Option.some.injEq] at h; subst h
      rename_i hc
      simp only [Bool.and_eq_true, Option.isNone_iff_eq_none, List.isEmpty_iff] at hc
      obtain ⟨⟨rfl, rfl⟩, _⟩ := hc
      simp [Partial.render, Partial.toNumeral, Numeral.render, expoChars, Exponent.render, signChars]
    · split at h
      · simp only [Option.some.injEq] at h; subst h
        simp [Partial.render, Partial.toNumeral, Numeral.render, expoChars, Exponent.render]
      · cases h
  | none =>
    cases frac <;> simp only [Partial.push] at h <;> (repeat' split at h) <;> cases h <;>
      simp_all [Partial.render, Partial.toNumeral, Numeral.render, expoChars, Exponent.render, signChars, fracChars]

/-- the chars read so far are of the right classes (nothing is said about completeness) -/
def Partial.Pre (p : Partial) : Prop :=
  hexOk p.hex = true ∧ p.ip.all (if p.isHex then isHexDigit else isDigit) = true ∧
  fracAll (if p.isHex then isHexDigit else isDigit) p.frac = true ∧
  (∀ e, p.expo = some e → isExpoLetter p.isHex e.letter = true ∧ signOk e.sign = true ∧ e.digits.all isDigit = true)

theorem pre_push (p p' : Partial) (c : Char) (hp : p.Pre) (h : p.push c = some p') : p'.Pre := by
  obtain ⟨hex, ip, frac, expo⟩ := p
  cases expo with
  | some e =>
    obtain ⟨l, s, ds⟩ := e
    obtain ⟨h1, h2, h3, h4⟩ := hp
    obtain ⟨e1, e2, e3⟩ := h4 _ rfl
    simp only [Partial.push] at h
    split at h
    · rename_i hc
      cases h
      simp only [Bool.and_eq_true] at hc
      refine ⟨h1, h2, h3, ?_⟩
      intro e he; cases he
      exact ⟨e1, by simp [signOk, hc.2], e3⟩
    · split at h
      · rename_i hd
        cases h
        refine ⟨h1, h2, h3, ?_⟩
        intro e he; cases he
        exact ⟨e1, e2, by simp_all⟩
      · cases h
  | none =>
    cases frac <;> cases hex <;> simp [Partial.push, Partial.isHex, isExpoLetter] at h <;>
      (repeat' split at h) <;> simp_all [Partial.Pre, Partial.isHex, fracAll, signOk, isExpoLetter] <;>
      (subst h; simp_all [Partial.Pre, Partial.isHex, fracAll, signOk, isExpoLetter]) <;>
      (intro x hx; rcases hx with hx | rfl <;> first | exact hp.2 x hx | assumption)

theorem hex_push (p p' : Partial) (c : Char) (h : p.push c = some p') : p'.hex = p.hex := by
  obtain ⟨hex, ip, frac, expo⟩ := p
  cases expo with
  | some e =>
    simp only [Partial.push] at h
    (repeat' split at h) <;> cases h <;> rfl
  | none =>
    cases frac <;> simp only [Partial.push] at h <;> (repeat' split at h) <;> cases h <;> rfl

def Partial.digits (p : Partial) : List Char := p.ip ++ fracDigits p.frac

theorem digits_push (p p' : Partial) (c : Char) (h : p.push c = some p') (hd : p.digits ≠ []) : p'.digits ≠ [] := by
  obtain ⟨hex, ip, frac, expo⟩ := p
  cases expo with
  | some e =>
    simp only [Partial.push] at h
    (repeat' split at h) <;> cases h <;> exact hd
  | none =>
    cases frac <;> simp only [Partial.push] at h <;> (repeat' split at h) <;> cases h <;>
      simp_all [Partial.digits, fracDigits]

/-- nothing more can be appended to `p` from `r` -/
def Blocked (p : Partial) : List Char → Prop
  | [] => True
  | c :: _ => p.push c = none

/-- **The loop is the grammar.** From the state of a partial numeral, `scan` consumes exactly the longest
continuation the grammar allows, and its counters are the partial numeral's. -/
theorem scan_partial : ∀ (t : List Char) (p : Partial), p.Pre →
    ∃ p' w r, t = w ++ r ∧ p'.render = p.render ++ w ∧ p'.Pre ∧ Blocked p' r ∧ p'.hex = p.hex ∧
      (p.digits ≠ [] → p'.digits ≠ []) ∧
      scan std p.state t p.render.length p.flags = (settle p'.state, p'.render.length, r, p'.flags)
  | [], p, hp => ⟨p, [], [], rfl, by simp, hp, trivial, rfl, id, by simp [scan]⟩
  | c :: t, p, hp => by
    cases hpush : p.push c with
    | none =>
      refine ⟨p, [], c :: t, rfl, by simp, hp, hpush, rfl, id, ?_⟩
      exact scan_cons_none std p.state c t _ _ (by rw [step_push, hpush]; rfl)
    | some p1 =>
      obtain ⟨p', w, r, h1, h2, h3, h4, h5, h6, h7⟩ := scan_partial t p1 (pre_push p p1 c hp hpush)
      refine ⟨p', c :: w, r, by simp [h1], ?_, h3, h4, ?_, ?_, ?_⟩
      · rw [h2, render_push p p1 c hpush]; simp
      · rw [h5, hex_push p p1 c hpush]
      · exact fun hd => h6 (digits_push p p1 c hpush hd)
      · rw [scan_cons_some std p.state p1.state c t _ _ (by rw [step_push, hpush]; rfl), mark_push p p1 c hpush]
        have : p.render.length + 1 = p1.render.length := by rw [render_push p p1 c hpush]; simp
        rw [this]; exact h7

/-- the two ways `lex` enters `lex_number`: a digit, or `.` followed by a digit -/
def startsNumber : List Char → Bool
  | c :: rest => isDigit c || (c == '.' && (match rest with | d :: _ => isDigit d | [] => false))
  | [] => false

/-- what `lex_number` answers, in terms of the maximal grammar prefix `p` and the rest `r` -/
def answer (p : Partial) (r : List Char) : Out :=
  finish std (settle p.state) p.render.length r (malformed p.isHex (settle p.state) p.flags)

/-- **Characterisation.** On every input `lex` hands to it, `lex_number` (PUC-Rio levels) returns the answer
for the *maximal* prefix of the input that the numeral grammar can still extend to (`Blocked`). -/
theorem lex_partial (t : List Char) (h : startsNumber t = true) :
    ∃ p r, p.Pre ∧ t = p.render ++ r ∧ Blocked p r ∧ (p.hex = none → p.digits ≠ []) ∧
      lexNumber std t = some (answer p r) := by
  cases t with
  | nil => simp [startsNumber] at h
  | cons first rest =>
    -- run the induction from a start state and repackage
    have run : ∀ (p0 : Partial) (rest0 : List Char) (st : St) (n : Nat), p0.Pre → st = p0.state →
        n = p0.render.length → p0.flags = ⟨false, false⟩ → (p0.hex = none → p0.digits ≠ []) →
        decide (st = .hex) = p0.isHex →
        first :: rest = p0.render ++ rest0 →
        (let (st', n', rest'', f) := scan std st rest0 n ⟨false, false⟩
         some (finish std st' n' rest'' (malformed (decide (st = .hex)) st' f))) = lexNumber std (first :: rest) →
        ∃ p r, p.Pre ∧ first :: rest = p.render ++ r ∧ Blocked p r ∧ (p.hex = none → p.digits ≠ []) ∧
          lexNumber std (first :: rest) = some (answer p r) := by
      intro p0 rest0 st n hp hst hn hf hdig hhex htext hlex
      obtain ⟨p', w, r, h1, h2, h3, h4, h5, h6, h7⟩ := scan_partial rest0 p0 hp
      refine ⟨p', r, h3, ?_, h4, ?_, ?_⟩
      · rw [htext, h1, h2]; simp
      · intro hn'; exact h6 (hdig (by rw [← h5]; exact hn'))
      · rw [← hlex, hst, hn, ← hf, h7]
        simp only [answer]
        have : decide (p0.state = .hex) = p'.isHex := by
          rw [← hst, hhex]; simp [Partial.isHex, h5]
        rw [this]
    by_cases h0 : first = '0'
    · subst h0
      cases rest with
      | nil =>
        refine run ⟨none, ['0'], none, none⟩ [] .int 1 (by simp [Partial.Pre, Partial.isHex, hexOk, fracAll, isDigit])
          rfl rfl rfl (by simp [Partial.digits]) rfl rfl ?_
        simp [lexNumber, zeroPrefix]
      | cons x rest' =>
        by_cases hx : (x == 'x' || x == 'X') = true
        · refine run ⟨some x, [], none, none⟩ rest' .hex 2
            (by simp [Partial.Pre, Partial.isHex, hexOk, fracAll, hx]) rfl rfl rfl (by simp) rfl rfl ?_
          simp [lexNumber, zeroPrefix, hx]
        · have hx' : (x == 'x') = false ∧ (x == 'X') = false := by
            simp only [Bool.or_eq_true, not_or, Bool.not_eq_true] at hx; exact hx
          refine run ⟨none, ['0'], none, none⟩ (x :: rest') .int 1
            (by simp [Partial.Pre, Partial.isHex, hexOk, fracAll, isDigit]) rfl rfl rfl (by simp [Partial.digits]) rfl rfl ?_
          simp [lexNumber, zeroPrefix, std, hx'.1, hx'.2]
    · have h0' : (first == '0') = false := by simpa using h0
      by_cases hdot : first = '.'
      · subst hdot
        cases rest with
        | nil => simp [startsNumber, isDigit] at h
        | cons d rest' =>
          have hd : isDigit d = true := by simpa [startsNumber, isDigit] using h
          refine run ⟨none, [], some [d], none⟩ rest' .float 2
            (by simp [Partial.Pre, Partial.isHex, hexOk, fracAll, hd]) rfl rfl rfl
            (by simp [Partial.digits, fracDigits]) rfl rfl ?_
          simp only [lexNumber, h0', Bool.false_eq_true, if_false, beq_self_eq_true, if_true]
          rw [scan_cons_some std .float .float d rest' 1 _ (step_float_digit d hd), mark_float]
      · have hdot' : (first == '.') = false := by simpa using hdot
        have hd : isDigit first = true := by
          simpa [startsNumber, hdot'] using h
        refine run ⟨none, [first], none, none⟩ rest .int 1
          (by simp [Partial.Pre, Partial.isHex, hexOk, fracAll, hd]) rfl rfl rfl (by simp [Partial.digits]) rfl rfl ?_
        simp [lexNumber, h0', hdot']

theorem settle_state_expo (p : Partial) (e : Exponent) (h : p.expo = some e) : settle p.state = .expo := by
  obtain ⟨hex, ip, frac, expo⟩ := p
  simp only at h; subst h
  simp only [Partial.state]
  split <;> rfl

theorem kind_of_state (p : Partial) :
    (if settle p.state = .int ∨ settle p.state = .hex then Kind.TkInt else Kind.TkFloat) =
      (if p.toNumeral.isFloat = true then Kind.TkFloat else Kind.TkInt) := by
  obtain ⟨hex, ip, frac, expo⟩ := p
  cases expo with
  | some e =>
    have := settle_state_expo ⟨hex, ip, frac, some e⟩ e rfl
    simp [this, Numeral.isFloat, Partial.toNumeral]
  | none =>
    cases frac <;> cases hex <;> simp [Partial.state, Partial.isHex, settle, Numeral.isFloat, Partial.toNumeral]

theorem hasDigit_iff (ip : List Char) (frac : Option (List Char)) :
    hasDigit ip frac = !(ip ++ fracDigits frac).isEmpty := by
  cases frac with
  | none => simp [hasDigit, fracDigits]
  | some f => cases ip <;> cases f <;> simp [hasDigit, fracDigits]

/-- under the class invariant, "malformed number" is raised exactly when the prefix read is not a complete
numeral -/
theorem malformed_eq_not_wf (p : Partial) (hp : p.Pre) (hdig : p.hex = none → p.digits ≠ []) :
    malformed p.isHex (settle p.state) p.flags = !p.toNumeral.wf := by
  obtain ⟨hex, ip, frac, expo⟩ := p
  obtain ⟨p1, p2, p3, p4⟩ := hp
  have hwf : (Partial.toNumeral ⟨hex, ip, frac, expo⟩).wf = (hasDigit ip frac && expoWf hex.isSome expo) := by
    cases hex with
    | none =>
      simp only [Partial.isHex, Option.isSome_none, Bool.false_eq_true, if_false] at p2 p3
      simp [Partial.toNumeral, Numeral.wf, p2, p3, hexOk]
    | some x =>
      simp only [Partial.isHex, Option.isSome_some, if_true] at p2 p3
      simp only at p1
      simp [Partial.toNumeral, Numeral.wf, p1, p2, p3]
  rw [hwf, hasDigit_iff]
  cases expo with
  | none =>
    cases frac <;> cases hex <;>
      simp_all [malformed, Partial.state, Partial.isHex, Partial.flags, settle, expoWf, Partial.digits, fracDigits]
  | some e =>
    obtain ⟨e1, e2, e3⟩ := p4 e rfl
    have hs := settle_state_expo ⟨hex, ip, frac, some e⟩ e rfl
    have hew : expoWf hex.isSome (some e) = !e.digits.isEmpty := by
      cases hex with
      | none =>
        simp only [Partial.isHex, Option.isSome_none] at e1
        simp [expoWf, Exponent.wf, e1, e2, e3]
      | some x =>
        simp only [Partial.isHex, Option.isSome_some] at e1
        simp [expoWf, Exponent.wf, e1, e2, e3]
    rw [hew, hs]
    cases hex with
    | none =>
      have := hdig rfl
      simp only [Partial.digits] at this
      cases hd : (ip ++ fracDigits frac) with
      | nil => exact absurd hd this
      | cons a b => simp [malformed, Partial.isHex, Partial.flags]
    | some x =>
      cases hd : (ip ++ fracDigits frac) <;> cases he : e.digits <;>
        simp [malformed, Partial.isHex, Partial.flags, hd, he]

/-- **Exact error criterion.** `lex_number` reads the longest prefix `p` the numeral grammar can extend to
and pushes an error iff `p` is not a complete numeral of the manual's grammar or a letter is glued to it. -/
theorem lex_exact (t : List Char) (h : startsNumber t = true) :
    ∃ (p : Partial) (r : List Char), t = p.render ++ r ∧ Blocked p r ∧
      lexNumber std t = some ⟨if p.toNumeral.isFloat then .TkFloat else .TkInt, p.render.length,
        !p.toNumeral.wf || headAlpha r⟩ := by
  obtain ⟨p, r, hp, ht, hb, hdig, hlex⟩ := lex_partial t h
  refine ⟨p, r, ht, hb, ?_⟩
  rw [hlex, answer, finish_std, kind_of_state, malformed_eq_not_wf p hp hdig]

/-- **Soundness.** If `lex_number` (PUC-Rio levels) pushes no error, the token it produced is a numeral of
the manual's grammar — exactly the chars of some well-formed `Numeral`, with the right kind — it is the
longest such prefix (`Blocked`), and no letter is glued to it. -/
theorem lex_sound (t : List Char) (h : startsNumber t = true) (out : Out)
    (hl : lexNumber std t = some out) (he : out.err = false) :
    ∃ (n : Numeral) (r : List Char), n.wf = true ∧ t = n.render ++ r ∧
      out = ⟨if n.isFloat then .TkFloat else .TkInt, n.render.length, false⟩ ∧ headAlpha r = false ∧
      Blocked ⟨n.hex, n.intPart, n.frac, n.expo⟩ r := by
  obtain ⟨p, r, hp, ht, hb, hdig, hlex⟩ := lex_partial t h
  rw [hlex] at hl
  simp only [Option.some.injEq] at hl
  subst hl
  simp only [answer, finish_std] at he ⊢
  simp only [Bool.or_eq_false_iff] at he
  obtain ⟨hmal, halpha⟩ := he
  refine ⟨p.toNumeral, r, ?_, ht, ?_, halpha, hb⟩
  · -- well-formedness from `Pre` + "not malformed"
    obtain ⟨hex, ip, frac, expo⟩ := p
    obtain ⟨p1, p2, p3, p4⟩ := hp
    simp only [malformed, Bool.or_eq_false_iff, Bool.and_eq_false_iff] at hmal
    obtain ⟨hm1, hm2⟩ := hmal
    have hdigits : hasDigit ip frac = true := by
      have hne : ip ++ fracDigits frac ≠ [] := by
        cases hex with
        | none => exact hdig rfl
        | some x =>
          rcases hm1 with hm1 | hm1
          · simp [Partial.isHex] at hm1
          · simp only [Partial.flags, Partial.isHex, Option.isSome_some, Bool.true_and, Bool.not_eq_false',
              Bool.not_eq_true', List.isEmpty_eq_false_iff] at hm1
            exact hm1
      cases frac with
      | none => simpa [hasDigit, fracDigits] using hne
      | some f =>
        simp only [hasDigit, Bool.or_eq_true, Bool.not_eq_true', List.isEmpty_eq_false_iff]
        simp only [fracDigits, ne_eq, List.append_eq_nil_iff, not_and] at hne
        by_cases hi : ip = []
        · exact Or.inr (hne hi)
        · exact Or.inl hi
    have hexpo : expoWf (Option.isSome hex) expo = true := by
      cases expo with
      | none => rfl
      | some e =>
        obtain ⟨e1, e2, e3⟩ := p4 e rfl
        have hs := settle_state_expo ⟨hex, ip, frac, some e⟩ e rfl
        rcases hm2 with hm2 | hm2
        · simp [hs] at hm2
        · simp only [Partial.flags, Bool.not_eq_false', Bool.not_eq_true', List.isEmpty_eq_false_iff] at hm2
          simp only [expoWf, Exponent.wf, Bool.and_eq_true, Bool.not_eq_true', List.isEmpty_eq_false_iff]
          exact ⟨⟨⟨e1, e2⟩, hm2⟩, e3⟩
    simp only [Partial.toNumeral, Numeral.wf, Bool.and_eq_true]
    exact ⟨⟨⟨⟨p1, p2⟩, p3⟩, hdigits⟩, hexpo⟩
  · rw [kind_of_state p, hmal, halpha]
    rfl

end NumLex
