import EmmyVerif.Model.Scope
/-!
# Scope lemmas 1 — the upward visit without positions

`visit` (the model of `visit_visible_decls`) cuts child lists at positions and passes a
`LocalOrAssignStat` cut-off upwards. On a scope stack whose positions are ordered the way a
syntax tree orders them (`Sorted`), every lookup sees the same declarations as the position-free
`vis`, up to declarations that were already offered earlier in the same visit.
-/
namespace Scope

/-- first declaration with a given name -/
def findN (ds : List Decl) (n : Name) : Option Decl := ds.find? fun d => d.name = n

theorem findN_append (a b : List Decl) (n : Name) : findN (a ++ b) n = (findN a n).or (findN b n) := by
  simp [findN, List.find?_append]

theorem findN_nil (n : Name) : findN [] n = none := rfl

/-- a block of declarations that all occur earlier in the list does not change any lookup -/
theorem findN_absorb (seen x rest : List Decl) (n : Name) (h : ∀ d ∈ x, d ∈ seen) :
    findN (seen ++ (x ++ rest)) n = findN (seen ++ rest) n := by
  rw [findN_append, findN_append, findN_append]
  cases hs : findN seen n with
  | some d => simp
  | none =>
    have : findN x n = none := by
      unfold findN at *
      rw [List.find?_eq_none] at *
      intro d hd
      exact hs d (h d hd)
    simp [this]

theorem findN_absorb' (seen x : List Decl) (n : Name) (h : ∀ d ∈ x, d ∈ seen) :
    findN (seen ++ x) n = findN seen n := by
  have := findN_absorb seen x [] n h
  simpa using this

/-- lookups are congruent in the tail -/
theorem findN_congr_tail (a b c : List Decl) (n : Name) (h : findN b n = findN c n) :
    findN (a ++ b) n = findN (a ++ c) n := by
  rw [findN_append, findN_append, h]

theorem findN_congr_head (a b c : List Decl) (n : Name) (h : findN a n = findN b n) :
    findN (a ++ c) n = findN (b ++ c) n := by
  rw [findN_append, findN_append, h]

/-- all declarations the children of a scope offer, closest first -/
def flat (kids : List Node) : List Decl := kids.flatMap contrib

@[simp] theorem flat_nil : flat [] = [] := rfl
@[simp] theorem flat_cons (c : Node) (cs : List Node) : flat (c :: cs) = contrib c ++ flat cs := by
  simp [flat]
theorem flat_append (a b : List Node) : flat (a ++ b) = flat a ++ flat b := by
  simp [flat]

def nodeKind : Node → Option Kind
  | .scope k _ _ => some k
  | .decl _ => none

def nodeKids : Node → List Node
  | .scope _ _ ch => ch
  | .decl _ => []

/-- `searchChildren` when every child lies before the position -/
theorem searchChildren_all (kids : List Node) (q : Nat) (h : ∀ c ∈ kids, c.pos < q) :
    searchChildren kids q = flat kids := by
  unfold searchChildren flat
  cases kids with
  | nil => rfl
  | cons c cs =>
    have : c.pos < q := h c (by simp)
    simp [List.dropWhile, this]

/-- `searchChildren` when the most recent child starts exactly at the position (a cut-off) -/
theorem searchChildren_cut (c : Node) (cs : List Node) (q : Nat) (hc : c.pos = q)
    (h : ∀ c' ∈ cs, c'.pos < q) : searchChildren (c :: cs) q = flat cs := by
  have h1 : searchChildren (c :: cs) q = searchChildren cs q := by
    unfold searchChildren
    simp [List.dropWhile, hc]
  rw [h1, searchChildren_all cs q h]

/-! ## The position-free view -/

/-- what one scope offers on the way up, given the kind of the open child the visit comes from -/
def ownC (f : Frame) (ck : Option Kind) (isEntry : Bool) : List Decl :=
  match f.kind with
  | .localOrAssign => []
  | .repeat_ =>
    match repeatBody f.children with
    | some body => flat body ++ flat f.children
    | none => if isEntry then [] else flat f.children
  | .forRange => if ck = some .normal then flat f.children else []
  | _ => flat f.children

def vis : List Frame → Option Kind → Bool → List Decl
  | [], _, _ => []
  | f :: rest, ck, e => ownC f ck e ++ vis rest (some f.kind) false

/-- positions on a scope stack: everything in the innermost scope (children and grandchildren)
lies before `b`; a scope starts before its open child; outer scopes likewise w.r.t. the start of
the next inner one -/
def Sorted : List Frame → Nat → Prop
  | [], _ => True
  | f :: rest, b =>
    (∀ c ∈ f.children, c.pos < b ∧ ∀ g ∈ nodeKids c, g.pos < b) ∧ Sorted rest f.start ∧
      (∀ g ∈ rest.head?, g.start < f.start)

theorem Sorted.mono {fs : List Frame} {b b' : Nat} (h : Sorted fs b) (hb : b ≤ b') : Sorted fs b' := by
  cases fs with
  | nil => trivial
  | cons f rest =>
    obtain ⟨h1, h2, h3⟩ := h
    refine ⟨fun c hc => ?_, h2, h3⟩
    obtain ⟨a, b⟩ := h1 c hc
    exact ⟨by omega, fun g hg => by have := b g hg; omega⟩

/-- positions along an upward visit that comes from the open child `o` with position `q` -/
def UpOK : List Frame → Node → Nat → Prop
  | [], _, _ => True
  | f :: rest, o, q =>
    (∀ c ∈ f.children, c.pos < o.pos ∧ ∀ g ∈ nodeKids c, g.pos < o.pos) ∧
    (if nodeKind o = some .localOrAssign then o.pos = q else o.pos < q) ∧
    UpOK rest (.scope f.kind f.start (o :: f.children)) (if f.kind = .localOrAssign then f.start else q)

/-- what the parent may offer again because of its open child is already in `seen` -/
def Absorb (o : Node) (q : Nat) (seen : List Decl) : Prop :=
  (nodeKind o ≠ some .localOrAssign → ∀ d ∈ contrib o, d ∈ seen) ∧
  (nodeKind o = some .normal → ∀ d ∈ searchChildren (nodeKids o) q, d ∈ seen)

theorem mem_flat_of_decl_child {d : Decl} {kids : List Node} (h : Node.decl d ∈ kids) : d ∈ flat kids := by
  unfold flat
  rw [List.mem_flatMap]
  exact ⟨_, h, by simp [contrib]⟩

theorem mem_filterMap_declOf {d : Decl} {kids : List Node} (h : d ∈ kids.filterMap declOf) :
    Node.decl d ∈ kids := by
  rw [List.mem_filterMap] at h
  obtain ⟨c, hc, hd⟩ := h
  cases c with
  | decl d' => simp [declOf] at hd; subst hd; exact hc
  | scope _ _ _ => simp [declOf] at hd

/-- the declarations a scope shows as a closed/open child are among those its own search offers -/
theorem childScopeDecls_sub_flat (k : Kind) (kids : List Node) :
    ∀ d ∈ childScopeDecls k kids, d ∈ flat kids := by
  intro d hd
  cases k with
  | funcStat =>
    simp only [childScopeDecls] at hd
    have := mem_filterMap_declOf hd
    exact mem_flat_of_decl_child (by simpa using this)
  | localOrAssign =>
    simp only [childScopeDecls] at hd
    exact mem_flat_of_decl_child (mem_filterMap_declOf hd)
  | normal => simp [childScopeDecls] at hd
  | closure => simp [childScopeDecls] at hd
  | repeat_ => simp [childScopeDecls] at hd
  | forRange => simp [childScopeDecls] at hd

theorem childScopeDecls_scope_cons (k : Kind) (k' : Kind) (st : Nat) (ch kids : List Node) :
    childScopeDecls k (.scope k' st ch :: kids) = childScopeDecls k kids := by
  cases k <;> simp [childScopeDecls, declOf, List.filterMap_cons, List.filterMap_append]

end Scope
