import EmmyVerif.Lemmas.FlowSound
import EmmyVerif.Model.FlowLoop
/-! Soundness of `TypeAt` for `FL` programs whose loop bodies assign nothing (the fragment of `C41_partial`). -/
namespace Flow

mutual
/-- no assignment anywhere in the statement -/
def LStmt.noAssign : LStmt → Bool
  | .assign _ _ => false
  | .probe _ _ => true
  | .ite _ thn rest => thn.noAssign && rest.noAssign
  | .whileDo _ b => b.noAssign
  | .whileTrue b => b.noAssign
  | .repeatUntil b _ => b.noAssign
  | .forNum _ _ b => b.noAssign
  | .forIn _ b => b.noAssign
  | .breakIf _ => true
def LElse.noAssign : LElse → Bool
  | .none => true
  | .els b => b.noAssign
  | .elif _ thn rest => thn.noAssign && rest.noAssign
def LBlock.noAssign : LBlock → Bool
  | .nil => true
  | .cons s rest => s.noAssign && rest.noAssign
end

mutual
/-- every loop body is free of assignments (assignments outside loops are unrestricted) -/
def LStmt.inert : LStmt → Bool
  | .assign _ _ => true
  | .probe _ _ => true
  | .ite _ thn rest => thn.inert && rest.inert
  | .whileDo _ b => b.noAssign
  | .whileTrue b => b.noAssign
  | .repeatUntil b _ => b.noAssign
  | .forNum _ _ b => b.noAssign
  | .forIn _ b => b.noAssign
  | .breakIf _ => true
def LElse.inert : LElse → Bool
  | .none => true
  | .els b => b.inert
  | .elif _ thn rest => thn.inert && rest.inert
def LBlock.inert : LBlock → Bool
  | .nil => true
  | .cons s rest => s.inert && rest.inert
end

mutual
theorem LStmt.noAssign_inert : ∀ (s : LStmt), s.noAssign = true → s.inert = true
  | .assign _ _, h => by simp [LStmt.noAssign] at h
  | .probe _ _, _ => rfl
  | .ite _ thn rest, h => by
    simp only [LStmt.noAssign, Bool.and_eq_true] at h
    simp only [LStmt.inert, Bool.and_eq_true]
    exact ⟨LBlock.noAssign_inert thn h.1, LElse.noAssign_inert rest h.2⟩
  | .whileDo _ _, h => by simpa [LStmt.noAssign, LStmt.inert] using h
  | .whileTrue _, h => by simpa [LStmt.noAssign, LStmt.inert] using h
  | .repeatUntil _ _, h => by simpa [LStmt.noAssign, LStmt.inert] using h
  | .forNum _ _ _, h => by simpa [LStmt.noAssign, LStmt.inert] using h
  | .forIn _ _, h => by simpa [LStmt.noAssign, LStmt.inert] using h
  | .breakIf _, _ => rfl
theorem LElse.noAssign_inert : ∀ (e : LElse), e.noAssign = true → e.inert = true
  | .none, _ => rfl
  | .els b, h => by
    simp only [LElse.noAssign] at h
    simp only [LElse.inert]
    exact LBlock.noAssign_inert b h
  | .elif _ thn rest, h => by
    simp only [LElse.noAssign, Bool.and_eq_true] at h
    simp only [LElse.inert, Bool.and_eq_true]
    exact ⟨LBlock.noAssign_inert thn h.1, LElse.noAssign_inert rest h.2⟩
theorem LBlock.noAssign_inert : ∀ (b : LBlock), b.noAssign = true → b.inert = true
  | .nil, _ => rfl
  | .cons s rest, h => by
    simp only [LBlock.noAssign, Bool.and_eq_true] at h
    simp only [LBlock.inert, Bool.and_eq_true]
    exact ⟨LStmt.noAssign_inert s h.1, LBlock.noAssign_inert rest h.2⟩
end

/-! ### statements without assignments leave the environment unchanged -/

mutual
theorem LStmt.exec_env : ∀ (fuel : Nat) (ρ : Env) (s : LStmt) (r : Out), s.noAssign = true →
    LStmt.exec fuel ρ s = some r → r.env = ρ
  | 0, _, _, _, _, h => by simp [LStmt.exec] at h
  | fuel + 1, ρ, .assign _ _, _, hn, _ => by simp [LStmt.noAssign] at hn
  | fuel + 1, ρ, .probe _ _, r, _, h => by simp only [LStmt.exec, Option.some.injEq] at h; subst h; rfl
  | fuel + 1, ρ, .breakIf _, r, _, h => by simp only [LStmt.exec, Option.some.injEq] at h; subst h; rfl
  | fuel + 1, ρ, .ite c thn rest, r, hn, h => by
    simp only [LStmt.noAssign, Bool.and_eq_true] at hn
    simp only [LStmt.exec] at h
    split at h
    · exact LBlock.exec_env fuel ρ thn r hn.1 h
    · exact LElse.exec_env fuel ρ rest r hn.2 h
  | fuel + 1, ρ, .whileDo c body, r, hn, h => by
    simp only [LStmt.exec] at h
    split at h
    · cases h1 : LBlock.exec fuel ρ body with
      | none => simp [h1] at h
      | some r1 =>
        have e1 := LBlock.exec_env fuel ρ body r1 (by simpa [LStmt.noAssign] using hn) h1
        simp only [h1] at h
        split at h
        · simp only [Option.some.injEq] at h; subst h; exact e1
        · cases h2 : LStmt.exec fuel r1.env (.whileDo c body) with
          | none => simp [h2] at h
          | some r2 =>
            simp only [h2, Option.some.injEq] at h
            subst h
            have := LStmt.exec_env fuel r1.env (.whileDo c body) r2 hn h2
            simp only [this, e1]
    · simp only [Option.some.injEq] at h; subst h; rfl
  | fuel + 1, ρ, .whileTrue body, r, hn, h => by
    simp only [LStmt.exec] at h
    cases h1 : LBlock.exec fuel ρ body with
    | none => simp [h1] at h
    | some r1 =>
      have e1 := LBlock.exec_env fuel ρ body r1 (by simpa [LStmt.noAssign] using hn) h1
      simp only [h1] at h
      split at h
      · simp only [Option.some.injEq] at h; subst h; exact e1
      · cases h2 : LStmt.exec fuel r1.env (.whileTrue body) with
        | none => simp [h2] at h
        | some r2 =>
          simp only [h2, Option.some.injEq] at h
          subst h
          have := LStmt.exec_env fuel r1.env (.whileTrue body) r2 hn h2
          simp only [this, e1]
  | fuel + 1, ρ, .repeatUntil body c, r, hn, h => by
    simp only [LStmt.exec] at h
    cases h1 : LBlock.exec fuel ρ body with
    | none => simp [h1] at h
    | some r1 =>
      have e1 := LBlock.exec_env fuel ρ body r1 (by simpa [LStmt.noAssign] using hn) h1
      simp only [h1] at h
      split at h
      · simp only [Option.some.injEq] at h; subst h; exact e1
      · split at h
        · simp only [Option.some.injEq] at h; subst h; exact e1
        · cases h2 : LStmt.exec fuel r1.env (.repeatUntil body c) with
          | none => simp [h2] at h
          | some r2 =>
            simp only [h2, Option.some.injEq] at h
            subst h
            have := LStmt.exec_env fuel r1.env (.repeatUntil body c) r2 hn h2
            simp only [this, e1]
  | fuel + 1, ρ, .forNum a b body, r, hn, h => by
    simp only [LStmt.exec] at h
    exact LBlock.execN_env fuel _ ρ body r (by simpa [LStmt.noAssign] using hn) h
  | fuel + 1, ρ, .forIn n body, r, hn, h => by
    simp only [LStmt.exec] at h
    exact LBlock.execN_env fuel _ ρ body r (by simpa [LStmt.noAssign] using hn) h
theorem LElse.exec_env : ∀ (fuel : Nat) (ρ : Env) (e : LElse) (r : Out), e.noAssign = true →
    LElse.exec fuel ρ e = some r → r.env = ρ
  | 0, _, _, _, _, h => by simp [LElse.exec] at h
  | fuel + 1, ρ, .none, r, _, h => by simp only [LElse.exec, Option.some.injEq] at h; subst h; rfl
  | fuel + 1, ρ, .els b, r, hn, h => by
    simp only [LElse.exec] at h
    exact LBlock.exec_env fuel ρ b r (by simpa [LElse.noAssign] using hn) h
  | fuel + 1, ρ, .elif c thn rest, r, hn, h => by
    simp only [LElse.noAssign, Bool.and_eq_true] at hn
    simp only [LElse.exec] at h
    split at h
    · exact LBlock.exec_env fuel ρ thn r hn.1 h
    · exact LElse.exec_env fuel ρ rest r hn.2 h
theorem LBlock.exec_env : ∀ (fuel : Nat) (ρ : Env) (b : LBlock) (r : Out), b.noAssign = true →
    LBlock.exec fuel ρ b = some r → r.env = ρ
  | 0, _, _, _, _, h => by simp [LBlock.exec] at h
  | fuel + 1, ρ, .nil, r, _, h => by simp only [LBlock.exec, Option.some.injEq] at h; subst h; rfl
  | fuel + 1, ρ, .cons s rest, r, hn, h => by
    simp only [LBlock.noAssign, Bool.and_eq_true] at hn
    simp only [LBlock.exec] at h
    cases h1 : LStmt.exec fuel ρ s with
    | none => simp [h1] at h
    | some r1 =>
      have e1 := LStmt.exec_env fuel ρ s r1 hn.1 h1
      simp only [h1] at h
      split at h
      · simp only [Option.some.injEq] at h; subst h; exact e1
      · cases h2 : LBlock.exec fuel r1.env rest with
        | none => simp [h2] at h
        | some r2 =>
          simp only [h2, Option.some.injEq] at h
          subst h
          have := LBlock.exec_env fuel r1.env rest r2 hn.2 h2
          simp only [this, e1]
theorem LBlock.execN_env : ∀ (fuel n : Nat) (ρ : Env) (b : LBlock) (r : Out), b.noAssign = true →
    LBlock.execN fuel n ρ b = some r → r.env = ρ
  | 0, _, _, _, _, _, h => by simp [LBlock.execN] at h
  | fuel + 1, 0, ρ, b, r, _, h => by simp only [LBlock.execN, Option.some.injEq] at h; subst h; rfl
  | fuel + 1, n + 1, ρ, b, r, hn, h => by
    simp only [LBlock.execN] at h
    cases h1 : LBlock.exec fuel ρ b with
    | none => simp [h1] at h
    | some r1 =>
      have e1 := LBlock.exec_env fuel ρ b r1 hn h1
      simp only [h1] at h
      split at h
      · simp only [Option.some.injEq] at h; subst h; exact e1
      · cases h2 : LBlock.execN fuel n r1.env b with
        | none => simp [h2] at h
        | some r2 =>
          simp only [h2, Option.some.injEq] at h
          subst h
          have := LBlock.execN_env fuel n r1.env b r2 hn h2
          simp only [this, e1]
end

/-! ### static well-formedness of every flow id produced -/

theorem wf_append_single {l : List Pt} {p : Pt} (hl : ∀ q ∈ l, WfPt q) (hp : WfPt p) : ∀ q ∈ l ++ [p], WfPt q := by
  intro q hq
  rcases List.mem_append.mp hq with h | h
  · exact hl q h
  · simp only [List.mem_cons, List.not_mem_nil, or_false] at h; subst h; exact hp

theorem wf_append {l1 l2 : List Pt} (h1 : ∀ q ∈ l1, WfPt q) (h2 : ∀ q ∈ l2, WfPt q) : ∀ q ∈ l1 ++ l2, WfPt q := by
  intro q hq
  rcases List.mem_append.mp hq with h | h
  · exact h1 q h
  · exact h2 q h

mutual
theorem LStmt.aexec_wf (nv : Nat) (d : Nat → Atom) : ∀ (s : LStmt) (cur : Pt), WfPt cur →
    WfPt (s.aexec nv d cur).out ∧ ∀ p ∈ (s.aexec nv d cur).brks, WfPt p
  | .assign x l, cur, h => by simp only [LStmt.aexec]; exact ⟨assignNode_wf h, by simp⟩
  | .probe id x, cur, h => by simp only [LStmt.aexec]; exact ⟨passNode_wf h, by simp⟩
  | .ite c thn rest, cur, h => by
    simp only [LStmt.aexec]
    have he := edges_wf nv c cur h
    have ht := LBlock.aexec_wf nv d thn _ (finishLabel_wf he.1 h)
    have hr := LElse.aexec_wf nv d rest cur _ h he.2
    refine ⟨finishLabel_wf ?_ h, wf_append ht.2 hr.2⟩
    intro p hp
    simp only [List.mem_cons] at hp
    rcases hp with rfl | hp
    · exact ht.1
    · exact hr.1 p hp
  | .whileDo c body, cur, h => by simp only [LStmt.aexec]; exact ⟨h, by simp⟩
  | .whileTrue body, cur, h => by
    simp only [LStmt.aexec]
    have hb := LBlock.aexec_wf nv d body cur h
    exact ⟨finishLabel_wf (wf_append_single hb.2 hb.1) h, by simp⟩
  | .repeatUntil body c, cur, h => by
    simp only [LStmt.aexec]
    have hb := LBlock.aexec_wf nv d body cur h
    have he := edges_wf nv c _ hb.1
    exact ⟨finishLabel_wf (wf_append hb.2 he.1) hb.1, by simp⟩
  | .forNum a b body, cur, h => by
    simp only [LStmt.aexec]
    have hb := LBlock.aexec_wf nv d body (.node (passNode nv cur)) (passNode_wf h)
    split
    · exact ⟨finishLabel_wf (wf_append_single hb.2 hb.1) h, by simp⟩
    · exact ⟨h, by simp⟩
  | .forIn n body, cur, h => by simp only [LStmt.aexec]; exact ⟨h, by simp⟩
  | .breakIf c, cur, h => by
    simp only [LStmt.aexec]
    have he := edges_wf nv c cur h
    refine ⟨finishLabel_wf he.2 h, ?_⟩
    intro p hp
    simp only [List.mem_cons, List.not_mem_nil, or_false] at hp
    subst hp
    exact passNode_wf (finishLabel_wf he.1 h)
theorem LElse.aexec_wf (nv : Nat) (d : Nat → Atom) : ∀ (e : LElse) (cur : Pt) (ins : List Pt), WfPt cur →
    (∀ p ∈ ins, WfPt p) →
    (∀ p ∈ (e.aexec nv d cur ins).1, WfPt p) ∧ ∀ p ∈ (e.aexec nv d cur ins).2.2, WfPt p
  | .none, cur, ins, h, hi => by
    simp only [LElse.aexec, List.mem_cons, List.not_mem_nil, or_false, forall_eq]
    exact ⟨finishLabel_wf hi h, by simp⟩
  | .els b, cur, ins, h, hi => by
    simp only [LElse.aexec, List.mem_cons, List.not_mem_nil, or_false, forall_eq]
    exact LBlock.aexec_wf nv d b _ (finishLabel_wf hi h)
  | .elif c thn rest, cur, ins, h, hi => by
    simp only [LElse.aexec]
    have hpre := finishLabel_wf hi h
    have he := edges_wf nv c _ hpre
    have ht := LBlock.aexec_wf nv d thn _ (finishLabel_wf he.1 h)
    have hr := LElse.aexec_wf nv d rest cur _ h he.2
    refine ⟨?_, wf_append ht.2 hr.2⟩
    intro p hp
    simp only [List.mem_cons] at hp
    rcases hp with rfl | hp
    · exact ht.1
    · exact hr.1 p hp
theorem LBlock.aexec_wf (nv : Nat) (d : Nat → Atom) : ∀ (b : LBlock) (cur : Pt), WfPt cur →
    WfPt (b.aexec nv d cur).out ∧ ∀ p ∈ (b.aexec nv d cur).brks, WfPt p
  | .nil, cur, h => by simp only [LBlock.aexec]; exact ⟨h, by simp⟩
  | .cons s rest, cur, h => by
    simp only [LBlock.aexec]
    have h1 := LStmt.aexec_wf nv d s cur h
    have h2 := LBlock.aexec_wf nv d rest _ h1.1
    exact ⟨h2.1, wf_append h1.2 h2.2⟩
end

/-! ### dynamic soundness, by induction on the fuel -/

/-- after a statement: the flow id reached is sound — the enclosing loop's break list when a `break` propagates -/
def Good (ρ : Env) (out : Pt) (brks : List Pt) : Bool → Prop
  | true => ∃ p ∈ brks, SoundPt ρ p
  | false => SoundPt ρ out

def GoodE (ρ : Env) (outs : List Pt) (brks : List Pt) : Bool → Prop
  | true => ∃ p ∈ brks, SoundPt ρ p
  | false => ∃ p ∈ outs, SoundPt ρ p

theorem ObsOK.append_same {o1 o2 : List Obs} {a : List AObs} (h1 : ObsOK o1 a) (h2 : ObsOK o2 a) :
    ObsOK (o1 ++ o2) a := by
  intro o ho
  rcases List.mem_append.mp ho with ho | ho
  · exact h1 o ho
  · exact h2 o ho

theorem Good.brk_left {ρ : Env} {out : Pt} {b1 b2 : List Pt} {out' : Pt} (h : Good ρ out b1 true) :
    Good ρ out' (b1 ++ b2) true := by
  obtain ⟨p, hp, hs⟩ := h
  exact ⟨p, List.mem_append.mpr (.inl hp), hs⟩

theorem Good.brk_right {ρ : Env} {out : Pt} {b1 b2 : List Pt} {out' : Pt} (h : Good ρ out b2 true) :
    Good ρ out' (b1 ++ b2) true := by
  obtain ⟨p, hp, hs⟩ := h
  exact ⟨p, List.mem_append.mpr (.inr hp), hs⟩

theorem good_right {ρ : Env} {o2 : Pt} {b1 b2 : List Pt} {b : Bool} (h : Good ρ o2 b2 b) :
    Good ρ o2 (b1 ++ b2) b := by
  cases b
  · exact h
  · exact Good.brk_right (out := o2) h

theorem good_ite_then {ρ : Env} {out : Pt} {outs : List Pt} {cur : Pt} {b1 b2 : List Pt} {b : Bool}
    (h : Good ρ out b1 b) : Good ρ (finishLabel (out :: outs) cur) (b1 ++ b2) b := by
  cases b
  · exact finishLabel_sound ⟨out, by simp, h⟩
  · exact Good.brk_left (out := out) h

theorem good_ite_else {ρ : Env} {o : Pt} {outs : List Pt} {cur : Pt} {b1 b2 : List Pt} {b : Bool}
    (h : GoodE ρ outs b2 b) : Good ρ (finishLabel (o :: outs) cur) (b1 ++ b2) b := by
  cases b
  · obtain ⟨p, hp, hs⟩ := h; exact finishLabel_sound ⟨p, by simp [hp], hs⟩
  · obtain ⟨p, hp, hs⟩ := h; exact ⟨p, List.mem_append.mpr (.inr hp), hs⟩

theorem goodE_then {ρ : Env} {out : Pt} {outs : List Pt} {b1 b2 : List Pt} {b : Bool}
    (h : Good ρ out b1 b) : GoodE ρ (out :: outs) (b1 ++ b2) b := by
  cases b
  · exact ⟨out, by simp, h⟩
  · obtain ⟨p, hp, hs⟩ := h; exact ⟨p, List.mem_append.mpr (.inl hp), hs⟩

theorem goodE_else {ρ : Env} {o : Pt} {outs : List Pt} {b1 b2 : List Pt} {b : Bool}
    (h : GoodE ρ outs b2 b) : GoodE ρ (o :: outs) (b1 ++ b2) b := by
  cases b
  · obtain ⟨p, hp, hs⟩ := h; exact ⟨p, by simp [hp], hs⟩
  · obtain ⟨p, hp, hs⟩ := h; exact ⟨p, List.mem_append.mpr (.inr hp), hs⟩

mutual
theorem LStmt.sound (nv : Nat) (d : Nat → Atom) : ∀ (fuel : Nat) (s : LStmt) (cur : Pt) (ρ : Env) (r : Out),
    s.inert = true → ρ.length = nv → WfPt cur → SoundPt ρ cur → LStmt.exec fuel ρ s = some r →
    Good r.env (s.aexec nv d cur).out (s.aexec nv d cur).brks r.broke ∧ r.env.length = nv ∧
      ObsOK r.obs (s.aexec nv d cur).obs
  | 0, _, _, _, _, _, _, _, _, h => by simp [LStmt.exec] at h
  | fuel + 1, .assign x l, cur, ρ, r, _, hl, hw, hs, h => by
    simp only [LStmt.exec, Option.some.injEq] at h
    subst h
    simp only [LStmt.aexec]
    exact ⟨assignNode_sound hl hw hs, by simpa using hl, ObsOK.nil⟩
  | fuel + 1, .probe id x, cur, ρ, r, _, hl, hw, hs, h => by
    simp only [LStmt.exec, Option.some.injEq] at h
    subst h
    simp only [LStmt.aexec]
    refine ⟨passNode_sound hl hs, hl, ?_⟩
    intro o ho
    simp only [List.mem_cons, List.not_mem_nil, or_false] at ho
    subst ho
    exact ⟨cur.typeOf x, by simp, Res.has_intoType (res_has hs x .normal)⟩
  | fuel + 1, .breakIf c, cur, ρ, r, _, hl, hw, hs, h => by
    simp only [LStmt.exec, Option.some.injEq] at h
    subst h
    simp only [LStmt.aexec]
    have hes := edges_sound nv c cur ρ hl hs
    refine ⟨?_, hl, ObsOK.nil⟩
    cases hc : c.eval ρ
    · exact finishLabel_sound (hes.2 hc)
    · exact ⟨Pt.node (passNode nv (finishLabel (c.edges nv cur).1 cur)), by simp,
        passNode_sound hl (finishLabel_sound (d := cur) (hes.1 hc))⟩
  | fuel + 1, .ite c thn rest, cur, ρ, r, hi, hl, hw, hs, h => by
    simp only [LStmt.inert, Bool.and_eq_true] at hi
    simp only [LStmt.exec] at h
    simp only [LStmt.aexec]
    have hew := edges_wf nv c cur hw
    have hes := edges_sound nv c cur ρ hl hs
    cases hc : c.eval ρ
    · simp only [hc, Bool.false_eq_true, ↓reduceIte] at h
      obtain ⟨hg, hlen, hobs⟩ := LElse.sound nv d fuel rest cur _ ρ r hi.2 hl hw hew.2 (hes.2 hc) h
      exact ⟨good_ite_else hg, hlen, hobs.right⟩
    · simp only [hc, ↓reduceIte] at h
      obtain ⟨hg, hlen, hobs⟩ := LBlock.sound nv d fuel thn _ ρ r hi.1 hl (finishLabel_wf hew.1 hw)
        (finishLabel_sound (d := cur) (hes.1 hc)) h
      exact ⟨good_ite_then hg, hlen, hobs.left⟩
  | fuel + 1, .whileDo c body, cur, ρ, r, hi, hl, hw, hs, h => by
    have hna : body.noAssign = true := by simpa [LStmt.inert] using hi
    have henv := LStmt.exec_env (fuel + 1) ρ (.whileDo c body) r (by simpa [LStmt.noAssign] using hna) h
    simp only [LStmt.exec] at h
    simp only [LStmt.aexec]
    have hew := edges_wf nv c cur hw
    have hes := edges_sound nv c cur ρ hl hs
    refine ⟨?_, by rw [henv]; exact hl, ?_⟩
    · have hb : r.broke = false := by
        split at h
        · cases h1 : LBlock.exec fuel ρ body with
          | none => simp [h1] at h
          | some r1 =>
            simp only [h1] at h
            split at h
            · simp only [Option.some.injEq] at h; subst h; rfl
            · cases h2 : LStmt.exec fuel r1.env (.whileDo c body) with
              | none => simp [h2] at h
              | some r2 => simp only [h2, Option.some.injEq] at h; subst h; rfl
        · simp only [Option.some.injEq] at h; subst h; rfl
      rw [hb, henv]; exact hs
    · split at h
      · rename_i hc
        cases h1 : LBlock.exec fuel ρ body with
        | none => simp [h1] at h
        | some r1 =>
          have e1 := LBlock.exec_env fuel ρ body r1 hna h1
          obtain ⟨_, _, ho1⟩ := LBlock.sound nv d fuel body _ ρ r1 (LBlock.noAssign_inert body hna) hl
            (finishLabel_wf hew.1 hw) (finishLabel_sound (d := cur) (hes.1 hc)) h1
          simp only [h1] at h
          split at h
          · simp only [Option.some.injEq] at h; subst h; exact ho1
          · cases h2 : LStmt.exec fuel r1.env (.whileDo c body) with
            | none => simp [h2] at h
            | some r2 =>
              simp only [h2, Option.some.injEq] at h
              subst h
              obtain ⟨_, _, ho2⟩ := LStmt.sound nv d fuel (.whileDo c body) cur r1.env r2 hi (by rw [e1]; exact hl) hw
                (by rw [e1]; exact hs) h2
              simp only [LStmt.aexec] at ho2
              exact ho1.append_same ho2
      · simp only [Option.some.injEq] at h; subst h; exact ObsOK.nil
  | fuel + 1, .whileTrue body, cur, ρ, r, hi, hl, hw, hs, h => by
    have hna : body.noAssign = true := by simpa [LStmt.inert] using hi
    have henv := LStmt.exec_env (fuel + 1) ρ (.whileTrue body) r (by simpa [LStmt.noAssign] using hna) h
    simp only [LStmt.exec] at h
    cases h1 : LBlock.exec fuel ρ body with
    | none => simp [h1] at h
    | some r1 =>
      have e1 := LBlock.exec_env fuel ρ body r1 hna h1
      obtain ⟨hg1, _, ho1⟩ := LBlock.sound nv d fuel body cur ρ r1 (LBlock.noAssign_inert body hna) hl hw hs h1
      simp only [h1] at h
      split at h
      · rename_i hbr
        simp only [Option.some.injEq] at h
        subst h
        simp only [LStmt.aexec]
        rw [hbr] at hg1
        obtain ⟨p, hp, hps⟩ := hg1
        exact ⟨finishLabel_sound ⟨p, List.mem_append.mpr (.inl hp), hps⟩, by rw [e1]; exact hl, ho1⟩
      · cases h2 : LStmt.exec fuel r1.env (.whileTrue body) with
        | none => simp [h2] at h
        | some r2 =>
          simp only [h2, Option.some.injEq] at h
          subst h
          obtain ⟨hg2, hl2, ho2⟩ := LStmt.sound nv d fuel (.whileTrue body) cur r1.env r2 hi (by rw [e1]; exact hl) hw
            (by rw [e1]; exact hs) h2
          simp only [LStmt.aexec] at hg2 ho2 ⊢
          refine ⟨?_, hl2, ho1.append_same ho2⟩
          cases hb2 : r2.broke
          · rw [hb2] at hg2; exact hg2
          · rw [hb2] at hg2; obtain ⟨p, hp, _⟩ := hg2; simp at hp
  | fuel + 1, .repeatUntil body c, cur, ρ, r, hi, hl, hw, hs, h => by
    have hna : body.noAssign = true := by simpa [LStmt.inert] using hi
    simp only [LStmt.exec] at h
    cases h1 : LBlock.exec fuel ρ body with
    | none => simp [h1] at h
    | some r1 =>
      have e1 := LBlock.exec_env fuel ρ body r1 hna h1
      obtain ⟨hg1, hl1, ho1⟩ := LBlock.sound nv d fuel body cur ρ r1 (LBlock.noAssign_inert body hna) hl hw hs h1
      simp only [h1] at h
      split at h
      · rename_i hbr
        simp only [Option.some.injEq] at h
        subst h
        simp only [LStmt.aexec]
        rw [hbr] at hg1
        obtain ⟨p, hp, hps⟩ := hg1
        exact ⟨finishLabel_sound ⟨p, List.mem_append.mpr (.inl hp), hps⟩, hl1, ho1⟩
      · rename_i hbr
        have hbf : r1.broke = false := by simpa using hbr
        rw [hbf] at hg1
        have hes := edges_sound nv c (body.aexec nv d cur).out r1.env hl1 hg1
        split at h
        · rename_i hc
          simp only [Option.some.injEq] at h
          subst h
          simp only [LStmt.aexec]
          obtain ⟨p, hp, hps⟩ := hes.1 hc
          exact ⟨finishLabel_sound ⟨p, List.mem_append.mpr (.inr hp), hps⟩, hl1, ho1⟩
        · cases h2 : LStmt.exec fuel r1.env (.repeatUntil body c) with
          | none => simp [h2] at h
          | some r2 =>
            simp only [h2, Option.some.injEq] at h
            subst h
            obtain ⟨hg2, hl2, ho2⟩ := LStmt.sound nv d fuel (.repeatUntil body c) cur r1.env r2 hi hl1 hw
              (by rw [e1]; exact hs) h2
            simp only [LStmt.aexec] at hg2 ho2 ⊢
            refine ⟨?_, hl2, ho1.append_same ho2⟩
            cases hb2 : r2.broke
            · rw [hb2] at hg2; exact hg2
            · rw [hb2] at hg2; obtain ⟨p, hp, _⟩ := hg2; simp at hp
  | fuel + 1, .forNum a b body, cur, ρ, r, hi, hl, hw, hs, h => by
    have hna : body.noAssign = true := by simpa [LStmt.inert] using hi
    simp only [LStmt.exec] at h
    obtain ⟨henv, hbr, hobs, hlast⟩ := LBlock.soundN nv d fuel (b + 1 - a) body (.node (passNode nv cur)) ρ r hna hl
      (passNode_wf hw) (passNode_sound hl hs) h
    simp only [LStmt.aexec]
    split
    · rename_i hc
      simp only [Bool.and_eq_true, decide_eq_true_eq] at hc
      refine ⟨?_, by rw [henv]; exact hl, hobs⟩
      rw [hbr, henv]
      rcases hlast (by omega) with ⟨p, hp, hps⟩ | hps
      · exact finishLabel_sound ⟨p, List.mem_append.mpr (.inl hp), hps⟩
      · exact finishLabel_sound ⟨_, List.mem_append.mpr (.inr (by simp)), hps⟩
    · refine ⟨?_, by rw [henv]; exact hl, hobs⟩
      rw [hbr, henv]; exact hs
  | fuel + 1, .forIn n body, cur, ρ, r, hi, hl, hw, hs, h => by
    have hna : body.noAssign = true := by simpa [LStmt.inert] using hi
    simp only [LStmt.exec] at h
    obtain ⟨henv, hbr, hobs, _⟩ := LBlock.soundN nv d fuel n body cur ρ r hna hl hw hs h
    simp only [LStmt.aexec]
    refine ⟨?_, by rw [henv]; exact hl, hobs⟩
    rw [hbr, henv]; exact hs
theorem LElse.sound (nv : Nat) (d : Nat → Atom) : ∀ (fuel : Nat) (e : LElse) (cur : Pt) (ins : List Pt) (ρ : Env)
    (r : Out), e.inert = true → ρ.length = nv → WfPt cur → (∀ p ∈ ins, WfPt p) → (∃ p ∈ ins, SoundPt ρ p) →
    LElse.exec fuel ρ e = some r →
    GoodE r.env (e.aexec nv d cur ins).1 (e.aexec nv d cur ins).2.2 r.broke ∧ r.env.length = nv ∧
      ObsOK r.obs (e.aexec nv d cur ins).2.1
  | 0, _, _, _, _, _, _, _, _, _, _, h => by simp [LElse.exec] at h
  | fuel + 1, .none, cur, ins, ρ, r, _, hl, hw, hwi, hs, h => by
    simp only [LElse.exec, Option.some.injEq] at h
    subst h
    simp only [LElse.aexec]
    exact ⟨⟨finishLabel ins cur, by simp, finishLabel_sound hs⟩, hl, ObsOK.nil⟩
  | fuel + 1, .els b, cur, ins, ρ, r, hi, hl, hw, hwi, hs, h => by
    simp only [LElse.exec] at h
    simp only [LElse.aexec]
    obtain ⟨hg, hlen, hobs⟩ := LBlock.sound nv d fuel b _ ρ r (by simpa [LElse.inert] using hi) hl
      (finishLabel_wf hwi hw) (finishLabel_sound (d := cur) hs) h
    refine ⟨?_, hlen, hobs⟩
    cases hb : r.broke
    · rw [hb] at hg; exact ⟨_, by simp, hg⟩
    · rw [hb] at hg; exact hg
  | fuel + 1, .elif c thn rest, cur, ins, ρ, r, hi, hl, hw, hwi, hs, h => by
    simp only [LElse.inert, Bool.and_eq_true] at hi
    simp only [LElse.exec] at h
    simp only [LElse.aexec]
    have hpw := finishLabel_wf hwi hw
    have hps := finishLabel_sound (d := cur) hs
    have hew := edges_wf nv c _ hpw
    have hes := edges_sound nv c _ ρ hl hps
    cases hc : c.eval ρ
    · simp only [hc, Bool.false_eq_true, ↓reduceIte] at h
      obtain ⟨hg, hlen, hobs⟩ := LElse.sound nv d fuel rest cur _ ρ r hi.2 hl hw hew.2 (hes.2 hc) h
      exact ⟨goodE_else hg, hlen, hobs.right⟩
    · simp only [hc, ↓reduceIte] at h
      obtain ⟨hg, hlen, hobs⟩ := LBlock.sound nv d fuel thn _ ρ r hi.1 hl (finishLabel_wf hew.1 hw)
        (finishLabel_sound (d := cur) (hes.1 hc)) h
      exact ⟨goodE_then hg, hlen, hobs.left⟩
theorem LBlock.sound (nv : Nat) (d : Nat → Atom) : ∀ (fuel : Nat) (b : LBlock) (cur : Pt) (ρ : Env) (r : Out),
    b.inert = true → ρ.length = nv → WfPt cur → SoundPt ρ cur → LBlock.exec fuel ρ b = some r →
    Good r.env (b.aexec nv d cur).out (b.aexec nv d cur).brks r.broke ∧ r.env.length = nv ∧
      ObsOK r.obs (b.aexec nv d cur).obs
  | 0, _, _, _, _, _, _, _, _, h => by simp [LBlock.exec] at h
  | fuel + 1, .nil, cur, ρ, r, _, hl, hw, hs, h => by
    simp only [LBlock.exec, Option.some.injEq] at h
    subst h
    simp only [LBlock.aexec]
    exact ⟨hs, hl, ObsOK.nil⟩
  | fuel + 1, .cons s rest, cur, ρ, r, hi, hl, hw, hs, h => by
    simp only [LBlock.inert, Bool.and_eq_true] at hi
    simp only [LBlock.exec] at h
    simp only [LBlock.aexec]
    cases h1 : LStmt.exec fuel ρ s with
    | none => simp [h1] at h
    | some r1 =>
      obtain ⟨hg1, hl1, ho1⟩ := LStmt.sound nv d fuel s cur ρ r1 hi.1 hl hw hs h1
      simp only [h1] at h
      split at h
      · rename_i hbr
        simp only [Option.some.injEq] at h
        subst h
        rw [hbr] at hg1 ⊢
        exact ⟨Good.brk_left (out := (s.aexec nv d cur).out) hg1, hl1, ho1.left⟩
      · rename_i hbr
        have hbf : r1.broke = false := by simpa using hbr
        rw [hbf] at hg1
        cases h2 : LBlock.exec fuel r1.env rest with
        | none => simp [h2] at h
        | some r2 =>
          simp only [h2, Option.some.injEq] at h
          subst h
          obtain ⟨hg2, hl2, ho2⟩ := LBlock.sound nv d fuel rest _ r1.env r2 hi.2 hl1
            (LStmt.aexec_wf nv d s cur hw).1 hg1 h2
          exact ⟨good_right hg2, hl2, ho1.append ho2⟩
theorem LBlock.soundN (nv : Nat) (d : Nat → Atom) : ∀ (fuel n : Nat) (body : LBlock) (cur : Pt) (ρ : Env) (r : Out),
    body.noAssign = true → ρ.length = nv → WfPt cur → SoundPt ρ cur → LBlock.execN fuel n ρ body = some r →
    r.env = ρ ∧ r.broke = false ∧ ObsOK r.obs (body.aexec nv d cur).obs ∧
      (0 < n → (∃ p ∈ (body.aexec nv d cur).brks, SoundPt ρ p) ∨ SoundPt ρ (body.aexec nv d cur).out)
  | 0, _, _, _, _, _, _, _, _, _, h => by simp [LBlock.execN] at h
  | fuel + 1, 0, body, cur, ρ, r, _, _, _, _, h => by
    simp only [LBlock.execN, Option.some.injEq] at h
    subst h
    exact ⟨rfl, rfl, ObsOK.nil, fun h => absurd h (by omega)⟩
  | fuel + 1, n + 1, body, cur, ρ, r, hna, hl, hw, hs, h => by
    simp only [LBlock.execN] at h
    cases h1 : LBlock.exec fuel ρ body with
    | none => simp [h1] at h
    | some r1 =>
      have e1 := LBlock.exec_env fuel ρ body r1 hna h1
      obtain ⟨hg1, _, ho1⟩ := LBlock.sound nv d fuel body cur ρ r1 (LBlock.noAssign_inert body hna) hl hw hs h1
      simp only [h1] at h
      split at h
      · rename_i hbr
        simp only [Option.some.injEq] at h
        subst h
        rw [hbr, e1] at hg1
        exact ⟨e1, rfl, ho1, fun _ => .inl hg1⟩
      · rename_i hbr
        have hbf : r1.broke = false := by simpa using hbr
        rw [hbf, e1] at hg1
        cases h2 : LBlock.execN fuel n r1.env body with
        | none => simp [h2] at h
        | some r2 =>
          simp only [h2, Option.some.injEq] at h
          subst h
          obtain ⟨e2, _, ho2, hlast⟩ := LBlock.soundN nv d fuel n body cur r1.env r2 hna (by rw [e1]; exact hl) hw
            (by rw [e1]; exact hs) h2
          refine ⟨by rw [e2, e1], rfl, ho1.append_same ho2, fun _ => ?_⟩
          by_cases hn : 0 < n
          · rw [e1] at hlast; exact hlast hn
          · exact .inr hg1
end

end Flow
