import EmmyVerif.Lemmas.FlowSound
import EmmyVerif.Model.FlowLoop
/-! Soundness of `TypeAt` for `FL` programs whose loop bodies assign nothing (the fragment of `C41_partial`). -/
namespace Flow

mutual
/-- no assignment anywhere in the statement -/
def LStmt.noAssign : LStmt → Bool
  | .assign _ _ => false
  | .probe _ _ => true
  | .ite _ thn rest => thn.noAssign && rest.noAssign
  | .whileDo _ b => b.noAssign
  | .whileTrue b => b.noAssign
  | .repeatUntil b _ => b.noAssign
  | .forNum _ _ b => b.noAssign
  | .forIn _ b => b.noAssign
  | .breakIf _ => true
def LElse.noAssign : LElse → Bool
  | .none => true
  | .els b => b.noAssign
  | .elif _ thn rest => thn.noAssign && rest.noAssign
def LBlock.noAssign : LBlock → Bool
  | .nil => true
  | .cons s rest => s.noAssign && rest.noAssign
end

mutual
/-- every loop body is free of assignments (assignments outside loops are unrestricted) -/
def LStmt.inert : LStmt → Bool
  | .assign _ _ => true
  | .probe _ _ => true
  | .ite _ thn rest => thn.inert && rest.inert
  | .whileDo _ b => b.noAssign
  | .whileTrue b => b.noAssign
  | .repeatUntil b _ => b.noAssign
  | .forNum _ _ b => b.noAssign
  | .forIn _ b => b.noAssign
  | .breakIf _ => true
def LElse.inert : LElse → Bool
  | .none => true
  | .els b => b.inert
  | .elif _ thn rest => thn.inert && rest.inert
def LBlock.inert : LBlock → Bool
  | .nil => true
  | .cons s rest => s.inert && rest.inert
end

mutual
theorem LStmt.noAssign_inert : ∀ (s : LStmt), s.noAssign = true → s.inert = true
  | .assign _ _, h => by simp [LStmt.noAssign] at h
  | .probe _ _, _ => rfl
  | .ite _ thn rest, h => by
    simp only [LStmt.noAssign, Bool.and_eq_true] at h
    simp only [LStmt.inert, Bool.and_eq_true]
    exact ⟨LBlock.noAssign_inert thn h.1, LElse.noAssign_inert rest h.2⟩
  | .whileDo _ _, h => by simpa [LStmt.noAssign, LStmt.inert] using h
  | .whileTrue _, h => by simpa [LStmt.noAssign, LStmt.inert] using h
  | .repeatUntil _ _, h => by simpa [LStmt.noAssign, LStmt.inert] using h
  | .forNum _ _ _, h => by simpa [LStmt.noAssign, LStmt.inert] using h
  | .forIn _ _, h => by simpa [LStmt.noAssign, LStmt.inert] using h
  | .breakIf _, _ => rfl
theorem LElse.noAssign_inert : ∀ (e : LElse), e.noAssign = true → e.inert = true
  | .none, _ => rfl
  | .els b, h => by
    simp only [LElse.noAssign] at h
    simp only [LElse.inert]
    exact LBlock.noAssign_inert b h
  | .elif _ thn rest, h => by
    simp only [LElse.noAssign, Bool.and_eq_true] at h
    simp only [LElse.inert, Bool.and_eq_true]
    exact ⟨LBlock.noAssign_inert thn h.1, LElse.noAssign_inert rest h.2⟩
theorem LBlock.noAssign_inert : ∀ (b : LBlock), b.noAssign = true → b.inert = true
  | .nil, _ => rfl
  | .cons s rest, h => by
    simp only [LBlock.noAssign, Bool.and_eq_true] at h
    simp only [LBlock.inert, Bool.and_eq_true]
    exact ⟨LStmt.noAssign_inert s h.1, LBlock.noAssign_inert rest h.2⟩
end

/-! ### statements without assignments leave the environment unchanged -/

mutual
theorem LStmt.exec_env : ∀ (fuel : Nat) (ρ : Env) (s : LStmt) (r : Out), s.noAssign = true →
    LStmt.exec fuel ρ s = some r → r.env = ρ
  | 0, _, _, _, _, h => by simp [LStmt.exec] at h
  | fuel + 1, ρ, .assign _ _, _, hn, _ => by simp [LStmt.noAssign] at hn
  | fuel + 1, ρ, .probe _ _, r, _, h => by simp only [LStmt.exec, Option.some.injEq] at h; subst h; rfl
  | fuel + 1, ρ, .breakIf _, r, _, h => by simp only [LStmt.exec, Option.some.injEq] at h; subst h; rfl
  | fuel + 1, ρ, .ite c thn rest, r, hn, h => by
    simp only [LStmt.noAssign, Bool.and_eq_true] at hn
    simp only [LStmt.exec] at h
    split at h
    · exact LBlock.exec_env fuel ρ thn r hn.1 h
    · exact LElse.exec_env fuel ρ rest r hn.2 h
  | fuel + 1, ρ, .whileDo c body, r, hn, h => by
    simp only [LStmt.exec] at h
    split at h
    · cases h1 : LBlock.exec fuel ρ body with
      | none => simp [h1] at h
      | some r1 =>
        have e1 := LBlock.exec_env fuel ρ body r1 (by simpa [LStmt.noAssign] using hn) h1
        simp only [h1] at h
        split at h
        · simp only [Option.some.injEq] at h; subst h; exact e1
        · cases h2 : LStmt.exec fuel r1.env (.whileDo c body) with
          | none => simp [h2] at h
          | some r2 =>
            simp only [h2, Option.some.injEq] at h
            subst h
            have := LStmt.exec_env fuel r1.env (.whileDo c body) r2 hn h2
            simp only [this, e1]
    · simp only [Option.some.injEq] at h; subst h; rfl
  | fuel + 1, ρ, .whileTrue body, r, hn, h => by
    simp only [LStmt.exec] at h
    cases h1 : LBlock.exec fuel ρ body with
    | none => simp [h1] at h
    | some r1 =>
      have e1 := LBlock.exec_env fuel ρ body r1 (by simpa [LStmt.noAssign] using hn) h1
      simp only [h1] at h
      split at h
      · simp only [Option.some.injEq] at h; subst h; exact e1
      · cases h2 : LStmt.exec fuel r1.env (.whileTrue body) with
        | none => simp [h2] at h
        | some r2 =>
          simp only [h2, Option.some.injEq] at h
          subst h
          have := LStmt.exec_env fuel r1.env (.whileTrue body) r2 hn h2
          simp only [this, e1]
  | fuel + 1, ρ, .repeatUntil body c, r, hn, h => by
    simp only [LStmt.exec] at h
    cases h1 : LBlock.exec fuel ρ body with
    | none => simp [h1] at h
    | some r1 =>
      have e1 := LBlock.exec_env fuel ρ body r1 (by simpa [LStmt.noAssign] using hn) h1
      simp only [h1] at h
      split at h
      · simp only [Option.some.injEq] at h; subst h; exact e1
      · split at h
        · simp only [Option.some.injEq] at h; subst h; exact e1
        · cases h2 : LStmt.exec fuel r1.env (.repeatUntil body c) with
          | none => simp [h2] at h
          | some r2 =>
            simp only [h2, Option.some.injEq] at h
            subst h
            have := LStmt.exec_env fuel r1.env (.repeatUntil body c) r2 hn h2
            simp only [this, e1]
  | fuel + 1, ρ, .forNum a b body, r, hn, h => by
    simp only [LStmt.exec] at h
    exact LBlock.execN_env fuel _ ρ body r (by simpa [LStmt.noAssign] using hn) h
  | fuel + 1, ρ, .forIn n body, r, hn, h => by
    simp only [LStmt.exec] at h
    exact LBlock.execN_env fuel _ ρ body r (by simpa [LStmt.noAssign] using hn) h
theorem LElse.exec_env : ∀ (fuel : Nat) (ρ : Env) (e : LElse) (r : Out), e.noAssign = true →
    LElse.exec fuel ρ e = some r → r.env = ρ
  | 0, _, _, _, _, h => by simp [LElse.exec] at h
  | fuel + 1, ρ, .none, r, _, h => by simp only [LElse.exec, Option.some.injEq] at h; subst h; rfl
  | fuel + 1, ρ, .els b, r, hn, h => by
    simp only [LElse.exec] at h
    exact LBlock.exec_env fuel ρ b r (by simpa [LElse.noAssign] using hn) h
  | fuel + 1, ρ, .elif c thn rest, r, hn, h => by
    simp only [LElse.noAssign, Bool.and_eq_true] at hn
    simp only [LElse.exec] at h
    split at h
    · exact LBlock.exec_env fuel ρ thn r hn.1 h
    · exact LElse.exec_env fuel ρ rest r hn.2 h
theorem LBlock.exec_env : ∀ (fuel : Nat) (ρ : Env) (b : LBlock) (r : Out), b.noAssign = true →
    LBlock.exec fuel ρ b = some r → r.env = ρ
  | 0, _, _, _, _, h => by simp [LBlock.exec] at h
  | fuel + 1, ρ, .nil, r, _, h => by simp only [LBlock.exec, Option.some.injEq] at h; subst h; rfl
  | fuel + 1, ρ, .cons s rest, r, hn, h => by
    simp only [LBlock.noAssign, Bool.and_eq_true] at hn
    simp only [LBlock.exec] at h
    cases h1 : LStmt.exec fuel ρ s with
    | none => simp [h1] at h
    | some r1 =>
      have e1 := LStmt.exec_env fuel ρ s r1 hn.1 h1
      simp only [h1] at h
      split at h
      · simp only [Option.some.injEq] at h; subst h; exact e1
      · cases h2 : LBlock.exec fuel r1.env rest with
        | none => simp [h2] at h
        | some r2 =>
          simp only [h2, Option.some.injEq] at h
          subst h
          have := LBlock.exec_env fuel r1.env rest r2 hn.2 h2
          simp only [this, e1]
theorem LBlock.execN_env : ∀ (fuel n : Nat) (ρ : Env) (b : LBlock) (r : Out), b.noAssign = true →
    LBlock.execN fuel n ρ b = some r → r.env = ρ
  | 0, _, _, _, _, _, h => by simp [LBlock.execN] at h
  | fuel + 1, 0, ρ, b, r, _, h => by simp only [LBlock.execN, Option.some.injEq] at h; subst h; rfl
  | fuel + 1, n + 1, ρ, b, r, hn, h => by
    simp only [LBlock.execN] at h
    cases h1 : LBlock.exec fuel ρ b with
    | none => simp [h1] at h
    | some r1 =>
      have e1 := LBlock.exec_env fuel ρ b r1 hn h1
      simp only [h1] at h
      split at h
      · simp only [Option.some.injEq] at h; subst h; exact e1
      · cases h2 : LBlock.execN fuel n r1.env b with
        | none => simp [h2] at h
        | some r2 =>
          simp only [h2, Option.some.injEq] at h
          subst h
          have := LBlock.execN_env fuel n r1.env b r2 hn h2
          simp only [this, e1]
end

end Flow
