import EmmyVerif.Lemmas.FlowSound
import EmmyVerif.Model.FlowLoop
/-! Soundness of `TypeAt` for `FL` programs whose loop bodies assign nothing (the fragment of `C41_partial`). -/
namespace Flow

variable {W : Nat → Bool} {S : List (Nat × TName)}

mutual
/-- every variable assigned in the statement is in `W` -/
def LStmt.assignsIn (W : Nat → Bool) : LStmt → Bool
  | .assign x _ => W x
  | .assignVar x _ => W x
  | .probe _ _ => true
  | .ite _ thn rest => thn.assignsIn W && rest.assignsIn W
  | .whileDo _ b => b.assignsIn W
  | .whileTrue b => b.assignsIn W
  | .repeatUntil b _ => b.assignsIn W
  | .forNum _ _ b => b.assignsIn W
  | .forIn _ b => b.assignsIn W
  | .breakIf _ => true
def LElse.assignsIn (W : Nat → Bool) : LElse → Bool
  | .none => true
  | .els b => b.assignsIn W
  | .elif _ thn rest => thn.assignsIn W && rest.assignsIn W
def LBlock.assignsIn (W : Nat → Bool) : LBlock → Bool
  | .nil => true
  | .cons s rest => s.assignsIn W && rest.assignsIn W
end

mutual
/-- every variable assigned inside a loop body is in `W`, and `W` is closed under `x = y` (`y ∈ W → x ∈ W`);
assignments outside loops are otherwise unrestricted -/
def LStmt.loopOK (W : Nat → Bool) : LStmt → Bool
  | .assign _ _ => true
  | .assignVar x y => !W y || W x
  | .probe _ _ => true
  | .ite _ thn rest => thn.loopOK W && rest.loopOK W
  | .whileDo _ b => b.assignsIn W
  | .whileTrue b => b.assignsIn W
  | .repeatUntil b _ => b.assignsIn W
  | .forNum _ _ b => b.assignsIn W
  | .forIn _ b => b.assignsIn W
  | .breakIf _ => true
def LElse.loopOK (W : Nat → Bool) : LElse → Bool
  | .none => true
  | .els b => b.loopOK W
  | .elif _ thn rest => thn.loopOK W && rest.loopOK W
def LBlock.loopOK (W : Nat → Bool) : LBlock → Bool
  | .nil => true
  | .cons s rest => s.loopOK W && rest.loopOK W
end

mutual
/-- side condition for stored-type guards (as `Stmt.ok`) -/
def LStmt.ok (S : List (Nat × TName)) : LStmt → Bool
  | .assign x _ => !(S.any fun p => p.1 == x)
  | .assignVar x _ => !(S.any fun p => p.1 == x)
  | .probe _ _ => true
  | .ite c thn rest => c.storedIn S && thn.ok S && rest.ok S
  | .whileDo c b => c.storedIn S && b.ok S
  | .whileTrue b => b.ok S
  | .repeatUntil b c => c.storedIn S && b.ok S
  | .forNum _ _ b => b.ok S
  | .forIn _ b => b.ok S
  | .breakIf c => c.storedIn S
def LElse.ok (S : List (Nat × TName)) : LElse → Bool
  | .none => true
  | .els b => b.ok S
  | .elif c thn rest => c.storedIn S && thn.ok S && rest.ok S
def LBlock.ok (S : List (Nat × TName)) : LBlock → Bool
  | .nil => true
  | .cons s rest => s.ok S && rest.ok S
end

mutual
theorem LStmt.assignsIn_loopOK : ∀ (s : LStmt), s.assignsIn W = true → s.loopOK W = true
  | .assign _ _, _ => rfl
  | .assignVar x y, h => by
    simp only [LStmt.assignsIn] at h
    simp [LStmt.loopOK, h]
  | .probe _ _, _ => rfl
  | .ite _ thn rest, h => by
    simp only [LStmt.assignsIn, Bool.and_eq_true] at h
    simp only [LStmt.loopOK, Bool.and_eq_true]
    exact ⟨LBlock.assignsIn_loopOK thn h.1, LElse.assignsIn_loopOK rest h.2⟩
  | .whileDo _ _, h => by simpa [LStmt.assignsIn, LStmt.loopOK] using h
  | .whileTrue _, h => by simpa [LStmt.assignsIn, LStmt.loopOK] using h
  | .repeatUntil _ _, h => by simpa [LStmt.assignsIn, LStmt.loopOK] using h
  | .forNum _ _ _, h => by simpa [LStmt.assignsIn, LStmt.loopOK] using h
  | .forIn _ _, h => by simpa [LStmt.assignsIn, LStmt.loopOK] using h
  | .breakIf _, _ => rfl
theorem LElse.assignsIn_loopOK : ∀ (e : LElse), e.assignsIn W = true → e.loopOK W = true
  | .none, _ => rfl
  | .els b, h => by
    simp only [LElse.assignsIn] at h
    simp only [LElse.loopOK]
    exact LBlock.assignsIn_loopOK b h
  | .elif _ thn rest, h => by
    simp only [LElse.assignsIn, Bool.and_eq_true] at h
    simp only [LElse.loopOK, Bool.and_eq_true]
    exact ⟨LBlock.assignsIn_loopOK thn h.1, LElse.assignsIn_loopOK rest h.2⟩
theorem LBlock.assignsIn_loopOK : ∀ (b : LBlock), b.assignsIn W = true → b.loopOK W = true
  | .nil, _ => rfl
  | .cons s rest, h => by
    simp only [LBlock.assignsIn, Bool.and_eq_true] at h
    simp only [LBlock.loopOK, Bool.and_eq_true]
    exact ⟨LStmt.assignsIn_loopOK s h.1, LBlock.assignsIn_loopOK rest h.2⟩
end

/-! ### a statement that assigns only variables of `W` leaves every other variable unchanged -/

/-- `ρ'` agrees with `ρ` outside `W` (and has the same length) -/
def Agree (W : Nat → Bool) (ρ' ρ : Env) : Prop := (∀ x, W x = false → ρ'.get x = ρ.get x) ∧ ρ'.length = ρ.length

theorem Agree.refl (ρ : Env) : Agree W ρ ρ := ⟨fun _ _ => rfl, rfl⟩

theorem Agree.trans {ρ1 ρ2 ρ3 : Env} (h12 : Agree W ρ2 ρ1) (h23 : Agree W ρ3 ρ2) : Agree W ρ3 ρ1 :=
  ⟨fun x hx => (h23.1 x hx).trans (h12.1 x hx), h23.2.trans h12.2⟩

theorem soundSt_agree {ρ ρ' : Env} {s : St} (ha : Agree W ρ' ρ) (h : SoundSt W ρ s) : SoundSt W ρ' s := by
  intro x hx m
  rw [ha.1 x hx]
  exact h x hx m

theorem soundPt_agree {ρ ρ' : Env} {p : Pt} (ha : Agree W ρ' ρ) (h : SoundPt W ρ p) : SoundPt W ρ' p := by
  cases p with
  | node s => exact soundSt_agree ha h
  | label ins =>
    obtain ⟨s, hs, hss⟩ := h
    exact ⟨s, hs, soundSt_agree ha hss⟩

mutual
theorem LStmt.exec_agree : ∀ (fuel : Nat) (ρ : Env) (s : LStmt) (r : Out), s.assignsIn W = true →
    LStmt.exec fuel ρ s = some r → Agree W r.env ρ
  | 0, _, _, _, _, h => by simp [LStmt.exec] at h
  | fuel + 1, ρ, .assign y l, r, hn, h => by
    simp only [LStmt.exec, Option.some.injEq] at h
    subst h
    simp only [LStmt.assignsIn] at hn
    refine ⟨fun x hx => ?_, by simp⟩
    rw [env_get_set]
    have : ¬ x = y := by intro he; subst he; rw [hn] at hx; cases hx
    simp [this]
  | fuel + 1, ρ, .assignVar y z, r, hn, h => by
    simp only [LStmt.exec, Option.some.injEq] at h
    subst h
    simp only [LStmt.assignsIn] at hn
    refine ⟨fun x hx => ?_, by simp⟩
    rw [env_get_set]
    have : ¬ x = y := by intro he; subst he; rw [hn] at hx; cases hx
    simp [this]
  | fuel + 1, ρ, .probe _ _, r, _, h => by
    simp only [LStmt.exec, Option.some.injEq] at h; subst h; exact Agree.refl ρ
  | fuel + 1, ρ, .breakIf _, r, _, h => by
    simp only [LStmt.exec, Option.some.injEq] at h; subst h; exact Agree.refl ρ
  | fuel + 1, ρ, .ite c thn rest, r, hn, h => by
    simp only [LStmt.assignsIn, Bool.and_eq_true] at hn
    simp only [LStmt.exec] at h
    split at h
    · exact LBlock.exec_agree fuel ρ thn r hn.1 h
    · exact LElse.exec_agree fuel ρ rest r hn.2 h
  | fuel + 1, ρ, .whileDo c body, r, hn, h => by
    simp only [LStmt.exec] at h
    split at h
    · cases h1 : LBlock.exec fuel ρ body with
      | none => simp [h1] at h
      | some r1 =>
        have e1 := LBlock.exec_agree fuel ρ body r1 (by simpa [LStmt.assignsIn] using hn) h1
        simp only [h1] at h
        split at h
        · simp only [Option.some.injEq] at h; subst h; exact e1
        · cases h2 : LStmt.exec fuel r1.env (.whileDo c body) with
          | none => simp [h2] at h
          | some r2 =>
            simp only [h2, Option.some.injEq] at h
            subst h
            exact e1.trans (LStmt.exec_agree fuel r1.env (.whileDo c body) r2 hn h2)
    · simp only [Option.some.injEq] at h; subst h; exact Agree.refl ρ
  | fuel + 1, ρ, .whileTrue body, r, hn, h => by
    simp only [LStmt.exec] at h
    cases h1 : LBlock.exec fuel ρ body with
    | none => simp [h1] at h
    | some r1 =>
      have e1 := LBlock.exec_agree fuel ρ body r1 (by simpa [LStmt.assignsIn] using hn) h1
      simp only [h1] at h
      split at h
      · simp only [Option.some.injEq] at h; subst h; exact e1
      · cases h2 : LStmt.exec fuel r1.env (.whileTrue body) with
        | none => simp [h2] at h
        | some r2 =>
          simp only [h2, Option.some.injEq] at h
          subst h
          exact e1.trans (LStmt.exec_agree fuel r1.env (.whileTrue body) r2 hn h2)
  | fuel + 1, ρ, .repeatUntil body c, r, hn, h => by
    simp only [LStmt.exec] at h
    cases h1 : LBlock.exec fuel ρ body with
    | none => simp [h1] at h
    | some r1 =>
      have e1 := LBlock.exec_agree fuel ρ body r1 (by simpa [LStmt.assignsIn] using hn) h1
      simp only [h1] at h
      split at h
      · simp only [Option.some.injEq] at h; subst h; exact e1
      · split at h
        · simp only [Option.some.injEq] at h; subst h; exact e1
        · cases h2 : LStmt.exec fuel r1.env (.repeatUntil body c) with
          | none => simp [h2] at h
          | some r2 =>
            simp only [h2, Option.some.injEq] at h
            subst h
            exact e1.trans (LStmt.exec_agree fuel r1.env (.repeatUntil body c) r2 hn h2)
  | fuel + 1, ρ, .forNum a b body, r, hn, h => by
    simp only [LStmt.exec] at h
    exact LBlock.execN_agree fuel _ ρ body r (by simpa [LStmt.assignsIn] using hn) h
  | fuel + 1, ρ, .forIn n body, r, hn, h => by
    simp only [LStmt.exec] at h
    exact LBlock.execN_agree fuel _ ρ body r (by simpa [LStmt.assignsIn] using hn) h
theorem LElse.exec_agree : ∀ (fuel : Nat) (ρ : Env) (e : LElse) (r : Out), e.assignsIn W = true →
    LElse.exec fuel ρ e = some r → Agree W r.env ρ
  | 0, _, _, _, _, h => by simp [LElse.exec] at h
  | fuel + 1, ρ, .none, r, _, h => by
    simp only [LElse.exec, Option.some.injEq] at h; subst h; exact Agree.refl ρ
  | fuel + 1, ρ, .els b, r, hn, h => by
    simp only [LElse.exec] at h
    exact LBlock.exec_agree fuel ρ b r (by simpa [LElse.assignsIn] using hn) h
  | fuel + 1, ρ, .elif c thn rest, r, hn, h => by
    simp only [LElse.assignsIn, Bool.and_eq_true] at hn
    simp only [LElse.exec] at h
    split at h
    · exact LBlock.exec_agree fuel ρ thn r hn.1 h
    · exact LElse.exec_agree fuel ρ rest r hn.2 h
theorem LBlock.exec_agree : ∀ (fuel : Nat) (ρ : Env) (b : LBlock) (r : Out), b.assignsIn W = true →
    LBlock.exec fuel ρ b = some r → Agree W r.env ρ
  | 0, _, _, _, _, h => by simp [LBlock.exec] at h
  | fuel + 1, ρ, .nil, r, _, h => by
    simp only [LBlock.exec, Option.some.injEq] at h; subst h; exact Agree.refl ρ
  | fuel + 1, ρ, .cons s rest, r, hn, h => by
    simp only [LBlock.assignsIn, Bool.and_eq_true] at hn
    simp only [LBlock.exec] at h
    cases h1 : LStmt.exec fuel ρ s with
    | none => simp [h1] at h
    | some r1 =>
      have e1 := LStmt.exec_agree fuel ρ s r1 hn.1 h1
      simp only [h1] at h
      split at h
      · simp only [Option.some.injEq] at h; subst h; exact e1
      · cases h2 : LBlock.exec fuel r1.env rest with
        | none => simp [h2] at h
        | some r2 =>
          simp only [h2, Option.some.injEq] at h
          subst h
          exact e1.trans (LBlock.exec_agree fuel r1.env rest r2 hn.2 h2)
theorem LBlock.execN_agree : ∀ (fuel n : Nat) (ρ : Env) (b : LBlock) (r : Out), b.assignsIn W = true →
    LBlock.execN fuel n ρ b = some r → Agree W r.env ρ
  | 0, _, _, _, _, _, h => by simp [LBlock.execN] at h
  | fuel + 1, 0, ρ, b, r, _, h => by
    simp only [LBlock.execN, Option.some.injEq] at h; subst h; exact Agree.refl ρ
  | fuel + 1, n + 1, ρ, b, r, hn, h => by
    simp only [LBlock.execN] at h
    cases h1 : LBlock.exec fuel ρ b with
    | none => simp [h1] at h
    | some r1 =>
      have e1 := LBlock.exec_agree fuel ρ b r1 hn h1
      simp only [h1] at h
      split at h
      · simp only [Option.some.injEq] at h; subst h; exact e1
      · cases h2 : LBlock.execN fuel n r1.env b with
        | none => simp [h2] at h
        | some r2 =>
          simp only [h2, Option.some.injEq] at h
          subst h
          exact e1.trans (LBlock.execN_agree fuel n r1.env b r2 hn h2)
end

/-! ### dynamic soundness, by induction on the fuel -/

/-- after a statement: the flow id reached is sound — the enclosing loop's break list when a `break` propagates -/
def Good (W : Nat → Bool) (ρ : Env) (out : Pt) (brks : List Pt) : Bool → Prop
  | true => ∃ p ∈ brks, SoundPt W ρ p
  | false => SoundPt W ρ out

def GoodE (W : Nat → Bool) (ρ : Env) (outs : List Pt) (brks : List Pt) : Bool → Prop
  | true => ∃ p ∈ brks, SoundPt W ρ p
  | false => ∃ p ∈ outs, SoundPt W ρ p

theorem ObsOK.append_same {o1 o2 : List Obs} {a : List AObs} (h1 : ObsOK W o1 a) (h2 : ObsOK W o2 a) :
    ObsOK W (o1 ++ o2) a := by
  intro o ho hw
  rcases List.mem_append.mp ho with ho | ho
  · exact h1 o ho hw
  · exact h2 o ho hw

theorem Good.brk_left {ρ : Env} {out : Pt} {b1 b2 : List Pt} {out' : Pt} (h : Good W ρ out b1 true) :
    Good W ρ out' (b1 ++ b2) true := by
  obtain ⟨p, hp, hs⟩ := h
  exact ⟨p, List.mem_append.mpr (.inl hp), hs⟩

theorem Good.brk_right {ρ : Env} {out : Pt} {b1 b2 : List Pt} {out' : Pt} (h : Good W ρ out b2 true) :
    Good W ρ out' (b1 ++ b2) true := by
  obtain ⟨p, hp, hs⟩ := h
  exact ⟨p, List.mem_append.mpr (.inr hp), hs⟩

theorem good_right {ρ : Env} {o2 : Pt} {b1 b2 : List Pt} {b : Bool} (h : Good W ρ o2 b2 b) :
    Good W ρ o2 (b1 ++ b2) b := by
  cases b
  · exact h
  · exact Good.brk_right (out := o2) h

theorem good_ite_then {ρ : Env} {out : Pt} {outs : List Pt} {cur : Pt} {b1 b2 : List Pt} {b : Bool}
    (h : Good W ρ out b1 b) : Good W ρ (finishLabel (out :: outs) cur) (b1 ++ b2) b := by
  cases b
  · exact finishLabel_sound ⟨out, by simp, h⟩
  · exact Good.brk_left (out := out) h

theorem good_ite_else {ρ : Env} {o : Pt} {outs : List Pt} {cur : Pt} {b1 b2 : List Pt} {b : Bool}
    (h : GoodE W ρ outs b2 b) : Good W ρ (finishLabel (o :: outs) cur) (b1 ++ b2) b := by
  cases b
  · obtain ⟨p, hp, hs⟩ := h; exact finishLabel_sound ⟨p, by simp [hp], hs⟩
  · obtain ⟨p, hp, hs⟩ := h; exact ⟨p, List.mem_append.mpr (.inr hp), hs⟩

theorem goodE_then {ρ : Env} {out : Pt} {outs : List Pt} {b1 b2 : List Pt} {b : Bool}
    (h : Good W ρ out b1 b) : GoodE W ρ (out :: outs) (b1 ++ b2) b := by
  cases b
  · exact ⟨out, by simp, h⟩
  · obtain ⟨p, hp, hs⟩ := h; exact ⟨p, List.mem_append.mpr (.inl hp), hs⟩

theorem goodE_else {ρ : Env} {o : Pt} {outs : List Pt} {b1 b2 : List Pt} {b : Bool}
    (h : GoodE W ρ outs b2 b) : GoodE W ρ (o :: outs) (b1 ++ b2) b := by
  cases b
  · obtain ⟨p, hp, hs⟩ := h; exact ⟨p, by simp [hp], hs⟩
  · obtain ⟨p, hp, hs⟩ := h; exact ⟨p, List.mem_append.mpr (.inr hp), hs⟩

/-- what the induction establishes for a finished statement -/
structure Post (W : Nat → Bool) (S : List (Nat × TName)) (nv : Nat) (r : Out) (out : Pt) (brks : List Pt)
    (aobs : List AObs) : Prop where
  good : Good W r.env out brks r.broke
  len : r.env.length = nv
  stored : StoredOK S r.env
  obs : ObsOK W r.obs aobs

mutual
theorem LStmt.sound (nv : Nat) (d : Nat → Atom) : ∀ (fuel : Nat) (s : LStmt) (cur : Pt) (ρ : Env) (r : Out),
    s.loopOK W = true → s.ok S = true → ρ.length = nv → StoredOK S ρ → SoundPt W ρ cur →
    LStmt.exec fuel ρ s = some r →
    Post W S nv r (s.aexec nv d cur).out (s.aexec nv d cur).brks (s.aexec nv d cur).obs
  | 0, _, _, _, _, _, _, _, _, _, h => by simp [LStmt.exec] at h
  | fuel + 1, .assign x l, cur, ρ, r, _, hok, hl, hst, hs, h => by
    simp only [LStmt.exec, Option.some.injEq] at h
    subst h
    simp only [LStmt.ok, Bool.not_eq_eq_eq_not, Bool.not_true] at hok
    simp only [LStmt.aexec]
    exact ⟨assignNode_sound hl hs, by simpa using hl, storedOK_set hst hok, ObsOK.nil⟩
  | fuel + 1, .assignVar x y, cur, ρ, r, hi, hok, hl, hst, hs, h => by
    simp only [LStmt.exec, Option.some.injEq] at h
    subst h
    simp only [LStmt.ok, Bool.not_eq_eq_eq_not, Bool.not_true] at hok
    simp only [LStmt.loopOK, Bool.or_eq_true, Bool.not_eq_eq_eq_not, Bool.not_true] at hi
    simp only [LStmt.aexec]
    refine ⟨assignVarNode_sound hl ?_ hs, by simpa using hl, storedOK_set hst hok, ObsOK.nil⟩
    intro hx
    rcases hi with h1 | h1
    · exact h1
    · rw [hx] at h1; cases h1
  | fuel + 1, .probe id x, cur, ρ, r, _, _, hl, hst, hs, h => by
    simp only [LStmt.exec, Option.some.injEq] at h
    subst h
    simp only [LStmt.aexec]
    exact ⟨passNode_sound hl hs, hl, hst, probe_obs hs⟩
  | fuel + 1, .breakIf c, cur, ρ, r, _, hok, hl, hst, hs, h => by
    simp only [LStmt.exec, Option.some.injEq] at h
    subst h
    simp only [LStmt.ok] at hok
    simp only [LStmt.aexec]
    have hes := edges_sound (W := W) nv c cur ρ hl hst hok hs
    refine ⟨?_, hl, hst, ObsOK.nil⟩
    cases hc : c.eval ρ
    · exact finishLabel_sound (hes.2 hc)
    · exact ⟨Pt.node (passNode nv (finishLabel (c.edges nv cur).1 cur)), by simp,
        passNode_sound hl (finishLabel_sound (d := cur) (hes.1 hc))⟩
  | fuel + 1, .ite c thn rest, cur, ρ, r, hi, hok, hl, hst, hs, h => by
    simp only [LStmt.loopOK, Bool.and_eq_true] at hi
    simp only [LStmt.ok, Bool.and_eq_true] at hok
    simp only [LStmt.exec] at h
    simp only [LStmt.aexec]
    have hes := edges_sound (W := W) nv c cur ρ hl hst hok.1.1 hs
    cases hc : c.eval ρ
    · simp only [hc, Bool.false_eq_true, ↓reduceIte] at h
      obtain ⟨hg, hlen, hst', hobs⟩ :=
        LElse.sound nv d fuel rest cur _ ρ r hi.2 hok.2 hl hst (hes.2 hc) h
      exact ⟨good_ite_else hg, hlen, hst', hobs.right⟩
    · simp only [hc, ↓reduceIte] at h
      obtain ⟨hg, hlen, hst', hobs⟩ := LBlock.sound nv d fuel thn _ ρ r hi.1 hok.1.2 hl hst
        (finishLabel_sound (d := cur) (hes.1 hc)) h
      exact ⟨good_ite_then hg, hlen, hst', hobs.left⟩
  | fuel + 1, .whileDo c body, cur, ρ, r, hi, hok, hl, hst, hs, h => by
    have hna : body.assignsIn W = true := by simpa [LStmt.loopOK] using hi
    simp only [LStmt.ok, Bool.and_eq_true] at hok
    have hag := LStmt.exec_agree (W := W) (fuel + 1) ρ (.whileDo c body) r (by simpa [LStmt.assignsIn] using hna) h
    simp only [LStmt.exec] at h
    simp only [LStmt.aexec]
    have hes := edges_sound (W := W) nv c cur ρ hl hst hok.1 hs
    split at h
    · rename_i hc
      cases h1 : LBlock.exec fuel ρ body with
      | none => simp [h1] at h
      | some r1 =>
        have e1 := LBlock.exec_agree (W := W) fuel ρ body r1 hna h1
        obtain ⟨_, hl1, hst1, ho1⟩ := LBlock.sound nv d fuel body _ ρ r1 (LBlock.assignsIn_loopOK body hna) hok.2
          hl hst (finishLabel_sound (d := cur) (hes.1 hc)) h1
        simp only [h1] at h
        split at h
        · simp only [Option.some.injEq] at h; subst h
          exact ⟨soundPt_agree e1 hs, hl1, hst1, ho1⟩
        · cases h2 : LStmt.exec fuel r1.env (.whileDo c body) with
          | none => simp [h2] at h
          | some r2 =>
            simp only [h2, Option.some.injEq] at h
            subst h
            obtain ⟨_, hl2, hst2, ho2⟩ := LStmt.sound nv d fuel (.whileDo c body) cur r1.env r2 hi
              (by simp [LStmt.ok, hok.1, hok.2]) hl1 hst1 (soundPt_agree e1 hs) h2
            simp only [LStmt.aexec] at ho2
            exact ⟨soundPt_agree hag hs, hl2, hst2, ho1.append_same ho2⟩
    · simp only [Option.some.injEq] at h; subst h
      exact ⟨hs, hl, hst, ObsOK.nil⟩
  | fuel + 1, .whileTrue body, cur, ρ, r, hi, hok, hl, hst, hs, h => by
    have hna : body.assignsIn W = true := by simpa [LStmt.loopOK] using hi
    simp only [LStmt.ok] at hok
    simp only [LStmt.exec] at h
    cases h1 : LBlock.exec fuel ρ body with
    | none => simp [h1] at h
    | some r1 =>
      have e1 := LBlock.exec_agree (W := W) fuel ρ body r1 hna h1
      obtain ⟨hg1, hl1, hst1, ho1⟩ := LBlock.sound nv d fuel body cur ρ r1 (LBlock.assignsIn_loopOK body hna) hok
        hl hst hs h1
      simp only [h1] at h
      split at h
      · rename_i hbr
        simp only [Option.some.injEq] at h
        subst h
        simp only [LStmt.aexec]
        rw [hbr] at hg1
        obtain ⟨p, hp, hps⟩ := hg1
        exact ⟨finishLabel_sound ⟨p, List.mem_append.mpr (.inl hp), hps⟩, hl1, hst1, ho1⟩
      · cases h2 : LStmt.exec fuel r1.env (.whileTrue body) with
        | none => simp [h2] at h
        | some r2 =>
          simp only [h2, Option.some.injEq] at h
          subst h
          obtain ⟨hg2, hl2, hst2, ho2⟩ := LStmt.sound nv d fuel (.whileTrue body) cur r1.env r2 hi
            (by simpa [LStmt.ok] using hok) hl1 hst1 (soundPt_agree e1 hs) h2
          simp only [LStmt.aexec] at hg2 ho2 ⊢
          refine ⟨?_, hl2, hst2, ho1.append_same ho2⟩
          cases hb2 : r2.broke
          · rw [hb2] at hg2; exact hg2
          · rw [hb2] at hg2; obtain ⟨p, hp, _⟩ := hg2; simp at hp
  | fuel + 1, .repeatUntil body c, cur, ρ, r, hi, hok, hl, hst, hs, h => by
    have hna : body.assignsIn W = true := by simpa [LStmt.loopOK] using hi
    simp only [LStmt.ok, Bool.and_eq_true] at hok
    simp only [LStmt.exec] at h
    cases h1 : LBlock.exec fuel ρ body with
    | none => simp [h1] at h
    | some r1 =>
      have e1 := LBlock.exec_agree (W := W) fuel ρ body r1 hna h1
      obtain ⟨hg1, hl1, hst1, ho1⟩ := LBlock.sound nv d fuel body cur ρ r1 (LBlock.assignsIn_loopOK body hna) hok.2
        hl hst hs h1
      simp only [h1] at h
      split at h
      · rename_i hbr
        simp only [Option.some.injEq] at h
        subst h
        simp only [LStmt.aexec]
        rw [hbr] at hg1
        obtain ⟨p, hp, hps⟩ := hg1
        exact ⟨finishLabel_sound ⟨p, List.mem_append.mpr (.inl hp), hps⟩, hl1, hst1, ho1⟩
      · rename_i hbr
        have hbf : r1.broke = false := by simpa using hbr
        rw [hbf] at hg1
        have hes := edges_sound (W := W) nv c (body.aexec nv d cur).out r1.env hl1 hst1 hok.1 hg1
        split at h
        · rename_i hc
          simp only [Option.some.injEq] at h
          subst h
          simp only [LStmt.aexec]
          obtain ⟨p, hp, hps⟩ := hes.1 hc
          exact ⟨finishLabel_sound ⟨p, List.mem_append.mpr (.inr hp), hps⟩, hl1, hst1, ho1⟩
        · cases h2 : LStmt.exec fuel r1.env (.repeatUntil body c) with
          | none => simp [h2] at h
          | some r2 =>
            simp only [h2, Option.some.injEq] at h
            subst h
            obtain ⟨hg2, hl2, hst2, ho2⟩ := LStmt.sound nv d fuel (.repeatUntil body c) cur r1.env r2 hi
              (by simp [LStmt.ok, hok.1, hok.2]) hl1 hst1 (soundPt_agree e1 hs) h2
            simp only [LStmt.aexec] at hg2 ho2 ⊢
            refine ⟨?_, hl2, hst2, ho1.append_same ho2⟩
            cases hb2 : r2.broke
            · rw [hb2] at hg2; exact hg2
            · rw [hb2] at hg2; obtain ⟨p, hp, _⟩ := hg2; simp at hp
  | fuel + 1, .forNum a b body, cur, ρ, r, hi, hok, hl, hst, hs, h => by
    have hna : body.assignsIn W = true := by simpa [LStmt.loopOK] using hi
    simp only [LStmt.ok] at hok
    simp only [LStmt.exec] at h
    obtain ⟨hag, hbr, hl', hst', hobs, hlast⟩ := LBlock.soundN nv d fuel (b + 1 - a) body
      (.node (passNode nv cur)) ρ r hna hok hl hst (passNode_sound hl hs) h
    simp only [LStmt.aexec]
    split
    · rename_i hc
      simp only [Bool.and_eq_true, decide_eq_true_eq] at hc
      refine ⟨?_, hl', hst', hobs⟩
      rw [hbr]
      rcases hlast (by omega) with ⟨p, hp, hps⟩ | hps
      · exact finishLabel_sound ⟨p, List.mem_append.mpr (.inl hp), hps⟩
      · exact finishLabel_sound ⟨_, List.mem_append.mpr (.inr (by simp)), hps⟩
    · refine ⟨?_, hl', hst', hobs⟩
      rw [hbr]; exact soundPt_agree hag hs
  | fuel + 1, .forIn n body, cur, ρ, r, hi, hok, hl, hst, hs, h => by
    have hna : body.assignsIn W = true := by simpa [LStmt.loopOK] using hi
    simp only [LStmt.ok] at hok
    simp only [LStmt.exec] at h
    obtain ⟨hag, hbr, hl', hst', hobs, _⟩ := LBlock.soundN nv d fuel n body cur ρ r hna hok hl hst hs h
    simp only [LStmt.aexec]
    refine ⟨?_, hl', hst', hobs⟩
    rw [hbr]; exact soundPt_agree hag hs
theorem LElse.sound (nv : Nat) (d : Nat → Atom) : ∀ (fuel : Nat) (e : LElse) (cur : Pt) (ins : List Pt) (ρ : Env)
    (r : Out), e.loopOK W = true → e.ok S = true → ρ.length = nv → StoredOK S ρ →
    (∃ p ∈ ins, SoundPt W ρ p) → LElse.exec fuel ρ e = some r →
    GoodE W r.env (e.aexec nv d cur ins).1 (e.aexec nv d cur ins).2.2 r.broke ∧ r.env.length = nv ∧
      StoredOK S r.env ∧ ObsOK W r.obs (e.aexec nv d cur ins).2.1
  | 0, _, _, _, _, _, _, _, _, _, _, h => by simp [LElse.exec] at h
  | fuel + 1, .none, cur, ins, ρ, r, _, _, hl, hst, hs, h => by
    simp only [LElse.exec, Option.some.injEq] at h
    subst h
    simp only [LElse.aexec]
    exact ⟨⟨finishLabel ins cur, by simp, finishLabel_sound hs⟩, hl, hst, ObsOK.nil⟩
  | fuel + 1, .els b, cur, ins, ρ, r, hi, hok, hl, hst, hs, h => by
    simp only [LElse.exec] at h
    simp only [LElse.aexec]
    obtain ⟨hg, hlen, hst', hobs⟩ := LBlock.sound nv d fuel b _ ρ r (by simpa [LElse.loopOK] using hi)
      (by simpa [LElse.ok] using hok) hl hst (finishLabel_sound (d := cur) hs) h
    refine ⟨?_, hlen, hst', hobs⟩
    cases hb : r.broke
    · rw [hb] at hg; exact ⟨_, by simp, hg⟩
    · rw [hb] at hg; exact hg
  | fuel + 1, .elif c thn rest, cur, ins, ρ, r, hi, hok, hl, hst, hs, h => by
    simp only [LElse.loopOK, Bool.and_eq_true] at hi
    simp only [LElse.ok, Bool.and_eq_true] at hok
    simp only [LElse.exec] at h
    simp only [LElse.aexec]
    have hps := finishLabel_sound (d := cur) hs
    have hes := edges_sound (W := W) nv c _ ρ hl hst hok.1.1 hps
    cases hc : c.eval ρ
    · simp only [hc, Bool.false_eq_true, ↓reduceIte] at h
      obtain ⟨hg, hlen, hst', hobs⟩ :=
        LElse.sound nv d fuel rest cur _ ρ r hi.2 hok.2 hl hst (hes.2 hc) h
      exact ⟨goodE_else hg, hlen, hst', hobs.right⟩
    · simp only [hc, ↓reduceIte] at h
      obtain ⟨hg, hlen, hst', hobs⟩ := LBlock.sound nv d fuel thn _ ρ r hi.1 hok.1.2 hl hst
        (finishLabel_sound (d := cur) (hes.1 hc)) h
      exact ⟨goodE_then hg, hlen, hst', hobs.left⟩
theorem LBlock.sound (nv : Nat) (d : Nat → Atom) : ∀ (fuel : Nat) (b : LBlock) (cur : Pt) (ρ : Env) (r : Out),
    b.loopOK W = true → b.ok S = true → ρ.length = nv → StoredOK S ρ → SoundPt W ρ cur →
    LBlock.exec fuel ρ b = some r →
    Post W S nv r (b.aexec nv d cur).out (b.aexec nv d cur).brks (b.aexec nv d cur).obs
  | 0, _, _, _, _, _, _, _, _, _, h => by simp [LBlock.exec] at h
  | fuel + 1, .nil, cur, ρ, r, _, _, hl, hst, hs, h => by
    simp only [LBlock.exec, Option.some.injEq] at h
    subst h
    simp only [LBlock.aexec]
    exact ⟨hs, hl, hst, ObsOK.nil⟩
  | fuel + 1, .cons s rest, cur, ρ, r, hi, hok, hl, hst, hs, h => by
    simp only [LBlock.loopOK, Bool.and_eq_true] at hi
    simp only [LBlock.ok, Bool.and_eq_true] at hok
    simp only [LBlock.exec] at h
    simp only [LBlock.aexec]
    cases h1 : LStmt.exec fuel ρ s with
    | none => simp [h1] at h
    | some r1 =>
      obtain ⟨hg1, hl1, hst1, ho1⟩ := LStmt.sound nv d fuel s cur ρ r1 hi.1 hok.1 hl hst hs h1
      simp only [h1] at h
      split at h
      · rename_i hbr
        simp only [Option.some.injEq] at h
        subst h
        refine ⟨?_, hl1, hst1, ho1.left⟩
        rw [hbr] at hg1 ⊢
        exact Good.brk_left (out := (s.aexec nv d cur).out) hg1
      · rename_i hbr
        have hbf : r1.broke = false := by simpa using hbr
        rw [hbf] at hg1
        cases h2 : LBlock.exec fuel r1.env rest with
        | none => simp [h2] at h
        | some r2 =>
          simp only [h2, Option.some.injEq] at h
          subst h
          obtain ⟨hg2, hl2, hst2, ho2⟩ := LBlock.sound nv d fuel rest _ r1.env r2 hi.2 hok.2 hl1 hst1 hg1 h2
          exact ⟨good_right hg2, hl2, hst2, ho1.append ho2⟩
theorem LBlock.soundN (nv : Nat) (d : Nat → Atom) : ∀ (fuel n : Nat) (body : LBlock) (cur : Pt) (ρ : Env) (r : Out),
    body.assignsIn W = true → body.ok S = true → ρ.length = nv → StoredOK S ρ → SoundPt W ρ cur →
    LBlock.execN fuel n ρ body = some r →
    Agree W r.env ρ ∧ r.broke = false ∧ r.env.length = nv ∧ StoredOK S r.env ∧
      ObsOK W r.obs (body.aexec nv d cur).obs ∧
      (0 < n → (∃ p ∈ (body.aexec nv d cur).brks, SoundPt W r.env p) ∨ SoundPt W r.env (body.aexec nv d cur).out)
  | 0, _, _, _, _, _, _, _, _, _, _, h => by simp [LBlock.execN] at h
  | fuel + 1, 0, body, cur, ρ, r, _, _, hl, hst, _, h => by
    simp only [LBlock.execN, Option.some.injEq] at h
    subst h
    exact ⟨Agree.refl ρ, rfl, hl, hst, ObsOK.nil, fun h => absurd h (by omega)⟩
  | fuel + 1, n + 1, body, cur, ρ, r, hna, hok, hl, hst, hs, h => by
    simp only [LBlock.execN] at h
    cases h1 : LBlock.exec fuel ρ body with
    | none => simp [h1] at h
    | some r1 =>
      have e1 := LBlock.exec_agree (W := W) fuel ρ body r1 hna h1
      obtain ⟨hg1, hl1, hst1, ho1⟩ := LBlock.sound nv d fuel body cur ρ r1 (LBlock.assignsIn_loopOK body hna) hok
        hl hst hs h1
      simp only [h1] at h
      split at h
      · rename_i hbr
        simp only [Option.some.injEq] at h
        subst h
        rw [hbr] at hg1
        exact ⟨e1, rfl, hl1, hst1, ho1, fun _ => .inl hg1⟩
      · rename_i hbr
        have hbf : r1.broke = false := by simpa using hbr
        rw [hbf] at hg1
        cases h2 : LBlock.execN fuel n r1.env body with
        | none => simp [h2] at h
        | some r2 =>
          simp only [h2, Option.some.injEq] at h
          subst h
          obtain ⟨e2, _, hl2, hst2, ho2, hlast⟩ := LBlock.soundN nv d fuel n body cur r1.env r2 hna hok hl1 hst1
            (soundPt_agree e1 hs) h2
          refine ⟨e1.trans e2, rfl, hl2, hst2, ho1.append_same ho2, fun _ => ?_⟩
          by_cases hn : 0 < n
          · exact hlast hn
          · -- the iteration just executed was the last one
            have hn0 : n = 0 := by omega
            subst hn0
            cases fuel with
            | zero => simp [LBlock.execN] at h2
            | succ f =>
              simp only [LBlock.execN, Option.some.injEq] at h2
              subst h2
              exact .inr hg1
end

end Flow
