import EmmyVerif.Lemmas.TyConv2
/-!
# Conversion of the rendered tree — unions

`readFold e hasNil vals`: what the doc type reader produces from the rendered members of a union:
the `|`-fold `binUnion` over the (distinct) non-`nil` members, followed by the `?` reader `mkNullable`.
-/
namespace TyM
open Ty

def readFold (e : Env) (hasNil : Bool) : List Ty → Ty
  | [] => tNil
  | [v] => if hasNil then mkNullable e v else v
  | v0 :: vs => if hasNil then mkNullable e (vs.foldl binUnion v0) else vs.foldl binUnion v0

/-- the renderer's dedupe loop leaves a duplicate-free list alone -/
theorem dedupe_fold_nodup (acc l : List TypeE) (h : (acc ++ l).Nodup) :
    l.foldl (fun (acc : List TypeE) c => if acc.contains c then acc else acc ++ [c]) acc = acc ++ l := by
  induction l generalizing acc with
  | nil => simp
  | cons x xs ih =>
    have hx : x ∉ acc := by
      intro hx
      rw [List.nodup_append] at h
      exact h.2.2 x hx x (List.mem_cons_self) rfl
    have hx' : acc.contains x = false := by simpa using hx
    simp only [List.foldl_cons, hx', Bool.false_eq_true, if_false]
    rw [ih (acc ++ [x]) (by simpa using h)]
    simp

theorem ofRest_foldr (e : Env) (acc : Ty) (ss : List Simple) :
    ofRest e acc (ss.foldr (fun s r => SimpleL.cons s r) SimpleL.nil) = (ss.map (ofSimple e)).foldl binUnion acc := by
  induction ss generalizing acc with
  | nil => rfl
  | cons s ss ih => simp only [List.foldr_cons, ofRest, List.map_cons, List.foldl_cons]; exact ih _

/-- members of a union as the renderer visits them: everything but `nil` -/
def nonNil : TyL → List Ty
  | .nil => []
  | .cons t ts => if t = tNil then nonNil ts else t :: nonNil ts

def cv2All : List Ty → Bool
  | [] => true
  | t :: ts => cv2 t && !t.isUnion && cv2All ts

theorem toCstU_conv (e : Env) (hna : NoAlias e) : (ms : TyL) → cv2All (nonNil ms) = true →
    ∀ (d g lv : Nat) (cs : List TypeE), toCstU d g lv ms = some cs → cs.map (ofType e) = nonNil ms
  | .nil, _, d, g, lv, cs, h => by
    cases d <;> simp [toCstU] at h
    subst h; rfl
  | .cons t ts, hc, d, g, lv, cs, h => by
    cases d with
    | zero => simp [toCstU] at h
    | succ d =>
      simp only [toCstU] at h
      by_cases ht : t = tNil
      · simp only [ht, if_true] at h
        simp only [nonNil, ht, if_true] at hc ⊢
        exact toCstU_conv e hna ts hc d g lv cs h
      · simp only [ht, if_false] at h
        simp only [nonNil, ht, if_false, cv2All, Bool.and_eq_true] at hc ⊢
        cases h1 : toCst d g lv t with
        | none => simp [h1] at h
        | some c =>
          cases h2 : toCstU d g lv ts with
          | none => simp [h1, h2] at h
          | some cs' =>
            simp only [h1, h2, Option.some.injEq] at h
            subst h
            simp only [List.map_cons, conv2 e hna t hc.1.1 d g lv c h1,
              toCstU_conv e hna ts hc.2 d g lv cs' h2]

theorem nodup_of_map_nodup {α β : Type} (f : α → β) (l : List α) (h : (l.map f).Nodup) : l.Nodup := by
  induction l with
  | nil => simp
  | cons x xs ih =>
    simp only [List.map_cons, List.nodup_cons] at h ⊢
    exact ⟨fun hx => h.1 (List.mem_map_of_mem hx), ih h.2⟩

theorem map_ofSimple_asSimple (e : Env) (cs : List TypeE) :
    (cs.map asSimple).map (ofSimple e) = cs.map (ofType e) := by
  induction cs with
  | nil => rfl
  | cons c cs ih => simp [ofSimple_asSimple, ih]

/-- **unions.** The tree laid out for a union of distinct readable members converts to the reader's
fold over those members. -/
theorem conv_union (e : Env) (hna : NoAlias e) (ms : TyL) (hc : cv2All (nonNil ms) = true)
    (hnd : (nonNil ms).Nodup) (d g lv : Nat) (c : TypeE) (h : toCst d g lv (.union ms) = some c) :
    ofType e c = readFold e (ms.toList.any fun t => decide (t = tNil)) (nonNil ms) := by
  cases d with
  | zero => simp [toCst] at h
  | succ d =>
    cases g with
    | zero => simp [toCst] at h
    | succ g =>
      simp only [toCst] at h
      cases hu : toCstU d g (lv + 1) ms with
      | none => simp [hu] at h
      | some cs =>
        have hmap := toCstU_conv e hna ms hc d g (lv + 1) cs hu
        have hcsnd : cs.Nodup := by
          have : (cs.map (ofType e)).Nodup := by rw [hmap]; exact hnd
          exact nodup_of_map_nodup _ _ this
        have hus : cs.foldl (fun (acc : List TypeE) c => if acc.contains c then acc else acc ++ [c]) [] = cs := by
          simpa using dedupe_fold_nodup [] cs (by simpa using hcsnd)
        simp only [hu, hus] at h
        split at h
        · simp at h
        · cases cs with
          | nil =>
            simp only [List.map_nil] at hmap
            rw [← hmap]
            simp only [readFold]
            by_cases hn : (ms.toList.any fun t => decide (t = tNil)) = true
            · simp only [hn, if_true, Option.some.injEq] at h
              subst h
              have hb : builtinName ['n', 'i', 'l'] = some Prim.nil := by decide
              simp [ofType, ofSimple, ofRest, ofPrim, iter, hb, tNil]
            · simp [hn] at h
          | cons c0 rest =>
            cases rest with
            | nil =>
              simp only [List.map_cons, List.map_nil] at hmap
              rw [← hmap]
              cases c0 with
              | mk s r q =>
                simp only [Option.some.injEq] at h
                subst h
                simp only [readFold]
                by_cases hn : (ms.toList.any fun t => decide (t = tNil)) = true
                · simp only [hn, if_true, ofType, iter]
                  rw [iter_comm]
                · simp only [hn, Bool.false_eq_true, if_false, Nat.add_zero]
            | cons c1 rest =>
              simp only [List.map_cons, Option.some.injEq] at hmap h
              subst h
              rw [← hmap]
              have hinner : ofType e (TypeE.mk (asSimple c0)
                  ((asSimple c1 :: rest.map asSimple).foldr (fun s acc => SimpleL.cons s acc) SimpleL.nil) 0)
                  = ((ofType e c1 :: rest.map (ofType e))).foldl binUnion (ofType e c0) := by
                simp only [ofType, iter, ofRest_foldr, ofSimple_asSimple, List.map_cons, map_ofSimple_asSimple]
              have hinner' : ofRest e (ofSimple e (asSimple c0))
                  ((asSimple c1 :: rest.map asSimple).foldr (fun s acc => SimpleL.cons s acc) SimpleL.nil)
                  = ((ofType e c1 :: rest.map (ofType e))).foldl binUnion (ofType e c0) := by
                simpa [ofType, iter] using hinner
              simp only [readFold]
              by_cases hn : (ms.toList.any fun t => decide (t = tNil)) = true
              · simp only [hn, if_true, ofType, ofRest, ofSimple, ofPrim, iter]
                rw [hinner']
              · simp only [hn, Bool.false_eq_true, if_false, ofType, ofRest, ofSimple, ofPrim, iter]
                rw [hinner']

end TyM
