import EmmyVerif.Model.Events
import EmmyVerif.Lemmas.Green
/-! Lemmas: `LuaTreeBuilder::build` hands every `EatToken` to the green builder exactly once, in
order, whatever the `NodeStart`/`NodeEnd`/`parent` structure is. -/
namespace Green

def evOne : MEv → List (TKind × List Char)
  | .tok k t => [(k, t)]
  | _ => []

theorem evLeaves_cons (e : MEv) (es : List MEv) : evLeaves (e :: es) = evOne e ++ evLeaves es := by
  cases e <;> simp [evLeaves, evOne]

@[simp] theorem evLeaves_nil : evLeaves [] = [] := rfl

theorem evLeaves_append (a b : List MEv) : evLeaves (a ++ b) = evLeaves a ++ evLeaves b := by
  induction a with
  | nil => simp
  | cons x xs ih => simp [evLeaves_cons, ih, List.append_assoc]

/-- replacing a `NodeStart` by `none()` does not change the tokens of any suffix -/
theorem evLeaves_drop_set_start (evs : List MEv) (pp j : Nat) (k : NKind) (p : Nat)
    (h : evs[pp]? = some (.start k p)) :
    evLeaves ((evs.set pp noneEv).drop j) = evLeaves (evs.drop j) := by
  induction evs generalizing pp j with
  | nil => simp
  | cons e es ih =>
    cases pp with
    | zero =>
      simp at h; subst h
      cases j with
      | zero => simp [noneEv, evLeaves]
      | succ j' => simp
    | succ pp' =>
      have h' : es[pp']? = some (.start k p) := by simpa using h
      cases j with
      | zero =>
        have := ih pp' 0 h'
        simp only [List.drop_zero] at this
        simp [List.set_cons_succ, evLeaves_cons, this]
      | succ j' =>
        simpa using ih pp' j' h'

theorem chain_spec (fuel : Nat) (evs : List MEv) (pp : Nat) (acc ks : List NKind) (evs' : List MEv)
    (h : chain fuel evs pp acc = some (ks, evs')) :
    evs'.length = evs.length ∧ ∀ j, evLeaves (evs'.drop j) = evLeaves (evs.drop j) := by
  induction fuel generalizing evs pp acc with
  | zero => simp [chain] at h
  | succ fuel ih =>
    unfold chain at h
    split at h
    · cases h; exact ⟨rfl, fun _ => rfl⟩
    · split at h
      · rename_i k p hk
        obtain ⟨h1, h2⟩ := ih _ _ _ h
        refine ⟨by simpa using h1, fun j => ?_⟩
        rw [h2 j, evLeaves_drop_set_start evs pp j k p hk]
      · cases h

theorem drop_of_getElem? (evs : List MEv) (i : Nat) (e : MEv) (h : evs[i]? = some e) :
    evs.drop i = e :: evs.drop (i+1) := by
  induction evs generalizing i with
  | nil => simp at h
  | cons x xs ih =>
    cases i with
    | zero => simp at h; subst h; simp
    | succ i' => simpa using ih i' (by simpa using h)

theorem drop_succ_set (evs : List MEv) (i : Nat) (x : MEv) :
    (evs.set i x).drop (i+1) = evs.drop (i+1) := by
  induction evs generalizing i with
  | nil => simp
  | cons y ys ih =>
    cases i with
    | zero => simp
    | succ i' => simpa using ih i'

/-- the main loop keeps `leaves(children) ++ tokens of the remaining events` invariant -/
theorem run_leaves (n i : Nat) (evs : List MEv) (s s' : St) (hlen : evs.length ≤ n + i)
    (h : run n i evs s = some s') :
    leavesL s'.children = leavesL s.children ++ evLeaves (evs.drop i) := by
  induction n generalizing i evs s with
  | zero =>
    simp [run] at h; subst h
    have : evs.drop i = [] := List.drop_eq_nil_of_le (by omega)
    simp [this]
  | succ n ih =>
    unfold run at h
    split at h
    · rename_i hnone
      cases h
      have : evs.length ≤ i := by simpa using hnone
      simp [List.drop_eq_nil_of_le this]
    · rename_i e he
      rw [drop_of_getElem? evs i e he, evLeaves_cons]
      have hl : (evs.set i noneEv).length ≤ n + (i+1) := by simp; omega
      have hd := drop_succ_set evs i noneEv
      split at h
      · -- trivia
        have := ih (i+1) _ _ hl h
        rw [this, hd]; simp [evOne]
      · -- start none
        have := ih (i+1) _ _ hl h
        rw [this, hd]; simp [evOne]
      · -- start k p
        simp only [] at h
        split at h
        · cases h
        · rename_i ks evs' hc
          obtain ⟨c1, c2⟩ := chain_spec _ _ _ _ _ _ hc
          have hl' : evs'.length ≤ n + (i+1) := by rw [c1]; exact hl
          have := ih (i+1) _ _ hl' h
          rw [this, c2 (i+1), hd, startNodes_children]; simp [evOne]
      · -- fin
        have := ih (i+1) _ _ hl h
        rw [this, hd, finishNode_leaves]; simp [evOne]
      · -- tok
        have := ih (i+1) _ _ hl h
        rw [this, hd, token_leaves]; simp [evOne, List.append_assoc]

theorem build_leaves (evs : List MEv) (r : Elem) (h : build evs = some r) :
    r.leaves = evLeaves evs := by
  unfold build at h
  split at h
  · cases h
  · rename_i s hs
    cases h
    have := run_leaves evs.length 0 evs _ s (by omega) hs
    rw [finish_leaves, finishNode_leaves, this]
    simp [St.empty]

end Green
