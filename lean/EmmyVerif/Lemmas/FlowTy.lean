import EmmyVerif.Model.FlowProg
/-! Soundness of the type algebra of the `Flow` family with respect to `Atom.has` / `Ty.has`. -/
namespace Flow

/-! ### membership through `dedup`, `mkUnion`, `fromVec` -/

theorem mem_dedup {a : Atom} {l : List Atom} : a ∈ dedup l ↔ a ∈ l := by
  induction l with
  | nil => simp [dedup]
  | cons b r ih =>
    simp only [dedup, List.mem_cons, List.mem_filter, ih]
    by_cases h : a = b <;> simp [h]

theorem isBasic_mem_basicOrder {a : Atom} (h : a.isBasic = true) : a ∈ basicOrder := by
  cases a <;> simp_all [Atom.isBasic, basicOrder]

theorem mem_mkUnion {a : Atom} {as : List Atom} : a ∈ mkUnion as ↔ a ∈ as := by
  unfold mkUnion
  split
  · rename_i hall
    simp only [List.mem_filter, List.contains_eq_mem, decide_eq_true_eq]
    constructor
    · exact fun h => h.2
    · intro h
      exact ⟨isBasic_mem_basicOrder (List.all_eq_true.mp hall a h), h⟩
  · split
    · rename_i h2
      simp only [Bool.and_eq_true, beq_iff_eq, List.contains_eq_mem, decide_eq_true_eq] at h2
      obtain ⟨hlen, hnil⟩ := h2
      match as, hlen with
      | [x, y], _ =>
        by_cases hx : x = .nil
        · subst hx
          by_cases hy : y = .nil
          · subst hy; simp [List.find?]
          · have hy' : (y != Atom.nil) = true := by simpa using hy
            have hf : List.find? (fun a => a != Atom.nil) [Atom.nil, y] = some y := by
              simp [List.find?, hy']
            rw [hf]
            simp only [List.mem_cons, List.not_mem_nil, or_false]
            exact Or.comm
        · have hy : y = .nil := by
            simp only [List.mem_cons, List.not_mem_nil, or_false] at hnil
            rcases hnil with h | h
            · exact absurd h.symm hx
            · exact h.symm
          subst hy
          have hx' : (x != Atom.nil) = true := by simpa using hx
          have hf : List.find? (fun a => a != Atom.nil) [x, Atom.nil] = some x := by
            simp [List.find?, hx']
          rw [hf]
    · rfl

theorem mem_fromVec_of {a : Atom} {ts : List Ty} (h : ∃ t ∈ ts, a ∈ t) : a ∈ fromVec ts := by
  obtain ⟨t, ht, hat⟩ := h
  unfold fromVec
  split
  · simp at ht
  · simp only [List.mem_cons, List.not_mem_nil, or_false] at ht; subst ht; exact hat
  · have hd : a ∈ dedup ts.flatten := mem_dedup.mpr (List.mem_flatten.mpr ⟨t, ht, hat⟩)
    split
    · rename_i he; rw [he] at hd; simp at hd
    · rename_i b he; rw [he] at hd; exact hd
    · exact mem_mkUnion.mpr hd

theorem mem_fromVec_sub {a : Atom} {ts : List Ty} (h : a ∈ fromVec ts) : (∃ t ∈ ts, a ∈ t) ∨ a = .nil := by
  unfold fromVec at h
  split at h
  · right; simpa using h
  · left; exact ⟨_, by simp, h⟩
  · split at h
    · right; simpa using h
    · rename_i b he
      have : a ∈ dedup ts.flatten := by rw [he]; exact h
      obtain ⟨t, ht, hat⟩ := List.mem_flatten.mp (mem_dedup.mp this)
      exact .inl ⟨t, ht, hat⟩
    · obtain ⟨t, ht, hat⟩ := List.mem_flatten.mp (mem_dedup.mp (mem_mkUnion.mp h))
      exact .inl ⟨t, ht, hat⟩

theorem mem_fromAtoms_of {a : Atom} {as : List Atom} (h : a ∈ as) : a ∈ fromAtoms as :=
  mem_fromVec_of ⟨[a], List.mem_map.mpr ⟨a, h, rfl⟩, by simp⟩

theorem mem_fromAtoms_sub {a : Atom} {as : List Atom} (h : a ∈ fromAtoms as) : a ∈ as ∨ a = .nil := by
  rcases mem_fromVec_sub h with ⟨t, ht, hat⟩ | h
  · obtain ⟨b, hb, rfl⟩ := List.mem_map.mp ht
    simp only [List.mem_cons, List.not_mem_nil, or_false] at hat
    subst hat; exact .inl hb
  · exact .inr h

/-! ### `Ty.has` -/

theorem Ty.has_iff {t : Ty} {v : Val} : t.has v = true ↔ ∃ a ∈ t, a.has v = true := by
  simp [Ty.has, List.any_eq_true]

theorem Ty.has_of_mem {t : Ty} {a : Atom} {v : Val} (hm : a ∈ t) (h : a.has v = true) : t.has v = true :=
  Ty.has_iff.mpr ⟨a, hm, h⟩

theorem has_single {a : Atom} {v : Val} : Ty.has [a] v = a.has v := by simp [Ty.has]

theorem has_fromAtoms {as : List Atom} {a : Atom} {v : Val} (hm : a ∈ as) (h : a.has v = true) :
    (fromAtoms as).has v = true :=
  Ty.has_of_mem (mem_fromAtoms_of hm) h

theorem has_fromVec {ts : List Ty} {t : Ty} {v : Val} (hm : t ∈ ts) (h : t.has v = true) :
    (fromVec ts).has v = true := by
  obtain ⟨a, ha, hv⟩ := Ty.has_iff.mp h
  exact Ty.has_of_mem (mem_fromVec_of ⟨t, hm, ha⟩) hv

theorem never_has {v : Val} : Atom.has .never v = false := by cases v <;> rfl
theorem unknown_has {v : Val} : Atom.has .unknown v = false := by cases v <;> rfl

/-! ### union -/

theorem has_number_of_isNumber {a : Atom} {v : Val} (hn : a.isNumber = true) (h : a.has v = true) :
    Atom.has .number v = true := by
  cases a <;> cases v <;> simp_all [Atom.isNumber, Atom.has]

theorem has_boolean_of_isBoolean {a : Atom} {v : Val} (hn : a.isBoolean = true) (h : a.has v = true) :
    Atom.has .boolean v = true := by
  cases a <;> cases v <;> simp_all [Atom.isBoolean, Atom.has]

theorem has_string_of_isString {a : Atom} {v : Val} (hn : a.isString = true) (h : a.has v = true) :
    Atom.has .string v = true := by
  cases a <;> cases v <;> simp_all [Atom.isString, Atom.has]

theorem unionAtom_has {l r : Atom} {v : Val} (h : l.has v = true ∨ r.has v = true) :
    (unionAtom l r).has v = true := by
  have hfa : (fromAtoms [l, r]).has v = true := by
    rcases h with h | h
    · exact has_fromAtoms (by simp) h
    · exact has_fromAtoms (by simp) h
  unfold unionAtom
  split
  · rcases h with h | h
    · simp [never_has] at h
    · simpa [has_single] using h
  · rcases h with h | h
    · simpa [has_single] using h
    · simp [never_has] at h
  · rcases h with h | h
    · simpa [has_single] using h
    · cases v <;> simp_all [Atom.has, has_single]
  · rcases h with h | h
    · cases v <;> simp_all [Atom.has, has_single]
    · simpa [has_single] using h
  · split
    · rename_i hc
      simp only [Bool.and_eq_true, beq_iff_eq] at hc
      rcases h with h | h
      · rw [hc.1] at h; simpa [has_single] using h
      · simpa [has_single] using has_number_of_isNumber hc.2 h
    · split
      · rename_i hc
        simp only [Bool.and_eq_true, beq_iff_eq] at hc
        rcases h with h | h
        · simpa [has_single] using has_number_of_isNumber hc.2 h
        · rw [hc.1] at h; simpa [has_single] using h
      · split
        · rcases h with h | h
          · simpa [has_single] using h
          · cases v <;> simp_all [Atom.has, has_single]
        · rcases h with h | h
          · cases v <;> simp_all [Atom.has, has_single]
          · simpa [has_single] using h
        · split
          · rename_i hc
            simp only [Bool.and_eq_true, beq_iff_eq] at hc
            rcases h with h | h
            · rw [hc.1] at h; simpa [has_single] using h
            · simpa [has_single] using has_boolean_of_isBoolean hc.2 h
          · split
            · rename_i hc
              simp only [Bool.and_eq_true, beq_iff_eq] at hc
              rcases h with h | h
              · simpa [has_single] using has_boolean_of_isBoolean hc.2 h
              · rw [hc.1] at h; simpa [has_single] using h
            · split
              · rename_i a b
                split
                · rename_i hab
                  have : a = b := by simpa using hab
                  subst this
                  rcases h with h | h <;> simp_all [has_single]
                · rcases h with h | h <;> (cases v <;> simp_all [Atom.has, has_single])
              · rcases h with h | h
                · simpa [has_single] using h
                · cases v <;> simp_all [Atom.has, has_single]
              · rcases h with h | h
                · cases v <;> simp_all [Atom.has, has_single]
                · simpa [has_single] using h
              · split
                · rename_i hlr
                  have : l = r := by simpa using hlr
                  subst this
                  rcases h with h | h <;> simpa [has_single] using h
                · exact hfa

theorem unionTy_has {s t : Ty} {v : Val} (h : s.has v = true ∨ t.has v = true) :
    (unionTy s t).has v = true := by
  unfold unionTy
  split
  · apply unionAtom_has
    simpa [has_single] using h
  · rename_i r _
    split
    · rename_i hr
      have : r = .never := by simpa using hr
      subst this
      rcases h with h | h
      · exact h
      · simp [has_single, never_has] at h
    · split
      · rename_i hc
        rcases h with h | h
        · exact h
        · rw [has_single] at h
          exact Ty.has_of_mem (by simpa using hc) h
      · rcases h with h | h
        · obtain ⟨a, ha, hv⟩ := Ty.has_iff.mp h
          exact Ty.has_of_mem (mem_mkUnion.mpr (by simp [ha])) hv
        · rw [has_single] at h
          exact Ty.has_of_mem (mem_mkUnion.mpr (by simp)) h
  · rename_i _ l _
    split
    · rename_i hl
      have : l = .never := by simpa using hl
      subst this
      rcases h with h | h
      · simp [has_single, never_has] at h
      · exact h
    · split
      · rename_i hc
        rcases h with h | h
        · rw [has_single] at h
          exact Ty.has_of_mem (by simpa using hc) h
        · exact h
      · rcases h with h | h
        · rw [has_single] at h
          exact Ty.has_of_mem (mem_mkUnion.mpr (by simp)) h
        · obtain ⟨a, ha, hv⟩ := Ty.has_iff.mp h
          exact Ty.has_of_mem (mem_mkUnion.mpr (by simp [ha])) hv
  · split
    · rcases h with h | h
      · exact h
      · rename_i he
        simp only [tyEq, Bool.and_eq_true, List.all_eq_true, List.contains_eq_mem, decide_eq_true_eq] at he
        obtain ⟨a, ha, hv⟩ := Ty.has_iff.mp h
        exact Ty.has_of_mem (he.2 a ha) hv
    · rcases h with h | h
      · exact has_fromVec (by simp) h
      · exact has_fromVec (by simp) h

end Flow
