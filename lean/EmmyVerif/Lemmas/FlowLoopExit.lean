import EmmyVerif.Lemmas.FlowLoopSound
/-! After-loop soundness for variables assigned in the body of an *entered* loop (`while true … break`, statically
entered numeric `for`, `repeat … until c` without `break`), when the variable is not read inside the loop.

Argument across iterations: the body always starts from the abstract pre-loop state `e`. Running the body from the
real environment `ρ_k` of iteration `k` takes the same path as running it from `ρ_k[x := v₁]` (`v₁` = the pre-loop
value of `x`; the body does not read `x`) — non-interference `LStmt.ni`. The second run starts from a state that is
sound at `e`, so the loop-free soundness theorem applies to it. If the iteration assigns `x`, both runs end in the same
environment, which is therefore sound at the body's end / at the `break` taken. If it does not, `x` still holds the value
the previous iteration left, which was sound at the body's end `out` — and `out` is an antecedent of the after-loop label.
Invariant over the iteration count: `ρ_k = ρ₁ ∨ SoundPt W ρ_k out`. -/
namespace Flow

variable {W : Nat → Bool} {S : List (Nat × TName)}

/-! ### reads -/

def Leaf.var : Leaf → Nat
  | .truthy x => x | .typeIs x _ _ => x | .isNil x _ => x | .eqLit x _ _ => x | .stored x _ _ _ => x

def Cond.reads (x : Nat) : Cond → Bool
  | .leaf l => l.var == x
  | .not c => c.reads x
  | .and a b => a.reads x || b.reads x
  | .or a b => a.reads x || b.reads x

mutual
/-- the statement reads `x`: in a condition, as the source of `y = x`, or in a probe -/
def LStmt.reads (x : Nat) : LStmt → Bool
  | .assign _ _ => false
  | .assignVar _ y => y == x
  | .probe _ y => y == x
  | .ite c thn rest => c.reads x || thn.reads x || rest.reads x
  | .whileDo c b => c.reads x || b.reads x
  | .whileTrue b => b.reads x
  | .repeatUntil b c => b.reads x || c.reads x
  | .forNum _ _ b => b.reads x
  | .forIn _ b => b.reads x
  | .breakIf c => c.reads x
def LElse.reads (x : Nat) : LElse → Bool
  | .none => false
  | .els b => b.reads x
  | .elif c thn rest => c.reads x || thn.reads x || rest.reads x
def LBlock.reads (x : Nat) : LBlock → Bool
  | .nil => false
  | .cons s rest => s.reads x || rest.reads x
end

/-! ### environments -/

theorem set_get_self (ρ : Env) (x : Nat) : ρ.set x (ρ.get x) = ρ := by
  apply List.ext_getElem?
  intro i
  simp only [List.getElem?_set, Env.get, List.getD]
  by_cases hxi : x = i
  · subst hxi
    by_cases hl : x < ρ.length
    · simp [hl]
    · simp [hl, List.getElem?_eq_none (Nat.le_of_not_lt hl)]
  · simp [hxi]

theorem set_set_same (ρ : Env) (x : Nat) (w v : Val) : (ρ.set x w).set x v = ρ.set x v := by
  simp [List.set_set]

theorem set_comm' (ρ : Env) {x z : Nat} (w v : Val) (h : x ≠ z) : (ρ.set x w).set z v = (ρ.set z v).set x w := by
  exact List.set_comm w v h

theorem get_set_ne {ρ : Env} {x y : Nat} {w : Val} (h : y ≠ x) : Env.get (ρ.set x w) y = ρ.get y := by
  rw [env_get_set]; simp [h]

theorem leaf_eval_set {ρ : Env} {l : Leaf} {x : Nat} {w : Val} (h : (l.var == x) = false) :
    l.eval (ρ.set x w) = l.eval ρ := by
  have hne : l.var ≠ x := by simpa using h
  cases l <;> simp only [Leaf.var] at hne <;> simp [Leaf.eval, get_set_ne hne]

theorem cond_eval_set {ρ : Env} {x : Nat} {w : Val} : ∀ {c : Cond}, c.reads x = false →
    c.eval (ρ.set x w) = c.eval ρ
  | .leaf l, h => by simp only [Cond.reads] at h; simp [Cond.eval, leaf_eval_set h]
  | .not c, h => by simp only [Cond.reads] at h; simp [Cond.eval, cond_eval_set h]
  | .and a b, h => by
    simp only [Cond.reads, Bool.or_eq_false_iff] at h
    simp [Cond.eval, cond_eval_set h.1, cond_eval_set h.2]
  | .or a b, h => by
    simp only [Cond.reads, Bool.or_eq_false_iff] at h
    simp [Cond.eval, cond_eval_set h.1, cond_eval_set h.2]

/-! ### non-interference: a statement that does not read `x` behaves the same from `ρ[x := w]` -/

/-- relation between the run from `ρ` (`r`) and the run from `ρ[x := w]` (`r'`): same control flow and observations;
either `x` was assigned and the environments coincide, or `x` was not touched -/
def NIRel (x : Nat) (w : Val) (ρ : Env) (r r' : Out) : Prop :=
  r'.broke = r.broke ∧ r'.obs = r.obs ∧ (r'.env = r.env ∨ (r'.env = r.env.set x w ∧ r.env.get x = ρ.get x))

theorem NIRel.same {x : Nat} {w : Val} {ρ : Env} (r : Out) : NIRel x w ρ r r := ⟨rfl, rfl, .inl rfl⟩

/-- chaining: the second statement started from related environments -/
theorem ni_chain {x : Nat} {w : Val} {ρ : Env} {r1 r1' : Out} (h1 : NIRel x w ρ r1 r1')
    {f : Env → Option Out} {r2 : Out} (hf : f r1.env = some r2)
    (ih : ∀ r, f r1.env = some r → ∃ r', f (r1.env.set x w) = some r' ∧ NIRel x w r1.env r r') :
    ∃ r2', f r1'.env = some r2' ∧ r2'.broke = r2.broke ∧ r2'.obs = r2.obs ∧
      (r2'.env = r2.env ∨ (r2'.env = r2.env.set x w ∧ r2.env.get x = ρ.get x)) := by
  rcases h1.2.2 with he | ⟨he, hx⟩
  · exact ⟨r2, by rw [he]; exact hf, rfl, rfl, .inl rfl⟩
  · obtain ⟨r', hr', hb, ho, hd⟩ := ih r2 hf
    refine ⟨r', by rw [he]; exact hr', hb, ho, ?_⟩
    rcases hd with hd | ⟨hd, hx2⟩
    · exact .inl hd
    · exact .inr ⟨hd, hx2.trans hx⟩

mutual
theorem LStmt.ni (x : Nat) (w : Val) : ∀ (fuel : Nat) (ρ : Env) (s : LStmt) (r : Out), s.reads x = false →
    LStmt.exec fuel ρ s = some r → ∃ r', LStmt.exec fuel (ρ.set x w) s = some r' ∧ NIRel x w ρ r r'
  | 0, _, _, _, _, h => by simp [LStmt.exec] at h
  | fuel + 1, ρ, .assign z l, r, _, h => by
    simp only [LStmt.exec, Option.some.injEq] at h
    subst h
    refine ⟨⟨(ρ.set x w).set z l.val, [], false⟩, by simp [LStmt.exec], rfl, rfl, ?_⟩
    by_cases hz : x = z
    · subst hz; exact .inl (set_set_same ρ x w l.val)
    · exact .inr ⟨set_comm' ρ w l.val hz, get_set_ne hz⟩
  | fuel + 1, ρ, .assignVar z y, r, hr, h => by
    simp only [LStmt.exec, Option.some.injEq] at h
    subst h
    have hy : y ≠ x := by simpa [LStmt.reads] using hr
    refine ⟨⟨(ρ.set x w).set z (Env.get (ρ.set x w) y), [], false⟩, by simp [LStmt.exec], rfl, rfl, ?_⟩
    rw [get_set_ne hy]
    by_cases hz : x = z
    · subst hz; exact .inl (set_set_same ρ x w _)
    · exact .inr ⟨set_comm' ρ w _ hz, get_set_ne hz⟩
  | fuel + 1, ρ, .probe id y, r, hr, h => by
    simp only [LStmt.exec, Option.some.injEq] at h
    subst h
    have hy : y ≠ x := by simpa [LStmt.reads] using hr
    exact ⟨⟨ρ.set x w, [(id, y, Env.get (ρ.set x w) y)], false⟩, by simp [LStmt.exec], rfl,
      by simp [get_set_ne hy], .inr ⟨rfl, rfl⟩⟩
  | fuel + 1, ρ, .breakIf c, r, hr, h => by
    simp only [LStmt.exec, Option.some.injEq] at h
    subst h
    have hc : c.reads x = false := by simpa [LStmt.reads] using hr
    exact ⟨⟨ρ.set x w, [], c.eval (ρ.set x w)⟩, by simp [LStmt.exec], by simp [cond_eval_set hc], rfl,
      .inr ⟨rfl, rfl⟩⟩
  | fuel + 1, ρ, .ite c thn rest, r, hr, h => by
    simp only [LStmt.reads, Bool.or_eq_false_iff] at hr
    simp only [LStmt.exec] at h ⊢
    rw [cond_eval_set hr.1.1]
    split at h
    · rename_i hc; simp only [hc, ↓reduceIte]; exact LBlock.ni x w fuel ρ thn r hr.1.2 h
    · rename_i hc; simp only [hc, ↓reduceIte]; exact LElse.ni x w fuel ρ rest r hr.2 h
  | fuel + 1, ρ, .whileDo c body, r, hr, h => by
    have hr' := hr
    simp only [LStmt.reads, Bool.or_eq_false_iff] at hr
    simp only [LStmt.exec] at h ⊢
    rw [cond_eval_set hr.1]
    split at h
    · rename_i hc
      simp only [hc, ↓reduceIte]
      cases h1 : LBlock.exec fuel ρ body with
      | none => simp [h1] at h
      | some r1 =>
        obtain ⟨r1', h1', hn1⟩ := LBlock.ni x w fuel ρ body r1 hr.2 h1
        simp only [h1] at h
        simp only [h1', hn1.1]
        split at h
        · rename_i hb
          simp only [Option.some.injEq] at h; subst h
          simp only [hb, ↓reduceIte]
          exact ⟨_, rfl, rfl, hn1.2.1, hn1.2.2⟩
        · rename_i hb
          simp only [hb, Bool.false_eq_true, ↓reduceIte]
          cases h2 : LStmt.exec fuel r1.env (.whileDo c body) with
          | none => simp [h2] at h
          | some r2 =>
            simp only [h2, Option.some.injEq] at h; subst h
            obtain ⟨r2', h2', hb2, ho2, hd2⟩ := ni_chain hn1 (f := fun ρ' => LStmt.exec fuel ρ' (.whileDo c body)) h2
              (fun r hr2 => LStmt.ni x w fuel r1.env (.whileDo c body) r hr' hr2)
            simp only [h2']
            exact ⟨_, rfl, rfl, by simp [hn1.2.1, ho2], hd2⟩
    · rename_i hc
      simp only [hc, Bool.false_eq_true, ↓reduceIte]
      simp only [Option.some.injEq] at h; subst h
      exact ⟨_, rfl, rfl, rfl, .inr ⟨rfl, rfl⟩⟩
  | fuel + 1, ρ, .whileTrue body, r, hr, h => by
    have hr' := hr
    simp only [LStmt.reads] at hr
    simp only [LStmt.exec] at h ⊢
    cases h1 : LBlock.exec fuel ρ body with
    | none => simp [h1] at h
    | some r1 =>
      obtain ⟨r1', h1', hn1⟩ := LBlock.ni x w fuel ρ body r1 hr h1
      simp only [h1] at h
      simp only [h1', hn1.1]
      split at h
      · rename_i hb
        simp only [Option.some.injEq] at h; subst h
        simp only [hb, ↓reduceIte]
        exact ⟨_, rfl, rfl, hn1.2.1, hn1.2.2⟩
      · rename_i hb
        simp only [hb, Bool.false_eq_true, ↓reduceIte]
        cases h2 : LStmt.exec fuel r1.env (.whileTrue body) with
        | none => simp [h2] at h
        | some r2 =>
          simp only [h2, Option.some.injEq] at h; subst h
          obtain ⟨r2', h2', hb2, ho2, hd2⟩ := ni_chain hn1 (f := fun ρ' => LStmt.exec fuel ρ' (.whileTrue body)) h2
            (fun r hr2 => LStmt.ni x w fuel r1.env (.whileTrue body) r hr' hr2)
          simp only [h2']
          exact ⟨_, rfl, rfl, by simp [hn1.2.1, ho2], hd2⟩
  | fuel + 1, ρ, .repeatUntil body c, r, hr, h => by
    have hr' := hr
    simp only [LStmt.reads, Bool.or_eq_false_iff] at hr
    simp only [LStmt.exec] at h ⊢
    cases h1 : LBlock.exec fuel ρ body with
    | none => simp [h1] at h
    | some r1 =>
      obtain ⟨r1', h1', hn1⟩ := LBlock.ni x w fuel ρ body r1 hr.1 h1
      simp only [h1] at h
      simp only [h1', hn1.1]
      have hce : c.eval r1'.env = c.eval r1.env := by
        rcases hn1.2.2 with he | ⟨he, _⟩
        · rw [he]
        · rw [he]; exact cond_eval_set hr.2
      split at h
      · rename_i hb
        simp only [Option.some.injEq] at h; subst h
        simp only [hb, ↓reduceIte]
        exact ⟨_, rfl, rfl, hn1.2.1, hn1.2.2⟩
      · rename_i hb
        simp only [hb, Bool.false_eq_true, ↓reduceIte, hce]
        split at h
        · rename_i hc
          simp only [Option.some.injEq] at h; subst h
          simp only [hc, ↓reduceIte]
          exact ⟨_, rfl, rfl, hn1.2.1, hn1.2.2⟩
        · rename_i hc
          simp only [hc, Bool.false_eq_true, ↓reduceIte]
          cases h2 : LStmt.exec fuel r1.env (.repeatUntil body c) with
          | none => simp [h2] at h
          | some r2 =>
            simp only [h2, Option.some.injEq] at h; subst h
            obtain ⟨r2', h2', hb2, ho2, hd2⟩ := ni_chain hn1
              (f := fun ρ' => LStmt.exec fuel ρ' (.repeatUntil body c)) h2
              (fun r hr2 => LStmt.ni x w fuel r1.env (.repeatUntil body c) r hr' hr2)
            simp only [h2']
            exact ⟨_, rfl, rfl, by simp [hn1.2.1, ho2], hd2⟩
  | fuel + 1, ρ, .forNum a b body, r, hr, h => by
    simp only [LStmt.reads] at hr
    simp only [LStmt.exec] at h ⊢
    exact LBlock.niN x w fuel _ ρ body r hr h
  | fuel + 1, ρ, .forIn n body, r, hr, h => by
    simp only [LStmt.reads] at hr
    simp only [LStmt.exec] at h ⊢
    exact LBlock.niN x w fuel _ ρ body r hr h
theorem LElse.ni (x : Nat) (w : Val) : ∀ (fuel : Nat) (ρ : Env) (e : LElse) (r : Out), e.reads x = false →
    LElse.exec fuel ρ e = some r → ∃ r', LElse.exec fuel (ρ.set x w) e = some r' ∧ NIRel x w ρ r r'
  | 0, _, _, _, _, h => by simp [LElse.exec] at h
  | fuel + 1, ρ, .none, r, _, h => by
    simp only [LElse.exec, Option.some.injEq] at h
    subst h
    exact ⟨⟨ρ.set x w, [], false⟩, by simp [LElse.exec], rfl, rfl, .inr ⟨rfl, rfl⟩⟩
  | fuel + 1, ρ, .els b, r, hr, h => by
    simp only [LElse.reads] at hr
    simp only [LElse.exec] at h ⊢
    exact LBlock.ni x w fuel ρ b r hr h
  | fuel + 1, ρ, .elif c thn rest, r, hr, h => by
    simp only [LElse.reads, Bool.or_eq_false_iff] at hr
    simp only [LElse.exec] at h ⊢
    rw [cond_eval_set hr.1.1]
    split at h
    · rename_i hc; simp only [hc, ↓reduceIte]; exact LBlock.ni x w fuel ρ thn r hr.1.2 h
    · rename_i hc; simp only [hc, ↓reduceIte]; exact LElse.ni x w fuel ρ rest r hr.2 h
theorem LBlock.ni (x : Nat) (w : Val) : ∀ (fuel : Nat) (ρ : Env) (b : LBlock) (r : Out), b.reads x = false →
    LBlock.exec fuel ρ b = some r → ∃ r', LBlock.exec fuel (ρ.set x w) b = some r' ∧ NIRel x w ρ r r'
  | 0, _, _, _, _, h => by simp [LBlock.exec] at h
  | fuel + 1, ρ, .nil, r, _, h => by
    simp only [LBlock.exec, Option.some.injEq] at h
    subst h
    exact ⟨⟨ρ.set x w, [], false⟩, by simp [LBlock.exec], rfl, rfl, .inr ⟨rfl, rfl⟩⟩
  | fuel + 1, ρ, .cons s rest, r, hr, h => by
    simp only [LBlock.reads, Bool.or_eq_false_iff] at hr
    simp only [LBlock.exec] at h ⊢
    cases h1 : LStmt.exec fuel ρ s with
    | none => simp [h1] at h
    | some r1 =>
      obtain ⟨r1', h1', hn1⟩ := LStmt.ni x w fuel ρ s r1 hr.1 h1
      simp only [h1] at h
      simp only [h1', hn1.1]
      split at h
      · rename_i hb
        simp only [Option.some.injEq] at h; subst h
        simp only [hb, ↓reduceIte]
        exact ⟨r1', rfl, hn1⟩
      · rename_i hb
        simp only [hb, Bool.false_eq_true, ↓reduceIte]
        cases h2 : LBlock.exec fuel r1.env rest with
        | none => simp [h2] at h
        | some r2 =>
          simp only [h2, Option.some.injEq] at h; subst h
          obtain ⟨r2', h2', hb2, ho2, hd2⟩ := ni_chain hn1 (f := fun ρ' => LBlock.exec fuel ρ' rest) h2
            (fun r hr2 => LBlock.ni x w fuel r1.env rest r hr.2 hr2)
          simp only [h2']
          exact ⟨_, rfl, hb2, by simp [hn1.2.1, ho2], hd2⟩
theorem LBlock.niN (x : Nat) (w : Val) : ∀ (fuel n : Nat) (ρ : Env) (b : LBlock) (r : Out), b.reads x = false →
    LBlock.execN fuel n ρ b = some r → ∃ r', LBlock.execN fuel n (ρ.set x w) b = some r' ∧ NIRel x w ρ r r'
  | 0, _, _, _, _, _, h => by simp [LBlock.execN] at h
  | fuel + 1, 0, ρ, b, r, _, h => by
    simp only [LBlock.execN, Option.some.injEq] at h
    subst h
    exact ⟨⟨ρ.set x w, [], false⟩, by simp [LBlock.execN], rfl, rfl, .inr ⟨rfl, rfl⟩⟩
  | fuel + 1, n + 1, ρ, b, r, hr, h => by
    simp only [LBlock.execN] at h ⊢
    cases h1 : LBlock.exec fuel ρ b with
    | none => simp [h1] at h
    | some r1 =>
      obtain ⟨r1', h1', hn1⟩ := LBlock.ni x w fuel ρ b r1 hr h1
      simp only [h1] at h
      simp only [h1', hn1.1]
      split at h
      · rename_i hb
        simp only [Option.some.injEq] at h; subst h
        simp only [hb, ↓reduceIte]
        exact ⟨_, rfl, rfl, hn1.2.1, hn1.2.2⟩
      · rename_i hb
        simp only [hb, Bool.false_eq_true, ↓reduceIte]
        cases h2 : LBlock.execN fuel n r1.env b with
        | none => simp [h2] at h
        | some r2 =>
          simp only [h2, Option.some.injEq] at h; subst h
          obtain ⟨r2', h2', hb2, ho2, hd2⟩ := ni_chain hn1 (f := fun ρ' => LBlock.execN fuel n ρ' b) h2
            (fun r hr2 => LBlock.niN x w fuel n r1.env b r hr hr2)
          simp only [h2']
          exact ⟨_, rfl, rfl, by simp [hn1.2.1, ho2], hd2⟩
end

/-! ### one iteration of the body of an entered loop -/

/-- `W` extended by `x` -/
def withVar (W : Nat → Bool) (x : Nat) : Nat → Bool := fun z => W z || z == x

/-- side conditions on the body of an entered loop that may assign `x ∉ W`: apart from `x` it assigns only variables of
`W`; it does not read `x`; `x` is not assigned inside a nested loop and every `x = y` has `y ∉ W` (`loopOK W`) -/
structure SafeBody (W : Nat → Bool) (S : List (Nat × TName)) (x : Nat) (B : LBlock) : Prop where
  loopOK : B.loopOK W = true
  ok : B.ok S = true
  assigns : B.assignsIn (withVar W x) = true
  unread : B.reads x = false

/-- invariant at the start of every iteration (`ρ1` = environment before the loop, `out` = abstract end of the body) -/
structure IterInv (W : Nat → Bool) (S : List (Nat × TName)) (nv x : Nat) (ρ1 : Env) (out : Pt) (ρ : Env) : Prop where
  len : ρ.length = nv
  stored : StoredOK S ρ
  agree : Agree (withVar W x) ρ ρ1
  inv : ρ = ρ1 ∨ SoundPt W ρ out

theorem agree_of_withVar {x : Nat} {ρ' ρ : Env} (hx : ρ'.get x = ρ.get x) (h : Agree (withVar W x) ρ' ρ) :
    Agree W ρ' ρ := by
  refine ⟨fun z hz => ?_, h.2⟩
  by_cases hzx : z = x
  · subst hzx; exact hx
  · exact h.1 z (by simp [withVar, hz, hzx])

theorem storedOK_unset {x : Nat} {w : Val} {ρ : Env} (hxS : S.any (fun p => p.1 == x) = false)
    (h : StoredOK S (ρ.set x w)) : StoredOK S ρ := by
  intro p hp
  have hne : p.1 ≠ x := by
    intro he
    have : S.any (fun p => p.1 == x) = true := List.any_eq_true.mpr ⟨p, hp, by simp [he]⟩
    rw [hxS] at this; cases this
  have := h p hp
  rwa [get_set_ne hne] at this

theorem body_step {nv : Nat} {d : Nat → Atom} {x : Nat} {B : LBlock} {e : Pt} {ρ1 : Env}
    (hxS : S.any (fun p => p.1 == x) = false) (hB : SafeBody W S x B)
    (hl1 : ρ1.length = nv) (hs1 : SoundPt W ρ1 e) (fuel : Nat) (ρ : Env) (r : Out)
    (hinv : IterInv W S nv x ρ1 (B.aexec nv d e).out ρ) (h : LBlock.exec fuel ρ B = some r) :
    r.env.length = nv ∧ StoredOK S r.env ∧ Agree (withVar W x) r.env ρ1 ∧ ObsOK W r.obs (B.aexec nv d e).obs ∧
    (r.broke = true → (∃ p ∈ (B.aexec nv d e).brks, SoundPt W r.env p) ∨ SoundPt W r.env (B.aexec nv d e).out) ∧
    (r.broke = false → SoundPt W r.env (B.aexec nv d e).out) := by
  -- the run from `ρ[x := v₁]`
  have hagr : Agree W (ρ.set x (ρ1.get x)) ρ1 := by
    refine ⟨fun z hz => ?_, by simp [hinv.len, hl1]⟩
    by_cases hzx : z = x
    · subst hzx
      rw [env_get_set]
      by_cases hlt : z < ρ.length
      · simp [hlt]
      · simp only [hlt, and_false, ↓reduceIte]
        rw [env_get_ge (by omega), env_get_ge (by rw [hl1, ← hinv.len]; omega)]
    · rw [get_set_ne hzx]
      exact hinv.agree.1 z (by simp [withVar, hz, hzx])
  have hs' : SoundPt W (ρ.set x (ρ1.get x)) e := soundPt_agree hagr hs1
  have hst' : StoredOK S (ρ.set x (ρ1.get x)) := storedOK_set hinv.stored hxS
  obtain ⟨r', hr', hbr, hobs, hd⟩ := LBlock.ni x (ρ1.get x) fuel ρ B r hB.unread h
  have hpost := LBlock.sound (W := W) (S := S) nv d fuel B e _ r' hB.loopOK hB.ok
    (by simpa using hinv.len) hst' hs' hr'
  have hag : Agree (withVar W x) r.env ρ := LBlock.exec_agree fuel ρ B r hB.assigns h
  have hagree1 : Agree (withVar W x) r.env ρ1 := hinv.agree.trans hag
  have hlen : r.env.length = nv := by rw [hag.2]; exact hinv.len
  -- either both runs end in the same environment, or `x` is untouched and was sound at `out` before
  have hcase : r'.env = r.env ∨ (r.env.get x = ρ.get x ∧ SoundPt W ρ (B.aexec nv d e).out) := by
    rcases hd with he | ⟨he, hx⟩
    · exact .inl he
    · rcases hinv.inv with h1 | h2
      · left
        rw [he, ← h1, ← hx]
        exact set_get_self r.env x
      · exact .inr ⟨hx, h2⟩
  have hstored : StoredOK S r.env := by
    rcases hd with he | ⟨he, _⟩
    · rw [← he]; exact hpost.stored
    · have := hpost.stored; rw [he] at this; exact storedOK_unset hxS this
  refine ⟨hlen, hstored, hagree1, by rw [← hobs]; exact hpost.obs, ?_, ?_⟩
  · intro hb
    rcases hcase with he | ⟨hx, hso⟩
    · have hg := hpost.good
      rw [hbr, hb, he] at hg
      exact .inl hg
    · exact .inr (soundPt_agree (agree_of_withVar hx hag) hso)
  · intro hb
    rcases hcase with he | ⟨hx, hso⟩
    · have hg := hpost.good
      rw [hbr, hb, he] at hg
      exact hg
    · exact soundPt_agree (agree_of_withVar hx hag) hso

theorem iterInv_next {nv x : Nat} {ρ1 ρ' : Env} {out : Pt} (hlen : ρ'.length = nv) (hst : StoredOK S ρ')
    (hag : Agree (withVar W x) ρ' ρ1) (hs : SoundPt W ρ' out) : IterInv W S nv x ρ1 out ρ' :=
  ⟨hlen, hst, hag, .inr hs⟩

/-! ### `while true do … end` -/

theorem whileTrue_exit {nv : Nat} {d : Nat → Atom} {x : Nat} {B : LBlock} {cur : Pt} {ρ1 : Env}
    (hxS : S.any (fun p => p.1 == x) = false) (hB : SafeBody W S x B)
    (hl1 : ρ1.length = nv) (hs1 : SoundPt W ρ1 cur) :
    ∀ (fuel : Nat) (ρ : Env) (r : Out), IterInv W S nv x ρ1 (B.aexec nv d cur).out ρ →
      LStmt.exec fuel ρ (.whileTrue B) = some r →
      Post W S nv r ((LStmt.whileTrue B).aexec nv d cur).out ((LStmt.whileTrue B).aexec nv d cur).brks
        ((LStmt.whileTrue B).aexec nv d cur).obs
  | 0, _, _, _, h => by simp [LStmt.exec] at h
  | fuel + 1, ρ, r, hinv, h => by
    simp only [LStmt.exec] at h
    cases h1 : LBlock.exec fuel ρ B with
    | none => simp [h1] at h
    | some r1 =>
      obtain ⟨hl', hst', hag', hobs', hbrk, hnb⟩ := body_step (d := d) hxS hB hl1 hs1 fuel ρ r1 hinv h1
      simp only [h1] at h
      split at h
      · rename_i hb
        simp only [Option.some.injEq] at h; subst h
        simp only [LStmt.aexec]
        refine ⟨?_, hl', hst', hobs'⟩
        rcases hbrk hb with ⟨p, hp, hps⟩ | hso
        · exact finishLabel_sound ⟨p, List.mem_append.mpr (.inl hp), hps⟩
        · exact finishLabel_sound ⟨_, List.mem_append.mpr (.inr (by simp)), hso⟩
      · rename_i hb
        have hbf : r1.broke = false := by simpa using hb
        cases h2 : LStmt.exec fuel r1.env (.whileTrue B) with
        | none => simp [h2] at h
        | some r2 =>
          simp only [h2, Option.some.injEq] at h; subst h
          have ih := whileTrue_exit hxS hB hl1 hs1 fuel r1.env r2 (iterInv_next hl' hst' hag' (hnb hbf)) h2
          simp only [LStmt.aexec] at ih ⊢
          refine ⟨?_, ih.len, ih.stored, hobs'.append_same ih.obs⟩
          have hg := ih.good
          cases hb2 : r2.broke
          · rw [hb2] at hg; exact hg
          · rw [hb2] at hg; obtain ⟨p, hp, _⟩ := hg; simp at hp

/-! ### statically entered numeric `for` -/

theorem execN_exit {nv : Nat} {d : Nat → Atom} {x : Nat} {B : LBlock} {e : Pt} {ρ1 : Env}
    (hxS : S.any (fun p => p.1 == x) = false) (hB : SafeBody W S x B)
    (hl1 : ρ1.length = nv) (hs1 : SoundPt W ρ1 e) :
    ∀ (fuel n : Nat) (ρ : Env) (r : Out), IterInv W S nv x ρ1 (B.aexec nv d e).out ρ →
      LBlock.execN fuel n ρ B = some r →
      r.env.length = nv ∧ StoredOK S r.env ∧ ObsOK W r.obs (B.aexec nv d e).obs ∧ r.broke = false ∧
      (0 < n → (∃ p ∈ (B.aexec nv d e).brks, SoundPt W r.env p) ∨ SoundPt W r.env (B.aexec nv d e).out)
  | 0, _, _, _, _, h => by simp [LBlock.execN] at h
  | fuel + 1, 0, ρ, r, hinv, h => by
    simp only [LBlock.execN, Option.some.injEq] at h
    subst h
    exact ⟨hinv.len, hinv.stored, ObsOK.nil, rfl, fun h => absurd h (by omega)⟩
  | fuel + 1, n + 1, ρ, r, hinv, h => by
    simp only [LBlock.execN] at h
    cases h1 : LBlock.exec fuel ρ B with
    | none => simp [h1] at h
    | some r1 =>
      obtain ⟨hl', hst', hag', hobs', hbrk, hnb⟩ := body_step (d := d) hxS hB hl1 hs1 fuel ρ r1 hinv h1
      simp only [h1] at h
      split at h
      · rename_i hb
        simp only [Option.some.injEq] at h; subst h
        exact ⟨hl', hst', hobs', rfl, fun _ => hbrk hb⟩
      · rename_i hb
        have hbf : r1.broke = false := by simpa using hb
        cases h2 : LBlock.execN fuel n r1.env B with
        | none => simp [h2] at h
        | some r2 =>
          simp only [h2, Option.some.injEq] at h; subst h
          obtain ⟨hl2, hst2, hobs2, _, hlast⟩ :=
            execN_exit hxS hB hl1 hs1 fuel n r1.env r2 (iterInv_next hl' hst' hag' (hnb hbf)) h2
          refine ⟨hl2, hst2, hobs'.append_same hobs2, rfl, fun _ => ?_⟩
          by_cases hn : 0 < n
          · exact hlast hn
          · have hn0 : n = 0 := by omega
            subst hn0
            cases fuel with
            | zero => simp [LBlock.execN] at h2
            | succ f =>
              simp only [LBlock.execN, Option.some.injEq] at h2
              subst h2
              exact .inr (hnb hbf)

theorem forNum_exit {nv : Nat} {d : Nat → Atom} {x : Nat} {B : LBlock} {cur : Pt} {ρ1 : Env} {a b : Nat}
    (hxS : S.any (fun p => p.1 == x) = false) (hB : SafeBody W S x B) (hab : a ≤ b) (hnil : B.isNil = false)
    (hl1 : ρ1.length = nv) (hst1 : StoredOK S ρ1) (hs1 : SoundPt W ρ1 cur) (fuel : Nat) (r : Out)
    (h : LStmt.exec fuel ρ1 (.forNum a b B) = some r) :
    Post W S nv r ((LStmt.forNum a b B).aexec nv d cur).out ((LStmt.forNum a b B).aexec nv d cur).brks
      ((LStmt.forNum a b B).aexec nv d cur).obs := by
  cases fuel with
  | zero => simp [LStmt.exec] at h
  | succ fuel =>
    simp only [LStmt.exec] at h
    have hs1' : SoundPt W ρ1 (.node (passNode nv cur)) := passNode_sound hl1 hs1
    have hinv : IterInv W S nv x ρ1 (B.aexec nv d (.node (passNode nv cur))).out ρ1 :=
      ⟨hl1, hst1, Agree.refl ρ1, .inl rfl⟩
    obtain ⟨hl', hst', hobs', hbr, hlast⟩ := execN_exit (d := d) hxS hB hl1 hs1' fuel (b + 1 - a) ρ1 r hinv h
    simp only [LStmt.aexec, hab, hnil, decide_true, Bool.not_false, Bool.and_self, ↓reduceIte]
    refine ⟨?_, hl', hst', hobs'⟩
    rw [hbr]
    rcases hlast (by omega) with ⟨p, hp, hps⟩ | hso
    · exact finishLabel_sound ⟨p, List.mem_append.mpr (.inl hp), hps⟩
    · exact finishLabel_sound ⟨_, List.mem_append.mpr (.inr (by simp)), hso⟩

/-! ### `repeat … until c` without `break` -/

mutual
/-- no `break` that would leave the enclosing loop (breaks inside nested loops stay there) -/
def LStmt.noBreak : LStmt → Bool
  | .breakIf _ => false
  | .ite _ thn rest => thn.noBreak && rest.noBreak
  | _ => true
def LElse.noBreak : LElse → Bool
  | .none => true
  | .els b => b.noBreak
  | .elif _ thn rest => thn.noBreak && rest.noBreak
def LBlock.noBreak : LBlock → Bool
  | .nil => true
  | .cons s rest => s.noBreak && rest.noBreak
end

theorem execN_broke : ∀ (fuel n : Nat) (ρ : Env) (b : LBlock) (r : Out),
    LBlock.execN fuel n ρ b = some r → r.broke = false
  | 0, _, _, _, _, h => by simp [LBlock.execN] at h
  | fuel + 1, 0, ρ, b, r, h => by simp only [LBlock.execN, Option.some.injEq] at h; subst h; rfl
  | fuel + 1, n + 1, ρ, b, r, h => by
    simp only [LBlock.execN] at h
    cases h1 : LBlock.exec fuel ρ b with
    | none => simp [h1] at h
    | some r1 =>
      simp only [h1] at h
      split at h
      · simp only [Option.some.injEq] at h; subst h; rfl
      · cases h2 : LBlock.execN fuel n r1.env b with
        | none => simp [h2] at h
        | some r2 => simp only [h2, Option.some.injEq] at h; subst h; rfl

mutual
theorem LStmt.exec_noBreak : ∀ (fuel : Nat) (ρ : Env) (s : LStmt) (r : Out), s.noBreak = true →
    LStmt.exec fuel ρ s = some r → r.broke = false
  | 0, _, _, _, _, h => by simp [LStmt.exec] at h
  | fuel + 1, ρ, .assign _ _, r, _, h => by simp only [LStmt.exec, Option.some.injEq] at h; subst h; rfl
  | fuel + 1, ρ, .assignVar _ _, r, _, h => by simp only [LStmt.exec, Option.some.injEq] at h; subst h; rfl
  | fuel + 1, ρ, .probe _ _, r, _, h => by simp only [LStmt.exec, Option.some.injEq] at h; subst h; rfl
  | fuel + 1, ρ, .breakIf _, r, hn, _ => by simp [LStmt.noBreak] at hn
  | fuel + 1, ρ, .ite c thn rest, r, hn, h => by
    simp only [LStmt.noBreak, Bool.and_eq_true] at hn
    simp only [LStmt.exec] at h
    split at h
    · exact LBlock.exec_noBreak fuel ρ thn r hn.1 h
    · exact LElse.exec_noBreak fuel ρ rest r hn.2 h
  | fuel + 1, ρ, .whileDo c body, r, _, h => by
    simp only [LStmt.exec] at h
    split at h
    · cases h1 : LBlock.exec fuel ρ body with
      | none => simp [h1] at h
      | some r1 =>
        simp only [h1] at h
        split at h
        · simp only [Option.some.injEq] at h; subst h; rfl
        · cases h2 : LStmt.exec fuel r1.env (.whileDo c body) with
          | none => simp [h2] at h
          | some r2 => simp only [h2, Option.some.injEq] at h; subst h; rfl
    · simp only [Option.some.injEq] at h; subst h; rfl
  | fuel + 1, ρ, .whileTrue body, r, _, h => by
    simp only [LStmt.exec] at h
    cases h1 : LBlock.exec fuel ρ body with
    | none => simp [h1] at h
    | some r1 =>
      simp only [h1] at h
      split at h
      · simp only [Option.some.injEq] at h; subst h; rfl
      · cases h2 : LStmt.exec fuel r1.env (.whileTrue body) with
        | none => simp [h2] at h
        | some r2 => simp only [h2, Option.some.injEq] at h; subst h; rfl
  | fuel + 1, ρ, .repeatUntil body c, r, _, h => by
    simp only [LStmt.exec] at h
    cases h1 : LBlock.exec fuel ρ body with
    | none => simp [h1] at h
    | some r1 =>
      simp only [h1] at h
      split at h
      · simp only [Option.some.injEq] at h; subst h; rfl
      · split at h
        · simp only [Option.some.injEq] at h; subst h; rfl
        · cases h2 : LStmt.exec fuel r1.env (.repeatUntil body c) with
          | none => simp [h2] at h
          | some r2 => simp only [h2, Option.some.injEq] at h; subst h; rfl
  | fuel + 1, ρ, .forNum a b body, r, _, h => by
    simp only [LStmt.exec] at h
    exact execN_broke fuel _ ρ body r h
  | fuel + 1, ρ, .forIn n body, r, _, h => by
    simp only [LStmt.exec] at h
    exact execN_broke fuel _ ρ body r h
theorem LElse.exec_noBreak : ∀ (fuel : Nat) (ρ : Env) (e : LElse) (r : Out), e.noBreak = true →
    LElse.exec fuel ρ e = some r → r.broke = false
  | 0, _, _, _, _, h => by simp [LElse.exec] at h
  | fuel + 1, ρ, .none, r, _, h => by simp only [LElse.exec, Option.some.injEq] at h; subst h; rfl
  | fuel + 1, ρ, .els b, r, hn, h => by
    simp only [LElse.exec] at h
    exact LBlock.exec_noBreak fuel ρ b r (by simpa [LElse.noBreak] using hn) h
  | fuel + 1, ρ, .elif c thn rest, r, hn, h => by
    simp only [LElse.noBreak, Bool.and_eq_true] at hn
    simp only [LElse.exec] at h
    split at h
    · exact LBlock.exec_noBreak fuel ρ thn r hn.1 h
    · exact LElse.exec_noBreak fuel ρ rest r hn.2 h
theorem LBlock.exec_noBreak : ∀ (fuel : Nat) (ρ : Env) (b : LBlock) (r : Out), b.noBreak = true →
    LBlock.exec fuel ρ b = some r → r.broke = false
  | 0, _, _, _, _, h => by simp [LBlock.exec] at h
  | fuel + 1, ρ, .nil, r, _, h => by simp only [LBlock.exec, Option.some.injEq] at h; subst h; rfl
  | fuel + 1, ρ, .cons s rest, r, hn, h => by
    simp only [LBlock.noBreak, Bool.and_eq_true] at hn
    simp only [LBlock.exec] at h
    cases h1 : LStmt.exec fuel ρ s with
    | none => simp [h1] at h
    | some r1 =>
      have hb1 := LStmt.exec_noBreak fuel ρ s r1 hn.1 h1
      simp only [h1, hb1, Bool.false_eq_true, ↓reduceIte] at h
      cases h2 : LBlock.exec fuel r1.env rest with
      | none => simp [h2] at h
      | some r2 =>
        simp only [h2, Option.some.injEq] at h; subst h
        exact LBlock.exec_noBreak fuel r1.env rest r2 hn.2 h2
end

theorem repeat_exit {nv : Nat} {d : Nat → Atom} {x : Nat} {B : LBlock} {c : Cond} {cur : Pt} {ρ1 : Env}
    (hxS : S.any (fun p => p.1 == x) = false) (hB : SafeBody W S x B) (hnb : B.noBreak = true)
    (hc : c.storedIn S = true) (hl1 : ρ1.length = nv) (hs1 : SoundPt W ρ1 cur) :
    ∀ (fuel : Nat) (ρ : Env) (r : Out), IterInv W S nv x ρ1 (B.aexec nv d cur).out ρ →
      LStmt.exec fuel ρ (.repeatUntil B c) = some r →
      Post W S nv r ((LStmt.repeatUntil B c).aexec nv d cur).out ((LStmt.repeatUntil B c).aexec nv d cur).brks
        ((LStmt.repeatUntil B c).aexec nv d cur).obs
  | 0, _, _, _, h => by simp [LStmt.exec] at h
  | fuel + 1, ρ, r, hinv, h => by
    simp only [LStmt.exec] at h
    cases h1 : LBlock.exec fuel ρ B with
    | none => simp [h1] at h
    | some r1 =>
      obtain ⟨hl', hst', hag', hobs', _, hnbk⟩ := body_step (d := d) hxS hB hl1 hs1 fuel ρ r1 hinv h1
      have hbf : r1.broke = false := LBlock.exec_noBreak fuel ρ B r1 hnb h1
      have hso := hnbk hbf
      simp only [h1, hbf, Bool.false_eq_true, ↓reduceIte] at h
      have hes := edges_sound (W := W) nv c (B.aexec nv d cur).out r1.env hl' hst' hc hso
      split at h
      · rename_i hce
        simp only [Option.some.injEq] at h; subst h
        simp only [LStmt.aexec]
        obtain ⟨p, hp, hps⟩ := hes.1 hce
        exact ⟨finishLabel_sound ⟨p, List.mem_append.mpr (.inr hp), hps⟩, hl', hst', hobs'⟩
      · cases h2 : LStmt.exec fuel r1.env (.repeatUntil B c) with
        | none => simp [h2] at h
        | some r2 =>
          simp only [h2, Option.some.injEq] at h; subst h
          have ih := repeat_exit hxS hB hnb hc hl1 hs1 fuel r1.env r2 (iterInv_next hl' hst' hag' hso) h2
          simp only [LStmt.aexec] at ih ⊢
          refine ⟨?_, ih.len, ih.stored, hobs'.append_same ih.obs⟩
          have hg := ih.good
          cases hb2 : r2.broke
          · rw [hb2] at hg; exact hg
          · rw [hb2] at hg; obtain ⟨p, hp, _⟩ := hg; simp at hp

/-! ### the general theorem: entered loops may assign one distinguished variable `x ∉ W` -/

/-- decidable form of `SafeBody` -/
def safeBodyB (W : Nat → Bool) (S : List (Nat × TName)) (x : Nat) (B : LBlock) : Bool :=
  B.loopOK W && B.ok S && B.assignsIn (withVar W x) && !B.reads x

theorem safeBodyB_iff {x : Nat} {B : LBlock} (h : safeBodyB W S x B = true) : SafeBody W S x B := by
  simp only [safeBodyB, Bool.and_eq_true, Bool.not_eq_eq_eq_not, Bool.not_true] at h
  exact ⟨h.1.1.1, h.1.1.2, h.1.2, h.2⟩

mutual
/-- as `loopOK W`, except that the body of `while true`, of a statically entered numeric `for` and of a `repeat` without
`break` may also assign `x`, provided the loop does not read `x` (`safeBodyB`) -/
def LStmt.loopOK2 (W : Nat → Bool) (S : List (Nat × TName)) (x : Nat) : LStmt → Bool
  | .assign _ _ => true
  | .assignVar z y => !W y || W z
  | .probe _ _ => true
  | .breakIf _ => true
  | .ite _ thn rest => thn.loopOK2 W S x && rest.loopOK2 W S x
  | .whileDo _ b => b.assignsIn W
  | .forIn _ b => b.assignsIn W
  | .whileTrue b => b.assignsIn W || safeBodyB W S x b
  | .forNum a z b => b.assignsIn W || (decide (a ≤ z) && !b.isNil && safeBodyB W S x b)
  | .repeatUntil b _ => b.assignsIn W || (b.noBreak && safeBodyB W S x b)
def LElse.loopOK2 (W : Nat → Bool) (S : List (Nat × TName)) (x : Nat) : LElse → Bool
  | .none => true
  | .els b => b.loopOK2 W S x
  | .elif _ thn rest => thn.loopOK2 W S x && rest.loopOK2 W S x
def LBlock.loopOK2 (W : Nat → Bool) (S : List (Nat × TName)) (x : Nat) : LBlock → Bool
  | .nil => true
  | .cons s rest => s.loopOK2 W S x && rest.loopOK2 W S x
end

mutual
theorem LStmt.sound2 (nv : Nat) (d : Nat → Atom) (x : Nat) (hxS : S.any (fun p => p.1 == x) = false) :
    ∀ (fuel : Nat) (s : LStmt) (cur : Pt) (ρ : Env) (r : Out),
    s.loopOK2 W S x = true → s.ok S = true → ρ.length = nv → StoredOK S ρ → SoundPt W ρ cur →
    LStmt.exec fuel ρ s = some r →
    Post W S nv r (s.aexec nv d cur).out (s.aexec nv d cur).brks (s.aexec nv d cur).obs
  | 0, _, _, _, _, _, _, _, _, _, h => by simp [LStmt.exec] at h
  | fuel + 1, .assign z l, cur, ρ, r, _, hok, hl, hst, hs, h =>
    LStmt.sound nv d (fuel + 1) (.assign z l) cur ρ r rfl hok hl hst hs h
  | fuel + 1, .assignVar z y, cur, ρ, r, hi, hok, hl, hst, hs, h =>
    LStmt.sound nv d (fuel + 1) (.assignVar z y) cur ρ r (by simpa [LStmt.loopOK2, LStmt.loopOK] using hi) hok hl hst hs h
  | fuel + 1, .probe id z, cur, ρ, r, _, hok, hl, hst, hs, h =>
    LStmt.sound nv d (fuel + 1) (.probe id z) cur ρ r rfl hok hl hst hs h
  | fuel + 1, .breakIf c, cur, ρ, r, _, hok, hl, hst, hs, h =>
    LStmt.sound nv d (fuel + 1) (.breakIf c) cur ρ r rfl hok hl hst hs h
  | fuel + 1, .whileDo c b, cur, ρ, r, hi, hok, hl, hst, hs, h =>
    LStmt.sound nv d (fuel + 1) (.whileDo c b) cur ρ r (by simpa [LStmt.loopOK2, LStmt.loopOK] using hi) hok hl hst hs h
  | fuel + 1, .forIn n b, cur, ρ, r, hi, hok, hl, hst, hs, h =>
    LStmt.sound nv d (fuel + 1) (.forIn n b) cur ρ r (by simpa [LStmt.loopOK2, LStmt.loopOK] using hi) hok hl hst hs h
  | fuel + 1, .whileTrue b, cur, ρ, r, hi, hok, hl, hst, hs, h => by
    by_cases hin : b.assignsIn W = true
    · exact LStmt.sound nv d (fuel + 1) (.whileTrue b) cur ρ r (by simpa [LStmt.loopOK] using hin) hok hl hst hs h
    · simp only [LStmt.loopOK2, hin, Bool.false_or] at hi
      exact whileTrue_exit hxS (safeBodyB_iff hi) hl hs (fuel + 1) ρ r ⟨hl, hst, Agree.refl ρ, .inl rfl⟩ h
  | fuel + 1, .forNum a z b, cur, ρ, r, hi, hok, hl, hst, hs, h => by
    by_cases hin : b.assignsIn W = true
    · exact LStmt.sound nv d (fuel + 1) (.forNum a z b) cur ρ r (by simpa [LStmt.loopOK] using hin) hok hl hst hs h
    · simp only [LStmt.loopOK2, hin, Bool.false_or, Bool.and_eq_true, decide_eq_true_eq,
        Bool.not_eq_eq_eq_not, Bool.not_true] at hi
      exact forNum_exit hxS (safeBodyB_iff hi.2) hi.1.1 hi.1.2 hl hst hs (fuel + 1) r h
  | fuel + 1, .repeatUntil b c, cur, ρ, r, hi, hok, hl, hst, hs, h => by
    by_cases hin : b.assignsIn W = true
    · exact LStmt.sound nv d (fuel + 1) (.repeatUntil b c) cur ρ r (by simpa [LStmt.loopOK] using hin) hok hl hst hs h
    · simp only [LStmt.loopOK2, hin, Bool.false_or, Bool.and_eq_true] at hi
      simp only [LStmt.ok, Bool.and_eq_true] at hok
      exact repeat_exit hxS (safeBodyB_iff hi.2) hi.1 hok.1 hl hs (fuel + 1) ρ r ⟨hl, hst, Agree.refl ρ, .inl rfl⟩ h
  | fuel + 1, .ite c thn rest, cur, ρ, r, hi, hok, hl, hst, hs, h => by
    simp only [LStmt.loopOK2, Bool.and_eq_true] at hi
    simp only [LStmt.ok, Bool.and_eq_true] at hok
    simp only [LStmt.exec] at h
    simp only [LStmt.aexec]
    have hes := edges_sound (W := W) nv c cur ρ hl hst hok.1.1 hs
    cases hc : c.eval ρ
    · simp only [hc, Bool.false_eq_true, ↓reduceIte] at h
      obtain ⟨hg, hlen, hst', hobs⟩ :=
        LElse.sound2 nv d x hxS fuel rest cur _ ρ r hi.2 hok.2 hl hst (hes.2 hc) h
      exact ⟨good_ite_else hg, hlen, hst', hobs.right⟩
    · simp only [hc, ↓reduceIte] at h
      obtain ⟨hg, hlen, hst', hobs⟩ := LBlock.sound2 nv d x hxS fuel thn _ ρ r hi.1 hok.1.2 hl hst
        (finishLabel_sound (d := cur) (hes.1 hc)) h
      exact ⟨good_ite_then hg, hlen, hst', hobs.left⟩
theorem LElse.sound2 (nv : Nat) (d : Nat → Atom) (x : Nat) (hxS : S.any (fun p => p.1 == x) = false) :
    ∀ (fuel : Nat) (e : LElse) (cur : Pt) (ins : List Pt) (ρ : Env) (r : Out),
    e.loopOK2 W S x = true → e.ok S = true → ρ.length = nv → StoredOK S ρ →
    (∃ p ∈ ins, SoundPt W ρ p) → LElse.exec fuel ρ e = some r →
    GoodE W r.env (e.aexec nv d cur ins).1 (e.aexec nv d cur ins).2.2 r.broke ∧ r.env.length = nv ∧
      StoredOK S r.env ∧ ObsOK W r.obs (e.aexec nv d cur ins).2.1
  | 0, _, _, _, _, _, _, _, _, _, _, h => by simp [LElse.exec] at h
  | fuel + 1, .none, cur, ins, ρ, r, _, _, hl, hst, hs, h => by
    simp only [LElse.exec, Option.some.injEq] at h
    subst h
    simp only [LElse.aexec]
    exact ⟨⟨finishLabel ins cur, by simp, finishLabel_sound hs⟩, hl, hst, ObsOK.nil⟩
  | fuel + 1, .els b, cur, ins, ρ, r, hi, hok, hl, hst, hs, h => by
    simp only [LElse.exec] at h
    simp only [LElse.aexec]
    obtain ⟨hg, hlen, hst', hobs⟩ := LBlock.sound2 nv d x hxS fuel b _ ρ r (by simpa [LElse.loopOK2] using hi)
      (by simpa [LElse.ok] using hok) hl hst (finishLabel_sound (d := cur) hs) h
    refine ⟨?_, hlen, hst', hobs⟩
    cases hb : r.broke
    · rw [hb] at hg; exact ⟨_, by simp, hg⟩
    · rw [hb] at hg; exact hg
  | fuel + 1, .elif c thn rest, cur, ins, ρ, r, hi, hok, hl, hst, hs, h => by
    simp only [LElse.loopOK2, Bool.and_eq_true] at hi
    simp only [LElse.ok, Bool.and_eq_true] at hok
    simp only [LElse.exec] at h
    simp only [LElse.aexec]
    have hps := finishLabel_sound (d := cur) hs
    have hes := edges_sound (W := W) nv c _ ρ hl hst hok.1.1 hps
    cases hc : c.eval ρ
    · simp only [hc, Bool.false_eq_true, ↓reduceIte] at h
      obtain ⟨hg, hlen, hst', hobs⟩ :=
        LElse.sound2 nv d x hxS fuel rest cur _ ρ r hi.2 hok.2 hl hst (hes.2 hc) h
      exact ⟨goodE_else hg, hlen, hst', hobs.right⟩
    · simp only [hc, ↓reduceIte] at h
      obtain ⟨hg, hlen, hst', hobs⟩ := LBlock.sound2 nv d x hxS fuel thn _ ρ r hi.1 hok.1.2 hl hst
        (finishLabel_sound (d := cur) (hes.1 hc)) h
      exact ⟨goodE_then hg, hlen, hst', hobs.left⟩
theorem LBlock.sound2 (nv : Nat) (d : Nat → Atom) (x : Nat) (hxS : S.any (fun p => p.1 == x) = false) :
    ∀ (fuel : Nat) (b : LBlock) (cur : Pt) (ρ : Env) (r : Out),
    b.loopOK2 W S x = true → b.ok S = true → ρ.length = nv → StoredOK S ρ → SoundPt W ρ cur →
    LBlock.exec fuel ρ b = some r →
    Post W S nv r (b.aexec nv d cur).out (b.aexec nv d cur).brks (b.aexec nv d cur).obs
  | 0, _, _, _, _, _, _, _, _, _, h => by simp [LBlock.exec] at h
  | fuel + 1, .nil, cur, ρ, r, _, _, hl, hst, hs, h => by
    simp only [LBlock.exec, Option.some.injEq] at h
    subst h
    simp only [LBlock.aexec]
    exact ⟨hs, hl, hst, ObsOK.nil⟩
  | fuel + 1, .cons s rest, cur, ρ, r, hi, hok, hl, hst, hs, h => by
    simp only [LBlock.loopOK2, Bool.and_eq_true] at hi
    simp only [LBlock.ok, Bool.and_eq_true] at hok
    simp only [LBlock.exec] at h
    simp only [LBlock.aexec]
    cases h1 : LStmt.exec fuel ρ s with
    | none => simp [h1] at h
    | some r1 =>
      obtain ⟨hg1, hl1, hst1, ho1⟩ := LStmt.sound2 nv d x hxS fuel s cur ρ r1 hi.1 hok.1 hl hst hs h1
      simp only [h1] at h
      split at h
      · rename_i hbr
        simp only [Option.some.injEq] at h
        subst h
        refine ⟨?_, hl1, hst1, ho1.left⟩
        rw [hbr] at hg1 ⊢
        exact Good.brk_left (out := (s.aexec nv d cur).out) hg1
      · rename_i hbr
        have hbf : r1.broke = false := by simpa using hbr
        rw [hbf] at hg1
        cases h2 : LBlock.exec fuel r1.env rest with
        | none => simp [h2] at h
        | some r2 =>
          simp only [h2, Option.some.injEq] at h
          subst h
          obtain ⟨hg2, hl2, hst2, ho2⟩ := LBlock.sound2 nv d x hxS fuel rest _ r1.env r2 hi.2 hok.2 hl1 hst1 hg1 h2
          exact ⟨good_right hg2, hl2, hst2, ho1.append ho2⟩
end

end Flow
