import EmmyVerif.Model.RangeText
/-! Lemmas of the `RangeText` family: line splitting is lossless and canonical, line endings,
offset helpers. -/
namespace RangeText

/-! ## split_inclusive -/

theorem flatten_splitInclusive (t : Txt) : (splitInclusive t).flatten = t := by
  induction t with
  | nil => rfl
  | cons b r ih =>
    simp only [splitInclusive]
    split
    · simp [ih]
    · split
      · rename_i h; rw [h] at ih; simp at ih; subst ih; simp
      · rename_i l ls h; rw [h] at ih; simp at ih; simp [ih]

/-- closed line followed by more text -/
theorem splitInclusive_closed (c b : Txt) (hc : NL ∉ c) :
    splitInclusive (c ++ NL :: b) = (c ++ [NL]) :: splitInclusive b := by
  induction c with
  | nil => simp [splitInclusive]
  | cons x c ih =>
    have hx : x ≠ NL := fun e => hc (e ▸ List.mem_cons_self)
    have hc' : NL ∉ c := fun h => hc (List.mem_cons_of_mem _ h)
    simp only [List.cons_append, splitInclusive, if_neg hx]
    rw [ih hc']

/-- an open (unterminated) non-empty line -/
theorem splitInclusive_open (a : Txt) (hne : a ≠ []) (ha : NL ∉ a) : splitInclusive a = [a] := by
  induction a with
  | nil => exact absurd rfl hne
  | cons x a ih =>
    have hx : x ≠ NL := fun e => ha (e ▸ List.mem_cons_self)
    have ha' : NL ∉ a := fun h => ha (List.mem_cons_of_mem _ h)
    simp only [splitInclusive, if_neg hx]
    cases a with
    | nil => simp [splitInclusive]
    | cons y a => rw [ih (by simp) ha']

/-- shape of the output of `split_inclusive`: closed lines `c ++ [\n]` (no `\n` in `c`),
optionally followed by one open non-empty line -/
inductive WfLines : List Txt → Prop
  | nil : WfLines []
  | last (l : Txt) : l ≠ [] → NL ∉ l → WfLines [l]
  | cons (c : Txt) (ls : List Txt) : NL ∉ c → WfLines ls → WfLines ((c ++ [NL]) :: ls)

theorem wf_splitInclusive (t : Txt) : WfLines (splitInclusive t) := by
  induction t with
  | nil => exact WfLines.nil
  | cons b r ih =>
    simp only [splitInclusive]
    split
    · rename_i hb; subst hb
      exact WfLines.cons [] _ (by simp) ih
    · rename_i hb
      split
      · exact WfLines.last [b] (by simp) (by simp; exact fun e => hb e.symm)
      · rename_i l ls h
        rw [h] at ih
        cases ih with
        | last _ hne hl => exact WfLines.last (b :: l) (by simp) (by
            intro hm; rcases List.mem_cons.mp hm with e | e
            · exact hb e.symm
            · exact hl e)
        | cons c _ hc hls =>
          have : b :: (c ++ [NL]) = (b :: c) ++ [NL] := rfl
          rw [this]
          exact WfLines.cons (b :: c) ls (by
            intro hm; rcases List.mem_cons.mp hm with e | e
            · exact hb e.symm
            · exact hc e) hls

theorem splitInclusive_flatten (ls : List Txt) (h : WfLines ls) : splitInclusive ls.flatten = ls := by
  induction h with
  | nil => rfl
  | last l hne hl => simpa using splitInclusive_open l hne hl
  | cons c ls hc _ ih =>
    have : ((c ++ [NL]) :: ls).flatten = c ++ NL :: ls.flatten := by simp
    rw [this, splitInclusive_closed c _ hc, ih]

/-! ## split_line_ending -/

theorem splitEndingRev_append (r : Txt) : (splitEndingRev r).1 ++ (splitEndingRev r).2 = r.reverse := by
  unfold splitEndingRev
  split
  · rfl
  · split
    · rename_i h; subst h
      split
      · rfl
      · split
        · rename_i h; subst h; simp
        · simp
    · simp

theorem splitLineEnding_append (l : Txt) : (splitLineEnding l).1 ++ (splitLineEnding l).2 = l := by
  simp [splitLineEnding, splitEndingRev_append]

theorem mapLinesFrom_nil (f : Txt → Txt → Txt) (off : Nat) (ls : List Txt) :
    mapLinesFrom [] f off ls = (ls.map fun l => f (splitLineEnding l).1 (splitLineEnding l).2).flatten := by
  induction ls generalizing off with
  | nil => rfl
  | cons l ls ih => simp [mapLinesFrom, ih]

theorem mapLines_eq (t : Txt) (f : Txt → Txt → Txt) :
    mapLines t [] f = ((splitInclusive t).map fun l => f (splitLineEnding l).1 (splitLineEnding l).2).flatten := by
  simp [mapLines, mapLinesFrom_nil]

/-! ## blank bytes -/

theorem nonBlank_append (a b : Txt) : nonBlank (a ++ b) = nonBlank a ++ nonBlank b := by
  simp [nonBlank]

theorem nonBlank_of_blank (p : Txt) (hp : ∀ b ∈ p, isBlank b = true) : nonBlank p = [] := by
  simp only [nonBlank, List.filter_eq_nil_iff]
  intro b hb; simp [hp b hb]

theorem stripPrefix_some (p c r : Txt) (h : stripPrefix p c = some r) : c = p ++ r := by
  induction p generalizing c with
  | nil => simp [stripPrefix] at h; simp [h]
  | cons x p ih =>
    cases c with
    | nil => simp [stripPrefix] at h
    | cons y c =>
      simp only [stripPrefix] at h
      split at h
      · rename_i e; subst e; simp [ih c h]
      · cases h

theorem stripPrefix_append (p c : Txt) : stripPrefix p (p ++ c) = some c := by
  induction p with
  | nil => simp [stripPrefix]
  | cons x p ih => simp [stripPrefix, ih]

theorem stripPrefix_nil_of_ne (p : Txt) (hp : p ≠ []) : stripPrefix p [] = none := by
  cases p with
  | nil => exact absurd rfl hp
  | cons x p => rfl

/-- stripping a blank prefix does not change the non-blank bytes -/
theorem nonBlank_strip (p c : Txt) (hp : ∀ b ∈ p, isBlank b = true) :
    nonBlank ((stripPrefix p c).getD c) = nonBlank c := by
  cases h : stripPrefix p c with
  | none => rfl
  | some r =>
    have := stripPrefix_some p c r h
    simp [this, nonBlank_append, nonBlank_of_blank p hp]

theorem nonBlank_flatten_map (ls : List Txt) (g : Txt → Txt) (h : ∀ l ∈ ls, nonBlank (g l) = nonBlank l) :
    nonBlank (ls.map g).flatten = nonBlank ls.flatten := by
  induction ls with
  | nil => rfl
  | cons l ls ih =>
    simp only [List.map_cons, List.flatten_cons, nonBlank_append]
    rw [h l List.mem_cons_self, ih (fun l' hl' => h l' (List.mem_cons_of_mem _ hl'))]

/-! ## offsets -/

theorem backToNl_le (r : Txt) : backToNl r ≤ r.length := by
  induction r with
  | nil => simp [backToNl]
  | cons b r ih => simp only [backToNl]; split <;> simp <;> omega

theorem fwdToNl_le (r : Txt) : fwdToNl r ≤ r.length := by
  induction r with
  | nil => simp [fwdToNl]
  | cons b r ih => simp only [fwdToNl]; split <;> simp <;> omega

theorem lineStartOffset_le (t : Txt) (off : Nat) : lineStartOffset t off ≤ off := by
  simp only [lineStartOffset]; omega

theorem lineEndOffset_ge (t : Txt) (off : Nat) : min off t.length ≤ lineEndOffset t off := by
  simp only [lineEndOffset]; omega

theorem lineEndOffset_le (t : Txt) (off : Nat) : lineEndOffset t off ≤ t.length := by
  simp only [lineEndOffset]
  have := fwdToNl_le (t.drop (min off t.length))
  simp at this; omega

/-- walking back stops right after a `\n` or at the start -/
theorem backToNl_spec (r : Txt) : backToNl r = r.length ∨ r[backToNl r]? = some NL := by
  induction r with
  | nil => left; rfl
  | cons b r ih =>
    simp only [backToNl]
    split
    · rename_i h; right; simp [h]
    · rcases ih with h | h
      · left; simp [h]
      · right; simpa using h

/-- walking forward stops right after a `\n` or at the end -/
theorem fwdToNl_spec (r : Txt) : fwdToNl r = r.length ∨ (0 < fwdToNl r ∧ r[fwdToNl r - 1]? = some NL) := by
  induction r with
  | nil => left; rfl
  | cons b r ih =>
    simp only [fwdToNl]
    split
    · rename_i h; right; simp [h]
    · rcases ih with h | ⟨h0, h⟩
      · left; simp [h]
      · right
        refine ⟨by omega, ?_⟩
        have : fwdToNl r + 1 - 1 = (fwdToNl r - 1) + 1 := by omega
        rw [this]; simpa using h

/-! ## line maps keep the line structure -/

def body (l : Txt) : Txt := (splitLineEnding l).1
def ending (l : Txt) : Txt := (splitLineEnding l).2

theorem body_append_ending (l : Txt) : body l ++ ending l = l := splitLineEnding_append l

/-- the three possible endings, with what they say about the body -/
theorem ending_cases (l : Txt) :
    (ending l = [] ∧ body l = l ∧ l.getLast? ≠ some NL) ∨
    (ending l = [NL] ∧ (body l).getLast? ≠ some CR) ∨
    (ending l = [CR, NL]) := by
  unfold body ending splitLineEnding
  have hl : l.getLast? = l.reverse.head? := by simp
  rw [hl]
  generalize hr : l.reverse = r
  have hlr : l = r.reverse := by rw [← hr]; simp
  cases r with
  | nil => left; simp [splitEndingRev, hlr]
  | cons a r =>
    simp only [splitEndingRev]
    by_cases ha : a = NL
    · simp only [if_pos ha]
      cases r with
      | nil => right; left; simp
      | cons b r' =>
        by_cases hb : b = CR
        · right; right; simp [if_pos hb]
        · right; left
          simp only [if_neg hb, true_and]
          simp [hb]
    · left
      simp only [if_neg ha, true_and]
      refine ⟨by simp [hlr], ?_⟩
      simp [ha]

/-- re-splitting `x ++ e`: the ending is found again provided `x` cannot be confused with it -/
theorem splitLineEnding_rebuild (x e : Txt) (he : e = [] ∨ e = [NL] ∨ e = [CR, NL])
    (h0 : e = [] → x.getLast? ≠ some NL) (h1 : e = [NL] → x.getLast? ≠ some CR) :
    splitLineEnding (x ++ e) = (x, e) := by
  have hx : x = x.reverse.reverse := by simp
  have hlast : x.getLast? = x.reverse.head? := by simp
  rw [hlast] at h0 h1
  rcases he with rfl | rfl | rfl
  · simp only [List.append_nil, splitLineEnding]
    generalize x.reverse = r at *
    subst hx
    cases r with
    | nil => rfl
    | cons a r =>
      have : a ≠ NL := by simpa using h0 rfl
      simp [splitEndingRev, this]
  · simp only [splitLineEnding, List.reverse_append, List.reverse_cons, List.reverse_nil, List.nil_append,
      List.singleton_append]
    generalize x.reverse = r at *
    subst hx
    cases r with
    | nil => simp [splitEndingRev]
    | cons b r =>
      have : b ≠ CR := by simpa using h1 rfl
      simp [splitEndingRev, this]
  · simp only [splitLineEnding, List.reverse_append, List.reverse_cons, List.reverse_nil, List.nil_append,
      List.cons_append]
    generalize x.reverse = r at *
    subst hx
    simp [splitEndingRev]

theorem getLast?_append_ne {α} (a b : List α) (hb : b ≠ []) : (a ++ b).getLast? = b.getLast? := by
  cases b with
  | nil => exact absurd rfl hb
  | cons x b =>
    rw [List.getLast?_append]
    cases h : (x :: b).getLast? with
    | none => simp at h
    | some y => rfl

/-- a closed line `c ++ [\n]` ends in `\n` or `\r\n` -/
theorem closed_cases (c : Txt) (hc : NL ∉ c) :
    (ending (c ++ [NL]) = [NL] ∧ body (c ++ [NL]) = c ∧ c.getLast? ≠ some CR) ∨
    (ending (c ++ [NL]) = [CR, NL] ∧ c = body (c ++ [NL]) ++ [CR] ∧ NL ∉ body (c ++ [NL])) := by
  have happ := body_append_ending (c ++ [NL])
  rcases ending_cases (c ++ [NL]) with ⟨_, _, h⟩ | ⟨he, h⟩ | he
  · simp at h
  · left
    rw [he] at happ
    have hb : body (c ++ [NL]) = c := List.append_cancel_right happ
    exact ⟨he, hb, hb ▸ h⟩
  · right
    rw [he] at happ
    have : body (c ++ [NL]) ++ [CR] ++ [NL] = c ++ [NL] := by simpa using happ
    have hb : body (c ++ [NL]) ++ [CR] = c := List.append_cancel_right this
    refine ⟨he, hb.symm, fun hm => hc ?_⟩
    rw [← hb]; exact List.mem_append_left _ hm

/-- an open line has no ending -/
theorem open_case (l : Txt) (hl : NL ∉ l) : ending l = [] ∧ body l = l := by
  have happ := body_append_ending l
  rcases ending_cases l with ⟨he, hb, _⟩ | ⟨he, _⟩ | he
  · exact ⟨he, hb⟩
  · exfalso; apply hl; rw [← happ, he]; simp
  · exfalso; apply hl; rw [← happ, he]; simp

/-- a map on line pieces that keeps closed lines closed and open lines open and non-empty keeps
the output of `split_inclusive` canonical -/
theorem wf_map (G : Txt → Txt) (ls : List Txt) (hwf : WfLines ls)
    (hclosed : ∀ c, NL ∉ c → (c ++ [NL]) ∈ ls → ∃ c', NL ∉ c' ∧ G (c ++ [NL]) = c' ++ [NL])
    (hopen : ∀ l, l ≠ [] → NL ∉ l → l ∈ ls → G l ≠ [] ∧ NL ∉ G l) : WfLines (ls.map G) := by
  induction hwf with
  | nil => exact WfLines.nil
  | last l hne hl =>
    obtain ⟨h1, h2⟩ := hopen l hne hl List.mem_cons_self
    exact WfLines.last _ h1 h2
  | cons c ls hc _ ih =>
    obtain ⟨c', h1, h2⟩ := hclosed c hc List.mem_cons_self
    simp only [List.map_cons, h2]
    exact WfLines.cons c' _ h1 (ih (fun c hc hm => hclosed c hc (List.mem_cons_of_mem _ hm))
      (fun l h1 h2 hm => hopen l h1 h2 (List.mem_cons_of_mem _ hm)))

theorem flatten_map_id (ls : List Txt) (G : Txt → Txt) (h : ∀ l ∈ ls, G l = l) : (ls.map G).flatten = ls.flatten := by
  induction ls with
  | nil => rfl
  | cons l ls ih =>
    simp only [List.map_cons, List.flatten_cons]
    rw [h l List.mem_cons_self, ih (fun l' hl' => h l' (List.mem_cons_of_mem _ hl'))]

/-- the two line maps of `strip_base_indent` / `apply_base_indent` -/
def stripLine (p l : Txt) : Txt := (stripPrefix p (body l)).getD (body l) ++ ending l
def applyLine (p l : Txt) : Txt := if (body l).isEmpty then ending l else p ++ body l ++ ending l

theorem stripBaseIndent_eq (t p : Txt) : stripBaseIndent t p [] = ((splitInclusive t).map (stripLine p)).flatten := by
  simp only [stripBaseIndent, mapLines_eq]; rfl

theorem applyBaseIndent_eq (t p : Txt) (hp : p ≠ []) :
    applyBaseIndent t p [] = ((splitInclusive t).map (applyLine p)).flatten := by
  have : p.isEmpty = false := by cases p <;> simp_all
  simp only [applyBaseIndent, this, mapLines_eq, Bool.false_eq_true, if_false]; rfl

theorem blank_no_nl (p : Txt) (hp : ∀ b ∈ p, isBlank b = true) : NL ∉ p := by
  intro h; have := hp NL h; simp [isBlank, NL, SP, TAB] at this

theorem ending_shape (l : Txt) : ending l = [] ∨ ending l = [NL] ∨ ending l = [CR, NL] := by
  rcases ending_cases l with ⟨h, _⟩ | ⟨h, _⟩ | h
  · exact Or.inl h
  · exact Or.inr (Or.inl h)
  · exact Or.inr (Or.inr h)

/-- re-splitting a rewritten line `x ++ ending l` when `x` ends like the body of `l` (or is empty) -/
theorem rebuild_line (l x : Txt) (hx : x = [] ∨ x.getLast? = (body l).getLast?)
    (hb : body l ≠ [] ∨ x = []) : splitLineEnding (x ++ ending l) = (x, ending l) := by
  apply splitLineEnding_rebuild x (ending l) (ending_shape l)
  · intro he
    rcases hx with rfl | hx
    · simp
    · rw [hx]
      rcases ending_cases l with ⟨_, hbl, h⟩ | ⟨h, _⟩ | h
      · rw [hbl]; exact h
      · rw [h] at he; cases he
      · rw [h] at he; cases he
  · intro he
    rcases hx with rfl | hx
    · simp
    · rw [hx]
      rcases ending_cases l with ⟨h, _⟩ | ⟨_, h⟩ | h
      · rw [h] at he; cases he
      · exact h
      · rw [h] at he; simp [CR, NL] at he

theorem body_ending_of_split (y x e : Txt) (h : splitLineEnding y = (x, e)) : body y = x ∧ ending y = e := by
  constructor
  · show (splitLineEnding y).1 = x; rw [h]
  · show (splitLineEnding y).2 = e; rw [h]

theorem strip_apply_line (p l : Txt) (hp : p ≠ []) : stripLine p (applyLine p l) = l := by
  by_cases hb : body l = []
  · have hl : l = ending l := by have := body_append_ending l; rw [hb] at this; simpa using this.symm
    have ha : applyLine p l = ending l := by simp [applyLine, hb]
    have h := rebuild_line l [] (Or.inl rfl) (Or.inr rfl)
    simp only [List.nil_append] at h
    obtain ⟨h1, h2⟩ := body_ending_of_split _ _ _ h
    rw [ha, stripLine, h1, h2, stripPrefix_nil_of_ne p hp]
    simpa using hl.symm
  · have hne : (body l).isEmpty = false := by cases h : body l <;> simp_all
    have ha : applyLine p l = p ++ body l ++ ending l := by simp [applyLine, hne]
    have h := rebuild_line l (p ++ body l) (Or.inr (getLast?_append_ne p (body l) hb)) (Or.inl hb)
    obtain ⟨h1, h2⟩ := body_ending_of_split _ _ _ h
    rw [ha, stripLine, h1, h2, stripPrefix_append]
    simpa using body_append_ending l

theorem apply_strip_line (p l : Txt) (hp : p ≠ [])
    (hl : body l = [] ∨ ∃ r, r ≠ [] ∧ body l = p ++ r) : applyLine p (stripLine p l) = l := by
  rcases hl with hb | ⟨r, hr, hb⟩
  · have hl : l = ending l := by have := body_append_ending l; rw [hb] at this; simpa using this.symm
    have hs : stripLine p l = ending l := by simp [stripLine, hb, stripPrefix_nil_of_ne p hp]
    have h := rebuild_line l [] (Or.inl rfl) (Or.inr rfl)
    simp only [List.nil_append] at h
    obtain ⟨h1, h2⟩ := body_ending_of_split _ _ _ h
    rw [hs, applyLine, h1, h2]
    simpa using hl.symm
  · have hbne : body l ≠ [] := by rw [hb]; simp [hr]
    have hs : stripLine p l = r ++ ending l := by simp [stripLine, hb, stripPrefix_append]
    have h := rebuild_line l r (Or.inr (by rw [hb, getLast?_append_ne p r hr])) (Or.inl hbne)
    obtain ⟨h1, h2⟩ := body_ending_of_split _ _ _ h
    have hne : r.isEmpty = false := by cases r <;> simp_all
    rw [hs, applyLine, h1, h2]
    simp only [hne, Bool.false_eq_true, if_false]
    rw [← hb]
    exact body_append_ending l

theorem applyLine_closed (p c : Txt) (hp : NL ∉ p) (hc : NL ∉ c) :
    ∃ c', NL ∉ c' ∧ applyLine p (c ++ [NL]) = c' ++ [NL] := by
  unfold applyLine
  rcases closed_cases c hc with ⟨he, hb, _⟩ | ⟨he, hcb, hnb⟩
  · rw [he, hb]
    by_cases h : c = []
    · subst h; exact ⟨[], by simp, by simp⟩
    · have : c.isEmpty = false := by cases c <;> simp_all
      refine ⟨p ++ c, ?_, by simp [this]⟩
      intro hm; rcases List.mem_append.mp hm with h | h
      · exact hp h
      · exact hc h
  · rw [he]
    by_cases h : body (c ++ [NL]) = []
    · simp only [h, List.isEmpty_nil, if_true]
      exact ⟨[CR], by simp [NL, CR], by simp⟩
    · have : (body (c ++ [NL])).isEmpty = false := by
        cases hh : (body (c ++ [NL])).isEmpty
        · rfl
        · exact absurd (List.isEmpty_iff.mp hh) h
      refine ⟨p ++ body (c ++ [NL]) ++ [CR], ?_, by simp [this]⟩
      intro hm
      simp only [List.mem_append, List.mem_singleton] at hm
      rcases hm with (h | h) | h
      · exact hp h
      · exact hnb h
      · simp [NL, CR] at h

theorem applyLine_open (p l : Txt) (hp : NL ∉ p) (hne : l ≠ []) (hl : NL ∉ l) :
    applyLine p l ≠ [] ∧ NL ∉ applyLine p l := by
  unfold applyLine
  obtain ⟨he, hb⟩ := open_case l hl
  have : l.isEmpty = false := by cases l <;> simp_all
  rw [he, hb]
  simp only [this, Bool.false_eq_true, if_false, List.append_nil]
  refine ⟨by simp [hne], ?_⟩
  intro hm; rcases List.mem_append.mp hm with h | h
  · exact hp h
  · exact hl h

theorem stripLine_closed (p c : Txt) (hp : p ≠ []) (hc : NL ∉ c)
    (hl : body (c ++ [NL]) = [] ∨ ∃ r, r ≠ [] ∧ body (c ++ [NL]) = p ++ r) :
    ∃ c', NL ∉ c' ∧ stripLine p (c ++ [NL]) = c' ++ [NL] := by
  unfold stripLine
  have hnb : NL ∉ body (c ++ [NL]) := by
    rcases closed_cases c hc with ⟨_, hb, _⟩ | ⟨_, _, h⟩
    · rw [hb]; exact hc
    · exact h
  have key : ∃ x, NL ∉ x ∧ (stripPrefix p (body (c ++ [NL]))).getD (body (c ++ [NL])) = x := by
    rcases hl with hb | ⟨r, _, hb⟩
    · exact ⟨[], by simp, by rw [hb, stripPrefix_nil_of_ne p hp]; rfl⟩
    · refine ⟨r, fun hm => hnb ?_, by rw [hb, stripPrefix_append]; rfl⟩
      rw [hb]; exact List.mem_append_right _ hm
  obtain ⟨x, hx, hxe⟩ := key
  rw [hxe]
  rcases closed_cases c hc with ⟨he, _, _⟩ | ⟨he, _, _⟩
  · exact ⟨x, hx, by rw [he]⟩
  · refine ⟨x ++ [CR], ?_, by rw [he]; simp⟩
    intro hm; rcases List.mem_append.mp hm with h | h
    · exact hx h
    · simp [NL, CR] at h

theorem stripLine_open (p l : Txt) (hne : l ≠ []) (hl : NL ∉ l)
    (h : body l = [] ∨ ∃ r, r ≠ [] ∧ body l = p ++ r) :
    stripLine p l ≠ [] ∧ NL ∉ stripLine p l := by
  unfold stripLine
  obtain ⟨he, hb⟩ := open_case l hl
  rcases h with h | ⟨r, hr, h⟩
  · rw [hb] at h; exact absurd h hne
  · rw [he, h, stripPrefix_append]
    simp only [Option.getD_some, List.append_nil]
    refine ⟨hr, fun hm => hl ?_⟩
    rw [← hb, h]; exact List.mem_append_right _ hm

end RangeText

namespace RangeText

theorem nonBlank_stripLine (p l : Txt) (hp : ∀ b ∈ p, isBlank b = true) :
    nonBlank (stripLine p l) = nonBlank l := by
  unfold stripLine
  rw [nonBlank_append, nonBlank_strip p _ hp, ← nonBlank_append, body_append_ending]

theorem nonBlank_applyLine (p l : Txt) (hp : ∀ b ∈ p, isBlank b = true) :
    nonBlank (applyLine p l) = nonBlank l := by
  unfold applyLine
  split
  · rename_i h
    have hb : body l = [] := List.isEmpty_iff.mp h
    have := body_append_ending l
    rw [hb] at this; simp at this; rw [this]
  · rw [nonBlank_append, nonBlank_append, nonBlank_of_blank p hp, List.nil_append, ← nonBlank_append,
      body_append_ending]

theorem nonBlank_mapLinesFrom (keep : List Nat) (f : Txt → Txt → Txt) (off : Nat) (ls : List Txt)
    (h : ∀ l ∈ ls, nonBlank (f (splitLineEnding l).1 (splitLineEnding l).2) = nonBlank l) :
    nonBlank (mapLinesFrom keep f off ls) = nonBlank ls.flatten := by
  induction ls generalizing off with
  | nil => rfl
  | cons l ls ih =>
    simp only [mapLinesFrom, List.flatten_cons, nonBlank_append]
    rw [ih _ (fun l' hl' => h l' (List.mem_cons_of_mem _ hl'))]
    split
    · rfl
    · rw [h l List.mem_cons_self]

/-- if every line start is kept, nothing changes -/
theorem mapLinesFrom_keep_all (keep : List Nat) (f : Txt → Txt → Txt) (off : Nat) (ls : List Txt)
    (h : ∀ pre l post, ls = pre ++ l :: post → keep.contains (off + pre.flatten.length) = true) :
    mapLinesFrom keep f off ls = ls.flatten := by
  induction ls generalizing off with
  | nil => rfl
  | cons l ls ih =>
    simp only [mapLinesFrom, List.flatten_cons]
    have h0 : keep.contains off = true := by
      have := h [] l ls rfl
      simpa using this
    rw [if_pos h0, ih]
    intro pre l' post hp
    have := h (l :: pre) l' post (by simp [hp])
    simpa [Nat.add_assoc] using this

theorem nonBlank_stripBaseIndent (t p : Txt) (keep : List Nat) (hp : ∀ b ∈ p, isBlank b = true) :
    nonBlank (stripBaseIndent t p keep) = nonBlank t := by
  unfold stripBaseIndent mapLines
  rw [nonBlank_mapLinesFrom _ _ _ _ (fun l _ => nonBlank_stripLine p l hp), flatten_splitInclusive]

theorem nonBlank_applyBaseIndent (t p : Txt) (keep : List Nat) (hp : ∀ b ∈ p, isBlank b = true) :
    nonBlank (applyBaseIndent t p keep) = nonBlank t := by
  by_cases h : p = []
  · subst h; simp [applyBaseIndent]
  · have hpe : p.isEmpty = false := by cases p <;> simp_all
    unfold applyBaseIndent mapLines
    simp only [hpe, Bool.false_eq_true, if_false]
    rw [nonBlank_mapLinesFrom _ _ _ _ (fun l _ => nonBlank_applyLine p l hp), flatten_splitInclusive]

end RangeText

namespace RangeText
theorem mem_takeWhile_true {α} (l : List α) (f : α → Bool) (b : α) (h : b ∈ l.takeWhile f) : f b = true := by
  induction l with
  | nil => simp at h
  | cons x l ih =>
    simp only [List.takeWhile] at h
    split at h
    · rename_i hx
      rcases List.mem_cons.mp h with e | e
      · exact e ▸ hx
      · exact ih e
    · cases h
end RangeText
