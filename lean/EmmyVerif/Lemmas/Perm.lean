import EmmyVerif.Model.Perm
/-! `Perm` family: "hash iteration order = arbitrary permutation" and the invariance lemmas used by C11, C35
(core `List.Perm`, `List.mergeSort`). -/
namespace PermLemmas
open PermModel

/-! ### the model's insertion sort: permutation, sortedness -/

theorem insertBy_perm {α : Type} (le : α → α → Bool) (a : α) : ∀ l : List α, (insertBy le a l).Perm (a :: l)
  | [] => List.Perm.refl _
  | b :: l => by
    unfold insertBy
    split
    · exact List.Perm.refl _
    · exact ((insertBy_perm le a l).cons b).trans (List.Perm.swap a b l)

theorem isort_perm {α : Type} (le : α → α → Bool) : ∀ l : List α, (isort le l).Perm l
  | [] => List.Perm.refl _
  | a :: l => (insertBy_perm le a (isort le l)).trans ((isort_perm le l).cons a)

theorem mem_isort {α : Type} {le : α → α → Bool} {a : α} {l : List α} : a ∈ isort le l ↔ a ∈ l :=
  (isort_perm le l).mem_iff

theorem pairwise_insertBy {α : Type} (le : α → α → Bool)
    (trans : ∀ a b c, le a b = true → le b c = true → le a c = true)
    (total : ∀ a b, (le a b || le b a) = true) (a : α) :
    ∀ l : List α, l.Pairwise (fun x y => le x y = true) → (insertBy le a l).Pairwise (fun x y => le x y = true)
  | [], _ => by simp [insertBy]
  | b :: l, h => by
    unfold insertBy
    have hb := List.pairwise_cons.mp h
    split
    · rename_i hab
      refine List.pairwise_cons.mpr ⟨?_, h⟩
      intro x hx
      rcases List.mem_cons.mp hx with rfl | hx
      · exact hab
      · exact trans a b x hab (hb.1 x hx)
    · rename_i hab
      have hba : le b a = true := by
        have := total a b
        simp only [Bool.or_eq_true] at this
        rcases this with h1 | h1
        · exact absurd h1 hab
        · exact h1
      refine List.pairwise_cons.mpr ⟨?_, pairwise_insertBy le trans total a l hb.2⟩
      intro x hx
      have hx' := (insertBy_perm le a l).mem_iff.mp hx
      rcases List.mem_cons.mp hx' with rfl | hx'
      · exact hba
      · exact hb.1 x hx'

theorem pairwise_isort {α : Type} (le : α → α → Bool)
    (trans : ∀ a b c, le a b = true → le b c = true → le a c = true)
    (total : ∀ a b, (le a b || le b a) = true) :
    ∀ l : List α, (isort le l).Pairwise (fun x y => le x y = true)
  | [] => List.Pairwise.nil
  | a :: l => pairwise_insertBy le trans total a _ (pairwise_isort le trans total l)

/-- **Sorting is permutation-invariant** (model's sort): for a transitive, total comparator that is
antisymmetric on the elements present, any two permutations of the same elements sort to the same list. -/
theorem isort_perm_invariant {α : Type} (le : α → α → Bool)
    (trans : ∀ a b c, le a b = true → le b c = true → le a c = true)
    (total : ∀ a b, (le a b || le b a) = true)
    {l₁ l₂ : List α}
    (anti : ∀ a b, a ∈ l₁ → b ∈ l₁ → le a b = true → le b a = true → a = b)
    (h : l₁.Perm l₂) : isort le l₁ = isort le l₂ := by
  apply List.Perm.eq_of_pairwise (le := fun a b => le a b = true)
  · intro a b ha hb hab hba
    exact anti a b (mem_isort.mp ha) (h.mem_iff.mpr (mem_isort.mp hb)) hab hba
  · exact pairwise_isort le trans total l₁
  · exact pairwise_isort le trans total l₂
  · exact (isort_perm le l₁).trans (h.trans (isort_perm le l₂).symm)

/-- the model's sort agrees with core `List.mergeSort` (and with every other correct sort) whenever the
comparator is antisymmetric on the elements: the sorted permutation is unique -/
theorem isort_eq_mergeSort {α : Type} (le : α → α → Bool)
    (trans : ∀ a b c, le a b = true → le b c = true → le a c = true)
    (total : ∀ a b, (le a b || le b a) = true)
    (l : List α) (anti : ∀ a b, a ∈ l → b ∈ l → le a b = true → le b a = true → a = b) :
    isort le l = l.mergeSort le := by
  apply List.Perm.eq_of_pairwise (le := fun a b => le a b = true)
  · intro a b ha hb hab hba
    exact anti a b (mem_isort.mp ha) (List.mem_mergeSort.mp hb) hab hba
  · exact pairwise_isort le trans total l
  · exact List.pairwise_mergeSort trans total l
  · exact (isort_perm le l).trans (List.mergeSort_perm l le).symm

/-- Sorting is permutation-invariant: for a transitive, total comparator that is antisymmetric on the
elements present, any two permutations of the same elements sort to the same list. -/
theorem mergeSort_perm_invariant {α : Type} (le : α → α → Bool)
    (trans : ∀ a b c, le a b = true → le b c = true → le a c = true)
    (total : ∀ a b, (le a b || le b a) = true)
    {l₁ l₂ : List α}
    (anti : ∀ a b, a ∈ l₁ → b ∈ l₁ → le a b = true → le b a = true → a = b)
    (h : l₁.Perm l₂) : l₁.mergeSort le = l₂.mergeSort le := by
  apply List.Perm.eq_of_pairwise (le := fun a b => le a b = true)
  · intro a b ha hb hab hba
    have ha' : a ∈ l₁ := List.mem_mergeSort.mp ha
    have hb' : b ∈ l₁ := h.mem_iff.mpr (List.mem_mergeSort.mp hb)
    exact anti a b ha' hb' hab hba
  · exact List.pairwise_mergeSort trans total l₁
  · exact List.pairwise_mergeSort trans total l₂
  · exact (List.mergeSort_perm l₁ le).trans (h.trans (List.mergeSort_perm l₂ le).symm)

/-- a sorted list is a fixed point, so the sorted result is the unique sorted permutation -/
theorem mergeSort_unique {α : Type} (le : α → α → Bool)
    (trans : ∀ a b c, le a b = true → le b c = true → le a c = true)
    (total : ∀ a b, (le a b || le b a) = true)
    {l s : List α}
    (anti : ∀ a b, a ∈ l → b ∈ l → le a b = true → le b a = true → a = b)
    (hp : s.Perm l) (hs : s.Pairwise (fun a b => le a b = true)) : l.mergeSort le = s := by
  apply List.Perm.eq_of_pairwise (le := fun a b => le a b = true)
  · intro a b ha hb hab hba
    exact anti a b (List.mem_mergeSort.mp ha) (hp.mem_iff.mp hb) hab hba
  · exact List.pairwise_mergeSort trans total l
  · exact hs
  · exact (List.mergeSort_perm l le).trans hp.symm

theorem natLe_trans : ∀ a b c : Nat, decide (a ≤ b) = true → decide (b ≤ c) = true → decide (a ≤ c) = true := by
  intro a b c h1 h2; simp at *; omega

theorem natLe_total : ∀ a b : Nat, (decide (a ≤ b) || decide (b ≤ a)) = true := by
  intro a b; simp; omega

theorem natLe_anti : ∀ a b : Nat, decide (a ≤ b) = true → decide (b ≤ a) = true → a = b := by
  intro a b h1 h2; simp at *; omega

/-- sorting numbers does not depend on the order they arrive in -/
theorem sortNat_perm_invariant {l₁ l₂ : List Nat} (h : l₁.Perm l₂) :
    isort (fun a b => decide (a ≤ b)) l₁ = isort (fun a b => decide (a ≤ b)) l₂ :=
  isort_perm_invariant _ natLe_trans natLe_total (fun a b _ _ => natLe_anti a b) h

theorem inj_of_nodup_map {α β : Type} (f : α → β) : ∀ {l : List α}, (l.map f).Nodup →
    ∀ {a b : α}, a ∈ l → b ∈ l → f a = f b → a = b
  | [], _, _, _, ha, _, _ => by simp at ha
  | x :: xs, nd, a, b, ha, hb, hab => by
    simp only [List.map_cons, List.nodup_cons, List.mem_map, not_exists, not_and] at nd
    simp only [List.mem_cons] at ha hb
    rcases ha with rfl | ha <;> rcases hb with rfl | hb
    · rfl
    · exact absurd hab.symm (nd.1 b hb)
    · exact absurd hab (nd.1 a ha)
    · exact inj_of_nodup_map f nd.2 ha hb hab

/-- filtering commutes with permutation; with at most one element satisfying the predicate (pairwise
distinct keys, predicate determined by the key) the filtered lists are equal -/
theorem filter_perm_eq_of_key {α : Type} (key : α → Nat) (p : α → Bool) {l₁ l₂ : List α}
    (h : l₁.Perm l₂) (nd : (l₁.map key).Nodup) (one : ∀ a b, p a = true → p b = true → key a = key b) :
    l₁.filter p = l₂.filter p := by
  apply List.Perm.eq_of_pairwise (le := fun a b => key a ≤ key b)
  · intro a b ha hb _ _
    have ha' := (List.mem_filter.mp ha)
    have hb' := (List.mem_filter.mp hb)
    have hk : key a = key b := one a b ha'.2 hb'.2
    have hb1 : b ∈ l₁ := h.mem_iff.mpr hb'.1
    exact inj_of_nodup_map key nd ha'.1 hb1 hk
  · rw [List.pairwise_iff_forall_sublist]
    intro a b hs
    have ha : a ∈ l₁.filter p := hs.subset (by simp)
    have hb : b ∈ l₁.filter p := hs.subset (by simp)
    exact Nat.le_of_eq (one a b (List.mem_filter.mp ha).2 (List.mem_filter.mp hb).2)
  · rw [List.pairwise_iff_forall_sublist]
    intro a b hs
    have ha : a ∈ l₂.filter p := hs.subset (by simp)
    have hb : b ∈ l₂.filter p := hs.subset (by simp)
    exact Nat.le_of_eq (one a b (List.mem_filter.mp ha).2 (List.mem_filter.mp hb).2)
  · exact h.filter p

end PermLemmas
