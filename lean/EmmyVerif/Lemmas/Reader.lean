import EmmyVerif.Model.Reader
/-! Lemmas about the Reader model: the byte accounting invariant and the tiling of the lexer loop. -/
namespace Reader

theorem u8_pos (c : Char) : 1 ≤ u8 c := by
  unfold u8; split <;> (try split) <;> (try split) <;> omega

theorem len8_eq_zero (cs : List Char) : len8 cs = 0 ↔ cs = [] := by
  cases cs with
  | nil => simp [len8]
  | cons c cs => have := u8_pos c; simp [len8]; omega

/-- byte accounting: consumed bytes + remaining bytes = total -/
def WF (r : R) : Prop := r.pos + r.len + len8 r.rest = r.total

theorem wf_new (t : List Char) (s : Nat) : WF (new t s) := by simp [WF, new]

theorem wf_bump (r : R) (h : WF r) : WF (bump r) := by
  unfold bump
  split
  · exact h
  · split
    · exact h
    · rename_i c cs hr
      simp only [WF, hr, len8] at h ⊢
      omega

theorem wf_reset (r : R) (h : WF r) : WF (resetBuff r) := by
  simp only [WF, resetBuff] at h ⊢; omega

theorem isEof_iff (r : R) (h : WF r) : isEof r = true ↔ r.rest = [] := by
  simp only [isEof, decide_eq_true_eq]
  rw [← len8_eq_zero]
  simp only [WF] at h
  omega

theorem bump_fields (r : R) : (bump r).pos = r.pos ∧ (bump r).start = r.start ∧ (bump r).total = r.total ∧
    r.len ≤ (bump r).len := by
  unfold bump
  split
  · simp
  · split
    · simp
    · simp

theorem bumpN_fields (n : Nat) (r : R) : (bumpN n r).pos = r.pos ∧ (bumpN n r).start = r.start ∧
    (bumpN n r).total = r.total ∧ r.len ≤ (bumpN n r).len := by
  induction n generalizing r with
  | zero => simp [bumpN]
  | succ n ih =>
    obtain ⟨a, b, c, d⟩ := ih (bump r)
    obtain ⟨a', b', c', d'⟩ := bump_fields r
    simp only [bumpN]
    exact ⟨by omega, by omega, by omega, by omega⟩

theorem wf_bumpN (n : Nat) (r : R) (h : WF r) : WF (bumpN n r) := by
  induction n generalizing r with
  | zero => exact h
  | succ n ih => exact ih _ (wf_bump r h)

theorem bump_rest_length (r : R) : (bump r).rest.length ≤ r.rest.length := by
  unfold bump
  split
  · exact Nat.le_refl _
  · split
    · exact Nat.le_refl _
    · rename_i c cs hr; simp [hr]

theorem bumpN_rest_length (n : Nat) (r : R) : (bumpN n r).rest.length ≤ r.rest.length := by
  induction n generalizing r with
  | zero => exact Nat.le_refl _
  | succ n ih => exact Nat.le_trans (ih _) (bump_rest_length r)

/-- a bump before the end consumes a char -/
theorem bump_progress (r : R) (h : WF r) (hne : isEof r = false) :
    (bump r).rest.length + 1 = r.rest.length := by
  have hr : r.rest ≠ [] := by
    intro he
    have := (isEof_iff r h).mpr he
    rw [this] at hne; cases hne
  unfold bump
  simp only [hne, Bool.false_eq_true, if_false]
  cases hrr : r.rest with
  | nil => exact absurd hrr hr
  | cons c cs => simp

theorem tokenizeA_tiles (arm : R → Nat) (fuel : Nat) (r : R) (h : WF r) :
    Tiles (tokenizeA arm fuel r).1 (r.start + endPos r) (r.start + endPos (tokenizeA arm fuel r).2) ∧
      WF (tokenizeA arm fuel r).2 ∧ (tokenizeA arm fuel r).2.start = r.start ∧
      (tokenizeA arm fuel r).2.total = r.total := by
  induction fuel generalizing r with
  | zero => simp [tokenizeA, Tiles, h]
  | succ fuel ih =>
    unfold tokenizeA
    split
    · simp [Tiles, h]
    · have hw1 := wf_bumpN (arm (resetBuff r)) (resetBuff r) (wf_reset r h)
      obtain ⟨f1, f2, f3, _⟩ := bumpN_fields (arm (resetBuff r)) (resetBuff r)
      have g1 : (resetBuff r).pos = r.pos + r.len := rfl
      have g2 : (resetBuff r).start = r.start := rfl
      have g3 : (resetBuff r).total = r.total := rfl
      generalize bumpN (arm (resetBuff r)) (resetBuff r) = r1 at hw1 f1 f2 f3 ⊢
      obtain ⟨i1, i2, i3, i4⟩ := ih r1 hw1
      simp only [Tiles, currentRange]
      have e0 : r1.start = r.start := by omega
      have e1 : r.start + endPos r + r1.len = r1.start + endPos r1 := by
        simp only [endPos]; omega
      refine ⟨⟨by simp only [endPos]; omega, ?_⟩, i2, by omega, by omega⟩
      rw [e1, ← e0]; exact i1

/-- with arms that bump at least once before the end, `rest.length + 1` iterations reach the end -/
theorem tokenizeA_complete (arm : R → Nat) (harm : ∀ r, isEof r = false → 1 ≤ arm r)
    (fuel : Nat) (r : R) (h : WF r) (hf : r.rest.length < fuel) :
    isEof (tokenizeA arm fuel r).2 = true ∧ (tokenizeA arm fuel r).1.length ≤ r.rest.length := by
  induction fuel generalizing r with
  | zero => omega
  | succ fuel ih =>
    unfold tokenizeA
    cases he : isEof r with
    | true => simp [he]
    | false =>
      simp only [Bool.false_eq_true, if_false]
      have hw0 := wf_reset r h
      have he' : r.pos + r.len < r.total := by simpa [isEof] using he
      have he0 : isEof (resetBuff r) = false := by
        simp only [isEof, resetBuff, Nat.add_zero]
        exact decide_eq_false (by omega)
      obtain ⟨k, hk⟩ : ∃ k, arm (resetBuff r) = k + 1 := ⟨arm (resetBuff r) - 1, by have := harm _ he0; omega⟩
      have hlen : (bumpN (arm (resetBuff r)) (resetBuff r)).rest.length + 1 ≤ r.rest.length := by
        rw [hk]
        simp only [bumpN]
        have p1 := bump_progress (resetBuff r) hw0 he0
        have p2 := bumpN_rest_length k (bump (resetBuff r))
        have : (resetBuff r).rest = r.rest := rfl
        rw [this] at p1
        omega
      have hw1 := wf_bumpN (arm (resetBuff r)) (resetBuff r) hw0
      obtain ⟨j1, j2⟩ := ih _ hw1 (by omega)
      exact ⟨j1, by simp only [List.length_cons]; omega⟩

end Reader
