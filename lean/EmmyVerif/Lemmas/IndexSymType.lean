import EmmyVerif.Lemmas.IndexSym
/-! `Index.Sym`, type index: after `remove f` the declaration locations and the super types of every type are exactly
those the other files' mutations build (the partial-class case: a type declared in several files keeps the other
files' locations and supers, and only those). -/
namespace Index.Sym
open Index

/-- which file performs a mutation of the type index (`tgeneric` is not attributed to a file by the index) -/
def typeMutFile : Mut → Option File
  | .tdecl f _ _ => some f
  | .tsuper f _ _ => some f
  | _ => none

/-- the (file, value) items pushed under type `t` by `tdecl` -/
def locVal (m : Mut) (t : TId) : Option (File × Nat) :=
  match m with
  | .tdecl f t' pos => if t' = t then some (f, pos) else none
  | _ => none
def locs (ms : List Mut) (t : TId) : List (File × Nat) := ms.filterMap fun m => locVal m t

def supVal (m : Mut) (t : TId) : Option (File × Nat) :=
  match m with
  | .tsuper f t' v => if t' = t then some (f, v) else none
  | _ => none
def sups (ms : List Mut) (t : TId) : List (File × Nat) := ms.filterMap fun m => supVal m t

def ftVal (m : Mut) (f : File) : Option TId :=
  match m with
  | .tdecl f' t _ => if f' = f then some t else none
  | _ => none
/-- `file_types[f]` -/
def ftypes (ms : List Mut) (f : File) : List TId := ms.filterMap fun m => ftVal m f

/-! ### the member / operator / other mutations do not touch the three type maps -/

theorem addInFile_decls (s : S) (f : File) (it : InFiledItem) :
    (addInFile s f it).decls = s.decls ∧ (addInFile s f it).supers = s.supers ∧ (addInFile s f it).fileTypes = s.fileTypes :=
  ⟨rfl, rfl, rfl⟩

theorem addMemberToOwner_types (s : S) (o : MOwner) (id : MId) :
    (addMemberToOwner s o id).decls = s.decls ∧ (addMemberToOwner s o id).supers = s.supers ∧
      (addMemberToOwner s o id).fileTypes = s.fileTypes := by
  unfold addMemberToOwner
  split
  · exact ⟨rfl, rfl, rfl⟩
  · dsimp only
    repeat' split
    all_goals exact ⟨rfl, rfl, rfl⟩

theorem addMember_types (s : S) (o : MOwner) (m : Member) :
    (addMember s o m).decls = s.decls ∧ (addMember s o m).supers = s.supers ∧ (addMember s o m).fileTypes = s.fileTypes := by
  unfold addMember
  dsimp only
  split
  · exact ⟨rfl, rfl, rfl⟩
  · have := addMemberToOwner_types
      (addInFile { (addInFile { s with members := aset s.members m.id m } m.id.1 (.member m.id)) with
        currentOwner := aset (addInFile { s with members := aset s.members m.id m } m.id.1 (.member m.id)).currentOwner m.id o }
        m.id.1 (.owner o)) o m.id
    exact this

theorem bindType_types (s : S) (f : File) (p v : Nat) :
    (bindType s f p v).decls = s.decls ∧ (bindType s f p v).supers = s.supers ∧ (bindType s f p v).fileTypes = s.fileTypes := by
  unfold bindType; split <;> exact ⟨rfl, rfl, rfl⟩

/-- the three maps after one mutation -/
theorem apply_decls (s : S) (m : Mut) :
    (apply s m).decls = match m with | .tdecl f t pos => apush s.decls t (f, pos) | _ => s.decls := by
  cases m with
  | tdecl f t pos => rfl
  | tsuper f t v => rfl
  | tgeneric t v => rfl
  | tbind f p v => exact (bindType_types s f p v).1
  | tns f v => rfl
  | tusing f v => rfl
  | oper f p o op => rfl
  | mtable f k v => rfl
  | madd o m => exact (addMember_types s o m).1
  | mset o f id => rfl
  | mto o id => exact (addMemberToOwner_types s o id).1

theorem apply_supers (s : S) (m : Mut) :
    (apply s m).supers = match m with | .tsuper f t v => apush s.supers t (f, v) | _ => s.supers := by
  cases m with
  | tdecl f t pos => rfl
  | tsuper f t v => rfl
  | tgeneric t v => rfl
  | tbind f p v => exact (bindType_types s f p v).2.1
  | tns f v => rfl
  | tusing f v => rfl
  | oper f p o op => rfl
  | mtable f k v => rfl
  | madd o m => exact (addMember_types s o m).2.1
  | mset o f id => rfl
  | mto o id => exact (addMemberToOwner_types s o id).2.1

theorem apply_fileTypes (s : S) (m : Mut) :
    (apply s m).fileTypes = match m with | .tdecl f t _ => apush s.fileTypes f t | _ => s.fileTypes := by
  cases m with
  | tdecl f t pos => rfl
  | tsuper f t v => rfl
  | tgeneric t v => rfl
  | tbind f p v => exact (bindType_types s f p v).2.2
  | tns f v => rfl
  | tusing f v => rfl
  | oper f p o op => rfl
  | mtable f k v => rfl
  | madd o m => exact (addMember_types s o m).2.2
  | mset o f id => rfl
  | mto o id => exact (addMemberToOwner_types s o id).2.2

/-! ### what `build` puts into the maps -/

/-- a vector-valued map filled by `apush` only: lookups are the pushed items, present iff non-empty -/
theorem pushed_lookup {κ β : Type} [DecidableEq κ] (ms : List Mut) (proj : S → List (κ × List β)) (val : Mut → κ → Option β)
    (hstep : ∀ s m, proj (apply s m) = (match m with | m => proj (apply s m)))
    (hpush : ∀ s m k x, val m k = some x → aget (proj (apply s m)) k = some (agetL (proj s) k ++ [x]))
    (hkeep : ∀ s m k, val m k = none → aget (proj (apply s m)) k = aget (proj s) k)
    (s : S) (k : κ) :
    aget (proj (ms.foldl apply s)) k =
      if ms.filterMap (fun m => val m k) = [] then aget (proj s) k
      else some (agetL (proj s) k ++ ms.filterMap (fun m => val m k)) := by
  induction ms generalizing s with
  | nil => simp
  | cons m r ih =>
    simp only [List.foldl_cons]
    rw [ih]
    cases hv : val m k with
    | some x =>
      have hvs : (m :: r).filterMap (fun m => val m k) = x :: r.filterMap (fun m => val m k) := by simp [hv]
      have hget := hpush s m k x hv
      rw [hvs]
      simp only [List.cons_ne_nil, if_false]
      split
      · next h => rw [h]; exact hget
      · simp only [agetL, hget, Option.getD_some, List.append_assoc, List.singleton_append]
    | none =>
      have hvs : (m :: r).filterMap (fun m => val m k) = r.filterMap (fun m => val m k) := by simp [hv]
      have hget := hkeep s m k hv
      rw [hvs, hget]
      simp only [agetL, hget]

theorem decls_build (ms : List Mut) (t : TId) :
    aget (build ms).decls t = if locs ms t = [] then none else some (locs ms t) := by
  have := pushed_lookup ms (fun s => s.decls) locVal (fun _ _ => rfl)
    (by
      intro s m k x hv
      cases m with
      | tdecl f t' pos =>
        simp only [locVal] at hv
        split at hv
        · next h => cases hv; subst h; simp only [apply, addTypeDecl, apush]; exact aget_aset_self _ _ _
        · cases hv
      | _ => cases hv)
    (by
      intro s m k hv
      rw [apply_decls]
      cases m with
      | tdecl f t' pos =>
        simp only [locVal] at hv
        simp only [apush]
        apply aget_aset_ne
        intro e; subst e; simp at hv
      | _ => rfl)
    S.new t
  unfold build locs
  rw [this]
  simp [S.new, agetL, aget]

theorem supers_build (ms : List Mut) (t : TId) :
    aget (build ms).supers t = if sups ms t = [] then none else some (sups ms t) := by
  have := pushed_lookup ms (fun s => s.supers) supVal (fun _ _ => rfl)
    (by
      intro s m k x hv
      cases m with
      | tsuper f t' v =>
        simp only [supVal] at hv
        split at hv
        · next h => cases hv; subst h; simp only [apply, addSuper, apush]; exact aget_aset_self _ _ _
        · cases hv
      | _ => cases hv)
    (by
      intro s m k hv
      rw [apply_supers]
      cases m with
      | tsuper f t' v =>
        simp only [supVal] at hv
        simp only [apush]
        apply aget_aset_ne
        intro e; subst e; simp at hv
      | _ => rfl)
    S.new t
  unfold build sups
  rw [this]
  simp [S.new, agetL, aget]

theorem fileTypes_build (ms : List Mut) (f : File) :
    aget (build ms).fileTypes f = if ftypes ms f = [] then none else some (ftypes ms f) := by
  have := pushed_lookup ms (fun s => s.fileTypes) ftVal (fun _ _ => rfl)
    (by
      intro s m k x hv
      cases m with
      | tdecl f' t pos =>
        simp only [ftVal] at hv
        split at hv
        · next h => cases hv; subst h; simp only [apply, addTypeDecl, apush]; exact aget_aset_self _ _ _
        · cases hv
      | _ => cases hv)
    (by
      intro s m k hv
      rw [apply_fileTypes]
      cases m with
      | tdecl f' t pos =>
        simp only [ftVal] at hv
        simp only [apush]
        apply aget_aset_ne
        intro e; subst e; simp at hv
      | _ => rfl)
    S.new f
  unfold build ftypes
  rw [this]
  simp [S.new, agetL, aget]

theorem decls_fold (ms : List Mut) (s : S) (t : TId) :
    aget (ms.foldl apply s).decls t =
      if locs ms t = [] then aget s.decls t else some (agetL s.decls t ++ locs ms t) := by
  exact pushed_lookup ms (fun s => s.decls) locVal (fun _ _ => rfl)
    (by
      intro s m k x hv
      cases m with
      | tdecl f t' pos =>
        simp only [locVal] at hv
        split at hv
        · next h => cases hv; subst h; simp only [apply, addTypeDecl, apush]; exact aget_aset_self _ _ _
        · cases hv
      | _ => cases hv)
    (by
      intro s m k hv
      rw [apply_decls]
      cases m with
      | tdecl f t' pos =>
        simp only [locVal] at hv
        simp only [apush]
        apply aget_aset_ne
        intro e; subst e; simp at hv
      | _ => rfl)
    s t

theorem supers_fold (ms : List Mut) (s : S) (t : TId) :
    aget (ms.foldl apply s).supers t =
      if sups ms t = [] then aget s.supers t else some (agetL s.supers t ++ sups ms t) := by
  exact pushed_lookup ms (fun s => s.supers) supVal (fun _ _ => rfl)
    (by
      intro s m k x hv
      cases m with
      | tsuper f t' v =>
        simp only [supVal] at hv
        split at hv
        · next h => cases hv; subst h; simp only [apply, addSuper, apush]; exact aget_aset_self _ _ _
        · cases hv
      | _ => cases hv)
    (by
      intro s m k hv
      rw [apply_supers]
      cases m with
      | tsuper f t' v =>
        simp only [supVal] at hv
        simp only [apush]
        apply aget_aset_ne
        intro e; subst e; simp at hv
      | _ => rfl)
    s t

/-! ### `LuaTypeIndex::remove` on the location / super maps -/

/-- what is left of a vector after the items of `f` are retained away (`none` = the key is dropped) -/
def keepOther (f : File) (l : List (File × Nat)) : Option (List (File × Nat)) :=
  if (l.filter fun x => x.1 ≠ f).isEmpty then none else some (l.filter fun x => x.1 ≠ f)

/-- the per-id update of `remove` on `full_name_type_map` / `supers` -/
def rmV (f : File) (M : List (TId × List (File × Nat))) (t : TId) : List (TId × List (File × Nat)) :=
  match aget M t with
  | none => M
  | some l => if (l.filter fun x => x.1 ≠ f).isEmpty then adel M t else aset M t (l.filter fun x => x.1 ≠ f)

theorem aget_rmV (f : File) (M : List (TId × List (File × Nat))) (t t' : TId) :
    aget (rmV f M t) t' = if t' = t then (aget M t).bind (keepOther f) else aget M t' := by
  unfold rmV keepOther
  cases h : aget M t with
  | none =>
    simp only
    split
    · next e => subst e; simp [h]
    · rfl
  | some l =>
    simp only [Option.bind_some]
    split
    · next he =>
      rw [aget_adel]
      all_goals (try (split <;> rfl))
    · next he =>
      rw [aget_aset]
      all_goals (try (split <;> rfl))

theorem keepOther_idem (f : File) (x : Option (List (File × Nat))) :
    (x.bind (keepOther f)).bind (keepOther f) = x.bind (keepOther f) := by
  cases x with
  | none => rfl
  | some l =>
    simp only [Option.bind_some]
    unfold keepOther
    split
    · rfl
    · next h =>
      simp only [Option.bind_some, List.filter_filter, Bool.and_self]
      rw [if_neg h]

theorem aget_fold_rmV (f : File) (ids : List TId) (M : List (TId × List (File × Nat))) (t' : TId) :
    aget (ids.foldl (rmV f) M) t' = if t' ∈ ids then (aget M t').bind (keepOther f) else aget M t' := by
  induction ids generalizing M with
  | nil => simp
  | cons i r ih =>
    simp only [List.foldl_cons]
    rw [ih, aget_rmV]
    by_cases h1 : t' = i
    · subst h1
      simp only [if_true, List.mem_cons, true_or]
      split
      · exact keepOther_idem f _
      · rfl
    · simp only [h1, if_false, List.mem_cons, false_or]

theorem removeTypeId_proj (f : File) (s : S) (t : TId) :
    (removeTypeId f s t).decls = rmV f s.decls t ∧ (removeTypeId f s t).supers = rmV f s.supers t ∧
      (removeTypeId f s t).fileTypes = s.fileTypes := by
  unfold removeTypeId rmV
  refine ⟨?_, ?_, rfl⟩
  · cases aget s.decls t with
    | none => rfl
    | some l => dsimp only; split <;> rfl
  · cases aget s.supers t with
    | none => rfl
    | some l => dsimp only; all_goals (try (split <;> rfl))

theorem fold_removeTypeId_proj (f : File) (ids : List TId) (s : S) :
    (ids.foldl (removeTypeId f) s).decls = ids.foldl (rmV f) s.decls ∧
      (ids.foldl (removeTypeId f) s).supers = ids.foldl (rmV f) s.supers := by
  induction ids generalizing s with
  | nil => exact ⟨rfl, rfl⟩
  | cons i r ih =>
    simp only [List.foldl_cons]
    obtain ⟨h1, h2, _⟩ := removeTypeId_proj f s i
    rw [(ih _).1, (ih _).2, h1, h2]
    first | exact ⟨rfl, rfl⟩ | skip

/-- `remove` only changes the two maps through the ids listed in `file_types[f]` -/
theorem remove_decls_supers (s : S) (f : File) :
    (remove s f).decls = (agetL s.fileTypes f).foldl (rmV f) s.decls ∧
    (remove s f).supers = (agetL s.fileTypes f).foldl (rmV f) s.supers := by
  have hop : ∀ (t : S) (ids : List (File × Nat)), (ids.foldl removeOperatorId t).decls = t.decls ∧ (ids.foldl removeOperatorId t).supers = t.supers := by
    intro t ids
    induction ids generalizing t with
    | nil => exact ⟨rfl, rfl⟩
    | cons i r ih =>
      simp only [List.foldl_cons]; rw [(ih _).1, (ih _).2]
      unfold removeOperatorId
      split
      · exact ⟨rfl, rfl⟩
      · dsimp only
        split
        · exact ⟨rfl, rfl⟩
        · split <;> exact ⟨rfl, rfl⟩
  have h1 : ∀ t : S, (removeOperators t f).decls = t.decls ∧ (removeOperators t f).supers = t.supers := by
    intro t; unfold removeOperators; split
    · exact ⟨rfl, rfl⟩
    · rw [(hop _ _).1, (hop _ _).2]; exact ⟨rfl, rfl⟩
  have hfo : ∀ (t : S) (os : List MOwner), (os.foldl (removeFromOwner f) t).decls = t.decls ∧ (os.foldl (removeFromOwner f) t).supers = t.supers := by
    intro t os
    induction os generalizing t with
    | nil => exact ⟨rfl, rfl⟩
    | cons o r ih =>
      simp only [List.foldl_cons]; rw [(ih _).1, (ih _).2]
      unfold removeFromOwner; split <;> exact ⟨rfl, rfl⟩
  have hfm : ∀ (t : S) (items : List InFiledItem), (items.foldl dropMemberItem t).decls = t.decls ∧ (items.foldl dropMemberItem t).supers = t.supers := by
    intro t items
    induction items generalizing t with
    | nil => exact ⟨rfl, rfl⟩
    | cons i r ih =>
      simp only [List.foldl_cons]; rw [(ih _).1, (ih _).2]
      cases i <;> exact ⟨rfl, rfl⟩
  have h2 : ∀ t : S, (removeMembers t f).decls = t.decls ∧ (removeMembers t f).supers = t.supers := by
    intro t; unfold removeMembers; split
    · exact ⟨rfl, rfl⟩
    · rw [(hfo _ _).1, (hfo _ _).2, (hfm _ _).1, (hfm _ _).2]; exact ⟨rfl, rfl⟩
  have h3 : (removeTypes s f).decls = (agetL s.fileTypes f).foldl (rmV f) s.decls ∧
      (removeTypes s f).supers = (agetL s.fileTypes f).foldl (rmV f) s.supers := by
    unfold removeTypes agetL
    dsimp only
    cases hft : aget s.fileTypes f with
    | none =>
      simp only [Option.getD_none, List.foldl_nil]
      split <;> exact ⟨rfl, rfl⟩
    | some ids =>
      simp only [Option.getD_some]
      have hp := fold_removeTypeId_proj f ids
        { s with fileNamespace := adel s.fileNamespace f, fileUsing := adel s.fileUsing f, fileTypes := adel s.fileTypes f }
      split
      · exact hp
      · exact hp
  have hr : (remove s f).decls = (removeOperators (removeMembers (removeTypes s f) f) f).decls ∧
      (remove s f).supers = (removeOperators (removeMembers (removeTypes s f) f) f).supers := ⟨rfl, rfl⟩
  rw [hr.1, hr.2, (h1 _).1, (h1 _).2, (h2 _).1, (h2 _).2]
  exact h3

/-! ### `remove_exact` -/

theorem filterMap_filter_comm {α β : Type} (l : List α) (g : α → Option β) (p : α → Bool) (q : β → Bool)
    (h : ∀ a b, g a = some b → p a = q b) :
    (l.filter p).filterMap g = (l.filterMap g).filter q := by
  induction l with
  | nil => rfl
  | cons a r ih =>
    rw [List.filter_cons, List.filterMap_cons]
    cases hg : g a with
    | none =>
      simp only
      split
      · rw [List.filterMap_cons, hg]; exact ih
      · exact ih
    | some b =>
      simp only
      rw [List.filter_cons, ← h a b hg]
      split
      · rw [List.filterMap_cons, hg]; simp only; rw [ih]
      · exact ih

theorem locs_filter (ms : List Mut) (f : File) (t : TId) :
    locs (ms.filter fun m => typeMutFile m ≠ some f) t = (locs ms t).filter fun x => x.1 ≠ f := by
  unfold locs
  apply filterMap_filter_comm
  intro a b hab
  cases a with
  | tdecl g t' pos =>
    simp only [locVal] at hab
    split at hab
    · cases hab; simp [typeMutFile]
    · cases hab
  | _ => cases hab

theorem sups_filter (ms : List Mut) (f : File) (t : TId) :
    sups (ms.filter fun m => typeMutFile m ≠ some f) t = (sups ms t).filter fun x => x.1 ≠ f := by
  unfold sups
  apply filterMap_filter_comm
  intro a b hab
  cases a with
  | tsuper g t' v =>
    simp only [supVal] at hab
    split at hab
    · cases hab; simp [typeMutFile]
    · cases hab
  | _ => cases hab

/-- a location of `f` under `t` means `t` is listed in `file_types[f]` -/
theorem loc_listed (ms : List Mut) (f : File) (t : TId) (pos : Nat) (h : (f, pos) ∈ locs ms t) : t ∈ ftypes ms f := by
  unfold locs at h
  obtain ⟨m, hm, hv⟩ := List.mem_filterMap.mp h
  unfold ftypes
  apply List.mem_filterMap.mpr
  refine ⟨m, hm, ?_⟩
  cases m with
  | tdecl g t' p =>
    simp only [locVal] at hv
    split at hv
    · next e => cases hv; subst e; simp [ftVal]
    · cases hv
  | _ => cases hv

theorem filter_ne_self_of_not_listed (l : List (File × Nat)) (f : File) (h : ∀ x ∈ l, x.1 ≠ f) :
    l.filter (fun x => x.1 ≠ f) = l := by
  rw [List.filter_eq_self]; intro a ha; simpa using h a ha

/-- **type declarations: `remove_exact`.** After `remove f` the locations of every type are exactly those the other
files' declarations build: a type declared only by `f` is gone, a type declared in several files keeps exactly the
other files' locations in their order. -/
theorem decls_remove_exact (ms : List Mut) (f : File) (t : TId) :
    aget (remove (build ms) f).decls t = aget (build (ms.filter fun m => typeMutFile m ≠ some f)).decls t := by
  rw [(remove_decls_supers _ f).1, aget_fold_rmV, decls_build, decls_build, locs_filter]
  have hft : agetL (build ms).fileTypes f = ftypes ms f := by
    unfold agetL; rw [fileTypes_build]; split
    · next h => rw [h]; rfl
    · rfl
  rw [hft]
  by_cases hl : locs ms t = []
  · simp [hl]
  · simp only [hl, if_false, Option.bind_some]
    by_cases hmem : t ∈ ftypes ms f
    · simp only [hmem, if_true, keepOther]
      generalize (locs ms t).filter (fun x => x.1 ≠ f) = l
      cases l <;> simp
    · simp only [hmem, if_false]
      have : (locs ms t).filter (fun x => x.1 ≠ f) = locs ms t := by
        apply filter_ne_self_of_not_listed
        intro x hx e
        exact hmem (loc_listed ms f t x.2 (by rw [← e]; exact hx))
      rw [this]; simp [hl]

/-- **super types: `remove_exact`**, for histories in which `f` adds super types only to types it declares
(what the doc analyzer does: `---@class T: S` both declares `T` and adds the super). -/
theorem supers_remove_exact (ms : List Mut) (f : File) (t : TId)
    (hdecl : ∀ v, (f, v) ∈ sups ms t → t ∈ ftypes ms f) :
    aget (remove (build ms) f).supers t = aget (build (ms.filter fun m => typeMutFile m ≠ some f)).supers t := by
  rw [(remove_decls_supers _ f).2, aget_fold_rmV, supers_build, supers_build, sups_filter]
  have hft : agetL (build ms).fileTypes f = ftypes ms f := by
    unfold agetL; rw [fileTypes_build]; split
    · next h => rw [h]; rfl
    · rfl
  rw [hft]
  by_cases hl : sups ms t = []
  · simp [hl]
  · simp only [hl, if_false, Option.bind_some]
    by_cases hmem : t ∈ ftypes ms f
    · simp only [hmem, if_true, keepOther]
      generalize (sups ms t).filter (fun x => x.1 ≠ f) = l
      cases l <;> simp
    · simp only [hmem, if_false]
      have : (sups ms t).filter (fun x => x.1 ≠ f) = sups ms t := by
        apply filter_ne_self_of_not_listed
        intro x hx e
        exact hmem (hdecl x.2 (by rw [← e]; exact hx))
      rw [this]; simp [hl]

/-- `update_file` on these indexes: `remove` then the file's new mutations -/
def update (s : S) (f : File) (cs : List Mut) : S := cs.foldl apply (remove s f)

/-- **type declarations: `update_exact`.** Updating `f` with the mutations `cs` leaves exactly the locations that the
other files' declarations followed by `cs` build. -/
theorem decls_update_exact (ms : List Mut) (f : File) (cs : List Mut) (t : TId) :
    aget (update (build ms) f cs).decls t =
      aget (build ((ms.filter fun m => typeMutFile m ≠ some f) ++ cs)).decls t := by
  unfold update
  have e : build ((ms.filter fun m => typeMutFile m ≠ some f) ++ cs) =
      cs.foldl apply (build (ms.filter fun m => typeMutFile m ≠ some f)) := by
    unfold build; rw [List.foldl_append]
  rw [e, decls_fold, decls_fold]
  simp only [agetL, decls_remove_exact]

theorem supers_update_exact (ms : List Mut) (f : File) (cs : List Mut) (t : TId)
    (hdecl : ∀ v, (f, v) ∈ sups ms t → t ∈ ftypes ms f) :
    aget (update (build ms) f cs).supers t =
      aget (build ((ms.filter fun m => typeMutFile m ≠ some f) ++ cs)).supers t := by
  unfold update
  have e : build ((ms.filter fun m => typeMutFile m ≠ some f) ++ cs) =
      cs.foldl apply (build (ms.filter fun m => typeMutFile m ≠ some f)) := by
    unfold build; rw [List.foldl_append]
  rw [e, supers_fold, supers_fold]
  simp only [agetL, supers_remove_exact ms f t hdecl]

end Index.Sym
