import EmmyVerif.Model.Fs
/-! Lemmas of the `Fs` family: frame rule for syscalls that touch a single path, the invariant
"every protected path holds a complete, durable, good content", its preservation by one atomic
job at every prefix of every behaviour, and by whole runs. -/
namespace Fs

theorem get_erase_same (s : State) (p : Path) : get (erase s p) p = none := by
  induction s with
  | nil => rfl
  | cons x s ih =>
    obtain ⟨q, f⟩ := x
    by_cases h : q = p <;> simp [erase, get, h, ih]

theorem get_erase_other (s : State) (p q : Path) (h : p ≠ q) : get (erase s q) p = get s p := by
  induction s with
  | nil => rfl
  | cons x s ih =>
    obtain ⟨r, f⟩ := x
    simp only [erase]
    split
    · rename_i h1
      have : r ≠ p := fun e => h (e ▸ h1)
      rw [ih]; simp [get, this]
    · simp only [get]; rw [ih]

theorem get_set_same (s : State) (p : Path) (f : File) : get (set s p f) p = some f := by
  simp [set, get]

theorem get_set_other (s : State) (p q : Path) (f : File) (h : p ≠ q) :
    get (set s q f) p = get s p := by
  have : q ≠ p := fun e => h e.symm
  simp [set, get, this, get_erase_other s p q h]

/-- `c` reads or writes no path but `q` -/
def Sys.localTo (q : Path) : Sys → Prop
  | .creat p => p = q
  | .write p _ => p = q
  | .fsync p => p = q
  | .close _ => True
  | .chmod _ => True
  | .rename _ _ => False
  | .unlink p => p = q

theorem get_step_local (s : State) (c : Sys) (q p : Path) (hc : c.localTo q) (h : p ≠ q) :
    get (step s c) p = get s p := by
  cases c with
  | creat r => cases hc; simp [step, get_set_other _ _ _ _ h]
  | write r d =>
    cases hc; simp only [step]
    split
    · exact get_set_other _ _ _ _ h
    · rfl
  | fsync r =>
    cases hc; simp only [step]
    split
    · exact get_set_other _ _ _ _ h
    · rfl
  | close r => rfl
  | chmod r => rfl
  | rename a b => cases hc
  | unlink r => cases hc; simp [step, get_erase_other _ _ _ h]

theorem get_exec_local (l : List Sys) (s : State) (q p : Path) (hl : ∀ c ∈ l, c.localTo q)
    (h : p ≠ q) : get (exec s l) p = get s p := by
  induction l generalizing s with
  | nil => rfl
  | cons c l ih =>
    simp only [exec, List.foldl_cons]
    have := ih (step s c) (fun c' hc' => hl c' (List.mem_cons_of_mem _ hc'))
    simp only [exec] at this
    rw [this, get_step_local s c q p (hl c List.mem_cons_self) h]

theorem exec_append (s : State) (a b : List Sys) : exec s (a ++ b) = exec (exec s a) b := by
  simp [exec, List.foldl_append]

/-- the invariant: every protected path holds a complete, durable content that is good for it -/
def Ok (T : Path → Prop) (good : Path → Content → Prop) (s : State) : Prop :=
  ∀ p, T p → ∃ c, get s p = some ⟨c, true⟩ ∧ good p c

theorem Ok_of_get_eq {T good} (s s' : State) (h : Ok T good s) (he : ∀ p, T p → get s' p = get s p) :
    Ok T good s' := by
  intro p hp
  obtain ⟨c, h1, h2⟩ := h p hp
  exact ⟨c, by rw [he p hp]; exact h1, h2⟩

theorem partial_local (q : Path) (c : Sys) (part : List Sys) (hc : c.localTo q) (hp : PartialOf c part) :
    ∀ c' ∈ part, c'.localTo q := by
  cases hp with
  | nothing => intro c' h; cases h
  | short p d k =>
    intro c' h
    simp at h; subst h; exact hc

theorem mem_of_prefix {α} {a b : List α} (h : a <+: b) : ∀ x ∈ a, x ∈ b := by
  obtain ⟨t, rfl⟩ := h
  intro x hx; exact List.mem_append_left _ hx

/-- the first five syscalls of the atomic protocol and its clean-up touch only the temporary file -/
theorem atomic_front_local (a : Spec) :
    ∀ c ∈ [Sys.creat a.tmp, .chmod a.tmp, .write a.tmp a.new, .fsync a.tmp, .close a.tmp], c.localTo a.tmp := by
  intro c hc
  simp at hc
  rcases hc with rfl | rfl | rfl | rfl | rfl <;> simp [Sys.localTo]

/-- the temporary file is complete and durable just before the rename -/
theorem atomic_front_tmp (a : Spec) (s : State) :
    get (exec s [Sys.creat a.tmp, .chmod a.tmp, .write a.tmp a.new, .fsync a.tmp, .close a.tmp]) a.tmp
      = some ⟨a.new, true⟩ := by
  simp [exec, step, get_set_same]

theorem prefix_concat_cases {α} (pre l : List α) (c : α) (h : pre <+: l ++ [c]) :
    pre <+: l ∨ pre = l ++ [c] := by
  by_cases hl : pre.length ≤ l.length
  · left
    exact List.prefix_of_prefix_length_le h (List.prefix_append l [c]) hl
  · right
    have h1 := h.length_le
    simp at h1
    exact h.eq_of_length (by simp; omega)

theorem prefix_append_cases {α} (pre a b : List α) (h : pre <+: a ++ b) :
    pre <+: a ∨ ∃ t, pre = a ++ t ∧ t <+: b := by
  by_cases hl : pre.length ≤ a.length
  · left
    exact List.prefix_of_prefix_length_le h (List.prefix_append a b) hl
  · right
    have ha : a <+: pre := List.prefix_of_prefix_length_le (List.prefix_append a b) h (by omega)
    obtain ⟨t, rfl⟩ := ha
    exact ⟨t, rfl, (List.prefix_append_right_inj a).mp h⟩

/-- One atomic job: at every prefix of every behaviour (success, or failure of any syscall with
any partial write, followed by any part of the clean-up) the invariant holds. -/
theorem atomic_job_ok {T good} (a : Spec) (s : State) (b pre : List Sys)
    (htmp : ¬ T a.tmp) (hgood : good a.tgt a.new) (h0 : Ok T good s)
    (hb : JobRun (atomicWrite a) b) (hpre : pre <+: b) : Ok T good (exec s pre) := by
  have hne : ∀ p, T p → p ≠ a.tmp := fun p hp e => htmp (e ▸ hp)
  have frame : ∀ l : List Sys, (∀ c ∈ l, c.localTo a.tmp) → Ok T good (exec s l) := fun l hl =>
    Ok_of_get_eq s _ h0 (fun p hp => get_exec_local l s a.tmp p hl (hne p hp))
  cases hb with
  | ok =>
    have hsteps : (atomicWrite a).steps =
        [Sys.creat a.tmp, .chmod a.tmp, .write a.tmp a.new, .fsync a.tmp, .close a.tmp] ++ [.rename a.tmp a.tgt] := rfl
    rw [hsteps] at hpre
    rcases prefix_concat_cases _ _ _ hpre with h | h
    · exact frame pre (fun c hc => atomic_front_local a c (mem_of_prefix h c hc))
    · subst h
      rw [exec_append]
      have htmpf := atomic_front_tmp a s
      have hfr : ∀ p, T p → get (exec s [Sys.creat a.tmp, .chmod a.tmp, .write a.tmp a.new, .fsync a.tmp, .close a.tmp]) p = get s p :=
        fun p hp => get_exec_local _ s a.tmp p (atomic_front_local a) (hne p hp)
      generalize exec s [Sys.creat a.tmp, .chmod a.tmp, .write a.tmp a.new, .fsync a.tmp, .close a.tmp] = s5 at htmpf hfr
      intro p hp
      simp only [exec, List.foldl_cons, List.foldl_nil, step]
      rw [htmpf]
      by_cases hpt : p = a.tgt
      · subst hpt
        exact ⟨a.new, get_set_same _ _ _, hgood⟩
      · simp only []
        rw [get_set_other _ _ _ _ hpt, get_erase_other _ _ _ (hne p hp), hfr p hp]
        exact h0 p hp
  | fail i c part cl hi hp hcl =>
    apply frame
    intro c' hc'
    have hmem := mem_of_prefix hpre c' hc'
    have hsteps : (atomicWrite a).steps =
        [Sys.creat a.tmp, .chmod a.tmp, .write a.tmp a.new, .fsync a.tmp, .close a.tmp, .rename a.tmp a.tgt] := rfl
    rw [hsteps] at hmem hi
    simp only [List.mem_append] at hmem
    rcases hmem with (hm | hm) | hm
    · -- a predecessor of the failing syscall: never the rename, which is last
      have hi' : i < 6 := by
        have := (List.getElem?_eq_some_iff.mp hi).1; simpa using this
      have : c' ∈ [Sys.creat a.tmp, .chmod a.tmp, .write a.tmp a.new, .fsync a.tmp, .close a.tmp] := by
        have h5 : List.take i [Sys.creat a.tmp, .chmod a.tmp, .write a.tmp a.new, .fsync a.tmp, .close a.tmp, .rename a.tmp a.tgt]
            <+: [Sys.creat a.tmp, .chmod a.tmp, .write a.tmp a.new, .fsync a.tmp, .close a.tmp] := by
          have : i ≤ 5 := by omega
          have e : List.take i [Sys.creat a.tmp, .chmod a.tmp, .write a.tmp a.new, .fsync a.tmp, .close a.tmp, .rename a.tmp a.tgt]
              = List.take i [Sys.creat a.tmp, .chmod a.tmp, .write a.tmp a.new, .fsync a.tmp, .close a.tmp] := by
            match i, this with
            | 0, _ => rfl
            | 1, _ => rfl
            | 2, _ => rfl
            | 3, _ => rfl
            | 4, _ => rfl
            | 5, _ => rfl
          rw [e]; exact List.take_prefix _ _
        exact mem_of_prefix h5 c' hm
      exact atomic_front_local a c' this
    · -- the partial effect of the failing syscall
      cases hp with
      | nothing => cases hm
      | short p d k =>
        simp at hm; subst hm
        -- the only write of the list is the one to tmp
        have : Sys.write p d ∈ [Sys.creat a.tmp, .chmod a.tmp, .write a.tmp a.new, .fsync a.tmp, .close a.tmp, .rename a.tmp a.tgt] :=
          List.mem_of_getElem? hi
        simp at this
        simp [Sys.localTo, this.1]
    · -- the clean-up
      have := hcl.subset hm
      simp [atomicWrite] at this
      rcases this with rfl | rfl <;> simp [Sys.localTo]

/-- whole runs: the invariant holds at every prefix of every run of atomic jobs -/
theorem atomic_run_ok {T good} (specs : List Spec) (s : State) (full pre : List Sys)
    (htmp : ∀ a ∈ specs, ¬ T a.tmp) (hgood : ∀ a ∈ specs, good a.tgt a.new) (h0 : Ok T good s)
    (hrun : Run (specs.map atomicWrite) full) (hpre : pre <+: full) : Ok T good (exec s pre) := by
  induction specs generalizing s full pre with
  | nil =>
    cases hrun
    have : pre = [] := List.prefix_nil.mp hpre
    subst this; exact h0
  | cons a specs ih =>
    simp only [List.map_cons] at hrun
    cases hrun with
    | cons hb hbs =>
      rename_i b bs
      rcases prefix_append_cases _ _ _ hpre with h | ⟨t, rfl, ht⟩
      · exact atomic_job_ok a s b pre (htmp a List.mem_cons_self) (hgood a List.mem_cons_self) h0 hb h
      · rw [exec_append]
        apply ih (exec s b) bs t (fun x hx => htmp x (List.mem_cons_of_mem _ hx))
          (fun x hx => hgood x (List.mem_cons_of_mem _ hx)) _ hbs ht
        exact atomic_job_ok a s b b (htmp a List.mem_cons_self) (hgood a List.mem_cons_self) h0 hb
          (List.prefix_refl _)

theorem behaviour_jobRun (a : Spec) (o : Outcome) (h : o.valid = true) :
    JobRun (atomicWrite a) (behaviour a o) := by
  cases o with
  | ok => exact JobRun.ok
  | failAt i =>
    have hi : i < (atomicWrite a).steps.length := by simpa [Outcome.valid, atomicWrite] using h
    have := JobRun.fail (j := atomicWrite a) i ((atomicWrite a).steps[i]) []
      (if i = 0 then [] else (atomicWrite a).cleanup)
      (List.getElem?_eq_getElem hi) (PartialOf.nothing _) (by split <;> simp)
    simpa [behaviour] using this
  | shortWrite k =>
    exact JobRun.fail (j := atomicWrite a) 2 (.write a.tmp a.new) [.write a.tmp (a.new.take k)]
      (atomicWrite a).cleanup rfl (PartialOf.short _ _ _) (List.Sublist.refl _)

theorem behaviours_run (specs : List Spec) (outs : List Outcome) (hlen : specs.length = outs.length)
    (hv : ∀ o ∈ outs, o.valid = true) : Run (specs.map atomicWrite) (behaviours specs outs) := by
  induction specs generalizing outs with
  | nil => cases outs <;> simp [behaviours] <;> exact Run.nil
  | cons a specs ih =>
    cases outs with
    | nil => simp at hlen
    | cons o outs =>
      simp only [List.map_cons, behaviours]
      exact Run.cons (behaviour_jobRun a o (hv o List.mem_cons_self))
        (ih outs (by simpa using hlen) (fun o' ho' => hv o' (List.mem_cons_of_mem _ ho')))

theorem behaviours_all_ok (specs : List Spec) :
    behaviours specs (specs.map fun _ => Outcome.ok) = specs.flatMap fun a => (atomicWrite a).steps := by
  induction specs with
  | nil => rfl
  | cons a specs ih => simp [behaviours, behaviour, ih]

/-- a power loss does not change a state that satisfies the invariant on the protected paths -/
theorem powerLoss_ok {T good} (s s' : State) (h : Ok T good s) (hpl : PowerLoss s s') : Ok T good s' := by
  intro p hp
  obtain ⟨c, h1, h2⟩ := h p hp
  have := hpl p
  rw [h1] at this
  obtain ⟨f', hf', hd⟩ := this
  simp [Degrades] at hd
  subst hd
  exact ⟨c, hf', h2⟩

end Fs
