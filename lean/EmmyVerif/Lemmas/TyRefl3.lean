import EmmyVerif.Lemmas.TyRefl2
/-!
# Reflexivity with arbitrary references

`wfA` is `wf` with the reference case relaxed: a reference to *any* name — a class, an alias (recursive
ones included), an undeclared name — may stand on its own, as a tuple / `table<…>` parameter and as a
record field. As the direct element of an array (where strict array indexing turns the expected element
into `T | nil` and thereby resolves an alias on the left) it has to satisfy `arrOk`: what the name resolves
to (`get_real_type`, itself when unresolvable) is not a union without `nil`, not `any`, not `never` — every
class, every undeclared name, every alias of a non-union or of a nullable union. As a union member it
still has to be a declared class.
-/
namespace TyM
open Ty

/-- references allowed as the direct element of an array -/
def arrOk (e : Env) (t : Ty) : Bool :=
  match (getRealType e t).getD t with
  | .union l => l.toList.contains tNil
  | m => m ≠ tAny && m ≠ tNever

mutual
def wfA (e : Env) : Ty → Bool
  | .prim k => k ≠ .selfInfer && k ≠ .never
  | .lit _ => true
  | .ref _ => true
  | .func _ => false
  | .array b => wfA e b && (!b.isRef || arrOk e b)
  | .tuple ts => wfAL e ts
  | .tgen ps => wfAL e ps
  | .object fs => wfAF e fs && decide (keysOf fs).Nodup
  | .union ms => ms.toList.all (isAtom e) && decide ms.toList.Nodup && decide (2 ≤ ms.toList.length)
def wfAL (e : Env) : TyL → Bool
  | .nil => true
  | .cons t ts => wfA e t && wfAL e ts
def wfAF (e : Env) : FdL → Bool
  | .nil => true
  | .cons _ t fs => wfA e t && wfAF e fs
end

/-- a reference against itself is settled by `fast_eq_check`, whatever the name denotes -/
theorem ref_refl (e : Env) (ip : List (Name × Ty)) (f lvl : Nat) (n : Name) :
    checkGeneral e ip (f + 1) lvl (.ref n) (.ref n) = .ok := by
  unfold checkGeneral
  simp [fastEq]

theorem wfAL_mem (e : Env) : ∀ (ts : TyL) (t : Ty), wfAL e ts = true → t ∈ ts.toList →
    wfA e t = true ∧ lv t ≤ lvL ts ∧ fd t ≤ fdL ts
  | .nil, t, _, h => by simp [TyL.toList] at h
  | .cons x xs, t, hw, h => by
    simp only [wfAL, Bool.and_eq_true] at hw
    simp only [TyL.toList, List.mem_cons] at h
    rcases h with rfl | h
    · exact ⟨hw.1, by simp [lvL]; omega, by simp [fdL]; omega⟩
    · obtain ⟨a, b, c⟩ := wfAL_mem e xs t hw.2 h
      exact ⟨a, by simp [lvL]; omega, by simp [fdL]; omega⟩

theorem wfAF_mem (e : Env) : ∀ (fs : FdL) (k : Name) (t : Ty), wfAF e fs = true → (k, t) ∈ fs.toList →
    wfA e t = true ∧ lv t ≤ lvF fs ∧ fd t ≤ fdF fs
  | .nil, k, t, _, h => by simp [FdL.toList] at h
  | .cons k' x xs, k, t, hw, h => by
    simp only [wfAF, Bool.and_eq_true] at hw
    simp only [FdL.toList, List.mem_cons, Prod.mk.injEq] at h
    rcases h with ⟨_, rfl⟩ | h
    · exact ⟨hw.1, by simp [lvF]; omega, by simp [fdF]; omega⟩
    · obtain ⟨a, b, c⟩ := wfAF_mem e xs k t hw.2 h
      exact ⟨a, by simp [lvF]; omega, by simp [fdF]; omega⟩

/-! ## structure lemmas (the `ok` direction) -/

/-- `Ref | nil` under `arrOk`: the reference itself or `[Ref, nil]` -/
theorem union_anyref_nil (e : Env) (n : Name) (h : arrOk e (.ref n) = true) :
    union e (.ref n) tNil = .ref n ∨ union e (.ref n) tNil = Ty.mk [.ref n, tNil] := by
  unfold arrOk at h
  simp only [union]
  generalize (getRealType e (.ref n)).getD (.ref n) = m at h
  by_cases hu : m.isUnion = true
  · cases m with
    | union l =>
      simp only [List.contains_iff_mem] at h
      left
      simp [unionImpl, unionSpecial_union_src l (.ref n) tNil (by decide) (by decide), unionGeneric, h,
        canonicalize]
    | _ => simp [Ty.isUnion] at hu
  · have hu' : m.isUnion = false := by simpa using hu
    have h' : m ≠ tAny ∧ m ≠ tNever := by
      cases m <;> simp_all [Ty.isUnion]
    have hs := unionSpecial_nil m (.ref n) h'.1 h'.2
    have hg : unionGeneric m (.ref n) tNil = if m = tNil then .ref n else fromVec [.ref n, tNil] := by
      cases m <;> simp_all [unionGeneric, Ty.isUnion]
    simp only [unionImpl, hs, hg]
    by_cases hm : m = tNil
    · left; simp [hm, canonicalize]
    · right
      rw [if_neg hm, fromVec_pair (.ref n) tNil rfl rfl (by simp),
        canonicalize_mk [.ref n, tNil] (by simp) (by simp [Ty.isUnion]) (by simp),
        mkUnionVec_pair_l (.ref n) rfl (by simp)]

/-- the element check of `Ref[]` against `Ref[]` is settled by `fast_eq_check` in both shapes -/
theorem array_step_ref (e : Env) (ip : List (Name × Ty)) (f lvl : Nat) (n : Name)
    (h : arrOk e (.ref n) = true) :
    checkGeneral e ip (f + 1) lvl (union e (.ref n) tNil) (.ref n) = .ok := by
  rcases union_anyref_nil e n h with hr | hr <;> rw [hr] <;> unfold checkGeneral <;>
    simp [fastEq, isLikeAny, TyL.toList_ofList]

mutual
/-- **reflexivity.** Every well-formed type is assignable to itself, at any guard level that leaves
`lv t` levels, with `fd t` units of model fuel (or more). -/
theorem reflA_ty (e : Env) : (t : Ty) → wfA e t = true → ∀ (ip : List (Name × Ty)) (f lvl : Nat),
    lvl + lv t ≤ maxLevel → checkGeneral e ip (f + fd t) lvl t t = .ok
  | .prim k, hw, ip, f, lvl, _ => atom_refl e ip f lvl _ (by simpa [wfA, isAtom] using hw)
  | .lit c, _, ip, f, lvl, _ => atom_refl e ip f lvl _ rfl
  | .ref n, _, ip, f, lvl, _ => by
    show checkGeneral e ip (f + 2) lvl _ _ = _
    exact ref_refl e ip (f + 1) lvl n
  | .func _, hw, _, _, _, _ => by simp [wfA] at hw
  | .union ms, hw, ip, f, lvl, hl => by
    simp only [wfA, Bool.and_eq_true, List.all_eq_true, decide_eq_true_eq] at hw
    simp only [lv] at hl
    exact union_atoms_refl e ip f lvl ms hw.1.1 (by unfold maxLevel at *; omega)
  | .tgen ps, hw, ip, f, lvl, hl => by
    simp only [wfA] at hw
    simp only [lv] at hl
    show checkGeneral e ip (f + (fdL ps + 3)) lvl _ _ = _
    rw [show f + (fdL ps + 3) = (f + fdL ps) + 3 from by omega]
    apply checkGeneral_tgen_ok
    intro p hp
    obtain ⟨hwp, hlp, hfp⟩ := wfAL_mem e ps p hw hp
    rw [withNext_lt lvl _ (by unfold maxLevel at *; omega)]
    obtain ⟨d, hd⟩ : ∃ d, fdL ps = fd p + d := ⟨fdL ps - fd p, by omega⟩
    rw [hd, show f + (fd p + d) = (f + d) + fd p from by omega]
    exact reflA_tyL e ps hw p hp ip (f + d) (lvl + 1) (by omega)
  | .tuple ts, hw, ip, f, lvl, hl => by
    simp only [wfA] at hw
    simp only [lv] at hl
    show checkGeneral e ip (f + (fdL ts + 3)) lvl _ _ = _
    rw [show f + (fdL ts + 3) = (f + fdL ts) + 3 from by omega]
    apply checkGeneral_tuple_ok e ip _ lvl ts (by unfold maxLevel at *; omega)
    intro p hp
    obtain ⟨hwp, hlp, hfp⟩ := wfAL_mem e ts p hw hp
    rw [withNext_lt (lvl + 1) _ (by unfold maxLevel at *; omega)]
    obtain ⟨d, hd⟩ : ∃ d, fdL ts = fd p + d := ⟨fdL ts - fd p, by omega⟩
    rw [hd, show f + (fd p + d) = (f + d) + fd p from by omega]
    exact reflA_tyL e ts hw p hp ip (f + d) (lvl + 1 + 1) (by omega)
  | .object fs, hw, ip, f, lvl, hl => by
    simp only [wfA, Bool.and_eq_true, decide_eq_true_eq] at hw
    simp only [lv] at hl
    show checkGeneral e ip (f + (fdF fs + 3)) lvl _ _ = _
    rw [show f + (fdF fs + 3) = (f + fdF fs) + 3 from by omega]
    apply checkGeneral_object_ok e ip _ lvl fs (by rw [← keysOf_eq]; exact hw.2)
      (by unfold maxLevel at *; omega)
    intro kt hkt
    obtain ⟨hwp, hlp, hfp⟩ := wfAF_mem e fs kt.1 kt.2 hw.1 hkt
    rw [withNext_lt lvl _ (by unfold maxLevel at *; omega),
      withNext_lt (lvl + 1) _ (by unfold maxLevel at *; omega)]
    obtain ⟨d, hd⟩ : ∃ d, fdF fs = fd kt.2 + d := ⟨fdF fs - fd kt.2, by omega⟩
    rw [hd, show f + (fd kt.2 + d) = (f + d) + fd kt.2 from by omega]
    exact reflA_fdL e fs hw.1 kt hkt ip (f + d) (lvl + 1 + 1) (by omega)
  | .array b, hw, ip, f, lvl, hl => by
    simp only [wfA, Bool.and_eq_true] at hw
    obtain ⟨hw, hra⟩ := hw
    simp only [lv] at hl
    have hlt : lvl < maxLevel := by unfold maxLevel at *; omega
    have ihb := reflA_ty e b hw
    show checkGeneral e ip (f + (fd b + 10)) lvl _ _ = _
    rw [show f + (fd b + 10) = (f + fd b + 7) + 3 from by omega]
    apply checkGeneral_array_ok
    rw [withNext_lt lvl _ hlt]
    by_cases harr : e.arrayIndex = true
    · rw [if_pos harr]
      -- strict array index: the element type becomes `b | nil`
      match b, hw, hra, hl, ihb with
      | .prim k, hw, _, hl, _ =>
        have hatom : isAtom e (.prim k) = true := by simpa [wfA, isAtom] using hw
        by_cases hk1 : k = .nil
        · subst hk1
          rw [union_nil_nil]
          exact atom_refl e ip (f + fd (.prim .nil) + 5) (lvl + 1) _ rfl
        · by_cases hk2 : k = .any
          · subst hk2
            rw [union_any_nil]
            exact checkGeneral_compact_likeAny e ip _ (lvl + 1) _ _ rfl
          · have hpl : Plain (.prim k) := by
              refine ⟨rfl, ?_, ?_⟩
              · intro h; cases h; exact hk2 rfl
              · intro h; cases h; simp [wfA] at hw
            have hne : (Ty.prim k) ≠ tNil := by intro h; cases h; exact hk1 rfl
            rw [union_plain_nil e _ hpl hne]
            have hnd : [Ty.prim k, tNil].Nodup := by simp [hne]
            have hperm := mkUnionVec_perm [Ty.prim k, tNil] hnd
            rw [show f + fd (.prim k) + 7 = (f + 4) + 5 from by simp [fd]]
            apply array_step_union e ip (f + 4) (lvl + 1) _ (.prim k)
            · intro m hm
              have := hperm.mem_iff.mp hm
              simp at this
              rcases this with rfl | rfl
              · exact hatom
              · rfl
            · exact hperm.mem_iff.mpr (by simp)
            · unfold maxLevel at *; omega
      | .lit c, _, _, hl, _ =>
        have hpl : Plain (.lit c) := ⟨rfl, by simp, by simp⟩
        have hne : (Ty.lit c) ≠ tNil := by simp
        rw [union_plain_nil e _ hpl hne, mkUnionVec_pair_l _ rfl hne,
          show f + fd (.lit c) + 7 = (f + 4) + 5 from by simp [fd]]
        apply array_step_union e ip (f + 4) (lvl + 1) _ (.lit c)
        · intro m hm; simp at hm; rcases hm with rfl | rfl <;> rfl
        · simp
        · unfold maxLevel at *; omega
      | .ref n, hw, hra, hl, _ =>
        have hok : arrOk e (.ref n) = true := by simpa [Ty.isRef] using hra
        rw [show f + fd (.ref n) + 7 = (f + 8) + 1 from by simp [fd]]
        exact array_step_ref e ip (f + 8) (lvl + 1) n hok
      | .func _, hw, _, _, _ => simp [wfA] at hw
      | .union l, hw, _, hl, _ =>
        have hw' := hw
        simp only [wfA, Bool.and_eq_true, List.all_eq_true, decide_eq_true_eq] at hw'
        obtain ⟨⟨hat, hnd⟩, hlen⟩ := hw'
        have hnu : ∀ t ∈ l.toList, t.isUnion = false := fun t ht => atom_not_union e t (hat t ht)
        obtain ⟨y, hy, hmem⟩ := union_union_nil e l.toList hnd hnu hlen
        have hb : (Ty.union l) = Ty.mk l.toList := by simp [Ty.mk]
        rw [hb, hy, ← hb, show f + fd (.union l) + 7 = (f + 12) + 2 from by simp [fd],
          show Ty.mk y = Ty.union (TyL.ofList y) from rfl]
        apply checkGeneral_union_union_ok
        rw [withNext_lt (lvl + 1) _ (by unfold maxLevel at *; simp [lv] at hl; omega)]
        apply allOk_ok
        intro cm hcm
        rw [withNext_lt (lvl + 1 + 1) _ (by unfold maxLevel at *; simp [lv] at hl; omega)]
        rw [show f + 12 = (f + 7) + 5 from by omega]
        apply array_step_union e ip (f + 7) (lvl + 1 + 1 + 1) y cm
        · intro m hm
          rcases (hmem m).mp hm with h | h
          · exact hat m h
          · subst h; rfl
        · exact (hmem cm).mpr (.inl hcm)
        · unfold maxLevel at *; simp [lv] at hl; omega
      | .array b', hw, _, hl, ihb =>
        rw [show f + fd (.array b') + 7 = (f + 5 + fd (.array b')) + 2 from by omega]
        exact array_step_compound e ip _ (lvl + 1) _ ⟨rfl, by simp, by simp⟩ rfl rfl rfl rfl
          (by unfold maxLevel at *; omega)
          (ihb ip (f + 5) (lvl + 1 + 1) (by omega))
      | .tuple ts, hw, _, hl, ihb =>
        rw [show f + fd (.tuple ts) + 7 = (f + 5 + fd (.tuple ts)) + 2 from by omega]
        exact array_step_compound e ip _ (lvl + 1) _ ⟨rfl, by simp, by simp⟩ rfl rfl rfl rfl
          (by unfold maxLevel at *; omega)
          (ihb ip (f + 5) (lvl + 1 + 1) (by omega))
      | .tgen ps, hw, _, hl, ihb =>
        rw [show f + fd (.tgen ps) + 7 = (f + 5 + fd (.tgen ps)) + 2 from by omega]
        exact array_step_compound e ip _ (lvl + 1) _ ⟨rfl, by simp, by simp⟩ rfl rfl rfl rfl
          (by unfold maxLevel at *; omega)
          (ihb ip (f + 5) (lvl + 1 + 1) (by omega))
      | .object fs, hw, _, hl, ihb =>
        rw [show f + fd (.object fs) + 7 = (f + 5 + fd (.object fs)) + 2 from by omega]
        exact array_step_compound e ip _ (lvl + 1) _ ⟨rfl, by simp, by simp⟩ rfl rfl rfl rfl
          (by unfold maxLevel at *; omega)
          (ihb ip (f + 5) (lvl + 1 + 1) (by omega))
    · rw [if_neg harr, show f + fd b + 7 = (f + 7) + fd b from by omega]
      exact ihb ip (f + 7) (lvl + 1) (by omega)
theorem reflA_tyL (e : Env) : (ts : TyL) → wfAL e ts = true → ∀ p ∈ ts.toList,
    ∀ (ip : List (Name × Ty)) (f lvl : Nat), lvl + lv p ≤ maxLevel → checkGeneral e ip (f + fd p) lvl p p = .ok
  | .nil, _, p, hp => by simp [TyL.toList] at hp
  | .cons t ts, hw, p, hp => by
    simp only [wfAL, Bool.and_eq_true] at hw
    simp only [TyL.toList, List.mem_cons] at hp
    rcases hp with h | hp
    · rw [h]; exact reflA_ty e t hw.1
    · exact reflA_tyL e ts hw.2 p hp
theorem reflA_fdL (e : Env) : (fs : FdL) → wfAF e fs = true → ∀ kt ∈ fs.toList,
    ∀ (ip : List (Name × Ty)) (f lvl : Nat), lvl + lv kt.2 ≤ maxLevel →
      checkGeneral e ip (f + fd kt.2) lvl kt.2 kt.2 = .ok
  | .nil, _, kt, hp => by simp [FdL.toList] at hp
  | .cons k t fs, hw, kt, hp => by
    simp only [wfAF, Bool.and_eq_true] at hw
    simp only [FdL.toList, List.mem_cons] at hp
    rcases hp with h | hp
    · rw [h]; exact reflA_ty e t hw.1
    · exact reflA_fdL e fs hw.2 kt hp
end

end TyM
