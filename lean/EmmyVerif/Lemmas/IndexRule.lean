import EmmyVerif.Lemmas.IndexModule
/-! moduleMap rule fragment `^pre(.*)suf$ → rpre${1}rsuf` and multi-root `extract_module_path`. -/
namespace Index.Module

/-- a rule rewrites exactly the strings `pre ++ mid ++ suf` (no line break in `mid`) -/
theorem applyRule_match (r : Rule) (mid : List Char) (hm : mid.all (fun c => c ≠ '\n') = true) :
    applyRule r (r.pre ++ mid ++ r.suf) = r.rpre ++ mid ++ r.rsuf := by
  unfold applyRule
  have hp : r.pre.isPrefixOf (r.pre ++ mid ++ r.suf) = true :=
    List.isPrefixOf_iff_prefix.mpr ⟨mid ++ r.suf, by simp⟩
  have hl : r.pre.length + r.suf.length ≤ (r.pre ++ mid ++ r.suf).length := by simp [List.length_append]
  have hd : (r.pre ++ mid ++ r.suf).drop r.pre.length = mid ++ r.suf := by simp [List.append_assoc]
  simp only [hp, hl, decide_true, Bool.and_self, if_true, hd]
  have h1 : (mid ++ r.suf).length - r.suf.length = mid.length := by simp [List.length_append]
  rw [h1]
  have h2 : (mid ++ r.suf).drop mid.length = r.suf := by simp
  have h3 : (mid ++ r.suf).take mid.length = mid := by simp
  rw [h2, h3]
  simp only [beq_self_eq_true, hm, Bool.and_self, if_true]

theorem applyRule_sound (r : Rule) (s : List Char) (h : applyRule r s ≠ s) :
    ∃ mid, s = r.pre ++ mid ++ r.suf ∧ mid.all (fun c => c ≠ '\n') = true ∧ applyRule r s = r.rpre ++ mid ++ r.rsuf := by
  have h0 := h
  unfold applyRule at h
  split at h
  · next hc =>
    simp only [Bool.and_eq_true, decide_eq_true_eq] at hc
    obtain ⟨hp, hl⟩ := hc
    obtain ⟨t, ht⟩ := List.isPrefixOf_iff_prefix.mp hp
    subst ht
    simp only [List.drop_left] at h
    split at h
    · next hc2 =>
      simp only [Bool.and_eq_true, beq_iff_eq] at hc2
      have heq : r.pre ++ t = r.pre ++ t.take (t.length - r.suf.length) ++ r.suf := by
        rw [List.append_assoc]
        congr 1
        conv => lhs; rw [← List.take_append_drop (t.length - r.suf.length) t]
        rw [hc2.1]
      refine ⟨t.take (t.length - r.suf.length), heq, hc2.2, ?_⟩
      rw [heq]
      exact applyRule_match r _ hc2.2
    · exact absurd rfl h
  · exact absurd rfl h

/-! ### `extract_module_path` over several workspace roots -/

/-- workspace `w` offers module path `mp` for the path components `comps` -/
def Offers (pats : List Pattern) (comps : List Seg) (w : Workspace) (mp : List Char) : Prop :=
  ∃ rel, stripPrefix w.root comps = some rel ∧ includes w.pkg rel = true ∧
    matchPatterns pats (joinWith '/' rel) = some mp

theorem extractGo_minimal (pats : List Pattern) (comps : List Seg) (wss : List Workspace)
    (hroot : ∀ w ∈ wss, stripPrefix w.root comps ≠ some [])
    (acc : Option (List Char × Nat)) (mp : List Char) (id : Nat)
    (h : extractGo pats comps wss acc = some (mp, id)) :
    (∀ m i, acc = some (m, i) → utf8Len mp ≤ utf8Len m) ∧
    (∀ w ∈ wss, ∀ mp', Offers pats comps w mp' → utf8Len mp ≤ utf8Len mp') ∧
    ((∃ i, acc = some (mp, i)) ∨ ∃ w ∈ wss, Offers pats comps w mp) := by
  induction wss generalizing acc with
  | nil =>
    simp only [extractGo] at h
    subst h
    refine ⟨?_, ?_, Or.inl ⟨id, rfl⟩⟩
    · intro m i e; cases e; exact Nat.le_refl _
    · intro w hw; cases hw
  | cons w ws ih =>
    have hroot' : ∀ w' ∈ ws, stripPrefix w'.root comps ≠ some [] := fun w' hw' => hroot w' (List.mem_cons_of_mem _ hw')
    simp only [extractGo] at h
    -- a workspace that offers nothing adds no obligation
    have skip : (∀ mp', ¬ Offers pats comps w mp') → extractGo pats comps ws acc = some (mp, id) →
        (∀ m i, acc = some (m, i) → utf8Len mp ≤ utf8Len m) ∧
        (∀ w' ∈ w :: ws, ∀ mp', Offers pats comps w' mp' → utf8Len mp ≤ utf8Len mp') ∧
        ((∃ i, acc = some (mp, i)) ∨ ∃ w' ∈ w :: ws, Offers pats comps w' mp) := by
      intro hno hh
      obtain ⟨h1, h2, h3⟩ := ih hroot' acc hh
      refine ⟨h1, ?_, ?_⟩
      · intro w' hw' mp' ho
        rcases List.mem_cons.mp hw' with e | e
        · subst e; exact absurd ho (hno mp')
        · exact h2 w' e mp' ho
      · rcases h3 with h3 | ⟨w', hw', ho⟩
        · exact Or.inl h3
        · exact Or.inr ⟨w', List.mem_cons_of_mem _ hw', ho⟩
    cases hs : stripPrefix w.root comps with
    | none =>
      rw [hs] at h
      exact skip (by rintro mp' ⟨rel, h1, _⟩; rw [hs] at h1; cases h1) h
    | some rel =>
      rw [hs] at h
      simp only at h
      by_cases hinc : includes w.pkg rel = true
      · simp only [hinc, Bool.not_true, Bool.false_eq_true, if_false] at h
        have hrel : rel ≠ [] := by
          intro e; rw [e] at hs; exact hroot w List.mem_cons_self hs
        have hne : (rel.isEmpty && !(lastSeg w.root).isEmpty) = false := by
          cases rel with
          | nil => exact absurd rfl hrel
          | cons a b => rfl
        rw [hne] at h
        simp only [Bool.false_eq_true, if_false] at h
        cases hm : matchPatterns pats (joinWith '/' rel) with
        | none =>
          rw [hm] at h
          exact skip (by rintro mp' ⟨rel', h1, _, h3⟩; rw [hs] at h1; cases h1; rw [hm] at h3; cases h3) h
        | some mpw =>
          rw [hm] at h
          simp only at h
          have hoff : Offers pats comps w mpw := ⟨rel, hs, hinc, hm⟩
          have huniq : ∀ mp', Offers pats comps w mp' → mp' = mpw := by
            rintro mp' ⟨rel', h1, _, h3⟩
            rw [hs] at h1; cases h1; rw [hm] at h3; cases h3; rfl
          cases hacc : acc with
          | none =>
            rw [hacc] at h
            simp only at h
            obtain ⟨h1, h2, h3⟩ := ih hroot' _ h
            refine ⟨(by intro m i e; cases e), ?_, ?_⟩
            · intro w' hw' mp' ho
              rcases List.mem_cons.mp hw' with e | e
              · subst e; rw [huniq mp' ho]; exact h1 mpw _ rfl
              · exact h2 w' e mp' ho
            · rcases h3 with ⟨i, hi⟩ | ⟨w', hw', ho⟩
              · cases hi; exact Or.inr ⟨w, List.mem_cons_self, hoff⟩
              · exact Or.inr ⟨w', List.mem_cons_of_mem _ hw', ho⟩
          | some am =>
            obtain ⟨m, mi⟩ := am
            rw [hacc] at h
            simp only at h
            by_cases hlt : utf8Len mpw < utf8Len m
            · rw [if_pos hlt] at h
              obtain ⟨h1, h2, h3⟩ := ih hroot' _ h
              have hb := h1 mpw _ rfl
              refine ⟨?_, ?_, ?_⟩
              · intro m' i' e; cases e; omega
              · intro w' hw' mp' ho
                rcases List.mem_cons.mp hw' with e | e
                · subst e; rw [huniq mp' ho]; exact hb
                · exact h2 w' e mp' ho
              · rcases h3 with ⟨i, hi⟩ | ⟨w', hw', ho⟩
                · cases hi; exact Or.inr ⟨w, List.mem_cons_self, hoff⟩
                · exact Or.inr ⟨w', List.mem_cons_of_mem _ hw', ho⟩
            · rw [if_neg hlt] at h
              obtain ⟨h1, h2, h3⟩ := ih hroot' _ h
              have hb := h1 m mi rfl
              refine ⟨?_, ?_, ?_⟩
              · intro m' i' e; cases e; exact hb
              · intro w' hw' mp' ho
                rcases List.mem_cons.mp hw' with e | e
                · subst e; rw [huniq mp' ho]; omega
                · exact h2 w' e mp' ho
              · rcases h3 with ⟨i, hi⟩ | ⟨w', hw', ho⟩
                · exact Or.inl ⟨i, hi⟩
                · exact Or.inr ⟨w', List.mem_cons_of_mem _ hw', ho⟩
      · have hinc' : includes w.pkg rel = false := by cases hx : includes w.pkg rel <;> simp_all
        simp only [hinc', Bool.not_false, if_true] at h
        exact skip (by rintro mp' ⟨rel', h1, h2, _⟩; rw [hs] at h1; cases h1; rw [hinc'] at h2; cases h2) h

end Index.Module
