import EmmyVerif.Model.IndexMap
/-! Lemmas about the association-list maps of the `Index` family. -/
namespace Index

variable {κ : Type} {α : Type} [DecidableEq κ]

@[simp] theorem aget_nil (k : κ) : aget ([] : List (κ × α)) k = none := rfl

theorem aget_aset_self (m : List (κ × α)) (k : κ) (v : α) : aget (aset m k v) k = some v := by
  induction m with
  | nil => simp [aset, aget]
  | cons e r ih =>
    obtain ⟨k', v'⟩ := e
    by_cases h : k' = k
    · simp [aset, aget, h]
    · simp [aset, aget, h, ih]

theorem aget_aset_ne (m : List (κ × α)) (k k' : κ) (v : α) (h : k' ≠ k) :
    aget (aset m k v) k' = aget m k' := by
  induction m with
  | nil => simp [aset, aget]; exact fun e => absurd e.symm h
  | cons e r ih =>
    obtain ⟨k2, v2⟩ := e
    by_cases h2 : k2 = k
    · subst h2
      simp [aset, aget, Ne.symm h]
    · by_cases h3 : k2 = k'
      · subst h3; simp [aset, aget, h2]
      · simp [aset, aget, h2, h3, ih]

theorem aget_aset (m : List (κ × α)) (k k' : κ) (v : α) :
    aget (aset m k v) k' = if k' = k then some v else aget m k' := by
  by_cases h : k' = k
  · subst h; simp [aget_aset_self]
  · simp [h, aget_aset_ne _ _ _ _ h]

theorem aget_adel (m : List (κ × α)) (k k' : κ) :
    aget (adel m k) k' = if k' = k then none else aget m k' := by
  induction m with
  | nil => simp [adel, aget]
  | cons e r ih =>
    obtain ⟨k2, v2⟩ := e
    simp only [adel] at ih ⊢
    by_cases h2 : k2 = k
    · subst h2
      simp only [List.filter, decide_true, Bool.not_true]
      rw [ih]
      by_cases h : k' = k2
      · simp [h]
      · simp [h, aget, Ne.symm h]
    · simp only [List.filter, h2, decide_false, Bool.not_false]
      simp only [aget]
      rw [ih]
      by_cases h3 : k2 = k'
      · subst h3; simp [h2]
      · simp [h3]

theorem agetL_aset (m : List (κ × List α)) (k k' : κ) (v : List α) :
    agetL (aset m k v) k' = if k' = k then v else agetL m k' := by
  unfold agetL; rw [aget_aset]; split <;> simp

theorem agetL_adel (m : List (κ × List α)) (k k' : κ) :
    agetL (adel m k) k' = if k' = k then [] else agetL m k' := by
  unfold agetL; rw [aget_adel]; split <;> simp

theorem agetL_apush (m : List (κ × List α)) (k k' : κ) (x : α) :
    agetL (apush m k x) k' = if k' = k then agetL m k' ++ [x] else agetL m k' := by
  unfold apush; rw [agetL_aset]; split
  · next h => subst h; rfl
  · rfl

theorem agetL_aretainDrop (m : List (κ × List α)) (k k' : κ) (p : α → Bool) :
    agetL (aretainDrop m k p) k' = if k' = k then (agetL m k').filter p else agetL m k' := by
  unfold aretainDrop
  cases h : aget m k with
  | none =>
    simp only
    split
    · next hk => subst hk; simp [agetL, h]
    · rfl
  | some xs =>
    simp only
    split
    · next he =>
      rw [agetL_adel]; split
      · next hk => subst hk; simp [agetL, h]; simpa using he
      · rfl
    · rw [agetL_aset]; split
      · next hk => subst hk; simp [agetL, h]
      · rfl

/-- updating an existing vector-valued entry by a function that fixes `[]` -/
theorem agetL_update (m : List (κ × List α)) (k k' : κ) (g : List α → List α) (hg : g [] = []) :
    agetL (aupdate m k g) k' = if k' = k then g (agetL m k') else agetL m k' := by
  unfold aupdate
  cases h : aget m k with
  | none =>
    simp only
    split
    · next hk => subst hk; simp [agetL, h, hg]
    · rfl
  | some xs =>
    simp only
    rw [agetL_aset]; split
    · next hk => subst hk; simp [agetL, h]
    · rfl

/-- deleting a key whose vector is empty does not change any `agetL` -/
theorem agetL_adel_empty (m : List (κ × List α)) (k k' : κ) (h : agetL m k = []) :
    agetL (adel m k) k' = agetL m k' := by
  rw [agetL_adel]; split
  · next hk => subst hk; exact h.symm
  · rfl

/-- inserting an empty vector at an absent key does not change any `agetL` -/
theorem agetL_aset_empty (m : List (κ × List α)) (k k' : κ) (h : aget m k = none) :
    agetL (aset m k []) k' = agetL m k' := by
  rw [agetL_aset]; split
  · next hk => subst hk; simp [agetL, h]
  · rfl

end Index
