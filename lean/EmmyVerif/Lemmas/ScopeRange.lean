import EmmyVerif.Model.ScopeRange
/-!
# Scope lemmas 8 — `find_scope` on a well-nested scope tree

`find_scope` (enter the first child whose range contains the position, repeat) walks through exactly
the scopes whose range contains the position; in particular it ends in the innermost one.
-/
namespace Scope

theorem chain_mono_lo : ∀ (ts : List RTree) (lo lo' hi : Nat), lo' ≤ lo → chain lo hi ts = true → chain lo' hi ts = true
  | [], lo, lo', hi, h, hc => by simp only [chain, decide_eq_true_eq] at *; omega
  | t :: ts, lo, lo', hi, h, hc => by
    simp only [chain, Bool.and_eq_true, decide_eq_true_eq] at *
    exact ⟨⟨by omega, hc.1.2⟩, hc.2⟩

theorem chain_append : ∀ (a b : List RTree) (lo mid hi : Nat), chain lo mid a = true → chain mid hi b = true →
    chain lo hi (a ++ b) = true
  | [], b, lo, mid, hi, ha, hb => by
    simp only [chain, decide_eq_true_eq] at ha
    exact chain_mono_lo b mid lo hi ha hb
  | t :: ts, b, lo, mid, hi, ha, hb => by
    simp only [chain, Bool.and_eq_true, decide_eq_true_eq, List.cons_append] at *
    exact ⟨ha.1, chain_append ts b _ mid hi ha.2 hb⟩

theorem chain_le : ∀ (ts : List RTree) (lo hi : Nat), chain lo hi ts = true → lo ≤ hi
  | [], lo, hi, h => by simpa [chain] using h
  | .node k s e cs :: ts, lo, hi, h => by
    simp only [chain, wellNested, Bool.and_eq_true, decide_eq_true_eq] at h
    obtain ⟨⟨h1, h2, _⟩, h3⟩ := h
    have h1 : lo ≤ s := h1
    have := chain_le ts e hi h3
    omega

mutual
/-- nothing in a well-nested tree that starts after `p` contains `p` -/
theorem containing_before : ∀ (t : RTree) (p : Nat), wellNested t = true → p < t.start → containingTree t p = []
  | .node k s e cs, p, h, hp => by
    simp only [wellNested, Bool.and_eq_true, decide_eq_true_eq] at h
    simp only [RTree.start] at hp
    have : ¬ s ≤ p := by omega
    simp only [containingTree, this, decide_false, Bool.false_and, Bool.false_eq_true, if_false, List.nil_append]
    exact containingF_before cs p s e h.2 hp
theorem containingF_before : ∀ (ts : List RTree) (p lo hi : Nat), chain lo hi ts = true → p < lo → containingForest ts p = []
  | [], _, _, _, _, _ => rfl
  | t :: ts, p, lo, hi, h, hp => by
    simp only [chain, Bool.and_eq_true, decide_eq_true_eq] at h
    have h1 := containing_before t p h.1.2 (by omega)
    have hle : t.start ≤ t.stop := by
      cases t with
      | node k s e cs => simp only [wellNested, Bool.and_eq_true, decide_eq_true_eq] at h; exact h.1.2.1
    have h2 := containingF_before ts p t.stop hi h.2 (by omega)
    simp only [containingForest, h1, h2, List.append_nil]
end

mutual
/-- nothing in a well-nested tree that ends at or before `p` contains `p` -/
theorem containing_after : ∀ (t : RTree) (p : Nat), wellNested t = true → t.stop ≤ p → containingTree t p = []
  | .node k s e cs, p, h, hp => by
    simp only [wellNested, Bool.and_eq_true, decide_eq_true_eq] at h
    simp only [RTree.stop] at hp
    have : ¬ p < e := by omega
    simp only [containingTree, this, decide_false, Bool.and_false, Bool.false_eq_true, if_false, List.nil_append]
    exact containingF_after cs p s e h.2 hp
theorem containingF_after : ∀ (ts : List RTree) (p lo hi : Nat), chain lo hi ts = true → hi ≤ p → containingForest ts p = []
  | [], _, _, _, _, _ => rfl
  | t :: ts, p, lo, hi, h, hp => by
    simp only [chain, Bool.and_eq_true, decide_eq_true_eq] at h
    have hts := chain_le ts t.stop hi h.2
    have h1 := containing_after t p h.1.2 (by omega)
    have h2 := containingF_after ts p t.stop hi h.2 hp
    simp only [containingForest, h1, h2, List.append_nil]
end

theorem containing_outside (t : RTree) (p : Nat) (h : wellNested t = true) (hp : t.has p = false) :
    containingTree t p = [] := by
  cases t with
  | node k s e cs =>
    simp only [RTree.has, RTree.start, RTree.stop] at hp
    rcases Bool.and_eq_false_iff.mp hp with hp | hp
    · have := of_decide_eq_false hp
      exact containing_before _ p h (by simp only [RTree.start]; omega)
    · have := of_decide_eq_false hp
      exact containing_after _ p h (by simp only [RTree.stop]; omega)

mutual
/-- **`find_scope` enters exactly the scopes that contain the position** (outermost first), so it
ends in the innermost scope containing it. -/
theorem path_eq_containing : ∀ (t : RTree) (p : Nat), wellNested t = true → t.has p = true →
    pathTree t p = containingTree t p
  | .node k s e cs, p, h, hp => by
    simp only [wellNested, Bool.and_eq_true, decide_eq_true_eq] at h
    simp only [RTree.has, RTree.start, RTree.stop] at hp
    have hif : (if (decide (s ≤ p) && decide (p < e)) = true then [(k, s)] else []) = [(k, s)] := if_pos hp
    simp only [pathTree, containingTree]
    rw [hif, pathF_eq_containing cs p s e h.2]
    rfl
theorem pathF_eq_containing : ∀ (ts : List RTree) (p lo hi : Nat), chain lo hi ts = true →
    pathForest ts p = containingForest ts p
  | [], _, _, _, _ => rfl
  | t :: ts, p, lo, hi, h => by
    simp only [chain, Bool.and_eq_true, decide_eq_true_eq] at h
    simp only [pathForest, containingForest]
    cases hp : t.has p with
    | true =>
      simp only [if_true]
      have hlt : p < t.stop := by
        cases t with
        | node k s e cs =>
          simp only [RTree.has, Bool.and_eq_true, RTree.stop, RTree.start] at hp ⊢
          exact of_decide_eq_true hp.2
      rw [path_eq_containing t p h.1.2 hp, containingF_before ts p t.stop hi h.2 hlt, List.append_nil]
    | false =>
      simp only [Bool.false_eq_true, if_false]
      rw [containing_outside t p h.1.2 hp, List.nil_append]
      exact pathF_eq_containing ts p t.stop hi h.2
end

/-- among ordered disjoint scopes the first one containing the position is the only one: the
`is_in_body_block` test ("some child block contains the position") asks whether the child scope that
`find_scope` enters next is a block -/
theorem inBody_iff_next : ∀ (cs : List RTree) (p lo hi : Nat), chain lo hi cs = true →
    (cs.any fun c => decide (c.kind = .normal) && c.has p) =
      (match pathForest cs p with
       | (k, _) :: _ => decide (k = .normal)
       | [] => false)
  | [], _, _, _, _ => rfl
  | t :: ts, p, lo, hi, h => by
    simp only [chain, Bool.and_eq_true, decide_eq_true_eq] at h
    simp only [List.any_cons, pathForest]
    cases hp : t.has p with
    | true =>
      have hlt : p < t.stop := by
        cases t with
        | node k s e cs =>
          simp only [RTree.has, Bool.and_eq_true, RTree.stop, RTree.start] at hp ⊢
          exact of_decide_eq_true hp.2
      -- no later sibling contains `p`
      have hrest : (ts.any fun c => decide (c.kind = .normal) && c.has p) = false := by
        have : ∀ (us : List RTree) (lo' : Nat), chain lo' hi us = true → p < lo' →
            (us.any fun c => decide (c.kind = .normal) && c.has p) = false := by
          intro us
          induction us with
          | nil => intros; rfl
          | cons u us ih =>
            intro lo' hc hlo
            simp only [chain, Bool.and_eq_true, decide_eq_true_eq] at hc
            have hu : u.has p = false := by
              cases u with
              | node k s e cs =>
                have h1 : lo' ≤ s := hc.1.1
                have : ¬ s ≤ p := by omega
                simp [RTree.has, RTree.start, this]
            have hle : u.start ≤ u.stop := by
              cases u with
              | node k s e cs => simp only [wellNested, Bool.and_eq_true, decide_eq_true_eq] at hc; exact hc.1.2.1
            simp only [List.any_cons, hu, Bool.and_false, Bool.false_or]
            exact ih u.stop hc.2 (by omega)
        exact this ts t.stop h.2 hlt
      cases t with
      | node k s e cs =>
        simp only [hp, hrest, Bool.and_true, Bool.or_false, if_true, pathTree, RTree.kind]
    | false =>
      simp only [Bool.and_false, Bool.false_or, Bool.false_eq_true, if_false]
      exact inBody_iff_next ts p t.stop hi h.2

end Scope
