import EmmyVerif.Model.ScopeRange
/-!
# Scope lemmas 8 — `find_scope` on a well-nested scope tree

`find_scope` (enter the first child whose range contains the position, repeat) walks through exactly
the scopes whose range contains the position; in particular it ends in the innermost one.
-/
namespace Scope

theorem chain_mono_lo : ∀ (ts : List RTree) (lo lo' hi : Nat), lo' ≤ lo → chain lo hi ts = true → chain lo' hi ts = true
  | [], lo, lo', hi, h, hc => by simp only [chain, decide_eq_true_eq] at *; omega
  | t :: ts, lo, lo', hi, h, hc => by
    simp only [chain, Bool.and_eq_true, decide_eq_true_eq] at *
    exact ⟨⟨by omega, hc.1.2⟩, hc.2⟩

theorem chain_append : ∀ (a b : List RTree) (lo mid hi : Nat), chain lo mid a = true → chain mid hi b = true →
    chain lo hi (a ++ b) = true
  | [], b, lo, mid, hi, ha, hb => by
    simp only [chain, decide_eq_true_eq] at ha
    exact chain_mono_lo b mid lo hi ha hb
  | t :: ts, b, lo, mid, hi, ha, hb => by
    simp only [chain, Bool.and_eq_true, decide_eq_true_eq, List.cons_append] at *
    exact ⟨ha.1, chain_append ts b _ mid hi ha.2 hb⟩

theorem chain_le : ∀ (ts : List RTree) (lo hi : Nat), chain lo hi ts = true → lo ≤ hi
  | [], lo, hi, h => by simpa [chain] using h
  | .node k s e cs :: ts, lo, hi, h => by
    simp only [chain, wellNested, Bool.and_eq_true, decide_eq_true_eq] at h
    obtain ⟨⟨h1, h2, _⟩, h3⟩ := h
    have h1 : lo ≤ s := h1
    have := chain_le ts e hi h3
    omega

mutual
/-- nothing in a well-nested tree that starts after `p` contains `p` -/
theorem containing_before : ∀ (t : RTree) (p : Nat), wellNested t = true → p < t.start → containingTree t p = []
  | .node k s e cs, p, h, hp => by
    simp only [wellNested, Bool.and_eq_true, decide_eq_true_eq] at h
    simp only [RTree.start] at hp
    have : ¬ s ≤ p := by omega
    simp only [containingTree, this, decide_false, Bool.false_and, Bool.false_eq_true, if_false, List.nil_append]
    exact containingF_before cs p s e h.2 hp
theorem containingF_before : ∀ (ts : List RTree) (p lo hi : Nat), chain lo hi ts = true → p < lo → containingForest ts p = []
  | [], _, _, _, _, _ => rfl
  | t :: ts, p, lo, hi, h, hp => by
    simp only [chain, Bool.and_eq_true, decide_eq_true_eq] at h
    have h1 := containing_before t p h.1.2 (by omega)
    have hle : t.start ≤ t.stop := by
      cases t with
      | node k s e cs => simp only [wellNested, Bool.and_eq_true, decide_eq_true_eq] at h; exact h.1.2.1
    have h2 := containingF_before ts p t.stop hi h.2 (by omega)
    simp only [containingForest, h1, h2, List.append_nil]
end

mutual
/-- nothing in a well-nested tree that ends at or before `p` contains `p` -/
theorem containing_after : ∀ (t : RTree) (p : Nat), wellNested t = true → t.stop ≤ p → containingTree t p = []
  | .node k s e cs, p, h, hp => by
    simp only [wellNested, Bool.and_eq_true, decide_eq_true_eq] at h
    simp only [RTree.stop] at hp
    have : ¬ p < e := by omega
    simp only [containingTree, this, decide_false, Bool.and_false, Bool.false_eq_true, if_false, List.nil_append]
    exact containingF_after cs p s e h.2 hp
theorem containingF_after : ∀ (ts : List RTree) (p lo hi : Nat), chain lo hi ts = true → hi ≤ p → containingForest ts p = []
  | [], _, _, _, _, _ => rfl
  | t :: ts, p, lo, hi, h, hp => by
    simp only [chain, Bool.and_eq_true, decide_eq_true_eq] at h
    have hts := chain_le ts t.stop hi h.2
    have h1 := containing_after t p h.1.2 (by omega)
    have h2 := containingF_after ts p t.stop hi h.2 hp
    simp only [containingForest, h1, h2, List.append_nil]
end

theorem containing_outside (t : RTree) (p : Nat) (h : wellNested t = true) (hp : t.has p = false) :
    containingTree t p = [] := by
  cases t with
  | node k s e cs =>
    simp only [RTree.has, RTree.start, RTree.stop] at hp
    rcases Bool.and_eq_false_iff.mp hp with hp | hp
    · have := of_decide_eq_false hp
      exact containing_before _ p h (by simp only [RTree.start]; omega)
    · have := of_decide_eq_false hp
      exact containing_after _ p h (by simp only [RTree.stop]; omega)

mutual
/-- **`find_scope` enters exactly the scopes that contain the position** (outermost first), so it
ends in the innermost scope containing it. -/
theorem path_eq_containing : ∀ (t : RTree) (p : Nat), wellNested t = true → t.has p = true →
    pathTree t p = containingTree t p
  | .node k s e cs, p, h, hp => by
    simp only [wellNested, Bool.and_eq_true, decide_eq_true_eq] at h
    simp only [RTree.has, RTree.start, RTree.stop] at hp
    have hif : (if (decide (s ≤ p) && decide (p < e)) = true then [(k, s)] else []) = [(k, s)] := if_pos hp
    simp only [pathTree, containingTree]
    rw [hif, pathF_eq_containing cs p s e h.2]
    rfl
theorem pathF_eq_containing : ∀ (ts : List RTree) (p lo hi : Nat), chain lo hi ts = true →
    pathForest ts p = containingForest ts p
  | [], _, _, _, _ => rfl
  | t :: ts, p, lo, hi, h => by
    simp only [chain, Bool.and_eq_true, decide_eq_true_eq] at h
    simp only [pathForest, containingForest]
    cases hp : t.has p with
    | true =>
      simp only [if_true]
      have hlt : p < t.stop := by
        cases t with
        | node k s e cs =>
          simp only [RTree.has, Bool.and_eq_true, RTree.stop, RTree.start] at hp ⊢
          exact of_decide_eq_true hp.2
      rw [path_eq_containing t p h.1.2 hp, containingF_before ts p t.stop hi h.2 hlt, List.append_nil]
    | false =>
      simp only [Bool.false_eq_true, if_false]
      rw [containing_outside t p h.1.2 hp, List.nil_append]
      exact pathF_eq_containing ts p t.stop hi h.2
end

/-- among ordered disjoint scopes the first one containing the position is the only one: the
`is_in_body_block` test ("some child block contains the position") asks whether the child scope that
`find_scope` enters next is a block -/
theorem inBody_iff_next : ∀ (cs : List RTree) (p lo hi : Nat), chain lo hi cs = true →
    (cs.any fun c => decide (c.kind = .normal) && c.has p) =
      (match pathForest cs p with
       | (k, _) :: _ => decide (k = .normal)
       | [] => false)
  | [], _, _, _, _ => rfl
  | t :: ts, p, lo, hi, h => by
    simp only [chain, Bool.and_eq_true, decide_eq_true_eq] at h
    simp only [List.any_cons, pathForest]
    cases hp : t.has p with
    | true =>
      have hlt : p < t.stop := by
        cases t with
        | node k s e cs =>
          simp only [RTree.has, Bool.and_eq_true, RTree.stop, RTree.start] at hp ⊢
          exact of_decide_eq_true hp.2
      -- no later sibling contains `p`
      have hrest : (ts.any fun c => decide (c.kind = .normal) && c.has p) = false := by
        have : ∀ (us : List RTree) (lo' : Nat), chain lo' hi us = true → p < lo' →
            (us.any fun c => decide (c.kind = .normal) && c.has p) = false := by
          intro us
          induction us with
          | nil => intros; rfl
          | cons u us ih =>
            intro lo' hc hlo
            simp only [chain, Bool.and_eq_true, decide_eq_true_eq] at hc
            have hu : u.has p = false := by
              cases u with
              | node k s e cs =>
                have h1 : lo' ≤ s := hc.1.1
                have : ¬ s ≤ p := by omega
                simp [RTree.has, RTree.start, this]
            have hle : u.start ≤ u.stop := by
              cases u with
              | node k s e cs => simp only [wellNested, Bool.and_eq_true, decide_eq_true_eq] at hc; exact hc.1.2.1
            simp only [List.any_cons, hu, Bool.and_false, Bool.false_or]
            exact ih u.stop hc.2 (by omega)
        exact this ts t.stop h.2 hlt
      cases t with
      | node k s e cs =>
        rw [hrest]
        simp only [Bool.and_true, Bool.or_false, if_true, pathTree, RTree.kind]
        first | rfl | congr
    | false =>
      simp only [Bool.and_false, Bool.false_or, Bool.false_eq_true, if_false]
      exact inBody_iff_next ts p t.stop hi h.2

/-! ### The analyzer's scope tree is well nested -/

mutual
theorem sizeExpr_pos' : ∀ e : Expr, 1 ≤ sizeExpr e
  | .name _ => by simp [sizeExpr]
  | .lit => by simp [sizeExpr]
  | .call _ _ => by simp only [sizeExpr]; omega
  | .func _ _ => by simp only [sizeExpr]; omega
end

theorem sizeStat_pos' : ∀ st : Stat, 1 ≤ sizeStat st := by
  intro st; cases st <;> simp only [sizeStat] <;> omega

theorem chain_single (lo hi : Nat) (k : Kind) (s e : Nat) (cs : List RTree) (h1 : lo ≤ s) (h2 : s ≤ e) (h3 : e ≤ hi)
    (hc : chain s e cs = true) : chain lo hi [.node k s e cs] = true := by
  simp [chain, wellNested, RTree.start, RTree.stop, h1, h2, h3, hc]

mutual
theorem chainExpr : ∀ (e : Expr) (pos lo hi : Nat), lo ≤ pos → pos + 2 * sizeExpr e ≤ hi + 1 →
    chain lo hi (scopesExpr pos e) = true
  | .name _, pos, lo, hi, h1, h2 => by simp only [scopesExpr, chain, sizeExpr] at *; simp; omega
  | .lit, pos, lo, hi, h1, h2 => by simp only [scopesExpr, chain, sizeExpr] at *; simp; omega
  | .call _ args, pos, lo, hi, h1, h2 => by
    simp only [scopesExpr, sizeExpr] at *
    exact chainExprs args (pos + 4) lo hi (by omega) (by omega) (by omega)
  | .func ps body, pos, lo, hi, h1, h2 => by
    simp only [scopesExpr, sizeExpr] at *
    exact chain_single lo hi _ _ _ _ h1 (by omega) (by omega)
      (chainBlock body (pos + 2 * (3 + ps.length)) pos _ (by omega) (by omega))
theorem chainExprs : ∀ (es : List Expr) (pos lo hi : Nat), lo ≤ pos → pos + 2 * sizeExprs es ≤ hi + 1 → lo ≤ hi →
    chain lo hi (scopesExprs pos es) = true
  | [], pos, lo, hi, h1, h2, h3 => by simp [scopesExprs, chain, h3]
  | e :: es, pos, lo, hi, h1, h2, h3 => by
    simp only [scopesExprs, sizeExprs] at *
    have := sizeExpr_pos' e
    exact chain_append _ _ lo (pos + 2 * sizeExpr e - 1) hi
      (chainExpr e pos lo _ h1 (by omega))
      (chainExprs es (pos + 2 * sizeExpr e) _ hi (by omega) (by omega) (by omega))
theorem chainStat : ∀ (st : Stat) (pos lo hi : Nat), lo ≤ pos → pos + 2 * sizeStat st ≤ hi + 1 →
    chain lo hi (scopesStat pos st) = true
  | .locl names vals, pos, lo, hi, h1, h2 => by
    simp only [scopesStat]
    refine chain_single lo hi _ _ _ _ h1 ?_ (by omega) ?_
    · simp only [sizeStat]; omega
    · exact chainExprs vals _ pos _ (by omega) (by simp only [sizeStat]; omega) (by simp only [sizeStat]; omega)
  | .assign vars vals, pos, lo, hi, h1, h2 => by
    simp only [scopesStat]
    refine chain_single lo hi _ _ _ _ h1 ?_ (by omega) ?_
    · simp only [sizeStat]; omega
    · exact chainExprs vals _ pos _ (by omega) (by simp only [sizeStat]; omega) (by simp only [sizeStat]; omega)
  | .localFunc n ps body, pos, lo, hi, h1, h2 => by
    simp only [scopesStat]
    refine chain_single lo hi _ _ _ _ h1 ?_ (by omega) ?_
    · simp only [sizeStat]; omega
    · refine chain_single _ _ _ _ _ _ (by omega) ?_ (Nat.le_refl _) ?_
      · simp only [sizeStat]; omega
      · exact chainBlock body _ _ _ (by omega) (by simp only [sizeStat]; omega)
  | .funcStat n ps body, pos, lo, hi, h1, h2 => by
    simp only [scopesStat]
    refine chain_single lo hi _ _ _ _ h1 ?_ (by omega) ?_
    · simp only [sizeStat]; omega
    · refine chain_single _ _ _ _ _ _ (by omega) ?_ (Nat.le_refl _) ?_
      · simp only [sizeStat]; omega
      · exact chainBlock body _ _ _ (by omega) (by simp only [sizeStat]; omega)
  | .forNum v e1 e2 body, pos, lo, hi, h1, h2 => by
    simp only [scopesStat]
    have s1 := sizeExpr_pos' e1
    have s2 := sizeExpr_pos' e2
    refine chain_single lo hi _ _ _ _ h1 ?_ (by omega) ?_
    · simp only [sizeStat]; omega
    · refine chain_append _ _ pos (pos + 6 + 2 * sizeExpr e1 + 2 * sizeExpr e2 - 1) _
        (chain_append _ _ pos (pos + 6 + 2 * sizeExpr e1 - 1) _
          (chainExpr e1 (pos + 6) pos _ (by omega) (by omega))
          (chainExpr e2 (pos + 6 + 2 * sizeExpr e1) _ _ (by omega) (by omega)))
        (chainBlock body _ _ _ (by omega) (by simp only [sizeStat]; omega))
  | .forIn vs e body, pos, lo, hi, h1, h2 => by
    simp only [scopesStat]
    have s1 := sizeExpr_pos' e
    refine chain_single lo hi _ _ _ _ h1 ?_ (by omega) ?_
    · simp only [sizeStat]; omega
    · refine chain_append _ _ pos (pos + 2 * (2 + vs.length) + 2 * sizeExpr e - 1) _
        (chainExpr e _ pos _ (by omega) (by omega))
        (chainBlock body _ _ _ (by omega) (by simp only [sizeStat]; omega))
  | .while_ c body, pos, lo, hi, h1, h2 => by
    simp only [scopesStat, sizeStat] at *
    have s1 := sizeExpr_pos' c
    exact chain_append _ _ lo (pos + 2 + 2 * sizeExpr c - 1) hi
      (chainExpr c (pos + 2) lo _ (by omega) (by omega))
      (chainBlock body _ _ _ (by omega) (by omega))
  | .repeat_ body c, pos, lo, hi, h1, h2 => by
    simp only [scopesStat]
    have s1 := sizeExpr_pos' c
    refine chain_single lo hi _ _ _ _ h1 ?_ (by omega) ?_
    · simp only [sizeStat]; omega
    · refine chain_append _ _ pos (pos + 2 + 2 * sizeBlock body) _
        (chainBlock body (pos + 2) pos _ (by omega) (by omega))
        (chainExpr c _ _ _ (by omega) (by simp only [sizeStat]; omega))
  | .do_ body, pos, lo, hi, h1, h2 => by
    simp only [scopesStat, sizeStat] at *
    exact chainBlock body (pos + 2) lo hi (by omega) (by omega)
  | .if_ c t e, pos, lo, hi, h1, h2 => by
    simp only [scopesStat, sizeStat] at *
    have s1 := sizeExpr_pos' c
    exact chain_append _ _ lo (pos + 4 + 2 * sizeExpr c + 2 * sizeBlock t) hi
      (chain_append _ _ lo (pos + 2 + 2 * sizeExpr c - 1) _
        (chainExpr c (pos + 2) lo _ (by omega) (by omega))
        (chainBlock t _ _ _ (by omega) (by omega)))
      (chainBlock e _ _ _ (by omega) (by omega))
  | .callS _ args, pos, lo, hi, h1, h2 => by
    simp only [scopesStat, sizeStat] at *
    exact chainExprs args (pos + 4) lo hi (by omega) (by omega) (by omega)
  | .loclAttr n val, pos, lo, hi, h1, h2 => by
    simp only [scopesStat]
    have s1 := sizeExpr_pos' val
    refine chain_single lo hi _ _ _ _ h1 ?_ (by omega) ?_
    · simp only [sizeStat]; omega
    · exact chainExpr val _ pos _ (by omega) (by simp only [sizeStat]; omega)
  | .method obj k colon ps body, pos, lo, hi, h1, h2 => by
    simp only [scopesStat]
    refine chain_single lo hi _ _ _ _ h1 ?_ (by omega) ?_
    · simp only [sizeStat]; omega
    · refine chain_single _ _ _ _ _ _ (by omega) ?_ (Nat.le_refl _) ?_
      · simp only [sizeStat]; omega
      · exact chainBlock body _ _ _ (by omega) (by simp only [sizeStat]; omega)
theorem chainStats : ∀ (sts : List Stat) (pos lo hi : Nat), lo ≤ pos → pos + 2 * sizeBlock sts ≤ hi + 1 → lo ≤ hi →
    chain lo hi (scopesStats pos sts) = true
  | [], pos, lo, hi, h1, h2, h3 => by simp [scopesStats, chain, h3]
  | st :: rest, pos, lo, hi, h1, h2, h3 => by
    simp only [scopesStats, sizeBlock] at *
    have := sizeStat_pos' st
    exact chain_append _ _ lo (pos + 2 * sizeStat st - 1) hi
      (chainStat st pos lo _ h1 (by omega))
      (chainStats rest (pos + 2 * sizeStat st) _ hi (by omega) (by omega) (by omega))
theorem chainBlock : ∀ (b : List Stat) (pos lo hi : Nat), lo + 1 ≤ pos → pos + 2 * sizeBlock b ≤ hi →
    chain lo hi (scopesBlock pos b) = true
  | [], pos, lo, hi, h1, h2 => by simp only [scopesBlock, chain, sizeBlock] at *; simp; omega
  | st :: rest, pos, lo, hi, h1, h2 => by
    simp only [scopesBlock]
    have := sizeStat_pos' st
    refine chain_single lo hi _ _ _ _ (by omega) (by omega) h2 ?_
    simp only [sizeBlock] at *
    exact chain_append _ _ (pos - 1) (pos + 2 * sizeStat st - 1) _
      (chainStat st pos _ _ (by omega) (by omega))
      (chainStats rest (pos + 2 * sizeStat st) _ _ (by omega) (by omega) (by omega))
end

/-- the scope tree the analyzer builds for a chunk is well nested -/
theorem chunkTree_wellNested (p : List Stat) : wellNested (chunkTree p) = true := by
  simp only [chunkTree, wellNested, Bool.and_eq_true, decide_eq_true_eq]
  exact ⟨by omega, chainBlock p startPos 0 _ (by decide) (by omega)⟩

/-- **`find_scope` on the analyzer's scope tree** returns the path of all scopes whose range contains
the position — it ends in the innermost scope containing it. -/
theorem find_scope_innermost (p : List Stat) (q : Nat) (hq : q < startPos + 2 * sizeBlock p + 1) :
    pathTree (chunkTree p) q = containingTree (chunkTree p) q :=
  path_eq_containing _ q (chunkTree_wellNested p) (by simp [chunkTree, RTree.has, RTree.start, RTree.stop, hq])

end Scope
