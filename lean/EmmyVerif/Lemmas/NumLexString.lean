import EmmyVerif.Model.NumLexString
/-!
# Lemmas about `StrLex`

* short strings: every literal written from the manual's items is consumed entirely, without error;
* long brackets: `lex_long_string` finds exactly the first occurrence of the closing bracket.
-/
namespace StrLex

/-! ## Short strings -/

/-- the line breaks that may follow a backslash -/
inductive Br | n | r | rn | nr
  deriving DecidableEq, Repr

def Br.chars : Br → List Char
  | .n => ['\n'] | .r => ['\r'] | .rn => ['\r', '\n'] | .nr => ['\n', '\r']

/-- the items of a short string as the manual describes them (§3.1). `esc c` is a backslash followed by any
char other than `z` or a line break: it covers `\a … \\ \" \'` and is also the first two chars of `\xXX`,
`\ddd`, `\u{XXX}` (whose remaining chars are plain). -/
inductive Item
  | plain (c : Char)
  | esc (c : Char)
  | br (b : Br)
  | z (ws : List Char)
  deriving Repr

def Item.render : Item → List Char
  | .plain c => [c]
  | .esc c => ['\\', c]
  | .br b => '\\' :: b.chars
  | .z ws => '\\' :: 'z' :: ws

def Item.ok (q : Char) : Item → Bool
  | .plain c => c != q && !isNl c && c != '\\'
  | .esc c => c != 'z' && !isNl c
  | .br _ => true
  | .z ws => ws.all isZws

def renderItems (is : List Item) : List Char := is.flatMap Item.render

theorem srun_cons_some (q : Char) (s s' : SState) (c : Char) (t : List Char) (n : Nat)
    (h : sstep q s c = some s') : srun q s (c :: t) n = srun q s' t (n + 1) := by
  simp [srun, h]

theorem srun_cons_none (q : Char) (s : SState) (c : Char) (t : List Char) (n : Nat)
    (h : sstep q s c = none) : srun q s (c :: t) n = (n, c :: t) := by
  simp [srun, h]

theorem bne_of {a b : Char} (h : (a != b) = true) : (a == b) = false := by
  simpa using h

/-- a backslash is read as the start of an escape from every position except right after a backslash -/
theorem sstep_backslash (q : Char) (hq : q = '"' ∨ q = '\'') (s : SState) (hs : s ≠ .B) :
    sstep q s '\\' = some .B := by
  rcases hq with rfl | rfl <;> cases s <;> first | exact absurd rfl hs | decide

theorem srun_ws (q : Char) (ws t : List Char) (n : Nat) (h : ws.all isZws = true) :
    srun q .Z (ws ++ t) n = srun q .Z t (n + ws.length) := by
  induction ws generalizing n with
  | nil => simp
  | cons c ws ih =>
    simp only [List.all_cons, Bool.and_eq_true] at h
    have hs : sstep q .Z c = some .Z := by simp [sstep, h.1]
    rw [List.cons_append, srun_cons_some q .Z .Z c _ n hs, ih (n + 1) h.2]
    simp only [List.length_cons]; congr 1; omega

/-- one item, from any position between items, is consumed entirely and leaves a position between items -/
theorem srun_item (q : Char) (hq : q = '"' ∨ q = '\'') (s : SState) (hs : s ≠ .B) (it : Item)
    (hok : it.ok q = true) (t : List Char) (n : Nat) :
    ∃ s', s' ≠ .B ∧ srun q s (it.render ++ t) n = srun q s' t (n + it.render.length) := by
  cases it with
  | plain c =>
    simp only [Item.ok, Bool.and_eq_true, Bool.not_eq_true'] at hok
    obtain ⟨⟨h1, h2⟩, h3⟩ := hok
    have h1' := bne_of h1
    have h3' := bne_of h3
    have hnr : (c == '\r') = false := by
      simp only [isNl, Bool.or_eq_false_iff] at h2; exact h2.2
    have hnn : (c == '\n') = false := by
      simp only [isNl, Bool.or_eq_false_iff] at h2; exact h2.1
    cases s with
    | B => exact absurd rfl hs
    | Z =>
      cases hz : isZws c with
      | true => exact ⟨.Z, by decide, srun_cons_some q .Z .Z c t n (by simp [sstep, hz])⟩
      | false => exact ⟨.N, by decide, srun_cons_some q .Z .N c t n (by simp [sstep, hz, h1', h2, h3'])⟩
    | N => exact ⟨.N, by decide, srun_cons_some q .N .N c t n (by simp [sstep, h1', h2, h3'])⟩
    | LN => exact ⟨.N, by decide, srun_cons_some q .LN .N c t n (by simp [sstep, h1', h2, h3', hnr])⟩
    | LR => exact ⟨.N, by decide, srun_cons_some q .LR .N c t n (by simp [sstep, h1', h2, h3', hnn])⟩
  | esc c =>
    simp only [Item.ok, Bool.and_eq_true, Bool.not_eq_true'] at hok
    obtain ⟨h1, h2⟩ := hok
    have h1' := bne_of h1
    simp only [isNl, Bool.or_eq_false_iff] at h2
    refine ⟨.N, by decide, ?_⟩
    simp only [Item.render, List.cons_append, List.nil_append, List.length_cons, List.length_nil]
    rw [srun_cons_some q s .B '\\' _ n (sstep_backslash q hq s hs),
      srun_cons_some q .B .N c t (n + 1) (by simp [sstep, h1', h2.1, h2.2])]
  | br b =>
    simp only [Item.render, List.cons_append]
    rw [srun_cons_some q s .B '\\' _ n (sstep_backslash q hq s hs)]
    cases b with
    | n => exact ⟨.LN, by decide, by
        simp only [Br.chars, List.cons_append, List.nil_append, List.length_cons, List.length_nil]
        rw [srun_cons_some q .B .LN '\n' t (n + 1) (by simp [sstep])]⟩
    | r => exact ⟨.LR, by decide, by
        simp only [Br.chars, List.cons_append, List.nil_append, List.length_cons, List.length_nil]
        rw [srun_cons_some q .B .LR '\r' t (n + 1) (by simp [sstep])]⟩
    | rn => exact ⟨.N, by decide, by
        simp only [Br.chars, List.cons_append, List.nil_append, List.length_cons, List.length_nil]
        rw [srun_cons_some q .B .LR '\r' _ (n + 1) (by simp [sstep]),
          srun_cons_some q .LR .N '\n' t (n + 1 + 1) (by rcases hq with rfl | rfl <;> decide)]⟩
    | nr => exact ⟨.N, by decide, by
        simp only [Br.chars, List.cons_append, List.nil_append, List.length_cons, List.length_nil]
        rw [srun_cons_some q .B .LN '\n' _ (n + 1) (by simp [sstep]),
          srun_cons_some q .LN .N '\r' t (n + 1 + 1) (by rcases hq with rfl | rfl <;> decide)]⟩
  | z ws =>
    simp only [Item.ok] at hok
    refine ⟨.Z, by decide, ?_⟩
    simp only [Item.render, List.cons_append, List.length_cons]
    rw [srun_cons_some q s .B '\\' _ n (sstep_backslash q hq s hs),
      srun_cons_some q .B .Z 'z' _ (n + 1) (by simp [sstep]), srun_ws q ws t _ hok]
    congr 1; omega

theorem srun_items (q : Char) (hq : q = '"' ∨ q = '\'') (is : List Item) (hok : is.all (Item.ok q) = true)
    (s : SState) (hs : s ≠ .B) (t : List Char) (n : Nat) :
    ∃ s', s' ≠ .B ∧ srun q s (renderItems is ++ t) n = srun q s' t (n + (renderItems is).length) := by
  induction is generalizing s n with
  | nil => exact ⟨s, hs, by simp [renderItems]⟩
  | cons it is ih =>
    simp only [List.all_cons, Bool.and_eq_true] at hok
    obtain ⟨s1, hs1, h1⟩ := srun_item q hq s hs it hok.1 (renderItems is ++ t) n
    obtain ⟨s2, hs2, h2⟩ := ih hok.2 s1 hs1 (n + it.render.length)
    refine ⟨s2, hs2, ?_⟩
    simp only [renderItems, List.flatMap_cons, List.append_assoc, List.length_append] at h1 h2 ⊢
    rw [h1, h2]; congr 1; omega

/-- the closing quote ends the loop from every position between items -/
theorem sstep_quote (q : Char) (hq : q = '"' ∨ q = '\'') (s : SState) (hs : s ≠ .B) : sstep q s q = none := by
  rcases hq with rfl | rfl <;> cases s <;> first | exact absurd rfl hs | decide

/-- **strlex_accepts_ref (core).** -/
theorem lexShort_items (q : Char) (hq : q = '"' ∨ q = '\'') (is : List Item) (hok : is.all (Item.ok q) = true)
    (rest : List Char) :
    lexShort (q :: (renderItems is ++ q :: rest)) = some ((renderItems is).length + 2, false) := by
  obtain ⟨s', hs', h⟩ := srun_items q hq is hok .N (by decide) (q :: rest) 0
  simp only [lexShort]
  rw [h, srun_cons_none q s' q rest _ (sstep_quote q hq s' hs')]
  simp

/-! ## Long brackets: the scanner finds the first closing bracket -/

/-- `]` followed by `k` equal signs: what the scanner has just read in position `close k` -/
def pend (k : Nat) : List Char := ']' :: List.replicate k '='

theorem findSub_cons_ne (sep : Nat) (c : Char) (t : List Char) (h : (c == ']') = false) :
    findSub (closer sep) (c :: t) = (findSub (closer sep) t).map (· + 1) := by
  have : (']' == c) = false := by
    cases hc : (']' == c) with
    | false => rfl
    | true => have : ']' = c := by simpa using hc
              subst this; simp at h
  simp [findSub, closer, List.isPrefixOf, this]

/-- the tail of the closer is not a prefix of `k` equal signs followed by `u`, unless `k = sep` and `u`
starts with `]` -/
theorem tail_not_prefix : ∀ (sep k : Nat) (u : List Char), u.head? ≠ some '=' →
    (k ≠ sep ∨ u.head? ≠ some ']') →
    (List.replicate sep '=' ++ [']']).isPrefixOf (List.replicate k '=' ++ u) = false
  | 0, 0, u, _, h2 => by
    cases u with
    | nil => simp [List.isPrefixOf]
    | cons c u =>
      have : c ≠ ']' := by
        rcases h2 with h2 | h2
        · exact absurd rfl h2
        · simpa using h2
      have : (']' == c) = false := by
        cases hc : (']' == c) with
        | false => rfl
        | true => exact absurd (by simpa using hc : ']' = c).symm this
      simp [List.isPrefixOf, this]
  | 0, k + 1, u, _, _ => by simp [List.replicate_succ, List.isPrefixOf]
  | sep + 1, 0, u, h1, _ => by
    cases u with
    | nil => simp [List.replicate_succ, List.isPrefixOf]
    | cons c u =>
      have : c ≠ '=' := by simpa using h1
      have : ('=' == c) = false := by
        cases hc : ('=' == c) with
        | false => rfl
        | true => exact absurd (by simpa using hc : '=' = c).symm this
      simp [List.replicate_succ, List.isPrefixOf, this]
  | sep + 1, k + 1, u, h1, h2 => by
    have ih := tail_not_prefix sep k u h1 (by
      rcases h2 with h2 | h2
      · exact Or.inl (by omega)
      · exact Or.inr h2)
    simpa [List.replicate_succ, List.isPrefixOf] using ih

theorem findSub_skip_eqs (sep k : Nat) (t : List Char) :
    findSub (closer sep) (List.replicate k '=' ++ t) = (findSub (closer sep) t).map (· + k) := by
  induction k with
  | zero => simp
  | succ k ih =>
    rw [List.replicate_succ, List.cons_append, findSub_cons_ne sep '=' _ (by decide), ih]
    cases findSub (closer sep) t <;> simp; omega

/-- a pending `]=…=` that cannot be completed is skipped entirely -/
theorem findSub_pend_fail (sep k : Nat) (u : List Char) (h1 : u.head? ≠ some '=')
    (h2 : k ≠ sep ∨ u.head? ≠ some ']') :
    findSub (closer sep) (pend k ++ u) = (findSub (closer sep) u).map (· + (k + 1)) := by
  have hp := tail_not_prefix sep k u h1 h2
  have : findSub (closer sep) (pend k ++ u) =
      (findSub (closer sep) (List.replicate k '=' ++ u)).map (· + 1) := by
    simp [pend, findSub, closer, List.isPrefixOf, hp]
  rw [this, findSub_skip_eqs]
  cases findSub (closer sep) u <;> simp; omega

theorem findSub_pend_hit (sep : Nat) (t : List Char) : findSub (closer sep) (pend sep ++ ']' :: t) = some 0 := by
  have : (List.replicate sep '=' ++ [']']).isPrefixOf (List.replicate sep '=' ++ ']' :: t) = true := by
    induction sep with
    | zero => simp [List.isPrefixOf]
    | succ n ih => simpa [List.replicate_succ, List.isPrefixOf] using ih
  simp [pend, findSub, closer, List.isPrefixOf, this]

/-- **Scanner = specification.** From both positions of the loop, `lex_long_string` returns the end of the
first occurrence of the closing bracket in (what it has pending ++) the remaining text, or fails if there is
none. `m` = chars consumed before the pending part. -/
theorem lrun_spec (sep : Nat) : ∀ (t : List Char) (m : Nat),
    (lrun sep .scan t m = (findSub (closer sep) t).map (fun i => m + i + sep + 2)) ∧
    (∀ k, lrun sep (.close k) t (m + k + 1) = (findSub (closer sep) (pend k ++ t)).map (fun i => m + i + sep + 2))
  | [], m => by
    refine ⟨by simp [lrun, findSub, closer], fun k => ?_⟩
    have := findSub_pend_fail sep k [] (by simp) (Or.inr (by simp))
    simp only [List.append_nil] at this ⊢
    rw [this]; simp [lrun, findSub, closer]
  | c :: t, m => by
    have ih := lrun_spec sep t
    refine ⟨?_, fun k => ?_⟩
    · by_cases hc : (c == ']') = true
      · have : c = ']' := by simpa using hc
        subst this
        have := (ih m).2 0
        simp only [lrun, beq_self_eq_true, if_true]
        simpa [pend] using this
      · have hc' : (c == ']') = false := by simpa using hc
        simp only [lrun, hc', Bool.false_eq_true, if_false]
        rw [(ih (m + 1)).1, findSub_cons_ne sep c t hc']
        cases findSub (closer sep) t <;> simp; omega
    · by_cases he : (c == '=') = true
      · have : c = '=' := by simpa using he
        subst this
        simp only [lrun, beq_self_eq_true, if_true]
        have := (ih m).2 (k + 1)
        have e : pend k ++ '=' :: t = pend (k + 1) ++ t := by
          simp [pend, List.replicate_succ', List.append_assoc]
        rw [e, ← this]
        have ha : m + k + 1 + 1 = m + (k + 1) + 1 := by omega
        rw [ha]
      · have he' : (c == '=') = false := by simpa using he
        by_cases hc : (c == ']') = true
        · have : c = ']' := by simpa using hc
          subst this
          by_cases hk : k = sep
          · subst hk
            simp only [lrun, he', Bool.false_eq_true, if_false, beq_self_eq_true, if_true]
            rw [findSub_pend_hit]; simp
          · simp only [lrun, he', Bool.false_eq_true, if_false, beq_self_eq_true, if_true, hk]
            have h0 := (ih (m + k + 1)).2 0
            rw [findSub_pend_fail sep k (']' :: t) (by simp) (Or.inl hk)]
            have : lrun sep (.close 0) t (m + k + 1 + 1) = lrun sep (.close 0) t (m + k + 1 + 0 + 1) := rfl
            rw [this, h0]
            simp only [pend, List.replicate_zero, List.cons_append, List.nil_append]
            cases findSub (closer sep) (']' :: t) <;> simp; omega
        · have hc' : (c == ']') = false := by simpa using hc
          simp only [lrun, he', hc', Bool.false_eq_true, if_false]
          have hne1 : (c :: t).head? ≠ some '=' := by
            simp only [List.head?_cons, ne_eq, Option.some.injEq]; intro h; subst h; simp at he'
          have hne2 : (c :: t).head? ≠ some ']' := by
            simp only [List.head?_cons, ne_eq, Option.some.injEq]; intro h; subst h; simp at hc'
          rw [findSub_pend_fail sep k (c :: t) hne1 (Or.inr hne2), findSub_cons_ne sep c t hc',
            (ih (m + k + 1 + 1)).1]
          cases findSub (closer sep) t <;> simp; omega

theorem countEq_replicate (sep : Nat) (c : Char) (t : List Char) (h : c ≠ '=') :
    countEq (List.replicate sep '=' ++ c :: t) = sep ∧
      (List.replicate sep '=' ++ c :: t).drop sep = c :: t := by
  induction sep with
  | zero =>
    refine ⟨?_, rfl⟩
    simp only [List.replicate_zero, List.nil_append]
    unfold countEq
    split
    · rename_i r heq; simp only [List.cons.injEq] at heq; exact absurd heq.1 h
    · rfl
  | succ n ih => simp [List.replicate_succ, countEq, ih.1, ih.2]

/-- the `'['` arm on an opening long bracket of level `sep`: the token ends at the first closing bracket of
that level, or the whole rest is consumed with an error -/
theorem lexBracket_spec (sep : Nat) (body : List Char) :
    lexBracket ('[' :: (List.replicate sep '=' ++ '[' :: body)) =
      some (match findSub (closer sep) body with
        | some i => (.longString, sep + 2 + (i + sep + 2), false)
        | none => (.longString, sep + 2 + body.length, true)) := by
  obtain ⟨h1, h2⟩ := countEq_replicate sep '[' body (by decide)
  simp only [lexBracket, h1, h2]
  rw [(lrun_spec sep body 0).1]
  cases findSub (closer sep) body <;> simp

/-! ## The escape check accepts every escape of the manual -/

/-- the items of a short string as the escape check sees them -/
inductive CItem
  | plain (c : Char)          -- any char but the backslash and the delimiter
  | simple (c : Char)         -- `\a \b \f \n \r \t \v \\ \" \'` and backslash + line break
  | hex (a b : Char)          -- `\xXX`
  | uni (ds : List Char)      -- `\u{XXX}`
  | dec (ds : List Char)      -- `\d`, `\dd`, `\ddd`
  | z (ws : List Char)        -- `\z` and the white space it skips
  | other (c : Char)          -- backslash + any other char (taken literally by Lua 5.1; not checked)
  deriving Repr

def CItem.render : CItem → List Char
  | .plain c => [c]
  | .simple c => ['\\', c]
  | .hex a b => ['\\', 'x', a, b]
  | .uni ds => '\\' :: 'u' :: '{' :: (ds ++ ['}'])
  | .dec ds => '\\' :: ds
  | .z ws => '\\' :: 'z' :: ws
  | .other c => ['\\', c]

/-- well-formedness of one item given the char that follows it (`none` = nothing) -/
def CItem.ok (q : Char) (next : Option Char) : CItem → Bool
  | .plain c => c != '\\' && c != q
  | .simple c => simpleEscape c
  | .hex a b => isHexDigit a && isHexDigit b
  | .uni ds => !ds.isEmpty && ds.all isHexDigit && decide (hexNum ds ≤ 0x7FFFFFFF)
  | .dec ds =>
    (1 ≤ ds.length && ds.length ≤ 3) && ds.all isDigit &&
      (ds.length == 3 || match next with | some c => !isDigit c | none => true)
  | .z ws => ws.all isWhitespace && (match next with | some c => !isWhitespace c | none => true)
  | .other c => !simpleEscape c && c != 'x' && c != 'u' && c != 'z' && !isDigit c

def renderC (is : List CItem) : List Char := is.flatMap CItem.render

/-- all items well-formed, each with respect to the char following it in `renderC is ++ tail` -/
def okC (q : Char) (tail : List Char) : List CItem → Bool
  | [] => true
  | it :: is => it.ok q (renderC is ++ tail).head? && okC q tail is

theorem chk_nil (q : Char) (f : Nat) : chk q f [] = false := by cases f <;> simp [chk]

theorem chk_step_plain (q : Char) (f : Nat) (c : Char) (t : List Char) (h1 : (c == '\\') = false)
    (h2 : (c == q) = false) : chk q (f + 1) (c :: t) = chk q f t := by
  simp [chk, h1, h2]

theorem hexdigit_ne_brace (c : Char) (h : isHexDigit c = true) : (c != '}') = true := by
  cases hc : c == '}' with
  | false => simp [bne, hc]
  | true => have : c = '}' := by simpa using hc
            subst this; simp [isHexDigit, isDigit] at h

theorem takeWhile_hex (ds t : List Char) (h : ds.all isHexDigit = true) :
    (ds ++ '}' :: t).takeWhile (· != '}') = ds ∧ (ds ++ '}' :: t).dropWhile (· != '}') = '}' :: t := by
  induction ds with
  | nil => simp
  | cons d ds ih =>
    simp only [List.all_cons, Bool.and_eq_true] at h
    have := hexdigit_ne_brace d h.1
    simp [List.takeWhile, List.dropWhile, this, ih h.2]

theorem parseHex_ok (ds : List Char) (h1 : ds.isEmpty = false) (h2 : ds.all isHexDigit = true)
    (h3 : hexNum ds ≤ 0x7FFFFFFF) : parseHexU32 ds = some (hexNum ds) := by
  cases ds with
  | nil => simp at h1
  | cons d ds =>
    simp only [List.all_cons, Bool.and_eq_true] at h2
    have hd : d ≠ '+' := by intro e; subst e; simp [isHexDigit, isDigit] at h2
    have hlt : hexNum (d :: ds) < 4294967296 := by omega
    unfold parseHexU32
    split
    · rename_i r heq; simp only [List.cons.injEq] at heq; exact absurd heq.1 hd
    · simp [h2.1, h2.2, hlt]

/-- one well-formed item is passed without error, with one unit of fuel -/
theorem chk_item (q : Char) (hq : q = '"' ∨ q = '\'') (it : CItem) (t : List Char)
    (hok : it.ok q t.head? = true) (f : Nat) :
    chk q (f + 1) (it.render ++ t) = chk q f t := by
  cases it with
  | plain c =>
    simp only [CItem.ok, Bool.and_eq_true] at hok
    exact chk_step_plain q f c t (bne_of hok.1) (bne_of hok.2)
  | simple c =>
    simp only [CItem.ok] at hok
    simp [CItem.render, chk, hok]
  | hex a b =>
    simp only [CItem.ok, Bool.and_eq_true] at hok
    have hx : simpleEscape 'x' = false := by decide
    simp [CItem.render, chk, hx, hok.1, hok.2]
  | uni ds =>
    simp only [CItem.ok, Bool.and_eq_true, Bool.not_eq_true', decide_eq_true_eq] at hok
    obtain ⟨⟨h1, h2⟩, h3⟩ := hok
    have hu : simpleEscape 'u' = false := by decide
    have hux : ('u' == 'x') = false := by decide
    obtain ⟨tw, dw⟩ := takeWhile_hex ds t h2
    simp only [CItem.render, List.cons_append, List.append_assoc, List.nil_append, chk, beq_self_eq_true, if_true,
      hu, Bool.false_eq_true, if_false, hux]
    rw [tw, dw, parseHex_ok ds h1 h2 h3]
    simp [isEncodable, h3]
  | dec ds =>
    simp only [CItem.ok, Bool.and_eq_true, decide_eq_true_eq, Bool.or_eq_true, beq_iff_eq] at hok
    obtain ⟨⟨⟨hl1, hl2⟩, hd⟩, hnext⟩ := hok
    have nd : ∀ c, isDigit c = true → simpleEscape c = false ∧ (c == 'x') = false ∧ (c == 'u') = false := by
      intro c hc
      refine ⟨?_, ?_, ?_⟩
      · cases hs : simpleEscape c with
        | false => rfl
        | true =>
          simp only [simpleEscape, Bool.or_eq_true, beq_iff_eq] at hs
          rcases hs with ((((((((((h | h) | h) | h) | h) | h) | h) | h) | h) | h) | h) | h <;>
            (subst h; simp [isDigit] at hc)
      · cases hx : c == 'x' with
        | false => rfl
        | true => have : c = 'x' := by simpa using hx
                  subst this; simp [isDigit] at hc
      · cases hx : c == 'u' with
        | false => rfl
        | true => have : c = 'u' := by simpa using hx
                  subst this; simp [isDigit] at hc
    have tailNotDigit : ds.length < 3 → ∀ c r, t = c :: r → isDigit c = false := by
      intro hlt c r ht
      rcases hnext with h | h
      · omega
      · subst ht; simpa using h
    match ds, hl1, hl2, hd with
    | [d1], _, _, hd =>
      simp only [List.all_cons, List.all_nil, Bool.and_true] at hd
      obtain ⟨a, b, c⟩ := nd d1 hd
      cases t with
      | nil => simp [CItem.render, chk, a, b, c, hd, chk_nil]
      | cons x r =>
        have := tailNotDigit (by simp) x r rfl
        simp [CItem.render, chk, a, b, c, hd, this]
    | [d1, d2], _, _, hd =>
      simp only [List.all_cons, List.all_nil, Bool.and_true, Bool.and_eq_true] at hd
      obtain ⟨a, b, c⟩ := nd d1 hd.1
      cases t with
      | nil => simp [CItem.render, chk, a, b, c, hd.1, hd.2, chk_nil]
      | cons x r =>
        have := tailNotDigit (by simp) x r rfl
        simp [CItem.render, chk, a, b, c, hd.1, hd.2, this]
    | [d1, d2, d3], _, _, hd =>
      simp only [List.all_cons, List.all_nil, Bool.and_true, Bool.and_eq_true] at hd
      obtain ⟨a, b, c⟩ := nd d1 hd.1
      simp [CItem.render, chk, a, b, c, hd.1, hd.2.1, hd.2.2]
    | [], hl1, _, _ => simp at hl1
    | _ :: _ :: _ :: _ :: _, _, hl2, _ => simp at hl2
  | z ws =>
    simp only [CItem.ok, Bool.and_eq_true] at hok
    obtain ⟨hws, hnext⟩ := hok
    have hz : simpleEscape 'z' = false := by decide
    have hzx : ('z' == 'x') = false := by decide
    have hzu : ('z' == 'u') = false := by decide
    have hzd : isDigit 'z' = false := by decide
    have hdrop : (ws ++ t).dropWhile isWhitespace = t := by
      induction ws with
      | nil =>
        cases t with
        | nil => rfl
        | cons c r =>
          simp only [List.head?_cons] at hnext
          have : isWhitespace c = false := by simpa using hnext
          simp [List.dropWhile, this]
      | cons w ws ih =>
        simp only [List.all_cons, Bool.and_eq_true] at hws
        simp [List.dropWhile, hws.1, ih hws.2]
    simp [CItem.render, chk, hz, hzx, hzu, hzd, hdrop]
  | other c =>
    simp only [CItem.ok, Bool.and_eq_true, Bool.not_eq_true'] at hok
    obtain ⟨⟨⟨⟨h1, h2⟩, h3⟩, h4⟩, h5⟩ := hok
    simp [CItem.render, chk, h1, bne_of h2, bne_of h3, bne_of h4, h5]

/-- **strcheck_accepts_ref (core).** A string token built from well-formed items raises no escape error. -/
theorem checkString_items (q : Char) (hq : q = '"' ∨ q = '\'') (is : List CItem) (rest : List Char)
    (hok : okC q (q :: rest) is = true) :
    ∀ f, (renderC is).length + 1 ≤ f → chk q f (renderC is ++ q :: rest) = false := by
  induction is with
  | nil =>
    intro f hf
    obtain ⟨f', rfl⟩ : ∃ f', f = f' + 1 := ⟨f - 1, by omega⟩
    have : (q == '\\') = false := by rcases hq with rfl | rfl <;> decide
    simp [renderC, chk, this]
  | cons it is ih =>
    intro f hf
    simp only [okC, Bool.and_eq_true] at hok
    have hlen : 1 ≤ it.render.length := by cases it <;> simp [CItem.render]
    simp only [renderC, List.flatMap_cons, List.length_append] at hf
    obtain ⟨f', rfl⟩ : ∃ f', f = f' + 1 := ⟨f - 1, by omega⟩
    have hstep := chk_item q hq it (renderC is ++ q :: rest) hok.1 f'
    show chk q (f' + 1) (renderC (it :: is) ++ q :: rest) = false
    have e : renderC (it :: is) ++ q :: rest = it.render ++ (renderC is ++ q :: rest) := by
      simp [renderC]
    rw [e, hstep]
    exact ih hok.2 f' (by simp only [renderC]; omega)

end StrLex
