import EmmyVerif.Model.NumLexString
/-!
# Lemmas about `StrLex`

* short strings: every literal written from the manual's items is consumed entirely, without error;
* long brackets: `lex_long_string` finds exactly the first occurrence of the closing bracket.
-/
namespace StrLex

/-! ## Short strings -/

/-- the line breaks that may follow a backslash -/
inductive Br | n | r | rn | nr
  deriving DecidableEq, Repr

def Br.chars : Br → List Char
  | .n => ['\n'] | .r => ['\r'] | .rn => ['\r', '\n'] | .nr => ['\n', '\r']

/-- the items of a short string as the manual describes them (§3.1). `esc c` is a backslash followed by any
char other than `z` or a line break: it covers `\a … \\ \" \'` and is also the first two chars of `\xXX`,
`\ddd`, `\u{XXX}` (whose remaining chars are plain). -/
inductive Item
  | plain (c : Char)
  | esc (c : Char)
  | br (b : Br)
  | z (ws : List Char)
  deriving Repr

def Item.render : Item → List Char
  | .plain c => [c]
  | .esc c => ['\\', c]
  | .br b => '\\' :: b.chars
  | .z ws => '\\' :: 'z' :: ws

def Item.ok (zs : Bool) (q : Char) : Item → Bool
  | .plain c => c != q && !isNl c && c != '\\'
  | .esc c => (c != 'z' || !zs) && !isNl c
  | .br _ => true
  | .z ws => zs && ws.all isZws

def renderItems (is : List Item) : List Char := is.flatMap Item.render

theorem srun_cons_some (zs : Bool) (q : Char) (s s' : SState) (c : Char) (t : List Char) (n : Nat)
    (h : sstep zs q s c = some s') : srun zs q s (c :: t) n = srun zs q s' t (n + 1) := by
  simp [srun, h]

theorem srun_cons_none (zs : Bool) (q : Char) (s : SState) (c : Char) (t : List Char) (n : Nat)
    (h : sstep zs q s c = none) : srun zs q s (c :: t) n = (n, c :: t) := by
  simp [srun, h]

theorem bne_of {a b : Char} (h : (a != b) = true) : (a == b) = false := by
  simpa using h

/-- a backslash is read as the start of an escape from every position except right after a backslash -/
theorem sstep_backslash (zs : Bool) (q : Char) (hq : q = '"' ∨ q = '\'') (s : SState) (hs : s ≠ .B) :
    sstep zs q s '\\' = some .B := by
  rcases hq with rfl | rfl <;> cases s <;> first | exact absurd rfl hs | (cases zs <;> decide)

theorem srun_ws (zs : Bool) (q : Char) (ws t : List Char) (n : Nat) (h : ws.all isZws = true) :
    srun zs q .Z (ws ++ t) n = srun zs q .Z t (n + ws.length) := by
  induction ws generalizing n with
  | nil => simp
  | cons c ws ih =>
    simp only [List.all_cons, Bool.and_eq_true] at h
    have hs : sstep zs q .Z c = some .Z := by simp [sstep, h.1]
    rw [List.cons_append, srun_cons_some zs q .Z .Z c _ n hs, ih (n + 1) h.2]
    simp only [List.length_cons]; congr 1; omega

/-- one item, from any position between items, is consumed entirely and leaves a position between items -/
theorem srun_item (zs : Bool) (q : Char) (hq : q = '"' ∨ q = '\'') (s : SState) (hs : s ≠ .B) (it : Item)
    (hok : it.ok zs q = true) (t : List Char) (n : Nat) :
    ∃ s', s' ≠ .B ∧ srun zs q s (it.render ++ t) n = srun zs q s' t (n + it.render.length) := by
  cases it with
  | plain c =>
    simp only [Item.ok, Bool.and_eq_true, Bool.not_eq_true'] at hok
    obtain ⟨⟨h1, h2⟩, h3⟩ := hok
    have h1' := bne_of h1
    have h3' := bne_of h3
    have hnr : (c == '\r') = false := by
      simp only [isNl, Bool.or_eq_false_iff] at h2; exact h2.2
    have hnn : (c == '\n') = false := by
      simp only [isNl, Bool.or_eq_false_iff] at h2; exact h2.1
    cases s with
    | B => exact absurd rfl hs
    | Z =>
      cases hz : isZws c with
      | true => exact ⟨.Z, by decide, srun_cons_some zs q .Z .Z c t n (by simp [sstep, hz])⟩
      | false => exact ⟨.N, by decide, srun_cons_some zs q .Z .N c t n (by simp [sstep, hz, h1', h2, h3'])⟩
    | N => exact ⟨.N, by decide, srun_cons_some zs q .N .N c t n (by simp [sstep, h1', h2, h3'])⟩
    | LN => exact ⟨.N, by decide, srun_cons_some zs q .LN .N c t n (by simp [sstep, h1', h2, h3', hnr])⟩
    | LR => exact ⟨.N, by decide, srun_cons_some zs q .LR .N c t n (by simp [sstep, h1', h2, h3', hnn])⟩
  | esc c =>
    simp only [Item.ok, Bool.and_eq_true, Bool.not_eq_true'] at hok
    obtain ⟨h1, h2⟩ := hok
    have h1' : (zs && c == 'z') = false := by
      cases zs <;> simp_all
    simp only [isNl, Bool.or_eq_false_iff] at h2
    refine ⟨.N, by decide, ?_⟩
    simp only [Item.render, List.cons_append, List.nil_append, List.length_cons, List.length_nil]
    rw [srun_cons_some zs q s .B '\\' _ n (sstep_backslash zs q hq s hs),
      srun_cons_some zs q .B .N c t (n + 1) (by simp [sstep, h1', h2.1, h2.2])]
  | br b =>
    simp only [Item.render, List.cons_append]
    rw [srun_cons_some zs q s .B '\\' _ n (sstep_backslash zs q hq s hs)]
    cases b with
    | n => exact ⟨.LN, by decide, by
        simp only [Br.chars, List.cons_append, List.nil_append, List.length_cons, List.length_nil]
        rw [srun_cons_some zs q .B .LN '\n' t (n + 1) (by simp [sstep])]⟩
    | r => exact ⟨.LR, by decide, by
        simp only [Br.chars, List.cons_append, List.nil_append, List.length_cons, List.length_nil]
        rw [srun_cons_some zs q .B .LR '\r' t (n + 1) (by simp [sstep])]⟩
    | rn => exact ⟨.N, by decide, by
        simp only [Br.chars, List.cons_append, List.nil_append, List.length_cons, List.length_nil]
        rw [srun_cons_some zs q .B .LR '\r' _ (n + 1) (by simp [sstep]),
          srun_cons_some zs q .LR .N '\n' t (n + 1 + 1) (by rcases hq with rfl | rfl <;> cases zs <;> decide)]⟩
    | nr => exact ⟨.N, by decide, by
        simp only [Br.chars, List.cons_append, List.nil_append, List.length_cons, List.length_nil]
        rw [srun_cons_some zs q .B .LN '\n' _ (n + 1) (by simp [sstep]),
          srun_cons_some zs q .LN .N '\r' t (n + 1 + 1) (by rcases hq with rfl | rfl <;> cases zs <;> decide)]⟩
  | z ws =>
    simp only [Item.ok, Bool.and_eq_true] at hok
    obtain ⟨hzs, hok⟩ := hok
    refine ⟨.Z, by decide, ?_⟩
    simp only [Item.render, List.cons_append, List.length_cons]
    rw [srun_cons_some zs q s .B '\\' _ n (sstep_backslash zs q hq s hs),
      srun_cons_some zs q .B .Z 'z' _ (n + 1) (by simp [sstep, hzs]), srun_ws zs q ws t _ hok]
    congr 1; omega

theorem srun_items (zs : Bool) (q : Char) (hq : q = '"' ∨ q = '\'') (is : List Item) (hok : is.all (Item.ok zs q) = true)
    (s : SState) (hs : s ≠ .B) (t : List Char) (n : Nat) :
    ∃ s', s' ≠ .B ∧ srun zs q s (renderItems is ++ t) n = srun zs q s' t (n + (renderItems is).length) := by
  induction is generalizing s n with
  | nil => exact ⟨s, hs, by simp [renderItems]⟩
  | cons it is ih =>
    simp only [List.all_cons, Bool.and_eq_true] at hok
    obtain ⟨s1, hs1, h1⟩ := srun_item zs q hq s hs it hok.1 (renderItems is ++ t) n
    obtain ⟨s2, hs2, h2⟩ := ih hok.2 s1 hs1 (n + it.render.length)
    refine ⟨s2, hs2, ?_⟩
    simp only [renderItems, List.flatMap_cons, List.append_assoc, List.length_append] at h1 h2 ⊢
    rw [h1, h2]; congr 1; omega

/-- the closing quote ends the loop from every position between items -/
theorem sstep_quote (zs : Bool) (q : Char) (hq : q = '"' ∨ q = '\'') (s : SState) (hs : s ≠ .B) : sstep zs q s q = none := by
  rcases hq with rfl | rfl <;> cases s <;> first | exact absurd rfl hs | (cases zs <;> decide)

/-- **strlex_accepts_ref (core).** -/
theorem lexShort_items (zs : Bool) (q : Char) (hq : q = '"' ∨ q = '\'') (is : List Item) (hok : is.all (Item.ok zs q) = true)
    (rest : List Char) :
    lexShort zs (q :: (renderItems is ++ q :: rest)) = some ((renderItems is).length + 2, false) := by
  obtain ⟨s', hs', h⟩ := srun_items zs q hq is hok .N (by decide) (q :: rest) 0
  simp only [lexShort]
  rw [h, srun_cons_none zs q s' q rest _ (sstep_quote zs q hq s' hs')]
  simp

/-! ## Long brackets: the scanner finds the first closing bracket -/

/-- `]` followed by `k` equal signs: what the scanner has just read in position `close k` -/
def pend (k : Nat) : List Char := ']' :: List.replicate k '='

theorem findSub_cons_ne (sep : Nat) (c : Char) (t : List Char) (h : (c == ']') = false) :
    findSub (closer sep) (c :: t) = (findSub (closer sep) t).map (· + 1) := by
  have : (']' == c) = false := by
    cases hc : (']' == c) with
    | false => rfl
    | true => have : ']' = c := by simpa using hc
              subst this; simp at h
  simp [findSub, closer, List.isPrefixOf, this]

/-- the tail of the closer is not a prefix of `k` equal signs followed by `u`, unless `k = sep` and `u`
starts with `]` -/
theorem tail_not_prefix : ∀ (sep k : Nat) (u : List Char), u.head? ≠ some '=' →
    (k ≠ sep ∨ u.head? ≠ some ']') →
    (List.replicate sep '=' ++ [']']).isPrefixOf (List.replicate k '=' ++ u) = false
  | 0, 0, u, _, h2 => by
    cases u with
    | nil => simp [List.isPrefixOf]
    | cons c u =>
      have : c ≠ ']' := by
        rcases h2 with h2 | h2
        · exact absurd rfl h2
        · simpa using h2
      have : (']' == c) = false := by
        cases hc : (']' == c) with
        | false => rfl
        | true => exact absurd (by simpa using hc : ']' = c).symm this
      simp [List.isPrefixOf, this]
  | 0, k + 1, u, _, _ => by simp [List.replicate_succ, List.isPrefixOf]
  | sep + 1, 0, u, h1, _ => by
    cases u with
    | nil => simp [List.replicate_succ, List.isPrefixOf]
    | cons c u =>
      have : c ≠ '=' := by simpa using h1
      have : ('=' == c) = false := by
        cases hc : ('=' == c) with
        | false => rfl
        | true => exact absurd (by simpa using hc : '=' = c).symm this
      simp [List.replicate_succ, List.isPrefixOf, this]
  | sep + 1, k + 1, u, h1, h2 => by
    have ih := tail_not_prefix sep k u h1 (by
      rcases h2 with h2 | h2
      · exact Or.inl (by omega)
      · exact Or.inr h2)
    simpa [List.replicate_succ, List.isPrefixOf] using ih

theorem findSub_skip_eqs (sep k : Nat) (t : List Char) :
    findSub (closer sep) (List.replicate k '=' ++ t) = (findSub (closer sep) t).map (· + k) := by
  induction k with
  | zero => simp
  | succ k ih =>
    rw [List.replicate_succ, List.cons_append, findSub_cons_ne sep '=' _ (by decide), ih]
    cases findSub (closer sep) t <;> simp; omega

/-- a pending `]=…=` that cannot be completed is skipped entirely -/
theorem findSub_pend_fail (sep k : Nat) (u : List Char) (h1 : u.head? ≠ some '=')
    (h2 : k ≠ sep ∨ u.head? ≠ some ']') :
    findSub (closer sep) (pend k ++ u) = (findSub (closer sep) u).map (· + (k + 1)) := by
  have hp := tail_not_prefix sep k u h1 h2
  have : findSub (closer sep) (pend k ++ u) =
      (findSub (closer sep) (List.replicate k '=' ++ u)).map (· + 1) := by
    simp [pend, findSub, closer, List.isPrefixOf, hp]
  rw [this, findSub_skip_eqs]
  cases findSub (closer sep) u <;> simp; omega

theorem findSub_pend_hit (sep : Nat) (t : List Char) : findSub (closer sep) (pend sep ++ ']' :: t) = some 0 := by
  have : (List.replicate sep '=' ++ [']']).isPrefixOf (List.replicate sep '=' ++ ']' :: t) = true := by
    induction sep with
    | zero => simp [List.isPrefixOf]
    | succ n ih => simpa [List.replicate_succ, List.isPrefixOf] using ih
  simp [pend, findSub, closer, List.isPrefixOf, this]

/-- **Scanner = specification.** From both positions of the loop, `lex_long_string` returns the end of the
first occurrence of the closing bracket in (what it has pending ++) the remaining text, or fails if there is
none. `m` = chars consumed before the pending part. -/
theorem lrun_spec (sep : Nat) : ∀ (t : List Char) (m : Nat),
    (lrun sep .scan t m = (findSub (closer sep) t).map (fun i => m + i + sep + 2)) ∧
    (∀ k, lrun sep (.close k) t (m + k + 1) = (findSub (closer sep) (pend k ++ t)).map (fun i => m + i + sep + 2))
  | [], m => by
    refine ⟨by simp [lrun, findSub, closer], fun k => ?_⟩
    have := findSub_pend_fail sep k [] (by simp) (Or.inr (by simp))
    simp only [List.append_nil] at this ⊢
    rw [this]; simp [lrun, findSub, closer]
  | c :: t, m => by
    have ih := lrun_spec sep t
    refine ⟨?_, fun k => ?_⟩
    · by_cases hc : (c == ']') = true
      · have : c = ']' := by simpa using hc
        subst this
        have := (ih m).2 0
        simp only [lrun, beq_self_eq_true, if_true]
        simpa [pend] using this
      · have hc' : (c == ']') = false := by simpa using hc
        simp only [lrun, hc', Bool.false_eq_true, if_false]
        rw [(ih (m + 1)).1, findSub_cons_ne sep c t hc']
        cases findSub (closer sep) t <;> simp; omega
    · by_cases he : (c == '=') = true
      · have : c = '=' := by simpa using he
        subst this
        simp only [lrun, beq_self_eq_true, if_true]
        have := (ih m).2 (k + 1)
        have e : pend k ++ '=' :: t = pend (k + 1) ++ t := by
          simp [pend, List.replicate_succ', List.append_assoc]
        rw [e, ← this]
        have ha : m + k + 1 + 1 = m + (k + 1) + 1 := by omega
        rw [ha]
      · have he' : (c == '=') = false := by simpa using he
        by_cases hc : (c == ']') = true
        · have : c = ']' := by simpa using hc
          subst this
          by_cases hk : k = sep
          · subst hk
            simp only [lrun, he', Bool.false_eq_true, if_false, beq_self_eq_true, if_true]
            rw [findSub_pend_hit]; simp
          · simp only [lrun, he', Bool.false_eq_true, if_false, beq_self_eq_true, if_true, hk]
            have h0 := (ih (m + k + 1)).2 0
            rw [findSub_pend_fail sep k (']' :: t) (by simp) (Or.inl hk)]
            have : lrun sep (.close 0) t (m + k + 1 + 1) = lrun sep (.close 0) t (m + k + 1 + 0 + 1) := rfl
            rw [this, h0]
            simp only [pend, List.replicate_zero, List.cons_append, List.nil_append]
            cases findSub (closer sep) (']' :: t) <;> simp; omega
        · have hc' : (c == ']') = false := by simpa using hc
          simp only [lrun, he', hc', Bool.false_eq_true, if_false]
          have hne1 : (c :: t).head? ≠ some '=' := by
            simp only [List.head?_cons, ne_eq, Option.some.injEq]; intro h; subst h; simp at he'
          have hne2 : (c :: t).head? ≠ some ']' := by
            simp only [List.head?_cons, ne_eq, Option.some.injEq]; intro h; subst h; simp at hc'
          rw [findSub_pend_fail sep k (c :: t) hne1 (Or.inr hne2), findSub_cons_ne sep c t hc',
            (ih (m + k + 1 + 1)).1]
          cases findSub (closer sep) t <;> simp; omega

theorem countEq_replicate (sep : Nat) (c : Char) (t : List Char) (h : c ≠ '=') :
    countEq (List.replicate sep '=' ++ c :: t) = sep ∧
      (List.replicate sep '=' ++ c :: t).drop sep = c :: t := by
  induction sep with
  | zero =>
    refine ⟨?_, rfl⟩
    simp only [List.replicate_zero, List.nil_append]
    unfold countEq
    split
    · rename_i r heq; simp only [List.cons.injEq] at heq; exact absurd heq.1 h
    · rfl
  | succ n ih => simp [List.replicate_succ, countEq, ih.1, ih.2]

/-- the `'['` arm on an opening long bracket of level `sep`: the token ends at the first closing bracket of
that level, or the whole rest is consumed with an error -/
theorem lexBracket_spec (sep : Nat) (body : List Char) :
    lexBracket ('[' :: (List.replicate sep '=' ++ '[' :: body)) =
      some (match findSub (closer sep) body with
        | some i => (.longString, sep + 2 + (i + sep + 2), false)
        | none => (.longString, sep + 2 + body.length, true)) := by
  obtain ⟨h1, h2⟩ := countEq_replicate sep '[' body (by decide)
  simp only [lexBracket, h1, h2]
  rw [(lrun_spec sep body 0).1]
  cases findSub (closer sep) body <;> simp

/-! ## The escape check accepts exactly the escapes of the level -/

/-- the items of a short string as the escape check sees them -/
inductive CItem
  | plain (c : Char)          -- any char but the backslash and the delimiter
  | simple (c : Char)         -- `\\a \\b \\f \\n \\r \\t \\v \\\\ \\" \\'` and backslash + line break
  | hex (hs : List Char)      -- `\\xXX`                       (not in Lua 5.1)
  | uni (ds : List Char)      -- `\\u{XXX}`                    (Lua 5.3 and later, LuaJIT)
  | dec (ds : List Char)      -- `\\d`, `\\dd`, `\\ddd`, at most 255
  | z (ws : List Char)        -- `\\z` and the white space it skips (not in Lua 5.1)
  | other (c : Char)          -- Lua 5.1 only: backslash + any other char stands for that char
  deriving Repr

def CItem.render : CItem → List Char
  | .plain c => [c]
  | .simple c => ['\\', c]
  | .hex hs => '\\' :: 'x' :: hs
  | .uni ds => '\\' :: 'u' :: '{' :: (ds ++ ['}'])
  | .dec ds => '\\' :: ds
  | .z ws => '\\' :: 'z' :: ws
  | .other c => ['\\', c]

def decVal (ds : List Char) : Nat := ds.foldl (fun a c => a * 10 + digitVal c) 0

def nextNot (p : Char → Bool) : Option Char → Bool
  | some c => !p c
  | none => true

/-- well-formedness of one item at a level, given the char that follows it (`none` = nothing) -/
def CItem.ok (cfg : EscCfg) (q : Char) (next : Option Char) : CItem → Bool
  | .plain c => c != '\\' && c != q
  | .simple c => simpleEscape c
  | .hex hs => !cfg.lua51 && hs.length == 2 && hs.all isHexDigit
  | .uni ds => cfg.uni && !ds.isEmpty && ds.all isHexDigit && decide (hexNum ds ≤ cfg.maxU)
  | .dec ds =>
    (1 ≤ ds.length && ds.length ≤ 3) && ds.all isDigit && decide (decVal ds ≤ 255) &&
      (ds.length == 3 || nextNot isDigit next)
  | .z ws => !cfg.lua51 && ws.all isWhitespace && nextNot isWhitespace next
  | .other c => cfg.lua51 && !simpleEscape c && !isDigit c && !(c == 'u' && cfg.uni)

def renderC (is : List CItem) : List Char := is.flatMap CItem.render

/-- all items well-formed, each with respect to the char following it in `renderC is ++ tail` -/
def okC (cfg : EscCfg) (q : Char) (tail : List Char) : List CItem → Bool
  | [] => true
  | it :: is => it.ok cfg q (renderC is ++ tail).head? && okC cfg q tail is

theorem chk_nil (cfg : EscCfg) (q : Char) (f : Nat) : chk cfg q f [] = false := by cases f <;> simp [chk]

theorem hexdigit_takeWhile (ds t : List Char) (h : ds.all isHexDigit = true) :
    (ds ++ '}' :: t).takeWhile isHexDigit = ds ∧ (ds ++ '}' :: t).dropWhile isHexDigit = '}' :: t := by
  induction ds with
  | nil => simp [List.takeWhile, List.dropWhile, isHexDigit, isDigit]
  | cons d ds ih =>
    simp only [List.all_cons, Bool.and_eq_true] at h
    simp [List.takeWhile, List.dropWhile, h.1, ih h.2]

theorem digit_facts (c : Char) (hc : isDigit c = true) :
    simpleEscape c = false ∧ (c == 'x') = false ∧ (c == 'u') = false ∧ (c == 'z') = false := by
  refine ⟨?_, ?_, ?_, ?_⟩
  · cases hs : simpleEscape c with
    | false => rfl
    | true =>
      simp only [simpleEscape, Bool.or_eq_true, beq_iff_eq] at hs
      rcases hs with ((((((((((h | h) | h) | h) | h) | h) | h) | h) | h) | h) | h) | h <;>
        (subst h; simp [isDigit] at hc)
  · cases hx : c == 'x' with
    | false => rfl
    | true => have : c = 'x' := by simpa using hx
              subst this; simp [isDigit] at hc
  · cases hx : c == 'u' with
    | false => rfl
    | true => have : c = 'u' := by simpa using hx
              subst this; simp [isDigit] at hc
  · cases hx : c == 'z' with
    | false => rfl
    | true => have : c = 'z' := by simpa using hx
              subst this; simp [isDigit] at hc

/-- one well-formed item is passed without error, with one unit of fuel -/
theorem chk_item (cfg : EscCfg) (q : Char) (it : CItem) (t : List Char)
    (hok : it.ok cfg q t.head? = true) (f : Nat) :
    chk cfg q (f + 1) (it.render ++ t) = chk cfg q f t := by
  cases it with
  | plain c =>
    simp only [CItem.ok, Bool.and_eq_true] at hok
    simp [CItem.render, chk, bne_of hok.1, bne_of hok.2]
  | simple c =>
    simp only [CItem.ok] at hok
    simp [CItem.render, chk, hok]
  | hex hs =>
    simp only [CItem.ok, Bool.and_eq_true, Bool.not_eq_true', beq_iff_eq] at hok
    obtain ⟨⟨h51, hlen⟩, hall⟩ := hok
    have hx : simpleEscape 'x' = false := by decide
    match hs, hlen, hall with
    | [a, b], _, hall =>
      simp only [List.all_cons, List.all_nil, Bool.and_true, Bool.and_eq_true] at hall
      simp [CItem.render, chk, hx, h51, hall.1, hall.2]
  | uni ds =>
    simp only [CItem.ok, Bool.and_eq_true, Bool.not_eq_true', decide_eq_true_eq] at hok
    obtain ⟨⟨⟨h0, h1⟩, h2⟩, h3⟩ := hok
    have hu : simpleEscape 'u' = false := by decide
    have hux : ('u' == 'x') = false := by decide
    obtain ⟨tw, dw⟩ := hexdigit_takeWhile ds t h2
    simp only [CItem.render, List.cons_append, List.append_assoc, List.nil_append, chk, beq_self_eq_true, if_true,
      hu, Bool.false_eq_true, if_false, hux, Bool.false_and, h0, Bool.true_and]
    rw [tw, dw]
    simp [h1, h3]
  | dec ds =>
    simp only [CItem.ok, Bool.and_eq_true, decide_eq_true_eq, Bool.or_eq_true, beq_iff_eq] at hok
    obtain ⟨⟨⟨⟨hl1, hl2⟩, hd⟩, hv⟩, hnext⟩ := hok
    have tailNotDigit : ds.length < 3 → ∀ c r, t = c :: r → isDigit c = false := by
      intro hlt c r ht
      rcases hnext with h | h
      · omega
      · subst ht; simpa [nextNot] using h
    match ds, hl1, hl2, hd, hv with
    | [d1], _, _, hd, _ =>
      simp only [List.all_cons, List.all_nil, Bool.and_true] at hd
      obtain ⟨a, b, c, _⟩ := digit_facts d1 hd
      cases t with
      | nil => simp [CItem.render, chk, a, b, c, hd, chk_nil]
      | cons x r =>
        have := tailNotDigit (by simp) x r rfl
        simp [CItem.render, chk, a, b, c, hd, this]
    | [d1, d2], _, _, hd, _ =>
      simp only [List.all_cons, List.all_nil, Bool.and_true, Bool.and_eq_true] at hd
      obtain ⟨a, b, c, _⟩ := digit_facts d1 hd.1
      cases t with
      | nil => simp [CItem.render, chk, a, b, c, hd.1, hd.2, chk_nil]
      | cons x r =>
        have := tailNotDigit (by simp) x r rfl
        simp [CItem.render, chk, a, b, c, hd.1, hd.2, this]
    | [d1, d2, d3], _, _, hd, hv =>
      simp only [List.all_cons, List.all_nil, Bool.and_true, Bool.and_eq_true] at hd
      obtain ⟨a, b, c, _⟩ := digit_facts d1 hd.1
      have hv' : digitVal d1 * 100 + digitVal d2 * 10 + digitVal d3 ≤ 255 := by
        simp only [decVal, List.foldl_cons, List.foldl_nil] at hv; omega
      simp [CItem.render, chk, a, b, c, hd.1, hd.2.1, hd.2.2, hv']
    | [], hl1, _, _, _ => simp at hl1
    | _ :: _ :: _ :: _ :: _, _, hl2, _, _ => simp at hl2
  | z ws =>
    simp only [CItem.ok, Bool.and_eq_true, Bool.not_eq_true'] at hok
    obtain ⟨⟨h51, hws⟩, hnext⟩ := hok
    have hz : simpleEscape 'z' = false := by decide
    have hzx : ('z' == 'x') = false := by decide
    have hzu : ('z' == 'u') = false := by decide
    have hzd : isDigit 'z' = false := by decide
    have hdrop : (ws ++ t).dropWhile isWhitespace = t := by
      induction ws with
      | nil =>
        cases t with
        | nil => rfl
        | cons c r =>
          simp only [List.head?_cons, nextNot] at hnext
          have : isWhitespace c = false := by simpa using hnext
          simp [List.dropWhile, this]
      | cons w ws ih =>
        simp only [List.all_cons, Bool.and_eq_true] at hws
        simp [List.dropWhile, hws.1, ih hws.2]
    simp [CItem.render, chk, hz, hzx, hzu, hzd, hdrop, h51]
  | other c =>
    simp only [CItem.ok, Bool.and_eq_true, Bool.not_eq_true'] at hok
    obtain ⟨⟨⟨h51, h1⟩, h2⟩, h3⟩ := hok
    simp [CItem.render, chk, h1, h2, h51, h3]

/-- **strcheck_accepts_ref (core).** A string token built from items that are well-formed at the level raises
no escape error. -/
theorem checkString_items (cfg : EscCfg) (q : Char) (hq : q = '"' ∨ q = '\'') (is : List CItem) (rest : List Char)
    (hok : okC cfg q (q :: rest) is = true) :
    ∀ f, (renderC is).length + 1 ≤ f → chk cfg q f (renderC is ++ q :: rest) = false := by
  induction is with
  | nil =>
    intro f hf
    obtain ⟨f', rfl⟩ : ∃ f', f = f' + 1 := ⟨f - 1, by omega⟩
    have : (q == '\\') = false := by rcases hq with rfl | rfl <;> decide
    simp [renderC, chk, this]
  | cons it is ih =>
    intro f hf
    simp only [okC, Bool.and_eq_true] at hok
    have hlen : 1 ≤ it.render.length := by cases it <;> simp [CItem.render]
    simp only [renderC, List.flatMap_cons, List.length_append] at hf
    obtain ⟨f', rfl⟩ : ∃ f', f = f' + 1 := ⟨f - 1, by omega⟩
    have hstep := chk_item cfg q it (renderC is ++ q :: rest) hok.1 f'
    show chk cfg q (f' + 1) (renderC (it :: is) ++ q :: rest) = false
    have e : renderC (it :: is) ++ q :: rest = it.render ++ (renderC is ++ q :: rest) := by
      simp [renderC]
    rw [e, hstep]
    exact ih hok.2 f' (by simp only [renderC]; omega)

/-! ### The reject direction: whatever passes the check is a sequence of items valid at the level -/

theorem digitVal_le (c : Char) (h : isDigit c = true) : digitVal c ≤ 9 := by
  simp only [isDigit, Bool.and_eq_true, decide_eq_true_eq] at h
  have h2 : c.toNat ≤ '9'.toNat := h.2
  have h1 : '0'.toNat ≤ c.toNat := h.1
  simp only [digitVal]
  have : '9'.toNat = 57 := by decide
  have : '0'.toNat = 48 := by decide
  omega

/-- how the walk of the check can end: text exhausted, a dangling backslash, or the closing delimiter -/
def TailOk (q : Char) (tail : List Char) : Prop := tail = [] ∨ tail = ['\\'] ∨ tail.head? = some q

def Decomposes (cfg : EscCfg) (q : Char) (t : List Char) : Prop :=
  ∃ is tail, t = renderC is ++ tail ∧ okC cfg q tail is = true ∧ TailOk q tail

theorem decomposes_cons (cfg : EscCfg) (q : Char) (it : CItem) (t' : List Char) (hd : Decomposes cfg q t')
    (hok : it.ok cfg q t'.head? = true) : Decomposes cfg q (it.render ++ t') := by
  obtain ⟨is, tail, h1, h2, h3⟩ := hd
  refine ⟨it :: is, tail, by simp [renderC, h1], ?_, h3⟩
  simp only [okC, Bool.and_eq_true]
  exact ⟨by rw [← h1]; exact hok, h2⟩

theorem dropWhile_head_not (p : Char → Bool) : ∀ (l : List Char) (c : Char), (l.dropWhile p).head? = some c → p c = false
  | [], _, h => by simp at h
  | x :: xs, c, h => by
    by_cases hx : p x = true
    · simp only [List.dropWhile, hx] at h; exact dropWhile_head_not p xs c h
    · have hx' : p x = false := by simpa using hx
      simp only [List.dropWhile, hx'] at h
      simp only [List.head?_cons, Option.some.injEq] at h; subst h; exact hx'

theorem takeWhile_all (p : Char → Bool) : ∀ l : List Char, (l.takeWhile p).all p = true
  | [] => rfl
  | x :: xs => by
    by_cases hx : p x = true
    · simp [List.takeWhile, hx, takeWhile_all p xs]
    · have hx' : p x = false := by simpa using hx
      simp [List.takeWhile, hx']

theorem length_dropWhile_le (p : Char → Bool) : ∀ l : List Char, (l.dropWhile p).length ≤ l.length
  | [] => by simp
  | x :: xs => by
    by_cases hx : p x = true
    · simp only [List.dropWhile, hx, List.length_cons]; have := length_dropWhile_le p xs; omega
    · have hx' : p x = false := by simpa using hx
      simp [List.dropWhile, hx']

/-- **strcheck_rejects (core).** If the escape check reports nothing on `t` (the chars after the opening
delimiter), then `t` is a sequence of items that are all well-formed at the level, ended by the closing
delimiter (or by the end of the text / a dangling backslash, which the lexer has already reported). -/
theorem chk_sound (cfg : EscCfg) (q : Char) : ∀ (f : Nat) (t : List Char), t.length ≤ f → chk cfg q f t = false →
    Decomposes cfg q t
  | 0, t, hl, _ => by
    have : t = [] := List.length_eq_zero_iff.mp (by omega)
    subst this; exact ⟨[], [], rfl, rfl, Or.inl rfl⟩
  | _ + 1, [], _, _ => ⟨[], [], rfl, rfl, Or.inl rfl⟩
  | f + 1, c :: rest, hl, h => by
    have ih := chk_sound cfg q f
    simp only [List.length_cons] at hl
    by_cases hc : (c == '\\') = true
    · have hcb : c = '\\' := by simpa using hc
      subst hcb
      cases rest with
      | nil => exact ⟨[], ['\\'], rfl, rfl, Or.inr (Or.inl rfl)⟩
      | cons e r =>
        simp only [List.length_cons] at hl
        simp only [chk, beq_self_eq_true, if_true] at h
        by_cases h1 : simpleEscape e = true
        · simp only [h1, if_true] at h
          exact decomposes_cons cfg q (.simple e) r (ih r (by omega) h) (by simp [CItem.ok, h1])
        · have h1' : simpleEscape e = false := by simpa using h1
          simp only [h1', Bool.false_eq_true, if_false] at h
          by_cases h2 : (e == 'x' && !cfg.lua51) = true
          · simp only [h2, if_true] at h
            have hex : e = 'x' := by simp only [Bool.and_eq_true, beq_iff_eq] at h2; exact h2.1
            subst hex
            by_cases h3 : ((r.take 2).length == 2 && (r.take 2).all isHexDigit) = true
            · simp only [h3, if_true] at h
              have hd := ih (r.drop 2) (by simp; omega) h
              have e1 : '\\' :: 'x' :: r = (CItem.hex (r.take 2)).render ++ r.drop 2 := by
                simp [CItem.render, List.take_append_drop]
              rw [e1]
              refine decomposes_cons cfg q (.hex (r.take 2)) _ hd ?_
              simp only [Bool.and_eq_true] at h2 h3
              simp only [CItem.ok, Bool.and_eq_true]
              exact ⟨⟨h2.2, h3.1⟩, h3.2⟩
            · have h3' : ((r.take 2).length == 2 && (r.take 2).all isHexDigit) = false := by simpa using h3
              simp only [h3', Bool.false_eq_true, if_false] at h
              cases h
          · have h2' : (e == 'x' && !cfg.lua51) = false := by simpa using h2
            simp only [h2', Bool.false_eq_true, if_false] at h
            by_cases h4 : (e == 'u' && cfg.uni) = true
            · simp only [h4, if_true] at h
              have heu : e = 'u' := by simp only [Bool.and_eq_true, beq_iff_eq] at h4; exact h4.1
              subst heu
              cases r with
              | nil => simp at h
              | cons b r2 =>
                simp only at h
                by_cases hb : (b == '{') = true
                · have : b = '{' := by simpa using hb
                  subst this
                  simp only [beq_self_eq_true, if_true] at h
                  cases hdw : r2.dropWhile isHexDigit with
                  | nil => simp [hdw] at h
                  | cons cl r3 =>
                    simp only [hdw] at h
                    by_cases hcl : (cl == '}' && !(r2.takeWhile isHexDigit).isEmpty &&
                        decide (hexNum (r2.takeWhile isHexDigit) ≤ cfg.maxU)) = true
                    · simp only [hcl, if_true] at h
                      simp only [Bool.and_eq_true, beq_iff_eq, decide_eq_true_eq] at hcl
                      obtain ⟨⟨hcl1, hne⟩, hval⟩ := hcl
                      subst hcl1
                      have hlen : r3.length ≤ f := by
                        have := length_dropWhile_le isHexDigit r2
                        rw [hdw] at this; simp only [List.length_cons] at this hl; omega
                      have hd := ih r3 hlen h
                      have e1 : '\\' :: 'u' :: '{' :: r2 = (CItem.uni (r2.takeWhile isHexDigit)).render ++ r3 := by
                        have := List.takeWhile_append_dropWhile (p := isHexDigit) (l := r2)
                        rw [hdw] at this
                        simp only [CItem.render, List.cons_append, List.append_assoc, List.nil_append]
                        rw [this]
                      rw [e1]
                      refine decomposes_cons cfg q (.uni _) _ hd ?_
                      simp only [Bool.and_eq_true] at h4
                      simp [CItem.ok, h4.2, hne, takeWhile_all, hval]
                    · have hcl' : (cl == '}' && !(r2.takeWhile isHexDigit).isEmpty &&
                          decide (hexNum (r2.takeWhile isHexDigit) ≤ cfg.maxU)) = false := by simpa using hcl
                      simp [hcl'] at h
                · have hb' : (b == '{') = false := by simpa using hb
                  simp [hb'] at h
            · have h4' : (e == 'u' && cfg.uni) = false := by simpa using h4
              simp only [h4', Bool.false_eq_true, if_false] at h
              by_cases h5 : isDigit e = true
              · simp only [h5, if_true] at h
                -- decimal escape
                cases r with
                | nil =>
                  have e1 : ['\\', e] = (CItem.dec [e]).render ++ [] := by simp [CItem.render]
                  rw [e1]
                  exact decomposes_cons cfg q (.dec [e]) [] ⟨[], [], rfl, rfl, Or.inl rfl⟩
                    (by have := digitVal_le e h5; simp [CItem.ok, h5, decVal, nextNot]; omega)
                | cons d1 r1 =>
                  simp only at h
                  simp only [List.length_cons] at hl
                  by_cases h6 : isDigit d1 = true
                  · simp only [h6, if_true] at h
                    cases r1 with
                    | nil =>
                      have e1 : ['\\', e, d1] = (CItem.dec [e, d1]).render ++ [] := by simp [CItem.render]
                      rw [e1]
                      exact decomposes_cons cfg q (.dec [e, d1]) [] ⟨[], [], rfl, rfl, Or.inl rfl⟩
                        (by
                          have := digitVal_le e h5; have := digitVal_le d1 h6
                          simp [CItem.ok, h5, h6, decVal, nextNot]; omega)
                    | cons d2 r2 =>
                      simp only at h
                      simp only [List.length_cons] at hl
                      by_cases h7 : isDigit d2 = true
                      · simp only [h7, if_true] at h
                        by_cases h8 : digitVal e * 100 + digitVal d1 * 10 + digitVal d2 ≤ 255
                        · simp only [h8, if_true] at h
                          have hd := ih r2 (by omega) h
                          have e1 : '\\' :: e :: d1 :: d2 :: r2 = (CItem.dec [e, d1, d2]).render ++ r2 := by
                            simp [CItem.render]
                          rw [e1]
                          refine decomposes_cons cfg q (.dec [e, d1, d2]) _ hd ?_
                          simp [CItem.ok, h5, h6, h7, decVal]; omega
                        · simp [h8] at h
                      · have h7' : isDigit d2 = false := by simpa using h7
                        simp only [h7', Bool.false_eq_true, if_false] at h
                        have hd := ih (d2 :: r2) (by simp only [List.length_cons]; omega) h
                        have e1 : '\\' :: e :: d1 :: d2 :: r2 = (CItem.dec [e, d1]).render ++ (d2 :: r2) := by
                          simp [CItem.render]
                        rw [e1]
                        refine decomposes_cons cfg q (.dec [e, d1]) _ hd ?_
                        have := digitVal_le e h5; have := digitVal_le d1 h6
                        simp [CItem.ok, h5, h6, decVal, nextNot, h7']; omega
                  · have h6' : isDigit d1 = false := by simpa using h6
                    simp only [h6', Bool.false_eq_true, if_false] at h
                    have hd := ih (d1 :: r1) (by simp only [List.length_cons]; omega) h
                    have e1 : '\\' :: e :: d1 :: r1 = (CItem.dec [e]).render ++ (d1 :: r1) := by simp [CItem.render]
                    rw [e1]
                    refine decomposes_cons cfg q (.dec [e]) _ hd ?_
                    have := digitVal_le e h5
                    simp [CItem.ok, h5, decVal, nextNot, h6']; omega
              · have h5' : isDigit e = false := by simpa using h5
                simp only [h5', Bool.false_eq_true, if_false] at h
                by_cases h9 : (e == 'z' && !cfg.lua51) = true
                · simp only [h9, if_true] at h
                  have hez : e = 'z' := by simp only [Bool.and_eq_true, beq_iff_eq] at h9; exact h9.1
                  subst hez
                  have hlen : (r.dropWhile isWhitespace).length ≤ f := by
                    have := length_dropWhile_le isWhitespace r; omega
                  have hd := ih _ hlen h
                  have e1 : '\\' :: 'z' :: r = (CItem.z (r.takeWhile isWhitespace)).render ++ r.dropWhile isWhitespace := by
                    simp [CItem.render, List.takeWhile_append_dropWhile]
                  rw [e1]
                  refine decomposes_cons cfg q (.z _) _ hd ?_
                  simp only [Bool.and_eq_true] at h9
                  have hnext : nextNot isWhitespace (r.dropWhile isWhitespace).head? = true := by
                    cases hh : (r.dropWhile isWhitespace).head? with
                    | none => rfl
                    | some c => simp [nextNot, dropWhile_head_not isWhitespace r c hh]
                  simp [CItem.ok, h9.2, takeWhile_all, hnext]
                · have h9' : (e == 'z' && !cfg.lua51) = false := by simpa using h9
                  simp only [h9', Bool.false_eq_true, if_false] at h
                  by_cases h10 : cfg.lua51 = true
                  · simp only [h10, if_true] at h
                    have hd := ih r (by omega) h
                    have e1 : '\\' :: e :: r = (CItem.other e).render ++ r := by simp [CItem.render]
                    rw [e1]
                    refine decomposes_cons cfg q (.other e) _ hd ?_
                    have hu : (!(e == 'u' && cfg.uni)) = true := by simp [h4']
                    simp only [CItem.ok, h10, h1', h5', hu, Bool.not_false, Bool.true_and, Bool.and_true]
                  · have h10' : cfg.lua51 = false := by simpa using h10
                    simp [h10'] at h
    · have hc' : (c == '\\') = false := by simpa using hc
      simp only [chk, hc', Bool.false_eq_true, if_false] at h
      by_cases hq : (c == q) = true
      · have : c = q := by simpa using hq
        subst this
        exact ⟨[], c :: rest, rfl, rfl, Or.inr (Or.inr rfl)⟩
      · have hq' : (c == q) = false := by simpa using hq
        simp only [hq', Bool.false_eq_true, if_false] at h
        have hd := ih rest (by omega) h
        have e1 : c :: rest = (CItem.plain c).render ++ rest := by simp [CItem.render]
        rw [e1]
        exact decomposes_cons cfg q (.plain c) _ hd (by simp only [CItem.ok, bne, hc', hq']; rfl)

end StrLex
