import EmmyVerif.Model.EventsDoc
/-! Lemmas about `DocCore`: the tokens the doc parser emits tile the bytes of its comment group. -/
namespace Doc

/-- origin tokens are non-empty, contiguous from `a` to `b`, and are real tokens -/
def Chain : List OTok → Nat → Nat → Prop
  | [], a, b => a = b
  | t :: ts, a, b => t.start = a ∧ 0 < t.len ∧ isInvalidKind t.kind = false ∧ Chain ts (a + t.len) b

structure WFT (toks : List OTok) (g0 g1 : Nat) : Prop where
  chain : Chain toks g0 g1
  first : ∃ t ts, toks = t :: ts ∧ t.pass = false

theorem chain_get (toks : List OTok) (a b i : Nat) (t : OTok) (h : Chain toks a b) (ht : toks[i]? = some t) :
    0 < t.len ∧ isInvalidKind t.kind = false ∧ (i = 0 → t.start = a) ∧ t.start + t.len ≤ b ∧
      (∀ t', toks[i+1]? = some t' → t'.start = t.start + t.len) ∧
      (toks[i+1]? = none → t.start + t.len = b) := by
  induction toks generalizing a i with
  | nil => simp at ht
  | cons x xs ih =>
    obtain ⟨h1, h2, h3, h4⟩ := h
    have hle : ∀ (l : List OTok) (c d : Nat), Chain l c d → c ≤ d := by
      intro l
      induction l with
      | nil => intro c d hc; simp [Chain] at hc; omega
      | cons y ys ihy => intro c d hc; obtain ⟨_, _, _, q⟩ := hc; have := ihy _ _ q; omega
    cases i with
    | zero =>
      simp at ht; subst ht
      refine ⟨h2, h3, fun _ => h1, ?_, ?_, ?_⟩
      · have := hle _ _ _ h4; omega
      · intro t' ht'
        cases xs with
        | nil => simp at ht'
        | cons y ys => simp at ht'; subst ht'; obtain ⟨q, _⟩ := h4; omega
      · intro hn
        cases xs with
        | nil => simp [Chain] at h4; omega
        | cons y ys => simp at hn
    | succ j =>
      have ht' : xs[j]? = some t := by simpa using ht
      obtain ⟨r1, r2, _, r4, r5, r6⟩ := ih (a + x.len) j h4 ht'
      refine ⟨r1, r2, fun hj => by omega, r4, ?_, ?_⟩
      · intro t' hh; exact r5 t' (by simpa using hh)
      · intro hn; exact r6 (by simpa using hn)

def endOf (d : D) : Nat :=
  match d.toks[d.oidx]? with
  | some t => t.start + t.len
  | none => 0

/-- where the next doc token will start -/
def P (g0 : Nat) (d : D) : Nat :=
  match d.rd with
  | none => g0
  | some r => if r.stop ≤ r.bstart + r.blen then endOf d else r.bstart + r.blen

structure BaseR (g0 g1 : Nat) (d : D) : Prop where
  wf : WFT d.toks g0 g1
  fresh : d.rd = none → d.oidx = 0
  rdok : ∀ r, d.rd = some r → d.oidx < d.toks.length ∧ (r.bstart + r.blen < r.stop → r.stop = endOf d)

structure CurOK (d : D) : Prop where
  c1 : d.rd = none → d.cur = .none
  c2 : ∀ r, d.rd = some r → r.stop ≤ r.bstart + r.blen → d.cur ≠ .none

theorem fixK_valid (k : K) : isInvalidKind (fixK k) = false := by
  cases k <;> simp [fixK, isInvalidKind]

/-- `lex()` on a reader that is not at its end yields a non-empty token starting at the reader position -/
theorem lexOnce_valid (d : D) (r : Rd) (hr : d.rd = some r) (hv : r.bstart + r.blen < r.stop) :
    ∃ k l sc, lexOnce d = ({ d with rd := some ⟨r.stop, r.bstart + r.blen, l⟩, script := sc },
        some (k, r.bstart + r.blen, l)) ∧ 0 < l ∧ r.bstart + r.blen + l ≤ r.stop ∧ isInvalidKind k = false := by
  unfold lexOnce
  rw [hr]
  simp only []
  have hn : ¬ r.stop ≤ r.bstart + r.blen := by omega
  rw [if_neg hn]
  cases hs : d.script with
  | nil =>
    refine ⟨.other 0, r.stop - (r.bstart + r.blen), [], ?_, by omega, by omega, rfl⟩
    simp [hs]
  | cons x rest =>
    obtain ⟨k, n⟩ := x
    refine ⟨fixK k, min (max n 1) (r.stop - (r.bstart + r.blen)), rest, rfl, ?_, ?_, fixK_valid k⟩
    · have : 1 ≤ max n 1 := Nat.le_max_right _ _
      omega
    · have : min (max n 1) (r.stop - (r.bstart + r.blen)) ≤ r.stop - (r.bstart + r.blen) := Nat.min_le_right _ _
      omega

/-- `lex_token` does not touch the parser-level fields -/
def SameCore (d d' : D) : Prop :=
  d'.toks = d.toks ∧ d'.cur = d.cur ∧ d'.cstart = d.cstart ∧ d'.clen = d.clen ∧ d'.events = d.events ∧ d'.st = d.st

theorem endOf_eq (d : D) (t : OTok) (h : d.toks[d.oidx]? = some t) : endOf d = t.start + t.len := by
  simp [endOf, h]

/-- specification of `lex_token`: either a real, non-empty token starting exactly at the lexer
position, or `TkEof` when the whole group is consumed -/
theorem lexToken_spec' (g0 g1 f : Nat) (d : D) (hb : BaseR g0 g1 d) (hc : CurOK d) :
    SameCore d (lexToken (f+1) d).1 ∧ BaseR g0 g1 (lexToken (f+1) d).1 ∧
    ((isInvalidKind (lexToken (f+1) d).2.1 = false ∧ (lexToken (f+1) d).2.2.1 = P g0 d ∧
        0 < (lexToken (f+1) d).2.2.2 ∧
        P g0 (lexToken (f+1) d).1 = (lexToken (f+1) d).2.2.1 + (lexToken (f+1) d).2.2.2 ∧
        (lexToken (f+1) d).1.rd ≠ none) ∨
     ((lexToken (f+1) d).2.1 = .eof ∧ (lexToken (f+1) d).2.2.2 = 0 ∧
        (lexToken (f+1) d).2.2.1 = d.cstart + d.clen ∧ P g0 d = g1 ∧ (lexToken (f+1) d).1 = d ∧ d.cur ≠ .none)) := by
  obtain ⟨t0, ts0, htoks, hpass0⟩ := hb.wf.first
  have hget0 : d.toks[0]? = some t0 := by rw [htoks]; rfl
  cases hrd : d.rd with
  | none =>
    -- fresh: the first origin token is a comment token
    have hoidx := hb.fresh hrd
    have hcur := hc.c1 hrd
    have hinv : rdInvalid d = true := by simp [rdInvalid, hrd]
    obtain ⟨c1, c2, c3, c4, _, _⟩ := chain_get d.toks g0 g1 0 t0 hb.wf.chain hget0
    have hv : (0 : Nat) + t0.start + 0 < t0.start + t0.len := by omega
    obtain ⟨k, l, sc, hlo, hl1, hl2, hk⟩ := lexOnce_valid
      { d with oidx := 0, rd := some ⟨t0.start + t0.len, t0.start, 0⟩ } ⟨t0.start + t0.len, t0.start, 0⟩ rfl (by simp; omega)
    dsimp only at hl2
    have hnext0 : (if (d.oidx == 0 && d.cur == K.none) = true then 0 else d.oidx + 1) = 0 := by
      simp [hoidx, hcur]
    have hres : lexToken (f+1) d =
        ({ d with oidx := 0, rd := some ⟨t0.start + t0.len, t0.start + 0, l⟩, script := sc }, (k, t0.start + 0, l)) := by
      unfold lexToken
      simp only [hinv, if_true, hnext0, hget0, hpass0, Bool.false_eq_true, if_false]
      rw [hlo]
    rw [hres]
    refine ⟨⟨rfl, rfl, rfl, rfl, rfl, rfl⟩, ⟨hb.wf, by simp, ?_⟩, Or.inl ⟨hk, ?_, hl1, ?_, by simp⟩⟩
    · intro r hr
      simp only [Option.some.injEq] at hr
      subst hr
      refine ⟨by simp only; rw [htoks]; simp, ?_⟩
      intro _
      simp [endOf, hget0]
    · simp [P, hrd, c3 rfl]
    · simp only [P, Nat.add_zero]
      split
      · simp only [endOf, hget0]; omega
      · rfl
  | some r =>
    obtain ⟨holt, hstop⟩ := hb.rdok r hrd
    obtain ⟨t, ht⟩ : ∃ t, d.toks[d.oidx]? = some t := ⟨d.toks[d.oidx], List.getElem?_eq_getElem holt⟩
    obtain ⟨c1, c2, _, c4, c5, c6⟩ := chain_get d.toks g0 g1 d.oidx t hb.wf.chain ht
    by_cases hval : r.bstart + r.blen < r.stop
    · -- the reader still has text
      have hinv : rdInvalid d = false := by simp [rdInvalid, hrd]; omega
      obtain ⟨k, l, sc, hlo, hl1, hl2, hk⟩ := lexOnce_valid d r hrd hval
      have hres : lexToken (f+1) d =
          ({ d with rd := some ⟨r.stop, r.bstart + r.blen, l⟩, script := sc }, (k, r.bstart + r.blen, l)) := by
        unfold lexToken
        simp only [hinv, Bool.false_eq_true, if_false]
        rw [hlo]
      rw [hres]
      have hst := hstop hval
      refine ⟨⟨rfl, rfl, rfl, rfl, rfl, rfl⟩, ⟨hb.wf, by simp, ?_⟩, Or.inl ⟨hk, ?_, hl1, ?_, by simp⟩⟩
      · intro r' hr'
        simp only [Option.some.injEq] at hr'
        subst hr'
        exact ⟨holt, fun _ => by simpa [endOf] using hst⟩
      · simp [P, hrd]; omega
      · simp only [P]
        split
        · have : endOf { d with rd := some ⟨r.stop, r.bstart + r.blen, l⟩, script := sc } = endOf d := rfl
          rw [this, ← hst]; omega
        · rfl
    · -- the reader is exhausted: go to the next origin token
      have hinv : rdInvalid d = true := by simp [rdInvalid, hrd]; omega
      have hcur : d.cur ≠ .none := hc.c2 r hrd (by omega)
      have hnext : (if (d.oidx == 0 && d.cur == K.none) = true then 0 else d.oidx + 1) = d.oidx + 1 := by
        have : (d.cur == K.none) = false := by simpa using hcur
        simp [this]
      have hP : P g0 d = t.start + t.len := by
        simp only [P, hrd]
        rw [if_pos (by omega), endOf_eq d t ht]
      cases hn : d.toks[d.oidx + 1]? with
      | none =>
        have hres : lexToken (f+1) d = (d, (.eof, d.cstart + d.clen, 0)) := by
          unfold lexToken
          simp only [hinv, if_true, hnext, hn]
        rw [hres]
        exact ⟨⟨rfl, rfl, rfl, rfl, rfl, rfl⟩, hb, Or.inr ⟨rfl, rfl, rfl, by rw [hP]; exact c6 hn, rfl, hcur⟩⟩
      | some t' =>
        have hstart := c5 t' hn
        obtain ⟨e1, e2, _, _, _, _⟩ := chain_get d.toks g0 g1 (d.oidx + 1) t' hb.wf.chain hn
        have hlt' : d.oidx + 1 < d.toks.length := by
          rcases Nat.lt_or_ge (d.oidx + 1) d.toks.length with h | h
          · exact h
          · rw [List.getElem?_eq_none_iff.mpr h] at hn; cases hn
        by_cases hp : t'.pass = true
        · have hres : lexToken (f+1) d = ({ d with oidx := d.oidx + 1 }, (t'.kind, t'.start, t'.len)) := by
            unfold lexToken
            simp only [hinv, if_true, hnext, hn, hp]
          rw [hres]
          refine ⟨⟨rfl, rfl, rfl, rfl, rfl, rfl⟩, ⟨hb.wf, by simp [hrd], ?_⟩, Or.inl ⟨e2, by rw [hP, hstart], e1, ?_, by simp [hrd]⟩⟩
          · intro r' hr'
            simp only [hrd, Option.some.injEq] at hr'
            subst hr'
            exact ⟨hlt', fun h => absurd h hval⟩
          · simp only [P, hrd]
            rw [if_pos (by omega)]
            simp [endOf, hn]
        · have hp' : t'.pass = false := by simpa using hp
          obtain ⟨k, l, sc, hlo, hl1, hl2, hk⟩ := lexOnce_valid
            { d with oidx := d.oidx + 1, rd := some ⟨t'.start + t'.len, t'.start, 0⟩ } ⟨t'.start + t'.len, t'.start, 0⟩ rfl (by simp; omega)
          dsimp only at hl2
          have hres : lexToken (f+1) d =
              ({ d with oidx := d.oidx + 1, rd := some ⟨t'.start + t'.len, t'.start + 0, l⟩, script := sc }, (k, t'.start + 0, l)) := by
            unfold lexToken
            simp only [hinv, if_true, hnext, hn, hp', Bool.false_eq_true, if_false]
            rw [hlo]
          rw [hres]
          refine ⟨⟨rfl, rfl, rfl, rfl, rfl, rfl⟩, ⟨hb.wf, by simp, ?_⟩, Or.inl ⟨hk, by rw [hP, hstart]; simp, hl1, ?_, by simp⟩⟩
          · intro r' hr'
            simp only [Option.some.injEq] at hr'
            subst hr'
            exact ⟨hlt', fun _ => by simp [endOf, hn]⟩
          · simp only [P, Nat.add_zero]
            split
            · simp only [endOf, hn]; omega
            · rfl

theorem lexToken_spec (g0 g1 f : Nat) (hf : 0 < f) (d : D) (hb : BaseR g0 g1 d) (hc : CurOK d) :
    SameCore d (lexToken f d).1 ∧ BaseR g0 g1 (lexToken f d).1 ∧
    ((isInvalidKind (lexToken f d).2.1 = false ∧ (lexToken f d).2.2.1 = P g0 d ∧
        0 < (lexToken f d).2.2.2 ∧
        P g0 (lexToken f d).1 = (lexToken f d).2.2.1 + (lexToken f d).2.2.2 ∧
        (lexToken f d).1.rd ≠ none) ∨
     ((lexToken f d).2.1 = .eof ∧ (lexToken f d).2.2.2 = 0 ∧
        (lexToken f d).2.2.1 = d.cstart + d.clen ∧ P g0 d = g1 ∧ (lexToken f d).1 = d ∧ d.cur ≠ .none)) := by
  obtain ⟨f', rfl⟩ : ∃ f', f = f' + 1 := ⟨f - 1, by omega⟩
  exact lexToken_spec' g0 g1 f' d hb hc

theorem lexFuel_pos (d : D) : 0 < lexFuel d := by simp [lexFuel]

/-! ### The invariant -/

/-- end of what has been emitted -/
def E (g0 : Nat) (d : D) : Nat :=
  match d.cur with
  | .none => P g0 d
  | .eof => d.cstart + d.clen
  | _ => d.cstart

structure Inv (g0 g1 : Nat) (d : D) : Prop where
  base : BaseR g0 g1 d
  curok : CurOK d
  tiles : Tiles d.events g0 (E g0 d)
  tok : isInvalidKind d.cur = false → d.cstart + d.clen = P g0 d ∧ 0 < d.clen
  eof : d.cur = .eof → P g0 d = g1 ∧ d.cstart + d.clen = g1

/-- state in which `lex_token` may be called for the next current token -/
structure PreLex (g0 g1 : Nat) (d : D) : Prop where
  base : BaseR g0 g1 d
  curok : CurOK d
  tiles : Tiles d.events g0 (P g0 d)
  pos : d.cur ≠ .none → d.cstart + d.clen = P g0 d

theorem tiles_snoc (evs : List (K × Nat × Nat)) (a b l : Nat) (k : K) (h : Tiles evs a b) :
    Tiles (evs ++ [(k, b, l)]) a (b + l) := by
  induction evs generalizing a with
  | nil => simp only [Tiles] at h; subst h; simp [Tiles]
  | cons e es ih =>
    obtain ⟨k', s', l'⟩ := e
    obtain ⟨h1, h2⟩ := h
    exact ⟨h1, ih _ h2⟩

theorem baseR_congr (g0 g1 : Nat) (d d' : D) (h1 : d'.toks = d.toks) (h2 : d'.oidx = d.oidx) (h3 : d'.rd = d.rd)
    (hb : BaseR g0 g1 d) : BaseR g0 g1 d' := by
  have he : endOf d' = endOf d := by simp [endOf, h1, h2]
  exact ⟨by rw [h1]; exact hb.wf, by rw [h3, h2]; exact hb.fresh,
    by intro r hr; rw [h3] at hr; rw [h2, h1, he]; exact hb.rdok r hr⟩

theorem P_congr (g0 : Nat) (d d' : D) (h1 : d'.toks = d.toks) (h2 : d'.oidx = d.oidx) (h3 : d'.rd = d.rd) :
    P g0 d' = P g0 d := by
  have he : endOf d' = endOf d := by simp [endOf, h1, h2]
  simp [P, h3, he]

theorem inv_assign_tok (g0 g1 : Nat) (d0 : D) (k : K) (s l : Nat) (hb : BaseR g0 g1 d0)
    (hk : isInvalidKind k = false) (hrd : d0.rd ≠ none) (hP : P g0 d0 = s + l) (hl : 0 < l)
    (ht : Tiles d0.events g0 s) : Inv g0 g1 { d0 with cur := k, cstart := s, clen := l } := by
  have hkn : k ≠ .none := by intro e; subst e; simp [isInvalidKind] at hk
  have hke : k ≠ .eof := by intro e; subst e; simp [isInvalidKind] at hk
  refine ⟨baseR_congr g0 g1 d0 _ rfl rfl rfl hb, ⟨fun h => absurd h hrd, fun _ _ _ => hkn⟩, ?_, ?_, ?_⟩
  · have : E g0 { d0 with cur := k, cstart := s, clen := l } = s := by
      cases k <;> simp_all [E]
    rw [this]; exact ht
  · intro _
    have hPeq : P g0 ({ d0 with cur := k, cstart := s, clen := l } : D) = P g0 d0 := rfl
    exact ⟨by rw [hPeq]; exact hP.symm, hl⟩
  · intro h; exact absurd h hke

theorem inv_assign_eof (g0 g1 : Nat) (d0 : D) (c l : Nat) (hb : BaseR g0 g1 d0) (hrd : d0.rd ≠ none)
    (hP : P g0 d0 = g1) (hc : c + l = g1) (ht : Tiles d0.events g0 g1) :
    Inv g0 g1 { d0 with cur := .eof, cstart := c, clen := l } := by
  refine ⟨baseR_congr g0 g1 d0 _ rfl rfl rfl hb, ⟨fun h => absurd h hrd, fun _ _ _ => by simp⟩, ?_, ?_, ?_⟩
  · simp only [E]; rw [hc]; exact ht
  · intro h; simp [isInvalidKind] at h
  · intro _
    have hPeq : P g0 ({ d0 with cur := .eof, cstart := c, clen := l } : D) = P g0 d0 := rfl
    exact ⟨by rw [hPeq]; exact hP, hc⟩

theorem rd_ne_none_of_cur (d : D) (hc : CurOK d) (h : d.cur ≠ .none) : d.rd ≠ none :=
  fun e => h (hc.c1 e)

theorem inv_congr (g0 g1 : Nat) (d d' : D) (h1 : d'.toks = d.toks) (h2 : d'.oidx = d.oidx) (h3 : d'.rd = d.rd)
    (h4 : d'.cur = d.cur) (h5 : d'.cstart = d.cstart) (h6 : d'.clen = d.clen) (h7 : d'.events = d.events)
    (h : Inv g0 g1 d) : Inv g0 g1 d' := by
  have hP := P_congr g0 d d' h1 h2 h3
  have hE : E g0 d' = E g0 d := by simp [E, h4, h5, h6, hP]
  exact ⟨baseR_congr g0 g1 d d' h1 h2 h3 h.base,
    ⟨by rw [h3, h4]; exact h.curok.c1, by intro r hr; rw [h3] at hr; rw [h4]; exact h.curok.c2 r hr⟩,
    by rw [h7, hE]; exact h.tiles,
    by rw [h4, h5, h6, hP]; exact h.tok,
    by rw [h4, h5, h6, hP]; exact h.eof⟩

theorem inv_set_st (g0 g1 : Nat) (d : D) (s' : LS) (h : Inv g0 g1 d) : Inv g0 g1 { d with st := s' } :=
  inv_congr g0 g1 d _ rfl rfl rfl rfl rfl rfl rfl h

/-- what assigning the result of `lex_token` to the current token gives (`eat` and `re_calc_cast_type`
keep the old range for an empty result, `calc_next_current_token` always assigns) -/
theorem assign_inv0 (g0 g1 : Nat) (d0 d2 : D) (k : K) (s l : Nat) (keep : Bool)
    (hb0 : BaseR g0 g1 d0) (hc0 : CurOK d0) (ht0 : Tiles d0.events g0 (P g0 d0))
    (hpos : d0.cur ≠ .none → d0.cstart + d0.clen = P g0 d0)
    (hs : SameCore d0 d2) (hb2 : BaseR g0 g1 d2)
    (hcase : (isInvalidKind k = false ∧ s = P g0 d0 ∧ 0 < l ∧ P g0 d2 = s + l ∧ d2.rd ≠ none) ∨
             (k = .eof ∧ l = 0 ∧ s = d0.cstart + d0.clen ∧ P g0 d0 = g1 ∧ d2 = d0 ∧ d0.cur ≠ .none)) :
    Inv g0 g1 (if keep && decide (l = 0) then { d2 with cur := k } else { d2 with cur := k, cstart := s, clen := l }) ∧
      k ≠ .none := by
  obtain ⟨s1, s2, s3, s4, s5, s6⟩ := hs
  rcases hcase with ⟨a1, a2, a3, a4, a5⟩ | ⟨b1, b2, b3, b4, b5, b6⟩
  · have hkn : k ≠ .none := by intro e; rw [e] at a1; simp [isInvalidKind] at a1
    have hl0 : decide (l = 0) = false := by simp; omega
    simp only [hl0, Bool.and_false, Bool.false_eq_true, if_false]
    exact ⟨inv_assign_tok g0 g1 d2 k s l hb2 a1 a5 a4 a3 (by rw [s5, a2]; exact ht0), hkn⟩
  · rw [b5]
    have hrd := rd_ne_none_of_cur d0 hc0 b6
    have hg : d0.cstart + d0.clen = g1 := by rw [hpos b6]; exact b4
    refine ⟨?_, by rw [b1]; simp⟩
    have key1 := inv_assign_eof g0 g1 d0 d0.cstart d0.clen hb0 hrd b4 hg (by rw [← b4]; exact ht0)
    have key2 := inv_assign_eof g0 g1 d0 (d0.cstart + d0.clen) 0 hb0 hrd b4 (by omega) (by rw [← b4]; exact ht0)
    cases keep with
    | true => simp only [b2, decide_true, Bool.and_self, if_true, b1]; exact key1
    | false => simp only [Bool.false_and, Bool.false_eq_true, if_false, b1, b2, b3]; exact key2

theorem assign_inv (g0 g1 : Nat) (d0 d2 : D) (k : K) (s l : Nat) (keep : Bool) (s' : LS)
    (hb0 : BaseR g0 g1 d0) (hc0 : CurOK d0) (ht0 : Tiles d0.events g0 (P g0 d0))
    (hpos : d0.cur ≠ .none → d0.cstart + d0.clen = P g0 d0)
    (hs : SameCore d0 d2) (hb2 : BaseR g0 g1 d2)
    (hcase : (isInvalidKind k = false ∧ s = P g0 d0 ∧ 0 < l ∧ P g0 d2 = s + l ∧ d2.rd ≠ none) ∨
             (k = .eof ∧ l = 0 ∧ s = d0.cstart + d0.clen ∧ P g0 d0 = g1 ∧ d2 = d0 ∧ d0.cur ≠ .none)) :
    Inv g0 g1 (if keep && decide (l = 0) then { d2 with cur := k, st := s' }
               else { d2 with cur := k, cstart := s, clen := l, st := s' }) ∧ k ≠ .none := by
  obtain ⟨h1, h2⟩ := assign_inv0 g0 g1 d0 d2 k s l keep hb0 hc0 ht0 hpos hs hb2 hcase
  refine ⟨?_, h2⟩
  cases hcnd : (keep && decide (l = 0)) with
  | true =>
    simp only [hcnd, if_true] at h1 ⊢
    exact inv_set_st g0 g1 _ s' h1
  | false =>
    simp only [hcnd, Bool.false_eq_true, if_false] at h1 ⊢
    exact inv_set_st g0 g1 _ s' h1

/-- `eat_current_and_lex_next` on a present token -/
theorem eat_inv (g0 g1 : Nat) (d : D) (h : Inv g0 g1 d) (hk : isInvalidKind d.cur = false) :
    Inv g0 g1 (eat d) ∧ (eat d).cur ≠ .none := by
  obtain ⟨hpos, hlen⟩ := h.tok hk
  have hE : E g0 d = d.cstart := by
    cases hc : d.cur <;> simp_all [E, isInvalidKind]
  have hb1 : BaseR g0 g1 { d with events := d.events ++ [(d.cur, d.cstart, d.clen)] } :=
    baseR_congr g0 g1 d _ rfl rfl rfl h.base
  have hc1 : CurOK { d with events := d.events ++ [(d.cur, d.cstart, d.clen)] } := ⟨h.curok.c1, h.curok.c2⟩
  have ht1 : Tiles (d.events ++ [(d.cur, d.cstart, d.clen)]) g0 (d.cstart + d.clen) := by
    have := h.tiles; rw [hE] at this; exact tiles_snoc _ _ _ _ _ this
  have hP1 : P g0 ({ d with events := d.events ++ [(d.cur, d.cstart, d.clen)] } : D) = P g0 d := rfl
  obtain ⟨hs, hb2, hcase⟩ := lexToken_spec g0 g1
    (lexFuel ({ d with events := d.events ++ [(d.cur, d.cstart, d.clen)] } : D)) (lexFuel_pos _)
    ({ d with events := d.events ++ [(d.cur, d.cstart, d.clen)] } : D) hb1 hc1
  have key := assign_inv g0 g1 _ _ _ _ _ true
    (stAfter (lexToken (lexFuel ({ d with events := d.events ++ [(d.cur, d.cstart, d.clen)] } : D))
      ({ d with events := d.events ++ [(d.cur, d.cstart, d.clen)] } : D)).2.1
      (lexToken (lexFuel ({ d with events := d.events ++ [(d.cur, d.cstart, d.clen)] } : D))
      ({ d with events := d.events ++ [(d.cur, d.cstart, d.clen)] } : D)).1.st)
    hb1 hc1 (by rw [hP1, ← hpos]; exact ht1)
    (fun _ => by rw [hP1]; exact hpos) hs hb2 hcase
  unfold eat
  simp only []
  by_cases hz : (lexToken (lexFuel ({ d with events := d.events ++ [(d.cur, d.cstart, d.clen)] } : D))
      { d with events := d.events ++ [(d.cur, d.cstart, d.clen)] }).2.2.2 = 0
  · rw [if_pos hz]
    simp only [hz, decide_true, Bool.and_self, if_true] at key
    exact ⟨key.1, key.2⟩
  · have hd : decide ((lexToken (lexFuel ({ d with events := d.events ++ [(d.cur, d.cstart, d.clen)] } : D))
        { d with events := d.events ++ [(d.cur, d.cstart, d.clen)] }).2.2.2 = 0) = false := by simpa using hz
    simp only [hd, Bool.and_false, Bool.false_eq_true, if_false] at key
    rw [if_neg hz]
    exact ⟨key.1, key.2⟩

theorem skipP_valid (s : LS) (k : K) (h : skipP s k = true) : isInvalidKind k = false := by
  cases s <;> cases k <;> simp_all [skipP, isInvalidKind]

theorem skipLoop_inv (g0 g1 f : Nat) (d : D) (h : Inv g0 g1 d) (hc : d.cur ≠ .none) :
    Inv g0 g1 (skipLoop f d) ∧ (skipLoop f d).cur ≠ .none := by
  induction f generalizing d with
  | zero => exact ⟨h, hc⟩
  | succ f ih =>
    unfold skipLoop
    split
    · rename_i hs
      obtain ⟨i1, i2⟩ := eat_inv g0 g1 d h (skipP_valid _ _ hs)
      exact ih (eat d) i1 i2
    · exact ⟨h, hc⟩

/-- `calc_next_current_token` -/
theorem calcNext_inv (g0 g1 : Nat) (d : D) (h : PreLex g0 g1 d) :
    Inv g0 g1 (calcNext d) ∧ (calcNext d).cur ≠ .none := by
  obtain ⟨hs, hb2, hcase⟩ := lexToken_spec g0 g1 _ (lexFuel_pos d) d h.base h.curok
  have key := assign_inv g0 g1 _ _ _ _ _ false
    (stAfter (lexToken (lexFuel d) d).2.1 (lexToken (lexFuel d) d).1.st) h.base h.curok h.tiles h.pos hs hb2 hcase
  simp only [Bool.false_and, Bool.false_eq_true, if_false] at key
  unfold calcNext
  simp only []
  split
  · exact ⟨key.1, key.2⟩
  · exact skipLoop_inv g0 g1 _ _ key.1 key.2

theorem prelex_of_inv_invalid (g0 g1 : Nat) (d : D) (h : Inv g0 g1 d) (hk : isInvalidKind d.cur = true) :
    PreLex g0 g1 d := by
  refine ⟨h.base, h.curok, ?_, ?_⟩
  · have ht := h.tiles
    cases hc : d.cur with
    | none =>
      have : E g0 d = P g0 d := by simp [E, hc]
      rw [this] at ht; exact ht
    | eof =>
      obtain ⟨e1, e2⟩ := h.eof hc
      have : E g0 d = d.cstart + d.clen := by simp [E, hc]
      rw [this] at ht; rw [e1, ← e2]; exact ht
    | _ => rw [hc] at hk; simp [isInvalidKind] at hk
  · intro hn
    cases hc : d.cur with
    | none => exact absurd hc hn
    | eof => obtain ⟨e1, e2⟩ := h.eof hc; omega
    | _ => rw [hc] at hk; simp [isInvalidKind] at hk

/-- `bump` -/
theorem bump_inv (g0 g1 : Nat) (d : D) (h : Inv g0 g1 d) :
    Inv g0 g1 (bump d) ∧ (bump d).cur ≠ .none := by
  unfold bump
  cases hk : isInvalidKind d.cur with
  | true =>
    simp only [if_true]
    exact calcNext_inv g0 g1 d (prelex_of_inv_invalid g0 g1 d h hk)
  | false =>
    simp only [Bool.false_eq_true, if_false]
    obtain ⟨hpos, hlen⟩ := h.tok hk
    have hE : E g0 d = d.cstart := by cases hc : d.cur <;> simp_all [E, isInvalidKind]
    have hP1 : P g0 ({ d with events := d.events ++ [(d.cur, d.cstart, d.clen)] } : D) = P g0 d := rfl
    exact calcNext_inv g0 g1 { d with events := d.events ++ [(d.cur, d.cstart, d.clen)] }
      ⟨baseR_congr g0 g1 d _ rfl rfl rfl h.base, ⟨h.curok.c1, h.curok.c2⟩,
        by rw [hP1, ← hpos]; have t := h.tiles; rw [hE] at t; exact tiles_snoc _ _ _ _ _ t,
        fun _ => by rw [hP1]; exact hpos⟩

/-! ### Operations of the doc grammar -/

/-- renaming a present token -/
theorem inv_rekind (g0 g1 : Nat) (d : D) (k : K) (h : Inv g0 g1 d) (hk : isInvalidKind d.cur = false)
    (hk' : isInvalidKind k = false) : Inv g0 g1 { d with cur := k } := by
  have hcur : d.cur ≠ .none := by intro e; rw [e] at hk; simp [isInvalidKind] at hk
  have hkn : k ≠ .none := by intro e; rw [e] at hk'; simp [isInvalidKind] at hk'
  have hke : k ≠ .eof := by intro e; rw [e] at hk'; simp [isInvalidKind] at hk'
  have hE : E g0 d = d.cstart := by cases hc : d.cur <;> simp_all [E, isInvalidKind]
  have hE' : E g0 ({ d with cur := k } : D) = d.cstart := by cases k <;> simp_all [E]
  refine ⟨baseR_congr g0 g1 d _ rfl rfl rfl h.base,
    ⟨fun hr => absurd hr (rd_ne_none_of_cur d h.curok hcur), fun _ _ _ => hkn⟩, ?_, ?_, ?_⟩
  · rw [hE']; have := h.tiles; rw [hE] at this; exact this
  · intro _; exact h.tok hk
  · intro e; exact absurd e hke

/-- with a reader that still has text, the current token is a present token inside the reader's
origin token, strictly before its end -/
theorem valid_reader_facts (g0 g1 : Nat) (d : D) (h : Inv g0 g1 d) (hcur : d.cur ≠ .none) (hv : rdInvalid d = false) :
    isInvalidKind d.cur = false ∧ ∃ e, tokEnd d = some e ∧ endOf d = e ∧ d.cstart < e ∧ d.oidx < d.toks.length ∧ e ≤ g1 := by
  cases hrd : d.rd with
  | none => simp [rdInvalid, hrd] at hv
  | some r =>
    have hval : r.bstart + r.blen < r.stop := by simp [rdInvalid, hrd] at hv; omega
    obtain ⟨holt, hstop⟩ := h.base.rdok r hrd
    have hst := hstop hval
    obtain ⟨t, ht⟩ : ∃ t, d.toks[d.oidx]? = some t := ⟨d.toks[d.oidx], List.getElem?_eq_getElem holt⟩
    obtain ⟨_, _, _, c4, _, _⟩ := chain_get d.toks g0 g1 d.oidx t h.base.wf.chain ht
    have hP : P g0 d = r.bstart + r.blen := by simp [P, hrd]; omega
    have he : endOf d = t.start + t.len := endOf_eq d t ht
    have hk : isInvalidKind d.cur = false := by
      cases hc : d.cur with
      | none => exact absurd hc hcur
      | eof => obtain ⟨e1, _⟩ := h.eof hc; omega
      | _ => simp [isInvalidKind]
    obtain ⟨hpos, hlen⟩ := h.tok hk
    exact ⟨hk, t.start + t.len, by simp [tokEnd, ht], he, by omega, holt, c4⟩

theorem reCalcDetail_inv (g0 g1 : Nat) (d d' : D) (h : Inv g0 g1 d) (hk : isInvalidKind d.cur = false)
    (hr : reCalcDetail d = some d') : Inv g0 g1 d' ∧ d'.cur ≠ .none := by
  have h1 : Inv g0 g1 { d with cur := .detail } := inv_rekind g0 g1 d .detail h hk rfl
  unfold reCalcDetail at hr
  simp only [] at hr
  split at hr
  · cases hr; exact ⟨h1, by simp⟩
  · rename_i hv
    have hv' : rdInvalid ({ d with cur := .detail } : D) = false := by simpa using hv
    obtain ⟨_, e, he1, he2, he3, he4, he5⟩ := valid_reader_facts g0 g1 _ h1 (by simp) hv'
    dsimp only at he3 he4
    have he2' : endOf d = e := he2
    rw [he1] at hr
    simp only [Option.some.injEq] at hr
    subst hr
    have hE : E g0 ({ d with cur := .detail } : D) = d.cstart := rfl
    have hinv : Inv g0 g1 ({ d with cur := .none, rd := some ⟨e, d.cstart, 0⟩, st := .description } : D) := by
      have hP : P g0 ({ d with cur := .none, rd := some ⟨e, d.cstart, 0⟩, st := .description } : D) = d.cstart := by
        simp only [P]; rw [if_neg (by omega)]; simp
      refine ⟨⟨h.base.wf, by simp, ?_⟩, ⟨by simp, ?_⟩, ?_, by simp [isInvalidKind], by simp⟩
      · intro r hr
        simp only [Option.some.injEq] at hr
        subst hr
        exact ⟨he4, fun _ => he2'.symm⟩
      · intro r hr hle
        simp only [Option.some.injEq] at hr
        subst hr
        simp only at hle; omega
      · have : E g0 ({ d with cur := .none, rd := some ⟨e, d.cstart, 0⟩, st := .description } : D) = d.cstart := by
          simp only [E]; exact hP
        rw [this]; have t := h1.tiles; rw [hE] at t; exact t
    exact bump_inv g0 g1 _ hinv

theorem reCalcCast_inv (g0 g1 : Nat) (d d' : D) (h : Inv g0 g1 d) (hcur : d.cur ≠ .none)
    (hr : reCalcCast d = some d') : Inv g0 g1 d' ∧ d'.cur ≠ .none := by
  have hE0 : isInvalidKind d.cur = false → E g0 d = d.cstart := by
    intro hk; cases hc : d.cur <;> simp_all [E, isInvalidKind]
  unfold reCalcCast at hr
  split at hr
  · cases hr; exact ⟨h, hcur⟩
  · rename_i hv
    have hv' : rdInvalid d = false := by simpa using hv
    obtain ⟨hk, e, he1, he2, he3, he4, he5⟩ := valid_reader_facts g0 g1 d h hcur hv'
    rw [he1] at hr
    simp only [Option.some.injEq] at hr
    have hE : E g0 d = d.cstart := hE0 hk
    have hb1 : BaseR g0 g1 ({ d with rd := some ⟨e, d.cstart, 0⟩, st := .normal } : D) := by
      refine ⟨h.base.wf, by simp, ?_⟩
      intro r hr'
      simp only [Option.some.injEq] at hr'
      subst hr'
      exact ⟨he4, fun _ => he2.symm⟩
    have hc1 : CurOK ({ d with rd := some ⟨e, d.cstart, 0⟩, st := .normal } : D) := ⟨by simp, fun _ _ _ => hcur⟩
    have hP1 : P g0 ({ d with rd := some ⟨e, d.cstart, 0⟩, st := .normal } : D) = d.cstart := by
      simp only [P]; rw [if_neg (by omega)]; simp
    obtain ⟨hs, hb2, hcase⟩ := lexToken_spec g0 g1
      (lexFuel ({ d with rd := some ⟨e, d.cstart, 0⟩, st := .normal } : D)) (lexFuel_pos _)
      ({ d with rd := some ⟨e, d.cstart, 0⟩, st := .normal } : D) hb1 hc1
    obtain ⟨s1, s2, s3, s4, s5, s6⟩ := hs
    rcases hcase with ⟨a1, a2, a3, a4, a5⟩ | ⟨b1, b2, b3, b4, b5, b6⟩
    · rw [if_neg (by omega)] at hr
      subst hr
      have hkn : (lexToken (lexFuel ({ d with rd := some ⟨e, d.cstart, 0⟩, st := .normal } : D))
          ({ d with rd := some ⟨e, d.cstart, 0⟩, st := .normal } : D)).2.1 ≠ .none := by
        intro e'; rw [e'] at a1; simp [isInvalidKind] at a1
      have hx := inv_assign_tok g0 g1 _ _ _ _ hb2 a1 a5 a4 a3
        (by rw [s5, a2, hP1]; have t := h.tiles; rw [hE] at t; exact t)
      exact ⟨inv_set_st g0 g1 _ _ hx, hkn⟩
    · rw [hP1] at b4; omega

theorem setState_inv (g0 g1 : Nat) (d d' : D) (s : LS) (h : Inv g0 g1 d) (hcur : d.cur ≠ .none)
    (hr : setState d s = some d') : Inv g0 g1 d' ∧ d'.cur ≠ .none ∧ d'.st = s := by
  unfold setState at hr
  have fin : ∀ x : D, Inv g0 g1 x → x.cur ≠ .none →
      Inv g0 g1 { x with st := s } ∧ ({ x with st := s } : D).cur ≠ .none ∧ ({ x with st := s } : D).st = s :=
    fun x hx hc => ⟨inv_congr g0 g1 x _ rfl rfl rfl rfl rfl rfl rfl hx, hc, rfl⟩
  cases s with
  | description =>
    simp only [] at hr
    split at hr
    · simp only [Option.map_some, Option.some.injEq] at hr; subst hr; exact fin d h hcur
    · rename_i hex
      cases hrd : reCalcDetail d with
      | none => rw [hrd] at hr; simp at hr
      | some x =>
        rw [hrd] at hr
        simp only [Option.map_some, Option.some.injEq] at hr; subst hr
        have hk : isInvalidKind d.cur = false := by
          cases hc : d.cur <;> simp_all [isInvalidKind, exclDescription]
        obtain ⟨j1, j2⟩ := reCalcDetail_inv g0 g1 d x h hk hrd
        exact fin x j1 j2
  | trivia =>
    simp only [] at hr
    split at hr
    · simp only [Option.map_some, Option.some.injEq] at hr; subst hr; exact fin d h hcur
    · rename_i hex
      simp only [Option.map_some, Option.some.injEq] at hr; subst hr
      have hk : isInvalidKind d.cur = false := by
        cases hc : d.cur <;> simp_all [isInvalidKind, exclTrivia]
      exact fin _ (inv_rekind g0 g1 d .trivia h hk rfl) (by simp)
  | normal =>
    simp only [] at hr
    split at hr
    · cases hrc : reCalcCast d with
      | none => rw [hrc] at hr; simp at hr
      | some x =>
        rw [hrc] at hr
        simp only [Option.map_some, Option.some.injEq] at hr; subst hr
        obtain ⟨j1, j2⟩ := reCalcCast_inv g0 g1 d x h hcur hrc
        exact fin x j1 j2
    · simp only [Option.map_some, Option.some.injEq] at hr; subst hr; exact fin d h hcur
  | init => simp only [Option.map_some, Option.some.injEq] at hr; subst hr; exact fin d h hcur
  | normalLike => simp only [Option.map_some, Option.some.injEq] at hr; subst hr; exact fin d h hcur
  | wsOnly => simp only [Option.map_some, Option.some.injEq] at hr; subst hr; exact fin d h hcur
  | castExpr => simp only [Option.map_some, Option.some.injEq] at hr; subst hr; exact fin d h hcur
  | other => simp only [Option.map_some, Option.some.injEq] at hr; subst hr; exact fin d h hcur

theorem bumpToEnd_inv (g0 g1 : Nat) (d d' : D) (h : Inv g0 g1 d) (hcur : d.cur ≠ .none) (hv : rdInvalid d = false)
    (hr : bumpToEnd d = some d') : Inv g0 g1 d' ∧ d'.cur ≠ .none := by
  obtain ⟨hk, _⟩ := valid_reader_facts g0 g1 d h hcur hv
  unfold bumpToEnd at hr
  cases h1 : setState d .trivia with
  | none => rw [h1] at hr; simp at hr
  | some d1 =>
    rw [h1] at hr
    simp only [Option.bind_eq_bind, Option.bind_some] at hr
    obtain ⟨i1, i2, _⟩ := setState_inv g0 g1 d d1 .trivia h hcur h1
    -- the token is still a present token (trivia, or one of the kinds left alone — never TkEof here)
    have hk1 : isInvalidKind d1.cur = false := by
      unfold setState at h1
      simp only [] at h1
      split at h1
      · simp only [Option.map_some, Option.some.injEq] at h1; subst h1; exact hk
      · simp only [Option.map_some, Option.some.injEq] at h1; subst h1; rfl
    obtain ⟨e1, e2⟩ := eat_inv g0 g1 d1 i1 hk1
    cases h3 : setState (eat d1) .init with
    | none => rw [h3] at hr; simp at hr
    | some d3 =>
      rw [h3] at hr
      simp only [Option.bind_some, Option.pure_def, Option.some.injEq] at hr
      subst hr
      obtain ⟨k1, k2, _⟩ := setState_inv g0 g1 _ d3 .init e1 e2 h3
      exact bump_inv g0 g1 d3 k1

/-- every operation of the doc grammar keeps the invariant -/
theorem step_inv (g0 g1 : Nat) (d d' : D) (op : Op) (h : Inv g0 g1 d) (hcur : d.cur ≠ .none)
    (hr : step d op = some d') : Inv g0 g1 d' ∧ d'.cur ≠ .none := by
  cases op with
  | bump =>
    simp only [step, Option.some.injEq] at hr; subst hr
    exact bump_inv g0 g1 d h
  | setState s =>
    obtain ⟨j1, j2, _⟩ := setState_inv g0 g1 d d' s h hcur hr
    exact ⟨j1, j2⟩
  | bumpToEnd =>
    simp only [step] at hr
    split at hr
    · cases hr
    · rename_i hv
      exact bumpToEnd_inv g0 g1 d d' h hcur (by simpa using hv) hr
  | setKind k =>
    simp only [step] at hr
    split at hr
    · cases hr
    · rename_i hc
      simp only [Bool.or_eq_true, not_or, Bool.not_eq_true] at hc
      simp only [Option.some.injEq] at hr; subst hr
      refine ⟨inv_rekind g0 g1 d k h hc.1 hc.2, ?_⟩
      intro e; simp only at e; rw [e] at hc; simp [isInvalidKind] at hc

theorem run_inv (g0 g1 : Nat) (ops : List Op) (d d' : D) (h : Inv g0 g1 d) (hcur : d.cur ≠ .none)
    (hr : run d ops = some d') : Inv g0 g1 d' ∧ d'.cur ≠ .none := by
  induction ops generalizing d with
  | nil => simp only [run, Option.some.injEq] at hr; subst hr; exact ⟨h, hcur⟩
  | cons op ops ih =>
    simp only [run] at hr
    split at hr
    · cases hr
    · rename_i d1 h1
      obtain ⟨j1, j2⟩ := step_inv g0 g1 d d1 op h hcur h1
      exact ih d1 j1 j2 hr

/-- the state in which the doc grammar takes over (`LuaDocParser::parse` after `init`) -/
theorem start_inv (g0 g1 : Nat) (toks : List OTok) (script : List (K × Nat)) (hw : WFT toks g0 g1) :
    Inv g0 g1 (start toks script) ∧ (start toks script).cur ≠ .none := by
  obtain ⟨t0, ts0, ht, _⟩ := hw.first
  have hne : toks.isEmpty = false := by rw [ht]; rfl
  unfold start
  simp only [hne, Bool.false_eq_true, if_false]
  have hinv : Inv g0 g1 (D.new toks script) := by
    refine ⟨⟨hw, fun _ => rfl, fun r hr => by simp [D.new] at hr⟩, ⟨fun _ => rfl, fun r hr => by simp [D.new] at hr⟩, ?_,
      by simp [D.new, isInvalidKind], by simp [D.new]⟩
    simp [D.new, E, P, Tiles]
  exact bump_inv g0 g1 _ hinv

end Doc
