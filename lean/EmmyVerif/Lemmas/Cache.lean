import EmmyVerif.Model.Cache
/-! Lemmas: interning through any cache satisfying `Inv` returns an element denoting the tree that
was asked for, and keeps `Inv`. -/
namespace Green

/-- a cell is consistent with its ghost denotation in heap `h` -/
def Good (h : List (Cell × Elem)) : Cell → Elem → Prop
  | .tok k t, tree => tree = .tok k t
  | .node k kids, tree =>
    ∃ trees, tree = .node k trees ∧ kids.map (fun i => (h[i]?).map (·.2)) = trees.map some

/-- the cache invariant: every heap cell denotes its ghost tree (closed under children) -/
def Inv (c : Cache) : Prop :=
  ∀ (id : Nat) (cell : Cell) (tree : Elem), c.heap[id]? = some (cell, tree) → Good c.heap cell tree

theorem inv_empty : Inv Cache.empty := by
  intro id cell tree h; simp [Cache.empty] at h

theorem getElem?_append_some {α} (h ext : List α) (i : Nat) (x : α) (hx : h[i]? = some x) :
    (h ++ ext)[i]? = some x := by
  have hi : i < h.length := by
    rcases Nat.lt_or_ge i h.length with hlt | hge
    · exact hlt
    · rw [List.getElem?_eq_none_iff.mpr hge] at hx; cases hx
  rw [List.getElem?_append_left hi]; exact hx

theorem map_den_mono (h ext : List (Cell × Elem)) (kids : List Nat) (trees : List Elem)
    (hk : kids.map (fun i => (h[i]?).map (·.2)) = trees.map some) :
    kids.map (fun i => ((h ++ ext)[i]?).map (·.2)) = trees.map some := by
  induction kids generalizing trees with
  | nil => simpa using hk
  | cons i is ih =>
    cases trees with
    | nil => simp at hk
    | cons t ts =>
      simp only [List.map_cons, List.cons.injEq] at hk ⊢
      refine ⟨?_, ih ts hk.2⟩
      cases hi : h[i]? with
      | none => rw [hi] at hk; simp at hk
      | some x =>
        rw [getElem?_append_some h ext i x hi]
        rw [hi] at hk; exact hk.1

theorem good_mono (h ext : List (Cell × Elem)) (cell : Cell) (tree : Elem) (hg : Good h cell tree) :
    Good (h ++ ext) cell tree := by
  cases cell with
  | tok k t => exact hg
  | node k kids =>
    obtain ⟨trees, h1, h2⟩ := hg
    exact ⟨trees, h1, map_den_mono h ext kids trees h2⟩

/-- appending one good cell keeps the invariant -/
theorem inv_push (c : Cache) (cell : Cell) (tree : Elem) (toks nodes : List Nat) (hinv : Inv c)
    (hg : Good (c.heap ++ [(cell, tree)]) cell tree) :
    Inv { heap := c.heap ++ [(cell, tree)], toks := toks, nodes := nodes } := by
  intro id cell' tree' h
  simp only at h ⊢
  rcases Nat.lt_or_ge id c.heap.length with hlt | hge
  · rw [List.getElem?_append_left hlt] at h
    exact good_mono _ _ _ _ (hinv id cell' tree' h)
  · rw [List.getElem?_append_right hge] at h
    have : id - c.heap.length = 0 := by
      rcases Nat.eq_zero_or_pos (id - c.heap.length) with h0 | hp
      · exact h0
      · rw [List.getElem?_eq_none_iff.mpr (by simp only [List.length_singleton]; omega)] at h; cases h
    rw [this] at h
    simp at h
    obtain ⟨rfl, rfl⟩ := h
    exact hg

theorem lookupTok_some (c : Cache) (k : TKind) (t : List Char) (id : Nat)
    (h : lookupTok c k t = some id) : ∃ tree, c.heap[id]? = some (.tok k t, tree) := by
  have hp := List.find?_some h
  unfold isTokCell at hp
  split at hp
  · rename_i k' t' tree heq
    simp only [Bool.and_eq_true, beq_iff_eq] at hp
    obtain ⟨rfl, rfl⟩ := hp
    exact ⟨tree, heq⟩
  · cases hp

theorem lookupNode_some (c : Cache) (k : NKind) (ids : List Nat) (id : Nat)
    (h : lookupNode c k ids = some id) : ∃ tree, c.heap[id]? = some (.node k ids, tree) := by
  have hp := List.find?_some h
  unfold isNodeCell at hp
  split at hp
  · rename_i k' ids' tree heq
    simp only [Bool.and_eq_true, beq_iff_eq] at hp
    obtain ⟨rfl, rfl⟩ := hp
    exact ⟨tree, heq⟩
  · cases hp

theorem map_some_inj {α} (a b : List α) (h : a.map some = b.map some) : a = b := by
  induction a generalizing b with
  | nil => cases b <;> simp at h ⊢
  | cons x xs ih =>
    cases b with
    | nil => simp at h
    | cons y ys =>
      simp only [List.map_cons, List.cons.injEq, Option.some.injEq] at h
      rw [h.1, ih ys h.2]

/-- specification of one interning step -/
def Spec (c : Cache) (e : Elem) (r : Res) : Prop :=
  Inv r.1 ∧ (∃ ext, r.1.heap = c.heap ++ ext) ∧ den r.1 r.2.1 = some e

def SpecL (c : Cache) (es : List Elem) (r : Cache × List (Nat × Bool)) : Prop :=
  Inv r.1 ∧ (∃ ext, r.1.heap = c.heap ++ ext) ∧
    (r.2.map (·.1)).map (fun i => (r.1.heap[i]?).map (·.2)) = es.map some

mutual
theorem intern_spec (c : Cache) (e : Elem) (hinv : Inv c) : Spec c e (intern c e) := by
  cases e with
  | tok k t =>
    unfold intern
    split
    · rename_i id hl
      obtain ⟨tree, ht⟩ := lookupTok_some c k t id hl
      have hg := hinv id _ _ ht
      refine ⟨hinv, ⟨[], by simp⟩, ?_⟩
      simp only [den, ht, Option.map_some]
      simp only [Good] at hg
      rw [hg]
    · refine ⟨?_, ⟨_, rfl⟩, ?_⟩
      · exact inv_push c _ _ _ _ hinv rfl
      · simp [den]
  | node k cs =>
    unfold intern
    have hL := internL_spec c cs hinv
    obtain ⟨hinv1, ⟨ext1, hext1⟩, hkids⟩ := hL
    -- the freshly allocated node cell is good in the extended heap
    have hgood : Good ((internL c cs).1.heap ++ [(Cell.node k ((internL c cs).2.map (·.1)), Elem.node k cs)])
        (Cell.node k ((internL c cs).2.map (·.1))) (Elem.node k cs) :=
      ⟨cs, rfl, map_den_mono _ _ _ _ hkids⟩
    simp only []
    split
    · refine ⟨inv_push _ _ _ _ _ hinv1 hgood, ⟨ext1 ++ [(Cell.node k ((internL c cs).2.map (·.1)), Elem.node k cs)], by simp [hext1]⟩, ?_⟩
      simp [den]
    · split
      · rename_i hit hl
        obtain ⟨tree, ht⟩ := lookupNode_some _ k _ hit hl
        obtain ⟨trees, h1, h2⟩ := hinv1 hit _ _ ht
        refine ⟨hinv1, ⟨ext1, hext1⟩, ?_⟩
        simp only [den, ht, Option.map_some]
        rw [h1, map_some_inj trees cs (by rw [← h2, hkids])]
      · refine ⟨inv_push _ _ _ _ _ hinv1 hgood, ⟨ext1 ++ [(Cell.node k ((internL c cs).2.map (·.1)), Elem.node k cs)], by simp [hext1]⟩, ?_⟩
        simp [den]
theorem internL_spec (c : Cache) (es : List Elem) (hinv : Inv c) : SpecL c es (internL c es) := by
  cases es with
  | nil =>
    unfold internL
    exact ⟨hinv, ⟨[], by simp⟩, by simp⟩
  | cons e rest =>
    unfold internL
    obtain ⟨hinv1, ⟨ext1, hext1⟩, hden1⟩ := intern_spec c e hinv
    obtain ⟨hinv2, ⟨ext2, hext2⟩, hk2⟩ := internL_spec (intern c e).1 rest hinv1
    refine ⟨hinv2, ⟨ext1 ++ ext2, by simp [hext2, hext1]⟩, ?_⟩
    simp only [List.map_cons, List.cons.injEq]
    refine ⟨?_, hk2⟩
    simp only [den] at hden1
    rw [hext2]
    cases hi : (intern c e).1.heap[(intern c e).2.1]? with
    | none => rw [hi] at hden1; cases hden1
    | some x =>
      rw [getElem?_append_some _ ext2 _ x hi]
      rw [hi] at hden1; exact hden1
end

theorem parseAll_eq (c : Cache) (hinv : Inv c) (hist : List (List MEv)) :
    parseAll c hist = hist.map build := by
  induction hist generalizing c with
  | nil => rfl
  | cons evs rest ih =>
    unfold parseAll
    split
    · rename_i hb
      simp [hb, ih c hinv]
    · rename_i e hb
      obtain ⟨hinv1, _, hden⟩ := intern_spec c e hinv
      simp [hb, hden, ih _ hinv1]

end Green
