import EmmyVerif.Model.TyCheck
/-! Lemmas about the assignability model `TyM.checkGeneral`. -/
namespace TyM
open Ty

theorem checkGeneral_compact_likeAny (e : Env) (ip : List (Name × Ty)) (f lvl : Nat) (s c : Ty) (h : isLikeAny c = true) :
    checkGeneral e ip (f + 1) lvl s c = .ok := by
  unfold checkGeneral
  simp [h]

/-- `any`/`unknown` as the expected type: the only way not to answer `ok` is to run out of levels (or
model fuel) while unfolding a chain of aliases in the compact type -/
theorem checkGeneral_source_likeAny (e : Env) (ip : List (Name × Ty)) (s : Ty) (hs : s = tAny ∨ s = tUnknown) :
    ∀ (f lvl : Nat) (c : Ty), checkGeneral e ip f lvl s c = .ok ∨ checkGeneral e ip f lvl s c = .recursion ∨
      checkGeneral e ip f lvl s c = .outOfFuel := by
  intro f
  induction f with
  | zero => intro lvl c; simp [checkGeneral]
  | succ f ih =>
    intro lvl c
    unfold checkGeneral
    by_cases h1 : isLikeAny c = true
    · simp [h1]
    · simp only [h1]
      by_cases h2 : fastEq s c = true
      · simp [h2]
      · simp only [h2]
        cases he : escapeType e c with
        | some o =>
          simp only [withNext]
          cases hn : next lvl with
          | none => simp
          | some l => simpa using ih l o
        | none =>
          rcases hs with rfl | rfl <;> simp

theorem checkGeneral_source_likeAny_no_alias (e : Env) (ip : List (Name × Ty)) (s : Ty) (hs : s = tAny ∨ s = tUnknown)
    (f lvl : Nat) (c : Ty) (hc : escapeType e c = none) : checkGeneral e ip (f + 1) lvl s c = .ok := by
  unfold checkGeneral
  by_cases h1 : isLikeAny c = true
  · simp [h1]
  · by_cases h2 : fastEq s c = true
    · simp [h1, h2]
    · rcases hs with rfl | rfl <;> simp [h1, h2, hc]

theorem checkGeneral_refl_ref (e : Env) (ip : List (Name × Ty)) (f lvl : Nat) (n : Name) :
    checkGeneral e ip (f + 1) lvl (.ref n) (.ref n) = .ok := by
  simp [checkGeneral, isLikeAny, fastEq]

theorem checkGeneral_refl_prim (e : Env) (ip : List (Name × Ty)) (f lvl : Nat) (k : Prim) (hk : k ≠ .selfInfer) :
    checkGeneral e ip (f + 1) lvl (.prim k) (.prim k) = .ok := by
  cases k <;> simp_all [checkGeneral, isLikeAny, fastEq, escapeType]

theorem checkGeneral_refl_lit (e : Env) (ip : List (Name × Ty)) (f lvl : Nat) (c : Lit) :
    checkGeneral e ip (f + 2) lvl (.lit c) (.lit c) = .ok := by
  cases c <;> simp [checkGeneral, isLikeAny, fastEq, escapeType, checkSimple, simpleDecide, Ty.isBoolean]

end TyM
