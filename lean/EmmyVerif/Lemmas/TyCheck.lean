import EmmyVerif.Model.TyCheck
import EmmyVerif.Lemmas.TyUnion
/-! Lemmas about the assignability model `TyM.checkGeneral`. -/
namespace TyM
open Ty

theorem checkGeneral_compact_likeAny (e : Env) (ip : List (Name × Ty)) (f lvl : Nat) (s c : Ty) (h : isLikeAny c = true) :
    checkGeneral e ip (f + 1) lvl s c = .ok := by
  unfold checkGeneral
  simp [h]

/-- `any`/`unknown` as the expected type: the only way not to answer `ok` is to run out of levels (or
model fuel) while unfolding a chain of aliases in the compact type -/
theorem checkGeneral_source_likeAny (e : Env) (ip : List (Name × Ty)) (s : Ty) (hs : s = tAny ∨ s = tUnknown) :
    ∀ (f lvl : Nat) (c : Ty), checkGeneral e ip f lvl s c = .ok ∨ checkGeneral e ip f lvl s c = .recursion ∨
      checkGeneral e ip f lvl s c = .outOfFuel := by
  intro f
  induction f with
  | zero => intro lvl c; simp [checkGeneral]
  | succ f ih =>
    intro lvl c
    unfold checkGeneral
    by_cases h1 : isLikeAny c = true
    · simp [h1]
    · simp only [h1]
      by_cases h2 : fastEq s c = true
      · simp [h2]
      · simp only [h2]
        cases he : escapeType e c with
        | some o =>
          simp only [withNext]
          cases hn : next lvl with
          | none => simp
          | some l => simpa using ih l o
        | none =>
          rcases hs with rfl | rfl <;> simp

theorem checkGeneral_source_likeAny_no_alias (e : Env) (ip : List (Name × Ty)) (s : Ty) (hs : s = tAny ∨ s = tUnknown)
    (f lvl : Nat) (c : Ty) (hc : escapeType e c = none) : checkGeneral e ip (f + 1) lvl s c = .ok := by
  unfold checkGeneral
  by_cases h1 : isLikeAny c = true
  · simp [h1]
  · by_cases h2 : fastEq s c = true
    · simp [h1, h2]
    · rcases hs with rfl | rfl <;> simp [h1, h2, hc]

theorem checkGeneral_refl_ref (e : Env) (ip : List (Name × Ty)) (f lvl : Nat) (n : Name) :
    checkGeneral e ip (f + 1) lvl (.ref n) (.ref n) = .ok := by
  simp [checkGeneral, isLikeAny, fastEq]

theorem checkGeneral_refl_prim (e : Env) (ip : List (Name × Ty)) (f lvl : Nat) (k : Prim) (hk : k ≠ .selfInfer) :
    checkGeneral e ip (f + 1) lvl (.prim k) (.prim k) = .ok := by
  cases k <;> simp_all [checkGeneral, isLikeAny, fastEq, escapeType]

theorem checkGeneral_refl_lit (e : Env) (ip : List (Name × Ty)) (f lvl : Nat) (c : Lit) :
    checkGeneral e ip (f + 2) lvl (.lit c) (.lit c) = .ok := by
  cases c <;> simp [checkGeneral, isLikeAny, fastEq, escapeType, checkSimple, simpleDecide, Ty.isBoolean]

end TyM

namespace TyM
open Ty

/-- `Err(DonotCheck) => fall through` of `check_complex_type_compact` when the compact type is not a union -/
def nd : Res → Res
  | .donotCheck => .notMatch
  | r => r

@[simp] theorem nd_ok : nd .ok = .ok := rfl
@[simp] theorem nd_recursion : nd .recursion = .recursion := rfl
@[simp] theorem nd_notMatch : nd .notMatch = .notMatch := rfl

/-- array against array: three hops (general → complex → array), then the element check one level down -/
theorem checkGeneral_array_array (e : Env) (ip : List (Name × Ty)) (f lvl : Nat) (b cb : Ty) :
    checkGeneral e ip (f + 3) lvl (.array b) (.array cb) =
      nd (withNext lvl fun l => checkGeneral e ip f l (if e.arrayIndex then union e b tNil else b) cb) := by
  generalize hr : (withNext lvl fun l => checkGeneral e ip f l (if e.arrayIndex = true then union e b tNil else b) cb) = r
  unfold checkGeneral
  simp only [isLikeAny, fastEq, escapeType]
  unfold checkComplex
  simp only
  unfold checkArray
  simp only [hr]
  cases r <;> rfl

/-- union expected, non-union given: two hops (general → complex), then the member scan -/
theorem checkGeneral_union_src (e : Env) (ip : List (Name × Ty)) (f lvl : Nat) (ms : TyL) (c : Ty)
    (h1 : isLikeAny c = false) (h2 : fastEq (.union ms) c = false) (h3 : escapeType e c = none)
    (h4 : c.isUnion = false) :
    checkGeneral e ip (f + 2) lvl (.union ms) c =
      nd (anyOk (fun m => withNext lvl fun l => checkGeneral e ip f l m c) ms.toList) := by
  generalize hr : (anyOk (fun m => withNext lvl fun l => checkGeneral e ip f l m c) ms.toList) = r
  unfold checkGeneral
  simp only [h1, h2, h3]
  unfold checkComplex
  cases c <;> simp_all [Ty.isUnion] <;> cases r <;> rfl

end TyM

namespace TyM
open Ty

theorem unionSpecial_nil (m s : Ty) (h1 : m ≠ tAny) (h2 : m ≠ tNever) : unionSpecial m s tNil = none := by
  unfold unionSpecial
  rw [if_neg h1, if_neg (by decide), if_neg h2, if_neg (by decide)]
  simp [Ty.isIntConst, Ty.isNumber, Ty.isStrConst, Ty.isBoolean, Ty.boolConst?, Ty.isFuncConst]

/-- `T | nil` for an array type `T` (strict array index turns the element type `b` into `b?`) -/
theorem union_array_nil (e : Env) (b : Ty) : union e (.array b) tNil = Ty.mk [.array b, tNil] := by
  have hp : Plain (.array b) := ⟨rfl, by simp, by simp⟩
  have hn : Plain tNil := ⟨rfl, by decide, by decide⟩
  have hne : (Ty.array b) ≠ tNil := by simp
  have hs := unionSpecial_nil (.array b) (.array b) (by simp) (by simp)
  simp only [union, getRealType_of_not_ref e (.array b) rfl, Option.getD_some, unionImpl, hs,
    unionGeneric_plain _ _ _ hp hn, if_neg hne, fromVec_pair _ _ rfl rfl hne]
  rw [canonicalize_mk [.array b, tNil] (by simp) (by simp [Ty.isUnion]) (by simp)]
  rw [mkUnionVec_pair_l (.array b) rfl hne]

/-- `k` nested arrays over `t` -/
def arrN : Nat → Ty → Ty
  | 0, t => t
  | k + 1, t => .array (arrN k t)

end TyM

namespace TyM
open Ty

theorem withNext_lt (lvl : Nat) (k : Nat → Res) (h : lvl < maxLevel) : withNext lvl k = k (lvl + 1) := by
  unfold withNext next
  rw [if_neg (by omega)]

theorem withNext_ge (lvl : Nat) (k : Nat → Res) (h : maxLevel ≤ lvl) : withNext lvl k = .recursion := by
  unfold withNext next
  rw [if_pos (by omega)]

theorem union_string_nil (e : Env) : union e (.prim .string) tNil = Ty.mk [tNil, .prim .string] := by
  simp only [union, getRealType_of_not_ref e (.prim .string) rfl, Option.getD_some]
  decide

/-- **the guard's error branch.** With strict array indexing every array nesting costs two levels
(the element check and the scan of `element | nil`); past 100 levels the answer is `TypeRecursion`,
for every environment: `string[]…[]` with 51 or more `[]` is not even assignable to itself. -/
theorem check_deep_recursion (e : Env) (harr : e.arrayIndex = true) (ip : List (Name × Ty)) :
    ∀ (k lvl f : Nat), lvl ≤ maxLevel → maxLevel < lvl + 2 * k → 5 * k ≤ f →
      checkGeneral e ip (f + 3) lvl (arrN k (.prim .string)) (arrN k (.prim .string)) = .recursion := by
  intro k
  induction k with
  | zero => intro lvl f h1 h2; omega
  | succ k ih =>
    intro lvl f h1 h2 h3
    simp only [arrN]
    rw [checkGeneral_array_array, harr, if_pos rfl]
    by_cases hl : lvl = maxLevel
    · rw [withNext_ge lvl _ (by omega)]; rfl
    · rw [withNext_lt lvl _ (by omega)]
      obtain ⟨g, rfl⟩ : ∃ g, f = g + 5 := ⟨f - 5, by omega⟩
      cases k with
      | zero =>
        have hl99 : lvl + 1 = maxLevel := by unfold maxLevel at *; omega
        simp only [arrN, union_string_nil]
        rw [show g + 5 = (g + 3) + 2 from rfl,
          checkGeneral_union_src e ip (g + 3) (lvl + 1) _ (.prim .string) rfl rfl rfl rfl]
        simp only [TyL.toList_ofList, anyOk, withNext_ge (lvl + 1) _ (by omega)]
        rfl
      | succ k' =>
        simp only [arrN, union_array_nil]
        rw [show g + 5 = (g + 3) + 2 from rfl,
          checkGeneral_union_src e ip (g + 3) (lvl + 1) _ (.array (arrN k' (.prim .string))) rfl rfl rfl rfl]
        simp only [TyL.toList_ofList, anyOk]
        by_cases hl2 : lvl + 1 = maxLevel
        · rw [withNext_ge (lvl + 1) _ (by omega)]; rfl
        · rw [withNext_lt (lvl + 1) _ (by unfold maxLevel at *; omega)]
          have := ih (lvl + 1 + 1) g (by unfold maxLevel at *; omega) (by omega) (by omega)
          simp only [arrN] at this
          rw [this]; rfl

end TyM
