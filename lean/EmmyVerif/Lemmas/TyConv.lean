import EmmyVerif.Model.TyRender
import EmmyVerif.Lemmas.TyRefl
/-!
# The syntax tree the renderer lays out converts back to the type (union-free fragment + optionals)
-/
namespace TyM
open Ty

theorem iter_comm {α : Type} (f : α → α) (k : Nat) (x : α) : iter f k (f x) = f (iter f k x) := by
  induction k generalizing x with
  | zero => rfl
  | succ k ih => simp only [iter]; exact ih (f x)

/-- parentheses are transparent for `infer_type` -/
theorem ofSimple_asSimple (e : Env) (c : TypeE) : ofSimple e (asSimple c) = ofType e c := by
  match c with
  | .mk s .nil 0 => cases s; simp [asSimple, ofType, ofSimple, ofRest, iter]
  | .mk s .nil (q + 1) => cases s; simp [asSimple, ofSimple, ofPrim, iter]
  | .mk s (.cons s' r) q => cases s; simp [asSimple, ofSimple, ofPrim, iter]

/-- types whose rendering is read back literally: doc literals, basic kinds except `unknown`,
references not named like a basic kind, arrays / `table<…>` / records of such, and `T?` for a
non-basic, non-reference `T` of that kind -/
def cv : Ty → Bool
  | .prim k => k ≠ .unknown
  | .lit (.docStr _) | .lit (.docInt _) | .lit (.docBool _) => true
  | .ref n => builtinName n = none
  | .array b => cv b
  | _ => false

theorem cv_ne_unknown (t : Ty) (h : cv t = true) : t ≠ tUnknown := by
  intro ht; subst ht; simp [cv] at h

theorem builtin_primText (k : Prim) : builtinName (primText k) = some k := by cases k <;> decide

set_option hygiene false in
/-- the element's tree is used as a simple type -/
macro "plain_case" : tactic =>
  `(tactic| (try simp only at h
             cases hs : asSimple c' with
             | mk p k =>
               simp only [hs, Option.some.injEq] at h
               subst h
               exact key p k (by rw [← hs, ofSimple_asSimple]; exact ih)))

theorem conv_array_free (e : Env) : ∀ (t : Ty), cv t = true → ∀ (d g lv : Nat) (c : TypeE),
    toCst d g lv t = some c → ofType e c = t
  | .prim k, _, d, g, lv, c, h => by
    cases d <;> cases g <;> simp [toCst] at h
    subst h; simp [ofType, ofSimple, ofRest, ofPrim, iter, builtin_primText]
  | .lit l, hc, d, g, lv, c, h => by
    cases l <;> simp [cv] at hc <;> cases d <;> cases g <;> simp [toCst] at h <;>
      (subst h; simp [ofType, ofSimple, ofRest, ofPrim, iter])
  | .ref n, hc, d, g, lv, c, h => by
    simp only [cv, decide_eq_true_eq] at hc
    cases d <;> cases g <;> simp [toCst] at h
    subst h; simp [ofType, ofSimple, ofRest, ofPrim, iter, hc]
  | .array b, hc, d, g, lv, c, h => by
    simp only [cv] at hc
    cases d with
    | zero => simp [toCst] at h
    | succ d =>
      cases g with
      | zero => simp [toCst] at h
      | succ g =>
        simp only [toCst] at h
        cases hb : toCst d g (lv + 1) b with
        | none => simp [hb] at h
        | some c' =>
          have ih := conv_array_free e b hc d g (lv + 1) c' hb
          simp only [hb] at h
          -- the element is wrapped so that `[]` can follow; either way it converts to `b`
          have key : ∀ (p : Prim0) (k : Nat), ofSimple e (.mk p k) = b →
              ofType e (TypeE.mk (.mk p (k + 1)) .nil 0) = .array b := by
            intro p k hs
            simp only [ofType, ofRest, iter, ofSimple] at hs ⊢
            rw [iter_comm, hs, mkArray, if_neg (cv_ne_unknown b hc)]
          cases b with
          | union ms => simp [cv] at hc
          | lit l =>
            cases l <;> simp [cv] at hc
            · plain_case
            · rename_i i
              simp only at h
              by_cases hi : i < 0
              · simp only [hi, if_true, Option.some.injEq] at h
                subst h
                exact key (.paren c') 0 (by simp [ofSimple, ofPrim, iter]; exact ih)
              · simp only [hi, if_false] at h
                plain_case
            · plain_case
          | prim k => plain_case
          | ref n => plain_case
          | array b' => plain_case
          | _ => simp [cv] at hc
  | .func _, hc, _, _, _, _, _ => by simp [cv] at hc
  | .tuple _, hc, _, _, _, _, _ => by simp [cv] at hc
  | .tgen _, hc, _, _, _, _, _ => by simp [cv] at hc
  | .object _, hc, _, _, _, _, _ => by simp [cv] at hc
  | .union _, hc, _, _, _, _, _ => by simp [cv] at hc

end TyM
