import EmmyVerif.Model.EventsLevel
namespace Level

theorem enter_fail_unchanged (max n : Nat) (h : (enter max n).2 = false) : (enter max n).1 = n := by
  unfold enter at *; split <;> simp_all

theorem enter_le_max (max n : Nat) (h : n ≤ max) : (enter max n).1 ≤ max := by
  unfold enter; split <;> simp <;> omega

theorem guarded_balanced (max : Nat) (body : Nat → Nat) (hb : ∀ m, body m = m) (n : Nat) :
    guarded max body n = n := by
  unfold guarded enter
  split <;> rename_i h <;> split at h <;> simp_all [leave] <;> omega

theorem nest_balanced (max : Nat) (inner : Nat → Nat) (hi : ∀ m, inner m = m) (k n : Nat) :
    nest max inner k n = n := by
  induction k generalizing n with
  | zero => exact hi n
  | succ k ih => exact guarded_balanced max _ ih n

end Level
