import EmmyVerif.Model.LspShape
/-! Lemmas for the `LspShape` family: insertion sort facts, `decode ∘ encode = id` on sorted lists. -/
namespace LspShape

theorem keyLe_total (a b : Entry) (h : keyLe a b = false) :
    b.line < a.line ∨ (b.line = a.line ∧ b.col ≤ a.col) := by
  simp only [keyLe, Bool.or_eq_false_iff, Bool.and_eq_false_iff, decide_eq_false_iff_not,
    beq_eq_false_iff_ne] at h
  omega

theorem sortedFrom_insert (e : Entry) (xs : List Entry) (pl pc : Nat)
    (hx : SortedFrom pl pc xs) (he : pl < e.line ∨ (pl = e.line ∧ pc ≤ e.col)) :
    SortedFrom pl pc (insertE e xs) := by
  induction xs generalizing pl pc with
  | nil => exact ⟨he, trivial⟩
  | cons x xs ih =>
    simp only [insertE]
    split
    · rename_i hk
      simp only [keyLe, Bool.or_eq_true, Bool.and_eq_true, decide_eq_true_eq, beq_iff_eq] at hk
      exact ⟨he, ⟨by omega, hx.2⟩⟩
    · rename_i hk
      have := keyLe_total e x (by simpa using hk)
      exact ⟨hx.1, ih _ _ hx.2 (by omega)⟩

theorem sortedFrom_sortE (es : List Entry) : SortedFrom 0 0 (sortE es) := by
  induction es with
  | nil => trivial
  | cons e es ih => exact sortedFrom_insert e _ 0 0 ih (by omega)

theorem decode_encode (es : List Entry) (pl pc : Nat) (h : SortedFrom pl pc es) :
    decode pl pc (encode pl pc es) = es := by
  induction es generalizing pl pc with
  | nil => rfl
  | cons e es ih =>
    obtain ⟨h1, h2⟩ := h
    simp only [encode, decode]
    have hl : pl + (e.line - pl) = e.line := by omega
    have hc : (if e.line - pl ≠ 0 then e.col - (if e.line - pl ≠ 0 then 0 else pc)
        else pc + (e.col - (if e.line - pl ≠ 0 then 0 else pc))) = e.col := by
      by_cases hd : e.line - pl = 0
      · simp only [hd, ne_eq, not_true_eq_false, if_false]; omega
      · simp only [hd, ne_eq, not_false_eq_true, if_true]; omega
    rw [hl, hc, ih _ _ h2]

theorem insertE_perm (e : Entry) (xs : List Entry) : (insertE e xs).Perm (e :: xs) := by
  induction xs with
  | nil => exact List.Perm.refl _
  | cons x xs ih =>
    simp only [insertE]
    split
    · exact List.Perm.refl _
    · exact (List.Perm.cons x ih).trans (List.Perm.swap e x xs)

theorem sortE_perm (es : List Entry) : (sortE es).Perm es := by
  induction es with
  | nil => exact List.Perm.refl _
  | cons e es ih => exact (insertE_perm e _).trans (List.Perm.cons e ih)

end LspShape

namespace LspShape

theorem sortedFrom_weaken (es : List Entry) (a b c d : Nat) (h : SortedFrom c d es)
    (hk : a < c ∨ (a = c ∧ b ≤ d)) : SortedFrom a b es := by
  cases es with
  | nil => trivial
  | cons e es => exact ⟨by have := h.1; omega, h.2⟩

/-- the head of `clipFrom a rest` starts where `a` starts -/
theorem clipFrom_head (a : Entry) (rest : List Entry) :
    ∃ h t, clipFrom a rest = h :: t ∧ h.line = a.line ∧ h.col = a.col := by
  induction rest generalizing a with
  | nil => exact ⟨a, [], rfl, rfl, rfl⟩
  | cons b rest ih =>
    simp only [clipFrom]
    split
    · split
      · exact ih a
      · exact ⟨_, _, rfl, rfl, rfl⟩
    · exact ⟨_, _, rfl, rfl, rfl⟩

theorem sortedFrom_clipFrom (a : Entry) (rest : List Entry) (pl pc : Nat)
    (h : SortedFrom pl pc (a :: rest)) : SortedFrom pl pc (clipFrom a rest) := by
  induction rest generalizing a pl pc with
  | nil => exact h
  | cons b rest ih =>
    obtain ⟨h1, h2, h3⟩ := h
    simp only [clipFrom]
    split
    · rename_i hl
      split
      · rename_i hc
        exact ih a pl pc ⟨h1, by rw [hl, hc]; exact h3⟩
      · exact ⟨h1, ih b _ _ ⟨h2, h3⟩⟩
    · exact ⟨h1, ih b _ _ ⟨h2, h3⟩⟩

theorem sortedFrom_clip (es : List Entry) (pl pc : Nat) (h : SortedFrom pl pc es) :
    SortedFrom pl pc (clip es) := by
  cases es with
  | nil => trivial
  | cons a rest => exact sortedFrom_clipFrom a rest pl pc h

theorem ordered_clipFrom (a : Entry) (rest : List Entry) (h : SortedFrom a.line a.col rest) :
    Ordered (clipFrom a rest) := by
  induction rest generalizing a with
  | nil => trivial
  | cons b rest ih =>
    obtain ⟨h1, h2⟩ := h
    simp only [clipFrom]
    obtain ⟨hd, tl, heq, hl', hc'⟩ := clipFrom_head b rest
    split
    · rename_i hl
      split
      · rename_i hc
        exact ih a (by rw [hl, hc]; exact h2)
      · rename_i hc
        rw [heq]
        refine ⟨?_, by rw [← heq]; exact ih b h2⟩
        right
        simp only
        refine ⟨by omega, ?_⟩
        have : a.col ≤ b.col := by omega
        omega
    · rename_i hl
      rw [heq]
      refine ⟨?_, by rw [← heq]; exact ih b h2⟩
      left; omega

theorem ordered_clip (es : List Entry) (h : SortedFrom 0 0 es) : Ordered (clip es) := by
  cases es with
  | nil => trivial
  | cons a rest => exact ordered_clipFrom a rest h.2

/-- clipping changes nothing on a list that is already ordered and has no empty entries -/
theorem clipFrom_id (a : Entry) (rest : List Entry) (ho : Ordered (a :: rest))
    (hp : ∀ e ∈ a :: rest, 0 < e.len) : clipFrom a rest = a :: rest := by
  induction rest generalizing a with
  | nil => rfl
  | cons b rest ih =>
    obtain ⟨h1, h2⟩ := ho
    have ha := hp a (by simp)
    simp only [clipFrom]
    have ihb := ih b h2 (fun e he => hp e (by simp at he ⊢; right; exact he))
    split
    · rename_i hl
      have hb : a.col + a.len ≤ b.col := by
        rcases h1 with h | h
        · omega
        · exact h.2
      split
      · omega
      · rw [ihb]
        have : min a.len (b.col - a.col) = a.len := by omega
        rw [this]
    · rw [ihb]

theorem clip_id (es : List Entry) (ho : Ordered es) (hp : ∀ e ∈ es, 0 < e.len) : clip es = es := by
  cases es with
  | nil => rfl
  | cons a rest => exact clipFrom_id a rest ho hp

theorem filter_pos_id (es : List Entry) (hp : ∀ e ∈ es, 0 < e.len) :
    es.filter (fun e => 0 < e.len) = es := by
  rw [List.filter_eq_self]
  intro e he
  simpa using hp e he

/-- every emitted token is an input entry, possibly shortened -/
def FromEntry (es : List Entry) (t : Entry) : Prop :=
  ∃ e ∈ es, e.line = t.line ∧ e.col = t.col ∧ e.typ = t.typ ∧ e.mods = t.mods ∧ t.len ≤ e.len

theorem clipFrom_from (a : Entry) (rest : List Entry) :
    ∀ t ∈ clipFrom a rest, FromEntry (a :: rest) t := by
  induction rest generalizing a with
  | nil =>
    intro t ht
    simp only [clipFrom, List.mem_singleton] at ht
    subst ht
    exact ⟨t, by simp, rfl, rfl, rfl, rfl, Nat.le_refl _⟩
  | cons b rest ih =>
    intro t ht
    simp only [clipFrom] at ht
    have lift : ∀ t, FromEntry (b :: rest) t → FromEntry (a :: b :: rest) t := by
      intro t ⟨e, he, h⟩
      exact ⟨e, List.mem_cons_of_mem _ he, h⟩
    split at ht
    · split at ht
      · obtain ⟨e, he, h⟩ := ih a t ht
        refine ⟨e, ?_, h⟩
        simp only [List.mem_cons] at he ⊢
        rcases he with he | he
        · left; exact he
        · right; right; exact he
      · simp only [List.mem_cons] at ht
        rcases ht with ht | ht
        · subst ht
          exact ⟨a, by simp, rfl, rfl, rfl, rfl, Nat.min_le_left _ _⟩
        · exact lift t (ih b t ht)
    · simp only [List.mem_cons] at ht
      rcases ht with ht | ht
      · subst ht
        exact ⟨t, by simp, rfl, rfl, rfl, rfl, Nat.le_refl _⟩
      · exact lift t (ih b t ht)

/-! ### selection-range chains -/

theorem chainStrict_growFrom (last : Range) (rs : List Range) :
    chainStrict (last :: growFrom last rs) = true := by
  induction rs generalizing last with
  | nil => rfl
  | cons r rest ih =>
    simp only [growFrom]
    split
    · rename_i h
      simp only [Bool.and_eq_true, bne_iff_ne, ne_eq] at h
      simp only [chainStrict, Bool.and_eq_true, bne_iff_ne, ne_eq]
      exact ⟨⟨h.1, fun e => h.2 e.symm⟩, ih r⟩
    · exact ih last

theorem chainStrict_grow (rs : List Range) : chainStrict (grow rs) = true := by
  cases rs with
  | nil => rfl
  | cons a rest => exact chainStrict_growFrom a rest

/-- on a chain that already grows strictly nothing is removed -/
theorem growFrom_id (last : Range) (rs : List Range) (h : chainStrict (last :: rs) = true) :
    growFrom last rs = rs := by
  induction rs generalizing last with
  | nil => rfl
  | cons r rest ih =>
    simp only [chainStrict, Bool.and_eq_true, bne_iff_ne, ne_eq] at h
    simp only [growFrom]
    have : (r.contains last && r != last) = true := by
      simp only [Bool.and_eq_true, bne_iff_ne, ne_eq]
      exact ⟨h.1.1, fun e => h.1.2 e.symm⟩
    rw [if_pos this, ih r h.2]

end LspShape
