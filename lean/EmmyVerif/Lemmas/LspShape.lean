import EmmyVerif.Model.LspShape
/-! Lemmas for the `LspShape` family: insertion sort facts, `decode ∘ encode = id` on sorted lists. -/
namespace LspShape

theorem keyLe_total (a b : Entry) (h : keyLe a b = false) :
    b.line < a.line ∨ (b.line = a.line ∧ b.col ≤ a.col) := by
  simp only [keyLe, Bool.or_eq_false_iff, Bool.and_eq_false_iff, decide_eq_false_iff_not,
    beq_eq_false_iff_ne] at h
  omega

theorem sortedFrom_insert (e : Entry) (xs : List Entry) (pl pc : Nat)
    (hx : SortedFrom pl pc xs) (he : pl < e.line ∨ (pl = e.line ∧ pc ≤ e.col)) :
    SortedFrom pl pc (insertE e xs) := by
  induction xs generalizing pl pc with
  | nil => exact ⟨he, trivial⟩
  | cons x xs ih =>
    simp only [insertE]
    split
    · rename_i hk
      simp only [keyLe, Bool.or_eq_true, Bool.and_eq_true, decide_eq_true_eq, beq_iff_eq] at hk
      exact ⟨he, ⟨by omega, hx.2⟩⟩
    · rename_i hk
      have := keyLe_total e x (by simpa using hk)
      exact ⟨hx.1, ih _ _ hx.2 (by omega)⟩

theorem sortedFrom_sortE (es : List Entry) : SortedFrom 0 0 (sortE es) := by
  induction es with
  | nil => trivial
  | cons e es ih => exact sortedFrom_insert e _ 0 0 ih (by omega)

theorem decode_encode (es : List Entry) (pl pc : Nat) (h : SortedFrom pl pc es) :
    decode pl pc (encode pl pc es) = es := by
  induction es generalizing pl pc with
  | nil => rfl
  | cons e es ih =>
    obtain ⟨h1, h2⟩ := h
    simp only [encode, decode]
    have hl : pl + (e.line - pl) = e.line := by omega
    have hc : (if e.line - pl ≠ 0 then e.col - (if e.line - pl ≠ 0 then 0 else pc)
        else pc + (e.col - (if e.line - pl ≠ 0 then 0 else pc))) = e.col := by
      by_cases hd : e.line - pl = 0
      · simp only [hd, ne_eq, not_true_eq_false, if_false]; omega
      · simp only [hd, ne_eq, not_false_eq_true, if_true]; omega
    rw [hl, hc, ih _ _ h2]

theorem insertE_perm (e : Entry) (xs : List Entry) : (insertE e xs).Perm (e :: xs) := by
  induction xs with
  | nil => exact List.Perm.refl _
  | cons x xs ih =>
    simp only [insertE]
    split
    · exact List.Perm.refl _
    · exact (List.Perm.cons x ih).trans (List.Perm.swap e x xs)

theorem sortE_perm (es : List Entry) : (sortE es).Perm es := by
  induction es with
  | nil => exact List.Perm.refl _
  | cons e es ih => exact (insertE_perm e _).trans (List.Perm.cons e ih)

end LspShape
