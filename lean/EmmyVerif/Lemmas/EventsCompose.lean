import EmmyVerif.Lemmas.EventsCore
import EmmyVerif.Lemmas.Reader
/-! Composition lemmas: token-index coverage (`Core.cover`) + byte tiling of the lexer tokens
(`Reader.Tiles`) + byte tiling of every comment group by its doc tokens ⇒ the expanded token list tiles
the text; and a tiling by slices concatenates to the text. -/
namespace Compose

/-- ranges `(start, len)` contiguous from `a` to `b` -/
def Tiles : List (Nat × Nat) → Nat → Nat → Prop
  | [], a, b => a = b
  | (s, l) :: rest, a, b => s = a ∧ Tiles rest (a + l) b

theorem tiles_append (xs ys : List (Nat × Nat)) (a b c : Nat) (h1 : Tiles xs a b) (h2 : Tiles ys b c) :
    Tiles (xs ++ ys) a c := by
  induction xs generalizing a with
  | nil => simp only [Tiles] at h1; subst h1; exact h2
  | cons x xs ih => obtain ⟨s, l⟩ := x; obtain ⟨e1, e2⟩ := h1; exact ⟨e1, ih _ e2⟩

theorem tiles_of_reader (rs : List (Nat × Nat)) (a b : Nat) (h : Reader.Tiles rs a b) : Tiles rs a b := by
  induction rs generalizing a with
  | nil => exact h
  | cons x xs ih => obtain ⟨s, l⟩ := x; exact ⟨h.1, ih _ h.2⟩

/-- byte offset at which lexer token `i` starts (`L` past the last one) -/
def startAt (rs : List (Nat × Nat)) (L : Nat) (i : Nat) : Nat :=
  match rs[i]? with
  | some (s, _) => s
  | none => L

theorem startAt_spec (rs : List (Nat × Nat)) (a L : Nat) (h : Tiles rs a L) :
    startAt rs L 0 = a ∧ ∀ i s l, rs[i]? = some (s, l) → s = startAt rs L i ∧ s + l = startAt rs L (i + 1) := by
  induction rs generalizing a with
  | nil => simp only [Tiles] at h; subst h; exact ⟨rfl, fun i s l hi => by simp at hi⟩
  | cons x xs ih =>
    obtain ⟨s0, l0⟩ := x
    obtain ⟨e1, e2⟩ := h
    obtain ⟨i1, i2⟩ := ih _ e2
    refine ⟨by simp [startAt, e1], ?_⟩
    intro i s l hi
    cases i with
    | zero =>
      simp only [List.getElem?_cons_zero, Option.some.injEq, Prod.mk.injEq] at hi
      obtain ⟨h1, h2⟩ := hi
      subst h1; subst h2
      refine ⟨by simp [startAt], ?_⟩
      have : startAt ((s0, l0) :: xs) L 1 = startAt xs L 0 := by simp [startAt]
      rw [this, i1, e1]
    | succ j =>
      have hj : xs[j]? = some (s, l) := by simpa using hi
      obtain ⟨k1, k2⟩ := i2 j s l hj
      have a1 : startAt ((s0, l0) :: xs) L (j + 1) = startAt xs L j := by simp [startAt]
      have a2 : startAt ((s0, l0) :: xs) L (j + 1 + 1) = startAt xs L (j + 1) := by simp [startAt]
      rw [a1, a2]; exact ⟨k1, k2⟩

/-- byte ranges of a core event list: a direct `EatToken` is the lexer token's range, a comment group is
whatever the doc parser emitted for it -/
def expand (rs : List (Nat × Nat)) (docOut : Nat → Nat → List (Nat × Nat)) : List Core.Ev → List (Nat × Nat)
  | [] => []
  | .eat i :: es => (rs[i]?.getD (0, 0)) :: expand rs docOut es
  | .doc a b :: es => docOut a b ++ expand rs docOut es

theorem range'_append_cancel (a k m : Nat) (l : List Nat) (h : List.range' a k ++ l = List.range' a m) :
    k ≤ m ∧ l = List.range' (a + k) (m - k) := by
  have hlen : k + l.length = m := by have := congrArg List.length h; simpa using this
  have hk : k ≤ m := by omega
  have hs : List.range' a m = List.range' a k ++ List.range' (a + k) (m - k) := by
    have : m = k + (m - k) := by omega
    conv => lhs; rw [this]
    rw [List.range'_append_1]
  rw [hs] at h
  exact ⟨hk, List.append_cancel_left h⟩

/-- if the events cover the token indices `a, a+1, …, a+m-1` in order, their byte ranges tile
`[start a, start (a+m))` -/
theorem expand_tiles (rs : List (Nat × Nat)) (L : Nat) (docOut : Nat → Nat → List (Nat × Nat))
    (hr : Tiles rs 0 L)
    (evs : List Core.Ev) (a m : Nat) (hm : a + m ≤ rs.length)
    (hcov : Core.cover evs = List.range' a m)
    (hdoc : ∀ x y, Core.Ev.doc x y ∈ evs → x < y ∧ Tiles (docOut x y) (startAt rs L x) (startAt rs L y)) :
    Tiles (expand rs docOut evs) (startAt rs L a) (startAt rs L (a + m)) := by
  obtain ⟨_, hsp⟩ := startAt_spec rs 0 L hr
  induction evs generalizing a m with
  | nil =>
    have : m = 0 := by
      have := congrArg List.length hcov; simp [Core.cover] at this; omega
    subst this; simp [expand, Tiles]
  | cons e es ih =>
    cases e with
    | eat i =>
      simp only [Core.cover] at hcov
      cases m with
      | zero => simp at hcov
      | succ m' =>
        rw [List.range'_succ] at hcov
        simp only [List.cons.injEq] at hcov
        obtain ⟨rfl, hrest⟩ := hcov
        have hlt : i < rs.length := by omega
        have hget : rs[i]? = some rs[i] := List.getElem?_eq_getElem hlt
        obtain ⟨k1, k2⟩ := hsp i rs[i].1 rs[i].2 hget
        have ih' := ih (i + 1) m' (by omega) hrest (fun x y hxy => hdoc x y (by simp [hxy]))
        simp only [expand, hget, Option.getD_some]
        refine ⟨k1, ?_⟩
        have e1 : startAt rs L i + rs[i].2 = startAt rs L (i + 1) := by rw [← k1]; exact k2
        have e2 : i + (m' + 1) = i + 1 + m' := by omega
        show Tiles (expand rs docOut es) (startAt rs L i + rs[i].2) (startAt rs L (i + (m' + 1)))
        rw [e1, e2]; exact ih'
    | doc x y =>
      obtain ⟨hxy, hd⟩ := hdoc x y (by simp)
      simp only [Core.cover] at hcov
      have hx : x = a := by
        have h1 : List.range' x (y - x) = x :: List.range' (x + 1) (y - x - 1) := by
          have : y - x = (y - x - 1) + 1 := by omega
          rw [this, List.range'_succ]; simp
        rw [h1] at hcov
        cases m with
        | zero => simp at hcov
        | succ m' => rw [List.range'_succ] at hcov; simp only [List.cons_append, List.cons.injEq] at hcov; exact hcov.1
      subst hx
      obtain ⟨hk, hrest⟩ := range'_append_cancel x (y - x) m _ hcov
      have e1 : x + (y - x) = y := by omega
      rw [e1] at hrest
      have ih' := ih y (m - (y - x)) (by omega) hrest (fun p q hpq => hdoc p q (by simp [hpq]))
      have e2 : y + (m - (y - x)) = x + m := by omega
      rw [e2] at ih'
      simp only [expand]
      exact tiles_append _ _ _ _ _ hd ih'

/-- slices along a tiling of `[a, text.length)` concatenate to the rest of the text -/
theorem tile_concat {α} (text : List α) (rs : List (Nat × Nat)) (a : Nat) (h : Tiles rs a text.length) :
    rs.flatMap (fun r => (text.drop r.1).take r.2) = text.drop a := by
  induction rs generalizing a with
  | nil => simp only [Tiles] at h; subst h; simp
  | cons x xs ih =>
    obtain ⟨s, l⟩ := x
    obtain ⟨e1, e2⟩ := h
    subst e1
    have hle : ∀ (ys : List (Nat × Nat)) (c d : Nat), Tiles ys c d → c ≤ d := by
      intro ys
      induction ys with
      | nil => intro c d hc; simp only [Tiles] at hc; omega
      | cons y ys ihy => intro c d hc; obtain ⟨p, q⟩ := y; obtain ⟨_, hq⟩ := hc; have := ihy _ _ hq; omega
    have hb := hle _ _ _ e2
    simp only [List.flatMap_cons, ih _ e2]
    rw [← List.drop_drop]
    exact List.take_append_drop l (text.drop s)

end Compose
