import EmmyVerif.Model.Climb
/-!
# Lemmas about `Climb`: the parser inverts the reference unparser on well-formed trees

`Fits T limit e` — the tree `e` is written with enough parentheses to be read back by
`parse_sub_expr(limit)`: every binary node's operator binds tighter than the limit it is parsed under, its
left operand does not swallow it (`RStops`), its right operand fits the operator's right priority.
`absorb`: parsing the tokens of such an `e` followed by `rest` is the same as continuing the operator loop
with `e` as completed left operand.
-/
namespace Climb
open Gen.Climb (Tok UnOp BinOp)

/-- facts about the operator table that the round trip needs -/
structure Table.Good (T : Table) : Prop where
  bin_tok : ∀ op, op ≠ .OpNop → T.binaryOf (binTok op) = op
  un_tok : ∀ op, op ≠ .OpNop → T.unaryOf (unTok op) = op
  lit_not_unary : ∀ t, isLiteral t = true → T.unaryOf t = .OpNop
  name_not_unary : T.unaryOf .TkName = .OpNop
  lparen_not_unary : T.unaryOf .TkLeftParen = .OpNop
  rparen_not_binary : T.binaryOf .TkRightParen = .OpNop
  rbracket_not_binary : T.binaryOf .TkRightBracket = .OpNop
  comma_not_binary : T.binaryOf .TkComma = .OpNop

/-- prefix expressions (`prefixexp` of the manual): what a suffix may be attached to -/
def IsPrefix : Expr → Bool
  | .name | .paren _ | .dot _ | .idx _ _ | .call _ _ | .mcall _ _ => true
  | _ => false

/-- an operator of left priority `L` that follows `e` is left to the caller (not swallowed by an open
recursive call inside `e`) -/
def RStops (T : Table) : Expr → Int → Prop
  | .un _ x, L => L ≤ T.unaryPrio ∧ RStops T x L
  | .bin op _ r, L => L ≤ T.right op ∧ RStops T r L
  | _, _ => True

mutual
/-- `e` is read back as itself by `parse_sub_expr(limit)` -/
def Fits (T : Table) : Int → Expr → Prop
  | _, .lit t => isLiteral t = true
  | _, .name => True
  | _, .paren e => Fits T 0 e
  | _, .un op x => op ≠ .OpNop ∧ Fits T T.unaryPrio x
  | limit, .bin op l r =>
    op ≠ .OpNop ∧ limit < T.left op ∧ Fits T limit l ∧ RStops T l (T.left op) ∧ Fits T (T.right op) r
  | _, .dot p => IsPrefix p = true ∧ Fits T 0 p
  | _, .idx p k => IsPrefix p = true ∧ Fits T 0 p ∧ Fits T 0 k
  | _, .call p as => IsPrefix p = true ∧ Fits T 0 p ∧ FitsArgs T as
  | _, .mcall p as => IsPrefix p = true ∧ Fits T 0 p ∧ FitsArgs T as
def FitsArgs (T : Table) : Args → Prop
  | .nil => True
  | .cons e r => Fits T 0 e ∧ FitsArgs T r
end

mutual
/-- fuel that suffices to read `e` back -/
def need : Expr → Nat
  | .lit _ => 1
  | .name => 2
  | .paren e => need e + 2
  | .un _ x => need x + 1
  | .bin _ l r => need l + need r + 1
  | .dot p => need p + 1
  | .idx p k => need p + need k + 1
  | .call p as => need p + needArgs as + 1
  | .mcall p as => need p + needArgs as + 1
def needArgs : Args → Nat
  | .nil => 0
  | .cons e r => need e + needArgs r + 2
end

/-- what may follow `e` for `e` to be returned intact: no suffix start, no extension token, and a binary
operator only if `e` leaves it to the caller -/
def OkAfter (T : Table) (e : Expr) : List Tok → Prop
  | [] => True
  | t :: _ => isSuffixStart t = false ∧ t ≠ .TkTernary ∧ t ≠ .TkArrow ∧ unsupportedArgStart t = false ∧
      (T.binaryOf t = .OpNop ∨ RStops T e (T.left (T.binaryOf t)))

variable {T : Table}

theorem binTok_props (op : BinOp) (h : op ≠ .OpNop) :
    isSuffixStart (binTok op) = false ∧ binTok op ≠ .TkTernary ∧ binTok op ≠ .TkArrow ∧
    unsupportedArgStart (binTok op) = false ∧ binTok op ≠ .TkRightParen := by
  cases op <;> first | exact absurd rfl h | decide

theorem fits_mono : ∀ (e : Expr) (l l' : Int), l' ≤ l → Fits T l e → Fits T l' e := by
  intro e
  cases e with
  | bin op a b =>
    intro l l' hle h
    simp only [Fits] at h ⊢
    obtain ⟨h1, h2, h3, h4, h5⟩ := h
    exact ⟨h1, by omega, fits_mono a l l' hle h3, h4, h5⟩
  | _ => intro l l' _ h; simp only [Fits] at h ⊢ <;> first | exact h | trivial

/-- a fitting expression never starts with `)` and is not empty -/
theorem flat_head : ∀ (e : Expr) (l : Int), Fits T l e →
    ∃ t ts, flat e = t :: ts ∧ t ≠ .TkRightParen
  | .lit t, _, h => ⟨t, [], by simp [flat], by
      simp only [Fits] at h; intro ht; subst ht; simp [isLiteral] at h⟩
  | .name, _, _ => ⟨.TkName, [], by simp [flat], by decide⟩
  | .paren e, _, _ => ⟨.TkLeftParen, flat e ++ [.TkRightParen], by simp [flat], by decide⟩
  | .un op x, _, h => ⟨unTok op, flat x, by simp [flat], by
      simp only [Fits] at h; cases op <;> first | exact absurd rfl h.1 | decide⟩
  | .bin op a b, l, h => by
      simp only [Fits] at h
      obtain ⟨t, ts, h1, h2⟩ := flat_head a l h.2.2.1
      exact ⟨t, ts ++ binTok op :: flat b, by simp [flat, h1], h2⟩
  | .dot p, _, h => by
      simp only [Fits] at h
      obtain ⟨t, ts, h1, h2⟩ := flat_head p 0 h.2
      exact ⟨t, _, by simp [flat, h1]; rfl, h2⟩
  | .idx p k, _, h => by
      simp only [Fits] at h
      obtain ⟨t, ts, h1, h2⟩ := flat_head p 0 h.2.1
      exact ⟨t, _, by simp [flat, h1]; rfl, h2⟩
  | .call p as, _, h => by
      simp only [Fits] at h
      obtain ⟨t, ts, h1, h2⟩ := flat_head p 0 h.2.1
      exact ⟨t, _, by simp [flat, h1]; rfl, h2⟩
  | .mcall p as, _, h => by
      simp only [Fits] at h
      obtain ⟨t, ts, h1, h2⟩ := flat_head p 0 h.2.1
      exact ⟨t, _, by simp [flat, h1]; rfl, h2⟩

/-! ### One-step unfoldings of the parser functions -/

theorem sub_unary (f : Nat) (limit : Int) (t : Tok) (ts r : List Tok) (x : Expr) (h : T.unaryOf t ≠ .OpNop)
    (hs : sub T f T.unaryPrio ts = .ok (x, r)) :
    sub T (f + 1) limit (t :: ts) = loop T f limit (.un (T.unaryOf t) x) r := by
  simp [sub, h, hs]

theorem sub_lit (f : Nat) (limit : Int) (t : Tok) (ts : List Tok) (h : T.unaryOf t = .OpNop)
    (hl : isLiteral t = true) : sub T (f + 1) limit (t :: ts) = loop T f limit (.lit t) ts := by
  simp [sub, h, hl]

theorem sub_name (f : Nat) (limit : Int) (ts : List Tok) (h : T.unaryOf .TkName = .OpNop)
    (ha : ts.head? ≠ some .TkArrow) : sub T (f + 1) limit (.TkName :: ts) = suffix T f limit .name ts := by
  simp [sub, h, isLiteral, ha]

theorem sub_paren (f : Nat) (limit : Int) (ts r : List Tok) (x : Expr) (h : T.unaryOf .TkLeftParen = .OpNop)
    (hs : sub T f 0 ts = .ok (x, .TkRightParen :: r)) :
    sub T (f + 1) limit (.TkLeftParen :: ts) = suffix T f limit (.paren x) r := by
  simp [sub, h, isLiteral, hs]

theorem loop_nil (g : Nat) (limit : Int) (cm : Expr) : loop T (g + 1) limit cm [] = .ok (cm, []) := by
  simp [loop]

theorem loop_stop (g : Nat) (limit : Int) (cm : Expr) (t : Tok) (ts : List Tok) (h1 : t ≠ .TkTernary)
    (h2 : T.binaryOf t = .OpNop ∨ T.left (T.binaryOf t) ≤ limit) :
    loop T (g + 1) limit cm (t :: ts) = .ok (cm, t :: ts) := by
  simp [loop, h1, h2]

theorem loop_step (g : Nat) (limit : Int) (cm r : Expr) (t : Tok) (ts rest : List Tok) (h1 : t ≠ .TkTernary)
    (h2 : T.binaryOf t ≠ .OpNop) (h3 : limit < T.left (T.binaryOf t))
    (hs : sub T g (T.right (T.binaryOf t)) ts = .ok (r, rest)) :
    loop T (g + 1) limit cm (t :: ts) = loop T g limit (.bin (T.binaryOf t) cm r) rest := by
  have : ¬ (T.left (T.binaryOf t) ≤ limit) := by omega
  simp [loop, h1, h2, this, hs]

theorem suffix_dot (g : Nat) (limit : Int) (cm : Expr) (r : List Tok) :
    suffix T (g + 1) limit cm (.TkDot :: .TkName :: r) = suffix T g limit (.dot cm) r := by
  simp [suffix]

theorem suffix_idx (g : Nat) (limit : Int) (cm k : Expr) (r r' : List Tok)
    (hs : sub T g 0 r = .ok (k, .TkRightBracket :: r')) :
    suffix T (g + 1) limit cm (.TkLeftBracket :: r) = suffix T g limit (.idx cm k) r' := by
  simp [suffix, hs]

theorem suffix_call_nil (g : Nat) (limit : Int) (cm : Expr) (r : List Tok) :
    suffix T (g + 1) limit cm (.TkLeftParen :: .TkRightParen :: r) = suffix T g limit (.call cm .nil) r := by
  simp [suffix]

theorem suffix_call (g : Nat) (limit : Int) (cm : Expr) (as : Args) (r r' : List Tok)
    (hh : r.head? ≠ some .TkRightParen) (ha : args T g r = .ok (as, r')) :
    suffix T (g + 1) limit cm (.TkLeftParen :: r) = suffix T g limit (.call cm as) r' := by
  simp [suffix, hh, ha]

theorem suffix_mcall_nil (g : Nat) (limit : Int) (cm : Expr) (r : List Tok) :
    suffix T (g + 1) limit cm (.TkColon :: .TkName :: .TkLeftParen :: .TkRightParen :: r) =
      suffix T g limit (.mcall cm .nil) r := by
  simp [suffix]

theorem suffix_mcall (g : Nat) (limit : Int) (cm : Expr) (as : Args) (r r' : List Tok)
    (hh : r.head? ≠ some .TkRightParen) (ha : args T g r = .ok (as, r')) :
    suffix T (g + 1) limit cm (.TkColon :: .TkName :: .TkLeftParen :: r) = suffix T g limit (.mcall cm as) r' := by
  simp [suffix, hh, ha]

theorem suffix_stop (g : Nat) (limit : Int) (cm : Expr) (rest : List Tok)
    (h : ∀ t, rest.head? = some t → isSuffixStart t = false ∧ unsupportedArgStart t = false) :
    suffix T (g + 1) limit cm rest = loop T g limit cm rest := by
  cases rest with
  | nil => simp [suffix]
  | cons t r =>
    obtain ⟨h1, h2⟩ := h t rfl
    have a : t ≠ .TkDot := by intro e; subst e; simp [isSuffixStart] at h1
    have b : t ≠ .TkLeftBracket := by intro e; subst e; simp [isSuffixStart] at h1
    have c : t ≠ .TkColon := by intro e; subst e; simp [isSuffixStart] at h1
    have d : t ≠ .TkLeftParen := by intro e; subst e; simp [isSuffixStart] at h1
    simp [suffix, a, b, c, d, h2]

theorem args_last (f : Nat) (ts r : List Tok) (e : Expr) (hs : sub T f 0 ts = .ok (e, .TkRightParen :: r)) :
    args T (f + 1) ts = .ok (.cons e .nil, r) := by
  simp [args, hs]

theorem args_more (f : Nat) (ts r r' : List Tok) (e : Expr) (as : Args)
    (hs : sub T f 0 ts = .ok (e, .TkComma :: r)) (hh : r.head? ≠ some .TkRightParen)
    (ha : args T f r = .ok (as, r')) : args T (f + 1) ts = .ok (.cons e as, r') := by
  simp [args, hs, hh, ha]

end Climb
