import EmmyVerif.Model.Climb
/-!
# Lemmas about `Climb`: the parser inverts the reference unparser on well-formed trees

`Fits T limit e` — the tree `e` is written with enough parentheses to be read back by
`parse_sub_expr(limit)`: every binary node's operator binds tighter than the limit it is parsed under, its
left operand does not swallow it (`RStops`), its right operand fits the operator's right priority.
`absorb`: parsing the tokens of such an `e` followed by `rest` is the same as continuing the operator loop
with `e` as completed left operand.
-/
namespace Climb
open Gen.Climb (Tok UnOp BinOp)

/-- facts about the operator table that the round trip needs -/
structure Table.Good (T : Table) : Prop where
  bin_tok : ∀ op, op ≠ .OpNop → T.binaryOf (binTok op) = op
  un_tok : ∀ op, op ≠ .OpNop → T.unaryOf (unTok op) = op
  lit_not_unary : ∀ t, isLiteral t = true → T.unaryOf t = .OpNop
  name_not_unary : T.unaryOf .TkName = .OpNop
  lparen_not_unary : T.unaryOf .TkLeftParen = .OpNop
  rparen_not_binary : T.binaryOf .TkRightParen = .OpNop
  rbracket_not_binary : T.binaryOf .TkRightBracket = .OpNop
  comma_not_binary : T.binaryOf .TkComma = .OpNop
  rbrace_not_binary : T.binaryOf .TkRightBrace = .OpNop
  lbrace_not_unary : T.unaryOf .TkLeftBrace = .OpNop
  function_not_unary : T.unaryOf .TkFunction = .OpNop

/-- prefix expressions (`prefixexp` of the manual): what a suffix may be attached to -/
def IsPrefix : Expr → Bool
  | .name | .paren _ | .dot _ | .idx _ _ | .call _ _ | .mcall _ _ => true
  | _ => false

/-- an operator of left priority `L` that follows `e` is left to the caller (not swallowed by an open
recursive call inside `e`) -/
def RStops (T : Table) : Expr → Int → Prop
  | .un _ x, L => L ≤ T.unaryPrio ∧ RStops T x L
  | .bin op _ r, L => L ≤ T.right op ∧ RStops T r L
  | _, _ => True

mutual
/-- `e` is read back as itself by `parse_sub_expr(limit)` -/
def Fits (T : Table) : Int → Expr → Prop
  | _, .lit t => isLiteral t = true
  | _, .name => True
  | _, .paren e => Fits T 0 e
  | _, .un op x => op ≠ .OpNop ∧ Fits T T.unaryPrio x
  | limit, .bin op l r =>
    op ≠ .OpNop ∧ limit < T.left op ∧ Fits T limit l ∧ RStops T l (T.left op) ∧ Fits T (T.right op) r
  | _, .dot p => IsPrefix p = true ∧ Fits T 0 p
  | _, .idx p k => IsPrefix p = true ∧ Fits T 0 p ∧ Fits T 0 k
  | _, .call p as => IsPrefix p = true ∧ Fits T 0 p ∧ FitsArgs T as
  | _, .mcall p as => IsPrefix p = true ∧ Fits T 0 p ∧ FitsArgs T as
  | _, .table fs => FitsFields T fs
  | _, .closure _ _ => True
def FitsArgs (T : Table) : Args → Prop
  | .nil => True
  | .cons e r => Fits T 0 e ∧ FitsArgs T r
def FitsFields (T : Table) : Fields → Prop
  | .nil => True
  | .cons f r => FitsField T f ∧ FitsFields T r
def FitsField (T : Table) : Field → Prop
  | .pos e => Fits T 0 e
  | .named e => Fits T 0 e
  | .keyed k e => Fits T 0 k ∧ Fits T 0 e
end

mutual
/-- fuel that suffices to read `e` back -/
def need : Expr → Nat
  | .lit _ => 1
  | .name => 2
  | .paren e => need e + 2
  | .un _ x => need x + 1
  | .bin _ l r => need l + need r + 1
  | .dot p => need p + 1
  | .idx p k => need p + need k + 1
  | .call p as => need p + needArgs as + 1
  | .mcall p as => need p + needArgs as + 1
  | .table fs => needFields fs + 2
  | .closure _ _ => 1
def needArgs : Args → Nat
  | .nil => 0
  | .cons e r => need e + needArgs r + 2
def needFields : Fields → Nat
  | .nil => 0
  | .cons f r => needField f + needFields r + 2
def needField : Field → Nat
  | .pos e => need e + 2
  | .named e => need e + 2
  | .keyed k e => need k + need e + 2
end

/-- what may follow `e` for `e` to be returned intact: no suffix start, no extension token, and a binary
operator only if `e` leaves it to the caller -/
def OkAfter (T : Table) (e : Expr) : List Tok → Prop
  | [] => True
  | t :: _ => isSuffixStart t = false ∧ t ≠ .TkTernary ∧ t ≠ .TkArrow ∧ unsupportedArgStart t = false ∧
      (T.binaryOf t = .OpNop ∨ RStops T e (T.left (T.binaryOf t)))

variable {T : Table}

theorem binTok_props (op : BinOp) (h : op ≠ .OpNop) :
    isSuffixStart (binTok op) = false ∧ binTok op ≠ .TkTernary ∧ binTok op ≠ .TkArrow ∧
    unsupportedArgStart (binTok op) = false ∧ binTok op ≠ .TkRightParen := by
  cases op <;> first | exact absurd rfl h | decide

theorem fits_mono : ∀ (e : Expr) (l l' : Int), l' ≤ l → Fits T l e → Fits T l' e := by
  intro e
  cases e with
  | bin op a b =>
    intro l l' hle h
    simp only [Fits] at h ⊢
    obtain ⟨h1, h2, h3, h4, h5⟩ := h
    exact ⟨h1, by omega, fits_mono a l l' hle h3, h4, h5⟩
  | _ => intro l l' _ h; simp only [Fits] at h ⊢ <;> first | exact h | trivial

/-- the tokens an expression can start with -/
def startTok (t : Tok) : Bool :=
  isLiteral t || t == .TkName || t == .TkLeftParen || t == .TkLeftBrace || t == .TkFunction || t == .TkNot ||
  t == .TkLen || t == .TkMinus || t == .TkBitXor

theorem startTok_ne (t : Tok) (h : startTok t = true) :
    t ≠ .TkRightParen ∧ t ≠ .TkRightBrace ∧ t ≠ .TkLeftBracket ∧ t ≠ .TkLocal ∧ t ≠ .TkAssign := by
  cases t <;> simp [startTok, isLiteral] at h ⊢

/-- a fitting expression is not empty and starts with a start token -/
theorem flat_head : ∀ (e : Expr) (l : Int), Fits T l e →
    ∃ t ts, flat e = t :: ts ∧ startTok t = true
  | .lit t, _, h => ⟨t, [], by simp [flat], by simp only [Fits] at h; simp [startTok, h]⟩
  | .name, _, _ => ⟨.TkName, [], by simp [flat], by decide⟩
  | .paren e, _, _ => ⟨.TkLeftParen, flat e ++ [.TkRightParen], by simp [flat], by decide⟩
  | .un op x, _, h => ⟨unTok op, flat x, by simp [flat], by
      simp only [Fits] at h; cases op <;> first | exact absurd rfl h.1 | decide⟩
  | .bin op a b, l, h => by
      simp only [Fits] at h
      obtain ⟨t, ts, h1, h2⟩ := flat_head a l h.2.2.1
      exact ⟨t, ts ++ binTok op :: flat b, by simp [flat, h1], h2⟩
  | .dot p, _, h => by
      simp only [Fits] at h
      obtain ⟨t, ts, h1, h2⟩ := flat_head p 0 h.2
      exact ⟨t, _, by simp [flat, h1]; rfl, h2⟩
  | .idx p k, _, h => by
      simp only [Fits] at h
      obtain ⟨t, ts, h1, h2⟩ := flat_head p 0 h.2.1
      exact ⟨t, _, by simp [flat, h1]; rfl, h2⟩
  | .call p as, _, h => by
      simp only [Fits] at h
      obtain ⟨t, ts, h1, h2⟩ := flat_head p 0 h.2.1
      exact ⟨t, _, by simp [flat, h1]; rfl, h2⟩
  | .mcall p as, _, h => by
      simp only [Fits] at h
      obtain ⟨t, ts, h1, h2⟩ := flat_head p 0 h.2.1
      exact ⟨t, _, by simp [flat, h1]; rfl, h2⟩
  | .table fs, _, _ => ⟨.TkLeftBrace, flatFields fs ++ [.TkRightBrace], by simp [flat], by decide⟩
  | .closure n va, _, _ => ⟨.TkFunction, _, by simp [flat]; rfl, by decide⟩

/-- after an expression that starts with a name, `=` can only come from what follows the expression (so a
positional table field is never mistaken for `name = value`) -/
theorem flat_name_second (hT : T.Good) : ∀ (e : Expr) (l : Int), Fits T l e → ∀ ts, flat e = .TkName :: ts →
    ∀ rest : List Tok, rest.head? ≠ some .TkAssign → (ts ++ rest).head? ≠ some .TkAssign
  | .lit t, _, h, ts, hf, _, _ => by
      simp only [Fits] at h; simp only [flat, List.cons.injEq] at hf
      obtain ⟨rfl, _⟩ := hf; simp [isLiteral] at h
  | .name, _, _, ts, hf, rest, hr => by
      simp only [flat, List.cons.injEq] at hf; obtain ⟨_, rfl⟩ := hf; simpa using hr
  | .paren e, _, _, ts, hf, _, _ => by simp [flat] at hf
  | .un op x, _, h, ts, hf, _, _ => by
      simp only [Fits] at h; simp only [flat, List.cons.injEq] at hf
      cases op <;> first | exact absurd rfl h.1 | simp [unTok] at hf
  | .bin op a b, l, h, ts, hf, rest, _ => by
      simp only [Fits] at h
      obtain ⟨t, ts', h1, _⟩ := flat_head a l h.2.2.1
      simp only [flat, h1, List.cons_append, List.cons.injEq] at hf
      obtain ⟨rfl, rfl⟩ := hf
      have := flat_name_second hT a l h.2.2.1 ts' h1 (binTok op :: (flat b ++ rest)) (by
        have := h.1
        cases op <;> first | exact absurd rfl this | simp [binTok])
      simpa [List.append_assoc] using this
  | .dot p, _, h, ts, hf, rest, _ => by
      simp only [Fits] at h
      obtain ⟨t, ts', h1, _⟩ := flat_head p 0 h.2
      simp only [flat, h1, List.cons_append, List.cons.injEq] at hf
      obtain ⟨rfl, rfl⟩ := hf
      have := flat_name_second hT p 0 h.2 ts' h1 (.TkDot :: .TkName :: rest) (by simp)
      simpa [List.append_assoc] using this
  | .idx p k, _, h, ts, hf, rest, _ => by
      simp only [Fits] at h
      obtain ⟨t, ts', h1, _⟩ := flat_head p 0 h.2.1
      simp only [flat, h1, List.cons_append, List.cons.injEq] at hf
      obtain ⟨rfl, rfl⟩ := hf
      have := flat_name_second hT p 0 h.2.1 ts' h1 (.TkLeftBracket :: (flat k ++ .TkRightBracket :: rest)) (by simp)
      simpa [List.append_assoc] using this
  | .call p as, _, h, ts, hf, rest, _ => by
      simp only [Fits] at h
      obtain ⟨t, ts', h1, _⟩ := flat_head p 0 h.2.1
      simp only [flat, h1, List.cons_append, List.cons.injEq] at hf
      obtain ⟨rfl, rfl⟩ := hf
      have := flat_name_second hT p 0 h.2.1 ts' h1 (.TkLeftParen :: (flatArgs as ++ .TkRightParen :: rest)) (by simp)
      simpa [List.append_assoc] using this
  | .mcall p as, _, h, ts, hf, rest, _ => by
      simp only [Fits] at h
      obtain ⟨t, ts', h1, _⟩ := flat_head p 0 h.2.1
      simp only [flat, h1, List.cons_append, List.cons.injEq] at hf
      obtain ⟨rfl, rfl⟩ := hf
      have := flat_name_second hT p 0 h.2.1 ts' h1
        (.TkColon :: .TkName :: .TkLeftParen :: (flatArgs as ++ .TkRightParen :: rest)) (by simp)
      simpa [List.append_assoc] using this
  | .table fs, _, _, ts, hf, _, _ => by simp [flat] at hf
  | .closure n va, _, _, ts, hf, _, _ => by simp [flat] at hf

/-! ### One-step unfoldings of the parser functions -/

theorem sub_unary (f : Nat) (limit : Int) (t : Tok) (ts r : List Tok) (x : Expr) (h : T.unaryOf t ≠ .OpNop)
    (hs : sub T f T.unaryPrio ts = .ok (x, r)) :
    sub T (f + 1) limit (t :: ts) = loop T f limit (.un (T.unaryOf t) x) r := by
  simp [sub, h, hs]

theorem sub_lit (f : Nat) (limit : Int) (t : Tok) (ts : List Tok) (h : T.unaryOf t = .OpNop)
    (hl : isLiteral t = true) : sub T (f + 1) limit (t :: ts) = loop T f limit (.lit t) ts := by
  simp [sub, h, hl]

theorem sub_name (f : Nat) (limit : Int) (ts : List Tok) (h : T.unaryOf .TkName = .OpNop)
    (ha : ts.head? ≠ some .TkArrow) : sub T (f + 1) limit (.TkName :: ts) = suffix T f limit .name ts := by
  simp [sub, h, isLiteral, ha]

theorem sub_paren (f : Nat) (limit : Int) (ts r : List Tok) (x : Expr) (h : T.unaryOf .TkLeftParen = .OpNop)
    (hs : sub T f 0 ts = .ok (x, .TkRightParen :: r)) :
    sub T (f + 1) limit (.TkLeftParen :: ts) = suffix T f limit (.paren x) r := by
  simp [sub, h, isLiteral, hs]

theorem loop_nil (g : Nat) (limit : Int) (cm : Expr) : loop T (g + 1) limit cm [] = .ok (cm, []) := by
  simp [loop]

theorem loop_stop (g : Nat) (limit : Int) (cm : Expr) (t : Tok) (ts : List Tok) (h1 : t ≠ .TkTernary)
    (h2 : T.binaryOf t = .OpNop ∨ T.left (T.binaryOf t) ≤ limit) :
    loop T (g + 1) limit cm (t :: ts) = .ok (cm, t :: ts) := by
  simp [loop, h1, h2]

theorem loop_step (g : Nat) (limit : Int) (cm r : Expr) (t : Tok) (ts rest : List Tok) (h1 : t ≠ .TkTernary)
    (h2 : T.binaryOf t ≠ .OpNop) (h3 : limit < T.left (T.binaryOf t))
    (hs : sub T g (T.right (T.binaryOf t)) ts = .ok (r, rest)) :
    loop T (g + 1) limit cm (t :: ts) = loop T g limit (.bin (T.binaryOf t) cm r) rest := by
  have : ¬ (T.left (T.binaryOf t) ≤ limit) := by omega
  simp [loop, h1, h2, this, hs]

theorem suffix_dot (g : Nat) (limit : Int) (cm : Expr) (r : List Tok) :
    suffix T (g + 1) limit cm (.TkDot :: .TkName :: r) = suffix T g limit (.dot cm) r := by
  simp [suffix]

theorem suffix_idx (g : Nat) (limit : Int) (cm k : Expr) (r r' : List Tok)
    (hs : sub T g 0 r = .ok (k, .TkRightBracket :: r')) :
    suffix T (g + 1) limit cm (.TkLeftBracket :: r) = suffix T g limit (.idx cm k) r' := by
  simp [suffix, hs]

theorem suffix_call_nil (g : Nat) (limit : Int) (cm : Expr) (r : List Tok) :
    suffix T (g + 1) limit cm (.TkLeftParen :: .TkRightParen :: r) = suffix T g limit (.call cm .nil) r := by
  simp [suffix]

theorem suffix_call (g : Nat) (limit : Int) (cm : Expr) (as : Args) (r r' : List Tok)
    (hh : r.head? ≠ some .TkRightParen) (ha : args T g r = .ok (as, r')) :
    suffix T (g + 1) limit cm (.TkLeftParen :: r) = suffix T g limit (.call cm as) r' := by
  simp [suffix, hh, ha]

theorem suffix_mcall_nil (g : Nat) (limit : Int) (cm : Expr) (r : List Tok) :
    suffix T (g + 1) limit cm (.TkColon :: .TkName :: .TkLeftParen :: .TkRightParen :: r) =
      suffix T g limit (.mcall cm .nil) r := by
  simp [suffix]

theorem suffix_mcall (g : Nat) (limit : Int) (cm : Expr) (as : Args) (r r' : List Tok)
    (hh : r.head? ≠ some .TkRightParen) (ha : args T g r = .ok (as, r')) :
    suffix T (g + 1) limit cm (.TkColon :: .TkName :: .TkLeftParen :: r) = suffix T g limit (.mcall cm as) r' := by
  simp [suffix, hh, ha]

theorem suffix_stop (g : Nat) (limit : Int) (cm : Expr) (rest : List Tok)
    (h : ∀ t, rest.head? = some t → isSuffixStart t = false ∧ unsupportedArgStart t = false) :
    suffix T (g + 1) limit cm rest = loop T g limit cm rest := by
  cases rest with
  | nil => simp [suffix]
  | cons t r =>
    obtain ⟨h1, h2⟩ := h t rfl
    have a : t ≠ .TkDot := by intro e; subst e; simp [isSuffixStart] at h1
    have b : t ≠ .TkLeftBracket := by intro e; subst e; simp [isSuffixStart] at h1
    have c : t ≠ .TkColon := by intro e; subst e; simp [isSuffixStart] at h1
    have d : t ≠ .TkLeftParen := by intro e; subst e; simp [isSuffixStart] at h1
    have e1 : t ≠ .TkLeftBrace := by intro e; subst e; simp [isSuffixStart] at h1
    have e2 : isStringTok t = false := by
      cases hs : isStringTok t with
      | false => rfl
      | true => cases t <;> simp [isStringTok] at hs <;> simp [isSuffixStart] at h1
    simp [suffix, a, b, c, d, e1, e2, h2]

theorem args_last (f : Nat) (ts r : List Tok) (e : Expr) (hs : sub T f 0 ts = .ok (e, .TkRightParen :: r)) :
    args T (f + 1) ts = .ok (.cons e .nil, r) := by
  simp [args, hs]

theorem args_more (f : Nat) (ts r r' : List Tok) (e : Expr) (as : Args)
    (hs : sub T f 0 ts = .ok (e, .TkComma :: r)) (hh : r.head? ≠ some .TkRightParen)
    (ha : args T f r = .ok (as, r')) : args T (f + 1) ts = .ok (.cons e as, r') := by
  simp [args, hs, hh, ha]

/-! ### Tables and closures -/

theorem sub_table (f : Nat) (limit : Int) (ts r : List Tok) (fs : Fields) (h : T.unaryOf .TkLeftBrace = .OpNop)
    (hs : tableP T f ts = .ok (fs, r)) :
    sub T (f + 1) limit (.TkLeftBrace :: ts) = loop T f limit (.table fs) r := by
  simp [sub, h, isLiteral, hs]

theorem tableP_nil (f : Nat) (r : List Tok) : tableP T (f + 1) (.TkRightBrace :: r) = .ok (.nil, r) := by
  simp [tableP]

theorem tableP_fields (f : Nat) (ts : List Tok) (h : ts.head? ≠ some .TkRightBrace) :
    tableP T (f + 1) ts = fieldsP T f ts := by
  simp [tableP, h]

theorem fieldsP_last (f : Nat) (ts r : List Tok) (fd : Field) (h : fieldP T f ts = .ok (fd, .TkRightBrace :: r)) :
    fieldsP T (f + 1) ts = .ok (.cons fd .nil, r) := by
  simp [fieldsP, h]

theorem fieldsP_more (f : Nat) (ts r r' : List Tok) (fd : Field) (fs : Fields)
    (h : fieldP T f ts = .ok (fd, .TkComma :: r)) (hh : r.head? ≠ some .TkRightBrace)
    (hr : fieldsP T f r = .ok (fs, r')) : fieldsP T (f + 1) ts = .ok (.cons fd fs, r') := by
  simp [fieldsP, h, hh, hr]

theorem fieldP_keyed (f : Nat) (ts r r' : List Tok) (k e : Expr)
    (h1 : sub T f 0 ts = .ok (k, .TkRightBracket :: .TkAssign :: r)) (h2 : sub T f 0 r = .ok (e, r')) :
    fieldP T (f + 1) (.TkLeftBracket :: ts) = .ok (.keyed k e, r') := by
  simp [fieldP, h1, h2]

theorem fieldP_named (f : Nat) (ts r : List Tok) (e : Expr) (h : sub T f 0 ts = .ok (e, r)) :
    fieldP T (f + 1) (.TkName :: .TkAssign :: ts) = .ok (.named e, r) := by
  simp [fieldP, h]

theorem fieldP_pos (f : Nat) (t : Tok) (ts r : List Tok) (e : Expr) (h1 : t ≠ .TkLeftBracket)
    (h2 : t = .TkName → ts.head? ≠ some .TkAssign) (h3 : t ≠ .TkLocal)
    (h : sub T f 0 (t :: ts) = .ok (e, r)) : fieldP T (f + 1) (t :: ts) = .ok (.pos e, r) := by
  by_cases hn : t = .TkName
  · subst hn; simp [fieldP, h2 rfl, h]
  · simp [fieldP, h1, hn, h3, h]

theorem paramToks_head (n : Nat) (va : Bool) (h : ¬ (n = 0 ∧ va = false)) (r : List Tok) :
    (paramToks n va ++ .TkRightParen :: r).head? ≠ some .TkRightParen := by
  cases n with
  | zero => cases va <;> simp [paramToks] at h ⊢
  | succ n => simp [paramToks]

theorem paramList_toks : ∀ (n : Nat) (va : Bool) (m : Nat) (r : List Tok), ¬ (n = 0 ∧ va = false) →
    paramList (paramToks n va ++ .TkRightParen :: r) m = .ok (m + n, va, r)
  | 0, va, m, r, h => by cases va <;> simp [paramToks, paramList] at h ⊢
  | n + 1, va, m, r, _ => by
    by_cases hl : n = 0 ∧ va = false
    · obtain ⟨rfl, rfl⟩ := hl
      simp [paramToks, paramList]
    · have ih := paramList_toks n va (m + 1) r hl
      have hh := paramToks_head n va hl r
      simp only [paramToks, hl, if_false, List.cons_append]
      simp only [paramList, if_true, hh, if_false, ih]
      simp; omega

theorem sub_closure (f : Nat) (limit : Int) (n : Nat) (va : Bool) (rest : List Tok)
    (h : T.unaryOf .TkFunction = .OpNop) :
    sub T (f + 1) limit (.TkFunction :: .TkLeftParen :: (paramToks n va ++ .TkRightParen :: .TkEnd :: rest)) =
      loop T f limit (.closure n va) rest := by
  by_cases hl : n = 0 ∧ va = false
  · obtain ⟨rfl, rfl⟩ := hl
    simp [sub, h, isLiteral, paramToks]
  · have hp := paramList_toks n va 0 (.TkEnd :: rest) hl
    have hh := paramToks_head n va hl (.TkEnd :: rest)
    generalize paramToks n va ++ .TkRightParen :: .TkEnd :: rest = l at hp hh
    simp [sub, h, isLiteral, hh, hp]

end Climb
