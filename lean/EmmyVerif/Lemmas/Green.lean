import EmmyVerif.Model.Green
/-! Lemmas: every builder operation keeps the left-to-right token sequence of the top-level
elements (hence the text). -/
namespace Green

@[simp] theorem leavesL_nil : leavesL [] = [] := by simp [leavesL]
@[simp] theorem leavesL_cons (e : Elem) (es : List Elem) : leavesL (e :: es) = e.leaves ++ leavesL es := by
  simp [leavesL]
@[simp] theorem leavesL_append (a b : List Elem) : leavesL (a ++ b) = leavesL a ++ leavesL b := by
  induction a with
  | nil => simp
  | cons x xs ih => simp [ih, List.append_assoc]
@[simp] theorem leaves_node (k : NKind) (cs : List Elem) : (Elem.node k cs).leaves = leavesL cs := by
  simp [Elem.leaves]
@[simp] theorem leaves_tok (k : TKind) (t : List Char) : (Elem.tok k t).leaves = [(k, t)] := by
  simp [Elem.leaves]

theorem trimSplit_concat (p : Elem → Bool) (l : List Elem) :
    (trimSplit p l).1 ++ (trimSplit p l).2.1 ++ (trimSplit p l).2.2 = l := by
  simp only [trimSplit]
  have h1 : ((l.dropWhile p).reverse.dropWhile p).reverse ++ ((l.dropWhile p).reverse.takeWhile p).reverse
      = l.dropWhile p := by
    rw [← List.reverse_append, List.takeWhile_append_dropWhile, List.reverse_reverse]
  rw [List.append_assoc, h1, List.takeWhile_append_dropWhile]

theorem trimSplit_leaves (p : Elem → Bool) (l : List Elem) :
    leavesL (trimSplit p l).1 ++ (leavesL (trimSplit p l).2.1 ++ leavesL (trimSplit p l).2.2) = leavesL l := by
  have h := trimSplit_concat p l
  conv => rhs; rw [← h]
  simp [List.append_assoc]

theorem rev_split_leaves (before : List Elem) :
    leavesL (before.reverse.dropWhile isTrivia).reverse ++ leavesL (before.reverse.takeWhile isTrivia).reverse
      = leavesL before := by
  rw [← leavesL_append, ← List.reverse_append, List.takeWhile_append_dropWhile, List.reverse_reverse]

theorem rebuild_leaves (k : NKind) (before own : List Elem) :
    leavesL (rebuild k before own) = leavesL before ++ leavesL own := by
  have hT := trimSplit_leaves isTrivia own
  have hW := trimSplit_leaves isWs own
  have hR := rev_split_leaves before
  cases k <;>
    simp only [rebuild, leavesL_append, leavesL_cons, leaves_node, leavesL_nil, List.append_nil,
      List.append_assoc] <;>
    first
      | (rw [hT])
      | (rw [hW])
      | (rw [← hR]; simp only [List.append_assoc])

theorem closeNode_leaves (s : St) : leavesL (closeNode s).children = leavesL s.children := by
  unfold closeNode
  split
  · rfl
  · split
    · rfl
    · simp only [rebuild_leaves, ← leavesL_append, List.take_append_drop]

theorem finishNode_leaves (s : St) : leavesL (finishNode s).children = leavesL s.children := by
  unfold finishNode
  split
  · rfl
  · exact closeNode_leaves s

@[simp] theorem startNode_children (s : St) (k : NKind) : (startNode s k).children = s.children := rfl

theorem startNodes_children (ks : List NKind) (s : St) : (ks.foldl startNode s).children = s.children := by
  induction ks generalizing s with
  | nil => rfl
  | cons k ks ih => simp [List.foldl_cons, ih]

theorem token_leaves (s : St) (k : TKind) (t : List Char) :
    leavesL (token s k t).children = leavesL s.children ++ [(k, t)] := by
  simp [token]

theorem closeAll_leaves (n : Nat) (s : St) : leavesL (closeAll n s).children = leavesL s.children := by
  induction n generalizing s with
  | zero => rfl
  | succ n ih => simp [closeAll, ih, closeNode_leaves]

theorem root_leaves (cs : List Elem) : (root cs).leaves = leavesL cs := by
  unfold root
  split <;> simp

theorem finish_leaves (s : St) : (finish s).leaves = leavesL s.children := by
  simp [finish, root_leaves, closeAll_leaves]

theorem steps_leaves (ops : List Op) (s : St) :
    leavesL (ops.foldl step s).children = leavesL s.children ++ opLeaves ops := by
  induction ops generalizing s with
  | nil => simp [opLeaves]
  | cons e es ih =>
    simp only [List.foldl_cons]
    rw [ih]
    cases e with
    | start k => simp [step, opLeaves]
    | tok k t => simp [step, opLeaves, token_leaves, List.append_assoc]
    | fin => simp [step, opLeaves, finishNode_leaves]

/-- the root produced by `finish` is always a `Chunk` node -/
theorem root_is_chunk (cs : List Elem) : ∃ c, root cs = Elem.node .chunk c := by
  unfold root
  split <;> exact ⟨_, rfl⟩

end Green
