import EmmyVerif.Model.SchedDiag
/-!
# Lemmas for `SchedDiag` (C30)

`Inv` for the real configuration (publish under the read lock + fresh token per task): for every uri,
either the last publication is current (`Settled`), or the main loop is about to schedule / clear
(`MainOwes`), or the file is analysed and some task for it is still before its diagnosis with an
un-cancelled token (`Wit`). Preserved by every step; at quiescence only `Settled` is left.
-/
namespace SchedDiag

def MainOwes (cur : List MStep) (u : Uri) : Prop := MStep.addTask u ∈ cur ∨ MStep.clearPub u ∈ cur

def Wit (s : St) (u : Uri) : Prop :=
  s.an u ≠ none ∧ ∃ (j : Nat) (t : DTask), s.tasks[j]? = some t ∧ t.u = u ∧ t.tok ∉ s.cancelled ∧
    (t.phase = .sleeping ∨ t.phase = .woke)

/-- shape of the main loop's current handler + what the analysis holds in between its two sections -/
def CurOk (s : St) : Prop :=
  s.cur = [] ∨ (∃ u t, s.cur = [.updAn u t, .addTask u]) ∨ (∃ u, s.cur = [.addTask u] ∧ s.an u ≠ none) ∨
  (∃ u, s.cur = [.rmAn u, .clearPub u]) ∨ (∃ u, s.cur = [.clearPub u] ∧ s.an u = none)

structure Inv (s : St) : Prop where
  curOk : CurOk s
  tokLt : ∀ (j : Nat) (t : DTask), s.tasks[j]? = some t → t.tok < s.nextTok
  cancLt : ∀ k ∈ s.cancelled, k < s.nextTok
  mapLt : ∀ u k, s.tokens u = some k → k < s.nextTok
  tokUri : ∀ (j : Nat) (t : DTask), s.tasks[j]? = some t → ∀ u, s.tokens u = some t.tok → t.u = u
  noComputed : ∀ (j : Nat) (t : DTask), s.tasks[j]? = some t → ∀ d, t.phase ≠ .computed d
  owe : ∀ u, Settled s u ∨ MainOwes s.cur u ∨ Wit s u

theorem get_set_self {ts : List DTask} {i : Nat} {t t' : DTask} (h : ts[i]? = some t) :
    (ts.set i t')[i]? = some t' := by
  have hi : i < ts.length := by
    apply Classical.byContradiction; intro hn
    have : ts[i]? = none := List.getElem?_eq_none (by omega)
    rw [this] at h; cases h
  simp [hi]

theorem get_set_ne {ts : List DTask} {i j : Nat} {t' : DTask} (h : i ≠ j) :
    (ts.set i t')[j]? = ts[j]? := by
  simp [h]

theorem get_set_cases {ts : List DTask} {i j : Nat} {t t' x : DTask} (h : ts[i]? = some t)
    (hx : (ts.set i t')[j]? = some x) : (j = i ∧ x = t') ∨ (j ≠ i ∧ ts[j]? = some x) := by
  by_cases hji : j = i
  · subst hji
    rw [get_set_self h] at hx
    exact Or.inl ⟨rfl, (Option.some.inj hx).symm⟩
  · rw [get_set_ne (fun e => hji e.symm)] at hx
    exact Or.inr ⟨hji, hx⟩

theorem get_append_cases {ts : List DTask} {j : Nat} {n x : DTask}
    (hx : (ts ++ [n])[j]? = some x) : ts[j]? = some x ∨ (j = ts.length ∧ x = n) := by
  by_cases hj : j < ts.length
  · left; rwa [List.getElem?_append_left hj] at hx
  · right
    rw [List.getElem?_append_right (by omega)] at hx
    cases hk : j - ts.length with
    | zero => rw [hk] at hx; simp at hx; exact ⟨by omega, hx.symm⟩
    | succ k => rw [hk] at hx; simp at hx

theorem get_append_left' {ts : List DTask} {j : Nat} {n x : DTask} (hx : ts[j]? = some x) :
    (ts ++ [n])[j]? = some x := by
  have hj : j < ts.length := by
    apply Classical.byContradiction; intro hn
    have : ts[j]? = none := List.getElem?_eq_none (by omega)
    rw [this] at hx; cases hx
  rwa [List.getElem?_append_left hj]

/-- `Settled` only depends on `an u` and the last publication for `u` -/
theorem settled_of {s s' : St} {u : Uri} (h : Settled s u) (ha : s'.an u = s.an u)
    (hp : lastPub s' u = lastPub s u) : Settled s' u := by
  simp only [Settled, ha, hp]; exact h

theorem lastPub_cons_ne {s : St} {u v : Uri} {d : Option Text} {pubs' : List (Uri × Option Text)}
    (h : pubs' = (v, d) :: s.pubs) (hne : u ≠ v) (s' : St) (hs : s'.pubs = pubs') : lastPub s' u = lastPub s u := by
  simp only [lastPub, hs, h, List.find?_cons]
  have : ((v, d).1 == u) = false := by simp; exact fun e => hne e.symm
  simp [this]

theorem lastPub_cons_eq {u : Uri} {d : Option Text} (s' : St) {rest : List (Uri × Option Text)}
    (hs : s'.pubs = (u, d) :: rest) : lastPub s' u = some d := by
  simp [lastPub, hs]

/-- a step that only changes the phase of task `i` (to something that is not `computed`) and possibly
publishes the current text of that task's uri keeps the invariant -/
theorem inv_phase {s : St} (inv : Inv s) {i : Nat} {t : DTask} (ht : s.tasks[i]? = some t) (p : Phase)
    (hp : ∀ d, p ≠ .computed d)
    (pubs' : List (Uri × Option Text))
    (hpubs : pubs' = s.pubs ∨ (∃ txt, s.an t.u = some txt ∧ pubs' = (t.u, some txt) :: s.pubs))
    (hpub_needed : (t.phase = .sleeping ∨ t.phase = .woke) → t.tok ∉ s.cancelled → ¬ (p = .sleeping ∨ p = .woke) →
      s.an t.u ≠ none → ∃ txt, s.an t.u = some txt ∧ pubs' = (t.u, some txt) :: s.pubs)
    (tokens' : Uri → Option Nat) (htok : ∀ u k, tokens' u = some k → s.tokens u = some k) :
    Inv { s with tasks := s.tasks.set i { t with phase := p }, pubs := pubs', tokens := tokens' } := by
  refine ⟨?_, ?_, inv.cancLt, ?_, ?_, ?_, ?_⟩
  · exact inv.curOk
  · intro j x hx
    rcases get_set_cases ht hx with ⟨_, rfl⟩ | ⟨_, hx'⟩
    · exact inv.tokLt i t ht
    · exact inv.tokLt j x hx'
  · intro u k hk; exact inv.mapLt u k (htok u k hk)
  · intro j x hx u hu
    rcases get_set_cases ht hx with ⟨_, rfl⟩ | ⟨_, hx'⟩
    · exact inv.tokUri i t ht u (htok u _ hu)
    · exact inv.tokUri j x hx' u (htok u _ hu)
  · intro j x hx d
    rcases get_set_cases ht hx with ⟨_, rfl⟩ | ⟨_, hx'⟩
    · exact hp d
    · exact inv.noComputed j x hx' d
  · intro u
    -- publication for t.u of the current text settles t.u; other uris keep their last publication
    by_cases hu : u = t.u
    · subst hu
      rcases hpubs with hsame | ⟨txt, han, hcons⟩
      · -- nothing published
        rcases inv.owe t.u with hs | hm | ⟨hne, j, x, hx, hxu, hxc, hxp⟩
        · left; exact settled_of hs rfl (by simp [lastPub, hsame])
        · right; left; exact hm
        · by_cases hji : j = i
          · subst hji
            rw [ht] at hx; cases hx
            by_cases hp2 : p = .sleeping ∨ p = .woke
            · right; right
              exact ⟨hne, j, _, get_set_self ht, rfl, hxc, hp2⟩
            · obtain ⟨txt, _, hcons⟩ := hpub_needed hxp hxc hp2 hne
              rw [hsame] at hcons
              exact absurd hcons (by intro h; have := congrArg List.length h; simp at this)
          · right; right
            exact ⟨hne, j, x, by rw [get_set_ne (fun e => hji e.symm)]; exact hx, hxu, hxc, hxp⟩
      · left
        simp only [Settled, han]
        exact lastPub_cons_eq _ hcons
    · have hlp : lastPub { s with tasks := s.tasks.set i { t with phase := p }, pubs := pubs', tokens := tokens' } u
          = lastPub s u := by
        rcases hpubs with hsame | ⟨txt, _, hcons⟩
        · simp [lastPub, hsame]
        · exact lastPub_cons_ne hcons hu _ rfl
      rcases inv.owe u with hs | hm | ⟨hne, j, x, hx, hxu, hxc, hxp⟩
      · left; exact settled_of hs rfl hlp
      · right; left; exact hm
      · right; right
        have hji : j ≠ i := by
          intro e; subst e; rw [ht] at hx; cases hx; exact hu hxu.symm
        exact ⟨hne, j, x, by rw [get_set_ne (fun e => hji e.symm)]; exact hx, hxu, hxc, hxp⟩


theorem mainOwes_singleton_ne {st : MStep} {u v : Uri} (h : st = .addTask u ∨ st = .clearPub u)
    (hne : v ≠ u) (rest : List MStep) (hrest : ∀ x ∈ rest, x = MStep.addTask u ∨ x = MStep.clearPub u ∨
      (∃ t, x = MStep.updAn u t) ∨ x = MStep.rmAn u) : ¬ MainOwes (st :: rest) v := by
  intro hm
  rcases hm with hm | hm
  · rcases List.mem_cons.mp hm with e | e
    · rcases h with h | h <;> rw [h] at e <;> cases e; exact hne rfl
    · rcases hrest _ e with h1 | h1 | ⟨_, h1⟩ | h1 <;> cases h1; exact hne rfl
  · rcases List.mem_cons.mp hm with e | e
    · rcases h with h | h <;> rw [h] at e <;> cases e; exact hne rfl
    · rcases hrest _ e with h1 | h1 | ⟨_, h1⟩ | h1 <;> cases h1; exact hne rfl

/-- the main loop's steps keep the invariant (real configuration) -/
theorem inv_main {s s' : St} (inv : Inv s) (h : exec realCfg s .main = some s') : Inv s' := by
  simp only [exec] at h
  rcases inv.curOk with hc | ⟨u, t, hc⟩ | ⟨u, hc, han⟩ | ⟨u, hc⟩ | ⟨u, hc, han⟩
  · -- take the next event
    rw [hc] at h
    cases hp : s.pending with
    | nil => rw [hp] at h; cases h
    | cons e es =>
      rw [hp] at h
      simp only [Option.some.injEq] at h
      subst h
      refine ⟨?_, inv.tokLt, inv.cancLt, inv.mapLt, inv.tokUri, inv.noComputed, ?_⟩
      · cases e with
        | edit u t => exact Or.inr (Or.inl ⟨u, t, rfl⟩)
        | remove u => exact Or.inr (Or.inr (Or.inr (Or.inl ⟨u, rfl⟩)))
      · intro v
        rcases inv.owe v with hs | hm | hw
        · left; exact settled_of hs rfl rfl
        · rw [hc] at hm; rcases hm with hm | hm <;> cases hm
        · right; right; exact hw
  · -- updAn u t
    rw [hc] at h
    simp only [execMain, Option.some.injEq] at h
    subst h
    refine ⟨?_, inv.tokLt, inv.cancLt, inv.mapLt, inv.tokUri, inv.noComputed, ?_⟩
    · exact Or.inr (Or.inr (Or.inl ⟨u, rfl, by simp [upd]⟩))
    · intro v
      by_cases hv : v = u
      · subst hv; right; left; left; simp
      · rcases inv.owe v with hs | hm | ⟨hne, hw⟩
        · left; exact settled_of hs (by simp [upd, hv]) rfl
        · rw [hc] at hm
          rcases hm with hm | hm
          · simp at hm; exact absurd hm hv
          · simp at hm
        · right; right; exact ⟨by simpa [upd, hv] using hne, hw⟩
  · -- addTask u
    rw [hc] at h
    have hfresh : ∀ k ∈ s.cancelled, s.nextTok ≠ k := fun k hk e => by
      have := inv.cancLt k hk; (try dsimp only at *); omega
    cases hto : s.tokens u with
    | none =>
      simp only [execMain, hto, Option.some.injEq] at h
      subst h
      refine ⟨Or.inl rfl, ?_, ?_, ?_, ?_, ?_, ?_⟩
      · intro j x hx
        rcases get_append_cases hx with hx' | ⟨_, rfl⟩
        · have := inv.tokLt j x hx'; (try dsimp only at *); omega
        · (try dsimp only at *); simp
      · intro k hk; have := inv.cancLt k hk; (try dsimp only at *); omega
      · intro v k hk
        by_cases hv : v = u
        · subst hv; simp [upd] at hk; (try dsimp only at *); omega
        · simp [upd, hv] at hk; have := inv.mapLt v k hk; (try dsimp only at *); omega
      · intro j x hx v hv
        rcases get_append_cases hx with hx' | ⟨_, rfl⟩
        · by_cases hvu : v = u
          · subst hvu; simp [upd] at hv
            have := inv.tokLt j x hx'; (try dsimp only at *); omega
          · simp [upd, hvu] at hv; exact inv.tokUri j x hx' v hv
        · by_cases hvu : v = u
          · exact hvu.symm
          · simp [upd, hvu] at hv
            have := inv.mapLt v _ hv; (try dsimp only at *); omega
      · intro j x hx d
        rcases get_append_cases hx with hx' | ⟨_, rfl⟩
        · exact inv.noComputed j x hx' d
        · (try dsimp only at *); simp
      · intro v
        by_cases hv : v = u
        · subst hv; right; right
          exact ⟨han, s.tasks.length, { u := v, tok := s.nextTok, phase := .sleeping }, by simp, rfl,
            fun hk => hfresh _ hk rfl, Or.inl rfl⟩
        · rcases inv.owe v with hs | hm | ⟨hne, j, x, hx, hxu, hxc, hxp⟩
          · left; exact settled_of hs rfl rfl
          · rw [hc] at hm
            rcases hm with hm | hm <;> simp at hm; exact absurd hm hv
          · right; right
            exact ⟨hne, j, x, get_append_left' hx, hxu, hxc, hxp⟩
    | some old =>
      simp only [execMain, hto, realCfg, if_true, Option.some.injEq] at h
      subst h
      have hold : old < s.nextTok := inv.mapLt u old hto
      refine ⟨Or.inl rfl, ?_, ?_, ?_, ?_, ?_, ?_⟩
      · intro j x hx
        rcases get_append_cases hx with hx' | ⟨_, rfl⟩
        · have := inv.tokLt j x hx'; (try dsimp only at *); omega
        · (try dsimp only at *); simp
      · intro k hk
        rcases List.mem_cons.mp hk with e | e
        · (try dsimp only at *); omega
        · have := inv.cancLt k e; (try dsimp only at *); omega
      · intro v k hk
        by_cases hv : v = u
        · subst hv; simp [upd] at hk; (try dsimp only at *); omega
        · simp [upd, hv] at hk; have := inv.mapLt v k hk; (try dsimp only at *); omega
      · intro j x hx v hv
        rcases get_append_cases hx with hx' | ⟨_, rfl⟩
        · by_cases hvu : v = u
          · subst hvu; simp [upd] at hv
            have := inv.tokLt j x hx'; (try dsimp only at *); omega
          · simp [upd, hvu] at hv; exact inv.tokUri j x hx' v hv
        · by_cases hvu : v = u
          · exact hvu.symm
          · simp [upd, hvu] at hv
            have := inv.mapLt v _ hv; (try dsimp only at *); omega
      · intro j x hx d
        rcases get_append_cases hx with hx' | ⟨_, rfl⟩
        · exact inv.noComputed j x hx' d
        · (try dsimp only at *); simp
      · intro v
        by_cases hv : v = u
        · subst hv; right; right
          refine ⟨han, s.tasks.length, { u := v, tok := s.nextTok, phase := .sleeping }, by simp, rfl, ?_, Or.inl rfl⟩
          intro hk
          rcases List.mem_cons.mp hk with e | e
          · (try dsimp only at *); omega
          · exact hfresh _ e rfl
        · rcases inv.owe v with hs | hm | ⟨hne, j, x, hx, hxu, hxc, hxp⟩
          · left; exact settled_of hs rfl rfl
          · rw [hc] at hm
            rcases hm with hm | hm <;> simp at hm; exact absurd hm hv
          · right; right
            refine ⟨hne, j, x, get_append_left' hx, hxu, ?_, hxp⟩
            intro hk
            rcases List.mem_cons.mp hk with e | e
            · -- the cancelled token belongs to `u`, the witness to `v ≠ u`
              have := inv.tokUri j x hx u (by rw [e]; exact hto)
              exact hv (by rw [← hxu, this])
            · exact hxc e
  · -- rmAn u
    rw [hc] at h
    simp only [execMain, Option.some.injEq] at h
    subst h
    refine ⟨?_, inv.tokLt, inv.cancLt, inv.mapLt, inv.tokUri, inv.noComputed, ?_⟩
    · exact Or.inr (Or.inr (Or.inr (Or.inr ⟨u, rfl, by simp [upd]⟩)))
    · intro v
      by_cases hv : v = u
      · subst hv; right; left; right; simp
      · rcases inv.owe v with hs | hm | ⟨hne, hw⟩
        · left; exact settled_of hs (by simp [upd, hv]) rfl
        · rw [hc] at hm
          rcases hm with hm | hm
          · simp at hm
          · simp at hm; exact absurd hm hv
        · right; right; exact ⟨by simpa [upd, hv] using hne, hw⟩
  · -- clearPub u
    rw [hc] at h
    simp only [execMain, Option.some.injEq] at h
    subst h
    refine ⟨Or.inl rfl, inv.tokLt, inv.cancLt, inv.mapLt, inv.tokUri, inv.noComputed, ?_⟩
    intro v
    by_cases hv : v = u
    · subst hv; left
      simp only [Settled, han]
      left; exact lastPub_cons_eq _ rfl
    · rcases inv.owe v with hs | hm | hw
      · left; exact settled_of hs rfl (lastPub_cons_ne rfl hv _ rfl)
      · rw [hc] at hm
        rcases hm with hm | hm <;> simp at hm; exact absurd hm hv
      · right; right; exact hw

theorem inv_exec {s s' : St} {lab : Label} (inv : Inv s) (h : exec realCfg s lab = some s') : Inv s' := by
  cases lab with
  | main => exact inv_main inv h
  | wake i =>
    simp only [exec] at h
    split at h
    · rename_i t ht
      split at h
      · cases h
        exact inv_phase inv ht .woke (by intro d; simp) s.pubs (Or.inl rfl)
          (fun _ _ hn => absurd (Or.inr rfl) hn) s.tokens (fun _ _ hk => hk)
      · cases h
    · cases h
  | cancelExit i =>
    simp only [exec] at h
    split at h
    · rename_i t ht
      split at h
      · rename_i hcond
        cases h
        exact inv_phase inv ht .done (by intro d; simp) s.pubs (Or.inl rfl)
          (fun _ hnc _ => absurd hcond.2 hnc) s.tokens (fun _ _ hk => hk)
      · cases h
    · cases h
  | diag i =>
    simp only [exec] at h
    split at h
    · rename_i t ht
      split at h
      · simp only [realCfg, if_true] at h
        split at h
        · rename_i txt han
          cases h
          exact inv_phase inv ht .finishing (by intro d; simp) ((t.u, some txt) :: s.pubs)
            (Or.inr ⟨txt, han, rfl⟩) (fun _ _ _ _ => ⟨txt, han, rfl⟩) s.tokens (fun _ _ hk => hk)
        · rename_i han
          cases h
          exact inv_phase inv ht .finishing (by intro d; simp) s.pubs (Or.inl rfl)
            (fun _ _ _ hne => absurd han hne) s.tokens (fun _ _ hk => hk)
      · cases h
    · cases h
  | diagSkip i =>
    simp only [exec] at h
    split at h
    · rename_i t ht
      split at h
      · rename_i hcond
        cases h
        exact inv_phase inv ht .finishing (by intro d; simp) s.pubs (Or.inl rfl)
          (fun _ hnc _ => absurd hcond.2 hnc) s.tokens (fun _ _ hk => hk)
      · cases h
    · cases h
  | pub i =>
    simp only [exec] at h
    split at h
    · rename_i t ht
      split at h
      · rename_i txt hph; exact absurd hph (inv.noComputed i t ht _)
      · rename_i hph; exact absurd hph (inv.noComputed i t ht _)
      · cases h
    · cases h
  | rmTok i =>
    simp only [exec] at h
    split at h
    · rename_i t ht
      split at h
      · rename_i hph
        cases h
        exact inv_phase inv ht .done (by intro d; simp) s.pubs (Or.inl rfl)
          (fun hp _ _ => by rcases hp with e | e <;> rw [hph] at e <;> cases e)
          (upd s.tokens t.u none)
          (fun v k hk => by
            by_cases hv : v = t.u
            · subst hv; simp [upd] at hk
            · simpa [upd, hv] using hk)
      · cases h
    · cases h
  | wsDiag u =>
    simp only [exec] at h
    split at h
    · rename_i txt han
      cases h
      refine ⟨inv.curOk, inv.tokLt, inv.cancLt, inv.mapLt, inv.tokUri, inv.noComputed, ?_⟩
      intro v
      by_cases hv : v = u
      · subst hv; left
        simp only [Settled, han]
        exact lastPub_cons_eq _ rfl
      · rcases inv.owe v with hs | hm | hw
        · left; exact settled_of hs rfl (lastPub_cons_ne rfl hv _ rfl)
        · right; left; exact hm
        · right; right; exact hw
    · cases h

theorem inv_init (es : List Event) : Inv (init es) := by
  refine ⟨Or.inl rfl, ?_, ?_, ?_, ?_, ?_, ?_⟩
  · intro j t ht; simp [init] at ht
  · intro k hk; simp [init] at hk
  · intro u k hk; simp [init] at hk
  · intro j t ht; simp [init] at ht
  · intro j t ht; simp [init] at ht
  · intro u; left; simp [Settled, init, lastPub]

theorem inv_run {s s' : St} {sched : List Label} (inv : Inv s) (h : run realCfg s sched = some s') : Inv s' := by
  induction sched generalizing s with
  | nil => simp [run] at h; subst h; exact inv
  | cons lab rest ih =>
    simp only [run] at h
    split at h
    · rename_i s1 h1; exact ih (inv_exec inv h1) h
    · cases h

theorem quiescentB_iff (s : St) : quiescentB s = true ↔ quiescent s := by
  simp [quiescentB, quiescent, List.isEmpty_iff, and_assoc]

theorem settledB_iff (s : St) (u : Uri) : settledB s u = true ↔ Settled s u := by
  simp only [settledB, Settled]
  split <;> simp

end SchedDiag
