import EmmyVerif.Lemmas.TyRefl5
/-!
# Reflexivity: arbitrary references and unions with a compound member, in one predicate

`wfB` = `wfA` with the union arm widened to `mixedOk`: the members are atoms and compound `wfA` types that
are all the same type (i.e. at most one distinct compound member), pairwise distinct, at least two. Such a
union may stand anywhere a union may: on its own, in tuples / `table<…>` / records, and as an array element.
`lvB` / `fdB` are `lv` / `fd` with the union arm depending on the compound member.
-/
namespace TyM
open Ty

theorem lv_mem : ∀ (ts : TyL) (t : Ty), t ∈ ts.toList → lv t ≤ lvL ts ∧ fd t ≤ fdL ts
  | .nil, t, h => by simp [TyL.toList] at h
  | .cons x xs, t, h => by
    simp only [TyL.toList, List.mem_cons] at h
    rcases h with rfl | h
    · exact ⟨by simp [lvL]; omega, by simp [fdL]; omega⟩
    · obtain ⟨a, b⟩ := lv_mem xs t h
      exact ⟨by simp [lvL]; omega, by simp [fdL]; omega⟩

/-- union members: atoms and compound `wfA` types, the compound ones all equal -/
def mixedOk (e : Env) (l : List Ty) : Bool :=
  l.all (fun m => isAtom e m || (isCompound m && wfA e m)) &&
  l.all (fun m => l.all (fun m' => !isCompound m || !isCompound m' || decide (m = m')))

theorem mixed_witness (e : Env) (ms : TyL) (h : mixedOk e ms.toList = true) :
    ∃ k, isCompound k = true ∧ wfA e k = true ∧ (∀ m ∈ ms.toList, isAtom e m = true ∨ m = k) ∧
      lv k ≤ max (lvL ms) 2 ∧ fd k ≤ max (fdL ms) 3 := by
  simp only [mixedOk, Bool.and_eq_true, List.all_eq_true, Bool.or_eq_true, Bool.not_eq_true',
    decide_eq_true_eq] at h
  obtain ⟨h1, h2⟩ := h
  cases hf : ms.toList.find? isCompound with
  | none =>
    refine ⟨.tuple .nil, rfl, rfl, ?_, by simp [lv, lvL]; omega, by simp [fd, fdL]; omega⟩
    intro m hm
    rcases h1 m hm with ha | hc
    · exact .inl ha
    · have := List.find?_eq_none.mp hf m hm
      simp [hc.1] at this
  | some k =>
    have hkm : k ∈ ms.toList := List.mem_of_find?_eq_some hf
    have hkc : isCompound k = true := List.find?_some hf
    have hkw : wfA e k = true := by
      rcases h1 k hkm with ha | hc
      · cases k <;> simp_all [isCompound, isAtom]
      · exact hc.2
    obtain ⟨a, b⟩ := lv_mem ms k hkm
    refine ⟨k, hkc, hkw, ?_, by omega, by omega⟩
    intro m hm
    rcases h1 m hm with ha | hc
    · exact .inl ha
    · rcases h2 m hm k hkm with (h | h) | h
      · simp [hc.1] at h
      · simp [hkc] at h
      · exact .inr h

mutual
def wfB (e : Env) : Ty → Bool
  | .prim k => k ≠ .selfInfer && k ≠ .never
  | .lit _ => true
  | .ref _ => true
  | .func _ => false
  | .array b => wfB e b && (!b.isRef || arrOk e b)
  | .tuple ts => wfBL e ts
  | .tgen ps => wfBL e ps
  | .object fs => wfBF e fs && decide (keysOf fs).Nodup
  | .union ms => mixedOk e ms.toList && decide ms.toList.Nodup && decide (2 ≤ ms.toList.length)
def wfBL (e : Env) : TyL → Bool
  | .nil => true
  | .cons t ts => wfB e t && wfBL e ts
def wfBF (e : Env) : FdL → Bool
  | .nil => true
  | .cons _ t fs => wfB e t && wfBF e fs
end

mutual
def lvB : Ty → Nat
  | .array b => lvB b + 5
  | .tuple ts => lvBL ts + 2
  | .tgen ps => lvBL ps + 2
  | .object fs => lvBF fs + 2
  | .union ms => max (lvL ms) 2 + 4
  | _ => 0
def lvBL : TyL → Nat
  | .nil => 0
  | .cons t ts => max (lvB t) (lvBL ts)
def lvBF : FdL → Nat
  | .nil => 0
  | .cons _ t fs => max (lvB t) (lvBF fs)
end

mutual
def fdB : Ty → Nat
  | .array b => fdB b + 10
  | .tuple ts => fdBL ts + 3
  | .tgen ps => fdBL ps + 3
  | .object fs => fdBF fs + 3
  | .union ms => max (fdL ms) 3 + 7
  | _ => 2
def fdBL : TyL → Nat
  | .nil => 0
  | .cons t ts => max (fdB t) (fdBL ts)
def fdBF : FdL → Nat
  | .nil => 0
  | .cons _ t fs => max (fdB t) (fdBF fs)
end

theorem wfBL_mem (e : Env) : ∀ (ts : TyL) (t : Ty), wfBL e ts = true → t ∈ ts.toList →
    wfB e t = true ∧ lvB t ≤ lvBL ts ∧ fdB t ≤ fdBL ts
  | .nil, t, _, h => by simp [TyL.toList] at h
  | .cons x xs, t, hw, h => by
    simp only [wfBL, Bool.and_eq_true] at hw
    simp only [TyL.toList, List.mem_cons] at h
    rcases h with rfl | h
    · exact ⟨hw.1, by simp [lvBL]; omega, by simp [fdBL]; omega⟩
    · obtain ⟨a, b, c⟩ := wfBL_mem e xs t hw.2 h
      exact ⟨a, by simp [lvBL]; omega, by simp [fdBL]; omega⟩

theorem wfBF_mem (e : Env) : ∀ (fs : FdL) (k : Name) (t : Ty), wfBF e fs = true → (k, t) ∈ fs.toList →
    wfB e t = true ∧ lvB t ≤ lvBF fs ∧ fdB t ≤ fdBF fs
  | .nil, k, t, _, h => by simp [FdL.toList] at h
  | .cons k' x xs, k, t, hw, h => by
    simp only [wfBF, Bool.and_eq_true] at hw
    simp only [FdL.toList, List.mem_cons, Prod.mk.injEq] at h
    rcases h with ⟨_, rfl⟩ | h
    · exact ⟨hw.1, by simp [lvBF]; omega, by simp [fdBF]; omega⟩
    · obtain ⟨a, b, c⟩ := wfBF_mem e xs k t hw.2 h
      exact ⟨a, by simp [lvBF]; omega, by simp [fdBF]; omega⟩

/-! ## structure lemmas (the `ok` direction) -/

/-- element check of an array whose element type is a union of atoms and one compound member -/
theorem array_step_mixed (e : Env) (ip : List (Name × Ty)) (f lvl : Nat) (l : TyL) (k : Ty)
    (hk : isCompound k = true) (hwk : wfA e k = true)
    (hms : ∀ m ∈ l.toList, isAtom e m = true ∨ m = k)
    (hnd : l.toList.Nodup) (hlen : 2 ≤ l.toList.length)
    (hl : lvl + 3 + lv k ≤ maxLevel) (hl2 : lvl + 3 < maxLevel) :
    checkGeneral e ip (f + fd k + 7) lvl (union e (.union l) tNil) (.union l) = .ok := by
  have hnu : ∀ t ∈ l.toList, t.isUnion = false := by
    intro t ht
    rcases hms t ht with h | h
    · exact atom_not_union e t h
    · subst h; cases t <;> simp_all [isCompound, Ty.isUnion]
  obtain ⟨y, hy, hmem⟩ := union_union_nil e l.toList hnd hnu hlen
  have hb : (Ty.union l) = Ty.mk l.toList := by simp [Ty.mk]
  rw [hb, hy, ← hb, show f + fd k + 7 = (f + fd k + 5) + 2 from rfl,
    show Ty.mk y = Ty.union (TyL.ofList y) from rfl]
  apply checkGeneral_union_union_ok
  rw [withNext_lt lvl _ (by omega)]
  apply allOk_ok
  intro cm hcm
  rw [withNext_lt (lvl + 1) _ (by omega)]
  apply union_member_mixed e ip f (lvl + 1 + 1) (TyL.ofList y) k cm hk hwk
  · intro m hm
    rw [TyL.toList_ofList] at hm
    rcases (hmem m).mp hm with h | h
    · exact hms m h
    · subst h; left; rfl
  · rw [TyL.toList_ofList]; exact (hmem cm).mpr (.inl hcm)
  · omega
  · omega

mutual
/-- **reflexivity.** Every well-formed type is assignable to itself, at any guard level that leaves
`lvB t` levels, with `fdB t` units of model fuel (or more). -/
theorem reflB_ty (e : Env) : (t : Ty) → wfB e t = true → ∀ (ip : List (Name × Ty)) (f lvl : Nat),
    lvl + lvB t ≤ maxLevel → checkGeneral e ip (f + fdB t) lvl t t = .ok
  | .prim k, hw, ip, f, lvl, _ => atom_refl e ip f lvl _ (by simpa [wfB, isAtom] using hw)
  | .lit c, _, ip, f, lvl, _ => atom_refl e ip f lvl _ rfl
  | .ref n, _, ip, f, lvl, _ => by
    show checkGeneral e ip (f + 2) lvl _ _ = _
    exact ref_refl e ip (f + 1) lvl n
  | .func _, hw, _, _, _, _ => by simp [wfB] at hw
  | .union ms, hw, ip, f, lvl, hl => by
    simp only [wfB, Bool.and_eq_true, decide_eq_true_eq] at hw
    simp only [lvB] at hl
    obtain ⟨k, hk, hwk, hms, hlv, hfd⟩ := mixed_witness e ms hw.1.1
    show checkGeneral e ip (f + (max (fdL ms) 3 + 7)) lvl _ _ = _
    obtain ⟨d, hd⟩ : ∃ d, max (fdL ms) 3 = fd k + d := ⟨max (fdL ms) 3 - fd k, by omega⟩
    rw [hd, show f + (fd k + d + 7) = (f + d) + fd k + 7 from by omega]
    exact union_mixed_refl e ip (f + d) lvl ms k hk hwk hms (by unfold maxLevel at *; omega)
      (by unfold maxLevel at *; omega)
  | .tgen ps, hw, ip, f, lvl, hl => by
    simp only [wfB] at hw
    simp only [lvB] at hl
    show checkGeneral e ip (f + (fdBL ps + 3)) lvl _ _ = _
    rw [show f + (fdBL ps + 3) = (f + fdBL ps) + 3 from by omega]
    apply checkGeneral_tgen_ok
    intro p hp
    obtain ⟨hwp, hlp, hfp⟩ := wfBL_mem e ps p hw hp
    rw [withNext_lt lvl _ (by unfold maxLevel at *; omega)]
    obtain ⟨d, hd⟩ : ∃ d, fdBL ps = fdB p + d := ⟨fdBL ps - fdB p, by omega⟩
    rw [hd, show f + (fdB p + d) = (f + d) + fdB p from by omega]
    exact reflB_tyL e ps hw p hp ip (f + d) (lvl + 1) (by omega)
  | .tuple ts, hw, ip, f, lvl, hl => by
    simp only [wfB] at hw
    simp only [lvB] at hl
    show checkGeneral e ip (f + (fdBL ts + 3)) lvl _ _ = _
    rw [show f + (fdBL ts + 3) = (f + fdBL ts) + 3 from by omega]
    apply checkGeneral_tuple_ok e ip _ lvl ts (by unfold maxLevel at *; omega)
    intro p hp
    obtain ⟨hwp, hlp, hfp⟩ := wfBL_mem e ts p hw hp
    rw [withNext_lt (lvl + 1) _ (by unfold maxLevel at *; omega)]
    obtain ⟨d, hd⟩ : ∃ d, fdBL ts = fdB p + d := ⟨fdBL ts - fdB p, by omega⟩
    rw [hd, show f + (fdB p + d) = (f + d) + fdB p from by omega]
    exact reflB_tyL e ts hw p hp ip (f + d) (lvl + 1 + 1) (by omega)
  | .object fs, hw, ip, f, lvl, hl => by
    simp only [wfB, Bool.and_eq_true, decide_eq_true_eq] at hw
    simp only [lvB] at hl
    show checkGeneral e ip (f + (fdBF fs + 3)) lvl _ _ = _
    rw [show f + (fdBF fs + 3) = (f + fdBF fs) + 3 from by omega]
    apply checkGeneral_object_ok e ip _ lvl fs (by rw [← keysOf_eq]; exact hw.2)
      (by unfold maxLevel at *; omega)
    intro kt hkt
    obtain ⟨hwp, hlp, hfp⟩ := wfBF_mem e fs kt.1 kt.2 hw.1 hkt
    rw [withNext_lt lvl _ (by unfold maxLevel at *; omega),
      withNext_lt (lvl + 1) _ (by unfold maxLevel at *; omega)]
    obtain ⟨d, hd⟩ : ∃ d, fdBF fs = fdB kt.2 + d := ⟨fdBF fs - fdB kt.2, by omega⟩
    rw [hd, show f + (fdB kt.2 + d) = (f + d) + fdB kt.2 from by omega]
    exact reflB_fdL e fs hw.1 kt hkt ip (f + d) (lvl + 1 + 1) (by omega)
  | .array b, hw, ip, f, lvl, hl => by
    simp only [wfB, Bool.and_eq_true] at hw
    obtain ⟨hw, hra⟩ := hw
    simp only [lvB] at hl
    have hlt : lvl < maxLevel := by unfold maxLevel at *; omega
    have ihb := reflB_ty e b hw
    show checkGeneral e ip (f + (fdB b + 10)) lvl _ _ = _
    rw [show f + (fdB b + 10) = (f + fdB b + 7) + 3 from by omega]
    apply checkGeneral_array_ok
    rw [withNext_lt lvl _ hlt]
    by_cases harr : e.arrayIndex = true
    · rw [if_pos harr]
      -- strict array index: the element type becomes `b | nil`
      match b, hw, hra, hl, ihb with
      | .prim k, hw, _, hl, _ =>
        have hatom : isAtom e (.prim k) = true := by simpa [wfB, isAtom] using hw
        by_cases hk1 : k = .nil
        · subst hk1
          rw [union_nil_nil]
          exact atom_refl e ip (f + fdB (.prim .nil) + 5) (lvl + 1) _ rfl
        · by_cases hk2 : k = .any
          · subst hk2
            rw [union_any_nil]
            exact checkGeneral_compact_likeAny e ip _ (lvl + 1) _ _ rfl
          · have hpl : Plain (.prim k) := by
              refine ⟨rfl, ?_, ?_⟩
              · intro h; cases h; exact hk2 rfl
              · intro h; cases h; simp [wfB] at hw
            have hne : (Ty.prim k) ≠ tNil := by intro h; cases h; exact hk1 rfl
            rw [union_plain_nil e _ hpl hne]
            have hnd : [Ty.prim k, tNil].Nodup := by simp [hne]
            have hperm := mkUnionVec_perm [Ty.prim k, tNil] hnd
            rw [show f + fdB (.prim k) + 7 = (f + 4) + 5 from by simp [fdB]]
            apply array_step_union e ip (f + 4) (lvl + 1) _ (.prim k)
            · intro m hm
              have := hperm.mem_iff.mp hm
              simp at this
              rcases this with rfl | rfl
              · exact hatom
              · rfl
            · exact hperm.mem_iff.mpr (by simp)
            · unfold maxLevel at *; omega
      | .lit c, _, _, hl, _ =>
        have hpl : Plain (.lit c) := ⟨rfl, by simp, by simp⟩
        have hne : (Ty.lit c) ≠ tNil := by simp
        rw [union_plain_nil e _ hpl hne, mkUnionVec_pair_l _ rfl hne,
          show f + fdB (.lit c) + 7 = (f + 4) + 5 from by simp [fdB]]
        apply array_step_union e ip (f + 4) (lvl + 1) _ (.lit c)
        · intro m hm; simp at hm; rcases hm with rfl | rfl <;> rfl
        · simp
        · unfold maxLevel at *; omega
      | .ref n, hw, hra, hl, _ =>
        have hok : arrOk e (.ref n) = true := by simpa [Ty.isRef] using hra
        rw [show f + fdB (.ref n) + 7 = (f + 8) + 1 from by simp [fdB]]
        exact array_step_ref e ip (f + 8) (lvl + 1) n hok
      | .func _, hw, _, _, _ => simp [wfB] at hw
      | .union l, hw, _, hl, _ =>
        simp only [wfB, Bool.and_eq_true, decide_eq_true_eq] at hw
        simp only [lvB] at hl
        obtain ⟨k, hk, hwk, hms, hlv, hfd⟩ := mixed_witness e l hw.1.1
        show checkGeneral e ip (f + (max (fdL l) 3 + 7) + 7) (lvl + 1) _ _ = _
        obtain ⟨d, hd⟩ : ∃ d, max (fdL l) 3 = fd k + d := ⟨max (fdL l) 3 - fd k, by omega⟩
        rw [hd, show f + (fd k + d + 7) + 7 = (f + d + 7) + fd k + 7 from by omega]
        exact array_step_mixed e ip (f + d + 7) (lvl + 1) l k hk hwk hms hw.1.2 hw.2
          (by unfold maxLevel at *; omega) (by unfold maxLevel at *; omega)
      | .array b', hw, _, hl, ihb =>
        rw [show f + fdB (.array b') + 7 = (f + 5 + fdB (.array b')) + 2 from by omega]
        exact array_step_compound e ip _ (lvl + 1) _ ⟨rfl, by simp, by simp⟩ rfl rfl rfl rfl
          (by unfold maxLevel at *; omega)
          (ihb ip (f + 5) (lvl + 1 + 1) (by omega))
      | .tuple ts, hw, _, hl, ihb =>
        rw [show f + fdB (.tuple ts) + 7 = (f + 5 + fdB (.tuple ts)) + 2 from by omega]
        exact array_step_compound e ip _ (lvl + 1) _ ⟨rfl, by simp, by simp⟩ rfl rfl rfl rfl
          (by unfold maxLevel at *; omega)
          (ihb ip (f + 5) (lvl + 1 + 1) (by omega))
      | .tgen ps, hw, _, hl, ihb =>
        rw [show f + fdB (.tgen ps) + 7 = (f + 5 + fdB (.tgen ps)) + 2 from by omega]
        exact array_step_compound e ip _ (lvl + 1) _ ⟨rfl, by simp, by simp⟩ rfl rfl rfl rfl
          (by unfold maxLevel at *; omega)
          (ihb ip (f + 5) (lvl + 1 + 1) (by omega))
      | .object fs, hw, _, hl, ihb =>
        rw [show f + fdB (.object fs) + 7 = (f + 5 + fdB (.object fs)) + 2 from by omega]
        exact array_step_compound e ip _ (lvl + 1) _ ⟨rfl, by simp, by simp⟩ rfl rfl rfl rfl
          (by unfold maxLevel at *; omega)
          (ihb ip (f + 5) (lvl + 1 + 1) (by omega))
    · rw [if_neg harr, show f + fdB b + 7 = (f + 7) + fdB b from by omega]
      exact ihb ip (f + 7) (lvl + 1) (by omega)
theorem reflB_tyL (e : Env) : (ts : TyL) → wfBL e ts = true → ∀ p ∈ ts.toList,
    ∀ (ip : List (Name × Ty)) (f lvl : Nat), lvl + lvB p ≤ maxLevel → checkGeneral e ip (f + fdB p) lvl p p = .ok
  | .nil, _, p, hp => by simp [TyL.toList] at hp
  | .cons t ts, hw, p, hp => by
    simp only [wfBL, Bool.and_eq_true] at hw
    simp only [TyL.toList, List.mem_cons] at hp
    rcases hp with h | hp
    · rw [h]; exact reflB_ty e t hw.1
    · exact reflB_tyL e ts hw.2 p hp
theorem reflB_fdL (e : Env) : (fs : FdL) → wfBF e fs = true → ∀ kt ∈ fs.toList,
    ∀ (ip : List (Name × Ty)) (f lvl : Nat), lvl + lvB kt.2 ≤ maxLevel →
      checkGeneral e ip (f + fdB kt.2) lvl kt.2 kt.2 = .ok
  | .nil, _, kt, hp => by simp [FdL.toList] at hp
  | .cons k t fs, hw, kt, hp => by
    simp only [wfBF, Bool.and_eq_true] at hw
    simp only [FdL.toList, List.mem_cons] at hp
    rcases hp with h | hp
    · rw [h]; exact reflB_ty e t hw.1
    · exact reflB_fdL e fs hw.2 kt hp
end

end TyM
